(* C14 (model side, stage 1): the priority queue of the partial solution is up to date at every decision
   point.  Invariants [layout] (shape of the assignment map: decisions first, in level order; levels of dated
   derivations monotone) and [coveredP] / [covered] (every undecided package with a positive term is queued
   with a priority reported for its current set, or will be re-prioritised by the next pick, up to a set of
   exceptions: packages popped by a pick and not decided) are threaded through add_derivation, add_decision,
   ps_backtrack, the pick step, scan_incompats, conflict_resolution, unit_propagation and resolve_loop.
   Final statement [resolve_log]: at every decision point of the log, every undecided positive package that
   was not itself chosen at an earlier decision point is queued for its current set.  That the package popped
   by the previous pick is re-queued by unit propagation is a semantic fact about [relation] (stage 2); the
   one-iteration lemmas [iteration_entry_ok] / [iteration_next_covered] are the interface for it. *)
From Coq Require Import List NArith ZArith Bool Lia PeanoNat.
From PG Require Import Model.VS Model.Term Model.Solver Proofs.AssocProofs Proofs.SolverStore Proofs.SolverProtocol.
Import ListNotations.

Section Queue.
  Context {VS Vr : Type} (O : VSOps VS Vr) (veqb : Vr -> Vr -> bool).

  Notation tm := (term VS).
  Notation pa := (@pa VS Vr).
  Notation dated := (@dated VS).
  Notation psol := (@psol VS Vr).
  Notation state := (@state VS Vr).
  Notation event := (@event VS Vr).
  Notation pick_info := (@pick_info VS).

  (* ---------------------------------------------------------------- lists, positions *)
  Lemma nth_error_map_fst {A B} (l : list (A * B)) i :
    nth_error (map fst l) i = option_map fst (nth_error l i).
  Proof. revert i; induction l as [|x l IH]; intros [|i]; cbn; auto. Qed.

  Lemma nth_keys (m : list (pkg * pa)) i q a : nth_error m i = Some (q, a) -> nth_error (keys m) i = Some q.
  Proof. intros H. unfold keys. now rewrite nth_error_map_fst, H. Qed.

  Lemma nth_unique (m : list (pkg * pa)) i j q a b :
    NoDup (keys m) -> nth_error m i = Some (q, a) -> nth_error m j = Some (q, b) -> i = j.
  Proof.
    intros Hnd Hi Hj. rewrite NoDup_nth_error in Hnd. apply Hnd.
    - unfold keys. rewrite map_length. apply nth_error_Some. congruence.
    - now rewrite (nth_keys _ _ _ _ Hi), (nth_keys _ _ _ _ Hj).
  Qed.

  Lemma nth_get (m : list (pkg * pa)) i q a : NoDup (keys m) -> nth_error m i = Some (q, a) -> get q m = Some a.
  Proof. intros Hnd Hi. apply In_get; [exact Hnd|]. eapply nth_error_In; eauto. Qed.

  Lemma index_of_shift q (m : list (pkg * pa)) k : index_of q m (S k) = option_map S (index_of q m k).
  Proof.
    revert k; induction m as [|[x b] m IH]; intros k; cbn; [reflexivity|]. destruct (N.eqb q x); [reflexivity|apply IH].
  Qed.

  Lemma index_of_None q (m : list (pkg * pa)) : index_of q m 0 = None <-> get q m = None.
  Proof.
    induction m as [|[x b] m IH]; cbn; [tauto|]. destruct (N.eqb q x); [split; discriminate|].
    rewrite index_of_shift. destruct (index_of q m 0); cbn in *; [|tauto].
    split; [discriminate|]. intros H. apply IH in H. discriminate.
  Qed.

  (* the position of a key: the entry there, and what [set] does *)
  Lemma index_of_spec q (m : list (pkg * pa)) : forall idx,
    index_of q m 0 = Some idx ->
    exists a, nth_error m idx = Some (q, a) /\ get q m = Some a
              /\ (forall a', length (set q a' m) = length m)
              /\ forall a' i, nth_error (set q a' m) i = if Nat.eqb i idx then Some (q, a') else nth_error m i.
  Proof.
    induction m as [|[x b] m IH]; intros idx; cbn; [discriminate|].
    destruct (N.eqb_spec q x) as [->|Hne].
    - intros H. injection H as <-. exists b. repeat split. intros a' [|i]; reflexivity.
    - rewrite index_of_shift. destruct (index_of q m 0) as [j|]; cbn; [|discriminate].
      intros H. injection H as <-. destruct (IH j eq_refl) as (a & Hn & Hg & Hl & Hs). exists a.
      split; [exact Hn|]. split; [exact Hg|]. split; [intros a'; cbn; now rewrite Hl|].
      intros a' [|i]; cbn; [reflexivity|]. apply Hs.
  Qed.

  Lemma get_index_of q (m : list (pkg * pa)) a : get q m = Some a -> exists idx, index_of q m 0 = Some idx.
  Proof.
    intros H. destruct (index_of q m 0) as [i|] eqn:E; [eauto|]. apply index_of_None in E. congruence.
  Qed.

  Lemma swap_length {A} (l : list A) i j : length (swap_indices l i j) = length l.
  Proof.
    unfold swap_indices. destruct (nth_error l i); [|reflexivity]. destruct (nth_error l j); [|reflexivity].
    now rewrite map_length, combine_length, seq_length, Nat.min_id.
  Qed.

  Lemma nth_error_combine_seq {A} (l : list A) : forall s k,
    nth_error (combine (seq s (length l)) l) k = option_map (fun x => (s + k, x)) (nth_error l k).
  Proof.
    induction l as [|x l IH]; intros s [|k]; cbn; try reflexivity.
    - now rewrite Nat.add_0_r.
    - rewrite IH. destruct (nth_error l k); cbn; [|reflexivity]. do 2 f_equal. lia.
  Qed.

  Lemma swap_nth {A} (l : list A) i j k :
    i < length l -> j < length l ->
    nth_error (swap_indices l i j) k = nth_error l (if Nat.eqb k i then j else if Nat.eqb k j then i else k).
  Proof.
    intros Hi Hj. unfold swap_indices.
    destruct (nth_error l i) as [a|] eqn:Ei; [|apply nth_error_None in Ei; lia].
    destruct (nth_error l j) as [b|] eqn:Ej; [|apply nth_error_None in Ej; lia].
    rewrite nth_error_map, nth_error_combine_seq. cbn [plus].
    destruct (Nat.eqb_spec k i) as [->|Hki].
    - rewrite Ei. cbn. now rewrite Nat.eqb_refl.
    - destruct (Nat.eqb_spec k j) as [->|Hkj].
      + rewrite Ej. cbn. destruct (Nat.eqb_spec j i); [lia|]. now rewrite Nat.eqb_refl.
      + destruct (nth_error l k) as [x|]; cbn; [|reflexivity].
        destruct (Nat.eqb_spec k i); [lia|]. destruct (Nat.eqb_spec k j); [lia|reflexivity].
  Qed.

  Lemma swap_nodup (m : list (pkg * pa)) i j :
    i < length m -> j < length m -> NoDup (keys m) -> NoDup (keys (swap_indices m i j)).
  Proof.
    intros Hi Hj Hnd. rewrite NoDup_nth_error in *. unfold keys in *. rewrite map_length in *.
    rewrite swap_length. intros a b Ha. rewrite !nth_error_map_fst, !swap_nth by assumption.
    rewrite <- !nth_error_map_fst. intros E. apply Hnd in E.
    - destruct (Nat.eqb_spec a i), (Nat.eqb_spec b i), (Nat.eqb_spec a j), (Nat.eqb_spec b j); lia.
    - destruct (Nat.eqb_spec a i); [lia|]. destruct (Nat.eqb_spec a j); lia.
  Qed.

  (* ---------------------------------------------------------------- the invariants *)
  Definition decided (a : pa) : bool := match ai a with ADecision _ _ _ => true | ADerivations _ => false end.
  Definition pos_set (a : pa) : option VS := match ai a with ADerivations (Pos s) => Some s | _ => None end.

  (* the decision levels of the dated derivations of a package are non-decreasing, starting from [lo] *)
  Fixpoint mono (lo : nat) (l : list dated) : Prop :=
    match l with [] => True | d :: r => lo <= d_level d /\ mono (d_level d) r end.

  Definition pa_ok (lvl : nat) (a : pa) : Prop :=
    smallest a <= highest a /\ highest a <= lvl /\ mono (smallest a) (derivs a)
    /\ Forall (fun dd => d_level dd <= highest a) (derivs a).

  (* layout of the assignment map: decisions occupy the prefix [0, level) in level order *)
  Record layout (p : psol) : Prop := {
    lay_len  : level p <= length (assignments p);
    lay_keys : NoDup (keys (assignments p));
    lay_dec  : forall i q a, nth_error (assignments p) i = Some (q, a) -> i < level p -> decided a = true /\ highest a = S i;
    lay_der  : forall i q a, nth_error (assignments p) i = Some (q, a) -> level p <= i -> decided a = false;
    lay_lvl  : forall i q a, nth_error (assignments p) i = Some (q, a) -> pa_ok (level p) a;
  }.

  Definition fresh (p : psol) (q : pkg) (s : VS) : Prop := exists z, get q (queue p) = Some (z, s).
  Definition pending (p : psol) (i : nat) (a : pa) : Prop :=
    changed p <= i /\ (changed p = Nat.pred (level p) \/ highest a = level p).
  (* [E]: the packages that may be neither *)
  Definition coveredP (p : psol) (E : pkg -> Prop) : Prop :=
    forall i q a s, nth_error (assignments p) i = Some (q, a) -> pos_set a = Some s ->
      E q \/ fresh p q s \/ pending p i a.
  (* at most one exception (the package popped by the last pick and not decided) *)
  Definition covered (p : psol) (exc : option pkg) : Prop := coveredP p (fun q => Some q = exc).

  Lemma coveredP_weaken p (E E' : pkg -> Prop) : (forall x, E x -> E' x) -> coveredP p E -> coveredP p E'.
  Proof. intros HE H i q a s Hn Hs. destruct (H i q a s Hn Hs) as [H1|H1]; [left; auto|now right]. Qed.

  Lemma covered_weaken p exc : covered p None -> covered p exc.
  Proof. apply coveredP_weaken. discriminate. Qed.

  Lemma pos_set_undecided a s : pos_set a = Some s -> decided a = false.
  Proof. unfold pos_set, decided. destruct (ai a); [discriminate|reflexivity]. Qed.

  Lemma undecided_pos p i q a : layout p -> nth_error (assignments p) i = Some (q, a) -> decided a = false -> level p <= i.
  Proof.
    intros Hl Hn Hd. destruct (Nat.le_gt_cases (level p) i) as [|Hlt]; [assumption|].
    destruct (lay_dec p Hl i q a Hn Hlt). congruence.
  Qed.

  (* right after a backtrack (or whenever [changed] points just below the current level) everything undecided
     is pending *)
  Lemma covered_check_all p E : layout p -> changed p = Nat.pred (level p) -> coveredP p E.
  Proof.
    intros Hl Hc i q a s Hn Hs. right. right. split; [|now left].
    pose proof (undecided_pos p i q a Hl Hn (pos_set_undecided a s Hs)). lia.
  Qed.

  Lemma mono_snoc l : forall lo dd, mono lo l -> Forall (fun d => d_level d <= d_level dd) l -> lo <= d_level dd -> mono lo (l ++ [dd]).
  Proof.
    induction l as [|d l IH]; intros lo dd Hm Hf Hlo; cbn; [auto|].
    destruct Hm as [H1 H2]. inversion Hf; subst. split; [exact H1|]. apply IH; assumption.
  Qed.

  Lemma mono_prefix l : forall lo l2, mono lo (l ++ l2) -> mono lo l.
  Proof. induction l as [|d l IH]; intros lo l2; cbn; [auto|]. intros [H1 H2]. split; [exact H1|eauto]. Qed.

  Lemma mono_bounds l : forall lo last, mono lo (l ++ [last]) -> Forall (fun d => lo <= d_level d /\ d_level d <= d_level last) (l ++ [last]).
  Proof.
    induction l as [|d l IH]; intros lo last; cbn.
    - intros [H _]. constructor; [lia|constructor].
    - intros [H1 H2]. specialize (IH _ _ H2). constructor.
      + split; [exact H1|]. rewrite Forall_forall in IH. destruct (IH last); [apply in_or_app; right; now left|]. lia.
      + eapply Forall_impl; [|exact IH]. cbn. intros x Hx. lia.
  Qed.

  (* ---------------------------------------------------------------- add_derivation *)
  (* pointwise description of one derivation step *)
  Lemma add_derivation_char p q cause cts p' :
    layout p -> add_derivation O p q cause cts = Good p' ->
    level p' = level p /\ queue p' = queue p /\
    exists idx a',
      level p <= idx /\ idx <= length (assignments p)
      /\ length (assignments p') = Nat.max (length (assignments p)) (S idx)
      /\ NoDup (keys (assignments p'))
      /\ (forall i, nth_error (assignments p') i = if Nat.eqb i idx then Some (q, a') else nth_error (assignments p) i)
      /\ (forall i x b, nth_error (assignments p) i = Some (x, b) -> x = q -> i = idx)
      /\ decided a' = false /\ highest a' = level p /\ pa_ok (level p) a'
      /\ changed p' <= changed p
      /\ (forall s, pos_set a' = Some s -> changed p' <= idx)
      /\ (changed p = Nat.pred (level p) -> changed p' = changed p)
      /\ (forall a s, nth_error (assignments p) idx = Some (q, a) -> pos_set a = Some s -> exists s', pos_set a' = Some s').
  Proof.
    intros Hl. unfold add_derivation, bind, req. destruct (get q cts) as [ct|]; [|discriminate].
    destruct (index_of q (assignments p) 0) as [idx|] eqn:Ei.
    - destruct (index_of_spec q _ idx Ei) as (a & Hn & Hg & Hlen & Hset). rewrite Hg.
      destruct (ai a) as [|t] eqn:Ea; [discriminate|]. intros E. injection E as <-. cbn.
      assert (Hund : decided a = false) by (unfold decided; now rewrite Ea).
      pose proof (undecided_pos p idx q a Hl Hn Hund) as Hge.
      assert (Hlt : idx < length (assignments p)) by (apply nth_error_Some; congruence).
      destruct (lay_lvl p Hl idx q a Hn) as (K1 & K2 & K3 & K4).
      split; [reflexivity|]. split; [reflexivity|]. eexists idx, _.
      split; [exact Hge|]. split; [lia|]. split; [rewrite Hlen; lia|].
      split; [apply nodup_set, (lay_keys p Hl)|]. split; [apply Hset|].
      split; [intros i x b Hi ->; eapply nth_unique; [exact (lay_keys p Hl)|exact Hi|exact Hn]|].
      split; [reflexivity|]. split; [reflexivity|]. split.
      { unfold pa_ok; cbn. split; [lia|]. split; [lia|]. split.
        - apply mono_snoc; [exact K3| |cbn; lia]. cbn. eapply Forall_impl; [|exact K4]. cbn. intros; lia.
        - apply Forall_app. split; [eapply Forall_impl; [|exact K4]; cbn; intros; lia|]. constructor; [cbn; lia|constructor]. }
      split; [destruct (t_is_positive _); lia|].
      split.
      { intros s. unfold pos_set. cbn. destruct (t_intersection O t (t_negate ct)); [cbn; lia|discriminate]. }
      split; [destruct (t_is_positive _); lia|].
      intros a0 s Hn0 Hs. rewrite Hn in Hn0. injection Hn0 as <-. unfold pos_set in *. rewrite Ea in Hs. cbn.
      destruct t as [s0|]; [|discriminate]. destruct (t_negate ct); cbn; eauto.
    - apply index_of_None in Ei.
      intros E. injection E as <-. cbn. pose proof (lay_len p Hl) as Hlen.
      split; [reflexivity|]. split; [reflexivity|]. eexists (length (assignments p)), _.
      split; [exact Hlen|]. split; [lia|]. split; [rewrite app_length; cbn; lia|].
      split; [apply nodup_snoc; [exact (lay_keys p Hl)|exact Ei]|].
      split.
      { intros i. destruct (Nat.eqb_spec i (length (assignments p))) as [->|Hne].
        - rewrite nth_error_app2 by lia. now rewrite Nat.sub_diag.
        - destruct (Nat.lt_ge_cases i (length (assignments p))).
          + now rewrite nth_error_app1.
          + rewrite nth_error_app2 by lia. destruct (i - length (assignments p)) as [|k] eqn:Ek; [lia|].
            cbn. destruct k; cbn; symmetry; apply nth_error_None; lia. }
      split.
      { intros i x b Hi ->. apply nth_get in Hi; [congruence|exact (lay_keys p Hl)]. }
      split; [reflexivity|]. split; [reflexivity|]. split.
      { unfold pa_ok; cbn. split; [lia|]. split; [lia|]. split; [auto|]. constructor; [cbn; lia|constructor]. }
      split; [destruct (t_is_positive _); lia|].
      split.
      { intros s. unfold pos_set. cbn. destruct (t_negate ct); [cbn; lia|discriminate]. }
      split; [destruct (t_is_positive _); lia|].
      intros a s Hn. exfalso. assert (Hx : nth_error (assignments p) (length (assignments p)) <> None) by congruence.
      apply nth_error_Some in Hx. lia.
  Qed.

  Lemma add_derivation_layout p q cause cts p' :
    layout p -> add_derivation O p q cause cts = Good p' -> layout p'.
  Proof.
    intros Hl E. destruct (add_derivation_char p q cause cts p' Hl E)
      as (Elv & _ & idx & a' & Hge & Hle & Hlen & Hnd & Hnth & _ & Hdec & Hhi & Hok & _).
    constructor.
    - rewrite Elv, Hlen. pose proof (lay_len p Hl). lia.
    - exact Hnd.
    - intros i x a Hn Hi. rewrite Hnth in Hn. destruct (Nat.eqb_spec i idx); [lia|].
      rewrite Elv in *. exact (lay_dec p Hl i x a Hn Hi).
    - intros i x a Hn Hi. rewrite Hnth in Hn. destruct (Nat.eqb_spec i idx); [now injection Hn as <- <-|].
      rewrite Elv in *. exact (lay_der p Hl i x a Hn Hi).
    - intros i x a Hn. rewrite Hnth in Hn. rewrite Elv. destruct (Nat.eqb_spec i idx); [now injection Hn as <- <-|].
      exact (lay_lvl p Hl i x a Hn).
  Qed.

  (* a derivation never loses coverage; the package it is for becomes pending (or negative) *)
  Lemma add_derivation_coveredP p q cause cts p' E :
    layout p -> coveredP p E -> add_derivation O p q cause cts = Good p' -> coveredP p' (fun x => x <> q /\ E x).
  Proof.
    intros Hl Hc E0. destruct (add_derivation_char p q cause cts p' Hl E0)
      as (Elv & Eq & idx & a' & Hge & Hle & Hlen & Hnd & Hnth & Huniq & Hdec & Hhi & Hok & Hch1 & Hch2 & Hch3 & _).
    intros i x a s Hn Hs. rewrite Hnth in Hn. destruct (Nat.eqb_spec i idx) as [->|Hne].
    - injection Hn as <- <-. right. right. split; [eauto|]. right. congruence.
    - assert (Hxq : x <> q) by (intros ->; apply Hne; eapply Huniq; eauto).
      destruct (Hc i x a s Hn Hs) as [He|[Hf|[Hp1 Hp2]]].
      + left. split; assumption.
      + right. left. unfold fresh in *. now rewrite Eq.
      + right. right. split; [lia|]. rewrite Elv. destruct Hp2 as [Hp2|Hp2]; [left|now right].
        rewrite (Hch3 Hp2). exact Hp2.
  Qed.

  Lemma add_derivation_coveredP_mono p q cause cts p' E :
    layout p -> coveredP p E -> add_derivation O p q cause cts = Good p' -> coveredP p' E.
  Proof.
    intros Hl Hc E0. eapply coveredP_weaken; [|eapply add_derivation_coveredP; eauto]. cbn. tauto.
  Qed.

  Lemma add_derivation_covered p q cause cts p' exc :
    layout p -> covered p exc -> add_derivation O p q cause cts = Good p' -> covered p' exc.
  Proof. apply add_derivation_coveredP_mono. Qed.

  (* ... and a derivation for the exceptional package removes the exception *)
  Lemma add_derivation_covered_exc p q cause cts p' :
    layout p -> covered p (Some q) -> add_derivation O p q cause cts = Good p' -> covered p' None.
  Proof.
    intros Hl Hc E0. eapply coveredP_weaken; [|eapply add_derivation_coveredP; eauto]. cbn. intros x [H1 H2]. congruence.
  Qed.

  (* a positive term stays positive under further derivations *)
  Lemma add_derivation_stays_positive p q cause cts p' a s :
    layout p -> add_derivation O p q cause cts = Good p' -> get q (assignments p) = Some a -> pos_set a = Some s ->
    exists a' s', get q (assignments p') = Some a' /\ pos_set a' = Some s'.
  Proof.
    intros Hl E Hg Hs. destruct (add_derivation_char p q cause cts p' Hl E)
      as (_ & _ & idx & a' & _ & _ & _ & Hnd & Hnth & Huniq & _ & _ & _ & _ & _ & _ & Hpos).
    destruct (get_index_of q _ a Hg) as (j & Hj). destruct (index_of_spec q _ j Hj) as (b & Hb & Hgb & _).
    assert (b = a) by congruence. subst b. assert (j = idx) by (eapply Huniq; eauto). subst j.
    destruct (Hpos a s Hb Hs) as (s' & Hs'). exists a', s'. split; [|exact Hs'].
    eapply nth_get; [exact Hnd|]. rewrite Hnth. now rewrite Nat.eqb_refl.
  Qed.

  (* ---------------------------------------------------------------- add_decision *)
  Lemma pa_ok_weaken l l' a : l <= l' -> pa_ok l a -> pa_ok l' a.
  Proof. intros H (A & B & C & D). repeat split; try assumption. lia. Qed.

  Lemma add_decision_char p q v p' :
    layout p -> add_decision O p q v = Good p' ->
    level p' = S (level p) /\ queue p' = queue p /\ changed p' = changed p
    /\ changed p = length (assignments p)
    /\ exists oi a a',
      level p <= oi /\ oi < length (assignments p) /\ nth_error (assignments p) oi = Some (q, a)
      /\ decided a = false
      /\ decided a' = true /\ highest a' = S (level p) /\ pa_ok (S (level p)) a'
      /\ length (assignments p') = length (assignments p)
      /\ NoDup (keys (assignments p'))
      /\ forall k, nth_error (assignments p') k =
                   if Nat.eqb k (level p) then Some (q, a')
                   else if Nat.eqb k oi then nth_error (assignments p) (level p)
                   else nth_error (assignments p) k.
  Proof.
    intros Hl. unfold add_decision. destruct (index_of q (assignments p) 0) as [oi|] eqn:Ei; [|discriminate].
    destruct (index_of_spec q _ oi Ei) as (a & Hn & Hg & Hlen & Hset). rewrite Hg.
    destruct (ai a) as [|t] eqn:Ea; [discriminate|].
    destruct (negb (t_contains O t v)); [discriminate|].
    destruct (Nat.eqb_spec (changed p) (length (assignments p))) as [Hch|]; [|discriminate]. cbn [negb].
    intros E. injection E as <-. cbn.
    assert (Hund : decided a = false) by (unfold decided; now rewrite Ea).
    pose proof (undecided_pos p oi q a Hl Hn Hund) as Hge.
    assert (Hlt : oi < length (assignments p)) by (apply nth_error_Some; congruence).
    destruct (lay_lvl p Hl oi q a Hn) as (K1 & K2 & K3 & K4).
    repeat (split; [reflexivity|]). split; [exact Hch|].
    exists oi, a, {| smallest := smallest a; highest := S (level p); derivs := derivs a;
                     ai := ADecision (next_gidx p) v (t_exact O v) |}.
    split; [exact Hge|]. split; [exact Hlt|]. split; [exact Hn|]. split; [exact Hund|].
    split; [reflexivity|]. split; [reflexivity|]. split.
    { unfold pa_ok; cbn. split; [lia|]. split; [lia|]. split; [exact K3|]. eapply Forall_impl; [|exact K4]. cbn; intros; lia. }
    destruct (Nat.eqb_spec (level p) oi) as [Heq|Hne].
    - split; [apply Hlen|]. split; [apply nodup_set, (lay_keys p Hl)|]. intros k. rewrite Hset, Heq.
      destruct (Nat.eqb_spec k oi); reflexivity.
    - split; [now rewrite swap_length, Hlen|].
      split; [apply swap_nodup; rewrite ?Hlen; try lia; apply nodup_set, (lay_keys p Hl)|].
      intros k. rewrite swap_nth by (rewrite Hlen; lia). rewrite Hset.
      destruct (Nat.eqb_spec k (level p)) as [->|Hk1].
      + now rewrite Nat.eqb_refl.
      + destruct (Nat.eqb_spec k oi) as [->|Hk2].
        * destruct (Nat.eqb_spec (level p) oi); [lia|reflexivity].
        * destruct (Nat.eqb_spec k oi); [lia|reflexivity].
  Qed.

  Lemma add_decision_layout p q v p' : layout p -> add_decision O p q v = Good p' -> layout p'.
  Proof.
    intros Hl E. destruct (add_decision_char p q v p' Hl E)
      as (Elv & _ & _ & _ & oi & a & a' & Hge & Hlt & Hn & Hund & Hdec & Hhi & Hok & Hlen & Hnd & Hnth).
    constructor.
    - lia.
    - exact Hnd.
    - intros k x b Hk Hlv. rewrite Hnth in Hk. rewrite Elv in Hlv.
      destruct (Nat.eqb_spec k (level p)) as [->|Hk1]; [injection Hk as <- <-; auto|].
      destruct (Nat.eqb_spec k oi); [lia|]. apply (lay_dec p Hl k x b Hk). lia.
    - intros k x b Hk Hlv. rewrite Hnth in Hk. rewrite Elv in Hlv.
      destruct (Nat.eqb_spec k (level p)) as [->|Hk1]; [lia|].
      destruct (Nat.eqb_spec k oi).
      + apply (lay_der p Hl (level p) x b Hk). lia.
      + apply (lay_der p Hl k x b Hk). lia.
    - intros k x b Hk. rewrite Hnth in Hk. rewrite Elv.
      destruct (Nat.eqb_spec k (level p)) as [->|Hk1]; [now injection Hk as <- <-|].
      apply (pa_ok_weaken (level p)); [lia|].
      destruct (Nat.eqb_spec k oi); eapply (lay_lvl p Hl); exact Hk.
  Qed.

  (* deciding the exceptional package right after a pick (changed = number of assignments) *)
  Lemma add_decision_coveredP p q v p' E :
    layout p -> coveredP p E -> add_decision O p q v = Good p' -> coveredP p' (fun x => x <> q /\ E x).
  Proof.
    intros Hl Hc E0. destruct (add_decision_char p q v p' Hl E0)
      as (Elv & Eq & Ech & Hch & oi & a & a' & Hge & Hlt & Hn & Hund & Hdec & Hhi & Hok & Hlen & Hnd & Hnth).
    assert (Hold : forall j x b s, nth_error (assignments p) j = Some (x, b) -> j <> oi -> pos_set b = Some s ->
                                   (x <> q /\ E x) \/ fresh p' x s).
    { intros j x b s Hj Hne Hs. destruct (Hc j x b s Hj Hs) as [He|[Hf|[Hp _]]].
      - left. split; [|exact He]. intros ->. apply Hne. eapply nth_unique; [exact (lay_keys p Hl)|exact Hj|exact Hn].
      - right. unfold fresh in *. now rewrite Eq.
      - exfalso. assert (j < length (assignments p)) by (apply nth_error_Some; congruence). lia. }
    intros k x b s Hk Hs. rewrite Hnth in Hk.
    cut ((x <> q /\ E x) \/ fresh p' x s); [tauto|].
    destruct (Nat.eqb_spec k (level p)) as [->|Hk1].
    - injection Hk as <- <-. apply pos_set_undecided in Hs. congruence.
    - destruct (Nat.eqb_spec k oi) as [->|Hk2].
      + eapply Hold; [exact Hk|lia|exact Hs].
      + eapply Hold; [exact Hk|exact Hk2|exact Hs].
  Qed.

  Lemma add_decision_covered p q v p' :
    layout p -> covered p (Some q) -> add_decision O p q v = Good p' -> covered p' None.
  Proof.
    intros Hl Hc E0. eapply coveredP_weaken; [|eapply add_decision_coveredP; eauto]. cbn. intros x [H1 H2]. congruence.
  Qed.

  (* ---------------------------------------------------------------- backtracking *)
  Lemma Forall_nth {A} (P : A -> Prop) (l : list A) : (forall i x, nth_error l i = Some x -> P x) -> Forall P l.
  Proof. intros H. apply Forall_forall. intros x Hx. apply In_nth_error in Hx. destruct Hx as (i & Hi). eauto. Qed.

  Lemma Forall_at {A} (P : A -> Prop) (l : list A) i x : Forall P l -> nth_error l i = Some x -> P x.
  Proof. intros H Hn. rewrite Forall_forall in H. apply H. eapply nth_error_In; eauto. Qed.

  Lemma drop_while_gt_spec Lv (l : list dated) :
    exists pre, l = pre ++ drop_while_gt Lv l
                /\ match drop_while_gt Lv l with [] => True | x :: _ => d_level x <= Lv end.
  Proof.
    induction l as [|d l (pre & E & H)]; cbn [drop_while_gt]; [exists []; auto|].
    destruct (Nat.ltb_spec Lv (d_level d)).
    - exists (d :: pre). split; [cbn; now rewrite <- E|exact H].
    - exists []. split; [reflexivity|lia].
  Qed.

  Lemma backtrack_pa_spec Lv lvl (a a' : pa) :
    pa_ok lvl a -> (decided a = true -> Lv < highest a) -> backtrack_pa Lv a = Good (Some a') ->
    decided a' = false /\ pa_ok Lv a'.
  Proof.
    intros (K1 & K2 & K3 & K4) Hdec. unfold backtrack_pa.
    destruct (Nat.ltb_spec Lv (smallest a)); [discriminate|].
    destruct (Nat.leb_spec (highest a) Lv).
    - intros E. injection E as <-. split.
      + destruct (decided a); [specialize (Hdec eq_refl); lia|reflexivity].
      + repeat split; try assumption.
    - destruct (drop_while_gt_spec Lv (rev (derivs a))) as (pre & Epre & Hhd).
      rewrite rev_involutive. destruct (drop_while_gt Lv (rev (derivs a))) as [|lst r]; [discriminate|].
      intros E. injection E as <-. split; [reflexivity|].
      assert (Ed : derivs a = (rev r ++ [lst]) ++ rev pre).
      { rewrite <- (rev_involutive (derivs a)), Epre, rev_app_distr. reflexivity. }
      cbn [rev]. rewrite Ed in K3. apply mono_prefix in K3. pose proof (mono_bounds _ _ _ K3) as Hb.
      unfold pa_ok; cbn.
      assert (Hl : smallest a <= d_level lst /\ d_level lst <= d_level lst).
      { rewrite Forall_forall in Hb. apply Hb. apply in_or_app. right. now left. }
      split; [lia|]. split; [lia|]. split; [exact K3|]. eapply Forall_impl; [|exact Hb]. cbn. intros; lia.
  Qed.

  Lemma backtrack_asg_app Lv (m1 m2 : list (pkg * pa)) :
    backtrack_asg Lv (m1 ++ m2) =
    match backtrack_asg Lv m1, backtrack_asg Lv m2 with
    | Good r1, Good r2 => Good (r1 ++ r2)
    | Panic s, _ => Panic s
    | Good _, Panic s => Panic s
    end.
  Proof.
    induction m1 as [|[q a] m1 IH]; cbn [app backtrack_asg]; [destruct (backtrack_asg Lv m2); reflexivity|].
    unfold bind. destruct (backtrack_pa Lv a) as [oa|]; [|reflexivity]. rewrite IH.
    destruct (backtrack_asg Lv m1); [|reflexivity]. destruct (backtrack_asg Lv m2); [|reflexivity].
    destruct oa; reflexivity.
  Qed.

  Lemma backtrack_asg_id Lv (m : list (pkg * pa)) :
    Forall (fun e => smallest (snd e) <= highest (snd e) /\ highest (snd e) <= Lv) m -> backtrack_asg Lv m = Good m.
  Proof.
    induction 1 as [|[q a] m [H1 H2] _ IH]; cbn [backtrack_asg]; [reflexivity|]. cbn in H1, H2.
    unfold bind, backtrack_pa. destruct (Nat.ltb_spec Lv (smallest a)); [lia|].
    destruct (Nat.leb_spec (highest a) Lv); [|lia]. now rewrite IH.
  Qed.

  Lemma backtrack_asg_tail Lv lvl (m : list (pkg * pa)) : forall m',
    Forall (fun e => pa_ok lvl (snd e) /\ (decided (snd e) = true -> Lv < highest (snd e))) m ->
    backtrack_asg Lv m = Good m' -> Forall (fun e => decided (snd e) = false /\ pa_ok Lv (snd e)) m'.
  Proof.
    induction m as [|[q a] m IH]; intros m' H; cbn [backtrack_asg].
    - intros E. injection E as <-. constructor.
    - inversion H as [|? ? [Ha Hd] Hm]; subst. unfold bind.
      destruct (backtrack_pa Lv a) as [oa|] eqn:Ea; [|discriminate].
      destruct (backtrack_asg Lv m) as [r'|]; [|discriminate].
      intros E. injection E as <-. specialize (IH r' Hm eq_refl).
      destruct oa as [x|]; [|exact IH]. constructor; [|exact IH]. cbn [snd] in *.
      eapply backtrack_pa_spec; eauto.
  Qed.

  Lemma backtrack_asg_keys Lv (m : list (pkg * pa)) : forall m',
    backtrack_asg Lv m = Good m' -> (forall x, In x (keys m') -> In x (keys m)) /\ (NoDup (keys m) -> NoDup (keys m')).
  Proof.
    induction m as [|[q a] m IH]; intros m'; cbn [backtrack_asg].
    - intros E. injection E as <-. auto.
    - unfold bind. destruct (backtrack_pa Lv a) as [oa|]; [|discriminate].
      destruct (backtrack_asg Lv m) as [r'|]; [|discriminate].
      intros E. injection E as <-. destruct (IH r' eq_refl) as [I1 I2]. destruct oa as [x|]; cbn.
      + split; [intros y [Hy|Hy]; auto|]. intros Hnd. inversion Hnd; subst. constructor; auto.
      + split; [auto|]. intros Hnd. inversion Hnd; subst. auto.
  Qed.

  Lemma ps_backtrack_layout p Lv p' :
    layout p -> Lv <= level p -> ps_backtrack p Lv = Good p' -> layout p' /\ forall E, coveredP p' E.
  Proof.
    intros Hl HL. unfold ps_backtrack, bind.
    destruct (backtrack_asg Lv (assignments p)) as [asg|] eqn:E; [|discriminate].
    intros Eg. injection Eg as <-.
    pose proof (lay_len p Hl) as Hlen.
    set (m1 := firstn Lv (assignments p)). set (m2 := skipn Lv (assignments p)).
    assert (Esplit : assignments p = m1 ++ m2) by (symmetry; apply firstn_skipn).
    assert (Hlen1 : length m1 = Lv) by (apply firstn_length_le; lia).
    assert (H1 : forall i x, nth_error m1 i = Some x -> i < Lv /\ nth_error (assignments p) i = Some x).
    { intros i x Hi. assert (i < length m1) by (apply nth_error_Some; congruence).
      split; [lia|]. rewrite Esplit, nth_error_app1; assumption. }
    assert (H2 : forall i x, nth_error m2 i = Some x -> nth_error (assignments p) (Lv + i) = Some x).
    { intros i x Hi. rewrite Esplit, nth_error_app2 by lia. now replace (Lv + i - length m1) with i by lia. }
    assert (Eid : backtrack_asg Lv m1 = Good m1).
    { apply backtrack_asg_id. apply Forall_nth. intros i [x a] Hi. destruct (H1 _ _ Hi) as [Hlt Hn]. cbn.
      destruct (lay_dec p Hl i x a Hn) as [_ Hh]; [lia|]. destruct (lay_lvl p Hl i x a Hn) as (K1 & _). lia. }
    rewrite Esplit, backtrack_asg_app, Eid in E.
    destruct (backtrack_asg Lv m2) as [r2|] eqn:E2; [|discriminate]. injection E as <-.
    assert (Htail : Forall (fun e => decided (snd e) = false /\ pa_ok Lv (snd e)) r2).
    { eapply backtrack_asg_tail; [|exact E2]. apply Forall_nth. intros i [x a] Hi. apply H2 in Hi. cbn. split.
      - exact (lay_lvl p Hl _ x a Hi).
      - intros Hd. destruct (Nat.lt_ge_cases (Lv + i) (level p)) as [Hlt|Hge].
        + destruct (lay_dec p Hl _ x a Hi Hlt) as [_ Hh]. lia.
        + pose proof (lay_der p Hl _ x a Hi Hge). congruence. }
    assert (Hlay : layout {| next_gidx := next_gidx p; level := Lv; assignments := m1 ++ r2; queue := [];
                             changed := Nat.pred Lv; backtracked := true |}).
    { constructor; cbn.
      - rewrite app_length. lia.
      - assert (Ea : backtrack_asg Lv (m1 ++ m2) = Good (m1 ++ r2)) by (now rewrite backtrack_asg_app, Eid, E2).
        apply (backtrack_asg_keys _ _ _ Ea). rewrite <- Esplit. exact (lay_keys p Hl).
      - intros i x a Hi Hlt. rewrite nth_error_app1 in Hi by lia. destruct (H1 _ _ Hi) as [_ Hn].
        apply (lay_dec p Hl i x a Hn). lia.
      - intros i x a Hi Hge. rewrite nth_error_app2 in Hi by lia. exact (proj1 (Forall_at _ _ _ _ Htail Hi)).
      - intros i x a Hi. destruct (Nat.lt_ge_cases i Lv) as [Hlt|Hge].
        + rewrite nth_error_app1 in Hi by lia. destruct (H1 _ _ Hi) as [_ Hn].
          destruct (lay_dec p Hl i x a Hn) as [_ Hh]; [lia|]. destruct (lay_lvl p Hl i x a Hn) as (K1 & K2 & K3 & K4).
          repeat split; try assumption. lia.
        + rewrite nth_error_app2 in Hi by lia. exact (proj2 (Forall_at _ _ _ _ Htail Hi)). }
    split; [exact Hlay|]. intros E0. apply covered_check_all; [exact Hlay|reflexivity].
  Qed.

  Lemma ps_backtrack_covered p Lv p' :
    layout p -> Lv <= level p -> ps_backtrack p Lv = Good p' -> covered p' None.
  Proof. intros Hl HL E. apply (proj2 (ps_backtrack_layout p Lv p' Hl HL E)). Qed.

  (* ---------------------------------------------------------------- the pick step *)
  Lemma nth_error_skipn' {A} n : forall (l : list A) i, nth_error (skipn n l) i = nth_error l (n + i).
  Proof. induction n as [|n IH]; intros [|x l] i; cbn; auto. now destruct i. Qed.

  Lemma skipn_nodup {A} n (l : list A) : NoDup l -> NoDup (skipn n l).
  Proof.
    intros H. rewrite <- (firstn_skipn n l) in H. revert H. generalize (skipn n l). induction (firstn n l) as [|x f IH]; cbn; [auto|].
    intros l0 H. inversion H; subst. auto.
  Qed.

  Lemma do_prioritize_get cands : forall q (tr : list event) n q' tr' n',
    do_prioritize O cands q tr n = inl (q', tr', n') ->
    (forall x, ~ In x (map fst cands) -> get x q' = get x q)
    /\ (NoDup (map fst cands) -> forall x s, In (x, s) cands -> exists z, get x q' = Some (z, s)).
  Proof.
    induction cands as [|[c sc] cands IH]; intros q tr n q' tr' n'; cbn [do_prioritize].
    - intros H. injection H as <- _ _. split; [reflexivity|]. intros _ x s [].
    - destruct tr as [|[| p' s' prio | |] tr0]; try discriminate.
      destruct (N.eqb c p' && vs_eqb O sc s'); [|discriminate]. intros H.
      destruct (IH _ _ _ _ _ _ H) as [I1 I2]. split.
      + intros x Hx. cbn in Hx. rewrite I1 by tauto. apply get_set_other. tauto.
      + intros Hnd x s Hin. cbn in Hnd. inversion Hnd as [|? ? Hni Hnd']; subst. destruct Hin as [Hin|Hin].
        * injection Hin as <- <-. rewrite (I1 c Hni). rewrite get_set_same. eauto.
        * exact (I2 Hnd' x s Hin).
  Qed.

  Definition cand (b : bool) (lvl : nat) (e : pkg * pa) : list (pkg * VS) :=
    let '(p, a) := e in
    if b || Nat.eqb (highest a) lvl then match ai a with ADerivations (Pos s) => [(p, s)] | _ => [] end else [].

  Lemma pick_candidates_eq p :
    pick_candidates p = flat_map (cand (Nat.eqb (changed p) (Nat.pred (level p))) (level p)) (skipn (changed p) (assignments p)).
  Proof. reflexivity. Qed.

  Lemma cand_in b lvl y a x s :
    In (x, s) (cand b lvl (y, a)) <-> x = y /\ pos_set a = Some s /\ (b = true \/ highest a = lvl).
  Proof.
    unfold cand, pos_set. destruct b; cbn [orb].
    - destruct (ai a) as [|[s0|]]; cbn; split; try tauto; try (intros (_ & H & _); discriminate).
      + intros [H|[]]. injection H as -> ->. auto.
      + intros (-> & H & _). injection H as ->. auto.
    - destruct (Nat.eqb_spec (highest a) lvl).
      + destruct (ai a) as [|[s0|]]; cbn; split; try tauto; try (intros (_ & H & _); discriminate).
        * intros [H|[]]. injection H as -> ->. auto.
        * intros (-> & H & _). injection H as ->. auto.
      + cbn. split; [tauto|]. intros (_ & _ & [H|H]); [discriminate|contradiction].
  Qed.

  Lemma pick_candidates_in p x s :
    In (x, s) (pick_candidates p) -> exists i a, nth_error (assignments p) i = Some (x, a) /\ pos_set a = Some s.
  Proof.
    rewrite pick_candidates_eq. intros H. apply in_flat_map in H. destruct H as ([y a] & Hin & Hf).
    apply In_nth_error in Hin. destruct Hin as (k & Hk). rewrite nth_error_skipn' in Hk.
    apply cand_in in Hf. destruct Hf as (-> & Hs & _). eauto.
  Qed.

  Lemma pick_candidates_pending p i x a s :
    nth_error (assignments p) i = Some (x, a) -> pos_set a = Some s -> pending p i a -> In (x, s) (pick_candidates p).
  Proof.
    intros Hn Hs [Hc Hp]. rewrite pick_candidates_eq. apply in_flat_map. exists (x, a). split.
    - apply (nth_error_In _ (i - changed p)). rewrite nth_error_skipn'. now replace (changed p + (i - changed p)) with i by lia.
    - apply cand_in. split; [reflexivity|]. split; [exact Hs|]. destruct Hp as [Hp|Hp]; [left|now right]. now apply Nat.eqb_eq.
  Qed.

  Lemma cand_keys b lvl (l : list (pkg * pa)) y : In y (map fst (flat_map (cand b lvl) l)) -> In y (keys l).
  Proof.
    intros H. apply in_map_iff in H. destruct H as ([x s] & <- & H). apply in_flat_map in H.
    destruct H as ([x0 a] & Hin & Hc). apply cand_in in Hc. destruct Hc as (-> & _). cbn.
    unfold keys. apply in_map_iff. exists (x0, a). auto.
  Qed.

  Lemma cand_nodup b lvl (l : list (pkg * pa)) : NoDup (keys l) -> NoDup (map fst (flat_map (cand b lvl) l)).
  Proof.
    induction l as [|[x a] l IH]; cbn [flat_map keys map]; [constructor|]. intros H. inversion H as [|? ? Hni Hnd]; subst.
    rewrite map_app. specialize (IH Hnd).
    assert (Hc : cand b lvl (x, a) = [] \/ exists s, cand b lvl (x, a) = [(x, s)]).
    { unfold cand. destruct (_ || _); [|now left]. destruct (ai a) as [|[s0|]]; eauto. }
    destruct Hc as [->|(s & ->)]; cbn; [exact IH|]. constructor; [|exact IH].
    intros Hin. apply Hni. now apply cand_keys in Hin.
  Qed.

  Lemma pick_candidates_nodup (p : psol) : NoDup (keys (assignments p)) -> NoDup (map fst (pick_candidates p)).
  Proof.
    intros Hnd. rewrite pick_candidates_eq. apply cand_nodup. unfold keys. rewrite <- skipn_map. now apply skipn_nodup.
  Qed.

  (* after the prioritize calls of a pick, every undecided positive package except the exception is queued with
     a priority reported for its current set *)
  Lemma pick_fresh p (E : pkg -> Prop) q' (tr tr' : list event) n n' :
    layout p -> coveredP p E ->
    do_prioritize O (pick_candidates p) (queue p) tr n = inl (q', tr', n') ->
    forall i x a s, nth_error (assignments p) i = Some (x, a) -> pos_set a = Some s ->
      E x \/ exists z, get x q' = Some (z, s).
  Proof.
    intros Hl Hc E0 i x a s Hn Hs. destruct (do_prioritize_get _ _ _ _ _ _ _ E0) as [I1 I2].
    specialize (I2 (pick_candidates_nodup p (lay_keys p Hl))).
    destruct (Hc i x a s Hn Hs) as [He|[(z & Hz)|Hp]]; [now left| |].
    - right. destruct (in_dec N.eq_dec x (map fst (pick_candidates p))) as [Hin|Hni].
      + apply in_map_iff in Hin. destruct Hin as ([x' s'] & Ex & Hin). cbn in Ex. subst x'.
        destruct (pick_candidates_in p x s' Hin) as (i' & a' & Hn' & Hs').
        assert (i' = i) by (eapply nth_unique; [exact (lay_keys p Hl)|exact Hn'|exact Hn]). subst i'.
        assert (a' = a) by congruence. subst a'. assert (s' = s) by congruence. subst s'. exact (I2 x s Hin).
      + exists z. now rewrite (I1 x Hni).
    - right. apply (I2 x s). exact (pick_candidates_pending p i x a s Hn Hs Hp).
  Qed.

  Lemma pick_fresh_none p q' (tr tr' : list event) n n' :
    layout p -> covered p None ->
    do_prioritize O (pick_candidates p) (queue p) tr n = inl (q', tr', n') ->
    forall i x a s, nth_error (assignments p) i = Some (x, a) -> pos_set a = Some s -> exists z, get x q' = Some (z, s).
  Proof.
    intros Hl Hc E i x a s Hn Hs. destruct (pick_fresh p _ q' tr tr' n n' Hl Hc E i x a s Hn Hs) as [H|H]; [discriminate|exact H].
  Qed.

  (* ---------------------------------------------------------------- conflict resolution *)
  Lemma first_disjoint_in (ds : list dated) start dd : first_disjoint O ds start = Some dd -> In dd ds.
  Proof.
    induction ds as [|d ds IH]; cbn; [discriminate|]. destruct (t_is_disjoint O (d_accum d) start).
    - intros E. injection E as <-. now left.
    - intros E. right. auto.
  Qed.

  Lemma satisfier_level lvl (a : pa) start c g l : pa_ok lvl a -> satisfier O a start = Good (c, g, l) -> l <= lvl.
  Proof.
    intros (K1 & K2 & K3 & K4). unfold satisfier. destruct (first_disjoint O (derivs a) start) as [dd|] eqn:E.
    - intros H. injection H as _ _ <-. apply first_disjoint_in in E. rewrite Forall_forall in K4. specialize (K4 _ E). lia.
    - destruct (ai a); [|discriminate]. intros H. injection H as _ _ <-. exact K2.
  Qed.

  Lemma find_satisfier_level lvl (asg : list (pkg * pa)) ts : forall m,
    (forall q a, get q asg = Some a -> pa_ok lvl a) ->
    find_satisfier O ts asg = Good m -> Forall (fun e : sat_entry => snd (snd e) <= lvl) m.
  Proof.
    induction ts as [|[q t] ts IH]; intros m Hok; cbn [find_satisfier].
    - intros E. injection E as <-. constructor.
    - unfold bind, req. destruct (get q asg) as [a|] eqn:Eg; [|discriminate].
      destruct (satisfier O a (t_negate t)) as [[[c g] l]|] eqn:Es; [|discriminate].
      destruct (find_satisfier O ts asg) as [rest|]; [|discriminate].
      intros E. injection E as <-. constructor; [|now apply IH]. cbn. eapply satisfier_level; [|exact Es]. eauto.
  Qed.

  Lemma max_by_gidx_in (m : list sat_entry) e : max_by_gidx m = Some e -> In e m.
  Proof.
    unfold max_by_gidx.
    assert (H : forall acc, fold_left (fun acc e => match acc with
                 | None => Some e
                 | Some b => if Nat.leb (snd (fst (snd b))) (snd (fst (snd e))) then Some e else Some b end) m acc = Some e ->
                 In e m \/ acc = Some e).
    { induction m as [|x m IH]; intros acc; cbn; [auto|]. intros H. apply IH in H. destruct H as [H|H]; [auto|].
      destruct acc as [b|]; [|injection H as <-; auto]. destruct (Nat.leb _ _); [injection H as <-; auto|auto]. }
    intros E. destruct (H None E) as [Hin|Hx]; [exact Hin|discriminate].
  Qed.

  Lemma layout_get_ok p q a : layout p -> get q (assignments p) = Some a -> pa_ok (level p) a.
  Proof.
    intros Hl Hg. apply get_In in Hg. apply In_nth_error in Hg. destruct Hg as (i & Hi). exact (lay_lvl p Hl i q a Hi).
  Qed.

  (* the level conflict resolution backtracks to lies strictly below the current one *)
  Lemma satisfier_search_level p ts store sp Lv :
    layout p -> satisfier_search O ts p store = Good (sp, SDifferent Lv) -> 1 <= Lv /\ Lv < level p.
  Proof.
    intros Hl. unfold satisfier_search, bind, req.
    destruct (find_satisfier O ts (assignments p)) as [m|] eqn:Em; [|discriminate].
    destruct (max_by_gidx m) as [[sp0 [[sc sg] sl]]|] eqn:Et; [|discriminate].
    destruct (get sp0 (assignments p)) as [spa|]; [|discriminate].
    destruct (match sc with Some _ => _ | None => _ end) as [accum|]; [|discriminate].
    destruct (get sp0 ts); [|discriminate].
    destruct (satisfier O spa _) as [s2|]; [|discriminate].
    destruct (max_by_gidx (set sp0 s2 m)) as [top2|]; [|discriminate].
    destruct (Nat.leb_spec sl (Nat.max (snd (snd top2)) 1)) as [|Hlt].
    - destruct sc; discriminate.
    - intros E. injection E as _ <-.
      pose proof (find_satisfier_level (level p) _ ts m (fun q a => layout_get_ok p q a Hl) Em) as Hf.
      apply max_by_gidx_in in Et. rewrite Forall_forall in Hf. specialize (Hf _ Et). cbn in Hf. lia.
  Qed.

  Definition qinv (st : state) (E : pkg -> Prop) : Prop := layout (ps st) /\ coveredP (ps st) E.
  Definition no_exc : pkg -> Prop := fun _ => False.

  Lemma qinv_weaken st (E E' : pkg -> Prop) : (forall x, E x -> E' x) -> qinv st E -> qinv st E'.
  Proof. intros HE [H1 H2]. split; [exact H1|eapply coveredP_weaken; eauto]. Qed.

  Lemma backtrack_inv st inc chg Lv st' :
    layout (ps st) -> Lv <= level (ps st) -> backtrack O st inc chg Lv = Good st' -> forall E, qinv st' E.
  Proof.
    intros Hl HL. unfold backtrack, bind. destruct (ps_backtrack (ps st) Lv) as [p'|] eqn:Ep; [|discriminate].
    pose proof (ps_backtrack_layout _ _ _ Hl HL Ep) as Hp'. destruct chg.
    - intros E E0. unfold qinv. rewrite (merge_incompatibility_ps _ _ _ _ E). split; [apply Hp'|apply Hp'].
    - intros E E0. injection E as <-. split; [apply Hp'|apply Hp'].
  Qed.

  (* a successful conflict resolution backtracks: afterwards nothing is stale *)
  Lemma conflict_resolution_inv fuel : forall st cur chg E,
    qinv st E ->
    match conflict_resolution O fuel st cur chg with
    | inl (CROk st' _ _) => qinv st' no_exc
    | inl (CRTerminal st' _) => qinv st' E
    | inr _ => True
    end.
  Proof.
    induction fuel as [|fuel IH]; intros st cur chg E Hst; cbn [conflict_resolution]; [exact I|].
    destruct (nth_error (store st) cur) as [ci|]; [|exact I].
    destruct (is_terminal O ci (root st) (rootv st)); [exact Hst|].
    destruct (satisfier_search O (terms ci) (ps st) (store st)) as [[p [Lv|cause]]|] eqn:Es; [| |exact I].
    - destruct (backtrack O st cur chg Lv) as [st'|] eqn:Eb; [|exact I].
      destruct (satisfier_search_level _ _ _ _ _ (proj1 Hst) Es) as [_ Hlt].
      eapply backtrack_inv; [exact (proj1 Hst)| |exact Eb]. lia.
    - destruct (nth_error (store st) cause) as [cj|]; [|exact I].
      destruct (prior_cause O cur cause (terms ci) (terms cj) p) as [pc|]; [|exact I].
      cbn [alloc]. apply IH. exact Hst.
  Qed.

  (* ---------------------------------------------------------------- unit propagation *)
  Lemma scan_incompats_inv ids : forall st buffer st' b' c E,
    qinv st E -> scan_incompats O ids st buffer = Good (st', b', c) -> qinv st' E.
  Proof.
    induction ids as [|id ids IH]; intros st buffer st' b' c E Hst; cbn [scan_incompats].
    - intros E0. now injection E0 as <- _ _.
    - destruct (cached id (contradicted st)); [now apply IH|].
      unfold bind, req. destruct (nth_error (store st) id) as [ci|]; [|discriminate].
      destruct (relation O (terms ci) (term_for (ps st))) as [| |q|].
      + intros E0. now injection E0 as <- _ _.
      + apply IH. exact Hst.
      + destruct (add_derivation O (ps st) q id (terms ci)) as [p'|] eqn:Ed; [|discriminate].
        apply IH. destruct Hst as [H1 H2]. split; cbn [ps upd_cache upd_ps].
        * eapply add_derivation_layout; eauto.
        * eapply add_derivation_coveredP_mono; eauto.
      + now apply IH.
  Qed.

  Lemma unit_propagation_inv fuel : forall st buffer E,
    qinv st E ->
    match unit_propagation O fuel st buffer with
    | inl (UPOk st') => qinv st' E
    | inl (UPConflict st' _) => qinv st' E
    | inr _ => True
    end.
  Proof.
    induction fuel as [|fuel IH]; intros st buffer E Hst; cbn [unit_propagation]; [exact I|].
    destruct (rev buffer) as [|cur rest]; [exact Hst|].
    destruct (get cur (index st)) as [ids|]; [|exact I].
    destruct (scan_incompats O (rev ids) st (rev rest)) as [[[st1 b2] [conflict|]]|] eqn:Es; [| |exact I].
    - pose proof (scan_incompats_inv _ _ _ _ _ _ E Hst Es) as H1.
      pose proof (conflict_resolution_inv fuel st1 conflict false E H1) as Hcr.
      destruct (conflict_resolution O fuel st1 conflict false) as [[st2 q rc|st2 id]|]; [|exact Hcr|exact I].
      destruct (nth_error (store st2) rc) as [rci|]; [|exact I].
      destruct (add_derivation O (ps st2) q rc (terms rci)) as [p'|] eqn:Ed; [|exact I].
      apply IH. apply (qinv_weaken _ no_exc); [intros x []|]. destruct Hcr as [H2 H3]. split; cbn [ps upd_cache upd_ps].
      + eapply add_derivation_layout; eauto.
      + eapply add_derivation_coveredP_mono; eauto.
    - apply IH. exact (scan_incompats_inv _ _ _ _ _ _ E Hst Es).
  Qed.

  (* the single-exception instances *)
  Lemma scan_incompats_covered ids st buffer st' b' c exc :
    layout (ps st) -> covered (ps st) exc -> scan_incompats O ids st buffer = Good (st', b', c) ->
    layout (ps st') /\ covered (ps st') exc.
  Proof. intros H1 H2 E. exact (scan_incompats_inv ids st buffer st' b' c _ (conj H1 H2) E). Qed.

  Lemma conflict_resolution_covered fuel st cur chg exc :
    layout (ps st) -> covered (ps st) exc ->
    match conflict_resolution O fuel st cur chg with
    | inl (CROk st' _ _) => layout (ps st') /\ covered (ps st') None
    | inl (CRTerminal st' _) => layout (ps st') /\ covered (ps st') exc
    | inr _ => True
    end.
  Proof.
    intros H1 H2. pose proof (conflict_resolution_inv fuel st cur chg _ (conj H1 H2)) as H.
    destruct (conflict_resolution O fuel st cur chg) as [[st' q rc|st' id]|]; [|exact H|exact I].
    apply (qinv_weaken _ no_exc); [intros x []|exact H].
  Qed.

  Lemma unit_propagation_covered fuel st buffer exc :
    layout (ps st) -> covered (ps st) exc ->
    match unit_propagation O fuel st buffer with
    | inl (UPOk st') => layout (ps st') /\ covered (ps st') exc
    | inl (UPConflict st' _) => layout (ps st') /\ covered (ps st') exc
    | inr _ => True
    end.
  Proof. intros H1 H2. exact (unit_propagation_inv fuel st buffer _ (conj H1 H2)). Qed.

  (* ---------------------------------------------------------------- resolve: the decision log *)
  Lemma layout_ext p p' : level p' = level p -> assignments p' = assignments p -> layout p -> layout p'.
  Proof.
    intros El Ea [H1 H2 H3 H4 H5]. constructor; rewrite ?El, ?Ea; assumption.
  Qed.

  Lemma undecided_positive_in (p : psol) x s :
    In (x, s) (undecided_positive p) <-> exists i a, nth_error (assignments p) i = Some (x, a) /\ pos_set a = Some s.
  Proof.
    unfold undecided_positive. rewrite in_flat_map. split.
    - intros ([y a] & Hin & Hf). apply In_nth_error in Hin. destruct Hin as (i & Hi). exists i, a. unfold pos_set.
      cbn beta iota in Hf. destruct (ai a) as [|[s0|]]; [destruct Hf| |destruct Hf]. destruct Hf as [Hf|[]]. injection Hf as -> ->. auto.
    - intros (i & a & Hn & Hs). exists (x, a). split; [eapply nth_error_In; eauto|]. unfold pos_set in Hs.
      destruct (ai a) as [|[s0|]]; try discriminate. injection Hs as ->. now left.
  Qed.

  Lemma add_version_inv pso q v range stl p' (E : pkg -> Prop) :
    layout pso -> coveredP pso E -> add_version O pso q v range stl = Good p' -> layout p' /\ coveredP p' E.
  Proof.
    intros Hl Hc. unfold add_version.
    assert (Hd : add_decision O pso q v = Good p' -> layout p' /\ coveredP p' E).
    { intros Ed. split; [eapply add_decision_layout; eauto|].
      eapply coveredP_weaken; [|eapply add_decision_coveredP; eauto]. cbn. tauto. }
    destruct (negb (backtracked pso)); [exact Hd|]. destruct (forallb _ _); [exact Hd|].
    intros E0. injection E0 as <-. auto.
  Qed.

  Lemma skipn_cons_inv {A} n : forall (l : list A) x r, x :: r = skipn n l -> nth_error l n = Some x /\ r = skipn (S n) l.
  Proof.
    induction n as [|n IH]; intros [|y l] x r; cbn; try discriminate.
    - intros E. injection E as -> ->. auto.
    - intros E. apply IH in E. exact E.
  Qed.

  Lemma skipn_app_inv {A} (pre : list A) : forall n l r, pre ++ r = skipn n l -> r = skipn (n + length pre) l.
  Proof.
    induction pre as [|x pre IH]; intros n l r; cbn [app length].
    - now rewrite Nat.add_0_r.
    - intros E. apply skipn_cons_inv in E. destruct E as [_ E]. apply IH in E. now replace (n + S (length pre)) with (S n + length pre) by lia.
  Qed.

  (* the package the trace chooses at position [k] *)
  Definition chosen_at (tr0 : list event) (k : nat) : option pkg :=
    match nth_error tr0 k with Some (EvChoose p _ _) => Some p | _ => None end.
  Definition add_exc (o : option pkg) (E : list pkg) : list pkg := match o with Some p => p :: E | None => E end.

  (* one decision point: every undecided package with a positive term, except those in [E], is queued with a
     priority reported for its current set *)
  Definition entry_ok (E : list pkg) (pi : pick_info) : Prop :=
    let '(cands, q, _) := pi in
    forall x s, In (x, s) cands -> ~ In x E -> exists z, get x q = Some (z, s).

  (* the exceptions of a decision point are the packages chosen at the earlier decision points *)
  Fixpoint log_ok (tr0 : list event) (E : list pkg) (log : list pick_info) : Prop :=
    match log with
    | [] => True
    | pi :: rest => entry_ok E pi /\ log_ok tr0 (add_exc (chosen_at tr0 (snd pi)) E) rest
    end.
  Fixpoint exc_after (tr0 : list event) (E : list pkg) (log : list pick_info) : list pkg :=
    match log with
    | [] => E
    | pi :: rest => exc_after tr0 (add_exc (chosen_at tr0 (snd pi)) E) rest
    end.

  Lemma log_ok_snoc tr0 log : forall E pi,
    log_ok tr0 E (log ++ [pi]) <-> log_ok tr0 E log /\ entry_ok (exc_after tr0 E log) pi.
  Proof. induction log as [|e log IH]; intros E pi; cbn [app log_ok exc_after]; [tauto|]. rewrite IH. tauto. Qed.

  Lemma exc_after_snoc tr0 log : forall E pi,
    exc_after tr0 E (log ++ [pi]) = add_exc (chosen_at tr0 (snd pi)) (exc_after tr0 E log).
  Proof. induction log as [|e log IH]; intros E pi; cbn [app exc_after]; [reflexivity|]. apply IH. Qed.

  Theorem resolve_loop_log (tr0 : list event) (E0 : list pkg) fuel : forall st next added tr n log,
    tr = skipn n tr0 ->
    qinv st (fun x => In x (exc_after tr0 E0 log)) -> log_ok tr0 E0 log ->
    let '(_, st', log', _) := resolve_loop O veqb fuel st next added tr n log in
    log_ok tr0 E0 log' /\ layout (ps st').
  Proof.
    induction fuel as [|fuel IH]; intros st next added tr n log Htr Hst Hlog; cbn [resolve_loop].
    { split; [exact Hlog|exact (proj1 Hst)]. }
    destruct tr as [|[ok| | |] tr1]; try (split; [exact Hlog|exact (proj1 Hst)]).
    destruct ok; cbn [negb]; [|split; [exact Hlog|exact (proj1 Hst)]].
    pose proof (unit_propagation_inv (S fuel) st [next] _ Hst) as Hup.
    destruct (unit_propagation O (S fuel) st [next]) as [[st1|st1 id]|[|s0]];
      try (split; [exact Hlog|exact (proj1 Hst)]).
    2:{ destruct (build_derivation_tree (store st1) id); (split; [exact Hlog|exact (proj1 Hup)]). }
    destruct (do_prioritize O (pick_candidates (ps st1)) (queue (ps st1)) tr1 (S n)) as [[[q tr2] n2]|o] eqn:Ep;
      [|split; [exact Hlog|exact (proj1 Hup)]].
    destruct (do_prioritize_count O _ _ _ _ _ _ _ Ep) as (pre & -> & _ & ->).
    apply skipn_cons_inv in Htr. destruct Htr as [_ Htr]. apply skipn_app_inv in Htr.
    set (n2 := S n + length pre) in *.
    set (p1 := ps st1) in *. set (log1 := log ++ [(undecided_positive p1, q, n2)]).
    pose proof (pick_fresh p1 _ q _ _ _ _ (proj1 Hup) (proj2 Hup) Ep) as Hfresh.
    assert (Hlog1 : log_ok tr0 E0 log1).
    { apply log_ok_snoc. split; [exact Hlog|]. intros x s Hin Hni. apply undecided_positive_in in Hin.
      destruct Hin as (i & a & Hn & Hs). destruct (Hfresh i x a s Hn Hs) as [H|H]; [contradiction|exact H]. }
    assert (Hwq : forall q', layout {| next_gidx := next_gidx p1; level := level p1; assignments := assignments p1;
                                       queue := q'; changed := length (assignments p1); backtracked := backtracked p1 |}).
    { intros q'. apply (layout_ext p1); [reflexivity|reflexivity|exact (proj1 Hup)]. }
    destruct (queue_max q) as [mx|].
    2:{ unfold res_out. destruct (extract_solution p1); (split; [exact Hlog1|]); [apply Hwq|exact (proj1 Hup)]. }
    destruct tr2 as [|[| |p s ans|] tr3]; try (split; [exact Hlog1|exact (proj1 Hup)]).
    apply skipn_cons_inv in Htr. destruct Htr as [Hnth Htr].
    destruct (get p q) as [[prio qs]|]; [|split; [exact Hlog1|exact (proj1 Hup)]].
    destruct (negb (Z.eqb prio mx)); [split; [exact Hlog1|exact (proj1 Hup)]|].
    set (st2 := upd_ps st1 _).
    assert (Hexc : exc_after tr0 E0 log1 = p :: exc_after tr0 E0 log).
    { unfold log1. rewrite exc_after_snoc. cbn [snd]. unfold chosen_at. now rewrite Hnth. }
    assert (H2 : qinv st2 (fun x => In x (exc_after tr0 E0 log1))).
    { split; [apply Hwq|]. rewrite Hexc. intros i x a s1 Hn Hs. cbn in Hn.
      destruct (N.eq_dec p x) as [->|Hne]; [left; now left|].
      destruct (Hfresh i x a s1 Hn Hs) as [H|(z & Hz)]; [left; now right|].
      right. left. exists z. cbn. now rewrite get_remove_other. }
    destruct (term_for (ps st2) p) as [ti|]; [|split; [exact Hlog1|exact (proj1 H2)]].
    destruct ti as [cur_set|cur_set]; [|split; [exact Hlog1|exact (proj1 H2)]].
    destruct (vs_eqb O s cur_set); cbn [negb]; [|split; [exact Hlog1|exact (proj1 H2)]].
    destruct ans as [v| |]; [| |split; [exact Hlog1|exact (proj1 H2)]].
    - (* a version was chosen *)
      destruct (negb (t_contains O (Pos cur_set) v)); [split; [exact Hlog1|exact (proj1 H2)]|].
      destruct (added_has veqb added p v).
      + unfold res_out. destruct (add_decision O (ps st2) p v) as [p'|] eqn:Ed; [|split; [exact Hlog1|exact (proj1 H2)]].
        apply IH; [exact Htr| |exact Hlog1]. split; cbn [ps upd_ps].
        * eapply add_decision_layout; [exact (proj1 H2)|exact Ed].
        * eapply coveredP_weaken; [|eapply add_decision_coveredP; [exact (proj1 H2)|exact (proj2 H2)|exact Ed]]. cbn. tauto.
      + destruct tr3 as [|[| | |p' v' dans] tr4]; try (split; [exact Hlog1|exact (proj1 H2)]).
        destruct (N.eqb p p' && veqb v v'); cbn [negb]; [|split; [exact Hlog1|exact (proj1 H2)]].
        apply skipn_cons_inv in Htr. destruct Htr as [_ Htr].
        destruct dans as [deps|m|]; [| |split; [exact Hlog1|exact (proj1 H2)]].
        * unfold res_out.
          destruct (add_incompatibility_from_dependencies O st2 p v deps) as [[st3 range]|] eqn:Ea;
            [|split; [exact Hlog1|exact (proj1 H2)]].
          pose proof (add_from_dependencies_ps _ _ _ _ _ _ _ Ea) as Eps.
          assert (H3 : qinv st3 (fun x => In x (exc_after tr0 E0 log1))) by (unfold qinv; rewrite Eps; exact H2).
          destruct (add_version O (ps st3) p v range (store st3)) as [pn|] eqn:Eav; [|split; [exact Hlog1|exact (proj1 H3)]].
          apply IH; [exact Htr| |exact Hlog1]. exact (add_version_inv _ _ _ _ _ _ _ (proj1 H3) (proj2 H3) Eav).
        * unfold res_out.
          destruct (add_incompatibility O st2 (custom_version O p v m)) as [st3|] eqn:Ea; [|split; [exact Hlog1|exact (proj1 H2)]].
          apply IH; [exact Htr| |exact Hlog1]. unfold qinv. rewrite (add_incompatibility_ps _ _ _ _ Ea). exact H2.
    - (* no version *)
      cbn [no_versions]. unfold res_out.
      destruct (add_incompatibility O st2 _) as [st3|] eqn:Ea; [|split; [exact Hlog1|exact (proj1 H2)]].
      apply IH; [exact Htr| |exact Hlog1]. unfold qinv. rewrite (add_incompatibility_ps _ _ _ _ Ea). exact H2.
  Qed.

  (* ---- one iteration, in the single-exception form ---- *)
  (* the partial solution after the pick popped [p] from the re-prioritised queue [q] *)
  Definition popped (p1 : psol) (q : list (pkg * (Z * VS))) (p : pkg) : psol :=
    {| next_gidx := next_gidx p1; level := level p1; assignments := assignments p1;
       queue := remove p q; changed := length (assignments p1); backtracked := backtracked p1 |}.

  Lemma pick_pop p1 (E : pkg -> Prop) q (tr tr2 : list event) n n2 p :
    layout p1 -> coveredP p1 E ->
    do_prioritize O (pick_candidates p1) (queue p1) tr n = inl (q, tr2, n2) ->
    (forall x s, In (x, s) (undecided_positive p1) -> E x \/ exists z, get x q = Some (z, s))
    /\ layout (popped p1 q p) /\ coveredP (popped p1 q p) (fun x => x = p \/ E x).
  Proof.
    intros Hl Hc Ep. pose proof (pick_fresh p1 E q _ _ _ _ Hl Hc Ep) as Hfresh. split; [|split].
    - intros x s Hin. apply undecided_positive_in in Hin. destruct Hin as (i & a & Hn & Hs). eauto.
    - apply (layout_ext p1); [reflexivity|reflexivity|exact Hl].
    - intros i x a s Hn Hs. cbn in Hn. destruct (N.eq_dec p x) as [->|Hne]; [left; now left|].
      destruct (Hfresh i x a s Hn Hs) as [H|(z & Hz)]; [left; now right|].
      right. left. exists z. cbn. now rewrite get_remove_other.
  Qed.

  (* If at most [next] is stale when an iteration starts, then at its decision point every undecided positive
     package other than [next] is queued for its current set; after popping [p] the stale packages are among
     [p] and [next] (so the single exception is only re-established for the following iteration if unit
     propagation re-queued [next], or [p = next], or [p] gets decided and [next] was re-queued: this needs the
     semantic argument of stage 2). *)
  Lemma iteration_entry_ok fuel st next st1 q (tr tr2 : list event) n n2 :
    layout (ps st) -> covered (ps st) (Some next) ->
    unit_propagation O fuel st [next] = inl (UPOk st1) ->
    do_prioritize O (pick_candidates (ps st1)) (queue (ps st1)) tr n = inl (q, tr2, n2) ->
    (forall x s, In (x, s) (undecided_positive (ps st1)) -> x <> next -> exists z, get x q = Some (z, s))
    /\ forall p, layout (popped (ps st1) q p) /\ coveredP (popped (ps st1) q p) (fun x => x = p \/ x = next).
  Proof.
    intros Hl Hc Eu Ep. pose proof (unit_propagation_inv fuel st [next] _ (conj Hl Hc)) as Hup. rewrite Eu in Hup.
    destruct Hup as [Hl1 Hc1]. split.
    - intros x s Hin Hne. destruct (pick_pop _ _ _ _ _ _ _ next Hl1 Hc1 Ep) as [H _].
      destruct (H x s Hin) as [Hx|Hx]; [congruence|exact Hx].
    - intros p. destruct (pick_pop _ _ _ _ _ _ _ p Hl1 Hc1 Ep) as (_ & H1 & H2). split; [exact H1|].
      eapply coveredP_weaken; [|exact H2]. cbn. intros x [H|H]; [now left|right; congruence].
  Qed.

  (* ... and if nothing is stale after unit propagation (the stage-2 fact), the single exception is re-established *)
  Lemma iteration_next_covered p1 q (tr tr2 : list event) n n2 p :
    layout p1 -> covered p1 None ->
    do_prioritize O (pick_candidates p1) (queue p1) tr n = inl (q, tr2, n2) ->
    (forall x s, In (x, s) (undecided_positive p1) -> exists z, get x q = Some (z, s))
    /\ layout (popped p1 q p) /\ covered (popped p1 q p) (Some p).
  Proof.
    intros Hl Hc Ep. destruct (pick_pop p1 _ q tr tr2 n n2 p Hl Hc Ep) as (H1 & H2 & H3). split; [|split; [exact H2|]].
    - intros x s Hin. destruct (H1 x s Hin) as [H|H]; [discriminate|exact H].
    - eapply coveredP_weaken; [|exact H3]. cbn. intros x [H|H]; [congruence|discriminate].
  Qed.

  Lemma ps_empty_layout : layout (@ps_empty VS Vr).
  Proof.
    constructor; cbn; [lia|constructor| | |]; intros [|i] q a H; discriminate.
  Qed.

  (* C14, queue part, for the model: at every decision point recorded in the log, every undecided package with a
     positive term that was not itself chosen at an earlier decision point is queued with a priority that was
     reported for its current set (in particular at the first decision point there is no exception, at the
     second the only exception is the package chosen at the first). *)
  Theorem resolve_log fuel r v (tr : list event) :
    let '(_, st', log, _) := resolve O veqb fuel r v tr in log_ok tr [] log /\ layout (ps st').
  Proof.
    unfold resolve. apply (resolve_loop_log tr [] fuel); [reflexivity| |exact I].
    split; [exact ps_empty_layout|]. intros [|i] q a s H; discriminate.
  Qed.

  (* the reading of [log_ok]: the k-th entry is fine up to the packages chosen at the entries before it *)
  Lemma log_ok_nth tr0 log : forall E k pi,
    log_ok tr0 E log -> nth_error log k = Some pi -> entry_ok (exc_after tr0 E (firstn k log)) pi.
  Proof.
    induction log as [|e log IH]; intros E [|k] pi; cbn; try discriminate.
    - intros [H _] Eq. now injection Eq as <-.
    - intros [_ H] Eq. now apply IH.
  Qed.

  Lemma exc_after_in tr0 log : forall E x,
    In x (exc_after tr0 E log) -> In x E \/ exists pi, In pi log /\ chosen_at tr0 (snd pi) = Some x.
  Proof.
    induction log as [|e log IH]; intros E x; cbn [exc_after]; [auto|]. intros H. apply IH in H.
    destruct H as [H|(pi & Hin & Hc)]; [|right; exists pi; split; [now right|exact Hc]].
    unfold add_exc in H. destruct (chosen_at tr0 (snd e)) as [y|] eqn:Ey; [|auto].
    destruct H as [<-|H]; [|auto]. right. exists e. split; [now left|exact Ey].
  Qed.

  Corollary resolve_log_nth fuel r v (tr : list event) o st' log cnt k cands q n2 x s :
    resolve O veqb fuel r v tr = (o, st', log, cnt) ->
    nth_error log k = Some (cands, q, n2) -> In (x, s) cands ->
    (exists z, get x q = Some (z, s))
    \/ exists j pj, j < k /\ nth_error log j = Some pj /\ chosen_at tr (snd pj) = Some x.
  Proof.
    intros Er Hk Hin. pose proof (resolve_log fuel r v tr) as H. rewrite Er in H. destruct H as [H _].
    pose proof (log_ok_nth tr log [] k _ H Hk) as He. cbn in He.
    destruct (in_dec N.eq_dec x (exc_after tr [] (firstn k log))) as [Hx|Hx]; [right|left; exact (He x s Hin Hx)].
    apply exc_after_in in Hx. destruct Hx as [[]|(pj & Hpj & Hc)].
    apply In_nth_error in Hpj. destruct Hpj as (j & Hj).
    assert (Hjk : j < k).
    { assert (Hl : j < length (firstn k log)) by (apply nth_error_Some; congruence).
      pose proof (firstn_le_length k log). lia. }
    exists j, pj. split; [exact Hjk|]. split; [|exact Hc].
    rewrite <- (firstn_skipn k log). rewrite nth_error_app1; [exact Hj|]. apply nth_error_Some. congruence.
  Qed.
End Queue.
