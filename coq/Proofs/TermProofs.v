(* C11: term operations coincide with evaluating the terms on every concrete choice. *)
From Coq Require Import List Bool.
From PG Require Import Model.VS Model.Term Proofs.VSLaws.

Section TermLaws.
  Context {VS Vr : Type} (O : VSOps VS Vr) (L : VSLawful O).

  Notation Uu := (U O L).
  Notation memb := (mem O L).
  Notation wfs := (wf O L).

  (* meaning of a term on a choice: [Some u] = the point u is selected, [None] = not selected *)
  Definition tden (t : term VS) (c : option Uu) : bool :=
    match t, c with
    | Pos s, Some u => memb s u
    | Pos _, None => false
    | Neg s, Some u => negb (memb s u)
    | Neg _, None => true
    end.

  Definition twf (t : term VS) : Prop := match t with Pos s | Neg s => wfs s end.

  Lemma twf_any : twf (t_any O). Proof. exact (wf_empty O L). Qed.
  Lemma twf_empty : twf (t_empty O). Proof. exact (wf_empty O L). Qed.
  Lemma twf_exact v : twf (t_exact O v). Proof. exact (wf_singleton O L v). Qed.
  Lemma twf_negate t : twf t -> twf (t_negate t). Proof. destruct t; auto. Qed.

  Lemma twf_intersection t u : twf t -> twf u -> twf (t_intersection O t u).
  Proof.
    destruct t, u; cbn; intros Ht Hu.
    - now apply wf_intersection.
    - apply wf_intersection; [now apply wf_complement|assumption].
    - apply wf_intersection; [now apply wf_complement|assumption].
    - now apply wf_union.
  Qed.

  Lemma twf_union t u : twf t -> twf u -> twf (t_union O t u).
  Proof.
    destruct t, u; cbn; intros Ht Hu.
    - now apply wf_union.
    - apply wf_intersection; [now apply wf_complement|assumption].
    - apply wf_intersection; [now apply wf_complement|assumption].
    - now apply wf_intersection.
  Qed.

  Lemma tden_any c : tden (t_any O) c = true.
  Proof. destruct c; cbn; [|reflexivity]. now rewrite (mem_empty O L). Qed.

  Lemma tden_empty c : tden (t_empty O) c = false.
  Proof. destruct c; cbn; [|reflexivity]. now rewrite (mem_empty O L). Qed.

  Lemma tden_negate t c : tden (t_negate t) c = negb (tden t c).
  Proof. destruct t, c; cbn; try reflexivity. now rewrite negb_involutive. Qed.

  Lemma tden_intersection t u c :
    twf t -> twf u -> tden (t_intersection O t u) c = tden t c && tden u c.
  Proof.
    destruct t as [a|a], u as [b|b], c as [x|]; cbn; intros Ha Hb; try reflexivity.
    - now apply mem_intersection.
    - rewrite (mem_intersection O L), (mem_complement O L); auto using (wf_complement O L). apply andb_comm.
    - rewrite (mem_intersection O L), (mem_complement O L); auto using (wf_complement O L).
    - rewrite (mem_union O L) by assumption. apply negb_orb.
  Qed.

  Lemma tden_union t u c :
    twf t -> twf u -> tden (t_union O t u) c = tden t c || tden u c.
  Proof.
    destruct t as [a|a], u as [b|b], c as [x|]; cbn; intros Ha Hb; try reflexivity.
    - now apply mem_union.
    - rewrite (mem_intersection O L), (mem_complement O L); auto using (wf_complement O L).
      destruct (memb a x), (memb b x); reflexivity.
    - rewrite (mem_intersection O L), (mem_complement O L); auto using (wf_complement O L).
      destruct (memb a x), (memb b x); reflexivity.
    - rewrite (mem_intersection O L) by assumption. apply negb_andb.
  Qed.

  Lemma t_contains_spec t v : twf t -> t_contains O t v = tden t (Some (pt O L v)).
  Proof. destruct t; cbn; intros H; now rewrite (contains_mem O L). Qed.

  Lemma t_subset_of_spec t u :
    twf t -> twf u ->
    (t_subset_of O t u = true <-> forall c, tden t c = true -> tden u c = true).
  Proof.
    destruct t as [a|a], u as [b|b]; cbn [t_subset_of twf]; intros Ha Hb.
    - rewrite (subset_of_spec O L) by assumption. split.
      + intros H [x|]; cbn; [apply H|discriminate].
      + intros H x. apply (H (Some x)).
    - rewrite (is_disjoint_spec O L) by assumption. split.
      + intros H [x|]; cbn; [|reflexivity]. specialize (H x). intros E. rewrite E in H. cbn in H. now rewrite H.
      + intros H x. specialize (H (Some x)). cbn in H. destruct (memb a x); [|reflexivity].
        cbn. specialize (H eq_refl). now destruct (memb b x).
    - split; [discriminate|]. intros H. specialize (H None eq_refl). discriminate.
    - rewrite (subset_of_spec O L) by assumption. split.
      + intros H [x|]; cbn; [|reflexivity]. specialize (H x). destruct (memb b x); [|reflexivity].
        rewrite H by reflexivity. discriminate.
      + intros H x. specialize (H (Some x)). cbn in H. intros E. rewrite E in H. cbn in H.
        destruct (memb a x); [reflexivity|]. specialize (H eq_refl). discriminate.
  Qed.

  Lemma t_is_disjoint_spec t u :
    twf t -> twf u ->
    (t_is_disjoint O t u = true <-> forall c, tden t c && tden u c = false).
  Proof.
    destruct t as [a|a], u as [b|b]; cbn [t_is_disjoint twf]; intros Ha Hb.
    - rewrite (is_disjoint_spec O L) by assumption. split.
      + intros H [x|]; cbn; [apply H|reflexivity].
      + intros H x. apply (H (Some x)).
    - rewrite (subset_of_spec O L) by assumption. split.
      + intros H [x|]; cbn; [|reflexivity]. specialize (H x). destruct (memb a x); [|reflexivity].
        now rewrite H.
      + intros H x E. specialize (H (Some x)). cbn in H. rewrite E in H. cbn in H. now apply negb_false_iff in H.
    - rewrite (subset_of_spec O L) by assumption. split.
      + intros H [x|]; cbn; [|reflexivity]. specialize (H x). destruct (memb b x); [|apply andb_false_r].
        now rewrite H.
      + intros H x E. specialize (H (Some x)). cbn in H. rewrite E in H. rewrite andb_true_r in H.
        now apply negb_false_iff in H.
    - split; [discriminate|]. intros H. specialize (H None). discriminate.
  Qed.

  Lemma t_relation_with_spec t other :
    twf t -> twf other ->
    match t_relation_with O t other with
    | Satisfied => forall c, tden other c = true -> tden t c = true
    | Contradicted => ~ (forall c, tden other c = true -> tden t c = true)
                      /\ (forall c, tden t c && tden other c = false)
    | Inconclusive => ~ (forall c, tden other c = true -> tden t c = true)
                      /\ ~ (forall c, tden t c && tden other c = false)
    end.
  Proof.
    intros Ht Ho. unfold t_relation_with.
    pose proof (t_subset_of_spec other t Ho Ht) as Hs. pose proof (t_is_disjoint_spec t other Ht Ho) as Hd.
    destruct (t_subset_of O other t).
    - now apply Hs.
    - assert (Hn : ~ (forall c, tden other c = true -> tden t c = true)) by (intros H; apply Hs in H; discriminate).
      destruct (t_is_disjoint O t other).
      + split; [exact Hn|now apply Hd].
      + split; [exact Hn|]. intros H. apply Hd in H. discriminate.
  Qed.

  (* finding F2: the arm as it stood before the repair reports the two always-true terms disjoint *)
  Lemma t_is_disjoint_pre_fix_refuted :
    exists t u, twf t /\ twf u /\ t_is_disjoint_pre_fix O t u = true /\ exists c, tden t c && tden u c = true.
  Proof.
    exists (t_any O), (t_any O). split; [exact twf_any|]. split; [exact twf_any|]. split.
    - cbn. assert (E : vs_eqb O (vs_empty O) (vs_empty O) = true) by now apply (vs_eqb_spec O L).
      now rewrite E.
    - exists None. reflexivity.
  Qed.

  Lemma t_eqb_spec t u : t_eqb O t u = true <-> t = u.
  Proof.
    destruct t, u; cbn; rewrite ?(vs_eqb_spec O L); split; try discriminate; try congruence.
  Qed.
End TermLaws.
