(* C01 (model side), part 1: the term of a package restricted to a decision level ([term_at] / [lookup_at]),
   the chain invariant of package assignments ([pa_chain]), and how the three operations on the partial
   solution (add_derivation, add_decision, ps_backtrack) act on them ([refines]). *)
From Coq Require Import List NArith ZArith Bool Lia PeanoNat.
From PG Require Import Model.VS Model.Term Model.Solver Model.Registry Proofs.VSLaws Proofs.TermProofs
  Proofs.AssocProofs Proofs.SolverSem Proofs.SolverStore Proofs.SolverQueue.
Import ListNotations.

Section Sound1.
  Context {VS Vr : Type} (O : VSOps VS Vr) (L : VSLawful O).
  Notation tm := (term VS).
  Notation pa := (@pa VS Vr).
  Notation dated := (@dated VS).
  Notation psol := (@psol VS Vr).
  Notation twf := (twf O L).
  Notation sat := (sat_term O).
  Notation pa_wf := (pa_wf O L).
  Notation ps_wf := (ps_wf O L).

  (* ---------------------------------------------------------------- terms on choices of versions *)
  Definition tle (t u : tm) : Prop := forall c, sat t c = true -> sat u c = true.
  Definition tdisj (t u : tm) : Prop := forall c, sat t c && sat u c = false.

  Lemma tle_refl t : tle t t.
  Proof. intros c H. exact H. Qed.

  Lemma tle_trans t u w : tle t u -> tle u w -> tle t w.
  Proof. intros H1 H2 c H. auto. Qed.

  Lemma tdisj_le t u u' : tdisj t u -> tle u' u -> tdisj t u'.
  Proof.
    intros Hd Hl c. specialize (Hd c). specialize (Hl c). destruct (sat t c); [|reflexivity]. cbn in *.
    destruct (sat u' c); [|reflexivity]. now rewrite Hl in Hd.
  Qed.

  Lemma tle_inter_l t u : twf t -> twf u -> tle (t_intersection O t u) t.
  Proof. intros Ht Hu c. rewrite (sat_intersection O L) by assumption. intros H. now apply andb_prop in H. Qed.

  Lemma tdisj_neg ct : twf ct -> tdisj ct (t_negate ct).
  Proof. intros H c. rewrite (sat_negate O L) by assumption. now destruct (sat ct c). Qed.

  Lemma tdisj_inter_neg t ct : twf t -> twf ct -> tdisj ct (t_intersection O t (t_negate ct)).
  Proof.
    intros Ht Hc c. rewrite (sat_intersection O L), (sat_negate O L) by (try assumption; now apply twf_negate).
    destruct (sat ct c), (sat t c); reflexivity.
  Qed.

  Lemma tle_exact v t : sat t (Some v) = true -> tle (t_exact O v) t.
  Proof.
    intros H [w|]; cbn; [|discriminate]. intros Hw. apply (contains_singleton O L) in Hw. now subst w.
  Qed.

  Lemma rel_contradicted_tdisj t u : twf t -> twf u -> t_relation_with O t u = Contradicted -> tdisj t u.
  Proof.
    intros Ht Hu E. pose proof (t_relation_with_spec O L t u Ht Hu) as H. rewrite E in H. destruct H as [_ H].
    intros c. rewrite !(sat_tden O L) by assumption. apply H.
  Qed.

  (* ---------------------------------------------------------------- the term of a package at a decision level *)
  Definition der_at (Lv : nat) (ds : list dated) : option tm :=
    match drop_while_gt Lv (rev ds) with [] => None | dd :: _ => Some (d_accum dd) end.

  Definition term_at (Lv : nat) (a : pa) : option tm :=
    match ai a with
    | ADecision _ _ t => if Nat.leb (highest a) Lv then Some t else der_at Lv (derivs a)
    | ADerivations _ => der_at Lv (derivs a)
    end.

  Definition lookup_at (Lv : nat) (asg : list (pkg * pa)) (q : pkg) : option tm :=
    match get q asg with Some a => term_at Lv a | None => None end.

  (* newest first: the accumulated term of a derivation is below all older ones *)
  Fixpoint rchain (l : list dated) : Prop :=
    match l with
    | [] => True
    | d :: r => Forall (fun d' => tle (d_accum d) (d_accum d')) r /\ rchain r
    end.

  Definition pa_chain (a : pa) : Prop :=
    rchain (rev (derivs a)) /\
    match rev (derivs a) with
    | [] => False
    | dl :: _ =>
        match ai a with
        | ADerivations t => t = d_accum dl /\ highest a = d_level dl
        | ADecision _ v t => t = t_exact O v /\ t_contains O (d_accum dl) v = true
        end
    end.

  Definition ps_chain (asg : list (pkg * pa)) : Prop := Forall (fun e => pa_chain (snd e)) asg.

  (* ---- drop_while_gt ---- *)
  Lemma dwg_incl Lv (l : list dated) x : In x (drop_while_gt Lv l) -> In x l.
  Proof.
    induction l as [|d l IH]; cbn [drop_while_gt]; [tauto|].
    destruct (Nat.ltb Lv (d_level d)); [intros H; right; auto|intros H; exact H].
  Qed.

  Lemma dwg_le Lv' Lv (l : list dated) : Lv' <= Lv -> drop_while_gt Lv' (drop_while_gt Lv l) = drop_while_gt Lv' l.
  Proof.
    intros Hle. induction l as [|d l IH]; cbn [drop_while_gt]; [reflexivity|].
    destruct (Nat.ltb_spec Lv (d_level d)) as [H|H].
    - rewrite IH. destruct (Nat.ltb_spec Lv' (d_level d)); [reflexivity|lia].
    - reflexivity.
  Qed.

  Lemma dwg_all Lv (l : list dated) : Forall (fun d => Lv < d_level d) l -> drop_while_gt Lv l = [].
  Proof.
    induction 1 as [|d l H _ IH]; cbn [drop_while_gt]; [reflexivity|].
    destruct (Nat.ltb_spec Lv (d_level d)); [exact IH|lia].
  Qed.

  Lemma dwg_head Lv d (l : list dated) : d_level d <= Lv -> drop_while_gt Lv (d :: l) = d :: l.
  Proof. intros H. cbn [drop_while_gt]. destruct (Nat.ltb_spec Lv (d_level d)); [lia|reflexivity]. Qed.

  Lemma dwg_suffix Lv (l : list dated) : exists pre, l = pre ++ drop_while_gt Lv l.
  Proof. destruct (drop_while_gt_spec Lv l) as (pre & E & _). eauto. Qed.

  Lemma rchain_suffix pre : forall l, rchain (pre ++ l) -> rchain l.
  Proof. induction pre as [|d pre IH]; cbn; [auto|]. intros l [_ H]. auto. Qed.

  Lemma rchain_head_le d l x : rchain (d :: l) -> In x (d :: l) -> tle (d_accum d) (d_accum x).
  Proof.
    intros [H _] [<-|Hin]; [apply tle_refl|]. rewrite Forall_forall in H. auto.
  Qed.

  (* ---- der_at ---- *)
  Lemma der_at_snoc Lv ds dd :
    der_at Lv (ds ++ [dd]) = if Nat.ltb Lv (d_level dd) then der_at Lv ds else Some (d_accum dd).
  Proof. unfold der_at. rewrite rev_app_distr. cbn [rev app drop_while_gt]. now destruct (Nat.ltb Lv (d_level dd)). Qed.

  Lemma dwg_mono (l : list dated) : forall Lv Lv' dd rest,
    Lv <= Lv' -> rchain l -> drop_while_gt Lv l = dd :: rest ->
    exists dd' rest', drop_while_gt Lv' l = dd' :: rest' /\ tle (d_accum dd') (d_accum dd).
  Proof.
    induction l as [|d l IH]; intros Lv Lv' dd rest Hle Hc; cbn [drop_while_gt]; [discriminate|].
    destruct (Nat.ltb_spec Lv (d_level d)) as [H|H].
    - intros E. destruct (Nat.ltb_spec Lv' (d_level d)) as [H'|H'].
      + eapply IH; [exact Hle|exact (proj2 Hc)|exact E].
      + exists d, l. split; [reflexivity|]. apply (rchain_head_le d l dd Hc). right.
        apply (dwg_incl Lv). rewrite E. now left.
    - intros E. injection E as <- <-. destruct (Nat.ltb_spec Lv' (d_level d)); [lia|].
      exists d, l. split; [reflexivity|apply tle_refl].
  Qed.

  Lemma der_at_mono Lv Lv' ds t :
    Lv <= Lv' -> rchain (rev ds) -> der_at Lv ds = Some t -> exists t', der_at Lv' ds = Some t' /\ tle t' t.
  Proof.
    intros Hle Hc. unfold der_at. destruct (drop_while_gt Lv (rev ds)) as [|dd rest] eqn:E; [discriminate|].
    intros H. injection H as <-. destruct (dwg_mono _ _ _ _ _ Hle Hc E) as (dd' & rest' & E' & Ht).
    rewrite E'. eauto.
  Qed.

  Lemma der_at_in Lv ds t : der_at Lv ds = Some t -> exists dd, In dd (rev ds) /\ t = d_accum dd.
  Proof.
    unfold der_at. destruct (drop_while_gt Lv (rev ds)) as [|dd rest] eqn:E; [discriminate|].
    intros H. injection H as <-. exists dd. split; [|reflexivity]. apply (dwg_incl Lv). rewrite E. now left.
  Qed.

  (* ---- term_at ---- *)
  Lemma term_at_mono Lv Lv' a t :
    pa_chain a -> Lv <= Lv' -> term_at Lv a = Some t -> exists t', term_at Lv' a = Some t' /\ tle t' t.
  Proof.
    intros [Hc Hs] Hle. unfold term_at. destruct (ai a) as [g v t0|t0].
    - destruct (Nat.leb_spec (highest a) Lv) as [H|H].
      + intros E. injection E as <-. destruct (Nat.leb_spec (highest a) Lv'); [|lia]. exists t0. split; [reflexivity|apply tle_refl].
      + intros E. destruct (Nat.leb_spec (highest a) Lv') as [H'|H'].
        * exists t0. split; [reflexivity|]. destruct (rev (derivs a)) as [|dl rest] eqn:Er; [destruct Hs|].
          destruct Hs as [-> Hcon]. apply tle_exact. cbn [sat_term].
          apply der_at_in in E. destruct E as (dd & Hin & ->). rewrite Er in Hin.
          exact (rchain_head_le dl rest dd Hc Hin (Some v) Hcon).
        * eapply der_at_mono; eauto.
    - intros E. eapply der_at_mono; eauto.
  Qed.

  (* the current term is the term at the current level *)
  Lemma term_at_cur lvl a : pa_chain a -> highest a <= lvl -> term_at lvl a = Some (ai_term (ai a)).
  Proof.
    intros [Hc Hs] Hh. unfold term_at. destruct (ai a) as [g v t0|t0]; cbn [ai_term].
    - destruct (Nat.leb_spec (highest a) lvl); [reflexivity|lia].
    - unfold der_at. destruct (rev (derivs a)) as [|dl rest]; [destruct Hs|]. destruct Hs as [-> Hl].
      rewrite dwg_head by lia. reflexivity.
  Qed.

  Lemma lookup_at_level (p : psol) q :
    layout p -> ps_chain (assignments p) -> lookup_at (level p) (assignments p) q = term_for p q.
  Proof.
    intros Hl Hc. unfold lookup_at, term_for. destruct (get q (assignments p)) as [a|] eqn:E; [|reflexivity]. cbn.
    apply term_at_cur.
    - apply get_In in E. unfold ps_chain in Hc. rewrite Forall_forall in Hc. exact (Hc _ E).
    - exact (proj1 (proj2 (layout_get_ok p q a Hl E))).
  Qed.

  Lemma lookup_at_mono Lv Lv' asg q t :
    ps_chain asg -> Lv <= Lv' -> lookup_at Lv asg q = Some t -> exists t', lookup_at Lv' asg q = Some t' /\ tle t' t.
  Proof.
    intros Hc Hle. unfold lookup_at. destruct (get q asg) as [a|] eqn:E; [|discriminate].
    apply term_at_mono; [|exact Hle]. apply get_In in E. unfold ps_chain in Hc. rewrite Forall_forall in Hc. exact (Hc _ E).
  Qed.

  (* ---------------------------------------------------------------- refinement of partial solutions *)
  (* up to level B, every package keeps a term, and it can only shrink *)
  Definition refines (B : nat) (asg asg' : list (pkg * pa)) : Prop :=
    forall Lv q t, Lv <= B -> lookup_at Lv asg q = Some t -> exists t', lookup_at Lv asg' q = Some t' /\ tle t' t.

  Lemma refines_refl B asg : refines B asg asg.
  Proof. intros Lv q t _ H. exists t. split; [exact H|apply tle_refl]. Qed.

  Lemma refines_trans B B' asg1 asg2 asg3 :
    refines B asg1 asg2 -> refines B' asg2 asg3 -> refines (Nat.min B B') asg1 asg3.
  Proof.
    intros H1 H2 Lv q t Hle H. destruct (H1 Lv q t ltac:(lia) H) as (t' & Ht' & Hl1).
    destruct (H2 Lv q t' ltac:(lia) Ht') as (t'' & Ht'' & Hl2). exists t''. split; [exact Ht''|eapply tle_trans; eauto].
  Qed.

  Lemma refines_weaken B B' asg asg' : B' <= B -> refines B asg asg' -> refines B' asg asg'.
  Proof. intros Hle H Lv q t HL. apply H. lia. Qed.

  Lemma refines_eq B asg asg' :
    (forall Lv q, Lv <= B -> lookup_at Lv asg' q = lookup_at Lv asg q) -> refines B asg asg'.
  Proof. intros H Lv q t HL E. exists t. split; [now rewrite H|apply tle_refl]. Qed.
  (* ---------------------------------------------------------------- association lists *)
  Lemma get_perm {A} (l l' : list (pkg * A)) x :
    NoDup (keys l) -> NoDup (keys l') -> (forall e, In e l <-> In e l') -> get x l = get x l'.
  Proof.
    intros H1 H2 H. destruct (get x l) as [a|] eqn:E.
    - apply get_In in E. apply H in E. symmetry. now apply In_get.
    - destruct (get x l') as [b|] eqn:E'; [|reflexivity]. apply get_In in E'. apply H in E'.
      apply (In_get _ _ _ H1) in E'. congruence.
  Qed.

  Lemma swap_in {A} (l : list A) i j x : i < length l -> j < length l -> (In x (swap_indices l i j) <-> In x l).
  Proof.
    intros Hi Hj. split; intros H; apply In_nth_error in H; destruct H as (k & Hk).
    - rewrite swap_nth in Hk by assumption. eapply nth_error_In; eauto.
    - apply (nth_error_In _ (if Nat.eqb k i then j else if Nat.eqb k j then i else k)).
      rewrite swap_nth by assumption. rewrite <- Hk. f_equal.
      destruct (Nat.eqb_spec k i) as [->|Hki].
      + destruct (Nat.eqb_spec j i) as [->|]; [reflexivity|]. now rewrite Nat.eqb_refl.
      + destruct (Nat.eqb_spec k j) as [->|Hkj]; [now rewrite Nat.eqb_refl|].
        destruct (Nat.eqb_spec k i); [lia|]. destruct (Nat.eqb_spec k j); [lia|reflexivity].
  Qed.

  Lemma get_set_if {A} p q (a : A) m : get q (set p a m) = if N.eqb q p then Some a else get q m.
  Proof.
    destruct (N.eqb_spec q p) as [->|Hne]; [apply get_set_same|]. apply get_set_other. congruence.
  Qed.

  Lemma get_snoc_if {A} p q (a : A) m : get p m = None -> get q (m ++ [(p, a)]) = if N.eqb q p then Some a else get q m.
  Proof.
    intros Hn. rewrite get_app. cbn [get]. destruct (N.eqb_spec q p) as [->|Hne]; [now rewrite Hn|].
    now destruct (get q m).
  Qed.

  Lemma ps_chain_get asg q a : ps_chain asg -> get q asg = Some a -> pa_chain a.
  Proof. intros H Hg. apply get_In in Hg. unfold ps_chain in H. rewrite Forall_forall in H. exact (H _ Hg). Qed.

  (* ---------------------------------------------------------------- add_derivation *)
  Definition deriv_upd (p : psol) (cause : nat) (ct : tm) (a : pa) (t : tm) : pa :=
    let t' := t_intersection O t (t_negate ct) in
    {| smallest := smallest a; highest := level p;
       derivs := derivs a ++ [{| d_gidx := next_gidx p; d_level := level p; d_cause := cause; d_accum := t' |}];
       ai := ADerivations t' |}.
  Definition deriv_new (p : psol) (cause : nat) (ct : tm) : pa :=
    {| smallest := level p; highest := level p;
       derivs := [{| d_gidx := next_gidx p; d_level := level p; d_cause := cause; d_accum := t_negate ct |}];
       ai := ADerivations (t_negate ct) |}.

  Lemma add_derivation_get p q cause cts p' :
    add_derivation O p q cause cts = Good p' ->
    exists ct a', get q cts = Some ct /\ level p' = level p /\ queue p' = queue p
      /\ (forall x, get x (assignments p') = if N.eqb x q then Some a' else get x (assignments p))
      /\ ((exists a t, get q (assignments p) = Some a /\ ai a = ADerivations t /\ a' = deriv_upd p cause ct a t
                       /\ assignments p' = set q a' (assignments p))
          \/ (get q (assignments p) = None /\ a' = deriv_new p cause ct /\ assignments p' = assignments p ++ [(q, a')])).
  Proof.
    unfold add_derivation, bind, req. destruct (get q cts) as [ct|]; [|discriminate].
    destruct (index_of q (assignments p) 0) as [idx|] eqn:Ei.
    - destruct (index_of_spec q _ idx Ei) as (a & _ & Hg & _). rewrite Hg.
      destruct (ai a) as [|t] eqn:Ea; [discriminate|]. intros E. injection E as <-. cbn [level queue assignments].
      exists ct, (deriv_upd p cause ct a t). split; [reflexivity|]. split; [reflexivity|]. split; [reflexivity|].
      split; [intros x; apply get_set_if|]. left. exists a, t. auto.
    - apply index_of_None in Ei. rewrite Ei. intros E. injection E as <-. cbn [level queue assignments].
      exists ct, (deriv_new p cause ct). split; [reflexivity|]. split; [reflexivity|]. split; [reflexivity|].
      split; [intros x; now apply get_snoc_if|]. right. auto.
  Qed.

  Lemma twf_all_get (cts : list (pkg * tm)) q ct : twf_all O L cts -> get q cts = Some ct -> twf ct.
  Proof. intros H Hg. apply get_In in Hg. unfold twf_all in H. rewrite Forall_forall in H. exact (H _ Hg). Qed.

  Lemma deriv_upd_chain p cause ct a t :
    pa_chain a -> ai a = ADerivations t -> twf t -> twf ct -> pa_chain (deriv_upd p cause ct a t).
  Proof.
    intros [Hc Hs] Ea Wt Wc. unfold pa_chain, deriv_upd. cbn [derivs ai highest]. rewrite rev_app_distr. cbn [rev app].
    split; [|cbn; auto]. cbn [rchain d_accum]. split; [|exact Hc].
    destruct (rev (derivs a)) as [|dl rest] eqn:Er; [constructor|]. rewrite Ea in Hs. destruct Hs as [-> _].
    apply Forall_forall. intros x Hx. eapply tle_trans; [apply tle_inter_l; [exact Wt|now apply twf_negate]|].
    exact (rchain_head_le dl rest x Hc Hx).
  Qed.

  Lemma deriv_new_chain p cause ct : pa_chain (deriv_new p cause ct).
  Proof. unfold pa_chain, deriv_new. cbn. repeat split; constructor. Qed.

  Lemma add_derivation_chain p q cause cts p' :
    ps_chain (assignments p) -> ps_wf p -> twf_all O L cts ->
    add_derivation O p q cause cts = Good p' -> ps_chain (assignments p').
  Proof.
    intros Hc Hw Wc E. destruct (add_derivation_get _ _ _ _ _ E) as (ct & a' & Hct & _ & _ & _ & [(a & t & Hg & Ea & -> & ->)|(Hg & -> & ->)]).
    - apply set_forall; [|exact Hc]. apply deriv_upd_chain; [exact (ps_chain_get _ _ _ Hc Hg)|exact Ea| |exact (twf_all_get _ _ _ Wc Hct)].
      pose proof (proj1 (ps_wf_get O L _ _ _ Hw Hg)) as W. now rewrite Ea in W.
    - apply Forall_app. split; [exact Hc|]. constructor; [apply deriv_new_chain|constructor].
  Qed.

  Lemma add_derivation_refines p q cause cts p' B :
    layout p -> ps_chain (assignments p) -> ps_wf p -> twf_all O L cts ->
    add_derivation O p q cause cts = Good p' -> refines B (assignments p) (assignments p').
  Proof.
    intros Hl Hc Hw Wc E. destruct (add_derivation_get _ _ _ _ _ E) as (ct & a' & Hct & _ & _ & Hget & Hcase).
    intros Lv x t _. unfold lookup_at. rewrite Hget. destruct (N.eqb_spec x q) as [->|Hne]; [|intros H; exists t; split; [exact H|apply tle_refl]].
    destruct Hcase as [(a & t0 & Hg & Ea & -> & _)|(Hg & _ & _)]; rewrite Hg; [|discriminate].
    unfold term_at. rewrite Ea. cbn [deriv_upd ai derivs]. rewrite der_at_snoc. cbn [d_level d_accum].
    destruct (Nat.ltb_spec Lv (level p)) as [Hlt|Hge]; [intros H; exists t; split; [exact H|apply tle_refl]|].
    pose proof (ps_chain_get _ _ _ Hc Hg) as [Hch Hs]. unfold der_at.
    destruct (rev (derivs a)) as [|dl rest]; [destruct Hs|]. rewrite Ea in Hs. destruct Hs as [-> Hh].
    pose proof (proj1 (proj2 (layout_get_ok p q a Hl Hg))) as Hhl.
    rewrite dwg_head by lia. intros H. injection H as <-. eexists. split; [reflexivity|].
    apply tle_inter_l; [|apply twf_negate; exact (twf_all_get _ _ _ Wc Hct)].
    pose proof (proj1 (ps_wf_get O L _ _ _ Hw Hg)) as W. now rewrite Ea in W.
  Qed.

  (* the derived package's new term is disjoint from its term in the cause *)
  Lemma add_derivation_new_term p q cause cts p' :
    ps_wf p -> twf_all O L cts -> add_derivation O p q cause cts = Good p' ->
    exists ct t', In (q, ct) cts /\ term_for p' q = Some t' /\ tdisj ct t'.
  Proof.
    intros Hw Wc E. destruct (add_derivation_get _ _ _ _ _ E) as (ct & a' & Hct & _ & _ & Hget & Hcase).
    pose proof (twf_all_get _ _ _ Wc Hct) as Wct.
    exists ct. unfold term_for. rewrite Hget, N.eqb_refl. cbn [option_map].
    destruct Hcase as [(a & t0 & Hg & Ea & -> & _)|(Hg & -> & _)]; cbn [deriv_upd deriv_new ai ai_term]; eexists;
      (split; [now apply get_In|]); (split; [reflexivity|]).
    - apply tdisj_inter_neg; [|exact Wct]. pose proof (proj1 (ps_wf_get O L _ _ _ Hw Hg)) as W. now rewrite Ea in W.
    - now apply tdisj_neg.
  Qed.

  Lemma add_derivation_decided p q cause cts p' x a :
    add_derivation O p q cause cts = Good p' -> get x (assignments p') = Some a -> decided a = true ->
    get x (assignments p) = Some a.
  Proof.
    intros E. destruct (add_derivation_get _ _ _ _ _ E) as (ct & a' & _ & _ & _ & Hget & Hcase). rewrite Hget.
    destruct (N.eqb_spec x q) as [->|Hne]; [|auto]. intros H Hd. injection H as <-. exfalso.
    destruct Hcase as [(a0 & t0 & _ & _ & -> & _)|(_ & -> & _)]; discriminate.
  Qed.

  Lemma add_derivation_decided_rev p q cause cts p' x a :
    add_derivation O p q cause cts = Good p' -> get x (assignments p) = Some a -> decided a = true ->
    get x (assignments p') = Some a.
  Proof.
    intros E. destruct (add_derivation_get _ _ _ _ _ E) as (ct & a' & _ & _ & _ & Hget & Hcase). rewrite Hget.
    destruct (N.eqb_spec x q) as [->|Hne]; [|auto]. intros H Hd. exfalso.
    destruct Hcase as [(a0 & t0 & Hg & Ea & _)|(Hg & _)]; [|congruence].
    assert (a0 = a) by congruence. subst a0. unfold decided in Hd. now rewrite Ea in Hd.
  Qed.

  (* ---------------------------------------------------------------- add_decision *)
  Definition decide_upd (p : psol) (v : Vr) (a : pa) : pa :=
    {| smallest := smallest a; highest := S (level p); derivs := derivs a;
       ai := ADecision (next_gidx p) v (t_exact O v) |}.

  Lemma add_decision_get p q v p' :
    layout p -> add_decision O p q v = Good p' ->
    exists a t, get q (assignments p) = Some a /\ ai a = ADerivations t /\ t_contains O t v = true
      /\ level p' = S (level p) /\ queue p' = queue p
      /\ forall x, get x (assignments p') = if N.eqb x q then Some (decide_upd p v a) else get x (assignments p).
  Proof.
    intros Hl E. pose proof (add_decision_layout O _ _ _ _ Hl E) as Hl'. revert E.
    unfold add_decision. destruct (index_of q (assignments p) 0) as [oi|] eqn:Ei; [|discriminate].
    destruct (index_of_spec q _ oi Ei) as (a & Hn & Hg & Hlen & Hset). rewrite Hg.
    destruct (ai a) as [|t] eqn:Ea; [discriminate|].
    destruct (t_contains O t v) eqn:Ec; [|discriminate]. cbn [negb].
    destruct (Nat.eqb (changed p) (length (assignments p))); [|discriminate]. cbn [negb].
    intros E. exists a, t. split; [reflexivity|]. split; [exact Ea|]. split; [exact Ec|].
    injection E as <-. cbn [level queue assignments] in *. split; [reflexivity|]. split; [reflexivity|].
    fold (decide_upd p v a) in *. intros x. rewrite <- get_set_if.
    destruct (Nat.eqb (level p) oi); [reflexivity|].
    assert (Hund : decided a = false) by (unfold decided; now rewrite Ea).
    pose proof (undecided_pos p oi q a Hl Hn Hund) as Hge.
    assert (Hlt : oi < length (assignments p)) by (apply nth_error_Some; congruence).
    symmetry. apply get_perm.
    - apply nodup_set. exact (lay_keys p Hl).
    - exact (lay_keys _ Hl').
    - intros e. symmetry. apply swap_in; rewrite Hlen; lia.
  Qed.

  Lemma add_decision_chain p q v p' :
    layout p -> ps_chain (assignments p) -> add_decision O p q v = Good p' -> ps_chain (assignments p').
  Proof.
    intros Hl Hc E. revert E.
    unfold add_decision. destruct (index_of q (assignments p) 0) as [oi|] eqn:Ei; [|discriminate].
    destruct (index_of_spec q _ oi Ei) as (a & Hn & Hg & Hlen & Hset). rewrite Hg.
    destruct (ai a) as [|t] eqn:Ea; [discriminate|].
    destruct (t_contains O t v) eqn:Ec; [|discriminate]. cbn [negb].
    destruct (Nat.eqb (changed p) (length (assignments p))); [|discriminate]. cbn [negb].
    intros E. injection E as <-. cbn [assignments].
    assert (Hs : ps_chain (set q (decide_upd p v a) (assignments p))).
    { apply set_forall; [|exact Hc]. pose proof (ps_chain_get _ _ _ Hc Hg) as [H1 H2].
      unfold pa_chain, decide_upd. cbn [derivs ai]. split; [exact H1|].
      destruct (rev (derivs a)) as [|dl rest]; [exact H2|]. rewrite Ea in H2. destruct H2 as [-> _]. auto. }
    destruct (Nat.eqb (level p) oi); [exact Hs|now apply swap_forall].
  Qed.

  Lemma add_decision_refines p q v p' :
    layout p -> add_decision O p q v = Good p' -> refines (level p) (assignments p) (assignments p').
  Proof.
    intros Hl E. destruct (add_decision_get _ _ _ _ Hl E) as (a & t & Hg & Ea & _ & _ & _ & Hget).
    apply refines_eq. intros Lv x HL. unfold lookup_at. rewrite Hget.
    destruct (N.eqb_spec x q) as [->|]; [|reflexivity]. rewrite Hg. unfold term_at, decide_upd. cbn [ai highest derivs].
    rewrite Ea. destruct (Nat.leb_spec (S (level p)) Lv); [lia|reflexivity].
  Qed.

  (* ---------------------------------------------------------------- backtracking *)
  Lemma mono_ge (l : list dated) : forall lo lo', mono lo l -> lo' <= lo -> Forall (fun d => lo' <= d_level d) l.
  Proof.
    induction l as [|d l IH]; intros lo lo'; cbn [mono]; [constructor|]. intros [H1 H2] Hle.
    constructor; [lia|]. eapply IH; [exact H2|lia].
  Qed.

  Lemma backtrack_pa_term_at Lv Lv' lvl (a : pa) oa :
    pa_ok lvl a -> Lv' <= Lv -> backtrack_pa Lv a = Good oa ->
    match oa with Some a' => term_at Lv' a' = term_at Lv' a | None => term_at Lv' a = None end.
  Proof.
    intros (K1 & K2 & K3 & K4) Hle. unfold backtrack_pa.
    destruct (Nat.ltb_spec Lv (smallest a)) as [Hs|Hs].
    - intros E. injection E as <-.
      assert (Hd : der_at Lv' (derivs a) = None).
      { unfold der_at. rewrite dwg_all; [reflexivity|]. apply Forall_rev.
        eapply Forall_impl; [|exact (mono_ge _ _ (smallest a) K3 (le_n _))]. cbn. intros; lia. }
      unfold term_at. destruct (ai a); [|exact Hd]. destruct (Nat.leb_spec (highest a) Lv'); [lia|exact Hd].
    - destruct (Nat.leb_spec (highest a) Lv) as [Hh|Hh]; [intros E; now injection E as <-|].
      rewrite rev_involutive. destruct (drop_while_gt Lv (rev (derivs a))) as [|lst rest] eqn:Ed; [discriminate|].
      intros E. injection E as <-. unfold term_at at 1. cbn [ai derivs].
      assert (Hd : der_at Lv' (rev (lst :: rest)) = der_at Lv' (derivs a)).
      { unfold der_at. rewrite rev_involutive, <- Ed. now rewrite dwg_le. }
      cbn [rev] in Hd. rewrite Hd. unfold term_at. destruct (ai a); [|reflexivity]. destruct (Nat.leb_spec (highest a) Lv'); [lia|reflexivity].
  Qed.

  Lemma backtrack_pa_chain Lv (a a' : pa) : pa_chain a -> backtrack_pa Lv a = Good (Some a') -> pa_chain a'.
  Proof.
    intros [Hc Hs]. unfold backtrack_pa. destruct (Nat.ltb Lv (smallest a)); [discriminate|].
    destruct (Nat.leb (highest a) Lv); [intros E; injection E as <-; split; assumption|].
    rewrite rev_involutive. destruct (drop_while_gt Lv (rev (derivs a))) as [|lst rest] eqn:Ed; [discriminate|].
    intros E. injection E as <-. unfold pa_chain. cbn [derivs ai highest rev]. rewrite rev_app_distr, rev_involutive. cbn [rev app].
    split; [|auto]. destruct (dwg_suffix Lv (rev (derivs a))) as (pre & Epre). rewrite Ed in Epre.
    rewrite Epre in Hc. exact (rchain_suffix _ _ Hc).
  Qed.

  Lemma backtrack_pa_decided Lv (a a' : pa) :
    backtrack_pa Lv a = Good (Some a') -> decided a' = true -> a' = a /\ highest a <= Lv.
  Proof.
    unfold backtrack_pa. destruct (Nat.ltb Lv (smallest a)); [discriminate|].
    destruct (Nat.leb_spec (highest a) Lv); [intros E; injection E as <-; auto|].
    destruct (rev (rev _)); [discriminate|]. intros E. injection E as <-. discriminate.
  Qed.

  Lemma backtrack_asg_get Lv (m : list (pkg * pa)) : forall m' q,
    NoDup (keys m) -> backtrack_asg Lv m = Good m' ->
    get q m' = match get q m with
               | Some a => match backtrack_pa Lv a with Good oa => oa | Panic _ => None end
               | None => None
               end.
  Proof.
    induction m as [|[p a] m IH]; intros m' q Hnd; cbn [backtrack_asg get].
    - intros E. now injection E as <-.
    - inversion Hnd as [|? ? Hni Hnd']; subst. unfold bind.
      destruct (backtrack_pa Lv a) as [oa|] eqn:Ea; [|discriminate].
      destruct (backtrack_asg Lv m) as [r'|] eqn:Er; [|discriminate].
      intros E. injection E as <-. specialize (IH r' q Hnd' eq_refl).
      destruct (N.eqb_spec q p) as [->|Hne].
      + rewrite Ea. destruct oa as [x|]; [cbn [get]; now rewrite N.eqb_refl|].
        apply get_None. intros Hin. apply Hni. exact (proj1 (backtrack_asg_keys Lv m r' Er) p Hin).
      + destruct oa as [x|]; [cbn [get]|exact IH]. destruct (N.eqb_spec q p); [congruence|exact IH].
  Qed.

  Lemma backtrack_asg_chain Lv (m : list (pkg * pa)) : forall m',
    ps_chain m -> backtrack_asg Lv m = Good m' -> ps_chain m'.
  Proof.
    induction m as [|[p a] m IH]; intros m' H; cbn [backtrack_asg].
    - intros E. injection E as <-. constructor.
    - inversion H as [|? ? Ha Hm]; subst. unfold bind.
      destruct (backtrack_pa Lv a) as [oa|] eqn:Ea; [|discriminate].
      destruct (backtrack_asg Lv m) as [r'|] eqn:Er; [|discriminate].
      intros E. injection E as <-. specialize (IH r' Hm eq_refl).
      destruct oa as [x|]; [|exact IH]. constructor; [|exact IH]. cbn [snd] in *. eapply backtrack_pa_chain; eauto.
  Qed.

  Section Backtrack.
    Variables (p p' : psol) (Lv : nat).
    Hypothesis Hl : layout p.
    Hypothesis E : ps_backtrack p Lv = Good p'.

    Lemma ps_backtrack_asg : level p' = Lv /\ queue p' = [] /\ backtrack_asg Lv (assignments p) = Good (assignments p').
    Proof.
      revert E. unfold ps_backtrack, bind. destruct (backtrack_asg Lv (assignments p)) as [asg|]; [|discriminate].
      intros H. injection H as <-. auto.
    Qed.

    Lemma ps_backtrack_refines : refines Lv (assignments p) (assignments p').
    Proof.
      destruct ps_backtrack_asg as (_ & _ & Ea). apply refines_eq. intros Lv' q HL. unfold lookup_at.
      rewrite (backtrack_asg_get Lv _ _ q (lay_keys p Hl) Ea).
      destruct (get q (assignments p)) as [a|] eqn:Eg; [|reflexivity].
      pose proof (layout_get_ok p q a Hl Eg) as Hok.
      destruct (backtrack_pa Lv a) as [oa|s] eqn:Eb.
      - pose proof (backtrack_pa_term_at Lv Lv' _ a oa Hok HL Eb) as H. destruct oa; [exact H|now rewrite H].
      - exfalso. apply get_In in Eg. apply in_split in Eg. destruct Eg as (l1 & l2 & Eg).
        rewrite Eg, backtrack_asg_app in Ea. destruct (backtrack_asg Lv l1); [|discriminate].
        cbn [backtrack_asg] in Ea. unfold bind in Ea. rewrite Eb in Ea. discriminate.
    Qed.

    Lemma ps_backtrack_chain : ps_chain (assignments p) -> ps_chain (assignments p').
    Proof. intros Hc. destruct ps_backtrack_asg as (_ & _ & Ea). eapply backtrack_asg_chain; eauto. Qed.

    Lemma ps_backtrack_decided x a :
      get x (assignments p') = Some a -> decided a = true -> get x (assignments p) = Some a /\ highest a <= Lv.
    Proof.
      destruct ps_backtrack_asg as (_ & _ & Ea). rewrite (backtrack_asg_get Lv _ _ x (lay_keys p Hl) Ea).
      destruct (get x (assignments p)) as [a0|]; [|discriminate].
      destruct (backtrack_pa Lv a0) as [oa|] eqn:Eb; [|discriminate]. intros -> Hd.
      destruct (backtrack_pa_decided _ _ _ Eb Hd) as [-> H]. auto.
    Qed.
  End Backtrack.
End Sound1.
