(* C14 end to end: every decision of the generating model is for a package of maximal reported priority.

   [resolve_g_is_resolve_run] factors the glue of [resolve_g_total_correctness_full]
   (Proofs/SolverEndToEndFull.v): a run of the generating model [resolve_g] against a provider that [serves]
   a finite registry is a [resolve] run on the well-behaved trace [tr] that consumes exactly [length tr]
   events and ends with Ok or NoSolution.  [resolve_g_decisions_are_maximal] then applies the per-run
   theorems of Props/Properties_C14.v (Proofs/SolverQueue.v, SolverQueue2.v) to that run. *)
From Coq Require Import List NArith ZArith Bool Lia PeanoNat Permutation.
From PG Require Import Model.VS Model.Term Model.Heap Model.Solver Model.Registry Proofs.VSLaws Proofs.SolverSem
  Proofs.AssocProofs Proofs.SolverStore Proofs.SolverShared Proofs.SolverProto2 Proofs.SolverNoPanic1 Proofs.SolverNoPanic
  Proofs.SolverTerm1 Proofs.SolverTerm4 Proofs.SolverTerm Proofs.SolverQueue Proofs.SolverQueue2 Proofs.SolverSound
  Proofs.SolverTrace Proofs.SolverDet Proofs.HeapProofs Proofs.SolverDetQueue Proofs.SolverDetInst Proofs.SolverGen
  Proofs.SolverProtocol Proofs.SolverTree Proofs.SolverReach Proofs.SolverEndToEnd Proofs.SolverEndToEndFull.
Import ListNotations.

Section PriorityEndToEnd.
  Context {VS Vr : Type} (O : VSOps VS Vr) (L : VSLawful O) (veqb : Vr -> Vr -> bool).
  Context (reg : registry (VS := VS) (Vr := Vr)) (r : pkg) (rv : Vr).
  Variable R : Ranked O L.
  Variable pkgs : list pkg.
  Notation event := (@event VS Vr).
  Notation tprovider := (@tprovider VS Vr).

  (* the glue: the generated run is a [resolve] run on [tr] itself, consuming all of it *)
  Lemma resolve_g_is_resolve_run :
    singleton_atomic O L -> reg_wf O L reg ->
    (forall a b, veqb a b = true -> a = b) -> (forall v, veqb v v = true) -> (forall s, vs_eqb O s s = true) ->
    finite_registry O L reg r rv R pkgs ->
    forall (pg : tprovider) fuel o st log cnt (tr : list event),
      serves O reg pg -> Fuel1 O L R pkgs <= fuel ->
      resolve_g O veqb pg fuel r rv = ((o, st, log, cnt), tr) ->
      resolve O veqb fuel r rv tr = (o, st, log, length tr)
      /\ cnt = length tr
      /\ WellBehaved O reg tr
      /\ ((exists sol, o = OSolution sol) \/ (exists t, o = ONoSolution t)).
  Proof.
    intros Hat Hwf Hveq Hvrefl Hsrefl (F1 & F2 & F3 & F4 & F5) pg fuel o st log cnt tr Hserv Hfuel Hg.
    destruct (resolve_g_is_accepted_run O veqb Hsrefl Hvrefl pg fuel r rv _ tr Hg)
      as (Hgen0 & Hlen & la & Hgen & Hres & Hla).
    pose proof (resolve_g_no_mismatch O veqb pg fuel r rv (o, st, log, cnt) tr) as Hnm.
    assert (Hn6 : forall k, fst (fst (fst (resolve_h O veqb fuel r rv (tr ++ la)))) <> OMismatch k 6).
    { intros k. rewrite Hres. exact (Hnm k 6%N Hg). }
    pose proof (resolve_h_erasure O veqb fuel r rv (tr ++ la) Hn6) as Her. rewrite Hres in Her.
    pose proof (resolve_h_pick_is_max O veqb fuel r rv (tr ++ la)) as Hpm. rewrite Hres in Hpm.
    destruct (good_trace O reg _ (serves_generated_good O reg pg Hserv _ _ Hgen)) as (Hwb & Hcc & Hne).
    cbn [fst snd] in *. symmetry in Her.
    destruct (resolve_terminates O L veqb reg r rv Hat Hwf Hveq R pkgs F1 F2 F3 F4 F5
                fuel (tr ++ la) o st log cnt Hwb Hcc Hne Hfuel Her) as [Hout Hcnt].
    assert (Hfin : (exists sol, o = OSolution sol) \/ (exists t, o = ONoSolution t)).
    { destruct Hout as [(sol & ->)|[(t & ->)|[(k & w & ->)|(k & p & ->)]]].
      - left. eauto.
      - right. eauto.
      - exfalso. exact (Hnm k w Hg eq_refl).
      - exfalso. exact (Hpm k p eq_refl). }
    assert (Ela : la = []).
    { destruct Hla as [E|[Hc _]]; [exact E|]. exfalso.
      destruct Hfin as [(sol & ->)|(t & ->)]; cbn [stops_before_choose] in Hc; discriminate Hc. }
    subst la. rewrite app_nil_r in *. subst cnt.
    split; [exact Her|]. split; [reflexivity|]. split; [exact Hwb|exact Hfin].
  Qed.

  Theorem resolve_g_decisions_are_maximal :
    singleton_atomic O L -> reg_wf O L reg ->
    (forall a b, veqb a b = true -> a = b) -> (forall v, veqb v v = true) -> (forall s, vs_eqb O s s = true) ->
    finite_registry O L reg r rv R pkgs ->
    forall (pg : tprovider) fuel res (tr : list event),
      serves O reg pg -> Fuel1 O L R pkgs <= fuel ->
      resolve_g O veqb pg fuel r rv = (res, tr) ->
      forall k cands q n2, nth_error (snd (fst res)) k = Some (cands, q, n2) ->
        (* every undecided package with a positive term is queued, for exactly its current set, by its LAST
           prioritize call *)
        (forall x s, In (x, s) cands -> exists z, get x q = Some (z, s) /\ last_prio_at tr n2 x s z)
        (* the package asked about at this decision point has the maximal priority of the queue, reported for
           exactly the offered set, and every queued priority is below it *)
        /\ (forall p s a, nth_error tr n2 = Some (EvChoose p s a) ->
              exists z, get p q = Some (z, s) /\ queue_max q = Some z
                        /\ forall x zx sx, get x q = Some (zx, sx) -> (zx <= z)%Z).
  Proof.
    intros Hat Hwf Hveq Hvrefl Hsrefl Hfin pg fuel res tr Hserv Hfuel Hg k cands q n2 Hk.
    destruct res as [[[o st] log] cnt]. cbn [fst snd] in Hk.
    destruct (resolve_g_is_resolve_run Hat Hwf Hveq Hvrefl Hsrefl Hfin pg fuel o st log cnt tr Hserv Hfuel Hg)
      as (Her & _ & Hwb & _).
    pose proof (wellbehaved_trace_wf O L reg tr Hwf Hwb) as Htwf.
    split.
    - intros x s Hin.
      exact (resolve_fresh_reported O L veqb fuel r rv tr o st log (length tr) k cands q n2 x s Htwf Her Hk Hin).
    - intros p s a Hn.
      assert (Hlt : n2 < length tr) by (apply nth_error_Some; rewrite Hn; discriminate).
      destruct (resolve_choose_max O L veqb fuel r rv tr o st log (length tr) k cands q n2 p s a Htwf Her Hk Hlt Hn)
        as (z & Hz & Hmax).
      exists z. split; [exact Hz|]. split; [exact Hmax|].
      intros x zx sx Hx. exact (SolverQueue2.queue_max_ge (VS := VS) q z x zx sx Hmax Hx).
  Qed.
End PriorityEndToEnd.

Print Assumptions resolve_g_is_resolve_run.
Print Assumptions resolve_g_decisions_are_maximal.
