(* The text report of a NoSolution produced by the solver model is a sound linear proof.

   Composition of
     C03 (Proofs/SolverTree.v, Proofs/SolverShared.v): the NoSolution tree of [resolve] is [tree_ok], its top node
         forbids the root, and all occurrences of one shared id are the same subtree;
     C08 (Proofs/ReportProofs.v): the step list of DefaultStringReporter on a tree that is [shared_consistent] and
         [locally_entailed] is a well-formed, sound linear proof;
     C09 (Proofs/SolverCollapse.v, Proofs/SolverNoPair.v): collapse_no_versions never panics on such a tree and
         the collapsed tree is still a valid explanation on existing versions;
   and of the provider-level glue of Proofs/SolverEndToEnd.v (the generating model [resolve_g] against a provider
   that serves a registry is a [resolve] run on a WellBehaved trace).

   The bridge that was missing: "same shared id => same subtree" (the form C03 proves) gives [shared_consistent F t]
   for the reading [F] of the ids that is computed from the tree itself ([F_of]); and that uniqueness is preserved
   by collapse_no_versions ([collapse_unique_ids]). *)
From Coq Require Import List NArith ZArith Bool Lia PeanoNat.
From PG Require Import Model.VS Model.Term Model.Heap Model.Solver Model.Registry Model.Report Proofs.VSLaws
  Proofs.AssocProofs Proofs.SolverSem Proofs.SolverStore Proofs.SolverTree Proofs.SolverShared Proofs.ReportProofs
  Proofs.SolverCollapse Proofs.SolverNoPair Proofs.SolverTrace Proofs.SolverDet Proofs.SolverGen Proofs.SolverEndToEnd.
Import ListNotations.

(* ================================================================ bridge: unique ids => shared_consistent *)
Section Bridge.
  Context {VS Vr : Type}.
  Notation terms := (list (pkg * term VS)).
  Notation dtree := (@tree VS Vr).
  Notation ext := (@external VS Vr).

  (* all occurrences of one shared id are the same subtree (the form proved by C03) *)
  Definition unique_ids (t : dtree) : Prop :=
    forall i ts1 a1 b1 ts2 a2 b2,
      subtree (TDerived ts1 (Some i) a1 b1) t -> subtree (TDerived ts2 (Some i) a2 b2) t ->
      TDerived ts1 (Some i) a1 b1 = TDerived ts2 (Some i) a2 b2.

  (* what the id stands for, read off the first node carrying it *)
  Fixpoint find_sh (id : nat) (t : dtree) : option (terms * list ext) :=
    match t with
    | TExternal _ => None
    | TDerived ts sh c1 c2 =>
        if match sh with Some j => Nat.eqb j id | None => false end
        then Some (ts, leaves c1 ++ leaves c2)
        else match find_sh id c1 with Some x => Some x | None => find_sh id c2 end
    end.

  Definition F_of (t : dtree) : nat -> terms * list ext :=
    fun id => match find_sh id t with Some x => x | None => ([], []) end.

  Lemma find_sh_some id : forall t x, find_sh id t = Some x ->
    exists ts c1 c2, subtree (TDerived ts (Some id) c1 c2) t /\ x = (ts, leaves c1 ++ leaves c2).
  Proof.
    induction t as [e|ts sh c1 IH1 c2 IH2]; intros x H; cbn [find_sh] in H; [discriminate|].
    destruct sh as [j|].
    - destruct (Nat.eqb j id) eqn:Ej.
      + apply Nat.eqb_eq in Ej. subst j. injection H as <-. exists ts, c1, c2. split; [apply sub_refl|reflexivity].
      + destruct (find_sh id c1) as [y|] eqn:E1.
        * injection H as <-. destruct (IH1 y eq_refl) as (ts' & a & b & Hs & Hx).
          exists ts', a, b. split; [apply sub_left; exact Hs|exact Hx].
        * destruct (IH2 x H) as (ts' & a & b & Hs & Hx).
          exists ts', a, b. split; [apply sub_right; exact Hs|exact Hx].
    - destruct (find_sh id c1) as [y|] eqn:E1.
      + injection H as <-. destruct (IH1 y eq_refl) as (ts' & a & b & Hs & Hx).
        exists ts', a, b. split; [apply sub_left; exact Hs|exact Hx].
      + destruct (IH2 x H) as (ts' & a & b & Hs & Hx).
        exists ts', a, b. split; [apply sub_right; exact Hs|exact Hx].
  Qed.

  Lemma find_sh_complete id u t : subtree u t ->
    forall ts c1 c2, u = TDerived ts (Some id) c1 c2 -> exists x, find_sh id t = Some x.
  Proof.
    induction 1 as [t|u ts0 sh0 a b Hs IH|u ts0 sh0 a b Hs IH]; intros ts c1 c2 Eu.
    - subst t. cbn [find_sh]. rewrite Nat.eqb_refl. eauto.
    - destruct (IH ts c1 c2 Eu) as (x & Hx). cbn [find_sh].
      destruct (match sh0 with Some j => Nat.eqb j id | None => false end); [eauto|]. rewrite Hx. eauto.
    - destruct (IH ts c1 c2 Eu) as (x & Hx). cbn [find_sh].
      destruct (match sh0 with Some j => Nat.eqb j id | None => false end); [eauto|].
      destruct (find_sh id a); eauto.
  Qed.

  Lemma unique_ids_consistent_sub (t : dtree) : unique_ids t ->
    forall u, subtree u t -> shared_consistent (F_of t) u.
  Proof.
    intros U. induction u as [e|ts sh c1 IH1 c2 IH2]; intros Hs; [exact I|].
    cbn [shared_consistent]. split; [|split].
    - intros id ->. unfold F_of.
      destruct (find_sh_complete id _ t Hs ts c1 c2 eq_refl) as (x & Hx). rewrite Hx.
      destruct (find_sh_some id t x Hx) as (ts' & a & b & Hs' & ->).
      pose proof (U id ts' a b ts c1 c2 Hs' Hs) as E. injection E as -> -> ->. reflexivity.
    - apply IH1. eapply subtree_trans; [|exact Hs]. apply sub_left, sub_refl.
    - apply IH2. eapply subtree_trans; [|exact Hs]. apply sub_right, sub_refl.
  Qed.

  Theorem unique_ids_shared_consistent (t : dtree) : unique_ids t -> shared_consistent (F_of t) t.
  Proof. intros U. exact (unique_ids_consistent_sub t U t (sub_refl t)). Qed.
End Bridge.

(* ================================================================ C08 on a tree with unique ids *)
Section ReportOfUnique.
  Context {VS Vr : Type} (O : VSOps VS Vr).
  Notation dtree := (@tree VS Vr).
  Notation step := (@step VS Vr).

  (* the report of [t] is a well-formed linear proof, sound on each of the admissible sets for which [t] is
     locally entailed *)
  Theorem unique_ids_report_sound (t : dtree) :
    unique_ids t ->
    exists l, report_steps t = RSteps l
      /\ (nums_of l = seq 1 (length (nums_of l)) /\ Forall (fun s : step => length (s_nums s) <= 1) l)
      /\ (forall l1 s l2 r tr, l = l1 ++ s :: l2 -> In (r, tr) (cited (s_kind s)) ->
            exists la s' lb, l1 = la ++ s' :: lb /\ s_nums s' = [r] /\ s_concl s' = tr
                             /\ forall s'', In s'' (la ++ lb ++ s :: l2) -> ~ In r (s_nums s''))
      /\ (forall adm : @assignment Vr -> Prop, locally_entailed O adm t ->
            forall l1 s l2, l = l1 ++ s :: l2 -> is_explain s = true ->
              (uses_prev (s_kind s) = true -> exists p, hd_error (rev l1) = Some p /\ s_kind p <> KBlank)
              /\ entailed_on O adm (s_concl s) (premises_of O s (hd_error (rev l1))))
      /\ incl (leaves t) (cited_exts l)
      /\ (exists l0 s, l = l0 ++ [s] /\ s_kind s <> KBlank
            /\ match t with TDerived ts _ _ _ => s_concl s = ts | TExternal e => s_kind s = KOnlyExternal e end).
  Proof.
    intros U. pose proof (unique_ids_shared_consistent t U) as S.
    destruct (report_total_proof t) as (l & H). exists l. split; [exact H|].
    pose proof (report_ok_proof _ _ _ (F_of t) t l (consistent_trivial (F_of t) t S) H) as OK.
    split; [exact (conj (ok_consecutive _ _ _ _ _ OK) (ok_one_number _ _ _ _ _ OK))|].
    split; [exact (ok_refs _ _ _ _ _ OK)|].
    split; [intros adm Le; exact (report_sound_concrete O adm (F_of t) t l S Le H)|].
    split; [exact (ok_covers _ _ _ _ _ OK)|exact (ok_last _ _ _ _ _ OK)].
  Qed.
End ReportOfUnique.

(* ================================================================ (1) trace level *)
Section TraceLevel.
  Context {VS Vr : Type} (O : VSOps VS Vr) (L : VSLawful O) (veqb : Vr -> Vr -> bool).
  Context (reg : registry (VS := VS) (Vr := Vr)) (r : pkg) (rv : Vr).
  Notation step := (@step VS Vr).

  Theorem nosolution_report_is_sound_proof :
    reg_wf O L reg -> (forall a b, veqb a b = true -> a = b) ->
    forall fuel tr t st log k,
      WellBehaved O reg tr -> resolve O veqb fuel r rv tr = (ONoSolution t, st, log, k) ->
      exists l, report_steps t = RSteps l
        (* numbers consecutive from 1, at most one per line *)
        /\ (nums_of l = seq 1 (length (nums_of l)) /\ Forall (fun s : step => length (s_nums s) <= 1) l)
        (* every (r) reference points to exactly one earlier line, which carries only r and concludes the cited terms *)
        /\ (forall l1 s l2 n tr', l = l1 ++ s :: l2 -> In (n, tr') (cited (s_kind s)) ->
              exists la s' lb, l1 = la ++ s' :: lb /\ s_nums s' = [n] /\ s_concl s' = tr'
                               /\ forall s'', In s'' (la ++ lb ++ s :: l2) -> ~ In n (s_nums s''))
        (* every explaining line is entailed by what it cites, on every set of admissible assignments *)
        /\ (forall (adm : @assignment Vr -> Prop) l1 s l2, l = l1 ++ s :: l2 -> is_explain s = true ->
              (uses_prev (s_kind s) = true -> exists p, hd_error (rev l1) = Some p /\ s_kind p <> KBlank)
              /\ entailed_on O adm (s_concl s) (premises_of O s (hd_error (rev l1))))
        (* every external fact of the tree is cited, and every one of them is true of the registry *)
        /\ incl (leaves t) (cited_exts l)
        (* the last line concludes the top node *)
        /\ (exists l0 s, l = l0 ++ [s] /\ s_kind s <> KBlank
              /\ match t with TDerived ts _ _ _ => s_concl s = ts | TExternal e => s_kind s = KOnlyExternal e end)
        (* the tree is a proof (leaves true of the registry, nodes entailed) whose top node forbids the root *)
        /\ tree_ok O reg r rv t /\ top_forbids_root O r rv t.
  Proof.
    intros Hw Hv fuel tr t st log k Hwb E.
    destruct (nosolution_tree_is_proof O L veqb reg r rv Hw Hv fuel tr t st log k Hwb E) as [Ok Top].
    pose proof (nosolution_tree_same_id_same_subtree O L veqb reg r rv Hw Hv fuel tr t st log k Hwb E) as U.
    destruct (unique_ids_report_sound O t U) as (l & H & A1 & A2 & A3 & A4 & A5).
    exists l. split; [exact H|]. split; [exact A1|]. split; [exact A2|].
    split; [|split; [exact A4|split; [exact A5|split; [exact Ok|exact Top]]]].
    intros adm. apply (A3 adm). eapply tree_ok_locally_entailed. exact Ok.
  Qed.
End TraceLevel.

(* ================================================================ (3) provider level *)
Section ProviderLevel.
  Context {VS Vr : Type} (O : VSOps VS Vr) (L : VSLawful O) (veqb : Vr -> Vr -> bool).
  Context (reg : registry (VS := VS) (Vr := Vr)) (r : pkg) (rv : Vr).
  Notation step := (@step VS Vr).
  Notation tprovider := (@tprovider VS Vr).

  (* a run of the generating model against a serving provider that ends in NoSolution is a [resolve] run on a
     WellBehaved trace (the glue of resolve_g_total_correctness; neither fuel nor finiteness is needed here) *)
  Lemma resolve_g_nosolution_is_resolve_run :
    (forall v, veqb v v = true) -> (forall s, vs_eqb O s s = true) ->
    forall (pg : tprovider) fuel res tr t,
      serves O reg pg -> resolve_g O veqb pg fuel r rv = (res, tr) -> fst (fst (fst res)) = ONoSolution t ->
      exists tr' st log k, WellBehaved O reg tr' /\ resolve O veqb fuel r rv tr' = (ONoSolution t, st, log, k).
  Proof.
    intros Hvrefl Hsrefl pg fuel res tr t Hserv Hg Ht.
    destruct (resolve_g_is_accepted_run O veqb Hsrefl Hvrefl pg fuel r rv res tr Hg)
      as (_ & _ & la & Hgen & Hres & _).
    pose proof (resolve_g_no_mismatch O veqb pg fuel r rv res tr) as Hnm.
    assert (Hn6 : forall k, fst (fst (fst (resolve_h O veqb fuel r rv (tr ++ la)))) <> OMismatch k 6).
    { intros k. rewrite Hres. exact (Hnm k 6%N Hg). }
    pose proof (resolve_h_erasure O veqb fuel r rv (tr ++ la) Hn6) as Her. rewrite Hres in Her.
    destruct (good_trace O reg _ (serves_generated_good O reg pg Hserv _ _ Hgen)) as (Hwb & _ & _).
    destruct res as [[[o st] log] cnt]. cbn [fst snd] in Ht. subst o.
    exists (tr ++ la), st, log, cnt. split; [exact Hwb|]. symmetry. exact Her.
  Qed.

  Theorem resolve_g_nosolution_report_is_sound_proof :
    reg_wf O L reg ->
    (forall a b, veqb a b = true -> a = b) -> (forall v, veqb v v = true) -> (forall s, vs_eqb O s s = true) ->
    forall (pg : tprovider) fuel res tr t,
      serves O reg pg -> resolve_g O veqb pg fuel r rv = (res, tr) -> fst (fst (fst res)) = ONoSolution t ->
      exists l, report_steps t = RSteps l
        /\ (nums_of l = seq 1 (length (nums_of l)) /\ Forall (fun s : step => length (s_nums s) <= 1) l)
        /\ (forall l1 s l2 n tr', l = l1 ++ s :: l2 -> In (n, tr') (cited (s_kind s)) ->
              exists la s' lb, l1 = la ++ s' :: lb /\ s_nums s' = [n] /\ s_concl s' = tr'
                               /\ forall s'', In s'' (la ++ lb ++ s :: l2) -> ~ In n (s_nums s''))
        /\ (forall (adm : @assignment Vr -> Prop) l1 s l2, l = l1 ++ s :: l2 -> is_explain s = true ->
              (uses_prev (s_kind s) = true -> exists p, hd_error (rev l1) = Some p /\ s_kind p <> KBlank)
              /\ entailed_on O adm (s_concl s) (premises_of O s (hd_error (rev l1))))
        /\ incl (leaves t) (cited_exts l)
        /\ (exists l0 s, l = l0 ++ [s] /\ s_kind s <> KBlank
              /\ match t with TDerived ts _ _ _ => s_concl s = ts | TExternal e => s_kind s = KOnlyExternal e end)
        /\ tree_ok O reg r rv t /\ top_forbids_root O r rv t.
  Proof.
    intros Hw Hveq Hvrefl Hsrefl pg fuel res tr t Hserv Hg Ht.
    destruct (resolve_g_nosolution_is_resolve_run Hvrefl Hsrefl pg fuel res tr t Hserv Hg Ht)
      as (tr' & st & log & k & Hwb & E).
    exact (nosolution_report_is_sound_proof O L veqb reg r rv Hw Hveq fuel tr' t st log k Hwb E).
  Qed.
End ProviderLevel.

(* ================================================================ (2) after collapse_no_versions *)
Section CollapseUnique.
  Context {VS Vr : Type} (O : VSOps VS Vr).
  Notation dtree := (@tree VS Vr).

  (* every derived node of the collapsed tree is the collapse of a derived node of the original tree that has the
     same terms and the same shared id *)
  Lemma collapse_derived_origin : forall (t t' : dtree), collapse_no_versions O t = CTree t' ->
    forall ts sh a' b', subtree (TDerived ts sh a' b') t' ->
      exists a b, subtree (TDerived ts sh a b) t
                  /\ collapse_no_versions O (TDerived ts sh a b) = CTree (TDerived ts sh a' b').
  Proof.
    induction t as [e|ts0 sh0 c1 IH1 c2 IH2]; intros t' C ts sh a' b' Hs.
    - cbn in C. injection C as <-. inversion Hs.
    - destruct (causes_cases c1 c2) as [(p & r0 & ->)|[(N1 & p & r0 & ->)|(N1 & N2)]].
      + rewrite collapse_nv_left in C.
        destruct (collapse_no_versions O c2) as [c2'|] eqn:E2; [|discriminate].
        unfold merge_or_keep in C. pose proof (merge_shape O c2' p r0) as Sh.
        destruct (merge_no_versions O c2' p r0) as [m| |] eqn:Em; [| |discriminate]; injection C as <-.
        * destruct Sh as [[_ ->]|[_ Fd]].
          -- destruct (IH2 c2' eq_refl ts sh a' b' Hs) as (a & b & S & Cc).
             exists a, b. split; [apply sub_right; exact S|exact Cc].
          -- destruct m as [[]|]; try discriminate; inversion Hs.
        * inversion Hs as [x Ex|u ts1 sh1 x1 x2 Hs1|u ts1 sh1 x1 x2 Hs1]; subst.
          -- eexists; eexists. split; [apply sub_refl|].
             rewrite collapse_nv_left, E2. unfold merge_or_keep. rewrite Em. reflexivity.
          -- inversion Hs1.
          -- destruct (IH2 c2' eq_refl ts sh a' b' Hs1) as (a & b & S & Cc).
             exists a, b. split; [apply sub_right; exact S|exact Cc].
      + rewrite (collapse_nv_right O ts0 sh0 c1 p r0 N1) in C.
        destruct (collapse_no_versions O c1) as [c1'|] eqn:E1; [|discriminate].
        unfold merge_or_keep in C. pose proof (merge_shape O c1' p r0) as Sh.
        destruct (merge_no_versions O c1' p r0) as [m| |] eqn:Em; [| |discriminate]; injection C as <-.
        * destruct Sh as [[_ ->]|[_ Fd]].
          -- destruct (IH1 c1' eq_refl ts sh a' b' Hs) as (a & b & S & Cc).
             exists a, b. split; [apply sub_left; exact S|exact Cc].
          -- destruct m as [[]|]; try discriminate; inversion Hs.
        * inversion Hs as [x Ex|u ts1 sh1 x1 x2 Hs1|u ts1 sh1 x1 x2 Hs1]; subst.
          -- eexists; eexists. split; [apply sub_refl|].
             rewrite (collapse_nv_right O _ _ c1 p r0 N1), E1. unfold merge_or_keep. rewrite Em. reflexivity.
          -- destruct (IH1 c1' eq_refl ts sh a' b' Hs1) as (a & b & S & Cc).
             exists a, b. split; [apply sub_left; exact S|exact Cc].
          -- inversion Hs1.
      + rewrite (collapse_other O ts0 sh0 c1 c2 N1 N2) in C.
        destruct (collapse_no_versions O c1) as [c1'|] eqn:E1; [|discriminate].
        destruct (collapse_no_versions O c2) as [c2'|] eqn:E2; [|discriminate]. injection C as <-.
        inversion Hs as [x Ex|u ts1 sh1 x1 x2 Hs1|u ts1 sh1 x1 x2 Hs1]; subst.
        * eexists; eexists. split; [apply sub_refl|].
          rewrite (collapse_other O _ _ c1 c2 N1 N2), E1, E2. reflexivity.
        * destruct (IH1 c1' eq_refl ts sh a' b' Hs1) as (a & b & S & Cc).
          exists a, b. split; [apply sub_left; exact S|exact Cc].
        * destruct (IH2 c2' eq_refl ts sh a' b' Hs1) as (a & b & S & Cc).
          exists a, b. split; [apply sub_right; exact S|exact Cc].
  Qed.

  (* collapse_no_versions keeps "same shared id => same subtree" *)
  Theorem collapse_unique_ids (t t' : dtree) :
    unique_ids t -> collapse_no_versions O t = CTree t' -> unique_ids t'.
  Proof.
    intros U C i ts1 a1 b1 ts2 a2 b2 S1 S2.
    destruct (collapse_derived_origin t t' C _ _ _ _ S1) as (x1 & y1 & T1 & C1).
    destruct (collapse_derived_origin t t' C _ _ _ _ S2) as (x2 & y2 & T2 & C2).
    pose proof (U i _ _ _ _ _ _ T1 T2) as E. rewrite E in C1. rewrite C1 in C2. injection C2 as -> -> ->. reflexivity.
  Qed.
End CollapseUnique.

Section TraceLevelCollapsed.
  Context {VS Vr : Type} (O : VSOps VS Vr) (L : VSLawful O) (veqb : Vr -> Vr -> bool).
  Context (reg : registry (VS := VS) (Vr := Vr)) (r : pkg) (rv : Vr).
  Notation step := (@step VS Vr).
  Notation tprovider := (@tprovider VS Vr).

  (* collapse_no_versions does not panic on the NoSolution tree, and the report of the collapsed tree is a
     well-formed linear proof that is sound on the assignments selecting existing versions only; its facts are
     equivalent (on those assignments) to facts of the original tree, and its conclusion forbids the root *)
  Theorem nosolution_collapsed_report_is_sound_proof :
    reg_wf O L reg -> (forall a b, veqb a b = true -> a = b) ->
    forall fuel tr t st log k,
      WellBehaved O reg tr -> resolve O veqb fuel r rv tr = (ONoSolution t, st, log, k) ->
      exists t' l, collapse_no_versions O t = CTree t' /\ report_steps t' = RSteps l
        /\ (nums_of l = seq 1 (length (nums_of l)) /\ Forall (fun s : step => length (s_nums s) <= 1) l)
        /\ (forall l1 s l2 n tr', l = l1 ++ s :: l2 -> In (n, tr') (cited (s_kind s)) ->
              exists la s' lb, l1 = la ++ s' :: lb /\ s_nums s' = [n] /\ s_concl s' = tr'
                               /\ forall s'', In s'' (la ++ lb ++ s :: l2) -> ~ In n (s_nums s''))
        /\ (forall l1 s l2, l = l1 ++ s :: l2 -> is_explain s = true ->
              (uses_prev (s_kind s) = true -> exists p, hd_error (rev l1) = Some p /\ s_kind p <> KBlank)
              /\ entailed_on O (existing reg) (s_concl s) (premises_of O s (hd_error (rev l1))))
        /\ incl (leaves t') (cited_exts l)
        /\ (exists l0 s, l = l0 ++ [s] /\ s_kind s <> KBlank
              /\ match t' with TDerived ts _ _ _ => s_concl s = ts | TExternal e => s_kind s = KOnlyExternal e end)
        /\ (forall e', In e' (leaves t') -> exists e, In e (leaves t)
              /\ forall a, existing reg a -> (violates O a (ext_terms O e) <-> violates O a (ext_terms O e')))
        /\ (forall a, existing reg a -> a r = Some rv -> violates O a (node_terms O t')).
  Proof.
    intros Hw Hv fuel tr t st log k Hwb E.
    destruct (nosolution_tree_collapse_total O L veqb reg r rv Hw Hv fuel tr t st log k Hwb E)
      as (t' & C & Le & _ & _ & _ & _ & Lv & Top).
    pose proof (nosolution_tree_same_id_same_subtree O L veqb reg r rv Hw Hv fuel tr t st log k Hwb E) as U.
    destruct (unique_ids_report_sound O t' (collapse_unique_ids O t t' U C)) as (l & H & A1 & A2 & A3 & A4 & A5).
    exists t', l. split; [exact C|]. split; [exact H|]. split; [exact A1|]. split; [exact A2|].
    split; [exact (A3 (existing reg) Le)|]. split; [exact A4|]. split; [exact A5|]. split; [exact Lv|exact Top].
  Qed.

  (* the same at the provider level *)
  Theorem resolve_g_nosolution_collapsed_report_is_sound_proof :
    reg_wf O L reg ->
    (forall a b, veqb a b = true -> a = b) -> (forall v, veqb v v = true) -> (forall s, vs_eqb O s s = true) ->
    forall (pg : tprovider) fuel res tr t,
      serves O reg pg -> resolve_g O veqb pg fuel r rv = (res, tr) -> fst (fst (fst res)) = ONoSolution t ->
      exists t' l, collapse_no_versions O t = CTree t' /\ report_steps t' = RSteps l
        /\ (nums_of l = seq 1 (length (nums_of l)) /\ Forall (fun s : step => length (s_nums s) <= 1) l)
        /\ (forall l1 s l2 n tr', l = l1 ++ s :: l2 -> In (n, tr') (cited (s_kind s)) ->
              exists la s' lb, l1 = la ++ s' :: lb /\ s_nums s' = [n] /\ s_concl s' = tr'
                               /\ forall s'', In s'' (la ++ lb ++ s :: l2) -> ~ In n (s_nums s''))
        /\ (forall l1 s l2, l = l1 ++ s :: l2 -> is_explain s = true ->
              (uses_prev (s_kind s) = true -> exists p, hd_error (rev l1) = Some p /\ s_kind p <> KBlank)
              /\ entailed_on O (existing reg) (s_concl s) (premises_of O s (hd_error (rev l1))))
        /\ incl (leaves t') (cited_exts l)
        /\ (exists l0 s, l = l0 ++ [s] /\ s_kind s <> KBlank
              /\ match t' with TDerived ts _ _ _ => s_concl s = ts | TExternal e => s_kind s = KOnlyExternal e end)
        /\ (forall e', In e' (leaves t') -> exists e, In e (leaves t)
              /\ forall a, existing reg a -> (violates O a (ext_terms O e) <-> violates O a (ext_terms O e')))
        /\ (forall a, existing reg a -> a r = Some rv -> violates O a (node_terms O t')).
  Proof.
    intros Hw Hveq Hvrefl Hsrefl pg fuel res tr t Hserv Hg Ht.
    destruct (resolve_g_nosolution_is_resolve_run O veqb reg r rv Hvrefl Hsrefl pg fuel res tr t Hserv Hg Ht)
      as (tr' & st & log & k & Hwb & E).
    exact (nosolution_collapsed_report_is_sound_proof Hw Hveq fuel tr' t st log k Hwb E).
  Qed.
End TraceLevelCollapsed.

Print Assumptions unique_ids_shared_consistent.
Print Assumptions collapse_unique_ids.
Print Assumptions nosolution_report_is_sound_proof.
Print Assumptions resolve_g_nosolution_report_is_sound_proof.
Print Assumptions nosolution_collapsed_report_is_sound_proof.
Print Assumptions resolve_g_nosolution_collapsed_report_is_sound_proof.
