(* C03: the derivation tree built from the store is a checkable proof. *)
From Coq Require Import List NArith ZArith Bool Lia PeanoNat.
From PG Require Import Model.VS Model.Term Model.Solver Model.Registry Proofs.VSLaws Proofs.TermProofs
  Proofs.AssocProofs Proofs.SolverSem Proofs.SolverStore.
Import ListNotations.

Section Tree.
  Context {VS Vr : Type} (O : VSOps VS Vr) (L : VSLawful O) (veqb : Vr -> Vr -> bool).
  Context (reg : registry (VS := VS) (Vr := Vr)) (r : pkg) (rv : Vr).
  Hypothesis Hregwf : reg_wf O L reg.
  Hypothesis veqb_eq : forall a b, veqb a b = true -> a = b.

  Notation tm := (term VS).
  Notation incompat := (@incompat VS Vr).
  Notation tree := (@tree VS Vr).
  Notation external := (@external VS Vr).
  Notation violates := (violates O).

  (* the incompatibility an external leaf stands for *)
  Definition leaf_terms (e : external) : list (pkg * tm) :=
    match e with
    | XNotRoot p v => terms (not_root O p v)
    | XNoVersions p s => [(p, Pos s)]
    | XFromDep p s q t => terms (from_dependency O p s (q, t))
    | XCustom p s _ => [(p, Pos s)]
    end.
  Definition tree_terms (t : tree) : list (pkg * tm) :=
    match t with TExternal e => leaf_terms e | TDerived ts _ _ _ => ts end.

  (* what each leaf asserts about the provider *)
  Definition leaf_true (e : external) : Prop :=
    match e with
    | XNotRoot p v => p = r /\ v = rv
    | XNoVersions p s => forall v, In v (reg_versions reg p) -> vs_contains O s v = false
    | XFromDep p s q t => declares O reg p s q t
    | XCustom p s _ => exists v, s = vs_singleton O v /\ reg_deps reg p v = None
    end.

  (* every leaf true, every derived node entailed by its two causes for EVERY assignment *)
  Inductive tree_ok : tree -> Prop :=
  | TO_ext e : leaf_true e -> tree_ok (TExternal e)
  | TO_der ts sh c1 c2 :
      tree_ok c1 -> tree_ok c2 ->
      (forall a : assignment, violates a ts -> violates a (tree_terms c1) \/ violates a (tree_terms c2)) ->
      tree_ok (TDerived ts sh c1 c2).

  Lemma prior_cause_kind i j ti tj p (pc : incompat) :
    prior_cause O i j ti tj p = Good pc -> ikind pc = KDerived i j.
  Proof.
    unfold prior_cause, bind, req. destruct (get p ti); [|discriminate]. destruct (get p tj); [|discriminate].
    intros H. now injection H as <-.
  Qed.

  Lemma store_just_justified s : store_just O L reg r rv s -> forall id i, nth_error s id = Some i -> justified O L reg r rv s i.
  Proof.
    induction 1 as [|s i Hs IH Hj]; intros id j Hn; [destruct id; discriminate|].
    destruct (Nat.lt_ge_cases id (length s)) as [Hlt|Hge].
    - rewrite nth_error_app1 in Hn by assumption. apply justified_mono. eauto.
    - rewrite nth_error_app2 in Hn by assumption. destruct (id - length s) as [|k]; [|destruct k; discriminate].
      injection Hn as <-. now apply justified_mono.
  Qed.

  Lemma tree_of_ok s shared : store_just O L reg r rv s -> forall fuel id t i,
    tree_of fuel s shared id = Some t -> nth_error s id = Some i ->
    tree_terms t = terms i /\ tree_ok t.
  Proof.
    intros Hs. induction fuel as [|fuel IH]; intros id t i Ht Hn; cbn [tree_of] in Ht; [discriminate|].
    rewrite Hn in Ht. pose proof (store_just_justified s Hs id i Hn) as Hj.
    destruct (ikind i) as [p v|p sv|p sv q tv|a b|p sv m] eqn:Ek.
    - injection Ht as <-. destruct Hj as [He|a b ia ib p' _ _ Hp]; [|apply prior_cause_kind in Hp; congruence].
      unfold ext_ok in He. rewrite Ek in He. destruct He as (-> & -> & Ht). split; [now rewrite Ht|].
      constructor. cbn. auto.
    - injection Ht as <-. destruct Hj as [He|a b ia ib p' _ _ Hp]; [|apply prior_cause_kind in Hp; congruence].
      unfold ext_ok in He. rewrite Ek in He. destruct He as (Ht & _ & Hno). split; [now rewrite Ht|].
      constructor. exact Hno.
    - injection Ht as <-. destruct Hj as [He|a b ia ib p' _ _ Hp]; [|apply prior_cause_kind in Hp; congruence].
      unfold ext_ok in He. rewrite Ek in He. destruct He as (Ht & _ & _ & Hd). split; [now rewrite Ht|].
      constructor. exact Hd.
    - destruct (tree_of fuel s shared a) as [t1|] eqn:E1; [|discriminate].
      destruct (tree_of fuel s shared b) as [t2|] eqn:E2; [|discriminate].
      injection Ht as <-. split; [reflexivity|].
      destruct Hj as [He|a' b' ia ib p' Ha Hb Hp]; [unfold ext_ok in He; rewrite Ek in He; destruct He|].
      pose proof (prior_cause_kind _ _ _ _ _ _ Hp) as Hk. rewrite Ek in Hk. injection Hk as <- <-.
      destruct (IH a t1 ia E1 Ha) as [T1 O1]. destruct (IH b t2 ib E2 Hb) as [T2 O2].
      constructor; [exact O1|exact O2|]. rewrite T1, T2.
      destruct (store_just_nth O L reg r rv s Hs a ia Ha) as (N1 & W1 & _).
      destruct (store_just_nth O L reg r rv s Hs b ib Hb) as (N2 & W2 & _).
      intros asg Hv. eapply (prior_cause_entails O L); eauto.
    - injection Ht as <-. destruct Hj as [He|a b ia ib p' _ _ Hp]; [|apply prior_cause_kind in Hp; congruence].
      unfold ext_ok in He. rewrite Ek in He. destruct He as (Ht & Hc). split; [now rewrite Ht|].
      constructor. exact Hc.
  Qed.

  (* the top node forbids the root at the requested version *)
  Definition top_forbids_root (t : tree) : Prop :=
    tree_terms t = [] \/ exists tm0, tree_terms t = [(r, tm0)] /\ t_contains O tm0 rv = true.

  Theorem nosolution_tree_is_proof fuel tr t st log k :
    WellBehaved O reg tr -> resolve O veqb fuel r rv tr = (ONoSolution t, st, log, k) ->
    tree_ok t /\ top_forbids_root t.
  Proof.
    intros Hwb E.
    destruct (resolve_nosolution_tree O L veqb reg r rv Hregwf veqb_eq fuel tr t st log k Hwb E)
      as (Hs & id & Hb & i & Hi & Hterm).
    unfold build_derivation_tree in Hb.
    destruct (tree_dfs _ (store st) [id] [] []) as [[all shared]|]; [|discriminate].
    destruct (tree_of_ok (store st) shared Hs _ id t i Hb Hi) as [Ht Hok]. split; [exact Hok|].
    unfold top_forbids_root. rewrite Ht. unfold is_terminal in Hterm.
    destruct (terms i) as [|[p t0] [|? ?]]; [now left| |discriminate].
    apply andb_prop in Hterm as [Hp Hc]. apply N.eqb_eq in Hp. subst p. right. eauto.
  Qed.

End Tree.
