(* Non-vacuity of C04 (Proofs/SolverReach.v): concrete runs over Range<Z> that meet every hypothesis of
   [resolve_ok_reachable]; the reachability of the selected packages is then obtained BY the theorem.
   Run 3 is the situation named in the property: package 2 is required only by version 2 of package 1; that
   version is decided, package 2 gets a positive term, then a conflict (package 3 has no version) backtracks the
   decision away; the returned solution selects 1@1 and does not contain package 2. *)
From Coq Require Import List NArith ZArith Bool.
From PG Require Import Model.Text Model.VS Model.Term Model.Range Model.Solver Model.Registry Model.Instances
  Proofs.VSLaws Proofs.SolverSem Proofs.RangeVS Proofs.SolverExamples Proofs.SolverReach.
Import ListNotations.
Local Open Scope Z_scope.

(* ---- run 2 of SolverExamples.v (a conflict caused by a self-dependency, one backtrack) ---- *)
Example run2_reachable : forall p v, In (p, v) [(0%N, 1); (1%N, 1)] -> reach reg2 0%N [(0%N, 1); (1%N, 1)] p.
Proof.
  destruct run2_is_solution as (st & log & E & _).
  exact (resolve_ok_reachable zvs zlaw Z.eqb reg2 0%N 1 reg2_wf zeqb_eq 100 tr2 _ st log 13 tr2_wb E).
Qed.

(* ---- run 3: 0@1 -> 1 (any);  1@2 -> 2 (any), 3 (any);  1@1, 2@1 without dependencies;  3 has no version ---- *)
Definition reg3 : @registry RZ.range Z := {|
  reg_versions := fun p => match p with 0%N => [1] | 1%N => [1; 2] | 2%N => [1] | _ => [] end;
  reg_deps := fun p v => match p, v with
                         | 0%N, 1 => Some [(1%N, RZ.full)]
                         | 1%N, 1 => Some [] | 1%N, 2 => Some [(2%N, RZ.full); (3%N, RZ.full)]
                         | 2%N, 1 => Some []
                         | _, _ => None end |}.
Definition tr3 : list (@event RZ.range Z) :=
  [ EvCancel true; EvPrioritize 0%N (RZ.singleton 1) 0; EvChoose 0%N (RZ.singleton 1) (CSome 1);
    EvDeps 0%N 1 (DAvail [(1%N, RZ.full)]);
    EvCancel true; EvPrioritize 1%N RZ.full 0; EvChoose 1%N RZ.full (CSome 2);
    EvDeps 1%N 2 (DAvail [(2%N, RZ.full); (3%N, RZ.full)]);
    EvCancel true; EvPrioritize 3%N RZ.full 5; EvPrioritize 2%N RZ.full 0; EvChoose 3%N RZ.full CNone;
    EvCancel true; EvPrioritize 1%N not2 0; EvChoose 1%N not2 (CSome 1);
    EvDeps 1%N 1 (DAvail []); EvCancel true ].
Definition sol3 : list (pkg * Z) := [(0%N, 1); (1%N, 1)].

Lemma reg3_wf : reg_wf zvs zlaw reg3.
Proof.
  intros p v ds q s H Hin.
  assert (Hs : s = RZ.full).
  { cbn in H. repeat match type of H with
                    | match ?x with _ => _ end = Some _ => destruct x; try discriminate
                    end;
      injection H as <-; cbn in Hin; intuition congruence. }
  subst s. exact (wf_full zvs zlaw).
Qed.

Lemma tr3_wb : WellBehaved zvs reg3 tr3.
Proof.
  unfold WellBehaved, tr3. repeat (apply Forall_cons); try apply Forall_nil; cbn [ev_ok]; try exact I;
    try (cbn; tauto).
  - exists [(1%N, RZ.full)]. split; [reflexivity|tauto].
  - exists [(2%N, RZ.full); (3%N, RZ.full)]. split; [reflexivity|tauto].
  - exists []. split; [reflexivity|tauto].
Qed.

(* the run returns sol3; at the third decision point package 2 was an undecided package with a positive term *)
Example run3_is_solution :
  exists st log, resolve zvs Z.eqb 100 0%N 1 tr3 = (OSolution sol3, st, log, 17%nat)
                 /\ (exists q n, nth_error log 2 = Some ([(3%N, RZ.full); (2%N, RZ.full)], q, n))
                 /\ get 2%N sol3 = None.
Proof. vm_compute. eauto 10. Qed.

Example run3_reachable : forall p v, In (p, v) sol3 -> reach reg3 0%N sol3 p.
Proof.
  destruct run3_is_solution as (st & log & E & _).
  exact (resolve_ok_reachable zvs zlaw Z.eqb reg3 0%N 1 reg3_wf zeqb_eq 100 tr3 _ st log 17 tr3_wb E).
Qed.

Print Assumptions run2_reachable.
Print Assumptions run3_reachable.
