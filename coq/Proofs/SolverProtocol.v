(* C12 (model side, clauses 1, 2, 5): the calls the model consumes follow the provider protocol:
   should_cancel first and before every choose_version; get_dependencies(p, v) only immediately after
   the choose_version(p, _) that returned v, and at most once per (p, v). *)
From Coq Require Import List NArith ZArith Bool Lia.
From PG Require Import Model.VS Model.Term Model.Solver Proofs.SolverTrace.
Import ListNotations.

Section Protocol.
  Context {VS Vr : Type} (O : VSOps VS Vr) (veqb : Vr -> Vr -> bool).
  Notation event := (@event VS Vr).

  Inductive phase := P0 | P1 | P2 (p : pkg) (v : Vr).
  Definition is_nil {A} (l : list A) : bool := match l with [] => true | _ => false end.

  (* the protocol as a scanner; [added] = the (package, version) pairs already queried *)
  Fixpoint shape (ph : phase) (added : list (pkg * Vr)) (tr : list event) : bool :=
    match tr with
    | [] => true
    | e :: rest =>
        match ph, e with
        | P0, EvCancel true => shape P1 added rest
        | P0, EvCancel false => is_nil rest
        | P1, EvPrioritize _ _ _ => shape P1 added rest
        | P1, EvChoose p _ CNone => shape P0 added rest
        | P1, EvChoose p _ CErr => is_nil rest
        | P1, EvChoose p _ (CSome v) =>
            if added_has veqb added p v then shape P0 added rest else shape (P2 p v) added rest
        | P2 p v, EvDeps p' v' a =>
            N.eqb p p' && veqb v v' &&
            match a with DErr => is_nil rest | _ => shape P0 ((p, v) :: added) rest end
        | _, _ => false
        end
    end.

  Definition all_prio (l : list event) : Prop :=
    Forall (fun e => match e with EvPrioritize _ _ _ => True | _ => False end) l.

  Lemma do_prioritize_count cands : forall q (tr : list event) n q' tr' n',
    do_prioritize O cands q tr n = inl (q', tr', n') ->
    exists pre, tr = pre ++ tr' /\ all_prio pre /\ n' = n + length pre.
  Proof.
    induction cands as [|[p s] cands IH]; intros q tr n q' tr' n'; cbn [do_prioritize].
    - intros H. injection H as <- <- <-. exists []. repeat split; [constructor|cbn; lia].
    - destruct tr as [|[| p' s' prio | |] tr0]; try discriminate.
      destruct (N.eqb p p' && vs_eqb O s s'); [|discriminate].
      intros H. destruct (IH _ _ _ _ _ _ H) as (pre & -> & Hf & ->).
      exists (EvPrioritize p' s' prio :: pre). repeat split; [constructor; auto|cbn; lia].
  Qed.

  Lemma do_prioritize_err_count cands : forall q (tr : list event) n o,
    do_prioritize O cands q tr n = inr o -> is_mismatch o = true.
  Proof.
    intros q tr n o H. pose proof (do_prioritize_app O cands q tr n []) as Ha. now rewrite H in Ha.
  Qed.

  Lemma shape_prios pre : forall added rest, all_prio pre -> shape P1 added (pre ++ rest) = shape P1 added rest.
  Proof.
    induction pre as [|e pre IH]; intros added rest Hf; [reflexivity|].
    inversion Hf as [|? ? He Hf']; subst. destruct e; try contradiction. cbn [app shape]. now apply IH.
  Qed.

  Lemma firstn_le_nil {A} (l : list A) k n : k <= n -> firstn (k - n) l = [].
  Proof. intros H. replace (k - n) with 0 by lia. reflexivity. Qed.

  (* shape of "cancel, prioritize*, then whatever [f] says about the rest" *)
  Lemma shape_head added pre (X : list event) :
    all_prio pre -> shape P0 added (EvCancel true :: pre ++ X) = shape P1 added X.
  Proof. intros H. cbn [shape]. now apply shape_prios. Qed.

  Lemma firstn_head (pre X : list event) n k :
    S (n + length pre) <= k ->
    firstn (k - n) (EvCancel true :: pre ++ X) = EvCancel true :: pre ++ firstn (k - S (n + length pre)) X.
  Proof.
    intros H. destruct (k - n) as [|m] eqn:E; [lia|]. cbn [firstn]. f_equal.
    rewrite firstn_app. rewrite firstn_all2 by lia. f_equal. f_equal. lia.
  Qed.

  Lemma resolve_loop_shape fuel : forall st next added (tr : list event) n log,
    let k := snd (resolve_loop O veqb fuel st next added tr n log) in
    n <= k /\ shape P0 added (firstn (k - n) tr) = true.
  Proof.
    induction fuel as [|fuel IH]; intros st next added tr n log; cbn [resolve_loop].
    { cbn. split; [lia|]. now rewrite firstn_le_nil by lia. }
    destruct tr as [|[ok| | |] tr1]; cbn [snd]; try (split; [lia|now rewrite firstn_le_nil by lia]).
    destruct ok; cbn [negb snd].
    2:{ split; [lia|]. replace (S n - n) with 1 by lia. reflexivity. }
    assert (Hone : forall X : list event, shape P0 added (firstn (S n - n) (EvCancel true :: X)) = true).
    { intros X. replace (S n - n) with 1 by lia. reflexivity. }
    destruct (unit_propagation O (S fuel) st [next]) as [[st1|st1 id]|[|s]]; cbn [snd];
      try (split; [lia|apply Hone]).
    2:{ destruct (build_derivation_tree (store st1) id); cbn [snd]; (split; [lia|apply Hone]). }
    destruct (do_prioritize O (pick_candidates (ps st1)) (queue (ps st1)) tr1 (S n)) as [[[q tr2] n2]|o] eqn:Ep;
      cbn [snd]; [|split; [lia|apply Hone]].
    destruct (do_prioritize_count _ _ _ _ _ _ _ Ep) as (pre & -> & Hpre & ->).
    (* exits that consume exactly cancel + prioritize calls *)
    assert (Hat : n <= S n + length pre /\
                  shape P0 added (firstn (S n + length pre - n) (EvCancel true :: pre ++ tr2)) = true).
    { split; [lia|]. rewrite firstn_head by lia. replace (S n + length pre - S (n + length pre)) with 0 by lia.
      cbn [firstn]. rewrite shape_head by assumption. reflexivity. }
    (* exits that additionally consume the choose event *)
    assert (Hch : forall p s a tr3, tr2 = EvChoose p s a :: tr3 ->
                  n <= S (S n + length pre) /\
                  shape P0 added (firstn (S (S n + length pre) - n) (EvCancel true :: pre ++ tr2)) = true).
    { intros p s a tr3 ->. split; [lia|]. rewrite firstn_head by lia.
      replace (S (S n + length pre) - S (n + length pre)) with 1 by lia. cbn [firstn].
      rewrite shape_head by assumption. cbn [shape]. destruct a as [v| |]; try reflexivity.
      destruct (added_has veqb added p v); reflexivity. }
    destruct (queue_max q) as [mx|].
    2:{ unfold res_out. destruct (extract_solution (ps st1)); cbn [snd]; exact Hat. }
    destruct tr2 as [|[| |p s ans|] tr3]; cbn [snd]; try exact Hat.
    destruct (get p q) as [[prio qs]|]; cbn [snd]; [|exact Hat].
    destruct (negb (Z.eqb prio mx)); cbn [snd]; [exact Hat|].
    destruct (term_for _ p) as [[cur|cur]|]; cbn [snd]; try exact Hat.
    destruct (negb (vs_eqb O s cur)); cbn [snd]; [exact Hat|].
    (* a recursive continuation after consuming j further events following the prioritize calls *)
    assert (Hrec : forall (hd : list event) added' tr4 st' nxt lg,
               tr3 = tr3 -> EvChoose p s ans :: tr3 = hd ++ tr4 ->
               (forall Y, shape P1 added (hd ++ Y) = shape P0 added' Y) ->
               let k := snd (resolve_loop O veqb fuel st' nxt added' tr4 (S n + length pre + length hd) lg) in
               n <= k /\ shape P0 added (firstn (k - n) (EvCancel true :: pre ++ EvChoose p s ans :: tr3)) = true).
    { intros hd added' tr4 st' nxt lg _ Hsplit Hsh.
      destruct (IH st' nxt added' tr4 (S n + length pre + length hd) lg) as [Hle Hs].
      cbn zeta. split; [lia|]. rewrite Hsplit.
      rewrite firstn_head by lia. rewrite shape_head by assumption.
      rewrite firstn_app. rewrite firstn_all2 by lia. rewrite Hsh.
      match goal with |- shape P0 added' (firstn ?a tr4) = true => replace a with (snd (resolve_loop O veqb fuel st' nxt added' tr4 (S n + length pre + length hd) lg) - (S n + length pre + length hd)) by lia end.
      exact Hs. }
    destruct ans as [v| |]; cbn [snd].
    - destruct (negb (t_contains O (Pos cur) v)); cbn [snd]; [(eapply Hch; reflexivity)|].
      destruct (added_has veqb added p v) eqn:Eadd.
      + unfold res_out. destruct (add_decision O _ p v); cbn [snd]; [|(eapply Hch; reflexivity)].
        replace (S (S n + length pre)) with (S n + length pre + length [EvChoose p s (CSome v)]) by (cbn; lia).
        apply (Hrec [EvChoose p s (CSome v)] added tr3); [reflexivity|reflexivity|].
        intros Y. cbn [app shape]. now rewrite Eadd.
      + destruct tr3 as [|[| | |p' v' dans] tr4]; cbn [snd]; try (eapply Hch; reflexivity).
        destruct (N.eqb p p' && veqb v v') eqn:Epv; cbn [negb snd]; [|(eapply Hch; reflexivity)].
        assert (Hdeps_end : n <= S (S (S n + length pre)) /\
                  shape P0 added (firstn (S (S (S n + length pre)) - n)
                     (EvCancel true :: pre ++ EvChoose p s (CSome v) :: EvDeps p' v' dans :: tr4)) = true).
        { split; [lia|]. rewrite firstn_head by lia.
          replace (S (S (S n + length pre)) - S (n + length pre)) with 2 by lia. cbn [firstn].
          rewrite shape_head by assumption. cbn [shape]. rewrite Eadd. cbn [shape]. rewrite Epv. cbn [andb].
          destruct dans; reflexivity. }
        destruct dans as [deps|m|]; cbn [snd].
        * unfold res_out. destruct (add_incompatibility_from_dependencies O _ p v deps) as [[st3 range]|]; cbn [snd]; [|exact Hdeps_end].
          destruct (add_version O (ps st3) p v range (store st3)); cbn [snd]; [|exact Hdeps_end].
          replace (S (S (S n + length pre))) with (S n + length pre + length [EvChoose p s (CSome v); EvDeps p' v' (DAvail deps)]) by (cbn; lia).
          apply (Hrec [EvChoose p s (CSome v); EvDeps p' v' (DAvail deps)] ((p, v) :: added) tr4); [reflexivity|reflexivity|].
          intros Y. cbn [app shape]. rewrite Eadd. cbn [shape]. rewrite Epv. reflexivity.
        * unfold res_out. destruct (add_incompatibility O _ (custom_version O p v m)); cbn [snd]; [|exact Hdeps_end].
          replace (S (S (S n + length pre))) with (S n + length pre + length [EvChoose p s (CSome v); EvDeps p' v' (DUnavail m)]) by (cbn; lia).
          apply (Hrec [EvChoose p s (CSome v); EvDeps p' v' (DUnavail m)] ((p, v) :: added) tr4); [reflexivity|reflexivity|].
          intros Y. cbn [app shape]. rewrite Eadd. cbn [shape]. rewrite Epv. reflexivity.
        * exact Hdeps_end.
    - destruct (no_versions p (Pos cur)); cbn [snd]; [|(eapply Hch; reflexivity)].
      unfold res_out. destruct (add_incompatibility O _ i); cbn [snd]; [|(eapply Hch; reflexivity)].
      replace (S (S n + length pre)) with (S n + length pre + length [(EvChoose p s CNone : event)]) by (cbn; lia).
      apply (Hrec [(EvChoose p s CNone : event)] added tr3); [reflexivity|reflexivity|]. intros Y. reflexivity.
    - (eapply Hch; reflexivity).
  Qed.

  Theorem resolve_protocol fuel r v (tr : list event) :
    let k := snd (resolve O veqb fuel r v tr) in
    shape P0 [] (firstn k tr) = true.
  Proof.
    pose proof (resolve_loop_shape fuel (state_init O r v) r [] tr 0 []) as H. cbn zeta in *.
    destruct H as [_ H]. now rewrite Nat.sub_0_r in H.
  Qed.

  (* ---- reading the scanner: the protocol clauses ---- *)

  (* (5) the first call is should_cancel *)
  Lemma shape_first_cancel added (tr : list event) :
    shape P0 added tr = true -> match tr with [] => True | e :: _ => exists ok, e = EvCancel ok end.
  Proof. destruct tr as [|[ok| | |] rest]; cbn; try discriminate; eauto. Qed.

  (* (5) between two choose_version calls there is a should_cancel: right after a choose_version (and
     its optional get_dependencies) the next call, if any, is should_cancel *)
  Lemma shape_after_choose ph added p s a (rest : list event) :
    shape ph added (EvChoose p s a :: rest) = true ->
    match rest with
    | [] => True
    | EvCancel _ :: _ => True
    | EvDeps p' v' _ :: rest' =>
        (exists v, a = CSome v /\ N.eqb p p' && veqb v v' = true) /\
        match rest' with [] => True | EvCancel _ :: _ => True | _ => False end
    | _ => False
    end.
  Proof.
    destruct ph as [| |q w]; cbn [shape]; try discriminate.
    destruct a as [v| |].
    - destruct (added_has veqb added p v).
      + destruct rest as [|[[|]| | |] rest']; cbn [shape]; try discriminate; auto.
      + destruct rest as [|[| | |p' v' a'] rest']; cbn [shape]; try discriminate; auto.
        intros H. apply andb_prop in H as [H1 H2]. split; [eauto|].
        destruct a'; destruct rest' as [|[[|]| | |] ?]; cbn in H2; try discriminate; auto.
    - destruct rest as [|[[|]| | |] rest']; cbn [shape]; try discriminate; auto.
    - destruct rest; cbn; [auto|discriminate].
  Qed.

  (* (1) get_dependencies(p', v') is immediately preceded by the choose_version(p', _) that returned v' *)
  Lemma shape_deps_preceded : forall (pre : list event) ph added p' v' a rest,
    shape ph added (pre ++ EvDeps p' v' a :: rest) = true ->
    (pre = [] /\ exists p v, ph = P2 p v /\ N.eqb p p' && veqb v v' = true)
    \/ (exists pre0 p s v, pre = pre0 ++ [EvChoose p s (CSome v)] /\ N.eqb p p' && veqb v v' = true).
  Proof.
    induction pre as [|e pre IH]; intros ph added p' v' a rest H.
    - left. split; [reflexivity|]. cbn [app shape] in H. destruct ph as [| |p v]; try discriminate.
      apply andb_prop in H as [H _]. eauto.
    - right. cbn [app shape] in H.
      assert (Step : forall ph' added', shape ph' added' (pre ++ EvDeps p' v' a :: rest) = true ->
                (pre = [] /\ exists p v, ph' = P2 p v /\ N.eqb p p' && veqb v v' = true) \/
                (exists pre0 p s v, pre = pre0 ++ [EvChoose p s (CSome v)] /\ N.eqb p p' && veqb v v' = true))
        by (intros; eapply IH; eauto).
      assert (Lift : forall ph' added', shape ph' added' (pre ++ EvDeps p' v' a :: rest) = true ->
                (forall p v, ph' = P2 p v -> exists s, e = EvChoose p s (CSome v)) ->
                exists pre0 p s v, e :: pre = pre0 ++ [EvChoose p s (CSome v)] /\ N.eqb p p' && veqb v v' = true).
      { intros ph' added' Hs He. destruct (Step ph' added' Hs) as [[-> (p & v & -> & Hpv)]|(pre0 & p & s & v & -> & Hpv)].
        - destruct (He p v eq_refl) as [s ->]. exists [], p, s, v. auto.
        - exists (e :: pre0), p, s, v. auto. }
      destruct ph as [| |q w]; destruct e as [[|]| |p s [v| |]|p s ans]; try discriminate;
        try (eapply Lift; [exact H|intros; discriminate]).
      + (* P0, cancel false: rest must be nil, impossible with a pending Deps *)
        destruct pre; discriminate.
      + destruct (added_has veqb added p v).
        * eapply Lift; [exact H|intros; discriminate].
        * eapply Lift; [exact H|]. intros p0 v0 E. injection E as <- <-. eauto.
      + destruct pre; discriminate.
      + (* P2, Deps *)
        apply andb_prop in H as [_ H]. destruct ans; try (eapply Lift; [exact H|intros; discriminate]).
        destruct pre; discriminate.
  Qed.

  (* (2) at most once per (package, version) *)
  Fixpoint deps_of (tr : list event) : list (pkg * Vr) :=
    match tr with
    | [] => []
    | EvDeps p v _ :: rest => (p, v) :: deps_of rest
    | _ :: rest => deps_of rest
    end.

  Definition phase_ok (ph : phase) (added : list (pkg * Vr)) : Prop :=
    match ph with P2 p v => added_has veqb added p v = false | _ => True end.

  Hypothesis veqb_refl : forall v, veqb v v = true.
  Hypothesis veqb_eq : forall a b, veqb a b = true -> a = b.

  Lemma added_has_cons added p v q w :
    added_has veqb ((p, v) :: added) q w = (N.eqb p q && veqb v w) || added_has veqb added q w.
  Proof. reflexivity. Qed.

  Lemma shape_deps_fresh : forall (tr : list event) ph added,
    phase_ok ph added -> shape ph added tr = true ->
    Forall (fun pv => added_has veqb added (fst pv) (snd pv) = false) (deps_of tr) /\ NoDup (deps_of tr).
  Proof.
    induction tr as [|e tr IH]; intros ph added Hok H; [split; constructor|].
    cbn [shape] in H.
    destruct ph as [| |q w]; destruct e as [[|]| |p s [v| |]|p v ans]; try discriminate; cbn [deps_of];
      try (refine (IH _ added _ H); exact I).
    - destruct tr; [split; constructor|cbn in H; discriminate].
    - destruct (added_has veqb added p v) eqn:Ea; [refine (IH _ added _ H); exact I|].
      refine (IH (P2 p v) added _ H). exact Ea.
    - destruct tr; [split; constructor|cbn in H; discriminate].
    - apply andb_prop in H as [Hpv H]. apply andb_prop in Hpv as [Hp Hv].
      apply N.eqb_eq in Hp. apply veqb_eq in Hv. subst p v. cbn in Hok.
      assert (Hrest : Forall (fun pv => added_has veqb ((q, w) :: added) (fst pv) (snd pv) = false) (deps_of tr)
                      /\ NoDup (deps_of tr)).
      { destruct ans; try (refine (IH P0 ((q, w) :: added) _ H); exact I).
        destruct tr; [split; constructor|cbn in H; discriminate]. }
      destruct Hrest as [Hall Hnd]. split.
      + constructor; [exact Hok|]. eapply Forall_impl; [|exact Hall]. intros [a b] Hf. cbn [fst snd] in *.
        rewrite added_has_cons in Hf. now apply orb_false_elim in Hf.
      + constructor; [|exact Hnd]. intros Hin. rewrite Forall_forall in Hall. specialize (Hall _ Hin).
        cbn [fst snd] in Hall. rewrite added_has_cons, N.eqb_refl, veqb_refl in Hall. discriminate.
  Qed.
End Protocol.
