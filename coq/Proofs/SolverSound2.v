(* C01 (model side), part 2: steps that change only the store and the index of incompatibilities
   (alloc, merge_incompatibility, add_incompatibility, add_incompatibility_from_dependencies):
   which ids become active, and that the dependency incompatibilities of an added (package, version)
   stay represented by an active entry (merging only enlarges the set of dependant versions). *)
From Coq Require Import List NArith ZArith Bool Lia PeanoNat.
From PG Require Import Model.VS Model.Term Model.Solver Model.Registry Proofs.VSLaws Proofs.TermProofs
  Proofs.AssocProofs Proofs.SolverSem Proofs.SolverStore Proofs.SolverQueue Proofs.SolverSound1.
Import ListNotations.

Section Sound2.
  Context {VS Vr : Type} (O : VSOps VS Vr) (L : VSLawful O).
  Context (reg : registry (VS := VS) (Vr := Vr)) (r : pkg) (rv : Vr).
  Notation tm := (term VS).
  Notation incompat := (@incompat VS Vr).
  Notation state := (@state VS Vr).
  Notation ext_ok := (ext_ok O L reg r rv).
  Notation st_ok := (st_ok O L reg r rv).

  (* ---------------------------------------------------------------- vocabulary *)
  Definition dependant_of (i : incompat) : option pkg :=
    match ikind i with
    | KFromDep p _ _ _ | KCustom p _ _ | KNoVersions p _ => Some p
    | _ => None
    end.

  (* the incompatibilities that matter for the soundness of selecting (p, v) *)
  Definition relevant (p : pkg) (v : Vr) (i : incompat) : Prop :=
    match ikind i with
    | KFromDep p' A _ _ => p' = p /\ vs_subset_of O (vs_singleton O v) A = true
    | KCustom p' s _ => p' = p /\ s = vs_singleton O v
    | _ => False
    end.

  Lemma relevant_dependant p v i : relevant p v i -> dependant_of i = Some p.
  Proof. unfold relevant, dependant_of. destruct (ikind i); intros H; try destruct H as [-> _]; tauto. Qed.

  Definition active (st : state) (p : pkg) (id : nat) : Prop := In id (index_get p (index st)).

  Definition dep_wit (st : state) (p : pkg) (v : Vr) (q : pkg) (s : VS) : Prop :=
    exists id I A, active st p id /\ nth_error (store st) id = Some I /\ ikind I = KFromDep p A q s
                   /\ vs_subset_of O (vs_singleton O v) A = true.
  Definition cust_wit (st : state) (p : pkg) (v : Vr) : Prop :=
    exists id I m, active st p id /\ nth_error (store st) id = Some I /\ ikind I = KCustom p (vs_singleton O v) m.

  Definition wit_pres (st st' : state) : Prop :=
    (forall p v q s, dep_wit st p v q s -> dep_wit st' p v q s) /\ (forall p v, cust_wit st p v -> cust_wit st' p v).

  (* a step that leaves the partial solution and the cache alone; the entries it adds to the store or
     activates in the index have their dependant (if any) in [Pk] *)
  Definition new_ok (Pk : pkg -> Prop) (I : incompat) : Prop := forall pp, dependant_of I = Some pp -> Pk pp.
  Definition is_step (Pk : pkg -> Prop) (st st' : state) : Prop :=
    ps st' = ps st /\ contradicted st' = contradicted st
    /\ (exists extra, store st' = store st ++ extra /\ Forall (new_ok Pk) extra)
    /\ (forall p x, active st' p x -> active st p x \/ exists I, nth_error (store st') x = Some I /\ new_ok Pk I).

  Lemma wit_pres_refl st : wit_pres st st.
  Proof. split; auto. Qed.
  Lemma wit_pres_trans st1 st2 st3 : wit_pres st1 st2 -> wit_pres st2 st3 -> wit_pres st1 st3.
  Proof. intros [A1 B1] [A2 B2]. split; auto. Qed.

  Lemma is_step_refl Pk st : is_step Pk st st.
  Proof.
    split; [reflexivity|]. split; [reflexivity|]. split; [exists []; split; [now rewrite app_nil_r|constructor]|]. auto.
  Qed.

  Lemma is_step_trans Pk st1 st2 st3 : is_step Pk st1 st2 -> is_step Pk st2 st3 -> is_step Pk st1 st3.
  Proof.
    intros (P1 & C1 & (e1 & S1 & F1) & A1) (P2 & C2 & (e2 & S2 & F2) & A2).
    split; [congruence|]. split; [congruence|]. split.
    - exists (e1 ++ e2). split; [now rewrite S2, S1, app_assoc|]. apply Forall_app. auto.
    - intros p x H. destruct (A2 p x H) as [H2|H2]; [|now right].
      destruct (A1 p x H2) as [H1|(I & HI & Hn)]; [now left|]. right. exists I. split; [|exact Hn].
      rewrite S2. now apply nth_error_app_old.
  Qed.

  Lemma is_step_weaken (Pk Pk' : pkg -> Prop) st st' : (forall x, Pk x -> Pk' x) -> is_step Pk st st' -> is_step Pk' st st'.
  Proof.
    intros Hw (P1 & C1 & (e1 & S1 & F1) & A1).
    assert (Hn : forall I, new_ok Pk I -> new_ok Pk' I) by (intros I H pp Hp; auto).
    split; [exact P1|]. split; [exact C1|]. split.
    - exists e1. split; [exact S1|]. eapply Forall_impl; [|exact F1]. exact Hn.
    - intros p x H. destruct (A1 p x H) as [H1|(I & HI & HIn)]; [now left|]. right. eauto.
  Qed.

  (* ---------------------------------------------------------------- the index *)
  Lemma index_get_set p q l (ix : list (pkg * list nat)) :
    index_get q (set p l ix) = if N.eqb q p then l else index_get q ix.
  Proof. unfold index_get. rewrite get_set_if. now destruct (N.eqb q p). Qed.

  Lemma index_push_in id (ts : list (pkg * tm)) : forall ix p x,
    In x (index_get p (index_push id ts ix)) <-> In x (index_get p ix) \/ (x = id /\ In p (keys ts)).
  Proof.
    unfold index_push. induction ts as [|[k t] ts IH]; intros ix p x; cbn [fold_left keys map fst].
    - cbn. tauto.
    - rewrite IH, index_get_set. fold (keys ts). destruct (N.eqb_spec p k) as [->|Hne].
      + rewrite in_app_iff. cbn. intuition.
      + cbn. intuition congruence.
  Qed.

  Lemma index_drop_in past (ts : list (pkg * tm)) : forall ix p x,
    In x (index_get p (index_drop past ts ix)) -> In x (index_get p ix).
  Proof.
    unfold index_drop. induction ts as [|[k t] ts IH]; intros ix p x; cbn [fold_left fst]; [auto|].
    intros H. apply IH in H. rewrite index_get_set in H. destruct (N.eqb_spec p k) as [->|]; [|exact H].
    apply filter_In in H. tauto.
  Qed.

  Lemma index_drop_keep past (ts : list (pkg * tm)) : forall ix p x,
    x <> past -> In x (index_get p ix) -> In x (index_get p (index_drop past ts ix)).
  Proof.
    unfold index_drop. induction ts as [|[k t] ts IH]; intros ix p x Hne; cbn [fold_left fst]; [auto|].
    intros H. apply IH; [exact Hne|]. rewrite index_get_set. destruct (N.eqb_spec p k) as [->|]; [|exact H].
    apply filter_In. split; [exact H|]. now destruct (Nat.eqb_spec x past).
  Qed.

  (* ---------------------------------------------------------------- merge_dependents *)
  Lemma from_dep_key p A d : In p (keys (terms (from_dependency O p A d))).
  Proof.
    destruct d as [q s]. unfold from_dependency. cbn [terms].
    destruct (vs_eqb O s (vs_empty O)); [now left|]. destruct (N.eqb p q); now left.
  Qed.

  Lemma merge_dependents_kind self other mi :
    ext_ok self -> ext_ok other -> merge_dependents O self other = Good (Some mi) ->
    exists p s1 s2 q t,
      ikind self = KFromDep p s1 q t /\ ikind other = KFromDep p s2 q t
      /\ ikind mi = KFromDep p (vs_union O s1 s2) q t /\ wf O L s1 /\ wf O L s2 /\ In p (keys (terms mi)).
  Proof.
    unfold merge_dependents, as_dependency, SolverStore.ext_ok at 1 2.
    destruct (ikind self) as [| |p1 s1 p2 t1| |] eqn:Ks; try discriminate.
    destruct (ikind other) as [| |q1 s2 q2 t2| |] eqn:Ko; try discriminate.
    intros (Ts & Ws1 & Wt1 & D1) (To & Ws2 & Wt2 & D2).
    destruct (N.eqb_spec p1 q1) as [<-|]; [|discriminate].
    destruct (N.eqb_spec p2 q2) as [<-|]; [|discriminate]. cbn [andb negb].
    destruct (N.eqb_spec p1 p2) as [|Hne]; [discriminate|].
    destruct (from_dep_terms_get O p1 s1 p2 t1 Hne) as [G1 G2].
    destruct (from_dep_terms_get O p1 s2 p2 t2 Hne) as [G3 G4].
    rewrite Ts, To, G1, G2, G3, G4.
    assert (Heq : opt_term_eqb O (if vs_eqb O t1 (vs_empty O) then None else Some (Neg t1))
                              (if vs_eqb O t2 (vs_empty O) then None else Some (Neg t2)) = true -> t1 = t2).
    { destruct (vs_eqb O t1 (vs_empty O)) eqn:E1, (vs_eqb O t2 (vs_empty O)) eqn:E2; cbn; try discriminate.
      - intros _. apply (vs_eqb_spec O L) in E1, E2. congruence.
      - intros H. now apply (vs_eqb_spec O L) in H. }
    destruct (opt_term_eqb O _ _) eqn:Eo; [|discriminate]. specialize (Heq eq_refl). subst t2.
    cbn [negb bind req unwrap_positive].
    assert (Hd : (match (if vs_eqb O t1 (vs_empty O) then None else Some (Neg t1)) with
                  | None => Good (vs_empty O) | Some t => unwrap_negative t end) = Good t1).
    { destruct (vs_eqb O t1 (vs_empty O)) eqn:E1; [|reflexivity]. apply (vs_eqb_spec O L) in E1. now rewrite E1. }
    rewrite Hd. cbn [bind]. intros H. injection H as <-.
    exists p1, s1, s2, p2, t1. repeat split; try assumption; try reflexivity.
    exact (from_dep_key p1 (vs_union O s1 s2) (p2, t1)).
  Qed.

  Lemma find_merge_spec cur pasts (st : list incompat) past mi :
    find_merge O cur pasts st = Good (Some (past, mi)) ->
    In past pasts /\ exists pi, nth_error st past = Some pi /\ merge_dependents O cur pi = Good (Some mi).
  Proof.
    induction pasts as [|x pasts IH]; cbn [find_merge]; [discriminate|].
    unfold bind, req. destruct (nth_error st x) as [pi|] eqn:En; [|discriminate].
    destruct (merge_dependents O cur pi) as [[m|]|] eqn:Em; [| |discriminate].
    - intros H. injection H as <- <-. split; [now left|]. eauto.
    - intros H. destruct (IH H) as [H1 H2]. split; [now right|exact H2].
  Qed.

  Lemma subset_union_l v A B :
    wf O L A -> wf O L B -> vs_subset_of O (vs_singleton O v) A = true ->
    vs_subset_of O (vs_singleton O v) (vs_union O A B) = true.
  Proof.
    intros WA WB H. pose proof (wf_singleton O L v) as Wv.
    rewrite (subset_of_spec O L) in H |- * by (try assumption; now apply (wf_union O L)).
    intros u Hu. rewrite (mem_union O L) by assumption. now rewrite (H u Hu).
  Qed.

  Lemma subset_union_r v A B :
    wf O L A -> wf O L B -> vs_subset_of O (vs_singleton O v) B = true ->
    vs_subset_of O (vs_singleton O v) (vs_union O A B) = true.
  Proof.
    intros WA WB H. pose proof (wf_singleton O L v) as Wv.
    rewrite (subset_of_spec O L) in H |- * by (try assumption; now apply (wf_union O L)).
    intros u Hu. rewrite (mem_union O L) by assumption. rewrite (H u Hu). apply orb_true_r.
  Qed.

  Lemma subset_refl A : wf O L A -> vs_subset_of O A A = true.
  Proof. intros W. apply (subset_of_spec O L); auto. Qed.

  (* ---------------------------------------------------------------- merge_incompatibility *)
  Lemma merge_incompatibility_cases (st : state) id st' :
    merge_incompatibility O st id = Good st' ->
    exists cur, nth_error (store st) id = Some cur /\ ps st' = ps st /\ contradicted st' = contradicted st
      /\ ((store st' = store st /\ index st' = index_push id (terms cur) (index st))
          \/ exists key past mi,
               as_dependency cur = Some key
               /\ find_merge O cur (match get2 key (merged st) with Some l => l | None => [] end) (store st) = Good (Some (past, mi))
               /\ store st' = store st ++ [mi]
               /\ index st' = index_push (length (store st)) (terms mi) (index_drop past (terms mi) (index st))).
  Proof.
    unfold merge_incompatibility, bind, req.
    destruct (nth_error (store st) id) as [cur|]; [|discriminate]. intros H. exists cur. split; [reflexivity|]. revert H.
    destruct (as_dependency cur) as [key|].
    - destruct (find_merge O cur _ (store st)) as [[[past mi]|]|] eqn:Ef; [| |discriminate].
      + destruct (has_any O (terms mi)); [discriminate|]. intros E. injection E as <-. cbn.
        split; [reflexivity|]. split; [reflexivity|]. right. exists key, past, mi. auto.
      + destruct (has_any O (terms cur)); [discriminate|]. intros E. injection E as <-. cbn. auto.
    - destruct (has_any O (terms cur)); [discriminate|]. intros E. injection E as <-. cbn. auto.
  Qed.

  Lemma kind_not_derived_dep (i : incompat) p A q s : ikind i = KFromDep p A q s -> as_dependency i <> None.
  Proof. unfold as_dependency. intros ->. discriminate. Qed.

  Lemma merge_incompatibility_step st id st' cur :
    st_ok st -> nth_error (store st) id = Some cur -> (as_dependency cur <> None -> ext_ok cur) ->
    merge_incompatibility O st id = Good st' ->
    is_step (fun pp => dependant_of cur = Some pp) st st' /\ wit_pres st st'
    /\ (forall p A q s v, ikind cur = KFromDep p A q s -> vs_subset_of O (vs_singleton O v) A = true -> dep_wit st' p v q s)
    /\ (forall p v m, ikind cur = KCustom p (vs_singleton O v) m -> In p (keys (terms cur)) -> cust_wit st' p v).
  Proof.
    intros Hok Hcur Hext E. destruct (merge_incompatibility_cases _ _ _ E) as (cur' & Hc' & Eps & Ect & Hcase).
    assert (cur' = cur) by congruence. subst cur'.
    destruct Hcase as [(Est & Eix)|(key & past & mi & Ek & Ef & Est & Eix)].
    - (* the entry itself is indexed *)
      assert (Hact : forall p x, active st' p x <-> active st p x \/ (x = id /\ In p (keys (terms cur)))).
      { intros p x. unfold active. rewrite Eix. apply index_push_in. }
      split; [|split; [|split]].
      + split; [exact Eps|]. split; [exact Ect|]. split; [exists []; split; [now rewrite app_nil_r|constructor]|].
        intros p x H. apply Hact in H. destruct H as [H|[-> _]]; [now left|]. right. exists cur. rewrite Est.
        split; [exact Hcur|]. intros pp Hp. exact Hp.
      + split.
        * intros p v q s (id0 & I & A & Ha & Hn & Hk & Hs). exists id0, I, A. rewrite Est. repeat split; try assumption.
          apply Hact. now left.
        * intros p v (id0 & I & m & Ha & Hn & Hk). exists id0, I, m. rewrite Est. repeat split; try assumption.
          apply Hact. now left.
      + intros p A q s v Hk Hs. exists id, cur, A. rewrite Est. repeat split; try assumption. apply Hact. right.
        split; [reflexivity|]. pose proof (Hext (kind_not_derived_dep _ _ _ _ _ Hk)) as He. unfold SolverStore.ext_ok in He.
        rewrite Hk in He. destruct He as (-> & _). apply from_dep_key.
      + intros p v m Hk Hin. exists id, cur, m. rewrite Est. repeat split; try assumption. apply Hact. now right.
    - (* merged with an earlier dependency of the same pair *)
      assert (Hcx : ext_ok cur) by (apply Hext; congruence).
      destruct (find_merge_spec _ _ _ _ _ Ef) as (Hpin & pi & Hpi & Hm).
      assert (Hpx : ext_ok pi).
      { destruct Hok as (_ & Hme & _). destruct (get2 key (merged st)) as [l|] eqn:Eg; [|destruct Hpin].
        destruct (Hme key l past Eg Hpin) as (i' & Hi' & He). congruence. }
      destruct (merge_dependents_kind _ _ _ Hcx Hpx Hm) as (p0 & s1 & s2 & q0 & t0 & Kc & Kp & Km & W1 & W2 & Hkey).
      assert (Hact : forall p x, active st' p x <-> active {| root := root st; rootv := rootv st;
                         index := index_drop past (terms mi) (index st); contradicted := contradicted st;
                         merged := merged st; ps := ps st; store := store st |} p x
                       \/ (x = length (store st) /\ In p (keys (terms mi)))).
      { intros p x. unfold active. rewrite Eix. cbn [index]. apply index_push_in. }
      assert (Hdm : dependant_of mi = dependant_of cur) by (unfold dependant_of; now rewrite Km, Kc).
      split; [|split; [|split]].
      + split; [exact Eps|]. split; [exact Ect|]. split.
        * exists [mi]. split; [exact Est|]. constructor; [|constructor]. intros pp Hp. congruence.
        * intros p x H. apply Hact in H. destruct H as [H|[-> _]].
          -- left. unfold active in *. cbn [index] in H. eapply index_drop_in; eauto.
          -- right. exists mi. rewrite Est. split; [apply nth_error_snoc|]. intros pp Hp. congruence.
      + split.
        * intros p v q s (id0 & I & A & Ha & Hn & Hk & Hs). destruct (Nat.eq_dec id0 past) as [->|Hne].
          -- assert (I = pi) by congruence. subst I. rewrite Kp in Hk. injection Hk as -> -> -> ->.
             exists (length (store st)), mi, (vs_union O s1 A). rewrite Est. split; [apply Hact; now right|].
             split; [apply nth_error_snoc|]. split; [exact Km|]. now apply subset_union_r.
          -- exists id0, I, A. rewrite Est. split; [|split; [now apply nth_error_app_old|auto]].
             apply Hact. left. unfold active in *. cbn [index]. now apply index_drop_keep.
        * intros p v (id0 & I & m & Ha & Hn & Hk). destruct (Nat.eq_dec id0 past) as [->|Hne].
          -- assert (I = pi) by congruence. subst I. rewrite Kp in Hk. discriminate.
          -- exists id0, I, m. rewrite Est. split; [|split; [now apply nth_error_app_old|auto]].
             apply Hact. left. unfold active in *. cbn [index]. now apply index_drop_keep.
      + intros p A q s v Hk Hs. rewrite Kc in Hk. injection Hk as -> -> -> ->.
        exists (length (store st)), mi, (vs_union O A s2). rewrite Est. split; [apply Hact; now right|].
        split; [apply nth_error_snoc|]. split; [exact Km|]. now apply subset_union_l.
      + intros p v m Hk. rewrite Kc in Hk. discriminate.
  Qed.

  (* ---------------------------------------------------------------- alloc, add_incompatibility *)
  Lemma store_ext_step Pk (st : state) extra :
    Forall (new_ok Pk) extra ->
    let st' := {| root := root st; rootv := rootv st; index := index st; contradicted := contradicted st;
                  merged := merged st; ps := ps st; store := store st ++ extra |} in
    is_step Pk st st' /\ wit_pres st st'.
  Proof.
    intros HF st'. split.
    - split; [reflexivity|]. split; [reflexivity|]. split; [exists extra; auto|]. intros p x H. now left.
    - split.
      + intros p v q s (id0 & I & A & Ha & Hn & Hk & Hs). exists id0, I, A. split; [exact Ha|]. split; [|auto].
        cbn [store st']. now apply nth_error_app_old.
      + intros p v (id0 & I & m & Ha & Hn & Hk). exists id0, I, m. split; [exact Ha|]. split; [|auto].
        cbn [store st']. now apply nth_error_app_old.
  Qed.

  Lemma alloc_step Pk (st : state) i : new_ok Pk i -> is_step Pk st (fst (alloc st i)) /\ wit_pres st (fst (alloc st i)).
  Proof. intros H. apply (store_ext_step Pk st [i]). constructor; [exact H|constructor]. Qed.

  Lemma add_incompatibility_step st i st' :
    st_ok st -> ext_ok i -> add_incompatibility O st i = Good st' ->
    is_step (fun pp => dependant_of i = Some pp) st st' /\ wit_pres st st'
    /\ (forall p v m, ikind i = KCustom p (vs_singleton O v) m -> In p (keys (terms i)) -> cust_wit st' p v).
  Proof.
    intros Hok Hi. unfold add_incompatibility. cbn [alloc]. intros E.
    set (st1 := {| root := root st; rootv := rootv st; index := index st; contradicted := contradicted st;
                   merged := merged st; ps := ps st; store := store st ++ [i] |}) in *.
    destruct (alloc_step (fun pp => dependant_of i = Some pp) st i) as [S1 W1]; [intros pp Hp; exact Hp|].
    change (fst (alloc st i)) with st1 in S1, W1.
    assert (Hok1 : st_ok st1) by exact (alloc_ok O L reg r rv st i Hok (J_ext _ _ _ _ _ _ _ Hi)).
    assert (Hn : nth_error (store st1) (length (store st)) = Some i) by apply nth_error_snoc.
    destruct (merge_incompatibility_step st1 _ st' i Hok1 Hn (fun _ => Hi) E) as (S2 & W2 & _ & C2).
    split; [eapply is_step_trans; eauto|]. split; [eapply wit_pres_trans; eauto|exact C2].
  Qed.

  (* ---------------------------------------------------------------- merge_range, add_incompatibility_from_dependencies *)
  Lemma merge_range_step P ids : forall st st',
    st_ok st ->
    (forall id, In id ids -> exists i, nth_error (store st) id = Some i /\ ext_ok i /\ dependant_of i = Some P) ->
    merge_range O st ids = Good st' ->
    is_step (eq P) st st' /\ wit_pres st st'
    /\ forall id i p A q s v, In id ids -> nth_error (store st) id = Some i -> ikind i = KFromDep p A q s ->
         vs_subset_of O (vs_singleton O v) A = true -> dep_wit st' p v q s.
  Proof.
    induction ids as [|id ids IH]; intros st st' Hok Hids; cbn [merge_range].
    - intros E. injection E as <-. split; [apply is_step_refl|]. split; [apply wit_pres_refl|]. intros ? ? ? ? ? ? ? [].
    - unfold bind. destruct (merge_incompatibility O st id) as [st1|] eqn:E1; [|discriminate]. intros E.
      destruct (Hids id (or_introl eq_refl)) as (ci & Hci & Hcx & Hcd).
      destruct (merge_incompatibility_step st id st1 ci Hok Hci (fun _ => Hcx) E1) as (S1 & W1 & D1 & _).
      assert (Hok1 : st_ok st1).
      { eapply merge_incompatibility_ok; [exact Hok| |exact E1]. intros i Hn _. congruence. }
      destruct (merge_incompatibility_ext O _ _ _ E1) as (ex1 & Hex1).
      destruct (IH st1 st' Hok1) as (S2 & W2 & D2); [|exact E|].
      { intros x Hin. destruct (Hids x (or_intror Hin)) as (i & Hi & He & Hd). exists i. split; [|auto].
        rewrite Hex1. now apply nth_error_app_old. }
      split; [|split].
      + eapply is_step_trans; [|exact S2]. eapply is_step_weaken; [|exact S1]. cbn. intros x Hx. congruence.
      + eapply wit_pres_trans; eauto.
      + intros x i p A q s v [<-|Hin] Hn Hk Hs.
        * assert (i = ci) by congruence. subst i. apply (proj1 W2). eapply D1; eauto.
        * eapply D2; eauto. rewrite Hex1. now apply nth_error_app_old.
  Qed.

  Lemma add_from_dependencies_step st p v deps st' range :
    st_ok st ->
    (forall q s, In (q, s) deps -> wf O L s /\ declares O reg p (vs_singleton O v) q s) ->
    add_incompatibility_from_dependencies O st p v deps = Good (st', range) ->
    is_step (eq p) st st' /\ wit_pres st st' /\ forall q s, In (q, s) deps -> dep_wit st' p v q s.
  Proof.
    intros Hok Hdeps. pose proof Hok as (Hs & Hm & Hr & Hv). unfold add_incompatibility_from_dependencies, bind.
    set (news := map (fun d => from_dependency O p (vs_singleton O v) d) deps).
    set (st1 := {| root := root st; rootv := rootv st; index := index st; contradicted := contradicted st;
                   merged := merged st; ps := ps st; store := store st ++ news |}).
    assert (Hnews : forall k d, nth_error deps k = Some d ->
               nth_error (store st1) (length (store st) + k) = Some (from_dependency O p (vs_singleton O v) d)).
    { intros k d Hk. cbn [store st1]. rewrite nth_error_app2 by lia. replace (length (store st) + k - length (store st)) with k by lia.
      unfold news. rewrite nth_error_map, Hk. reflexivity. }
    assert (Hext : forall d, In d deps -> ext_ok (from_dependency O p (vs_singleton O v) d)).
    { intros [q s] Hin. destruct (Hdeps q s Hin) as [Hw Hd]. unfold SolverStore.ext_ok. cbn [ikind from_dependency].
      split; [reflexivity|]. split; [apply (wf_singleton O L)|]. split; assumption. }
    assert (Hnk : Forall (new_ok (eq p)) news).
    { unfold news. apply Forall_forall. intros i Hi. apply in_map_iff in Hi. destruct Hi as ([q s] & <- & _).
      intros pp Hp. unfold dependant_of in Hp. cbn in Hp. congruence. }
    destruct (store_ext_step (eq p) st news Hnk) as [S1 W1]. fold st1 in S1, W1.
    assert (Hok1 : st_ok st1).
    { split; [apply (store_just_app O L reg r rv); [exact Hs|]|].
      - unfold news. apply Forall_forall. intros i Hi. apply in_map_iff in Hi. destruct Hi as (d & <- & Hin). now apply Hext.
      - split; [|split; assumption].
        intros k l x Hg Hin. destruct (Hm k l x Hg Hin) as (i & Hi & He). exists i. split; [now apply nth_error_app_old|exact He]. }
    destruct (merge_range O st1 (seq (length (store st)) (length news))) as [st2|] eqn:E; [|discriminate].
    intros H. injection H as <- _.
    destruct (merge_range_step p (seq (length (store st)) (length news)) st1 st2 Hok1) as (S2 & W2 & D2); [|exact E|].
    { intros x Hin. apply in_seq in Hin. unfold news in Hin. rewrite map_length in Hin.
      destruct (nth_error deps (x - length (store st))) as [d|] eqn:En; [|apply nth_error_None in En; lia].
      exists (from_dependency O p (vs_singleton O v) d). replace x with (length (store st) + (x - length (store st))) by lia.
      split; [now apply Hnews|]. split; [apply Hext; eapply nth_error_In; eauto|]. destruct d. reflexivity. }
    split; [eapply is_step_trans; eauto|]. split; [eapply wit_pres_trans; eauto|].
    intros q s Hin. apply In_nth_error in Hin. destruct Hin as (k & Hk).
    eapply (D2 (length (store st) + k)).
    - apply in_seq. unfold news. rewrite map_length. assert (k < length deps) by (apply nth_error_Some; congruence). lia.
    - exact (Hnews k (q, s) Hk).
    - reflexivity.
    - apply subset_refl. apply (wf_singleton O L).
  Qed.
End Sound2.
