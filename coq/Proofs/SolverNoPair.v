(* C09, last step: in every run of the solver model the [not_root] incompatibility (store id 0, the only entry of
   kind KNotRoot) is never a cause of a derived entry.  Hence a NoSolution tree never holds a (NoVersions, NotRoot)
   pair and [collapse_no_versions] succeeds on it.

   Derived entries are created by [conflict_resolution] only: [prior_cause cur cause ..].
   - [cur <> 0]: [cur] is an id found [RSatisfied] by [scan_incompats], or a freshly allocated id.  Id 0 is
     scanned exactly once (the first scan of the run, which derives the root's first term from it and caches it
     as contradicted at level 0); the cache entry (0, 0) survives every backtrack (levels <= L are kept) and every
     [cache_set] of another id, and a cached id is skipped by the scan.
   - [cause <> 0]: [cause] is the cause of the dated derivation that [satisfier_search] found with the greatest
     global index among the satisfiers of the terms of [cur].  The only dated derivation with cause 0 is the
     root's first one, the assignment with global index 0, and nothing else has global index 0; so every term of
     [cur] would be a term of the root satisfied by [Pos {rv}], i.e. [cur] would be the single term [(r, t)] with
     [rv] in [t]: terminal, and [conflict_resolution] tests [is_terminal] before the satisfier search. *)
From Coq Require Import List NArith ZArith Bool Lia PeanoNat.
From PG Require Import Model.VS Model.Term Model.Solver Model.Registry Model.Report Proofs.VSLaws Proofs.TermProofs
  Proofs.AssocProofs Proofs.SolverSem Proofs.SolverStore Proofs.SolverTree Proofs.SolverQueue Proofs.SolverSound1
  Proofs.SolverSound2 Proofs.SolverSound Proofs.SolverReach1 Proofs.SolverReach2 Proofs.ReportProofs
  Proofs.SolverCollapse.
Import ListNotations.

Section NoPair.
  Context {VS Vr : Type} (O : VSOps VS Vr) (L : VSLawful O) (veqb : Vr -> Vr -> bool).
  Context (reg : registry (VS := VS) (Vr := Vr)) (r : pkg) (rv : Vr).
  Hypothesis Hregwf : reg_wf O L reg.
  Hypothesis veqb_eq : forall a b, veqb a b = true -> a = b.

  Notation tm := (term VS).
  Notation pa := (@pa VS Vr).
  Notation dated := (@dated VS).
  Notation psol := (@psol VS Vr).
  Notation state := (@state VS Vr).
  Notation incompat := (@incompat VS Vr).
  Notation event := (@event VS Vr).
  Notation full_ok := (full_ok O L reg r rv).
  Notation ext_ok := (ext_ok O L reg r rv).
  Notation jinv := (jinv O L reg r rv).
  Notation cur_sat := (cur_sat O).
  Notation others_sat := (others_sat O).
  Notation sat := (sat_term O).
  Notation tle := (tle O).
  Notation twf := (twf O L).
  Local Notation asg st := (assignments (ps st)).

  (* ---------------------------------------------------------------- the store *)
  (* an entry other than [not_root]: not of kind KNotRoot, and not derived from id 0 *)
  Definition good_entry (i : incompat) : Prop :=
    (forall p v, ikind i <> KNotRoot p v) /\ (forall a b, ikind i = KDerived a b -> a <> 0 /\ b <> 0).

  Definition nr_store (s : list incompat) : Prop :=
    exists tl, s = not_root O r rv :: tl /\ Forall good_entry tl.

  Lemma nr_store_app s extra : nr_store s -> Forall good_entry extra -> nr_store (s ++ extra).
  Proof.
    intros (tl & -> & H) He. exists (tl ++ extra). split; [reflexivity|]. apply Forall_app. auto.
  Qed.

  Lemma nr_store_len s : nr_store s -> 0 < length s.
  Proof. intros (tl & -> & _). cbn. lia. Qed.

  Lemma nr_store_no_cause s : nr_store s -> no_notroot_cause s.
  Proof.
    intros (tl & -> & H) id i a b Hn Hk x ix p v Hx Hnx Hkx. rewrite Forall_forall in H.
    assert (Hab : a <> 0 /\ b <> 0).
    { destruct id as [|id]; cbn in Hn.
      - injection Hn as <-. cbn in Hk. discriminate.
      - apply nth_error_In in Hn. exact (proj2 (H _ Hn) a b Hk). }
    destruct x as [|x]; [destruct Hx as [<-|<-]; tauto|]. cbn in Hnx. apply nth_error_In in Hnx.
    exact (proj1 (H _ Hnx) p v Hkx).
  Qed.

  Lemma nr_store_init : nr_store (store (state_init O r rv)).
  Proof. exists []. split; [reflexivity|constructor]. Qed.

  Lemma merge_dependents_fromdep (self other mi : incompat) :
    merge_dependents O self other = Good (Some mi) -> exists p s q t, ikind mi = KFromDep p s q t.
  Proof.
    unfold merge_dependents. destruct (as_dependency self) as [[p1 p2]|]; [|discriminate].
    destruct (as_dependency other) as [[q1 q2]|]; [|discriminate].
    destruct (negb _); [discriminate|]. destruct (N.eqb p1 p2); [discriminate|]. destruct (negb _); [discriminate|].
    unfold Solver.bind, Solver.req. destruct (get p1 (terms self)) as [t1|]; [|discriminate].
    destruct (get p1 (terms other)) as [t2|]; [|discriminate].
    destruct t1 as [s1|s1]; cbn [unwrap_positive]; [|discriminate]. destruct t2 as [s2|s2]; cbn [unwrap_positive]; [|discriminate].
    destruct (match get p2 (terms self) with None => _ | Some t => _ end) as [ds|]; [|discriminate].
    intros E. injection E as <-. cbn [from_dependency ikind]. eauto.
  Qed.

  Lemma fromdep_good (i : incompat) : (exists p s q t, ikind i = KFromDep p s q t) -> good_entry i.
  Proof. intros (p & s & q & t & E). split; [intros p0 v0; rewrite E; discriminate|intros a b H; rewrite E in H; discriminate]. Qed.

  (* merge_incompatibility appends at most one merged dependency incompatibility *)
  Lemma merge_incompatibility_nr st id st' :
    merge_incompatibility O st id = Good st' ->
    ps st' = ps st /\ contradicted st' = contradicted st
    /\ exists extra, store st' = store st ++ extra /\ Forall good_entry extra.
  Proof.
    intros E. destruct (merge_incompatibility_cases O st id st' E) as (cur & _ & Eps & Ec & Hcase).
    split; [exact Eps|]. split; [exact Ec|].
    destruct Hcase as [[Es _]|(key & past & mi & _ & Hf & Es & _)].
    - exists []. rewrite app_nil_r. split; [exact Es|constructor].
    - exists [mi]. split; [exact Es|]. constructor; [|constructor].
      destruct (find_merge_spec O _ _ _ _ _ Hf) as (_ & pi & _ & Hm).
      apply fromdep_good. eapply merge_dependents_fromdep; eauto.
  Qed.

  Lemma merge_range_nr ids : forall st st',
    merge_range O st ids = Good st' ->
    ps st' = ps st /\ contradicted st' = contradicted st
    /\ exists extra, store st' = store st ++ extra /\ Forall good_entry extra.
  Proof.
    induction ids as [|id ids IH]; intros st st'; cbn [merge_range].
    - intros E. injection E as <-. split; [reflexivity|]. split; [reflexivity|]. exists []. now rewrite app_nil_r.
    - unfold Solver.bind. destruct (merge_incompatibility O st id) as [st1|] eqn:E1; [|discriminate]. intros E.
      destruct (merge_incompatibility_nr _ _ _ E1) as (P1 & C1 & x1 & S1 & G1).
      destruct (IH _ _ E) as (P2 & C2 & x2 & S2 & G2).
      split; [congruence|]. split; [congruence|]. exists (x1 ++ x2). split; [|apply Forall_app; auto].
      rewrite S2, S1. now rewrite app_assoc.
  Qed.

  Lemma add_incompatibility_nr st i st' :
    good_entry i -> add_incompatibility O st i = Good st' ->
    ps st' = ps st /\ contradicted st' = contradicted st
    /\ exists extra, store st' = store st ++ extra /\ Forall good_entry extra.
  Proof.
    intros Hi. unfold add_incompatibility. cbn [alloc]. intros E.
    destruct (merge_incompatibility_nr _ _ _ E) as (P1 & C1 & x1 & S1 & G1). cbn [ps contradicted store] in *.
    split; [exact P1|]. split; [exact C1|]. exists (i :: x1). split; [|constructor; auto].
    rewrite S1. now rewrite <- app_assoc.
  Qed.

  Lemma add_from_dependencies_nr st p v deps st' range :
    add_incompatibility_from_dependencies O st p v deps = Good (st', range) ->
    ps st' = ps st /\ contradicted st' = contradicted st
    /\ exists extra, store st' = store st ++ extra /\ Forall good_entry extra.
  Proof.
    unfold add_incompatibility_from_dependencies, Solver.bind.
    destruct (merge_range O _ _) as [st2|] eqn:E; [|discriminate]. intros H. injection H as <- _.
    destruct (merge_range_nr _ _ _ E) as (P1 & C1 & x1 & S1 & G1). cbn [ps contradicted store] in *.
    split; [exact P1|]. split; [exact C1|].
    exists (map (fun d => from_dependency O p (vs_singleton O v) d) deps ++ x1). split; [now rewrite S1, app_assoc|].
    apply Forall_app. split; [|exact G1]. apply Forall_forall. intros i Hi. apply in_map_iff in Hi.
    destruct Hi as ([q s] & <- & _). apply fromdep_good. cbn. eauto.
  Qed.

  (* ---------------------------------------------------------------- the partial solution *)
  (* the only dated derivation caused by id 0 is the root's first assignment (global index 0, term {rv}), and
     nothing else has global index 0 *)
  Definition nr_ps (p : psol) : Prop :=
    0 < next_gidx p
    /\ (forall q a dd, get q (assignments p) = Some a -> In dd (derivs a) -> d_cause dd = 0 ->
          q = r /\ d_gidx dd = 0 /\ d_accum dd = Pos (vs_singleton O rv))
    /\ (forall q a l, get q (assignments p) = Some a -> evt a 0 l -> q = r).

  Definition nr_inv (st : state) : Prop :=
    nr_store (store st) /\ In (0, 0) (contradicted st) /\ nr_ps (ps st).

  Lemma nr_ps_ext (p p' : psol) : next_gidx p' = next_gidx p -> assignments p' = assignments p -> nr_ps p -> nr_ps p'.
  Proof. intros Eg Ea (H1 & H2 & H3). unfold nr_ps. rewrite Eg, Ea. auto. Qed.

  Lemma nr_ps_add_derivation (p : psol) q cause cts p' :
    nr_ps p -> cause <> 0 -> add_derivation O p q cause cts = Good p' -> nr_ps p'.
  Proof.
    intros (H1 & H2 & H3) Hc E. pose proof (add_derivation_gidx O _ _ _ _ _ E) as Eg.
    destruct (add_derivation_get O _ _ _ _ _ E) as (ct & a' & _ & _ & _ & Hget & Hcase).
    split; [lia|]. split.
    - intros x a dd Hg Hin Hz. rewrite Hget in Hg. destruct (N.eqb_spec x q) as [->|Hne]; [|eauto].
      injection Hg as <-. destruct Hcase as [(a0 & t & Hga & Ea & -> & _)|(Hga & -> & _)].
      + cbn [deriv_upd derivs] in Hin. apply in_app_or in Hin. destruct Hin as [Hin|[<-|[]]]; [eauto|].
        cbn in Hz. congruence.
      + cbn [deriv_new derivs] in Hin. destruct Hin as [<-|[]]. cbn in Hz. congruence.
    - intros x a l Hg He. rewrite Hget in Hg. destruct (N.eqb_spec x q) as [->|Hne]; [|eauto].
      injection Hg as <-. destruct Hcase as [(a0 & t & Hga & Ea & -> & _)|(Hga & -> & _)].
      + apply (evt_deriv_upd O p cause ct a0 t 0 l Ea) in He. destruct He as [He|[He _]]; [eauto|lia].
      + apply evt_deriv_new in He. lia.
  Qed.

  Lemma nr_ps_add_decision (p : psol) q v p' : layout p -> nr_ps p -> add_decision O p q v = Good p' -> nr_ps p'.
  Proof.
    intros Hl (H1 & H2 & H3) E. pose proof (add_decision_gidx O _ _ _ _ E) as Eg.
    destruct (add_decision_get O _ _ _ _ Hl E) as (a0 & t & Hga & Ea & _ & _ & _ & Hget).
    split; [lia|]. split.
    - intros x a dd Hg Hin Hz. rewrite Hget in Hg. destruct (N.eqb_spec x q) as [->|Hne]; [|eauto].
      injection Hg as <-. cbn [decide_upd derivs] in Hin. eauto.
    - intros x a l Hg He. rewrite Hget in Hg. destruct (N.eqb_spec x q) as [->|Hne]; [|eauto].
      injection Hg as <-. apply (evt_decide_upd O p v a0 t 0 l Ea) in He. destruct He as [He|[He _]]; [eauto|lia].
  Qed.

  Lemma backtrack_pa_derivs Lv (a a' : pa) dd :
    backtrack_pa Lv a = Good (Some a') -> In dd (derivs a') -> In dd (derivs a).
  Proof.
    intros E. apply backtrack_pa_cases in E.
    destruct E as (_ & [[-> _]|(_ & pre & dl & rest & Er & _ & _ & Er' & _)]); [auto|].
    intros Hin. apply in_rev. rewrite Er. apply in_or_app. right. rewrite <- Er'. now apply in_rev in Hin.
  Qed.

  Lemma nr_ps_backtrack (p : psol) Lv p' : layout p -> nr_ps p -> ps_backtrack p Lv = Good p' -> nr_ps p'.
  Proof.
    intros Hl (H1 & H2 & H3) E. split; [rewrite (ps_backtrack_gidx _ _ _ E); exact H1|]. split.
    - intros x a' dd Hg Hin Hz. destruct (ps_backtrack_get_some _ _ _ Hl E x a' Hg) as (a & Hga & Hb).
      eapply H2; [exact Hga| |exact Hz]. eapply backtrack_pa_derivs; eauto.
    - intros x a' l Hg He. destruct (ps_backtrack_get_some _ _ _ Hl E x a' Hg) as (a & Hga & Hb).
      eapply H3; [exact Hga|]. eapply backtrack_pa_evt; eauto.
  Qed.

  (* ---------------------------------------------------------------- the cache *)
  Lemma cache_keep0 id lvl (c : list (nat * nat)) : id <> 0 -> In (0, 0) c -> In (0, 0) (cache_set id lvl c).
  Proof.
    intros Hne Hin. unfold cache_set. right. apply filter_In. split; [exact Hin|]. cbn.
    destruct id; [congruence|reflexivity].
  Qed.

  Lemma cached0 (c : list (nat * nat)) id : In (0, 0) c -> cached id c = false -> id <> 0.
  Proof.
    intros Hin Hc ->. unfold cached in Hc.
    assert (H : existsb (fun e : nat * nat => Nat.eqb (fst e) 0) c = true) by (apply existsb_exists; exists (0, 0); auto).
    congruence.
  Qed.

  Lemma backtrack_nr st inc chg Lv st' :
    layout (ps st) -> nr_inv st -> backtrack O st inc chg Lv = Good st' -> nr_inv st'.
  Proof.
    intros Hl (S1 & C1 & P1). unfold backtrack, Solver.bind.
    destruct (ps_backtrack (ps st) Lv) as [p'|] eqn:Ep; [|discriminate].
    assert (H1 : nr_inv {| root := root st; rootv := rootv st; index := index st;
                           contradicted := filter (fun e => Nat.leb (snd e) Lv) (contradicted st);
                           merged := merged st; ps := p'; store := store st |}).
    { split; [exact S1|]. split; [apply filter_In; split; [exact C1|reflexivity]|]. eapply nr_ps_backtrack; eauto. }
    destruct chg; [|intros E; injection E as <-; exact H1].
    intros E. destruct (merge_incompatibility_nr _ _ _ E) as (Eps & Ec & extra & Es & Hg).
    destruct H1 as (S2 & C2 & P2).
    split; [rewrite Es; now apply nr_store_app|]. split; [now rewrite Ec|now rewrite Eps].
  Qed.

  (* ---------------------------------------------------------------- the satisfier's cause is not id 0 *)
  Lemma keys_all_single (ts : list (pkg * tm)) x t :
    NoDup (keys ts) -> In (x, t) ts -> (forall y u, In (y, u) ts -> y = x) -> ts = [(x, t)].
  Proof.
    intros Hnd Hin Hall. destruct ts as [|[y u] ts]; [destruct Hin|].
    destruct ts as [|[z w] ts].
    - destruct Hin as [Hin|[]]. now rewrite Hin.
    - exfalso. pose proof (Hall y u (or_introl eq_refl)). pose proof (Hall z w (or_intror (or_introl eq_refl))). subst.
      cbn in Hnd. inversion Hnd as [|? ? Hn _]. apply Hn. now left.
  Qed.

  (* a conflict whose greatest satisfier is the root's first derivation is terminal *)
  Lemma ssame_zero_terminal st cur ci sp :
    jinv st -> nr_ps (ps st) -> nth_error (store st) cur = Some ci ->
    satisfier_search O (terms ci) (ps st) (store st) = Good (sp, SSame 0) ->
    is_terminal O ci (root st) (rootv st) = true.
  Proof.
    intros Hj (_ & H2 & H3) Hc. pose proof Hj as [[Hok Hw] _ _ _ _].
    pose proof (store_just_nth O L reg r rv _ (proj1 Hok) _ _ Hc) as (Nd & Wt & _).
    destruct Hok as (_ & _ & Hr & Hv).
    unfold satisfier_search, Solver.bind, Solver.req.
    destruct (find_satisfier O (terms ci) (asg st)) as [m|] eqn:Em; [|discriminate].
    destruct (max_by_gidx m) as [[sp0 [[sc sg] sl]]|] eqn:Et; [|discriminate].
    destruct (get sp0 (asg st)) as [spa|] eqn:Espa; [|discriminate].
    destruct (match sc with Some _ => _ | None => _ end) as [accum|]; [|discriminate].
    destruct (get sp0 (terms ci)) as [it|]; [|discriminate].
    destruct (satisfier O spa _) as [s2|] eqn:Es2; [|discriminate].
    destruct (max_by_gidx (set sp0 s2 m)) as [top2|] eqn:Et2; [|discriminate].
    destruct (Nat.leb sl (Nat.max (snd (snd top2)) 1)); [|discriminate].
    destruct sc as [c0|]; [|discriminate]. intros E. injection E as <- ->.
    destruct (find_satisfier_in O _ _ _ Em) as [F1 F2].
    destruct (F2 _ _ (max_by_gidx_in _ _ Et)) as (t & a & Hint & Ha & Hs).
    pose proof Hs as Hs'. apply satisfier_spec in Hs'.
    destruct Hs' as [(dd & Hin & Hcz & Hg & _ & Hdis)|(Hcz & _)]; [|discriminate].
    injection Hcz as Hcz. destruct (H2 _ _ _ Ha Hin (eq_sym Hcz)) as (-> & Hg0 & Hacc).
    (* every term of the conflict is a term of the root *)
    assert (Hall : forall y u, In (y, u) (terms ci) -> y = r).
    { intros y u Hy. destruct (F1 y u Hy) as (ay & [[cy gy] ly] & Hgy & Hsy & Hmy).
      pose proof (max_by_gidx_max _ _ Et _ Hmy) as Hle. unfold egidx in Hle. cbn in Hle.
      assert (gy = 0) by lia. subst gy. eapply H3; [exact Hgy|]. eapply satisfier_evt; exact Hsy. }
    unfold is_terminal. rewrite (keys_all_single _ _ _ Nd Hint Hall), Hr, Hv, N.eqb_refl. cbn [andb].
    assert (Hle : tle (d_accum dd) t).
    { apply (disjoint_neg_tle O L); [|exact (twf_all_in O L _ _ _ Wt Hint)|exact Hdis].
      destruct (ps_wf_get O L _ _ _ Hw Ha) as [_ Wd]. rewrite Forall_forall in Wd. exact (Wd _ Hin). }
    specialize (Hle (Some rv)). rewrite Hacc in Hle. cbn in Hle. apply Hle. now apply (contains_singleton O L).
  Qed.

  (* ---------------------------------------------------------------- conflict resolution *)
  Lemma cr_nr fuel : forall st cur chg res,
    jinv st -> cur_sat st cur ->
    (chg = true -> exists i a b, nth_error (store st) cur = Some i /\ ikind i = KDerived a b) ->
    nr_inv st -> cur <> 0 ->
    conflict_resolution O fuel st cur chg = inl res ->
    match res with CROk st' _ rc => nr_inv st' /\ rc <> 0 | CRTerminal st' _ => nr_inv st' end.
  Proof.
    induction fuel as [|fuel IH]; intros st cur chg res Hj (ci0 & Hci0 & Hsat) Hchg Hn Hcur; cbn [conflict_resolution];
      [discriminate|].
    destruct (nth_error (store st) cur) as [ci|] eqn:Ec; [|discriminate]. injection Hci0 as <-.
    destruct (is_terminal O ci (root st) (rootv st)) eqn:Eterm; [intros E; injection E as <-; exact Hn|].
    pose proof Hj as [H1 H2 H3 H4 H5].
    destruct (satisfier_search O (terms ci) (ps st) (store st)) as [[p [Lv|cause]]|] eqn:Es; [| |discriminate].
    - destruct (backtrack O st cur chg Lv) as [st2|] eqn:Eb; [|discriminate].
      intros E. injection E as <-. split; [|exact Hcur]. eapply backtrack_nr; [exact H2|exact Hn|exact Eb].
    - destruct (nth_error (store st) cause) as [cj|] eqn:Ej; [|discriminate].
      destruct (prior_cause O cur cause (terms ci) (terms cj) p) as [pc|] eqn:Epc; [|discriminate].
      cbn [alloc]. pose proof (SolverSound.prior_cause_kind O _ _ _ _ _ _ Epc) as Hk.
      assert (Hcz : cause <> 0).
      { intros ->. rewrite (ssame_zero_terminal st cur ci p Hj (proj2 (proj2 Hn)) Ec Es) in Eterm. discriminate. }
      destruct (satisfier_search_same _ _ _ _ _ _ Es) as (a & dd & Hga & Hdd & Hcause).
      pose proof (resolve_sat O L reg r rv st cur cause ci cj p pc a dd Hj Ec Ej Hsat Hga Hdd Hcause Epc) as Hsat2.
      apply IH.
      + eapply store_J; [exact Hj|reflexivity|exists [pc]; reflexivity|].
        destruct H1 as [Hok Hw]. split; [|exact Hw].
        apply (alloc_ok O L reg r rv st pc Hok). exact (J_der _ _ _ _ _ _ _ cur cause ci cj p Ec Ej Epc).
      + exists pc. cbn [store ps]. split; [apply nth_error_snoc|exact Hsat2].
      + intros _. exists pc, cur, cause. cbn [store]. split; [apply nth_error_snoc|exact Hk].
      + destruct Hn as (S1 & C1 & P1). split; [|split; [exact C1|exact P1]]. cbn [store].
        apply nr_store_app; [exact S1|]. constructor; [|constructor]. split.
        * intros p0 v0. rewrite Hk. discriminate.
        * intros a0 b0 E. rewrite Hk in E. injection E as <- <-. auto.
      + pose proof (nr_store_len _ (proj1 Hn)). lia.
  Qed.

  (* ---------------------------------------------------------------- the scan, unit propagation *)
  Lemma scan_nr ids : forall st buffer st' b' c,
    jinv st -> nr_inv st -> scan_incompats O ids st buffer = Good (st', b', c) ->
    nr_inv st' /\ forall id, c = Some id -> id <> 0.
  Proof.
    induction ids as [|id ids IH]; intros st buffer st' b' c Hj Hn; cbn [scan_incompats].
    { intros E. injection E as <- <- <-. split; [exact Hn|discriminate]. }
    destruct (cached id (contradicted st)) eqn:Ecd; [now apply IH|].
    assert (Hid : id <> 0) by (eapply cached0; [exact (proj1 (proj2 Hn))|exact Ecd]).
    unfold Solver.bind, Solver.req. destruct (nth_error (store st) id) as [ci|] eqn:Ec; [|discriminate].
    pose proof Hj as [H1 H2 H3 H4 H5].
    assert (Wc : twf_all O L (terms ci)) by exact (store_just_wf O L reg r rv st id ci (proj1 H1) Ec).
    pose proof (relation_sat_now O L (ps st) (terms ci) (proj2 H1) Wc) as Hrel.
    destruct Hn as (S1 & C1 & P1).
    destruct (relation O (terms ci) (term_for (ps st))) as [| |q|].
    - intros E. injection E as <- <- <-. split; [split; auto|]. intros id0 E0. injection E0 as <-. exact Hid.
    - apply IH; [now apply cache_J|]. split; [exact S1|]. split; [now apply cache_keep0|exact P1].
    - destruct (add_derivation O (ps st) q id (terms ci)) as [p'|] eqn:Ed; [|discriminate].
      apply IH; [eapply deriv_J; eauto|]. split; [exact S1|]. split; [now apply cache_keep0|].
      eapply nr_ps_add_derivation; eauto.
    - apply IH; [exact Hj|split; auto].
  Qed.

  Lemma up_nr fuel : forall st buffer res,
    jinv st -> nr_inv st -> unit_propagation O fuel st buffer = inl res ->
    match res with UPOk st' => nr_inv st' | UPConflict st' _ => nr_inv st' end.
  Proof.
    induction fuel as [|fuel IH]; intros st buffer res Hj Hn; cbn [unit_propagation]; [discriminate|].
    destruct (rev buffer) as [|cur rest]; [intros E; injection E as <-; exact Hn|].
    destruct (get cur (index st)) as [ids|]; [|discriminate].
    destruct (scan_incompats O (rev ids) st (rev rest)) as [[[st1 b2] [conflict|]]|] eqn:Es; [| |discriminate].
    - destruct (scan_J O L reg r rv _ _ _ _ _ _ Hj Es) as [Hj1 Hc1].
      destruct (scan_nr _ _ _ _ _ _ Hj Hn Es) as [Hn1 Hz].
      destruct (conflict_resolution O fuel st1 conflict false) as [[st2 q rc|st2 id]|] eqn:Ecr; [| |discriminate].
      + destruct (cr_J O L veqb reg r rv fuel st1 conflict false st2 q rc Hj1 (Hc1 _ eq_refl) ltac:(discriminate) Ecr)
          as [Hj2 (rci0 & Hrc0 & Hsat)].
        destruct (cr_nr fuel st1 conflict false _ Hj1 (Hc1 _ eq_refl) ltac:(discriminate) Hn1 (Hz _ eq_refl) Ecr)
          as [(S2 & C2 & P2) Hrc].
        destruct (nth_error (store st2) rc) as [rci|] eqn:Erc; [|discriminate]. injection Hrc0 as <-.
        destruct (add_derivation O (ps st2) q rc (terms rci)) as [p'|] eqn:Ed; [|discriminate].
        apply IH; [eapply deriv_J; eauto|]. split; [exact S2|]. split; [now apply cache_keep0|].
        eapply nr_ps_add_derivation; eauto.
      + intros E. injection E as <-.
        exact (cr_nr fuel st1 conflict false _ Hj1 (Hc1 _ eq_refl) ltac:(discriminate) Hn1 (Hz _ eq_refl) Ecr).
    - apply IH; [exact (proj1 (scan_J O L reg r rv _ _ _ _ _ _ Hj Es))|exact (proj1 (scan_nr _ _ _ _ _ _ Hj Hn Es))].
  Qed.

  (* ---------------------------------------------------------------- the first iteration *)
  Definition NPre (st : state) (next : pkg) : Prop :=
    (st = state_init O r rv /\ next = r) \/ nr_inv st.

  Lemma NPre_store st next : NPre st next -> nr_store (store st).
  Proof. intros [[-> _]|H]; [exact nr_store_init|exact (proj1 H)]. Qed.

  Lemma up_nr_entry fuel st next res :
    jinv st -> NPre st next -> unit_propagation O fuel st [next] = inl res ->
    match res with UPOk st' => nr_inv st' | UPConflict st' _ => nr_inv st' end.
  Proof.
    intros Hj [[-> ->]|Hn]; [|now apply up_nr].
    destruct fuel as [|fuel]; [discriminate|].
    assert (Hix : get r (index (state_init O r rv)) = Some [0]) by (cbn; now rewrite N.eqb_refl).
    remember (state_init O r rv) as st0 eqn:E0.
    cbn [unit_propagation rev app]. rewrite Hix. cbn [rev app]. rewrite E0, scan_init, <- E0.
    destruct (add_derivation O (ps st0) r 0 (terms (not_root O r rv))) as [p'|] eqn:Ed; [|discriminate].
    cbn [Solver.bind].
    assert (Hn : nth_error (store st0) 0 = Some (not_root O r rv)) by (now rewrite E0).
    intros E. eapply up_nr; [| |exact E].
    - eapply deriv_J; [exact Hj|exact Hn| |exact Ed].
      intros x t [Hin|[]] Hne. injection Hin as <- _. congruence.
    - pose proof (add_derivation_gidx O _ _ _ _ _ Ed) as Eg.
      destruct (add_derivation_get O _ _ _ _ _ Ed) as (ct & a' & Hct & Elv & _ & Hget & Hcase).
      cbn [not_root terms get] in Hct. rewrite N.eqb_refl in Hct. injection Hct as <-.
      destruct Hcase as [(a & t & Hg & _)|(_ & -> & _)]; [rewrite E0 in Hg; discriminate|].
      cbn [upd_cache upd_ps store contradicted ps].
      split; [rewrite E0; exact nr_store_init|]. split; [rewrite Elv, E0; cbn; now left|].
      change (nr_ps p').
      assert (Hq : forall q a, get q (assignments p') = Some a ->
                     q = r /\ a = deriv_new (ps st0) 0 (Neg (vs_singleton O rv))).
      { intros q a Hg. rewrite Hget in Hg. destruct (N.eqb_spec q r) as [->|Hne].
        - injection Hg as <-. auto.
        - rewrite E0 in Hg. discriminate. }
      split; [lia|]. split.
      + intros q a dd Hg Hin _. destruct (Hq q a Hg) as [-> ->]. cbn [deriv_new derivs] in Hin.
        destruct Hin as [<-|[]]. cbn [d_gidx d_accum t_negate]. rewrite E0. auto.
      + intros q a l Hg _. exact (proj1 (Hq q a Hg)).
  Qed.

  (* ---------------------------------------------------------------- the main loop *)
  Lemma nr_inv_upd_ps st p' :
    nr_inv st -> nr_ps p' -> nr_inv (upd_ps st p').
  Proof. intros (S1 & C1 & _) P. split; [exact S1|]. split; [exact C1|exact P]. Qed.

  Lemma nr_inv_store_step st st' extra :
    nr_inv st -> ps st' = ps st -> contradicted st' = contradicted st -> store st' = store st ++ extra ->
    Forall good_entry extra -> nr_inv st'.
  Proof.
    intros (S1 & C1 & P1) Ep Ec Es Hg. split; [rewrite Es; now apply nr_store_app|]. split; [now rewrite Ec|now rewrite Ep].
  Qed.

  Local Ltac fin H := let E := fresh "E" in intros E; injection E as _ <- _ _; exact H.

  Lemma resolve_loop_nr fuel : forall st next added tr n log o st' log' cnt,
    jinv st -> NPre st next -> WellBehaved O reg tr ->
    resolve_loop O veqb fuel st next added tr n log = (o, st', log', cnt) -> nr_store (store st').
  Proof.
    induction fuel as [|fuel IH]; intros st next added tr n log o st' log' cnt Hj Hpre Hwb; cbn [resolve_loop];
      pose proof (NPre_store _ _ Hpre) as Hs0; [fin Hs0|].
    destruct tr as [|[ok| | |] tr1]; try (fin Hs0).
    destruct ok; cbn [negb]; [|fin Hs0].
    apply Forall_inv_tail in Hwb.
    destruct (unit_propagation O (S fuel) st [next]) as [[st1|st1 id]|[|s0]] eqn:Eup; try (fin Hs0).
    2:{ pose proof (up_nr_entry _ _ _ _ Hj Hpre Eup) as H1. cbn beta iota in H1.
        destruct (build_derivation_tree (store st1) id); fin (proj1 H1). }
    pose proof (up_nr_entry _ _ _ _ Hj Hpre Eup) as H1. cbn beta iota in H1.
    pose proof (up_J O L veqb reg r rv _ _ _ _ Hj Eup) as Hj1.
    pose proof (do_prioritize_wb O reg (pick_candidates (ps st1)) (queue (ps st1)) tr1 (S n) Hwb) as Hprio.
    destruct (do_prioritize O (pick_candidates (ps st1)) (queue (ps st1)) tr1 (S n)) as [[[q tr2] n2]|o0] eqn:Ep;
      [|fin (proj1 H1)].
    destruct (queue_max q) as [mx|] eqn:Eqm.
    2:{ unfold res_out. destruct (extract_solution (ps st1)) as [sol0|] eqn:Ex; fin (proj1 H1). }
    destruct tr2 as [|[| |p s ans|] tr3]; try (fin (proj1 H1)).
    destruct (get p q) as [[prio qs]|] eqn:Egp; [|fin (proj1 H1)].
    destruct (negb (Z.eqb prio mx)); [fin (proj1 H1)|].
    set (st2 := upd_ps st1 _).
    assert (Hj2 : jinv st2) by (apply queue_J; [exact Hj1|reflexivity|reflexivity|reflexivity]).
    assert (H2 : nr_inv st2).
    { apply nr_inv_upd_ps; [exact H1|]. eapply nr_ps_ext; [| |exact (proj2 (proj2 H1))]; reflexivity. }
    pose proof (proj1 H2) as Hs2.
    pose proof (Forall_inv Hprio) as Hev. apply Forall_inv_tail in Hprio.
    destruct (term_for (ps st2) p) as [ti|] eqn:Eti; [|fin Hs2].
    destruct ti as [cur_set|cur_set]; [|fin Hs2].
    destruct (vs_eqb O s cur_set) eqn:Es; cbn [negb]; [|fin Hs2].
    apply (vs_eqb_spec O L) in Es. subst s.
    pose proof Hj2 as [Hok2 Hlay2 _ _ _].
    assert (Wcur : wf O L cur_set) by exact (term_for_wf O L _ _ _ (proj2 Hok2) Eti).
    destruct ans as [v| |]; [| |fin Hs2].
    - (* a version was chosen *)
      destruct (negb (t_contains O (Pos cur_set) v)); [fin Hs2|].
      destruct (added_has veqb added p v) eqn:Eah.
      + unfold res_out. destruct (add_decision O (ps st2) p v) as [p'|] eqn:Ed; [|fin Hs2].
        intros E. eapply IH; [| |exact Hprio|exact E].
        * eapply decide_J; eauto.
        * right. apply nr_inv_upd_ps; [exact H2|]. eapply nr_ps_add_decision; [exact Hlay2|exact (proj2 (proj2 H2))|exact Ed].
      + destruct tr3 as [|[| | |p0 v0 dans] tr4]; try (fin Hs2).
        destruct (N.eqb_spec p p0) as [<-|]; cbn [andb negb]; [|fin Hs2].
        destruct (veqb v v0) eqn:Ev; cbn [negb]; [|fin Hs2].
        apply veqb_eq in Ev. subst v0.
        pose proof (Forall_inv Hprio) as Hev2. apply Forall_inv_tail in Hprio.
        destruct dans as [deps|m|]; [| |fin Hs2].
        * (* dependencies available *)
          unfold res_out.
          destruct (add_incompatibility_from_dependencies O st2 p v deps) as [[st3 range]|] eqn:Ea; [|fin Hs2].
          cbn in Hev2. destruct Hev2 as (ds' & Hd & Hiff).
          assert (Hdeps : forall qd sd, In (qd, sd) deps -> wf O L sd /\ declares O reg p (vs_singleton O v) qd sd).
          { intros qd sd Hin. apply Hiff in Hin. split; [exact (Hregwf _ _ _ _ _ Hd Hin)|].
            eapply declares_singleton; eauto. }
          destruct (add_from_dependencies_nr _ _ _ _ _ _ Ea) as (Eps & Ecc & extra & Est & Hgd).
          assert (Hok3 : full_ok st3).
          { split; [eapply add_from_dependencies_ok; [exact (proj1 Hok2)|exact Hdeps|exact Ea]|rewrite Eps; exact (proj2 Hok2)]. }
          assert (Hj3 : jinv st3) by (eapply store_J; [exact Hj2|exact Eps|eauto|exact Hok3]).
          assert (H3 : nr_inv st3) by (eapply nr_inv_store_step; eauto).
          destruct (add_version O (ps st3) p v range (store st3)) as [p'|] eqn:Eav; [|fin (proj1 H3)].
          intros E.
          assert (Hboth : jinv (upd_ps st3 p') /\ nr_inv (upd_ps st3 p')).
          { assert (Hdc : add_decision O (ps st3) p v = Good p' -> jinv (upd_ps st3 p') /\ nr_inv (upd_ps st3 p')).
            { intros Ed. split.
              - eapply decide_J; [exact Hj3| |exact Ed]. rewrite Eps. exact Eti.
              - apply nr_inv_upd_ps; [exact H3|]. eapply nr_ps_add_decision; [|exact (proj2 (proj2 H3))|exact Ed].
                rewrite Eps. exact Hlay2. }
            unfold add_version in Eav. destruct (negb (backtracked (ps st3))); [auto|].
            destruct (forallb _ _); [auto|]. injection Eav as <-. split.
            - apply queue_J; [exact Hj3|reflexivity|reflexivity|reflexivity].
            - apply nr_inv_upd_ps; [exact H3|exact (proj2 (proj2 H3))]. }
          eapply IH; [exact (proj1 Hboth)|right; exact (proj2 Hboth)|exact Hprio|exact E].
        * (* dependencies unavailable *)
          unfold res_out.
          destruct (add_incompatibility O st2 (custom_version O p v m)) as [st3|] eqn:Ea; [|fin Hs2].
          cbn in Hev2.
          assert (Hext : ext_ok (custom_version O p v m)).
          { unfold SolverStore.ext_ok. cbn [ikind custom_version]. split; [reflexivity|]. exists v. split; [reflexivity|exact Hev2]. }
          assert (Hgi : good_entry (custom_version O p v m)) by (split; intros; cbn; discriminate).
          destruct (add_incompatibility_nr _ _ _ Hgi Ea) as (Eps & Ecc & extra & Est & Hgd).
          assert (Hok3 : full_ok st3).
          { split; [eapply add_incompatibility_ok; [exact (proj1 Hok2)|exact Hext|exact Ea]|]. rewrite Eps. exact (proj2 Hok2). }
          intros E. eapply IH; [|right|exact Hprio|exact E].
          -- eapply store_J; [exact Hj2|exact Eps|eauto|exact Hok3].
          -- eapply nr_inv_store_step; eauto.
    - (* no version: the NoVersions incompatibility *)
      cbn [no_versions]. unfold res_out.
      destruct (add_incompatibility O st2 _) as [st3|] eqn:Ea; [|fin Hs2].
      cbn in Hev.
      assert (Hext : ext_ok {| terms := [(p, Pos cur_set)]; ikind := KNoVersions p cur_set |}).
      { unfold SolverStore.ext_ok. cbn [ikind]. split; [reflexivity|]. split; [exact Wcur|exact Hev]. }
      assert (Hgi : good_entry {| terms := [(p, Pos cur_set)]; ikind := KNoVersions p cur_set |})
        by (split; intros; cbn; discriminate).
      destruct (add_incompatibility_nr _ _ _ Hgi Ea) as (Eps & Ecc & extra & Est & Hgd).
      assert (Hok3 : full_ok st3).
      { split; [eapply add_incompatibility_ok; [exact (proj1 Hok2)|exact Hext|exact Ea]|]. rewrite Eps. exact (proj2 Hok2). }
      intros E. eapply IH; [|right|exact Hprio|exact E].
      + eapply store_J; [exact Hj2|exact Eps|eauto|exact Hok3].
      + eapply nr_inv_store_step; eauto.
  Qed.

  (* ---------------------------------------------------------------- theorems *)
  Theorem resolve_no_notroot_cause fuel tr o st log k :
    WellBehaved O reg tr -> resolve O veqb fuel r rv tr = (o, st, log, k) -> no_notroot_cause (store st).
  Proof.
    intros Hwb E. unfold resolve in E. apply nr_store_no_cause.
    eapply resolve_loop_nr; [apply jinv_init|left; split; reflexivity|exact Hwb|exact E].
  Qed.

  Theorem nosolution_tree_never_pairs fuel tr t st log k :
    WellBehaved O reg tr -> resolve O veqb fuel r rv tr = (ONoSolution t, st, log, k) -> nv_notroot_pair t = false.
  Proof.
    intros Hwb E.
    exact (nosolution_tree_no_pair O L veqb reg r rv Hregwf veqb_eq fuel tr t st log k Hwb E
             (resolve_no_notroot_cause fuel tr _ st log k Hwb E)).
  Qed.

  Theorem nosolution_tree_collapse_total fuel tr t st log k :
    WellBehaved O reg tr -> resolve O veqb fuel r rv tr = (ONoSolution t, st, log, k) ->
    exists t',
      collapse_no_versions O t = CTree t'
      /\ locally_entailed O (existing reg) t'
      /\ nv_true O (existing reg) t' /\ tree_wf O L t' /\ nv_survivors_ok t' /\ nv_notroot_pair t' = false
      /\ (forall e', In e' (leaves t') ->
            exists e, In e (leaves t)
              /\ forall a, existing reg a -> (violates O a (ext_terms O e) <-> violates O a (ext_terms O e')))
      /\ (forall a, existing reg a -> a r = Some rv -> violates O a (node_terms O t')).
  Proof.
    intros Hwb E.
    exact (nosolution_tree_collapses O L veqb reg r rv Hregwf veqb_eq fuel tr t st log k Hwb E
             (nosolution_tree_never_pairs fuel tr t st log k Hwb E)).
  Qed.

End NoPair.

Print Assumptions resolve_no_notroot_cause.
Print Assumptions nosolution_tree_never_pairs.
Print Assumptions nosolution_tree_collapse_total.

(* ---------------------------------------------------------------- non-vacuity *)
(* run 1 of Proofs/SolverExamples.v over Range<Z> ends in NoSolution with a tree holding a NoVersions leaf; the
   three theorems apply to it (the store fact, the absence of a pair and the success of the collapse are obtained
   FROM the theorems, only the run itself is computed) *)
From PG Require Import Model.Instances Proofs.SolverExamples.

Example run1_collapse_total :
  exists t st log t',
    resolve zvs Z.eqb 100 0%N 2%Z tr1 = (ONoSolution t, st, log, 8)
    /\ has_nv t = true /\ no_notroot_cause (store st) /\ nv_notroot_pair t = false
    /\ collapse_no_versions zvs t = CTree t'.
Proof.
  assert (E : exists t st log, resolve zvs Z.eqb 100 0%N 2%Z tr1 = (ONoSolution t, st, log, 8) /\ has_nv t = true)
    by (vm_compute; do 3 eexists; split; reflexivity).
  destruct E as (t & st & log & E & Hnv).
  destruct (nosolution_tree_collapse_total zvs zlaw Z.eqb reg1 0%N 2%Z reg1_wf zeqb_eq 100 tr1 t st log 8 tr1_wb E)
    as (t' & C & _).
  exists t, st, log, t'. split; [exact E|]. split; [exact Hnv|]. split; [|split; [|exact C]].
  - exact (resolve_no_notroot_cause zvs zlaw Z.eqb reg1 0%N 2%Z reg1_wf zeqb_eq 100 tr1 _ st log 8 tr1_wb E).
  - exact (nosolution_tree_never_pairs zvs zlaw Z.eqb reg1 0%N 2%Z reg1_wf zeqb_eq 100 tr1 t st log 8 tr1_wb E).
Qed.

Print Assumptions run1_collapse_total.
