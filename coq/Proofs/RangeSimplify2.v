(* C15: the general specification of simplify. *)
From Coq Require Import Orders OrdersFacts List Bool Lia PeanoNat.
From PG Require Import Model.Text Model.Range Proofs.PosOrder Proofs.RangeTables Proofs.RangeSem
  Proofs.RangeInter Proofs.RangeMore Proofs.RangeCompl Proofs.RangeCtors Proofs.RangeQueries Proofs.RangeSimplify.

Local Open Scope nat_scope.

Module RangeSimplify2P (V : UsualOrderedTypeFull).
  Module Export RS1 := RangeSimplifyP V.

  (* ---------- positions of the segments of a canonical range increase with the index ---------- *)
  Lemma canonical_nth_lt r : canonical r -> forall i j si sj,
    i < j -> nth_error r i = Some si -> nth_error r j = Some sj -> hi si <p lo sj.
  Proof.
    induction r as [|s r IH]; intros Hc i j si sj Hij Hi Hj; [destruct i; discriminate|].
    destruct Hc as (Hv & Ha & Hc). destruct j as [|j]; [lia|]. cbn in Hj.
    destruct i as [|i]; cbn in Hi.
    - injection Hi as <-. pose proof (canonical_above_all _ _ Hc Ha) as Hall. rewrite Forall_forall in Hall.
      apply gap_lt. apply Hall. eapply nth_error_In; eauto.
    - apply (IH Hc i j si sj); [lia|exact Hi|exact Hj].
  Qed.

  Lemma canonical_nth_valid r : canonical r -> forall i s, nth_error r i = Some s -> valid s.
  Proof.
    intros Hc i s Hi. pose proof (canonical_valid r Hc) as H. rewrite Forall_forall in H. apply H.
    eapply nth_error_In; eauto.
  Qed.

  Lemma canonical_nth_le r : canonical r -> forall i j si sj,
    i <= j -> nth_error r i = Some si -> nth_error r j = Some sj -> lo si <=p lo sj /\ hi si <=p hi sj.
  Proof.
    intros Hc i j si sj Hij Hi Hj. destruct (Nat.eq_dec i j) as [->|Hne].
    - rewrite Hi in Hj. injection Hj as <-. split; porder.
    - assert (Hlt : i < j) by lia. assert (H : hi si <p lo sj) by exact (canonical_nth_lt r Hc i j si sj Hlt Hi Hj).
      pose proof (canonical_nth_valid r Hc i si Hi) as V1. pose proof (canonical_nth_valid r Hc j sj Hj) as V2.
      unfold valid in *. split; porder.
  Qed.

  (* if some position of segment j lies at or below a position of segment i then j <= i *)
  Lemma canonical_nth_order r : canonical r -> forall i j si sj x y,
    nth_error r i = Some si -> nth_error r j = Some sj -> in_seg x si -> in_seg y sj -> x <=p y -> i <= j.
  Proof.
    intros Hc i j si sj x y Hi Hj [Hx1 Hx2] [Hy1 Hy2] Hxy.
    destruct (Nat.le_gt_cases i j) as [?|Hgt]; [assumption|]. exfalso.
    assert (H : hi sj <p lo si) by exact (canonical_nth_lt r Hc j i sj si Hgt Hj Hi). porder.
  Qed.

  (* ---------- version_locations ---------- *)
  Definition loc_ok (r : range) (v : V.t) (o : option nat) : Prop :=
    match o with
    | Some j => exists sg, nth_error r j = Some sg /\ in_seg (P v At) sg
    | None => ~ den r (P v At)
    end.

  Lemma loc_cursor_spec v : forall segs i dropped r,
    r = dropped ++ segs -> length dropped = i -> canonical r ->
    Forall (fun t => hi t <p P v At) dropped ->
    let '(o, i', segs') := loc_cursor v i segs in
    loc_ok r v o /\
    exists dropped', r = dropped' ++ segs' /\ length dropped' = i' /\
                     Forall (fun t => hi t <p P v At) dropped'.
  Proof.
    induction segs as [|s segs IH]; intros i dropped r Hr Hlen Hc Hd; cbn [loc_cursor].
    - split; [|exists dropped; auto]. cbn. intros (t & Hin & _ & Ht). subst r. rewrite app_nil_r in Hin.
      rewrite Forall_forall in Hd. specialize (Hd _ Hin). porder.
    - pose proof (within_bounds_spec v s) as Hw. destruct (within_bounds v s).
      + split; [|exists dropped; auto]. cbn. exists s. split; [|exact Hw].
        subst r i. rewrite nth_error_app2 by lia. now rewrite Nat.sub_diag.
      + split; [|exists dropped; auto]. cbn. intros (t & Hin & Ht1 & Ht2). subst r.
        apply in_app_or in Hin. destruct Hin as [Hin|Hin].
        * rewrite Forall_forall in Hd. specialize (Hd _ Hin). porder.
        * assert (Hcs : canonical (s :: segs)) by (eapply canonical_app_inv; eauto).
          assert (Hden : den (s :: segs) (P v At)) by (exists t; split; [exact Hin|split; assumption]).
          pose proof (canonical_den_ge_head _ _ _ Hcs Hden). fold (lo s) in Hw. porder.
      + destruct Hw as [Hw1 Hw2]. fold (hi s) in Hw2.
        apply (IH (S i) (dropped ++ [s]) r).
        * subst r. now rewrite <- app_assoc.
        * rewrite app_length. cbn. lia.
        * exact Hc.
        * apply Forall_app. split; [exact Hd|constructor; [exact Hw2|constructor]].
  Qed.

  Lemma le_pos v w : V.le v w -> P v At <=p P w At.
  Proof. intros H. apply ple_P. destruct (V.eq_dec v w); [right; subst; split; [reflexivity|discriminate]|left; VF.order]. Qed.

  Lemma version_locations_spec r : canonical r -> forall vs i segs dropped,
    r = dropped ++ segs -> length dropped = i -> Sorted.StronglySorted V.le vs ->
    (forall v, In v vs -> Forall (fun t => hi t <p P v At) dropped) ->
    Forall2 (loc_ok r) vs (version_locations i segs vs).
  Proof.
    intros Hc. induction vs as [|v vs IH]; intros i segs dropped Hr Hlen Hs Hd; cbn [version_locations]; [constructor|].
    pose proof (loc_cursor_spec v segs i dropped r Hr Hlen Hc (Hd v (or_introl eq_refl))) as H.
    destruct (loc_cursor v i segs) as [[o i'] segs']. destruct H as (Ho & dr' & Hr' & Hlen' & Hd').
    apply Sorted.StronglySorted_inv in Hs as [Hs Hall]. constructor; [exact Ho|].
    apply (IH i' segs' dr'); auto. intros w Hw. rewrite Forall_forall in Hall. specialize (Hall w Hw).
    eapply Forall_impl; [|exact Hd']. intros t Ht. cbn beta in *. pose proof (le_pos v w Hall). porder.
  Qed.

  (* ---------- groups ---------- *)
  Definition gstart (r : range) (s : option nat) : bnd := match s with None => Unb | Some j => fst (nth j r (Unb, Unb)) end.
  Definition gend (r : range) (e : option nat) : bnd := match e with None => Unb | Some j => snd (nth j r (Unb, Unb)) end.

  Lemma keep_segments_cons r g G : keep_segments r (g :: G) = (gstart r (fst g), gend r (snd g)) :: keep_segments r G.
  Proof. reflexivity. Qed.

  Lemma nth_of_nth_error (r : range) j sg : nth_error r j = Some sg -> nth j r (Unb, Unb) = sg.
  Proof. intros H. now apply nth_error_nth. Qed.

  (* a start option is fine w.r.t. segment j: it is "unbounded" or an index at or before j *)
  Definition start_ok (r : range) (s : option nat) (j : nat) : Prop :=
    match s with None => True | Some js => js <= j /\ exists sg, nth_error r js = Some sg end.

  Lemma start_lo r s j sj : canonical r -> start_ok r s j -> nth_error r j = Some sj -> lo_of (gstart r s) <=p lo sj.
  Proof.
    intros Hc Hs Hj. destruct s as [js|]; cbn; [|apply neginf_le].
    destruct Hs as (Hle & sg & Hsg). rewrite (nth_of_nth_error r js sg Hsg). fold (lo sg).
    exact (proj1 (canonical_nth_le r Hc js j sg sj Hle Hsg Hj)).
  Qed.

  (* strictly increasing witnesses: used for the bound on the number of segments *)
  Fixpoint reps_above (b : nat) (l : list nat) : Prop :=
    match l with [] => True | x :: l' => b <= x /\ reps_above (S x) l' end.

  Lemma reps_above_weaken b b' l : b' <= b -> reps_above b l -> reps_above b' l.
  Proof. destruct l as [|x l]; cbn; [auto|]. intros H [H1 H2]. split; [lia|exact H2]. Qed.

  Lemma reps_above_length l : forall b n, reps_above b l -> Forall (fun x => x < n) l -> length l + b <= n \/ l = [].
  Proof.
    induction l as [|x l IH]; intros b n H Hb; [now right|]. left.
    destruct H as [H1 H2]. inversion Hb as [|? ? Hx Hl]; subst.
    destruct (IH (S x) n H2 Hl) as [H| ->]; cbn in *; lia.
  Qed.

  (* ---------- the main induction over the group builder ---------- *)
  Section WithRange.
    Variable r : range.
    Hypothesis Hc : canonical r.

    Definition open_spec (locs : list (option nat)) : Prop :=
      forall ws s j sj w,
      Forall2 (loc_ok r) ws locs -> Sorted.StronglySorted V.le ws ->
      nth_error r j = Some sj -> in_seg (P w At) sj -> (forall w', In w' ws -> V.le w w') -> start_ok r s j ->
      let G := gal (Some (s, Some j)) locs in
      let S := keep_segments r G in
      canonical S
      /\ (exists e tl, S = (gstart r s, e) :: tl /\ hi sj <=p hi_of e)
      /\ (forall w', In w' ws -> (den S (P w' At) <-> den r (P w' At)))
      /\ (forall x, den S x -> lo_of (gstart r s) <=p x)
      /\ exists wit, length wit = length G /\ reps_above j wit /\ Forall (fun x => x < length r) wit.

    Definition closed_spec (locs : list (option nat)) : Prop :=
      forall ws u b,
      Forall2 (loc_ok r) ws locs -> Sorted.StronglySorted V.le ws ->
      ~ den r (P u At) -> (forall w', In w' ws -> V.le u w') ->
      (forall j sj, nth_error r j = Some sj -> P u At <p lo sj -> b <= j) ->
      let G := gal None locs in
      let S := keep_segments r G in
      canonical S
      /\ Forall (fun sg => P u At <p lo sg) S
      /\ (forall w', In w' ws -> (den S (P w' At) <-> den r (P w' At)))
      /\ exists wit, length wit = length G /\ reps_above b wit /\ Forall (fun x => x < length r) wit.

    Lemma not_in_seg_above (sg : seg) u w :
      in_seg (P w At) sg -> V.le w u -> ~ in_seg (P u At) sg -> hi sg <p P u At.
    Proof.
      intros [H1 H2] Hwu Hn. pose proof (le_pos w u Hwu).
      destruct (plt_dec (hi sg) (P u At)) as [?|Hle]; [assumption|]. exfalso. apply Hn. split; porder.
    Qed.

    Lemma not_in_seg_below (sg : seg) u w :
      in_seg (P w At) sg -> V.le u w -> ~ in_seg (P u At) sg -> P u At <p lo sg.
    Proof.
      intros [H1 H2] Huw Hn. pose proof (le_pos u w Huw).
      destruct (plt_dec (P u At) (lo sg)) as [?|Hle]; [assumption|]. exfalso. apply Hn. split; porder.
    Qed.

    Lemma not_den_not_in u j sj : ~ den r (P u At) -> nth_error r j = Some sj -> ~ in_seg (P u At) sj.
    Proof. intros Hn Hj Hin. apply Hn. exists sj. split; [eapply nth_error_In; eauto|exact Hin]. Qed.

    Lemma gal_both locs : open_spec locs /\ closed_spec locs.
    Proof.
      induction locs as [|o locs [IHo IHc]].
      - split.
        + intros ws s j sj w Hf Hs Hj Hw Hge Hst. inversion Hf; subst. cbn [gal]. cbn zeta.
          rewrite keep_segments_cons. cbn [keep_segments map fst snd gend].
          split; [cbn; repeat split; unfold valid, lo, hi; cbn; apply le_posinf|].
          split; [eexists _, _; split; [reflexivity|cbn; apply le_posinf]|].
          split; [intros w' []|]. split.
          * intros x Hx. apply den_cons in Hx. destruct Hx as [[Hx _]|Hx]; [exact Hx|destruct (den_nil _ Hx)].
          * exists [j]. split; [reflexivity|]. split; [cbn; auto|].
            constructor; [|constructor]. apply nth_error_Some. congruence.
        + intros ws u b Hf Hs Hn Hge Hb. inversion Hf; subst. cbn [gal keep_segments map]. cbn zeta.
          split; [exact I|]. split; [constructor|]. split; [intros w' []|]. exists []. cbn. auto.
      - split.
        + (* open state *)
          intros ws s j sj w Hf Hs Hj Hw Hge Hst. inversion Hf as [|w' o' ws' locs' Ho Hf']; subst.
          apply Sorted.StronglySorted_inv in Hs as [Hs' Hall]. rewrite Forall_forall in Hall.
          assert (Hww' : V.le w w') by (apply Hge; now left).
          destruct o as [j'|]; cbn [gal]; cbn zeta.
          * (* the next version is in segment j' *)
            destruct Ho as (sg' & Hj' & Hin').
            assert (Hjj' : j <= j') by (eapply (canonical_nth_order r Hc j j' sj sg'); eauto using le_pos).
            assert (Hst' : start_ok r s j').
            { destruct s as [js|]; cbn in *; [|exact I]. destruct Hst as (Hle & Hex). split; [lia|exact Hex]. }
            destruct (IHo ws' s j' sg' w' Hf' Hs' Hj' Hin' (fun x Hx => Hall x Hx) Hst')
              as (C1 & (e & tl & HS & He) & C3 & C4 & wit & W1 & W2 & W3).
            split; [exact C1|].
            pose proof (canonical_nth_le r Hc j j' sj sg' Hjj' Hj Hj') as [_ Hhi].
            split; [exists e, tl; split; [exact HS|porder]|].
            split; [|split; [exact C4|exists wit; split; [exact W1|split; [eapply reps_above_weaken; eauto|exact W3]]]].
            intros x [<-|Hx]; [|now apply C3].
            split; [intros _; exists sg'; split; [eapply nth_error_In; eauto|exact Hin']|].
            intros _. rewrite HS. apply den_cons. left. unfold in_seg, lo, hi; cbn [fst snd].
            pose proof (start_lo r s j' sg' Hc Hst' Hj') as Hlo. destruct Hin' as [Hi1 Hi2]. split; porder.
          * (* the next version is outside the range: the group is closed *)
            rewrite keep_segments_cons. cbn [fst snd gend].
            rewrite (nth_of_nth_error r j sj Hj).
            assert (Hu : hi sj <p P w' At) by (eapply not_in_seg_above; eauto using not_den_not_in).
            assert (Hbnd : forall j2 sj2, nth_error r j2 = Some sj2 -> P w' At <p lo sj2 -> S j <= j2).
            { intros j2 sj2 Hj2 Hlt. destruct (Nat.le_gt_cases (S j) j2) as [?|Hgt]; [assumption|]. exfalso.
              assert (Hle : j2 <= j) by lia.
              pose proof (canonical_nth_le r Hc j2 j sj2 sj Hle Hj2 Hj) as [Hl _].
              destruct Hw as [Hw1 _]. pose proof (le_pos w w' Hww'). porder. }
            destruct (IHc ws' w' (S j) Hf' Hs' Ho (fun x Hx => Hall x Hx) Hbnd) as (C1 & C2 & C3 & wit & W1 & W2 & W3).
            pose proof (start_lo r s j sj Hc Hst Hj) as Hlo. destruct Hw as [Hw1 Hw2].
            set (S' := keep_segments r (gal None locs)) in *.
            split.
            { cbn [canonical]. split; [unfold valid, lo, hi; cbn [fst snd]; fold (hi sj); porder|]. split; [|exact C1].
              destruct S' as [|t S'']; [exact I|]. cbn [above]. unfold hi at 1; cbn [snd]. fold (hi sj).
              inversion C2; subst. exists (P w' At). split; assumption. }
            split; [eexists _, _; split; [reflexivity|fold (hi sj); porder]|].
            split.
            { intros x [<-|Hx].
              - split; [|intros H; destruct (Ho H)]. intros H. exfalso. apply den_cons in H. destruct H as [[_ H]|H].
                + unfold hi in H; cbn [snd] in H. fold (hi sj) in H. porder.
                + destruct H as (t & Ht & Ht1 & _). rewrite Forall_forall in C2. specialize (C2 t Ht). porder.
              - rewrite den_cons, (C3 x Hx). split; [intros [[_ H]|H]; [|exact H]|auto].
                exfalso. unfold hi in H; cbn [snd] in H. fold (hi sj) in H.
                pose proof (le_pos w' x (Hall x Hx)). porder. }
            split.
            { intros x Hx. apply den_cons in Hx. destruct Hx as [[Hx _]|Hx]; [exact Hx|].
              destruct Hx as (t & Ht & Ht1 & _). rewrite Forall_forall in C2. specialize (C2 t Ht).
              pose proof (le_pos w w' Hww'). porder. }
            exists (j :: wit). split; [cbn; now rewrite W1|]. split; [cbn; auto|].
            constructor; [apply nth_error_Some; congruence|exact W3].
        + (* closed state *)
          intros ws u b Hf Hs Hn Hge Hb. inversion Hf as [|w' o' ws' locs' Ho Hf']; subst.
          apply Sorted.StronglySorted_inv in Hs as [Hs' Hall]. rewrite Forall_forall in Hall.
          assert (Huw' : V.le u w') by (apply Hge; now left).
          destruct o as [j'|]; cbn [gal]; cbn zeta.
          * (* a new group opens at segment j' *)
            destruct Ho as (sg' & Hj' & Hin').
            assert (Hst' : start_ok r (Some j') j') by (cbn; split; [lia|eauto]).
            destruct (IHo ws' (Some j') j' sg' w' Hf' Hs' Hj' Hin' (fun x Hx => Hall x Hx) Hst')
              as (C1 & (e & tl & HS & He) & C3 & C4 & wit & W1 & W2 & W3).
            assert (Hlt : P u At <p lo sg') by (eapply not_in_seg_below; eauto using not_den_not_in).
            assert (Hg : lo_of (gstart r (Some j')) = lo sg') by (cbn; now rewrite (nth_of_nth_error r j' sg' Hj')).
            split; [exact C1|]. split.
            { apply Forall_forall. intros t Ht.
              assert (Hd : den (keep_segments r (gal (Some (Some j', Some j')) locs)) (lo t)).
              { exists t. split; [exact Ht|]. split; [porder|].
                pose proof (canonical_valid _ C1) as Hv. rewrite Forall_forall in Hv. exact (Hv t Ht). }
              specialize (C4 _ Hd). rewrite Hg in C4. porder. }
            split.
            { intros x [<-|Hx]; [|now apply C3].
              split; [intros _; exists sg'; split; [eapply nth_error_In; eauto|exact Hin']|].
              intros _. rewrite HS. apply den_cons. left. unfold in_seg, lo, hi; cbn [fst snd].
              rewrite Hg. destruct Hin' as [Hi1 Hi2]. split; porder. }
            exists wit. split; [exact W1|]. split; [|exact W3].
            eapply reps_above_weaken; [|exact W2]. exact (Hb j' sg' Hj' Hlt).
          * (* another version outside the range *)
            pose proof (le_pos u w' Huw') as Hle.
            destruct (IHc ws' w' b Hf' Hs' Ho (fun x Hx => Hall x Hx)) as (C1 & C2 & C3 & wit & W1 & W2 & W3).
            { intros j2 sj2 Hj2 Hlt. apply (Hb j2 sj2 Hj2). porder. }
            split; [exact C1|]. split; [eapply Forall_impl; [|exact C2]; intros t Ht; cbn beta in *; porder|].
            split; [|exists wit; auto].
            intros x [<-|Hx]; [|now apply C3].
            split; [|intros H; destruct (Ho H)]. intros (t & Ht & Ht1 & _). exfalso.
            rewrite Forall_forall in C2. specialize (C2 t Ht). porder.
    Qed.
  End WithRange.

  (* ---------- simplify ---------- *)
  Theorem simplify_spec r vs :
    canonical r -> Sorted.StronglySorted V.le vs ->
    let s := simplify r vs in
    canonical s /\ (forall v, In v vs -> contains s v = contains r v) /\ length s <= length r.
  Proof.
    intros Hc Hs. cbn zeta. unfold simplify. destruct (as_singleton r); [repeat split; auto|].
    pose proof (version_locations_spec r Hc vs 0 r [] eq_refl eq_refl Hs (fun _ _ => Forall_nil _)) as Hf.
    set (locs := version_locations 0 r vs) in *.
    destruct (group_adjacent_locations locs) as [|g G] eqn:EG; [repeat split; auto|].
    rewrite <- EG. clear EG g G.
    assert (Main : let S := keep_segments r (group_adjacent_locations locs) in
                   canonical S /\ (forall v, In v vs -> (den S (P v At) <-> den r (P v At)))
                   /\ length (group_adjacent_locations locs) <= length r).
    { destruct locs as [|[j0|] locs']; inversion Hf as [|w0 o0 ws' l' Ho Hf']; subst; cbn [group_adjacent_locations]; cbn zeta.
      - split; [exact I|]. split; [intros v []|cbn; lia].
      - destruct Ho as (sg0 & Hj0 & Hin0). apply Sorted.StronglySorted_inv in Hs as [Hs' Hall]. rewrite Forall_forall in Hall.
        destruct (proj1 (gal_both r Hc locs') ws' None j0 sg0 w0 Hf' Hs' Hj0 Hin0 (fun x Hx => Hall x Hx) I)
          as (C1 & (e & tl & HS & He) & C3 & _ & wit & W1 & W2 & W3).
        split; [exact C1|]. split.
        + intros v [<-|Hv]; [|now apply C3].
          split; [intros _; exists sg0; split; [eapply nth_error_In; eauto|exact Hin0]|].
          intros _. rewrite HS. apply den_cons. left. unfold in_seg, lo, hi; cbn [fst snd gstart lo_of].
          destruct Hin0 as [_ Hi2]. split; [apply neginf_le|porder].
        + rewrite <- W1. destruct (reps_above_length wit j0 (length r) W2 W3) as [H| ->]; [lia|cbn; lia].
      - apply Sorted.StronglySorted_inv in Hs as [Hs' Hall]. rewrite Forall_forall in Hall.
        destruct (proj2 (gal_both r Hc locs') ws' w0 0 Hf' Hs' Ho (fun x Hx => Hall x Hx) (fun _ _ _ _ => Nat.le_0_l _))
          as (C1 & C2 & C3 & wit & W1 & W2 & W3).
        split; [exact C1|]. split.
        + intros v [<-|Hv]; [|now apply C3].
          split; [|intros H; destruct (Ho H)]. intros (t & Ht & Ht1 & _). exfalso.
          rewrite Forall_forall in C2. specialize (C2 t Ht). porder.
        + rewrite <- W1. destruct (reps_above_length wit 0 (length r) W2 W3) as [H| ->]; [lia|cbn; lia]. }
    cbn zeta in Main. destruct Main as (M1 & M2 & M3).
    split; [exact M1|]. split.
    - intros v Hv. apply eq_true_iff_eq. rewrite !contains_spec by assumption. now apply M2.
    - unfold keep_segments. now rewrite map_length.
  Qed.

End RangeSimplify2P.
