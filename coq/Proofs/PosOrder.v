(* The semantic domain of ranges: positions of a dense order around the versions
   (DESIGN.md 4.1).  [P v At] is the version [v] itself; [P v Before]/[P v After] stand for the points
   of a dense order immediately below / above [v]; plus two infinities.  Total order + [order] tactic. *)
From Coq Require Import Orders OrdersFacts OrdersTac List Bool.
From PG Require Import Model.Range.

Module PosOrder (V : UsualOrderedTypeFull).
  Module VF := OrderedTypeFullFacts V.
  Module Import M := RangeM V.

  Inductive side := Before | At | After.
  Inductive pos := NegInf | P (v : V.t) (s : side) | PosInf.

  Definition side_compare (a b : side) : comparison :=
    match a, b with
    | Before, Before | At, At | After, After => Eq
    | Before, _ => Lt
    | At, Before => Gt
    | At, After => Lt
    | After, _ => Gt
    end.

  Definition pos_compare (x y : pos) : comparison :=
    match x, y with
    | NegInf, NegInf => Eq
    | NegInf, _ => Lt
    | _, NegInf => Gt
    | PosInf, PosInf => Eq
    | PosInf, _ => Gt
    | _, PosInf => Lt
    | P v s, P w t => match V.compare v w with Eq => side_compare s t | c => c end
    end.

  Definition plt (x y : pos) : Prop := pos_compare x y = Lt.
  Definition ple (x y : pos) : Prop := pos_compare x y <> Gt.

  Lemma side_compare_spec a b : CompareSpec (a = b) (side_compare a b = Lt) (side_compare b a = Lt) (side_compare a b).
  Proof. destruct a, b; cbn; constructor; reflexivity. Qed.

  Lemma pos_compare_spec x y : CompareSpec (x = y) (plt x y) (plt y x) (pos_compare x y).
  Proof.
    unfold plt. destruct x as [|v s|], y as [|w t|]; cbn; try (constructor; reflexivity).
    destruct (V.compare_spec v w) as [E|L|G].
    - subst w. rewrite VF.compare_refl.
      destruct (side_compare_spec s t); constructor; congruence.
    - constructor. reflexivity.
    - constructor. apply VF.compare_lt_iff in G. now rewrite G.
  Qed.

  Lemma plt_irrefl x : ~ plt x x.
  Proof. unfold plt. destruct x as [|v s|]; cbn; try discriminate.
    rewrite VF.compare_refl. destruct s; discriminate. Qed.

  Lemma side_lt_trans a b c : side_compare a b = Lt -> side_compare b c = Lt -> side_compare a c = Lt.
  Proof. destruct a, b, c; cbn; congruence. Qed.

  Lemma plt_trans x y z : plt x y -> plt y z -> plt x z.
  Proof.
    unfold plt. destruct x as [|v s|], y as [|w t|], z as [|u r|]; cbn; try congruence.
    destruct (V.compare_spec v w), (V.compare_spec w u); try congruence; intros H1 H2.
    - subst. rewrite VF.compare_refl. eauto using side_lt_trans.
    - subst. apply VF.compare_lt_iff in H0. now rewrite H0.
    - subst. apply VF.compare_lt_iff in H. now rewrite H.
    - assert (V.lt v u) by VF.order. apply VF.compare_lt_iff in H3. now rewrite H3.
  Qed.

  Module PosO <: EqLtLe.
    Definition t := pos.
    Definition eq := @Logic.eq pos.
    Definition lt := plt.
    Definition le := ple.
  End PosO.

  Module PosTO <: IsTotalOrder PosO.
    Definition eq_equiv : Equivalence PosO.eq := eq_equivalence.
    #[global] Instance lt_strorder : StrictOrder PosO.lt.
    Proof. split; [exact plt_irrefl | exact plt_trans]. Qed.
    #[global] Instance lt_compat : Proper (PosO.eq ==> PosO.eq ==> iff) PosO.lt.
    Proof. intros a b -> c d ->. reflexivity. Qed.
    Lemma le_lteq x y : PosO.le x y <-> PosO.lt x y \/ PosO.eq x y.
    Proof.
      unfold PosO.le, PosO.lt, PosO.eq, ple. destruct (pos_compare_spec x y) as [E|L|G].
      - split; [now right|discriminate].
      - split; [now left|discriminate].
      - split; [congruence|]. intros [H| ->].
        + exfalso. exact (plt_irrefl _ (plt_trans _ _ _ H G)).
        + exfalso. exact (plt_irrefl _ G).
    Qed.
    Lemma lt_total x y : PosO.lt x y \/ PosO.eq x y \/ PosO.lt y x.
    Proof. destruct (pos_compare_spec x y); auto. Qed.
  End PosTO.

  Module PosTac := MakeOrderTac PosO PosTO.
  Ltac porder := unfold PosO.lt, PosO.le, PosO.eq in *; PosTac.order.

  Notation "x <p y" := (plt x y) (at level 70).
  Notation "x <=p y" := (ple x y) (at level 70).

  Lemma ple_lteq x y : x <=p y <-> x <p y \/ x = y.
  Proof. exact (PosTO.le_lteq x y). Qed.

  Lemma plt_total x y : x <p y \/ x = y \/ y <p x.
  Proof. exact (PosTO.lt_total x y). Qed.

  Lemma neginf_le x : NegInf <=p x.
  Proof. unfold ple. destruct x; discriminate. Qed.
  Lemma le_posinf x : x <=p PosInf.
  Proof. unfold ple. destruct x; discriminate. Qed.

  Lemma ple_dec x y : {x <=p y} + {y <p x}.
  Proof.
    unfold ple, plt. destruct (pos_compare x y) eqn:E.
    - left; discriminate.
    - left; discriminate.
    - right. destruct (pos_compare_spec x y); congruence.
  Qed.

  Lemma plt_dec x y : {x <p y} + {y <=p x}.
  Proof. destruct (ple_dec y x); [right|left]; assumption. Qed.

  Definition pmax (x y : pos) : pos := if ple_dec x y then y else x.
  Definition pmin (x y : pos) : pos := if ple_dec x y then x else y.

  Lemma pmax_spec x y : (x <=p y /\ pmax x y = y) \/ (y <p x /\ pmax x y = x).
  Proof. unfold pmax. destruct (ple_dec x y); auto. Qed.
  Lemma pmin_spec x y : (x <=p y /\ pmin x y = x) \/ (y <p x /\ pmin x y = y).
  Proof. unfold pmin. destruct (ple_dec x y); auto. Qed.

  (* positions of the two ends of a segment *)
  Definition lo_of (b : bnd) : pos :=
    match b with Incl v => P v At | Excl v => P v After | Unb => NegInf end.
  Definition hi_of (b : bnd) : pos :=
    match b with Incl v => P v At | Excl v => P v Before | Unb => PosInf end.

  Lemma lo_of_inj a b : lo_of a = lo_of b -> a = b.
  Proof. destruct a, b; cbn; congruence. Qed.
  Lemma hi_of_inj a b : hi_of a = hi_of b -> a = b.
  Proof. destruct a, b; cbn; congruence. Qed.

  (* unfolding the order on [P] positions into facts about versions *)
  Lemma plt_P v s w t :
    P v s <p P w t <-> V.lt v w \/ (v = w /\ side_compare s t = Lt).
  Proof.
    unfold plt; cbn. destruct (V.compare_spec v w) as [E|L|G].
    - subst. split; [auto|]. intros [H|[_ H]]; [VF.order|assumption].
    - split; auto.
    - split; [discriminate|]. intros [H|[H _]]; VF.order.
  Qed.

  Lemma ple_P v s w t :
    P v s <=p P w t <-> V.lt v w \/ (v = w /\ side_compare s t <> Gt).
  Proof.
    unfold ple; cbn. destruct (V.compare_spec v w) as [E|L|G].
    - subst. split; [auto|]. intros [H|[_ H]]; [VF.order|assumption].
    - split; [auto|discriminate].
    - split; [congruence|]. intros [H|[H _]]; VF.order.
  Qed.

  Lemma vltb_lt a b : vltb a b = true <-> V.lt a b.
  Proof. unfold vltb. destruct (V.compare_spec a b); split; try discriminate; auto; VF.order. Qed.
  Lemma vleb_le a b : vleb a b = true <-> V.le a b.
  Proof. unfold vleb. destruct (V.compare_spec a b); split; try discriminate; auto; VF.order. Qed.
  Lemma veqb_eq a b : veqb a b = true <-> a = b.
  Proof. unfold veqb. destruct (V.compare_spec a b); split; try discriminate; auto; VF.order. Qed.
  Lemma vltb_nlt a b : vltb a b = false <-> V.le b a.
  Proof. unfold vltb. destruct (V.compare_spec a b); split; try discriminate; auto; VF.order. Qed.
  Lemma vleb_nle a b : vleb a b = false <-> V.lt b a.
  Proof. unfold vleb. destruct (V.compare_spec a b); split; try discriminate; auto; VF.order. Qed.
  Lemma veqb_neq a b : veqb a b = false <-> a <> b.
  Proof. unfold veqb. destruct (V.compare_spec a b); split; try discriminate; auto; VF.order. Qed.

  (* a solver for goals about positions built from concrete constructors and version comparisons *)
  Ltac pos_simpl :=
    repeat match goal with
      | H : context [P _ _ <p P _ _] |- _ => rewrite plt_P in H
      | H : context [P _ _ <=p P _ _] |- _ => rewrite ple_P in H
      | |- context [P _ _ <p P _ _] => rewrite plt_P
      | |- context [P _ _ <=p P _ _] => rewrite ple_P
      end.

End PosOrder.
