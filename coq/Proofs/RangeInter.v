(* Correctness of intersection, is_disjoint, subset_of and contains on canonical ranges. *)
From Coq Require Import Orders OrdersFacts List Bool.
From PG Require Import Model.Range Proofs.PosOrder Proofs.RangeTables Proofs.RangeSem.

Module RangeInterP (V : UsualOrderedTypeFull).
  Module Export RS := RangeSemP V.

  Lemma inter_cons_cons ls le l' rs re r' :
    intersection ((ls, le) :: l') ((rs, re) :: r') =
    if left_end_is_smaller le re
    then inter_emit rs le ls rs ++ intersection l' ((rs, re) :: r')
    else inter_emit ls re ls rs ++ intersection ((ls, le) :: l') r'.
  Proof. reflexivity. Qed.

  Lemma inter_nil_r l : intersection l [] = [].
  Proof. destruct l as [|[? ?] ?]; reflexivity. Qed.

  Lemma emit_den o e ls rs x :
    den (inter_emit o e ls rs) x <->
    lo_of o <=p hi_of e /\ pmax (lo_of ls) (lo_of rs) <=p x /\ x <=p hi_of e.
  Proof.
    unfold inter_emit. destruct (valid_segment o e) eqn:E.
    - apply valid_segment_spec in E. rewrite den_cons. unfold in_seg, lo, hi; cbn [fst snd].
      rewrite inter_start_spec. split; [intros [H|H]; [tauto|destruct (den_nil _ H)]|tauto].
    - split; [intros H; destruct (den_nil _ H)|]. intros [H _]. apply valid_segment_spec in H. congruence.
  Qed.

  Lemma inter_lo l r :
    Forall (fun u => exists s t, In s l /\ In t r /\ lo u = pmax (lo s) (lo t)) (intersection l r).
  Proof.
    revert r; induction l as [|[ls le] l' IHl]; intros r; [constructor|].
    induction r as [|[rs re] r' IHr]; [rewrite inter_nil_r; constructor|].
    rewrite inter_cons_cons. destruct (left_end_is_smaller le re).
    - apply Forall_app; split.
      + unfold inter_emit. destruct (valid_segment rs le); constructor; [|constructor].
        exists (ls, le), (rs, re). repeat split; cbn; auto. unfold lo; cbn. apply inter_start_spec.
      + eapply Forall_impl; [|apply IHl]. intros u (s & t & H1 & H2 & H3). exists s, t. cbn; auto.
    - apply Forall_app; split.
      + unfold inter_emit. destruct (valid_segment ls re); constructor; [|constructor].
        exists (ls, le), (rs, re). repeat split; cbn; auto. unfold lo; cbn. apply inter_start_spec.
      + eapply Forall_impl; [|apply IHr]. intros u (s & t & H1 & H2 & H3). exists s, t. cbn; auto.
  Qed.

  Lemma inter_above_l h l r :
    Forall (fun s => gap h (lo s)) l -> Forall (fun s => gap h (lo s)) (intersection l r).
  Proof.
    intros H. eapply Forall_impl; [|apply inter_lo]. intros u (s & t & H1 & H2 & ->).
    rewrite Forall_forall in H. apply H in H1. eapply gap_mono; [exact H1|porder|].
    destruct (pmax_spec (lo s) (lo t)) as [[? ->]|[? ->]]; porder.
  Qed.

  Lemma inter_above_r h l r :
    Forall (fun s => gap h (lo s)) r -> Forall (fun s => gap h (lo s)) (intersection l r).
  Proof.
    intros H. eapply Forall_impl; [|apply inter_lo]. intros u (s & t & H1 & H2 & ->).
    rewrite Forall_forall in H. apply H in H2. eapply gap_mono; [exact H2|porder|].
    destruct (pmax_spec (lo s) (lo t)) as [[? ->]|[? ->]]; porder.
  Qed.

  Lemma above_of_forall h r : Forall (fun s => gap h (lo s)) r -> above h r.
  Proof. destruct r as [|s r]; [intros _; exact I|]. intros H. inversion H; subst. assumption. Qed.

  Lemma canonical_app_single s r : valid s -> above (hi s) r -> canonical r -> canonical ([s] ++ r).
  Proof. cbn. auto. Qed.

  Lemma intersection_canonical l r : canonical l -> canonical r -> canonical (intersection l r).
  Proof.
    revert r; induction l as [|[ls le] l' IHl]; intros r Hl Hr; [exact I|].
    induction r as [|[rs re] r' IHr]; [rewrite inter_nil_r; exact I|].
    rewrite inter_cons_cons.
    pose proof Hl as (Hvl & Hal & Hcl). pose proof Hr as (Hvr & Har & Hcr).
    unfold valid, lo, hi in Hvl, Hvr; cbn [fst snd] in Hvl, Hvr.
    destruct (left_end_is_smaller le re) eqn:E.
    - apply leis_spec in E. specialize (IHl _ Hcl Hr).
      unfold inter_emit. destruct (valid_segment rs le) eqn:Ev; [|exact IHl].
      apply valid_segment_spec in Ev. apply canonical_app_single; [| |exact IHl].
      + unfold valid, lo, hi; cbn [fst snd]. rewrite inter_start_spec.
        destruct (pmax_spec (lo_of ls) (lo_of rs)) as [[? ->]|[? ->]]; porder.
      + apply above_of_forall, inter_above_l. apply canonical_above_all; assumption.
    - assert (E' : hi_of re <p hi_of le).
      { destruct (plt_dec (hi_of re) (hi_of le)) as [?|Hge]; [assumption|]. apply leis_spec in Hge. congruence. }
      specialize (IHr Hcr).
      unfold inter_emit. destruct (valid_segment ls re) eqn:Ev; [|exact IHr].
      apply valid_segment_spec in Ev. apply canonical_app_single; [| |exact IHr].
      + unfold valid, lo, hi; cbn [fst snd]. rewrite inter_start_spec.
        destruct (pmax_spec (lo_of ls) (lo_of rs)) as [[? ->]|[? ->]]; porder.
      + apply above_of_forall, inter_above_r. apply canonical_above_all; assumption.
  Qed.

  Lemma intersection_den l r x :
    canonical l -> canonical r -> (den (intersection l r) x <-> den l x /\ den r x).
  Proof.
    revert r; induction l as [|[ls le] l' IHl]; intros r Hl Hr.
    - cbn. split; [intros H; destruct (den_nil _ H)|intros [H _]; exact H].
    - induction r as [|[rs re] r' IHr].
      + rewrite inter_nil_r. split; [intros H; destruct (den_nil _ H)|intros [_ H]; exact H].
      + rewrite inter_cons_cons.
        pose proof Hl as (Hvl & Hal & Hcl). pose proof Hr as (Hvr & Har & Hcr).
        unfold valid, lo, hi in Hvl, Hvr; cbn [fst snd] in Hvl, Hvr.
        destruct (left_end_is_smaller le re) eqn:E.
        * apply leis_spec in E. rewrite den_app, emit_den, (IHl _ Hcl Hr).
          rewrite (den_cons (ls, le) l'), (den_cons (rs, re) r').
          unfold in_seg, lo, hi; cbn [fst snd].
          split.
          -- intros [(H1 & H2 & H3)|[H1 H2]].
             ++ destruct (pmax_spec (lo_of ls) (lo_of rs)) as [[? Hm]|[? Hm]]; rewrite Hm in H2;
                  split; left; split; porder.
             ++ split; [right; exact H1|exact H2].
          -- intros [[[H1 H2]|H1] H3].
             ++ destruct H3 as [[H3 H4]|H3].
                ** left. repeat split; try porder.
                   destruct (pmax_spec (lo_of ls) (lo_of rs)) as [[? ->]|[? ->]]; porder.
                ** exfalso. pose proof (canonical_above_den _ _ _ Hcr Har H3) as Hx.
                   unfold hi in Hx; cbn [snd] in Hx. porder.
             ++ right. split; [exact H1|exact H3].
        * assert (E' : hi_of re <p hi_of le).
          { destruct (plt_dec (hi_of re) (hi_of le)) as [?|Hge]; [assumption|]. apply leis_spec in Hge. congruence. }
          rewrite den_app, emit_den, (IHr Hcr).
          rewrite (den_cons (rs, re) r').
          unfold in_seg, lo, hi; cbn [fst snd].
          split.
          -- intros [(H1 & H2 & H3)|[H1 H2]].
             ++ destruct (pmax_spec (lo_of ls) (lo_of rs)) as [[? Hm]|[? Hm]]; rewrite Hm in H2;
                  (split; [rewrite den_cons; left; split; cbn; porder|left; split; porder]).
             ++ split; [exact H1|right; exact H2].
          -- intros [H1 [[H3 H4]|H3]].
             ++ rewrite den_cons in H1. destruct H1 as [[H1 H2]|H1].
                ** unfold lo, hi in H1, H2; cbn [fst snd] in H1, H2. left. repeat split; try porder.
                   destruct (pmax_spec (lo_of ls) (lo_of rs)) as [[? ->]|[? ->]]; porder.
                ** exfalso. pose proof (canonical_above_den _ _ _ Hcl Hal H1) as Hx.
                   unfold hi in Hx; cbn [snd] in Hx. porder.
             ++ right. split; assumption.
  Qed.

End RangeInterP.
