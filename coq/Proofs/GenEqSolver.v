(* The Gallina text regenerated from the current Rust source of src/internal/incompatibility.rs by
   tools/translate.py (coq/Gen/IncompatCtors.v) — the external constructors not_root, custom_version and
   from_dependency (including the treatment of an empty set and of a dependency of a package on itself) — is equal
   to the hand-written model.  An edit of one of these constructors makes this proof fail. *)
From Coq Require Import List NArith.
From PG Require Import Model.VS Model.Term Model.Solver Gen.IncompatCtors.

Section GenIncEq.
  Context {VS Vr : Type} (O : VSOps VS Vr).

  Theorem incompat_ctors_match_source :
    (forall p v, gen_not_root O p v = not_root O p v)
    /\ (forall p v m, gen_custom_version O p v m = custom_version O p v m)
    /\ (forall p vs d, gen_from_dependency O p vs d = from_dependency O p vs d).
  Proof.
    split; [|split].
    - intros p v. reflexivity.
    - intros p v m. reflexivity.
    - intros p vs [q s]. reflexivity.
  Qed.
End GenIncEq.
