(* The Gallina text regenerated from the current Rust source of src/internal/incompatibility.rs by
   tools/translate.py (coq/Gen/IncompatCtors.v) — the external constructors not_root, custom_version and
   from_dependency (including the treatment of an empty set and of a dependency of a package on itself) — is equal
   to the hand-written model.  An edit of one of these constructors makes this proof fail.

   Likewise for coq/Gen/IncompatMethods.v: no_versions, is_terminal, merge_dependents and prior_cause, translated
   statement by statement from the parsed bodies (let, early return under if, `?`, method chains, closures, struct
   literal) into the panic monad of Model/Solver.v. *)
From Coq Require Import List NArith Bool.
From PG Require Import Model.VS Model.Term Model.Solver Gen.IncompatCtors Gen.IncompatMethods.
Import ListNotations.

Section GenIncEq.
  Context {VS Vr : Type} (O : VSOps VS Vr).

  Theorem incompat_ctors_match_source :
    (forall p v, gen_not_root O p v = not_root O p v)
    /\ (forall p v m, gen_custom_version O p v m = custom_version O p v m)
    /\ (forall p vs d, gen_from_dependency O p vs d = from_dependency O p vs d).
  Proof.
    split; [|split].
    - intros p v. reflexivity.
    - intros p v m. reflexivity.
    - intros p vs [q s]. reflexivity.
  Qed.

  (* `iter().filter(|(p, _)| p != &package)` of the source is the [remove] of the model *)
  Lemma filter_ne_remove : forall {A} (p : pkg) (m : list (pkg * A)),
    filter (fun '(q, _) => negb (N.eqb q p)) m = remove p m.
  Proof.
    intros A p m. induction m as [|[q a] r IH]; simpl; [reflexivity|].
    rewrite (N.eqb_sym q p). destruct (N.eqb p q); simpl; rewrite IH; reflexivity.
  Qed.

  (* is_terminal is translated in the panic monad (the source calls unwrap): it never panics *)
  Theorem gen_is_terminal_never_panics : forall (i : @incompat VS Vr) r v,
    gen_is_terminal_res O i r v = Good (is_terminal O i r v).
  Proof.
    intros [ts k] r v. unfold gen_is_terminal_res, is_terminal. simpl.
    destruct ts as [|[p t] [|e l]]; reflexivity.
  Qed.

  Theorem incompat_methods_match_source :
    (forall p (t : term VS), gen_no_versions (Vr := Vr) p t = no_versions p t)
    /\ (forall i r v, gen_is_terminal O i r v = is_terminal O i r v)
    /\ (forall a b, gen_merge_dependents O a b = merge_dependents O a b)
    /\ (forall i j ti tj p, gen_prior_cause O i j ti tj p = prior_cause O i j ti tj p).
  Proof.
    split; [|split; [|split]].
    - intros p t. reflexivity.
    - intros i r v. unfold gen_is_terminal. rewrite gen_is_terminal_never_panics. reflexivity.
    - intros a b. unfold gen_merge_dependents, merge_dependents.
      destruct (as_dependency a) as [[p1 p2]|]; [|reflexivity].
      destruct (as_dependency b) as [[q1 q2]|]; reflexivity.
    - intros i j ti tj p. unfold gen_prior_cause, prior_cause.
      destruct (get p ti) as [t1|]; [|reflexivity]. simpl.
      rewrite filter_ne_remove.
      destruct (get p tj) as [t2|]; [|reflexivity]. simpl.
      destruct (t_eqb O (t_union O t1 t2) (t_any O)); reflexivity.
  Qed.

  (* gen_merge_dependents binds the panicking operations of one statement in a canonical order (all `.unwrap()` first, then
     unwrap_positive / unwrap_negative, then map_or with a panicking closure) — the order of the model.  Rust evaluates them
     depth first; gen_merge_dependents_src is the same translation in that order.  The two agree on every value and on
     WHETHER there is a panic; they can differ only in which panic site is reported. *)
  Definition same_up_to_site {A} (x y : res A) : Prop :=
    match x, y with
    | Good a, Good b => a = b
    | Panic _, Panic _ => True
    | _, _ => False
    end.

  Theorem merge_dependents_source_order : forall a b,
    same_up_to_site (gen_merge_dependents_src O a b) (merge_dependents O a b).
  Proof.
    intros a b. unfold gen_merge_dependents_src, merge_dependents.
    destruct (as_dependency a) as [[p1 p2]|]; [|reflexivity].
    destruct (as_dependency b) as [[q1 q2]|]; [|reflexivity]. simpl.
    destruct (negb (N.eqb p1 q1 && N.eqb p2 q2)); [reflexivity|].
    destruct (N.eqb p1 p2); [reflexivity|].
    destruct (negb (opt_term_eqb O (get p2 (terms a)) (get p2 (terms b)))); [reflexivity|].
    destruct (get p1 (terms a)) as [[s1|s1]|]; destruct (get p1 (terms b)) as [[s2|s2]|]; simpl; try exact I;
      destruct (get p2 (terms a)) as [[d|d]|]; simpl; try exact I; reflexivity.
  Qed.
End GenIncEq.

Print Assumptions incompat_methods_match_source.
Print Assumptions gen_is_terminal_never_panics.
Print Assumptions merge_dependents_source_order.
