(* Table lemmas: every comparison table of range.rs is a comparison of positions (DESIGN.md 4.1).
   This is where each table entry of the model is verified. *)
From Coq Require Import Orders OrdersFacts List Bool.
From PG Require Import Model.Range Proofs.PosOrder.

Module RangeTablesP (V : UsualOrderedTypeFull).
  Module Export PO := PosOrder V.
  Export PO.M.

  Ltac cmp_cases :=
    repeat match goal with
      | |- context [V.compare ?a ?b] => destruct (V.compare_spec a b); subst
      | H : context [V.compare ?a ?b] |- _ => destruct (V.compare_spec a b); subst
      end.

  Ltac fin :=
    try solve [ reflexivity | discriminate | congruence | tauto
              | exfalso; VF.order | exfalso; congruence
              | intuition (try discriminate; try congruence; try (exfalso; VF.order)) ].

  Ltac table := unfold plt, ple; cbn; unfold vltb, vleb, veqb; cbn; cmp_cases; fin.

  Lemma valid_segment_spec s e : valid_segment s e = true <-> lo_of s <=p hi_of e.
  Proof. destruct s, e; table. Qed.

  Lemma lsis_spec l r : left_start_is_smaller l r = true <-> lo_of l <=p lo_of r.
  Proof. destruct l, r; table. Qed.

  Lemma leis_spec l r : left_end_is_smaller l r = true <-> hi_of l <=p hi_of r.
  Proof. destruct l, r; table. Qed.

  Lemma cmp_bounds_start_spec l r : cmp_bounds_start l r = pos_compare (lo_of l) (lo_of r).
  Proof. destruct l, r; cbn; cmp_cases; fin. Qed.

  Lemma cmp_bounds_end_spec l r : cmp_bounds_end l r = pos_compare (hi_of l) (hi_of r).
  Proof. destruct l, r; cbn; cmp_cases; fin. Qed.

  Lemma within_bounds_spec v sg :
    match within_bounds v sg with
    | Lt => P v At <p lo_of (fst sg)
    | Eq => lo_of (fst sg) <=p P v At /\ P v At <=p hi_of (snd sg)
    | Gt => lo_of (fst sg) <=p P v At /\ hi_of (snd sg) <p P v At
    end.
  Proof. destruct sg as [[s|s|] [e|e|]]; unfold within_bounds; table. Qed.

  (* a gap: some position lies strictly between the end and the next start *)
  Definition gap (h l : pos) : Prop := exists x, h <p x /\ x <p l.

  Lemma gap_spec e s : end_before_start_with_gap e s = true <-> gap (hi_of e) (lo_of s).
  Proof.
    unfold gap. destruct e as [l|l|], s as [r|r|]; cbn [end_before_start_with_gap hi_of lo_of].
    - rewrite vltb_lt. split.
      + intros H. exists (P l After). pos_simpl. cbn. auto.
      + intros [[|w t|] [H1 H2]]; try discriminate. pos_simpl. destruct t; cbn in *; intuition (try discriminate; subst; VF.order).
    - rewrite vltb_lt. split.
      + intros H. exists (P l After). pos_simpl. cbn. auto.
      + intros [[|w t|] [H1 H2]]; try discriminate. pos_simpl. destruct t; cbn in *; intuition (try discriminate; subst; try VF.order).
    - split; [discriminate|]. intros [[|w t|] [H1 H2]]; discriminate.
    - rewrite vltb_lt. split.
      + intros H. exists (P l At). pos_simpl. cbn. auto.
      + intros [[|w t|] [H1 H2]]; try discriminate. pos_simpl. destruct t; cbn in *; intuition (try discriminate; subst; try VF.order).
    - rewrite vleb_le. split.
      + intros H. exists (P l At). pos_simpl. cbn. split; [auto|]. destruct (V.eq_dec l r); [subst; auto|]. left. VF.order.
      + intros [[|w t|] [H1 H2]]; try discriminate. pos_simpl. destruct t; cbn in *; intuition (try discriminate; subst; try VF.order).
    - split; [discriminate|]. intros [[|w t|] [H1 H2]]; discriminate.
    - split; [discriminate|]. intros [[|w t|] [H1 H2]]; discriminate.
    - split; [discriminate|]. intros [[|w t|] [H1 H2]]; discriminate.
    - split; [discriminate|]. intros [[|w t|] [H1 H2]]; discriminate.
  Qed.

  Lemma acc_end_spec a s : hi_of (acc_end a s) = pmax (hi_of a) (hi_of s).
  Proof.
    destruct (pmax_spec (hi_of a) (hi_of s)) as [[H ->]|[H ->]]; revert H;
      destruct a, s; unfold acc_end; table.
  Qed.

  Lemma inter_start_spec l r : lo_of (inter_start l r) = pmax (lo_of l) (lo_of r).
  Proof.
    destruct (pmax_spec (lo_of l) (lo_of r)) as [[H ->]|[H ->]]; revert H;
      destruct l, r; unfold inter_start, vmax; table.
  Qed.

  Lemma flip_lo_hi b : b <> Unb -> forall x, x <p lo_of b <-> x <=p hi_of (flip b).
  Proof.
    intros Hb x. destruct b as [v|v|]; [| |congruence]; cbn [flip lo_of hi_of];
      destruct x as [|w [| |]|]; unfold plt, ple; cbn; cmp_cases; cbn; fin.
  Qed.

  Lemma flip_hi_lo b : b <> Unb -> forall x, hi_of b <p x <-> lo_of (flip b) <=p x.
  Proof.
    intros Hb x. destruct b as [v|v|]; [| |congruence]; cbn [flip lo_of hi_of];
      destruct x as [|w [| |]|]; unfold plt, ple; cbn; cmp_cases; cbn; fin.
  Qed.

  Lemma bound_unb_dec (b : bnd) : {b = Unb} + {b <> Unb}.
  Proof. destruct b; [right|right|left]; congruence. Qed.

  Lemma range_eqb_spec a b : range_eqb a b = true <-> a = b.
  Proof.
    assert (Hb : forall x y : bnd, bound_eqb x y = true <-> x = y).
    { intros [x|x|] [y|y|]; cbn; rewrite ?veqb_eq; split; try discriminate; try congruence; auto. }
    revert b; induction a as [|[s1 e1] a IH]; intros [|[s2 e2] b]; cbn [range_eqb];
      try (split; [discriminate|discriminate]); [tauto|].
    rewrite !andb_true_iff, !Hb, IH. split; [intros [[-> ->] ->]; reflexivity|].
    intros H; injection H as -> -> ->. auto.
  Qed.

End RangeTablesP.
