(* C05 (model side), termination, part 5: unit propagation does not run out of fuel.
   The extra invariant [xinv] (every set in the ranked subalgebra, every package in [pkgs]; no empty term;
   distinct global indices) through conflict resolution ([cr_T]), the scan ([scan_T]) and unit propagation
   ([up_T]); the potential [Phi] increases with every derivation, and [need st buffer] bounds the fuel. *)
From Coq Require Import List NArith ZArith Bool Lia PeanoNat.
From PG Require Import Model.VS Model.Term Model.Solver Model.Registry Proofs.VSLaws Proofs.TermProofs
  Proofs.AssocProofs Proofs.SolverSem Proofs.SolverStore Proofs.SolverQueue Proofs.SolverSound1 Proofs.SolverSound2
  Proofs.SolverSound Proofs.SolverReach1 Proofs.SolverReach2 Proofs.SolverNoPanic1 Proofs.SolverNoPanic2
  Proofs.SolverProto2 Proofs.SolverTerm1 Proofs.SolverTerm2 Proofs.SolverTerm3 Proofs.SolverTerm4.
Import ListNotations.

Section Term5.
  Context {VS Vr : Type} (O : VSOps VS Vr) (L : VSLawful O) (veqb : Vr -> Vr -> bool).
  Context (reg : registry (VS := VS) (Vr := Vr)) (r : pkg) (rv : Vr).
  Hypothesis Hat : singleton_atomic O L.
  Variable R : Ranked O L.
  Variable pkgs : list pkg.

  Notation tm := (term VS).
  Notation pa := (@pa VS Vr).
  Notation dated := (@dated VS).
  Notation psol := (@psol VS Vr).
  Notation state := (@state VS Vr).
  Notation incompat := (@incompat VS Vr).
  Notation jinv := (jinv O L reg r rv).
  Notation ninv := (ninv O L reg r rv).
  Notation rinv := (rinv O r rv).
  Notation ps_wf := (ps_wf O L).
  Notation twf := (twf O L).
  Notation twf_all := (twf_all O L).
  Notation tleU := (tleU O L).
  Notation sat_nowU := (sat_nowU O L).
  Notation cur_satU := (cur_satU O L).
  Notation talg := (talg O L R).
  Notation algI := (algI (alg R) pkgs).
  Notation tsA := (tsA (alg R) pkgs).
  Notation psA := (psA (alg R) pkgs).
  Notation NE := (NE O L).
  Notation tne := (tne O L).
  Notation Phi := (Phi O L R pkgs).
  Notation Bound := (Bound O L R pkgs).
  Notation shrinks := (shrinks O L R).
  Local Notation asg st := (assignments (ps st)).

  Let Heqb : vs_eqb O (vs_empty O) (vs_empty O) = true := proj2 (vs_eqb_spec O L _ _) eq_refl.
  Let Ac := alg_compl R.
  Let Ai := alg_inter R.
  Let Au := alg_union R.
  Let Ae := alg_empty R.

  Record xinv (st : state) : Prop := {
    x_alg : algI st;
    x_ne : NE (ps st);
    x_gi : ginj (ps st);
  }.

  Lemma xinv_cache st c : xinv st -> xinv (upd_cache st c).
  Proof. intros [H1 H2 H3]. constructor; [now apply algI_cache|exact H2|exact H3]. Qed.

  Lemma noany_notany (ts : list (pkg * tm)) : noany O ts -> notany O ts.
  Proof. intros H. apply Forall_forall. intros [x t] Hin. exact (H x t Hin). Qed.

  Lemma level_le_P st : ninv st -> xinv st -> level (ps st) <= Pn pkgs.
  Proof.
    intros Hn [[_ Hp] _ _]. pose proof (n_J _ _ _ _ _ _ Hn) as [_ Hl _ _ _].
    pose proof (lay_len _ Hl) as H1. pose proof (lay_keys _ Hl) as H2.
    assert (incl (keys (asg st)) pkgs).
    { intros x Hx. destruct (get x (asg st)) as [a|] eqn:E; [exact (proj1 (Hp x a E))|]. apply get_None in E. contradiction. }
    pose proof (NoDup_incl_length H2 H) as H3. unfold keys in H3. rewrite map_length in H3. unfold Pn. lia.
  Qed.

  Lemma xinv_deriv st q id ci p' c :
    ninv st -> xinv st -> nth_error (store st) id = Some ci ->
    (forall ct, get q (terms ci) = Some ct ->
       match term_for (ps st) q with Some t => tne (t_intersection O t (t_negate ct)) | None => True end) ->
    add_derivation O (ps st) q id (terms ci) = Good p' -> xinv (upd_cache (upd_ps st p') c).
  Proof.
    intros Hn [H1 H2 H3] Hci Hne Ed. pose proof Hn as [HJ Hna _ _ _ _ _]. pose proof HJ as [[Hok Hw] Hl Hc HK _].
    constructor; cbn [upd_cache upd_ps ps].
    - exact (algI_deriv O (alg R) Ac Ai Au pkgs st q id ci p' c H1 Hci Ed).
    - eapply (deriv_ne O L); [exact (store_just_wf O L reg r rv st id ci Hok Hci)| |exact H2|exact Hne|exact Ed].
      apply noany_notany. exact (store_noany_nth O _ _ _ Hna Hci).
    - exact (ginj_add_derivation O veqb rv _ _ _ _ _ HK H3 Ed).
  Qed.

  (* ---------------------------------------------------------------- conflict resolution *)
  Definition crpostT (st st' : state) (q : pkg) (rc : nat) : Prop :=
    xinv st'
    /\ (exists Lv, Lv < level (ps st) /\ ps_backtrack (ps st) Lv = Good (ps st'))
    /\ SolverProto2.crpost O st' q rc
    /\ exists ci it, nth_error (store st') rc = Some ci /\ get q (terms ci) = Some it
         /\ forall a, get q (asg st') = Some a -> t_is_disjoint O it (ai_term (ai a)) = false.

  Lemma cr_T fuel : forall st cur chg,
    ninv st -> xinv st -> cur_satU st cur ->
    match conflict_resolution O fuel st cur chg with
    | inl (CROk st' q rc) => crpostT st st' q rc
    | _ => True
    end.
  Proof.
    induction fuel as [|fuel IH]; intros st cur chg Hn Hx (ci & Hci & Hsat); cbn [conflict_resolution]; [exact I|].
    rewrite Hci.
    pose proof Hn as [H1 H2 _ _ H5 _ _]. pose proof H1 as [[Hok Hw] Hl Hc HK Hpa].
    pose proof Hok as (Hsj & _). pose proof Hx as [Xa Xn Xg].
    destruct (is_terminal O ci (root st) (rootv st)); [exact I|].
    pose proof (store_just_nth O L reg r rv _ Hsj _ _ Hci) as (Nd & Wc & _).
    destruct (satisfier_search O (terms ci) (ps st) (store st)) as [[sp [Lv|cause]]|s] eqn:Es; [| |exact I].
    - (* backtrack *)
      destruct (backtrack O st cur chg Lv) as [st'|] eqn:Eb; [|exact I].
      destruct (backtrack_parts O _ _ _ _ _ Eb) as (p' & Ep & Eps & extra & Est).
      destruct (satisfier_search_level _ _ _ _ _ _ Hl Es) as [_ HLv].
      split; [|split; [|split]].
      + constructor.
        * exact (algI_backtrack O (alg R) Ae Ac Ai Au Heqb pkgs st cur chg Lv st' Hl Xa Eb).
        * rewrite Eps. exact (ps_backtrack_ne O L _ _ _ Hl Xn Ep).
        * rewrite Eps. exact (ginj_backtrack _ _ _ Hl Xg Ep).
      + exists Lv. split; [exact HLv|now rewrite Eps].
      + exact (backtrack_crpost O st cur chg Lv st' ci sp Hl Nd Hci Es Eb).
      + pose proof (satisfier_search_key O _ _ _ _ _ Es) as Hkey.
        destruct (get sp (terms ci)) as [it|] eqn:Eit; [|congruence].
        exists ci, it. split; [rewrite Est; now apply nth_error_app_old|]. split; [exact Eit|].
        rewrite Eps. intros a' Hg'.
        destruct (ps_backtrack_get_some _ _ _ Hl Ep sp a' Hg') as (a & Hga & Hb).
        pose proof (ps_chain_get O _ _ _ Hc Hga) as Hch. pose proof (ps_wf_get O L _ _ _ Hw Hga) as Hwa.
        destruct (Hsat sp it (get_In _ _ _ Eit) ltac:(discriminate)) as (tx & Htx & Hle).
        unfold term_for in Htx. rewrite Hga in Htx. cbn in Htx. injection Htx as <-.
        pose proof (proj1 (Xn sp a Hga)) as Hne.
        assert (Wit : twf it) by exact (twf_all_get O L _ _ _ Wc Eit).
        assert (Hle' : tleU (ai_term (ai a)) (ai_term (ai a')) /\ twf (ai_term (ai a'))).
        { pose proof (backtrack_pa_cases Lv a (Some a') Hb) as (_ & [[-> _]|(_ & pre & dl & rest & Er & _ & _ & _ & Ea')]).
          - split; [apply tleU_refl|exact (proj1 Hwa)].
          - rewrite Ea'. cbn [ai_term].
            assert (Hin : In dl (derivs a)) by (apply in_rev; rewrite Er; apply in_or_app; right; now left).
            split; [exact (cur_tleU O L Hat a dl Hch Hwa (pi_chU _ _ _ _ _ H5 sp a Hga) Hin)|].
            destruct Hwa as [_ Wd]. rewrite Forall_forall in Wd. now apply Wd. }
        destruct Hle' as [Hle' Wa'].
        destruct (t_is_disjoint O it (ai_term (ai a'))) eqn:Ed; [|reflexivity]. exfalso. apply Hne. intros c.
        pose proof (proj1 (t_is_disjoint_spec O L _ _ Wit Wa') Ed c) as Hd.
        destruct (tden O L (ai_term (ai a)) c) eqn:Ec; [|reflexivity].
        rewrite (Hle c Ec), (Hle' c Ec) in Hd. discriminate.
    - (* the rule of resolution *)
      destruct (satisfier_search_same O _ _ _ _ _ Es) as (a & dd & Hga & Hdd & Hcause).
      destruct (jinv_cause O L reg r rv st sp a dd H1 Hga Hdd) as (cj & ct & Hcj & Hct & _). rewrite Hcause in Hcj. rewrite Hcj.
      destruct (prior_cause O cur cause (terms ci) (terms cj) sp) as [pc|s] eqn:Epc; [|exact I].
      cbn [alloc].
      set (st1 := {| root := root st; rootv := rootv st; index := index st; contradicted := contradicted st;
                     merged := merged st; ps := ps st; store := store st ++ [pc] |}).
      assert (Hpost : match conflict_resolution O fuel st1 (length (store st)) true with
                      | inl (CROk st' q rc) => crpostT st1 st' q rc
                      | _ => True
                      end).
      { apply IH.
        - exact (ninv_alloc_pc O L reg r rv st cur cause ci cj sp pc Hn Hci Hcj Epc).
        - constructor; [|exact Xn|exact Xg].
          apply (algI_alloc (alg R) pkgs st pc Xa).
          exact (tsA_prior_cause O (alg R) Ac Ai Au pkgs _ _ _ _ _ _ (algI_nth _ _ _ _ _ Xa Hci) (algI_nth _ _ _ _ _ Xa Hcj) Epc).
        - exists pc. cbn [st1 store ps]. split; [apply nth_error_snoc|].
          exact (resolve_satU O L reg r rv Hat st cur cause ci cj sp pc a dd Hn Hci Hcj Hsat Hga Hdd Hcause Epc). }
      exact Hpost.
  Qed.

  (* ---------------------------------------------------------------- the scan *)
  Definition scanpostT (st : state) (buffer : list pkg) (res : state * list pkg * option nat) : Prop :=
    let '(st', b', c) := res in
    xinv st' /\ level (ps st') = level (ps st)
    /\ Phi (ps st) <= Phi (ps st')
    /\ length b' + Phi (ps st) <= length buffer + Phi (ps st')
    /\ next_gidx (ps st') + Phi (ps st) <= next_gidx (ps st) + Phi (ps st').

  Lemma scan_T ids : forall st buffer,
    ninv st -> rinv st -> xinv st -> (forall id, In id ids -> exists p, active st p id) ->
    (forall x, In x buffer -> indexed (index st) x) ->
    match scan_incompats O ids st buffer with
    | Good res => scanpostT st buffer res
    | Panic _ => True
    end.
  Proof.
    induction ids as [|id ids IH]; intros st buffer Hn Hr Hx Hact Hbuf; cbn [scan_incompats].
    { cbn [scanpostT]. split; [exact Hx|]. repeat split; lia. }
    assert (Hnext : forall st' b', ninv st' -> rinv st' -> xinv st' -> index st' = index st -> store st' = store st ->
                      (forall x, In x b' -> indexed (index st') x) ->
                      level (ps st') = level (ps st) -> Phi (ps st) <= Phi (ps st') ->
                      length b' + Phi (ps st) <= length buffer + Phi (ps st') ->
                      next_gidx (ps st') + Phi (ps st) <= next_gidx (ps st) + Phi (ps st') ->
                      match scan_incompats O ids st' b' with
                      | Good res => scanpostT st buffer res
                      | Panic _ => True
                      end).
    { intros st' b' Hn' Hr' Hx' Eix Est Hb' Elv HP1 HP2 HP3.
      assert (Hact' : forall x, In x ids -> exists p, active st' p x).
      { intros x Hin. destruct (Hact x (or_intror Hin)) as (p & Hp). exists p. unfold active in *. now rewrite Eix. }
      pose proof (IH st' b' Hn' Hr' Hx' Hact' Hb') as H.
      destruct (scan_incompats O ids st' b') as [[[st2 b2] c2]|]; [|exact I].
      cbn [scanpostT] in *. destruct H as (K1 & K2 & K3 & K4 & K5). split; [exact K1|]. repeat split; lia. }
    destruct (cached id (contradicted st)); [apply Hnext; auto; lia|].
    destruct (Hact id (or_introl eq_refl)) as (pk & Hpk).
    pose proof Hn as [H1 H2 H3 H4 H5 H6 H7]. pose proof H1 as [[Hok Hw] Hl Hc HK Hpa].
    destruct (H3 pk id Hpk) as (ci & Hci & Hkeys). rewrite Hci. cbn [req bind].
    assert (Wc : twf_all (terms ci)) by exact (store_just_wf O L reg r rv st id ci Hok Hci).
    pose proof (store_just_nth O L reg r rv _ (proj1 Hok) _ _ Hci) as (Nd & _ & _).
    pose proof (relation_sat_nowU O L (ps st) (terms ci) Hw Wc) as Hrel.
    destruct (relation O (terms ci) (term_for (ps st))) as [| |q|] eqn:Erel.
    - cbn [scanpostT]. split; [exact Hx|]. repeat split; lia.
    - apply Hnext; try reflexivity; try lia; [now apply ninv_cache|exact Hr|now apply xinv_cache|exact Hbuf].
    - destruct (SolverNoPanic1.relation_almost_inv O _ _ _ Erel) as (t & Hqt & _).
      assert (Hqk : In q (keys (terms ci))) by (change q with (fst (q, t)); now apply in_map).
      destruct (add_derivation O (ps st) q id (terms ci)) as [p'|] eqn:Ed; [|exact I]. cbn [bind].
      pose proof (algI_nth _ _ _ _ _ (x_alg _ Hx) Hci) as Hts.
      assert (Hqp : In q pkgs) by exact (proj2 (Hts q t Hqt)).
      assert (Hsh : shrinks (ps st) q (terms ci)).
      { apply shrinks_almost; [exact Nd| | |exact Erel].
        - intros x u Hin. exact (proj1 (Hts x u Hin)).
        - intros u Hu. exact (proj1 (psA_term_for _ _ _ _ _ (proj2 (x_alg _ Hx)) Hu)). }
      pose proof (Phi_deriv O L R pkgs (ps st) q id (terms ci) p' Hl Hc (level_le_P st Hn Hx) Hqp Ed Hsh) as HPhi.
      pose proof (add_derivation_gidx O _ _ _ _ _ Ed) as Eg.
      pose proof (add_derivation_level O _ _ _ _ _ Ed) as Elv.
      apply Hnext; try reflexivity; cbn [upd_cache upd_ps ps index]; try lia.
      + apply (ninv_deriv O L reg r rv st q id ci p' _ Hn Hci Hrel); [|exact Ed]. now apply Hkeys.
      + exact (rinv_deriv O L reg r rv st q id ci p' _ H1 Hci Ed Hr).
      + apply (xinv_deriv st q id ci p' _ Hn Hx Hci); [|exact Ed].
        intros ct Hct. destruct (term_for (ps st) q) as [tq|] eqn:Etq; [|exact I].
        destruct (SolverProto2.relation_almost_inv O _ _ _ Nd Erel) as (ct' & Hct' & Hinc). rewrite Hct in Hct'. injection Hct' as <-.
        apply (tne_inter_not_satisfied O L); [exact (term_for_wf O L _ _ _ Hw Etq)|exact (twf_all_get O L _ _ _ Wc Hct)|].
        rewrite (Hinc tq Etq). discriminate.
      + intros x Hin. destruct (existsb (N.eqb q) buffer); [now apply Hbuf|].
        apply in_app_or in Hin. destruct Hin as [Hin|[<-|[]]]; [now apply Hbuf|now apply Hkeys].
      + destruct (existsb (N.eqb q) buffer); [lia|]. rewrite app_length. cbn [length]. lia.
    - apply Hnext; auto; lia.
  Qed.

  (* ---------------------------------------------------------------- unit propagation *)
  (* fuel needed by unit propagation from [st] with [buffer] *)
  Definition need (st : state) (buffer : list pkg) : nat := (Bound - Phi (ps st)) + length buffer + Bound + 2.

  Definition okupT (st : state) (x : up_result (VS := VS) (Vr := Vr) + outcome_err) : Prop :=
    match x with
    | inl (UPOk st') => xinv st' /\ Phi (ps st) <= Phi (ps st') /\ next_gidx (ps st') <= Phi (ps st')
                        /\ next_gidx (ps st') + Phi (ps st) <= next_gidx (ps st) + Phi (ps st')
    | _ => True
    end.

  Lemma up_T fuel : forall st buffer,
    ninv st -> rinv st -> xinv st -> (forall x, In x buffer -> indexed (index st) x) ->
    next_gidx (ps st) <= Phi (ps st) ->
    okupT st (unit_propagation O fuel st buffer)
    /\ (need st buffer <= fuel -> unit_propagation O fuel st buffer <> inr EFuel).
  Proof.
    induction fuel as [|fuel IH]; intros st buffer Hn Hr Hx Hbuf Hg; cbn [unit_propagation].
    { split; [exact I|]. unfold need. lia. }
    pose proof (Phi_lt_Bound O L R pkgs (ps st)) as HB0.
    destruct (rev buffer) as [|cur rest] eqn:Erev.
    { split; [|discriminate]. cbn [okupT]. split; [exact Hx|]. split; [lia|]. split; [exact Hg|lia]. }
    assert (Elen : length buffer = S (length rest)) by (rewrite <- (rev_length buffer), Erev; reflexivity).
    assert (Hin : forall x, In x (cur :: rest) -> indexed (index st) x).
    { intros x Hxx. apply Hbuf. apply in_rev. now rewrite Erev. }
    destruct (get cur (index st)) as [ids|] eqn:Eix; [|split; [exact I|discriminate]].
    assert (Hact : forall id, In id (rev ids) -> exists p, active st p id).
    { intros id Hid. exists cur. unfold active, index_get. rewrite Eix. now apply in_rev. }
    assert (Hbr : forall x, In x (rev rest) -> indexed (index st) x).
    { intros x Hxx. apply Hin. right. now apply in_rev. }
    pose proof (scan_np O L reg r rv Hat (rev ids) st (rev rest) Hn Hr Hact Hbr) as Hscan.
    pose proof (scan_T (rev ids) st (rev rest) Hn Hr Hx Hact Hbr) as HscanT.
    destruct (scan_incompats O (rev ids) st (rev rest)) as [[[st1 b2] c]|s] eqn:Es; [|split; [exact I|discriminate]].
    cbn [okres scanpost] in Hscan. cbn [scanpostT] in HscanT.
    destruct Hscan as (Hn1 & Hr1 & Eix1 & Est1 & Hb2 & Hc).
    destruct HscanT as (Hx1 & Elv1 & HP1 & HP2 & HP3). rewrite rev_length in HP2.
    pose proof (Phi_lt_Bound O L R pkgs (ps st1)) as HB1.
    destruct c as [conflict|].
    2:{ destruct (IH st1 b2 Hn1 Hr1 Hx1 Hb2 ltac:(lia)) as [K1 K2]. split.
        - destruct (unit_propagation O fuel st1 b2) as [[st'|st' id]|e]; cbn [okupT] in *; try exact I.
          destruct K1 as (A1 & A2 & A3 & A4). split; [exact A1|]. split; [lia|]. split; [exact A3|lia].
        - intros Hneed. apply K2. unfold need in *. lia. }
    destruct (Hc conflict eq_refl) as [Hcin Hcsat].
    assert (Hcr : okcr O L reg r rv (conflict_resolution O fuel st1 conflict false)).
    { apply (cr_np O L veqb reg r rv Hat); [exact Hn1|exact Hr1|exact Hcsat|discriminate|].
      intros _ ci x Hci Hxx. destruct (n_ix _ _ _ _ _ _ Hn1 cur conflict) as (ci' & Hci' & Hk).
      - unfold active, index_get. rewrite Eix1, Eix. now apply in_rev.
      - rewrite Hci in Hci'. injection Hci' as <-. now apply Hk. }
    pose proof (cr_T fuel st1 conflict false Hn1 Hx1 Hcsat) as HcrT.
    pose proof (cr_fuel_now O L reg r rv Hat fuel st1 conflict false Hn1 (x_gi _ Hx1) Hcsat) as Hcrf.
    destruct (conflict_resolution O fuel st1 conflict false) as [[st2 q rc|st2 id]|e];
      [|split; [exact I|discriminate]|split; [exact I|]].
    2:{ intros Hneed He. apply Hcrf; [unfold need in Hneed; lia|]. injection He as ->. reflexivity. }
    cbn [okcr] in Hcr. destruct Hcr as (Hn2 & Hr2 & _ & Hund & rci & Hrc & Hsat & Hkey & Hqi).
    destruct HcrT as (Hx2 & (Lv & HLv & Ep) & Hcrp & ci' & it & Hrc' & Hit & Hdisj).
    rewrite Hrc' in Hrc. injection Hrc as <-. rewrite Hrc'.
    destruct (add_derivation O (ps st2) q rc (terms ci')) as [p'|] eqn:Ed; [|split; [exact I|discriminate]].
    pose proof (n_J _ _ _ _ _ _ Hn1) as [_ Hl1 _ _ _].
    pose proof (n_J _ _ _ _ _ _ Hn2) as HJ2. pose proof HJ2 as [[Hok2 Hw2] Hl2 Hc2 _ _].
    pose proof (algI_nth _ _ _ _ _ (x_alg _ Hx2) Hrc') as Hts.
    assert (Hqp : In q pkgs) by exact (proj2 (tsA_get _ _ _ _ _ Hts Hit)).
    assert (Hsh : shrinks (ps st2) q (terms ci')).
    { apply shrinks_not_disjoint.
      - intros ct Hct. exact (proj1 (tsA_get _ _ _ _ _ Hts Hct)).
      - intros u Hu. exact (proj1 (psA_term_for _ _ _ _ _ (proj2 (x_alg _ Hx2)) Hu)).
      - intros ct t Hct Ht. rewrite Hit in Hct. injection Hct as <-. unfold term_for in Ht.
        destruct (get q (asg st2)) as [a|] eqn:Ega; [|discriminate]. cbn in Ht. injection Ht as <-. exact (Hdisj a eq_refl). }
    pose proof (Phi_backtrack_deriv O L R pkgs (ps st1) Lv (ps st2) q rc (terms ci') p' Hl1 ltac:(lia)
                  (level_le_P st1 Hn1 Hx1) Ep Hl2 Hc2 Hqp Ed Hsh) as HPhi.
    pose proof (add_derivation_gidx O _ _ _ _ _ Ed) as Eg. pose proof (ps_backtrack_gidx _ _ _ Ep) as Eg2.
    set (st3 := upd_cache (upd_ps st2 p') (cache_set rc (level p') (contradicted st2))).
    assert (Hn3 : ninv st3) by exact (ninv_deriv O L reg r rv st2 q rc ci' p' _ Hn2 Hrc' Hsat Hqi Ed).
    assert (Hr3 : rinv st3) by exact (rinv_deriv O L reg r rv st2 q rc ci' p' _ HJ2 Hrc' Ed Hr2).
    assert (Hx3 : xinv st3).
    { apply (xinv_deriv st2 q rc ci' p' _ Hn2 Hx2 Hrc'); [|exact Ed].
      intros ct Hct. destruct (term_for (ps st2) q) as [tq|] eqn:Etq; [|exact I].
      destruct Hcrp as (rci0 & it0 & Hrc0 & Hit0 & Hnd). rewrite Hrc' in Hrc0. injection Hrc0 as <-.
      rewrite Hct in Hit0. injection Hit0 as <-. unfold term_for in Etq.
      destruct (get q (asg st2)) as [a|] eqn:Ega; [|discriminate]. cbn in Etq. injection Etq as <-.
      destruct (Hnd a eq_refl) as (t0 & Ea & Hd). rewrite Ea. cbn [ai_term].
      apply (tne_inter_not_disjoint O L); [|apply twf_negate; exact (twf_all_get O L _ _ _ (store_just_wf O L reg r rv st2 rc ci' Hok2 Hrc') Hct)|exact Hd].
      pose proof (ps_wf_get O L _ _ _ Hw2 Ega) as [Wa _]. now rewrite Ea in Wa. }
    assert (Hb3 : forall x, In x [q] -> indexed (index st3) x) by (intros x [<-|[]]; exact Hqi).
    assert (Hg3 : next_gidx (ps st3) <= Phi (ps st3)) by (cbn [st3 upd_cache upd_ps ps]; lia).
    destruct (IH st3 [q] Hn3 Hr3 Hx3 Hb3 Hg3) as [K1 K2].
    assert (E3 : Phi (ps st3) = Phi p') by reflexivity.
    pose proof (Phi_lt_Bound O L R pkgs p') as HB3.
    split.
    - destruct (unit_propagation O fuel st3 [q]) as [[st'|st' id]|e]; cbn [okupT] in *; try exact I.
      destruct K1 as (A1 & A2 & A3 & A4). split; [exact A1|]. split; [lia|]. split; [exact A3|].
      assert (E4 : next_gidx (ps st3) = next_gidx p') by reflexivity. lia.
    - intros Hneed. apply K2. unfold need in *. rewrite E3. cbn [length]. lia.
  Qed.
End Term5.
