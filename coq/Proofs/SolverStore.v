(* Rung I1/I2 of the proof ladder: every incompatibility the solver records is justified by its kind
   (external kinds state a fact of the registry / of the provider's answers; derived kinds are the prior
   cause of two earlier entries) and is therefore valid.  Preservation along resolve. *)
From Coq Require Import List NArith ZArith Bool Lia PeanoNat.
From PG Require Import Model.VS Model.Term Model.Solver Model.Registry Proofs.VSLaws Proofs.TermProofs
  Proofs.AssocProofs Proofs.SolverSem.
Import ListNotations.

Section Store.
  Context {VS Vr : Type} (O : VSOps VS Vr) (L : VSLawful O) (veqb : Vr -> Vr -> bool).
  Context (reg : registry (VS := VS) (Vr := Vr)) (r : pkg) (rv : Vr).
  Hypothesis Hregwf : reg_wf O L reg.

  Notation tm := (term VS).
  Notation incompat := (@incompat VS Vr).
  Notation state := (@state VS Vr).
  Notation inc_ok := (inc_ok O L reg r rv).
  Notation declares := (declares O reg).

  (* what each external kind asserts, and that the terms are those of the constructor *)
  Definition ext_ok (i : incompat) : Prop :=
    match ikind i with
    | KNotRoot p v => p = r /\ v = rv /\ terms i = terms (not_root O r rv)
    | KNoVersions p s =>
        terms i = [(p, Pos s)] /\ wf O L s /\ forall v, In v (reg_versions reg p) -> vs_contains O s v = false
    | KFromDep p s q t =>
        terms i = terms (from_dependency O p s (q, t)) /\ wf O L s /\ wf O L t /\ declares p s q t
    | KCustom p s m =>
        terms i = [(p, Pos s)] /\ exists v, s = vs_singleton O v /\ reg_deps reg p v = None
    | KDerived _ _ => False
    end.

  Inductive justified (s : list incompat) (i : incompat) : Prop :=
  | J_ext : ext_ok i -> justified s i
  | J_der a b ia ib p :
      nth_error s a = Some ia -> nth_error s b = Some ib ->
      prior_cause O a b (terms ia) (terms ib) p = Good i -> justified s i.

  Inductive store_just : list incompat -> Prop :=
  | SJ_nil : store_just []
  | SJ_snoc s i : store_just s -> justified s i -> store_just (s ++ [i]).

  Lemma ext_ok_inc_ok i : ext_ok i -> inc_ok (terms i).
  Proof.
    unfold ext_ok. destruct (ikind i) as [p v|p s|p s q t|a b|p s m].
    - intros (-> & -> & ->). exact (not_root_ok O L reg r rv).
    - intros (-> & Hw & H). exact (no_versions_ok O L reg r rv p s Hw H).
    - intros (-> & Hs & Ht & Hd). exact (from_dependency_ok O L reg r rv p s q t Hs Ht Hd).
    - intros [].
    - intros (-> & v & -> & Hd). exact (custom_version_ok O L reg r rv p v m Hd).
  Qed.

  Lemma store_just_nth s : store_just s -> forall id i, nth_error s id = Some i -> inc_ok (terms i).
  Proof.
    induction 1 as [|s i Hs IH Hj]; intros id j Hn; [destruct id; discriminate|].
    destruct (Nat.lt_ge_cases id (length s)) as [Hlt|Hge].
    - rewrite nth_error_app1 in Hn by assumption. eauto.
    - rewrite nth_error_app2 in Hn by assumption. destruct (id - length s) as [|k]; [|destruct k; discriminate].
      injection Hn as <-. destruct Hj as [He|a b ia ib p Ha Hb Hp].
      + now apply ext_ok_inc_ok.
      + eapply prior_cause_ok; [exact (IH _ _ Ha)|exact (IH _ _ Hb)|exact Hp].
  Qed.

  Lemma justified_mono s s' i : justified s i -> justified (s ++ s') i.
  Proof.
    intros [He|a b ia ib p Ha Hb Hp]; [now apply J_ext|].
    apply (J_der _ _ a b ia ib p); try assumption; rewrite nth_error_app1; try assumption;
      apply nth_error_Some; congruence.
  Qed.

  Lemma store_just_app s l : store_just s -> Forall (fun i => ext_ok i) l -> store_just (s ++ l).
  Proof.
    intros Hs Hl. revert s Hs. induction Hl as [|i l Hi Hl IH]; intros s Hs; [now rewrite app_nil_r|].
    change (i :: l) with ([i] ++ l). rewrite app_assoc. apply IH. apply SJ_snoc; [exact Hs|now apply J_ext].
  Qed.

  (* ---------------------------------------------------------------- merged dependents *)
  Lemma from_dep_terms_get p s q t :
    p <> q ->
    get p (terms (from_dependency O p s (q, t))) = Some (Pos s)
    /\ (get q (terms (from_dependency O p s (q, t))) =
        if vs_eqb O t (vs_empty O) then None else Some (Neg t)).
  Proof.
    intros Hne. unfold from_dependency. cbn [terms]. destruct (vs_eqb O t (vs_empty O)).
    - cbn. rewrite N.eqb_refl. destruct (N.eqb_spec q p); [congruence|]. auto.
    - destruct (N.eqb_spec p q); [congruence|]. cbn. rewrite !N.eqb_refl.
      destruct (N.eqb_spec q p); [congruence|]. auto.
  Qed.

  Lemma merge_dependents_ok self other mi :
    ext_ok self -> ext_ok other -> merge_dependents O self other = Good (Some mi) -> ext_ok mi.
  Proof.
    unfold merge_dependents, as_dependency, ext_ok at 1 2.
    destruct (ikind self) as [| |p1 s1 p2 t1| |]; try discriminate.
    destruct (ikind other) as [| |q1 s2 q2 t2| |]; try discriminate.
    intros (Ts & Ws1 & Wt1 & D1) (To & Ws2 & Wt2 & D2).
    destruct (N.eqb_spec p1 q1) as [<-|]; [|discriminate].
    destruct (N.eqb_spec p2 q2) as [<-|]; [|discriminate]. cbn [andb negb].
    destruct (N.eqb_spec p1 p2) as [|Hne]; [discriminate|].
    destruct (from_dep_terms_get p1 s1 p2 t1 Hne) as [G1 G2].
    destruct (from_dep_terms_get p1 s2 p2 t2 Hne) as [G3 G4].
    rewrite Ts, To, G1, G2, G3, G4.
    (* the dependency terms agree: t1 = t2 *)
    assert (Heq : opt_term_eqb O (if vs_eqb O t1 (vs_empty O) then None else Some (Neg t1))
                              (if vs_eqb O t2 (vs_empty O) then None else Some (Neg t2)) = true -> t1 = t2).
    { destruct (vs_eqb O t1 (vs_empty O)) eqn:E1, (vs_eqb O t2 (vs_empty O)) eqn:E2; cbn; try discriminate.
      - intros _. apply (vs_eqb_spec O L) in E1, E2. congruence.
      - intros H. now apply (vs_eqb_spec O L) in H. }
    destruct (opt_term_eqb O _ _) eqn:Eo; [|discriminate]. specialize (Heq eq_refl). subst t2.
    cbn [negb bind req unwrap_positive].
    assert (Hd : (match (if vs_eqb O t1 (vs_empty O) then None else Some (Neg t1)) with
                  | None => Good (vs_empty O) | Some t => unwrap_negative t end) = Good t1).
    { destruct (vs_eqb O t1 (vs_empty O)) eqn:E1; [|reflexivity]. apply (vs_eqb_spec O L) in E1. now rewrite E1. }
    rewrite Hd. cbn [bind]. intros H. injection H as <-.
    unfold ext_ok. cbn [ikind from_dependency]. split; [reflexivity|].
    split; [now apply (wf_union O L)|]. split; [exact Wt1|].
    now apply (declares_union O L).
  Qed.

  Lemma find_merge_ok cur pasts st past mi :
    ext_ok cur -> store_just st ->
    (forall id i, In id pasts -> nth_error st id = Some i -> ext_ok i) ->
    find_merge O cur pasts st = Good (Some (past, mi)) -> ext_ok mi.
  Proof.
    intros Hc Hs. induction pasts as [|x pasts IH]; intros Hp; cbn [find_merge]; [discriminate|].
    unfold bind, req. destruct (nth_error st x) as [pi|] eqn:En; [|discriminate].
    destruct (merge_dependents O cur pi) as [[m|]|] eqn:Em; [| |discriminate].
    - intros H. injection H as <- <-. eapply merge_dependents_ok; [exact Hc| |exact Em]. eapply Hp; [now left|exact En].
    - apply IH. intros id i Hin. apply Hp. now right.
  Qed.

  (* the ids kept in merged_dependencies denote existing external (FromDep) entries *)
  Definition merged_ext (st : state) : Prop :=
    forall k l id, get2 k (merged st) = Some l -> In id l ->
      exists i, nth_error (store st) id = Some i /\ ext_ok i.

  Definition st_ok (st : state) : Prop := store_just (store st) /\ merged_ext st /\ root st = r /\ rootv st = rv.

  Lemma nth_error_app_old {A} (s l : list A) x i : nth_error s x = Some i -> nth_error (s ++ l) x = Some i.
  Proof. intros H. rewrite nth_error_app1; [exact H|]. apply nth_error_Some. congruence. Qed.

  Lemma nth_error_snoc {A} (s : list A) i : nth_error (s ++ [i]) (length s) = Some i.
  Proof. rewrite nth_error_app2 by lia. now rewrite Nat.sub_diag. Qed.

  Lemma get2_set2 k l m k' :
    get2 k' (set2 k l m) = if pair_eqb k' k then Some l else get2 k' m.
  Proof.
    induction m as [|[j x] m IH]; cbn.
    - reflexivity.
    - destruct (pair_eqb k j) eqn:E; cbn.
      + destruct (pair_eqb k' k) eqn:E'; [reflexivity|].
        destruct (pair_eqb k' j) eqn:E''; [|reflexivity]. exfalso.
        unfold pair_eqb in *. apply andb_prop in E as [A B], E'' as [C D].
        apply N.eqb_eq in A, B, C, D. rewrite C, D, <- A, <- B, !N.eqb_refl in E'. discriminate.
      + destruct (pair_eqb k' j) eqn:E''; [|exact IH].
        destruct (pair_eqb k' k) eqn:E'; [|reflexivity]. exfalso.
        unfold pair_eqb in *. apply andb_prop in E' as [A B], E'' as [C D].
        apply N.eqb_eq in A, B, C, D. rewrite <- A, <- B, C, D, !N.eqb_refl in E. discriminate.
  Qed.

  Lemma merged_ext_grow st (l : list incompat) m' :
    merged_ext st ->
    (forall k lst id, get2 k m' = Some lst -> In id lst ->
       (exists lst0, get2 k (merged st) = Some lst0 /\ In id lst0)
       \/ exists i, nth_error (store st ++ l) id = Some i /\ ext_ok i) ->
    forall k lst id, get2 k m' = Some lst -> In id lst ->
      exists i, nth_error (store st ++ l) id = Some i /\ ext_ok i.
  Proof.
    intros Hm H k lst id Hg Hin. destruct (H k lst id Hg Hin) as [(lst0 & Hg0 & Hin0)|Hex]; [|exact Hex].
    destruct (Hm k lst0 id Hg0 Hin0) as (i & Hi & He). exists i. split; [now apply nth_error_app_old|exact He].
  Qed.

  Lemma merge_incompatibility_ok st id st' :
    st_ok st -> (forall i, nth_error (store st) id = Some i -> as_dependency i <> None -> ext_ok i) ->
    merge_incompatibility O st id = Good st' -> st_ok st'.
  Proof.
    intros (Hs & Hm & Hr & Hv) Hid. unfold merge_incompatibility, bind, req.
    destruct (nth_error (store st) id) as [cur|] eqn:En; [|discriminate].
    destruct (as_dependency cur) as [key|] eqn:Ek.
    - assert (Hcur : ext_ok cur) by (apply Hid; [reflexivity|congruence]).
      set (lookup := match get2 key (merged st) with Some l => l | None => [] end).
      assert (Hlook : forall x, In x lookup -> exists i, nth_error (store st) x = Some i /\ ext_ok i).
      { intros x Hin. unfold lookup in Hin. destruct (get2 key (merged st)) as [l|] eqn:Eg; [|destruct Hin].
        exact (Hm key l x Eg Hin). }
      destruct (find_merge O cur lookup (store st)) as [[[past mi]|]|] eqn:Ef; [| |discriminate].
      + destruct (has_any O (terms mi)); [discriminate|]. intros H. injection H as <-.
        assert (Hmi : ext_ok mi).
        { eapply find_merge_ok; [exact Hcur|exact Hs| |exact Ef]. intros x i Hin Hx.
          destruct (Hlook x Hin) as (i' & Hi' & He). congruence. }
        split; [|split; [|split]]; cbn; try assumption.
        * apply SJ_snoc; [exact Hs|now apply J_ext].
        * intros k l x Hg Hin. cbn in Hg |- *. rewrite get2_set2 in Hg.
          destruct (pair_eqb k key) eqn:E.
          -- injection Hg as <-. apply in_map_iff in Hin. destruct Hin as (y & Hy & Hin).
             destruct (Nat.eqb y past).
             ++ subst x. exists mi. split; [apply nth_error_snoc|exact Hmi].
             ++ subst y. destruct (Hlook x Hin) as (i & Hi & He). exists i. split; [now apply nth_error_app_old|exact He].
          -- destruct (Hm k l x Hg Hin) as (i & Hi & He). exists i. split; [now apply nth_error_app_old|exact He].
      + destruct (has_any O (terms cur)); [discriminate|]. intros H. injection H as <-.
        split; [|split; [|split]]; cbn; try assumption.
        intros k l x Hg Hin. cbn in Hg |- *. rewrite get2_set2 in Hg.
        destruct (pair_eqb k key) eqn:E; [|eauto].
        injection Hg as <-. apply in_app_or in Hin. destruct Hin as [Hin|[<-|[]]]; [eauto|]. eauto.
    - destruct (has_any O (terms cur)); [discriminate|]. intros H. injection H as <-.
      split; [|split; [|split]]; cbn; assumption.
  Qed.

  Lemma alloc_ok st i : st_ok st -> justified (store st) i -> st_ok (fst (alloc st i)).
  Proof.
    intros (Hs & Hm & Hr & Hv) Hj. cbn. split; [now apply SJ_snoc|].
    split; [|split; assumption]. intros k l x Hg Hin. cbn in Hg |- *.
    destruct (Hm k l x Hg Hin) as (j & Hj' & He). exists j. split; [now apply nth_error_app_old|exact He].
  Qed.

  Lemma alloc_id (st : state) i : snd (alloc st i) = length (store st) /\ store (fst (alloc st i)) = store st ++ [i].
  Proof. split; reflexivity. Qed.

  Lemma add_incompatibility_ok st i st' :
    st_ok st -> ext_ok i -> add_incompatibility O st i = Good st' -> st_ok st'.
  Proof.
    intros Hst Hi. unfold add_incompatibility. cbn. intros H.
    eapply merge_incompatibility_ok; [| |exact H].
    - exact (alloc_ok st i Hst (J_ext _ _ Hi)).
    - cbn. intros j Hn _. rewrite nth_error_snoc in Hn. now injection Hn as <-.
  Qed.

  Lemma merge_incompatibility_ext (st : state) id st' :
    merge_incompatibility O st id = Good st' -> exists extra, store st' = store st ++ extra.
  Proof.
    unfold merge_incompatibility, bind, req.
    destruct (nth_error (store st) id) as [cur|]; [|discriminate].
    destruct (as_dependency cur) as [key|].
    - destruct (find_merge O cur _ (store st)) as [[[past mi]|]|]; [| |discriminate].
      + destruct (has_any O (terms mi)); [discriminate|]. intros E. injection E as <-. cbn. eauto.
      + destruct (has_any O (terms cur)); [discriminate|]. intros E. injection E as <-. cbn. exists []. now rewrite app_nil_r.
    - destruct (has_any O (terms cur)); [discriminate|]. intros E. injection E as <-. cbn. exists []. now rewrite app_nil_r.
  Qed.

  Lemma merge_range_ok ids : forall st st',
    st_ok st ->
    (forall id, In id ids -> exists i, nth_error (store st) id = Some i /\ ext_ok i) ->
    merge_range O st ids = Good st' -> st_ok st' /\ exists extra, store st' = store st ++ extra.
  Proof.
    induction ids as [|id ids IH]; intros st st' Hst Hids; cbn [merge_range].
    - intros H. injection H as <-. split; [exact Hst|]. exists []. now rewrite app_nil_r.
    - unfold bind. destruct (merge_incompatibility O st id) as [st1|] eqn:E; [|discriminate]. intros H.
      assert (Hst1 : st_ok st1).
      { eapply merge_incompatibility_ok; [exact Hst| |exact E]. intros i Hn _.
        destruct (Hids id (or_introl eq_refl)) as (i' & Hi' & He). congruence. }
      destruct (merge_incompatibility_ext _ _ _ E) as (ex1 & Hex1).
      destruct (IH st1 st' Hst1) as (Hok & ex2 & Hex2); [|exact H|].
      + intros x Hin. destruct (Hids x (or_intror Hin)) as (i & Hi & He). exists i. split; [|exact He].
        rewrite Hex1. now apply nth_error_app_old.
      + split; [exact Hok|]. exists (ex1 ++ ex2). now rewrite Hex2, Hex1, app_assoc.
  Qed.

  (* add_incompatibility_from_dependencies: every dependency of (p, v) as answered by the provider *)
  Lemma add_from_dependencies_ok st p v deps st' range :
    st_ok st ->
    (forall q s, In (q, s) deps -> wf O L s /\ declares p (vs_singleton O v) q s) ->
    add_incompatibility_from_dependencies O st p v deps = Good (st', range) -> st_ok st'.
  Proof.
    intros (Hs & Hm & Hr & Hv) Hdeps. unfold add_incompatibility_from_dependencies, bind.
    set (news := map (fun d => from_dependency O p (vs_singleton O v) d) deps).
    set (st1 := {| root := root st; rootv := rootv st; index := index st; contradicted := contradicted st;
                   merged := merged st; ps := ps st; store := store st ++ news |}).
    assert (Hnews : Forall ext_ok news).
    { unfold news. apply Forall_forall. intros i Hi. apply in_map_iff in Hi. destruct Hi as ([q s] & <- & Hin).
      destruct (Hdeps q s Hin) as [Hw Hd]. unfold ext_ok. cbn [ikind from_dependency].
      split; [reflexivity|]. split; [apply (wf_singleton O L)|]. split; assumption. }
    assert (Hst1 : st_ok st1).
    { split; [now apply store_just_app|]. split; [|split; assumption].
      intros k l x Hg Hin. destruct (Hm k l x Hg Hin) as (i & Hi & He). exists i. split; [now apply nth_error_app_old|exact He]. }
    destruct (merge_range O st1 (seq (length (store st)) (length news))) as [st2|] eqn:E; [|discriminate].
    intros H. injection H as <- _.
    refine (proj1 (merge_range_ok _ st1 st2 Hst1 _ E)).
    intros x Hin. apply in_seq in Hin. cbn [store st1].
    destruct (nth_error news (x - length (store st))) as [i|] eqn:En.
    - exists i. split; [rewrite nth_error_app2 by lia; exact En|].
      rewrite Forall_forall in Hnews. apply Hnews. eapply nth_error_In. exact En.
    - exfalso. apply nth_error_None in En. lia.
  Qed.

  (* ---------------------------------------------------------------- the partial solution only holds well-formed terms *)
  Notation twf := (twf O L).
  Definition pa_wf (a : pa (VS := VS) (Vr := Vr)) : Prop :=
    twf (ai_term (ai a)) /\ Forall (fun dd => twf (d_accum dd)) (derivs a).
  Definition ps_wf (p : psol (VS := VS) (Vr := Vr)) : Prop := Forall (fun e => pa_wf (snd e)) (assignments p).

  Lemma ps_wf_get p q a : ps_wf p -> get q (assignments p) = Some a -> pa_wf a.
  Proof. intros H Hg. apply get_In in Hg. unfold ps_wf in H. rewrite Forall_forall in H. exact (H _ Hg). Qed.

  Lemma term_for_wf p q t : ps_wf p -> term_for p q = Some t -> twf t.
  Proof.
    unfold term_for. intros H. destruct (get q (assignments p)) as [a|] eqn:E; [|discriminate].
    intros Ht. injection Ht as <-. exact (proj1 (ps_wf_get p q a H E)).
  Qed.

  Lemma set_forall {A} (P : A -> Prop) q a (m : list (pkg * A)) :
    P a -> Forall (fun e => P (snd e)) m -> Forall (fun e => P (snd e)) (set q a m).
  Proof.
    intros Ha. induction m as [|[k b] m IH]; cbn; intros H; [constructor; [exact Ha|constructor]|].
    inversion H as [|? ? H1 H2]; subst.
    destruct (N.eqb q k); [constructor; [exact Ha|exact H2]|constructor; [exact H1|now apply IH]].
  Qed.

  Lemma swap_forall {A} (P : A -> Prop) (l : list A) i j : Forall P l -> Forall P (swap_indices l i j).
  Proof.
    intros H. unfold swap_indices. destruct (nth_error l i) as [a|] eqn:Ei; [|exact H].
    destruct (nth_error l j) as [b|] eqn:Ej; [|exact H].
    rewrite Forall_forall in H. apply Forall_forall. intros x Hx. apply in_map_iff in Hx.
    destruct Hx as ([k y] & <- & Hin). apply in_combine_r in Hin.
    destruct (Nat.eqb k i); [apply H; eapply nth_error_In; exact Ej|].
    destruct (Nat.eqb k j); [apply H; eapply nth_error_In; exact Ei|now apply H].
  Qed.

  Lemma add_decision_wf p q v p' : ps_wf p -> add_decision O p q v = Good p' -> ps_wf p'.
  Proof.
    intros H. unfold add_decision. destruct (index_of q (assignments p) 0) as [oi|]; [|discriminate].
    destruct (get q (assignments p)) as [a|] eqn:E; [|discriminate].
    destruct (ai a) as [|t] eqn:Ea; [discriminate|].
    destruct (negb (t_contains O t v)); [discriminate|].
    destruct (negb (Nat.eqb (changed p) (length (assignments p)))); [discriminate|].
    intros Hg. injection Hg as <-. unfold ps_wf. cbn [assignments].
    assert (Hs : Forall (fun e => pa_wf (snd e))
                   (set q {| smallest := smallest a; highest := S (level p); derivs := derivs a;
                             ai := ADecision (next_gidx p) v (t_exact O v) |} (assignments p))).
    { apply set_forall; [|exact H]. split; [cbn; apply twf_exact|cbn; exact (proj2 (ps_wf_get p q a H E))]. }
    destruct (Nat.eqb (level p) oi); [exact Hs|now apply swap_forall].
  Qed.

  Lemma add_derivation_wf p q cause cts p' :
    ps_wf p -> twf_all O L cts -> add_derivation O p q cause cts = Good p' -> ps_wf p'.
  Proof.
    intros H Hc. unfold add_derivation, bind, req. destruct (get q cts) as [ct|] eqn:Ec; [|discriminate].
    assert (Wct : twf (t_negate ct)).
    { apply twf_negate. apply get_In in Ec. unfold twf_all in Hc. rewrite Forall_forall in Hc. exact (Hc _ Ec). }
    destruct (index_of q (assignments p) 0) as [idx|].
    - destruct (get q (assignments p)) as [a|] eqn:E.
      + destruct (ai a) as [|t] eqn:Ea; [discriminate|]. intros Hg. injection Hg as <-.
        unfold ps_wf. cbn [assignments]. destruct (ps_wf_get p q a H E) as [W1 W2]. rewrite Ea in W1. cbn in W1.
        assert (Wi : twf (t_intersection O t (t_negate ct))) by now apply twf_intersection.
        apply set_forall; [|exact H]. split; [exact Wi|]. cbn [derivs]. apply Forall_app. split; [exact W2|].
        constructor; [exact Wi|constructor].
      + intros Hg. injection Hg as <-. unfold ps_wf. cbn [assignments]. apply Forall_app. split; [exact H|].
        constructor; [|constructor]. split; [exact Wct|]. cbn. constructor; [exact Wct|constructor].
    - intros Hg. injection Hg as <-. unfold ps_wf. cbn [assignments]. apply Forall_app. split; [exact H|].
      constructor; [|constructor]. split; [exact Wct|]. cbn. constructor; [exact Wct|constructor].
  Qed.

  Lemma drop_while_gt_incl Lv (l : list (dated (VS := VS))) x : In x (drop_while_gt Lv l) -> In x l.
  Proof.
    induction l as [|d l IH]; cbn [drop_while_gt]; [tauto|]. destruct (Nat.ltb Lv (d_level d)); [intros H; right; auto|intros H; exact H].
  Qed.

  Lemma backtrack_asg_wf Lv (m m' : list (pkg * pa (VS := VS) (Vr := Vr))) :
    Forall (fun e => pa_wf (snd e)) m -> backtrack_asg Lv m = Good m' -> Forall (fun e => pa_wf (snd e)) m'.
  Proof.
    revert m'; induction m as [|[q a] m IH]; intros m' H; cbn [backtrack_asg].
    - intros E. injection E as <-. constructor.
    - inversion H as [|? ? Ha Hm]; subst. unfold bind.
      destruct (backtrack_pa Lv a) as [oa|] eqn:Ea; [|discriminate].
      destruct (backtrack_asg Lv m) as [r'|] eqn:Er; [|discriminate].
      intros E. injection E as <-. specialize (IH r' Hm eq_refl).
      destruct oa as [x|]; [|exact IH]. constructor; [|exact IH]. cbn [snd].
      revert Ea. unfold backtrack_pa. destruct (Nat.ltb Lv (smallest a)); [discriminate|].
      destruct (Nat.leb (highest a) Lv); [intros E; injection E as <-; exact Ha|].
      destruct (rev (rev (drop_while_gt Lv (rev (derivs a))))) as [|lst ?] eqn:El; [discriminate|].
      intros E. injection E as <-. destruct Ha as [_ Hd]. cbn in Hd. rewrite Forall_forall in Hd.
      assert (Hin : forall y, In y (rev (drop_while_gt Lv (rev (derivs a)))) -> In y (derivs a)).
      { intros y Hy. apply in_rev in Hy. apply drop_while_gt_incl in Hy. now apply in_rev in Hy. }
      split; cbn.
      + apply Hd. apply Hin. apply in_rev. rewrite El. now left.
      + apply Forall_forall. intros y Hy. apply Hd. now apply Hin.
  Qed.

  Lemma ps_backtrack_wf p Lv p' : ps_wf p -> ps_backtrack p Lv = Good p' -> ps_wf p'.
  Proof.
    intros H. unfold ps_backtrack, bind. destruct (backtrack_asg Lv (assignments p)) as [asg|] eqn:E; [|discriminate].
    intros Hg. injection Hg as <-. unfold ps_wf. cbn [assignments]. eapply backtrack_asg_wf; eauto.
  Qed.

  (* ---------------------------------------------------------------- the whole state *)
  Definition full_ok (st : state) : Prop := st_ok st /\ ps_wf (ps st).

  Lemma store_just_wf st id i : st_ok st -> nth_error (store st) id = Some i -> twf_all O L (terms i).
  Proof. intros (Hs & _) Hn. exact (proj1 (proj2 (store_just_nth _ Hs id i Hn))). Qed.

  Lemma merge_incompatibility_ps st id st' : merge_incompatibility O st id = Good st' -> ps st' = ps st.
  Proof.
    unfold merge_incompatibility, bind, req.
    destruct (nth_error (store st) id) as [cur|]; [|discriminate].
    destruct (as_dependency cur) as [key|].
    - destruct (find_merge O cur _ (store st)) as [[[past mi]|]|]; [| |discriminate].
      + destruct (has_any O (terms mi)); [discriminate|]. intros E. now injection E as <-.
      + destruct (has_any O (terms cur)); [discriminate|]. intros E. now injection E as <-.
    - destruct (has_any O (terms cur)); [discriminate|]. intros E. now injection E as <-.
  Qed.

  Lemma merge_range_ps ids : forall st st', merge_range O st ids = Good st' -> ps st' = ps st.
  Proof.
    induction ids as [|id ids IH]; intros st st'; cbn [merge_range]; [intros E; now injection E as <-|].
    unfold bind. destruct (merge_incompatibility O st id) as [st1|] eqn:E; [|discriminate].
    intros H. rewrite (IH _ _ H). eapply merge_incompatibility_ps; eauto.
  Qed.

  Lemma backtrack_ok st inc chg Lv st' :
    full_ok st -> (chg = true -> exists i a b, nth_error (store st) inc = Some i /\ ikind i = KDerived a b) ->
    backtrack O st inc chg Lv = Good st' -> full_ok st'.
  Proof.
    intros [(Hs & Hm & Hr & Hv) Hp] Hchg. unfold backtrack, bind.
    destruct (ps_backtrack (ps st) Lv) as [p'|] eqn:Ep; [|discriminate].
    pose proof (ps_backtrack_wf _ _ _ Hp Ep) as Hp'.
    set (st1 := {| root := root st; rootv := rootv st; index := index st;
                   contradicted := filter (fun e => Nat.leb (snd e) Lv) (contradicted st);
                   merged := merged st; ps := p'; store := store st |}).
    assert (H1 : st_ok st1) by (split; [exact Hs|split; [exact Hm|split; assumption]]).
    destruct chg.
    - intros E. split.
      + eapply merge_incompatibility_ok; [exact H1| |exact E]. intros i Hn Hd. exfalso.
        destruct (Hchg eq_refl) as (i' & a & b & Hi' & Hk). cbn in Hn. rewrite Hi' in Hn. injection Hn as <-.
        unfold as_dependency in Hd. rewrite Hk in Hd. congruence.
      + rewrite (merge_incompatibility_ps _ _ _ E). exact Hp'.
    - intros E. injection E as <-. split; assumption.
  Qed.

  Definition terminal_at (st : state) (id : nat) : Prop :=
    exists i, nth_error (store st) id = Some i /\ is_terminal O i r rv = true.

  Lemma conflict_resolution_ok fuel : forall st cur chg,
    full_ok st -> (chg = true -> exists i a b, nth_error (store st) cur = Some i /\ ikind i = KDerived a b) ->
    match conflict_resolution O fuel st cur chg with
    | inl (CROk st' _ _) => full_ok st'
    | inl (CRTerminal st' id) => full_ok st' /\ terminal_at st' id
    | inr _ => True
    end.
  Proof.
    induction fuel as [|fuel IH]; intros st cur chg Hst Hchg; cbn [conflict_resolution]; [exact I|].
    destruct (nth_error (store st) cur) as [ci|] eqn:Ec; [|exact I].
    destruct Hst as [Hok Hp]. pose proof Hok as (Hs & Hm & Hr & Hv).
    destruct (is_terminal O ci (root st) (rootv st)) eqn:Et.
    - split; [split; assumption|]. exists ci. split; [exact Ec|]. now rewrite <- Hr, <- Hv.
    - destruct (satisfier_search O (terms ci) (ps st) (store st)) as [[p [Lv|cause]]|]; [| |exact I].
      + destruct (backtrack O st cur chg Lv) as [st'|] eqn:Eb; [|exact I].
        eapply backtrack_ok; [split; eassumption| |exact Eb]. rewrite Ec. exact Hchg.
      + destruct (nth_error (store st) cause) as [cj|] eqn:Ej; [|exact I].
        destruct (prior_cause O cur cause (terms ci) (terms cj) p) as [pc|] eqn:Epc; [|exact I].
        cbn [alloc]. apply IH.
        * split; [|exact Hp]. apply (alloc_ok st pc Hok). exact (J_der _ _ cur cause ci cj p Ec Ej Epc).
        * intros _. exists pc. cbn [store]. unfold prior_cause, bind, req in Epc.
          destruct (get p (terms ci)); [|discriminate]. destruct (get p (terms cj)); [|discriminate].
          injection Epc as <-. eexists _, _. split; [apply nth_error_snoc|reflexivity].
  Qed.

  Lemma scan_incompats_ok ids : forall st buffer st' b' c,
    full_ok st -> scan_incompats O ids st buffer = Good (st', b', c) ->
    full_ok st' /\ store st' = store st.
  Proof.
    induction ids as [|id ids IH]; intros st buffer st' b' c Hst; cbn [scan_incompats].
    - intros E. injection E as <- _ _. split; [exact Hst|reflexivity].
    - destruct (cached id (contradicted st)); [now apply IH|].
      unfold bind, req. destruct (nth_error (store st) id) as [ci|] eqn:Ec; [|discriminate].
      destruct Hst as [Hok Hp]. pose proof Hok as (Hs & Hm & Hr & Hv).
      destruct (relation O (terms ci) (term_for (ps st))) as [| |q|].
      + intros E. injection E as <- _ _. split; [split; assumption|reflexivity].
      + intros E. apply IH in E; [exact E|]. split; [|exact Hp]. split; [exact Hs|split; [exact Hm|split; assumption]].
      + destruct (add_derivation O (ps st) q id (terms ci)) as [p'|] eqn:Ed; [|discriminate].
        intros E. apply IH in E; [exact E|]. split.
        * split; [exact Hs|split; [exact Hm|split; assumption]].
        * cbn [ps upd_cache upd_ps]. eapply add_derivation_wf; [exact Hp| |exact Ed].
          eapply store_just_wf; eauto.
      + intros E. now apply IH in E.
  Qed.

  Lemma unit_propagation_ok fuel : forall st buffer,
    full_ok st ->
    match unit_propagation O fuel st buffer with
    | inl (UPOk st') => full_ok st'
    | inl (UPConflict st' id) => full_ok st' /\ terminal_at st' id
    | inr _ => True
    end.
  Proof.
    induction fuel as [|fuel IH]; intros st buffer Hst; cbn [unit_propagation]; [exact I|].
    destruct (rev buffer) as [|cur rest]; [exact Hst|].
    destruct (get cur (index st)) as [ids|]; [|exact I].
    destruct (scan_incompats O (rev ids) st (rev rest)) as [[[st1 b2] [conflict|]]|] eqn:Es; [| |exact I].
    - destruct (scan_incompats_ok _ _ _ _ _ _ Hst Es) as [H1 _].
      pose proof (conflict_resolution_ok fuel st1 conflict false H1 ltac:(discriminate)) as Hcr.
      destruct (conflict_resolution O fuel st1 conflict false) as [[st2 q rc|st2 id]|]; [| exact Hcr|exact I].
      destruct (nth_error (store st2) rc) as [rci|] eqn:Er; [|exact I].
      destruct (add_derivation O (ps st2) q rc (terms rci)) as [p'|] eqn:Ed; [|exact I].
      apply IH. destruct Hcr as [Hok Hp]. pose proof Hok as (Hs & Hm & Hr & Hv). split.
      + split; [exact Hs|split; [exact Hm|split; assumption]].
      + cbn [ps upd_cache upd_ps]. eapply add_derivation_wf; [exact Hp| |exact Ed]. eapply store_just_wf; eauto.
    - apply IH. exact (proj1 (scan_incompats_ok _ _ _ _ _ _ Hst Es)).
  Qed.

  (* ---------------------------------------------------------------- resolve *)
  Hypothesis veqb_eq : forall a b, veqb a b = true -> a = b.

  Notation Solution := (Solution O reg r rv).

  Lemma full_ok_upd_ps st p' :
    full_ok st -> ps_wf p' -> full_ok (upd_ps st p').
  Proof. intros [(Hs & Hm & Hr & Hv) _] Hp. split; [split; [exact Hs|split; [exact Hm|split; assumption]]|exact Hp]. Qed.

  Lemma add_version_wf p q v range stl p' :
    ps_wf p -> add_version O p q v range stl = Good p' -> ps_wf p'.
  Proof.
    intros H. unfold add_version. destruct (negb (backtracked p)); [now apply add_decision_wf|].
    destruct (forallb _ _); [now apply add_decision_wf|]. intros E. now injection E as <-.
  Qed.

  Lemma add_from_dependencies_ps st p v deps st' range :
    add_incompatibility_from_dependencies O st p v deps = Good (st', range) -> ps st' = ps st.
  Proof.
    unfold add_incompatibility_from_dependencies, bind.
    destruct (merge_range O _ _) as [st2|] eqn:E; [|discriminate].
    intros H. injection H as <- _. now rewrite (merge_range_ps _ _ _ E).
  Qed.

  Lemma add_incompatibility_ps st i st' : add_incompatibility O st i = Good st' -> ps st' = ps st.
  Proof. unfold add_incompatibility. cbn. intros H. now rewrite (merge_incompatibility_ps _ _ _ H). Qed.

  Lemma resolve_loop_ok fuel : forall st next added tr n log,
    full_ok st -> WellBehaved O reg tr ->
    let '(o, st', _, _) := resolve_loop O veqb fuel st next added tr n log in
    full_ok st' /\ (forall t, o = ONoSolution t ->
                     exists id, build_derivation_tree (store st') id = Some t /\ terminal_at st' id).
  Proof.
    induction fuel as [|fuel IH]; intros st next added tr n log Hst Hwb; cbn [resolve_loop].
    { split; [exact Hst|discriminate]. }
    destruct tr as [|[ok| | |] tr1]; try (split; [exact Hst|discriminate]).
    destruct ok; cbn [negb]; [|split; [exact Hst|discriminate]].
    apply Forall_inv_tail in Hwb.
    pose proof (unit_propagation_ok (S fuel) st [next] Hst) as Hup.
    destruct (unit_propagation O (S fuel) st [next]) as [[st1|st1 id]|[|s]];
      try (split; [exact Hst|discriminate]).
    2:{ destruct Hup as [H1 (i & Hi & Ht)].
        destruct (build_derivation_tree (store st1) id) as [t0|] eqn:Eb; (split; [exact H1|]); [|discriminate].
        intros t1 Et. injection Et as <-. exists id. split; [exact Eb|]. exists i. split; assumption. }
    (* prioritize calls *)
    assert (Hprio : forall cands q tr0 k,
               WellBehaved O reg tr0 ->
               match do_prioritize O cands q tr0 k with
               | inl (_, tr', _) => WellBehaved O reg tr'
               | inr o => exists k' w, o = OMismatch k' w
               end).
    { induction cands as [|[pc sc] cands IHc]; intros q tr0 k Hw; cbn [do_prioritize]; [exact Hw|].
      destruct tr0 as [|[| p' s' prio | |] tr0']; try (eexists _, _; reflexivity).
      destruct (N.eqb pc p' && vs_eqb O sc s'); [|eexists _, _; reflexivity]. apply IHc. now apply Forall_inv_tail in Hw. }
    specialize (Hprio (pick_candidates (ps st1)) (queue (ps st1)) tr1 (S n) Hwb).
    destruct (do_prioritize O (pick_candidates (ps st1)) (queue (ps st1)) tr1 (S n)) as [[[q tr2] n2]|o];
      [|split; [exact Hup|]; destruct Hprio as (k' & w & ->); discriminate].
    set (p1 := ps st1). set (log1 := log ++ [(undecided_positive p1, q, n2)]).
    assert (Hwq : forall q', ps_wf {| next_gidx := next_gidx p1; level := level p1; assignments := assignments p1;
                                      queue := q'; changed := length (assignments p1); backtracked := backtracked p1 |}).
    { intros q'. exact (proj2 Hup). }
    destruct (queue_max q) as [mx|].
    2:{ unfold res_out. destruct (extract_solution p1); (split; [|discriminate]); [|exact Hup].
        apply full_ok_upd_ps; [exact Hup|apply Hwq]. }
    destruct tr2 as [|[| |p s ans|] tr3]; try (split; [exact Hup|discriminate]).
    destruct (get p q) as [[prio qs]|]; [|split; [exact Hup|discriminate]].
    destruct (negb (Z.eqb prio mx)); [split; [exact Hup|discriminate]|].
    set (st2 := upd_ps st1 _).
    assert (H2 : full_ok st2) by (apply full_ok_upd_ps; [exact Hup|apply Hwq]).
    pose proof (Forall_inv Hprio) as Hev. apply Forall_inv_tail in Hprio.
    destruct (term_for (ps st2) p) as [ti|] eqn:Eti; [|split; [exact H2|discriminate]].
    destruct ti as [cur_set|cur_set]; [|split; [exact H2|discriminate]].
    destruct (vs_eqb O s cur_set) eqn:Es; cbn [negb]; [|split; [exact H2|discriminate]].
    apply (vs_eqb_spec O L) in Es. subst s.
    assert (Wcur : wf O L cur_set) by exact (term_for_wf _ _ _ (proj2 H2) Eti).
    destruct ans as [v| |]; [| |split; [exact H2|discriminate]].
    - (* a version was chosen *)
      destruct (negb (t_contains O (Pos cur_set) v)); [split; [exact H2|discriminate]|].
      destruct (added_has veqb added p v).
      + unfold res_out. destruct (add_decision O (ps st2) p v) as [p'|] eqn:Ed; [|split; [exact H2|discriminate]].
        apply IH; [|exact Hprio]. apply full_ok_upd_ps; [exact H2|]. eapply add_decision_wf; [exact (proj2 H2)|exact Ed].
      + destruct tr3 as [|[| | |p' v' dans] tr4]; try (split; [exact H2|discriminate]).
        destruct (N.eqb_spec p p') as [<-|]; cbn [andb negb]; [|split; [exact H2|discriminate]].
        destruct (veqb v v') eqn:Ev; cbn [negb]; [|split; [exact H2|discriminate]].
        apply veqb_eq in Ev. subst v'.
        pose proof (Forall_inv Hprio) as Hev2. apply Forall_inv_tail in Hprio.
        destruct dans as [deps|m|]; [| |split; [exact H2|discriminate]].
        * (* dependencies available *)
          unfold res_out.
          destruct (add_incompatibility_from_dependencies O st2 p v deps) as [[st3 range]|] eqn:Ea;
            [|split; [exact H2|discriminate]].
          assert (H3 : full_ok st3).
          { split.
            - eapply add_from_dependencies_ok; [exact (proj1 H2)| |exact Ea].
              intros qd sd Hin. cbn in Hev2. destruct Hev2 as (ds' & Hd & Hiff).
              apply Hiff in Hin. split; [exact (Hregwf _ _ _ _ _ Hd Hin)|].
              eapply declares_singleton; eauto.
            - rewrite (add_from_dependencies_ps _ _ _ _ _ _ Ea). exact (proj2 H2). }
          destruct (add_version O (ps st3) p v range (store st3)) as [p'|] eqn:Eav; [|split; [exact H3|discriminate]].
          apply IH; [|exact Hprio]. apply full_ok_upd_ps; [exact H3|].
          eapply add_version_wf; [exact (proj2 H3)|exact Eav].
        * (* dependencies unavailable *)
          unfold res_out.
          destruct (add_incompatibility O st2 (custom_version O p v m)) as [st3|] eqn:Ea; [|split; [exact H2|discriminate]].
          apply IH; [|exact Hprio]. split.
          -- eapply add_incompatibility_ok; [exact (proj1 H2)| |exact Ea].
             unfold ext_ok. cbn [ikind custom_version]. split; [reflexivity|]. exists v. split; [reflexivity|exact Hev2].
          -- rewrite (add_incompatibility_ps _ _ _ Ea). exact (proj2 H2).
    - (* no version: the NoVersions incompatibility *)
      cbn [no_versions]. unfold res_out.
      destruct (add_incompatibility O st2 _) as [st3|] eqn:Ea; [|split; [exact H2|discriminate]].
      apply IH; [|exact Hprio]. split.
      + eapply add_incompatibility_ok; [exact (proj1 H2)| |exact Ea].
        unfold ext_ok. cbn [ikind]. split; [reflexivity|]. split; [exact Wcur|exact Hev].
      + rewrite (add_incompatibility_ps _ _ _ Ea). exact (proj2 H2).
  Qed.

  Lemma state_init_ok : full_ok (state_init O r rv).
  Proof.
    split; [|constructor]. split; [|split; [|split; reflexivity]].
    - change (store (state_init O r rv)) with ([] ++ [not_root O r rv]). apply SJ_snoc; [constructor|].
      apply J_ext. unfold ext_ok. cbn. auto.
    - intros k l id Hg. discriminate.
  Qed.

  (* C06 / C02 for the model *)
  Theorem resolve_store_valid fuel tr o st log k :
    WellBehaved O reg tr -> resolve O veqb fuel r rv tr = (o, st, log, k) ->
    (forall id i, nth_error (store st) id = Some i -> Valid O reg r rv (terms i))
    /\ (forall t, o = ONoSolution t -> forall a, ~ Solution a).
  Proof.
    intros Hwb E. unfold resolve in E.
    pose proof (resolve_loop_ok fuel (state_init O r rv) r [] tr 0 [] state_init_ok Hwb) as H.
    rewrite E in H. destruct H as [Hok Hn]. split.
    - intros id i Hi. exact (proj2 (proj2 (store_just_nth _ (proj1 (proj1 Hok)) id i Hi))).
    - intros t Et a. destruct (Hn t Et) as (id & _ & i & Hi & Ht).
      eapply terminal_no_solution; [|exact Ht].
      exact (proj2 (proj2 (store_just_nth _ (proj1 (proj1 Hok)) id i Hi))).
  Qed.

  Theorem resolve_nosolution_tree fuel tr t st log k :
    WellBehaved O reg tr -> resolve O veqb fuel r rv tr = (ONoSolution t, st, log, k) ->
    store_just (store st) /\ exists id, build_derivation_tree (store st) id = Some t /\ terminal_at st id.
  Proof.
    intros Hwb E. unfold resolve in E.
    pose proof (resolve_loop_ok fuel (state_init O r rv) r [] tr 0 [] state_init_ok Hwb) as H.
    rewrite E in H. destruct H as [Hok Hn]. split; [exact (proj1 (proj1 Hok))|]. exact (Hn t eq_refl).
  Qed.
End Store.
