(* C05 (model side): the extra law [singleton_atomic] holds for the two concrete version sets of the development
   (Range over any ordered version type, and the finite bitset), and non-vacuity of the panic-freedom theorems:
   concrete recorded runs that meet every hypothesis, the theorems applied to them for EVERY amount of fuel. *)
From Coq Require Import Orders OrdersFacts List Bool NArith ZArith.
From PG Require Import Model.Text Model.VS Model.Term Model.Range Model.Solver Model.Registry Model.Instances
  Proofs.VSLaws Proofs.BitsetLawful Proofs.RangeVS Proofs.SolverSem Proofs.SolverExamples Proofs.SolverReachExample
  Proofs.SolverNoPanic1 Proofs.SolverNoPanic.
Import ListNotations.

(* ---- Range<V>: the singleton [(Incl v, Incl v)] contains the single point [P v At] ---- *)
Module RangeAtomicP (V : UsualOrderedTypeFull).
  Module Export RVi := RangeVSP V.

  Lemma range_singleton_atomic : singleton_atomic range_vs range_lawful.
  Proof.
    intros v u H. change (memb (singleton v) u = true) in H. change (u = P v At).
    apply memb_den in H. unfold singleton in H. rewrite single_seg_den in H.
    cbn [lo_of hi_of] in H. destruct H. porder.
  Qed.
End RangeAtomicP.

(* the instance used by the recorded runs (Range<Z>, [zlaw] of SolverExamples.v) *)
Module ZAtomic.
  Import EZ.
  Lemma z_singleton_atomic : singleton_atomic zvs zlaw.
  Proof.
    intros v u H. change (memb (singleton v) u = true) in H. change (u = P v At).
    apply memb_den in H. unfold singleton in H. rewrite single_seg_den in H.
    cbn [lo_of hi_of] in H. destruct H. porder.
  Qed.
End ZAtomic.
Definition z_singleton_atomic := ZAtomic.z_singleton_atomic.

(* ---- the bitset: the universe is the set of versions, so [mem_singleton] is already atomicity ---- *)
Lemma bitset_singleton_atomic : singleton_atomic bitset_vs bitset_lawful.
Proof. intros v u H. exact (proj1 (mem_singleton bitset_vs bitset_lawful v u) H). Qed.

(* ---- non-vacuity: the recorded runs of SolverExamples.v / SolverReachExample.v never panic, whatever the fuel ---- *)
Local Open Scope Z_scope.

(* run 1: ends in NoSolution (package 2 has no version) *)
Example run1_no_panic fuel o st log cnt s : resolve zvs Z.eqb fuel 0%N 2 tr1 = (o, st, log, cnt) -> o <> OPanic s.
Proof.
  intros E. exact (resolve_no_panic zvs zlaw Z.eqb reg1 0%N 2 z_singleton_atomic reg1_wf zeqb_eq fuel tr1 o st log cnt tr1_wb E s).
Qed.

(* run 2: a conflict from a self-dependency, one backtrack, then a solution *)
Example run2_no_panic fuel o st log cnt s : resolve zvs Z.eqb fuel 0%N 1 tr2 = (o, st, log, cnt) -> o <> OPanic s.
Proof.
  intros E. exact (resolve_no_panic zvs zlaw Z.eqb reg2 0%N 1 z_singleton_atomic reg2_wf zeqb_eq fuel tr2 o st log cnt tr2_wb E s).
Qed.

(* run 3: a decision is backtracked after a NoVersions conflict (two resolution steps) *)
Example run3_no_panic fuel o st log cnt s : resolve zvs Z.eqb fuel 0%N 1 tr3 = (o, st, log, cnt) -> o <> OPanic s.
Proof.
  intros E. exact (resolve_no_panic zvs zlaw Z.eqb reg3 0%N 1 z_singleton_atomic reg3_wf zeqb_eq fuel tr3 o st log cnt tr3_wb E s).
Qed.

Lemma tr3_choose_contained : choose_contained zvs tr3.
Proof.
  intros p s v Hin. unfold tr3 in Hin. cbn [In] in Hin.
  repeat (destruct Hin as [Hin|Hin]; [try discriminate; injection Hin as <- <- <-; vm_compute; reflexivity|]). destruct Hin.
Qed.

Lemma tr3_no_error_answers : no_error_answers tr3.
Proof.
  unfold no_error_answers, tr3. cbn [In]. repeat split; intros; intuition discriminate.
Qed.

(* with enough fuel the model ends in Ok; with any fuel it ends in one of the five allowed outcomes *)
Example run3_outcome fuel o st log cnt :
  resolve zvs Z.eqb fuel 0%N 1 tr3 = (o, st, log, cnt) ->
  (exists sol, o = OSolution sol) \/ (exists t, o = ONoSolution t) \/ o = OOutOfFuel
  \/ (exists k w, o = OMismatch k w) \/ (exists k p, o = OPickNotMax k p).
Proof.
  exact (resolve_ok_or_nosolution zvs zlaw Z.eqb reg3 0%N 1 z_singleton_atomic reg3_wf zeqb_eq fuel tr3 o st log cnt
           tr3_wb tr3_choose_contained tr3_no_error_answers).
Qed.

Module ZA := RangeAtomicP ZV.
Print Assumptions ZA.range_singleton_atomic.
Print Assumptions z_singleton_atomic.
Print Assumptions bitset_singleton_atomic.
Print Assumptions run1_no_panic.
Print Assumptions run2_no_panic.
Print Assumptions run3_no_panic.
Print Assumptions run3_outcome.
