(* The capstone with every per-run guarantee.

   [resolve_g_total_correctness] (Proofs/SolverEndToEnd.v) strengthened with the other guarantees that the
   development proves about [resolve] runs on well-behaved traces, transported to the run of the generating
   model [resolve_g] against a provider that [serves] a finite registry:
     - the trace is a recording of the provider and has at most [Events0] calls            (C05)
     - the trace follows the provider protocol (all clauses of Props/Properties_C12.v)       (C12)
     - Ok: a genuine solution, no package twice, only offered versions                      (C01)
           and only packages reachable from the root                                         (C04)
     - NoSolution: the registry has no solution                                              (C02)
           and the derivation tree is a checkable proof of that                              (C03)

   Route: as in Proofs/SolverEndToEnd.v the generated run is a [resolve] run on the well-behaved trace
   [tr ++ la] that consumes exactly [length tr] events; the run terminates with Ok or NoSolution
   (SolverTerm), for which the lookahead [la] is empty, so the run is a [resolve] run on [tr] itself that consumes
   all of [tr]; the per-run theorems are then applied to it. *)
From Coq Require Import List NArith ZArith Bool Lia PeanoNat Permutation.
From PG Require Import Model.VS Model.Term Model.Heap Model.Solver Model.Registry Proofs.VSLaws Proofs.SolverSem
  Proofs.AssocProofs Proofs.SolverStore Proofs.SolverShared Proofs.SolverProto2 Proofs.SolverNoPanic1 Proofs.SolverNoPanic
  Proofs.SolverTerm1 Proofs.SolverTerm4 Proofs.SolverTerm Proofs.SolverQueue2 Proofs.SolverSound
  Proofs.SolverTrace Proofs.SolverDet Proofs.HeapProofs Proofs.SolverDetQueue Proofs.SolverDetInst Proofs.SolverGen
  Proofs.SolverProtocol Proofs.SolverTree Proofs.SolverReach Proofs.SolverEndToEnd.
Import ListNotations.

(* ================================================================ the scanner accepts every suffix in some phase *)
Section ShapeSuffix.
  Context {VS Vr : Type} (veqb : Vr -> Vr -> bool).
  Notation event := (@event VS Vr).

  Lemma shape_suffix : forall (pre : list event) ph added suf,
    shape veqb ph added (pre ++ suf) = true -> exists ph' added', shape veqb ph' added' suf = true.
  Proof.
    induction pre as [|e pre IH]; intros ph added suf H.
    - exists ph, added. exact H.
    - assert (Hnil : is_nil (pre ++ suf) = true -> exists ph' added', shape veqb ph' added' suf = true).
      { intros Hn. destruct pre as [|e0 pre0]; [|discriminate Hn].
        destruct suf as [|e1 suf1]; [|discriminate Hn]. exists (@P0 Vr), []. reflexivity. }
      cbn [app shape] in H.
      destruct ph as [| |q w]; destruct e as [[|]|x s z|x s [v| |]|x v [ds|m|]];
        try discriminate H; try (apply andb_prop in H as [_ H]); eauto.
      destruct (added_has veqb added x v); eauto.
  Qed.
End ShapeSuffix.

(* ================================================================ end to end, every guarantee *)
Section EndToEndFull.
  Context {VS Vr : Type} (O : VSOps VS Vr) (L : VSLawful O) (veqb : Vr -> Vr -> bool).
  Context (reg : registry (VS := VS) (Vr := Vr)) (r : pkg) (rv : Vr).
  Variable R : Ranked O L.
  Variable pkgs : list pkg.
  Notation event := (@event VS Vr).
  Notation tprovider := (@tprovider VS Vr).

  Theorem resolve_g_total_correctness_full :
    singleton_atomic O L -> reg_wf O L reg ->
    (forall a b, veqb a b = true -> a = b) -> (forall v, veqb v v = true) -> (forall s, vs_eqb O s s = true) ->
    finite_registry O L reg r rv R pkgs ->
    forall (pg : tprovider) fuel res (tr : list event),
      serves O reg pg -> Fuel1 O L R pkgs <= fuel ->
      resolve_g O veqb pg fuel r rv = (res, tr) ->
      (* C05: bounded number of calls *)
      length tr <= Events0 O L R pkgs
      (* the trace is a recording of the provider *)
      /\ generated_by (to_provider pg) [] tr
      (* C12: the protocol; every clause of Props/Properties_C12.v *)
      /\ (   (* protocol_consumed_trace_partial: the structural scanner accepts the trace *)
             shape veqb (P0 (Vr := Vr)) [] tr = true
             (* protocol_first_cancel *)
          /\ match tr with [] => True | e :: _ => exists ok, e = EvCancel ok end
             (* protocol_after_choose *)
          /\ (forall (pre : list event) p s a (rest : list event), tr = pre ++ EvChoose p s a :: rest ->
                match rest with
                | [] => True
                | EvCancel _ :: _ => True
                | EvDeps p' v' _ :: rest' =>
                    (exists v, a = CSome v /\ N.eqb p p' && veqb v v' = true) /\
                    match rest' with [] => True | EvCancel _ :: _ => True | _ => False end
                | _ => False
                end)
             (* protocol_deps_preceded *)
          /\ (forall (pre : list event) p' v' a rest, tr = pre ++ EvDeps p' v' a :: rest ->
                exists pre0 p s v, pre = pre0 ++ [EvChoose p s (CSome v)] /\ N.eqb p p' && veqb v v' = true)
             (* protocol_deps_once *)
          /\ NoDup (deps_of tr)
             (* protocol_choose_set_is_last_prioritized *)
          /\ (forall i p s a, nth_error tr i = Some (EvChoose p s a) -> exists z, last_prio_at tr i p s z)
             (* protocol_choose_set_nonempty *)
          /\ (forall i p s a, nth_error tr i = Some (EvChoose p s a) ->
                s <> vs_empty O /\ vs_eqb O s (vs_empty O) = false)
             (* protocol_first_query_is_root *)
          /\ (forall i p s a, nth_error tr i = Some (EvChoose p s a) ->
                (forall j e, j < i -> nth_error tr j = Some e -> is_choose e = false) ->
                p = r /\ s = vs_singleton O rv /\ i = 2 /\
                exists z, firstn i tr = [EvCancel true; EvPrioritize r (vs_singleton O rv) z]))
      /\ ((exists sol, fst (fst (fst res)) = OSolution sol
             (* C01 *)
             /\ Solution O reg r rv (fun p => get p sol)
             /\ NoDup (map fst sol) /\ (forall p v, In (p, v) sol -> In v (reg_versions reg p))
             (* C04 *)
             /\ (forall p v, In (p, v) sol -> reach reg r sol p))
          \/ (exists t, fst (fst (fst res)) = ONoSolution t
             (* C02 *)
             /\ (forall a, ~ Solution O reg r rv a)
             (* C03 *)
             /\ tree_ok O reg r rv t /\ top_forbids_root O r rv t)).
  Proof.
    intros Hat Hwf Hveq Hvrefl Hsrefl (F1 & F2 & F3 & F4 & F5) pg fuel res tr Hserv Hfuel Hg.
    destruct (resolve_g_is_accepted_run O veqb Hsrefl Hvrefl pg fuel r rv res tr Hg)
      as (Hgen0 & Hlen & la & Hgen & Hres & Hla).
    pose proof (resolve_g_no_mismatch O veqb pg fuel r rv res tr) as Hnm.
    assert (Hn6 : forall k, fst (fst (fst (resolve_h O veqb fuel r rv (tr ++ la)))) <> OMismatch k 6).
    { intros k. rewrite Hres. exact (Hnm k 6%N Hg). }
    pose proof (resolve_h_erasure O veqb fuel r rv (tr ++ la) Hn6) as Her. rewrite Hres in Her.
    pose proof (resolve_h_pick_is_max O veqb fuel r rv (tr ++ la)) as Hpm. rewrite Hres in Hpm.
    destruct (good_trace O reg _ (serves_generated_good O reg pg Hserv _ _ Hgen)) as (Hwb & Hcc & Hne).
    destruct res as [[[o st] log] cnt]. cbn [fst snd] in *. symmetry in Her.
    destruct (resolve_terminates O L veqb reg r rv Hat Hwf Hveq R pkgs F1 F2 F3 F4 F5
                fuel (tr ++ la) o st log cnt Hwb Hcc Hne Hfuel Her) as [Hout Hcnt].
    (* the outcome is Ok or NoSolution *)
    assert (Hfin : (exists sol, o = OSolution sol) \/ (exists t, o = ONoSolution t)).
    { destruct Hout as [(sol & ->)|[(t & ->)|[(k & w & ->)|(k & p & ->)]]].
      - left. eauto.
      - right. eauto.
      - exfalso. exact (Hnm k w Hg eq_refl).
      - exfalso. exact (Hpm k p eq_refl). }
    (* hence no lookahead: the run is a [resolve] run on [tr] that consumes all of it *)
    assert (Ela : la = []).
    { destruct Hla as [E|[Hc _]]; [exact E|]. exfalso.
      destruct Hfin as [(sol & ->)|(t & ->)]; cbn [stops_before_choose] in Hc; discriminate Hc. }
    subst la. rewrite app_nil_r in *. subst cnt.
    pose proof (wellbehaved_trace_wf O L reg tr Hwf Hwb) as Htwf.
    assert (Hshape : shape veqb (P0 (Vr := Vr)) [] tr = true).
    { pose proof (resolve_protocol O veqb fuel r rv tr) as H. cbn zeta in H. rewrite Her in H. cbn [snd] in H.
      rewrite firstn_all in H. exact H. }
    assert (Hlt : forall i e, nth_error tr i = Some e -> i < length tr).
    { intros i e Hn. apply nth_error_Some. rewrite Hn. discriminate. }
    split; [exact Hcnt|]. split; [exact Hgen0|]. split.
    { (* C12 *)
      split; [exact Hshape|]. split; [exact (shape_first_cancel veqb [] tr Hshape)|].
      split.
      { intros pre p s a rest ->.
        destruct (shape_suffix veqb pre _ _ _ Hshape) as (ph' & added' & Hs).
        exact (shape_after_choose veqb ph' added' p s a rest Hs). }
      split.
      { intros pre p' v' a rest ->.
        destruct (shape_deps_preceded veqb pre _ _ p' v' a rest Hshape) as [(_ & p & v & E & _)|H]; [discriminate E|exact H]. }
      split; [exact (proj2 (shape_deps_fresh veqb Hvrefl Hveq tr P0 [] I Hshape))|].
      split.
      { intros i p s a Hn.
        exact (resolve_choose_set O L veqb fuel r rv tr o st log (length tr) i p s a Htwf Her (Hlt _ _ Hn) Hn). }
      split.
      { intros i p s a Hn. split.
        - exact (resolve_choose_nonempty O L veqb fuel r rv tr o st log (length tr) i p s a Htwf Her (Hlt _ _ Hn) Hn).
        - exact (resolve_choose_nonempty_eqb O L veqb fuel r rv tr o st log (length tr) i p s a Htwf Her (Hlt _ _ Hn) Hn). }
      intros i p s a Hn Hmin.
      exact (resolve_first_choose O L veqb fuel r rv tr o st log (length tr) i p s a Her (Hlt _ _ Hn) Hn Hmin). }
    destruct Hfin as [(sol & ->)|(t & ->)].
    - left. exists sol. split; [reflexivity|].
      assert (Hs : Solution O reg r rv (fun p => get p sol) /\ NoDup (map fst sol)
                   /\ (forall p v, In (p, v) sol -> In v (reg_versions reg p))).
      { refine (resolve_ok_sound_full O L veqb reg r rv Hwf Hveq fuel tr sol st log (length tr) Hwb Her _).
        intros k cands q n2 x s Hk Hin.
        exact (resolve_fresh O L veqb fuel r rv tr _ st log (length tr) k cands q n2 x s Htwf Her Hk Hin). }
      destruct Hs as (Hs1 & Hs2 & Hs3).
      split; [exact Hs1|]. split; [exact Hs2|]. split; [exact Hs3|].
      exact (SolverReach.resolve_ok_reachable O L veqb reg r rv Hwf Hveq fuel tr sol st log (length tr) Hwb Her).
    - right. exists t. split; [reflexivity|]. split.
      + exact (proj2 (resolve_store_valid O L veqb reg r rv Hwf Hveq fuel tr _ st log (length tr) Hwb Her) t eq_refl).
      + exact (nosolution_tree_is_proof O L veqb reg r rv Hwf Hveq fuel tr t st log (length tr) Hwb Her).
  Qed.
End EndToEndFull.

Print Assumptions resolve_g_total_correctness_full.
