(* C15: simplify. *)
From Coq Require Import Orders OrdersFacts List Bool Lia.
From PG Require Import Model.Text Model.Range Proofs.PosOrder Proofs.RangeTables Proofs.RangeSem
  Proofs.RangeInter Proofs.RangeMore Proofs.RangeCompl Proofs.RangeCtors Proofs.RangeQueries.

Module RangeSimplifyP (V : UsualOrderedTypeFull).
  Module Export RQ := RangeQueriesP V.

  Definition is_some {A} (o : option A) : bool := match o with Some _ => true | None => false end.

  Lemma loc_cursor_cursor v i segs :
    let '(o, i', segs') := loc_cursor v i segs in
    cursor v segs = (is_some o, segs') /\ (o = Some i' \/ o = None).
  Proof.
    revert i; induction segs as [|s segs IH]; intros i; cbn [loc_cursor cursor].
    - split; [reflexivity|now right].
    - destruct (within_bounds v s).
      + split; [reflexivity|now left].
      + split; [reflexivity|now right].
      + apply IH.
  Qed.

  Lemma version_locations_contains_many i segs vs :
    map is_some (version_locations i segs vs) = contains_many segs vs.
  Proof.
    revert i segs; induction vs as [|v vs IH]; intros i segs; [reflexivity|].
    cbn [version_locations contains_many]. pose proof (loc_cursor_cursor v i segs) as H.
    destruct (loc_cursor v i segs) as [[o i'] segs']. destruct H as [-> _]. cbn [map]. now rewrite IH.
  Qed.

  Lemma gal_all_none locs : Forall (fun o => o = None) locs -> gal None locs = [] .
  Proof. induction 1 as [|o locs -> _ IH]; cbn; auto. Qed.

  Lemma gal_all_some s e locs :
    Forall (fun o => is_some o = true) locs -> gal (Some (s, e)) locs = [(s, None)] .
  Proof.
    revert e; induction locs as [|o locs IH]; intros e H; cbn [gal]; [reflexivity|].
    inversion H as [|? ? Ho Hl]; subst. destruct o as [ver|]; [|discriminate]. apply (IH (Some ver) Hl).
  Qed.

  Lemma simplify_singleton r : as_singleton r <> None -> forall vs, simplify r vs = r.
  Proof. intros H vs. unfold simplify. destruct (as_singleton r); [reflexivity|congruence]. Qed.

  Lemma simplify_none r vs :
    canonical r -> Sorted.StronglySorted V.le vs ->
    existsb (contains r) vs = false -> simplify r vs = r.
  Proof.
    intros Hc Hs He. unfold simplify. destruct (as_singleton r); [reflexivity|].
    assert (Hall : Forall (fun o => o = None) (version_locations 0 r vs)).
    { pose proof (version_locations_contains_many 0 r vs) as Hm.
      rewrite contains_many_spec in Hm by assumption.
      apply Forall_forall. intros o Ho. destruct o as [n|]; [|reflexivity]. exfalso.
      apply (in_map is_some) in Ho. rewrite Hm in Ho. cbn in Ho. apply in_map_iff in Ho.
      destruct Ho as (v & Hv & Hin). apply Bool.not_true_iff_false in He. apply He.
      apply existsb_exists. eauto. }
    destruct (version_locations 0 r vs) as [|o locs]; [reflexivity|].
    cbn [group_adjacent_locations]. inversion Hall as [|? ? -> Hl]; subst.
    now rewrite (gal_all_none locs Hl).
  Qed.

  Lemma simplify_all r vs :
    canonical r -> Sorted.StronglySorted V.le vs -> vs <> [] -> as_singleton r = None ->
    forallb (contains r) vs = true -> simplify r vs = full.
  Proof.
    intros Hc Hs Hne Hsing Ha. unfold simplify. rewrite Hsing.
    assert (Hall : Forall (fun o => is_some o = true) (version_locations 0 r vs)).
    { pose proof (version_locations_contains_many 0 r vs) as Hm.
      rewrite contains_many_spec in Hm by assumption.
      apply Forall_forall. intros o Ho. apply (in_map is_some) in Ho. rewrite Hm in Ho.
      apply in_map_iff in Ho. destruct Ho as (v & <- & Hin). rewrite forallb_forall in Ha. auto. }
    assert (Hlen : length (version_locations 0 r vs) = length vs).
    { rewrite <- (map_length is_some), version_locations_contains_many, contains_many_spec, map_length by assumption. reflexivity. }
    destruct (version_locations 0 r vs) as [|o locs].
    - destruct vs; [congruence|discriminate].
    - cbn [group_adjacent_locations]. inversion Hall as [|? ? Ho Hl]; subst.
      destruct o as [ver|]; [|discriminate].
      rewrite (gal_all_some None (Some ver) locs Hl). reflexivity.
  Qed.

End RangeSimplifyP.
