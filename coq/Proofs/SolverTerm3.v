(* C05 (model side), termination, part 3: conflict resolution does not run out of fuel.
   The invariant of the loop of [conflict_resolution] is "the current incompatibility is satisfied by the
   partial solution as it was just before the assignment with global index g" ([sat_before g]); the rule of
   resolution strictly decreases g ([resolve_before]): the satisfier found by [satisfier_search] has a global
   index below g, and the prior cause is satisfied just before the satisfier.  Hence [fuel > next_gidx]
   suffices ([cr_fuel]). *)
From Coq Require Import List NArith ZArith Bool Lia PeanoNat.
From PG Require Import Model.VS Model.Term Model.Solver Model.Registry Proofs.VSLaws Proofs.TermProofs
  Proofs.AssocProofs Proofs.SolverSem Proofs.SolverStore Proofs.SolverQueue Proofs.SolverSound1 Proofs.SolverSound2
  Proofs.SolverSound Proofs.SolverReach1 Proofs.SolverReach2 Proofs.SolverNoPanic1 Proofs.SolverNoPanic2
  Proofs.SolverProto2.
Import ListNotations.

Section Term3.
  Context {VS Vr : Type} (O : VSOps VS Vr) (L : VSLawful O) (veqb : Vr -> Vr -> bool).
  Context (reg : registry (VS := VS) (Vr := Vr)) (r : pkg) (rv : Vr).
  Hypothesis Hat : singleton_atomic O L.

  Notation tm := (term VS).
  Notation pa := (@pa VS Vr).
  Notation dated := (@dated VS).
  Notation psol := (@psol VS Vr).
  Notation state := (@state VS Vr).
  Notation incompat := (@incompat VS Vr).
  Notation full_ok := (full_ok O L reg r rv).
  Notation inc_ok := (inc_ok O L reg r rv).
  Notation jinv := (jinv O L reg r rv).
  Notation ninv := (ninv O L reg r rv).
  Notation ps_wf := (ps_wf O L).
  Notation pa_wf := (pa_wf O L).
  Notation twf := (twf O L).
  Notation twf_all := (twf_all O L).
  Notation tleU := (tleU O L).
  Notation sat_nowU := (sat_nowU O L).
  Notation rchainU := (rchainU O L).
  Notation ps_chainU := (ps_chainU O L).
  Notation ps_chain := (ps_chain O).
  Notation pa_chain := (pa_chain O).
  Notation lookup_before := (lookup_before (Vr := Vr)).
  Notation term_before := (term_before (Vr := Vr)).
  Local Notation asg st := (assignments (ps st)).

  (* ---------------------------------------------------------------- global indices are distinct *)
  Definition ginj (p : psol) : Prop :=
    forall q1 a1 q2 a2 g l1 l2,
      get q1 (assignments p) = Some a1 -> evt a1 g l1 ->
      get q2 (assignments p) = Some a2 -> evt a2 g l2 -> q1 = q2.

  Lemma ginj_same (p p' : psol) : assignments p' = assignments p -> ginj p -> ginj p'.
  Proof. intros E H. unfold ginj. rewrite E. exact H. Qed.

  Lemma ginj_add_derivation (p : psol) q cause cts p' :
    kinv p -> ginj p -> add_derivation O p q cause cts = Good p' -> ginj p'.
  Proof.
    intros [K1 _] Hg Ed. destruct (add_derivation_get O _ _ _ _ _ Ed) as (ct & a' & _ & _ & _ & Hget & Hcase).
    assert (Hev : forall g l, evt a' g l ->
              (exists a, get q (assignments p) = Some a /\ evt a g l) \/ g = next_gidx p).
    { intros g l He. destruct Hcase as [(a & t & Hga & Ea & -> & _)|(_ & -> & _)].
      - apply (evt_deriv_upd O p cause ct a t g l Ea) in He. destruct He as [He|[-> _]]; [left; eauto|now right].
      - apply evt_deriv_new in He. right. tauto. }
    intros q1 a1 q2 a2 g l1 l2 G1 E1 G2 E2. rewrite Hget in G1, G2.
    destruct (N.eqb_spec q1 q) as [->|N1], (N.eqb_spec q2 q) as [->|N2]; try reflexivity.
    - injection G1 as <-. destruct (Hev g l1 E1) as [(a & Ha & Hea)| ->].
      + exact (Hg q a q2 a2 g l1 l2 Ha Hea G2 E2).
      + pose proof (K1 q2 a2 _ l2 G2 E2). lia.
    - injection G2 as <-. destruct (Hev g l2 E2) as [(a & Ha & Hea)| ->].
      + exact (Hg q1 a1 q a g l1 l2 G1 E1 Ha Hea).
      + pose proof (K1 q1 a1 _ l1 G1 E1). lia.
    - exact (Hg q1 a1 q2 a2 g l1 l2 G1 E1 G2 E2).
  Qed.

  Lemma ginj_add_decision (p : psol) q v p' :
    layout p -> kinv p -> ginj p -> add_decision O p q v = Good p' -> ginj p'.
  Proof.
    intros Hl [K1 _] Hg Ed. destruct (add_decision_get O _ _ _ _ Hl Ed) as (a & t & Hga & Ea & _ & _ & _ & Hget).
    intros q1 a1 q2 a2 g l1 l2 G1 E1 G2 E2. rewrite Hget in G1, G2.
    destruct (N.eqb_spec q1 q) as [->|N1], (N.eqb_spec q2 q) as [->|N2]; try reflexivity.
    - injection G1 as <-. apply (evt_decide_upd O p v a t g l1 Ea) in E1. destruct E1 as [E1|[-> _]].
      + exact (Hg q a q2 a2 g l1 l2 Hga E1 G2 E2).
      + pose proof (K1 q2 a2 _ l2 G2 E2). lia.
    - injection G2 as <-. apply (evt_decide_upd O p v a t g l2 Ea) in E2. destruct E2 as [E2|[-> _]].
      + exact (Hg q1 a1 q a g l1 l2 G1 E1 Hga E2).
      + pose proof (K1 q1 a1 _ l1 G1 E1). lia.
    - exact (Hg q1 a1 q2 a2 g l1 l2 G1 E1 G2 E2).
  Qed.

  Lemma ginj_backtrack (p : psol) Lv p' : layout p -> ginj p -> ps_backtrack p Lv = Good p' -> ginj p'.
  Proof.
    intros Hl Hg Ep q1 a1 q2 a2 g l1 l2 G1 E1 G2 E2.
    destruct (ps_backtrack_get_some _ _ _ Hl Ep q1 a1 G1) as (b1 & B1 & K1).
    destruct (ps_backtrack_get_some _ _ _ Hl Ep q2 a2 G2) as (b2 & B2 & K2).
    exact (Hg q1 b1 q2 b2 g l1 l2 B1 (backtrack_pa_evt _ _ _ _ _ K1 E1) B2 (backtrack_pa_evt _ _ _ _ _ K2 E2)).
  Qed.

  (* ---------------------------------------------------------------- satisfaction just before a global index *)
  Definition sat_before (g : nat) (m : list (pkg * pa)) (ts : list (pkg * tm)) : Prop :=
    forall x t, In (x, t) ts -> exists tx, lookup_before g m x = Some tx /\ tleU tx t.

  Lemma sat_before_now (p : psol) g ts :
    ps_chain (assignments p) -> ps_wf p -> ps_chainU (assignments p) ->
    sat_before g (assignments p) ts -> sat_nowU p ts None.
  Proof.
    intros Hc Hw Hu H x t Hin _. destruct (H x t Hin) as (tx & Hb & Hle).
    destruct (lookup_before_finalU O L Hat _ _ _ _ Hc Hw Hu Hb) as (tf & Hf & Hle'). exists tf. split; [exact Hf|].
    eapply tleU_trans; eauto.
  Qed.

  Lemma sat_now_before (p : psol) ts :
    ps_chain (assignments p) -> kinv p -> sat_nowU p ts None -> sat_before (next_gidx p) (assignments p) ts.
  Proof.
    intros Hc HK H x t Hin. destruct (H x t Hin ltac:(discriminate)) as (tx & Htx & Hle). exists tx.
    split; [now rewrite (lookup_before_cur O)|exact Hle].
  Qed.

  Lemma gdesc_app_lt (l1 : list dated) : forall d l2 x, gdesc (l1 ++ d :: l2) -> In x l1 -> d_gidx d < d_gidx x.
  Proof.
    induction l1 as [|y l1 IH]; intros d l2 x Hg Hin; [destruct Hin|]. cbn [app gdesc] in Hg. destruct Hg as [Hall Hg].
    destruct Hin as [<-|Hin]; [|exact (IH d l2 x Hg Hin)].
    rewrite Forall_forall in Hall. apply Hall. apply in_or_app. right. now left.
  Qed.

  Lemma gdesc_head_lt d (l : list dated) x : gdesc (d :: l) -> In x l -> d_gidx x < d_gidx d.
  Proof. intros [Hall _] Hin. rewrite Forall_forall in Hall. now apply Hall. Qed.

  (* the satisfier of a term that is satisfied just before g has a global index below g *)
  Lemma satisfier_before (a : pa) g tx t c sg sl :
    pa_g a -> pa_wf a -> twf t -> term_before g a = Some tx -> tleU tx t ->
    satisfier O a (t_negate t) = Good (c, sg, sl) -> sg < g.
  Proof.
    intros [Hgd Hdec] [_ Wd] Wt Hb Hle Hs. rewrite Forall_forall in Wd.
    assert (Hdis : forall dd, In dd (derivs a) -> tx = d_accum dd -> t_is_disjoint O (d_accum dd) (t_negate t) = true).
    { intros dd Hin E. apply (disjoint_neg_tleU O L); [now apply Wd|exact Wt|now rewrite <- E]. }
    unfold satisfier in Hs. pose proof (first_disjoint_split O (derivs a) (t_negate t)) as Hsp.
    destruct (first_disjoint O (derivs a) (t_negate t)) as [dd|] eqn:Ef.
    - injection Hs as _ <- _. destruct Hsp as (pre & post & Eds & Hpre).
      destruct (term_before_in _ _ _ Hb) as [(dd' & Hin' & Hlt & E')|(gd & v & Ea & Hlt)].
      + pose proof (Hdis dd' Hin' E') as Hd'. rewrite Eds in Hin'. apply in_app_or in Hin'. destruct Hin' as [Hin'|[<-|Hin']].
        * rewrite Forall_forall in Hpre. rewrite (Hpre _ Hin') in Hd'. discriminate.
        * exact Hlt.
        * rewrite Eds, rev_app_distr in Hgd. cbn [rev] in Hgd. rewrite <- app_assoc in Hgd. cbn [app] in Hgd.
          pose proof (gdesc_app_lt (rev post) dd (rev pre) dd' Hgd ltac:(now apply in_rev in Hin')). lia.
      + destruct (Hdec gd v tx Ea) as [Hall _]. assert (In dd (derivs a)) by (rewrite Eds; apply in_or_app; right; now left).
        specialize (Hall dd H). lia.
    - destruct (ai a) as [gi v t0|t0] eqn:Ea; [|discriminate]. injection Hs as _ <- _.
      destruct (term_before_in _ _ _ Hb) as [(dd' & Hin' & Hlt & E')|(gd & v' & Ea' & Hlt)].
      + pose proof (Hdis dd' Hin' E') as Hd'. rewrite Forall_forall in Hsp. rewrite (Hsp _ Hin') in Hd'. discriminate.
      + rewrite Ea in Ea'. injection Ea' as -> _ _. exact Hlt.
  Qed.

  Lemma dwge_in g (dd : dated) : forall l, rchainU l -> In dd l -> d_gidx dd < g ->
    exists d0 rest, dwge g l = d0 :: rest /\ tleU (d_accum d0) (d_accum dd).
  Proof.
    induction l as [|d l IH]; intros Hc Hin Hlt; [destruct Hin|]. cbn [dwge].
    destruct (Nat.leb_spec g (d_gidx d)) as [Hge|Hlt'].
    - destruct Hin as [<-|Hin]; [lia|]. apply IH; [exact (proj2 Hc)|exact Hin|exact Hlt].
    - exists d, l. split; [reflexivity|]. exact (rchainU_head_le O L d l dd Hc Hin).
  Qed.

  (* an assignment made before g is visible just before g *)
  Lemma term_before_deriv g (a : pa) dd :
    pa_chain a -> pa_wf a -> rchainU (rev (derivs a)) -> In dd (derivs a) -> d_gidx dd < g ->
    exists tx, term_before g a = Some tx /\ tleU tx (d_accum dd).
  Proof.
    intros Hch Hw Hu Hin Hlt.
    assert (Hder : exists tx, der_before g (derivs a) = Some tx /\ tleU tx (d_accum dd)).
    { unfold der_before. destruct (dwge_in g dd (rev (derivs a)) Hu ltac:(now apply in_rev in Hin) Hlt) as (d0 & rest & E & Hle).
      rewrite E. exists (d_accum d0). split; [reflexivity|exact Hle]. }
    unfold term_before. destruct (ai a) as [gd v t0|t0] eqn:Ea; [|exact Hder].
    destruct (Nat.ltb gd g); [|exact Hder]. exists t0. split; [reflexivity|].
    pose proof (cur_tleU O L Hat a dd Hch Hw Hu Hin) as H. now rewrite Ea in H.
  Qed.

  Lemma term_before_satisfier g (a : pa) t c gx lx :
    pa_chain a -> pa_wf a -> rchainU (rev (derivs a)) -> twf t -> tleU (ai_term (ai a)) t ->
    satisfier O a (t_negate t) = Good (c, gx, lx) -> gx < g ->
    exists tx, term_before g a = Some tx /\ tleU tx t.
  Proof.
    intros Hch Hw Hu Wt Hcur Hs Hlt.
    destruct (satisfier_spec O _ _ _ _ _ Hs) as [(dd & Hin & _ & -> & _ & Hd)|(_ & v & t0 & Ea & _)].
    - destruct (term_before_deriv g a dd Hch Hw Hu Hin Hlt) as (tx & Hb & Hle). exists tx. split; [exact Hb|].
      eapply tleU_trans; [exact Hle|]. apply (disjoint_neg_tleU O L); [|exact Wt|exact Hd].
      destruct Hw as [_ Wd]. rewrite Forall_forall in Wd. now apply Wd.
    - unfold term_before. rewrite Ea. apply Nat.ltb_lt in Hlt. rewrite Hlt. exists t0. split; [reflexivity|].
      now rewrite Ea in Hcur.
  Qed.

  (* the term of a package just before one of its own derivations is the previous accumulated term *)
  Lemma term_before_own (a : pa) pre dd post :
    pa_g a -> rev (derivs a) = pre ++ dd :: post -> term_before (d_gidx dd) a = hd_acc post.
  Proof.
    intros [Hgd Hdec] Er.
    assert (Hder : der_before (d_gidx dd) (derivs a) = hd_acc post).
    { unfold der_before. rewrite Er. rewrite Er in Hgd. rewrite dwge_app_drop.
      - cbn [dwge]. rewrite (proj2 (Nat.leb_le _ _) (le_n _)).
        apply gdesc_suffix in Hgd. destruct post as [|d post']; [reflexivity|].
        rewrite dwge_keep; [reflexivity|]. apply (gdesc_head_lt dd (d :: post') d Hgd). now left.
      - apply Forall_forall. intros x Hx. pose proof (gdesc_app_lt pre dd post x Hgd Hx). lia. }
    unfold term_before. destruct (ai a) as [gd v t0|t0] eqn:Ea; [|exact Hder].
    destruct (Hdec gd v t0 eq_refl) as [Hall _].
    assert (Hin : In dd (derivs a)) by (apply in_rev; rewrite Er; apply in_or_app; right; now left).
    specialize (Hall dd Hin). destruct (Nat.ltb_spec gd (d_gidx dd)); [lia|exact Hder].
  Qed.

  (* a term that holds for every choice is "any" *)
  Lemma all_true_any (u : tm) : twf u -> (forall c, tden O L u c = true) -> u = t_any O.
  Proof.
    destruct u as [s|s]; cbn [TermProofs.twf]; intros W H.
    - specialize (H None). discriminate.
    - unfold t_any. f_equal. apply (vs_ext O L); [exact W|apply (wf_empty O L)|]. intros x.
      specialize (H (Some x)). cbn in H. rewrite (mem_empty O L). now apply negb_true_iff in H.
  Qed.

  (* ---------------------------------------------------------------- the rule of resolution goes back in time *)
  Lemma resolve_before st cur cause ci cj sp pc g :
    ninv st -> ginj (ps st) ->
    nth_error (store st) cur = Some ci -> nth_error (store st) cause = Some cj ->
    sat_before g (asg st) (terms ci) ->
    satisfier_search O (terms ci) (ps st) (store st) = Good (sp, SSame cause) ->
    prior_cause O cur cause (terms ci) (terms cj) sp = Good pc ->
    exists g', g' < g /\ sat_before g' (asg st) (terms pc).
  Proof.
    intros Hn Hgi Hci Hcj Hsb Es Epc.
    pose proof Hn as [H1 H2 _ _ H5 H6 _]. pose proof H1 as [[Hok Hw] Hl Hc HK Hpa].
    pose proof (store_just_nth O L reg r rv _ (proj1 Hok) _ _ Hci) as Oi.
    pose proof (store_just_nth O L reg r rv _ (proj1 Hok) _ _ Hcj) as Oj.
    pose proof Oi as (Ndi & Wi & _). pose proof Oj as (Ndj & Wj & _).
    pose proof (pi_chU _ _ _ _ _ H5) as HchU.
    pose proof (sat_before_now (ps st) g (terms ci) Hc Hw HchU Hsb) as Hsat.
    revert Es. unfold satisfier_search, bind, req.
    destruct (find_satisfier O (terms ci) (asg st)) as [m|] eqn:Em; [|discriminate].
    destruct (max_by_gidx m) as [[sp0 [[sc sg] sl]]|] eqn:Et; [|discriminate].
    destruct (get sp0 (asg st)) as [spa|] eqn:Espa; [|discriminate].
    destruct (match sc with Some _ => _ | None => _ end) as [accum|]; [|discriminate].
    destruct (get sp0 (terms ci)) as [it|] eqn:Eit; [|discriminate].
    destruct (satisfier O spa _) as [s2|]; [|discriminate].
    destruct (max_by_gidx (set sp0 s2 m)) as [top2|]; [|discriminate].
    destruct (Nat.leb sl (Nat.max (snd (snd top2)) 1)); [|discriminate].
    destruct sc as [c0|]; [|discriminate]. cbn [req bind]. intros E. injection E as -> ->.
    destruct (find_satisfier_in O _ _ _ Em) as [F1 F2].
    destruct (F2 _ _ (max_by_gidx_in _ _ Et)) as (it' & spa' & Hit' & Hspa' & Hss).
    rewrite Espa in Hspa'. injection Hspa' as <-.
    rewrite (In_get _ _ _ Ndi Hit') in Eit. injection Eit as ->.
    pose proof (ps_chain_get O _ _ _ Hc Espa) as Hch. pose proof (ps_wf_get O L _ _ _ Hw Espa) as Hwa.
    destruct (Hpa sp spa Espa) as [Hpg Hjr].
    assert (Wit : twf it) by exact (twf_all_in O L _ _ _ Wi Hit').
    (* (i) the satisfier lies before g *)
    assert (Hsg : sg < g).
    { destruct (Hsb sp it Hit') as (tx & Hb & Hle). unfold SolverReach1.lookup_before in Hb. rewrite Espa in Hb.
      exact (satisfier_before spa g tx it _ sg sl Hpg Hwa Wit Hb Hle Hss). }
    exists sg. split; [exact Hsg|].
    (* the derivation of [sp] found by the search *)
    destruct (satisfier_spec O _ _ _ _ _ Hss) as [(dd & Hdd & Ec & Eg & _ & Hdis)|(Ec & _)]; [|discriminate].
    injection Ec as Ec. subst sg.
    assert (Wdd : twf (d_accum dd)) by (destruct Hwa as [_ Wd]; rewrite Forall_forall in Wd; now apply Wd).
    assert (Hddle : tleU (d_accum dd) it) by (apply (disjoint_neg_tleU O L); assumption).
    pose proof (in_split _ _ (proj1 (in_rev _ _) Hdd)) as (pre & post & Er).
    destruct (jr_in O _ _ _ _ Hjr _ _ _ Er) as (I & ct & HnI & Hct & Eacc & _).
    rewrite <- Ec, Hcj in HnI. injection HnI as <-.
    assert (Wct : twf ct) by exact (twf_all_get O L _ _ _ Wj Hct).
    pose proof (term_before_own spa pre dd post Hpg Er) as Hown.
    (* terms of [cj] other than the one of [sp] *)
    assert (Hjs : forall x t, In (x, t) (terms cj) -> x <> sp ->
              exists tx, lookup_before (d_gidx dd) (asg st) x = Some tx /\ tleU tx t).
    { destruct (jinv_cause O L reg r rv st sp spa dd H1 Espa Hdd) as (I & ct' & HnI & _ & Hx).
      rewrite <- Ec, Hcj in HnI. injection HnI as <-.
      intros x t Hin Hne. destruct (Hx x t Hin Hne) as (tx & Hb). exists tx. split; [exact Hb|].
      exact (H6 sp spa dd Espa Hdd cj x t tx ltac:(now rewrite <- Ec) Hin Hne Hb). }
    (* terms of [ci] other than the one of [sp] *)
    assert (His : forall x t, In (x, t) (terms ci) -> x <> sp ->
              exists tx, lookup_before (d_gidx dd) (asg st) x = Some tx /\ tleU tx t).
    { intros x t Hin Hne. destruct (F1 x t Hin) as (a & [[c gx] lx] & Hga & Hs & Hm).
      pose proof (max_by_gidx_max _ _ Et _ Hm) as Hle. unfold egidx in Hle. cbn in Hle.
      assert (Hlt : gx < d_gidx dd).
      { destruct (Nat.eq_dec gx (d_gidx dd)) as [E|]; [|lia]. exfalso. apply Hne.
        apply (Hgi x a sp spa gx lx sl Hga (satisfier_evt O _ _ _ _ _ Hs) Espa). rewrite E. exact (satisfier_evt O _ _ _ _ _ Hss). }
      unfold SolverReach1.lookup_before. rewrite Hga.
      apply (term_before_satisfier (d_gidx dd) a t c gx lx (ps_chain_get O _ _ _ Hc Hga) (ps_wf_get O L _ _ _ Hw Hga)
               (HchU x a Hga) (twf_all_in O L _ _ _ Wi Hin)); [|exact Hs|exact Hlt].
      destruct (Hsat x t Hin ltac:(discriminate)) as (tx & Htx & Hle'). unfold term_for in Htx. rewrite Hga in Htx.
      cbn in Htx. injection Htx as <-. exact Hle'. }
    intros x t Hin.
    destruct (prior_cause_in O L reg r rv _ _ _ _ _ _ _ _ Oi Oj Epc Hin) as [(-> & t1 & t2 & G1 & G2 & ->)|(Hne & Hm)].
    - (* the pivot: its previous accumulated term lies in the union *)
      rewrite (In_get _ _ _ Ndi Hit') in G1. injection G1 as <-. rewrite Hct in G2. injection G2 as <-.
      unfold SolverReach1.lookup_before. rewrite Espa, Hown.
      destruct post as [|dp post']; cbn [hd_acc] in *.
      + (* no previous term: the union is "any", which the prior cause does not contain *)
        exfalso.
        assert (Hna : noany O (terms pc)).
        { eapply (noany_prior_cause O L); [exact Wi|exact Wj| | |exact Epc];
            [exact (store_noany_nth O _ _ _ H2 Hci)|exact (store_noany_nth O _ _ _ H2 Hcj)]. }
        apply (Hna sp _ Hin). apply all_true_any; [now apply twf_union|].
        intros c. rewrite (tden_union O L) by assumption.
        destruct (tden O L ct c) eqn:Ect; [apply orb_true_r|]. rewrite orb_false_r. apply Hddle.
        rewrite Eacc, (tden_negate O L), Ect. reflexivity.
      + exists (d_accum dp). split; [reflexivity|].
        assert (Wdp : twf (d_accum dp)).
        { destruct Hwa as [_ Wd]. rewrite Forall_forall in Wd. apply Wd. apply in_rev. rewrite Er. apply in_or_app. right. right. now left. }
        intros c Hc0. rewrite (tden_union O L) by assumption.
        destruct (tden O L ct c) eqn:Ect; [apply orb_true_r|]. rewrite orb_false_r. apply Hddle.
        rewrite Eacc, (tden_intersection O L) by (try assumption; now apply twf_negate).
        now rewrite Hc0, (tden_negate O L), Ect.
    - destruct (get x (terms ci)) as [ta|] eqn:Ga, (get x (terms cj)) as [tb|] eqn:Gb; [subst t| subst t| subst t|destruct Hm].
      + destruct (His x ta (get_In _ _ _ Ga) Hne) as (tx & Hb & Hle).
        destruct (Hjs x tb (get_In _ _ _ Gb) Hne) as (tx' & Hb' & Hle'). rewrite Hb in Hb'. injection Hb' as <-.
        exists tx. split; [exact Hb|]. apply (tleU_inter O L); try assumption;
          [exact (twf_all_get O L _ _ _ Wi Ga)|exact (twf_all_get O L _ _ _ Wj Gb)].
      + exact (His x ta (get_In _ _ _ Ga) Hne).
      + exact (Hjs x tb (get_In _ _ _ Gb) Hne).
  Qed.

  (* ---------------------------------------------------------------- conflict resolution *)
  (* the step of conflict_resolution that allocates the prior cause keeps the invariant *)
  Lemma ninv_alloc_pc st cur cause ci cj sp pc :
    ninv st -> nth_error (store st) cur = Some ci -> nth_error (store st) cause = Some cj ->
    prior_cause O cur cause (terms ci) (terms cj) sp = Good pc -> ninv (fst (alloc st pc)).
  Proof.
    intros Hn Hci Hcj Epc. pose proof Hn as [H1 H2 H3 H4 H5 H6 H7]. pose proof H1 as [[Hok Hw] Hl Hc HK Hpa].
    pose proof Hok as (Hsj & _).
    pose proof (store_just_nth O L reg r rv _ Hsj _ _ Hci) as Oi.
    pose proof (store_just_nth O L reg r rv _ Hsj _ _ Hcj) as Oj.
    cbn [alloc fst].
    eapply (ninv_store O L reg r rv st _ Hn); [reflexivity|exists [pc]; reflexivity| | | | |].
    - split; [|exact Hw]. apply (alloc_ok O L reg r rv st pc Hok). exact (J_der O L reg r rv _ _ cur cause ci cj sp Hci Hcj Epc).
    - cbn [store]. apply Forall_app. split; [exact H2|]. constructor; [|constructor].
      eapply (noany_prior_cause O L); [exact (proj1 (proj2 Oi))|exact (proj1 (proj2 Oj))| | |exact Epc].
      + exact (store_noany_nth O _ _ _ H2 Hci).
      + exact (store_noany_nth O _ _ _ H2 Hcj).
    - exact (alloc_ix st pc H3).
    - auto.
    - intros E0. cbn [ps] in E0 |- *. destruct (H7 E0) as [Hb Hkk]. split; [exact Hb|]. cbn [store].
      intros i Hi x Hx. apply in_app_or in Hi. destruct Hi as [Hi|[<-|[]]]; [exact (Hkk i Hi x Hx)|].
      destruct (prior_cause_keys' O L reg r rv _ _ _ _ _ _ x Oi Oj Epc Hx) as [Hx'|Hx'].
      + exact (Hkk ci (nth_error_In _ _ Hci) x Hx').
      + exact (Hkk cj (nth_error_In _ _ Hcj) x Hx').
  Qed.

  Definition sat_before_id (st : state) (g : nat) (id : nat) : Prop :=
    exists ci, nth_error (store st) id = Some ci /\ sat_before g (asg st) (terms ci).

  (* M3: with more fuel than the time index up to which the conflict is satisfied, conflict resolution
     does not run out of fuel *)
  Lemma cr_fuel fuel : forall g st cur chg,
    ninv st -> ginj (ps st) -> sat_before_id st g cur -> g < fuel ->
    conflict_resolution O fuel st cur chg <> inr EFuel.
  Proof.
    induction fuel as [|fuel IH]; intros g st cur chg Hn Hgi (ci & Hci & Hsb) Hlt; [lia|].
    cbn [conflict_resolution]. rewrite Hci.
    destruct (is_terminal O ci (root st) (rootv st)); [discriminate|].
    destruct (satisfier_search O (terms ci) (ps st) (store st)) as [[sp [Lv|cause]]|s] eqn:Es; [| |discriminate].
    - destruct (backtrack O st cur chg Lv); discriminate.
    - destruct (nth_error (store st) cause) as [cj|] eqn:Hcj; [|discriminate].
      destruct (prior_cause O cur cause (terms ci) (terms cj) sp) as [pc|s] eqn:Epc; [|discriminate].
      destruct (resolve_before st cur cause ci cj sp pc g Hn Hgi Hci Hcj Hsb Es Epc) as (g' & Hg' & Hsb').
      cbn [alloc]. apply (IH g').
      + exact (ninv_alloc_pc st cur cause ci cj sp pc Hn Hci Hcj Epc).
      + exact Hgi.
      + exists pc. cbn [store ps]. split; [apply nth_error_snoc|exact Hsb'].
      + lia.
  Qed.

  Corollary cr_fuel_now fuel st cur chg :
    ninv st -> ginj (ps st) -> cur_satU O L st cur -> next_gidx (ps st) < fuel ->
    conflict_resolution O fuel st cur chg <> inr EFuel.
  Proof.
    intros Hn Hgi (ci & Hci & Hsat) Hlt. pose proof (n_J _ _ _ _ _ _ Hn) as [_ _ Hc HK _].
    apply (cr_fuel fuel (next_gidx (ps st))); try assumption.
    exists ci. split; [exact Hci|]. now apply sat_now_before.
  Qed.
End Term3.
