(* Translator tie for the provided methods of src/version_set.rs (kept apart from the range and term tables: an edit of
   range.rs or term.rs must not break the tie of C17). *)
From Coq Require Import List Bool.
From PG Require Import Model.VS.
From PG Require Import Gen.VSDefaults.

Section GenVSEq.
  Context {VS Vr : Type} (R : VSReq VS Vr).

  Theorem vs_defaults_match_source :
    gen_full_default R = full_default R
    /\ (forall a b, gen_union_default R a b = union_default R a b)
    /\ (forall a b, gen_is_disjoint_default R a b = is_disjoint_default R a b)
    /\ (forall a b, gen_subset_of_default R a b = subset_of_default R a b).
  Proof. repeat split. Qed.
End GenVSEq.
