(* C14 / C12 (model side, stage 2): the semantic part of the queue invariant.  The package popped by a pick
   and not decided is re-queued by the next unit propagation (T1: no stale package at any decision point);
   the queue reflects the prioritize events of the trace (T2); choose_version is asked with the set last
   passed to prioritize (T3). *)
From Coq Require Import List NArith ZArith Bool Lia PeanoNat.
From PG Require Import Model.VS Model.Term Model.Solver Model.Registry Proofs.VSLaws Proofs.TermProofs Proofs.AssocProofs
  Proofs.SolverSem Proofs.SolverStore Proofs.SolverProtocol Proofs.SolverQueue.
Import ListNotations.

Section Queue2.
  Context {VS Vr : Type} (O : VSOps VS Vr) (L : VSLawful O) (veqb : Vr -> Vr -> bool).

  Notation tm := (term VS).
  Notation pa := (@pa VS Vr).
  Notation psol := (@psol VS Vr).
  Notation state := (@state VS Vr).
  Notation incompat := (@incompat VS Vr).
  Notation event := (@event VS Vr).
  Notation pick_info := (@pick_info VS).
  Notation twf := (twf O L).
  Notation twf_all := (twf_all O L).
  Notation ps_wf := (ps_wf O L).
  Notation wfs := (wf O L).

  (* ---------------------------------------------------------------- auxiliary invariant *)
  (* well-formed sets everywhere, and the contradicted cache only mentions allocated ids *)
  Definition aux (st : state) : Prop :=
    ps_wf (ps st) /\ Forall (fun ci : incompat => twf_all (terms ci)) (store st)
    /\ Forall (fun e : nat * nat => fst e < length (store st)) (contradicted st).

  Lemma aux_nth st id ci : aux st -> nth_error (store st) id = Some ci -> twf_all (terms ci).
  Proof. intros (_ & H & _) Hn. rewrite Forall_forall in H. apply H. eapply nth_error_In; eauto. Qed.

  Lemma twf_all_get (ts : list (pkg * tm)) p t : twf_all ts -> get p ts = Some t -> twf t.
  Proof. intros H Hg. apply get_In in Hg. unfold SolverSem.twf_all in H. rewrite Forall_forall in H. exact (H _ Hg). Qed.

  Lemma from_dependency_wf p s d sd : wfs s -> wfs sd -> twf_all (terms (from_dependency O p s (d, sd))).
  Proof.
    intros Hs Hd. unfold from_dependency. cbn [terms]. destruct (vs_eqb O sd (vs_empty O)).
    - constructor; [exact Hs|constructor].
    - destruct (N.eqb p d).
      + constructor; [|constructor]. cbn. apply (wf_intersection O L); [exact Hs|now apply (wf_complement O L)].
      + constructor; [exact Hs|]. constructor; [exact Hd|constructor].
  Qed.

  Lemma merge_dependents_wf (self other mi : incompat) :
    twf_all (terms self) -> twf_all (terms other) -> merge_dependents O self other = Good (Some mi) -> twf_all (terms mi).
  Proof.
    intros Hs Ho. unfold merge_dependents.
    destruct (as_dependency self) as [[p1 p2]|]; [|discriminate].
    destruct (as_dependency other) as [[q1 q2]|]; [|discriminate].
    destruct (negb _); [discriminate|]. destruct (N.eqb p1 p2); [discriminate|].
    destruct (negb _); [discriminate|]. unfold bind, req.
    destruct (get p1 (terms self)) as [t1|] eqn:E1; [|discriminate].
    destruct (get p1 (terms other)) as [t2|] eqn:E2; [|discriminate].
    pose proof (twf_all_get _ _ _ Hs E1) as W1. pose proof (twf_all_get _ _ _ Ho E2) as W2.
    destruct t1 as [s1|]; [|discriminate]. destruct t2 as [s2|]; [|discriminate]. cbn [unwrap_positive].
    destruct (get p2 (terms self)) as [dt|] eqn:E3.
    - pose proof (twf_all_get _ _ _ Hs E3) as W3. destruct dt as [|ds]; [discriminate|]. cbn [unwrap_negative].
      intros E. injection E as <-. apply from_dependency_wf; [now apply (wf_union O L)|exact W3].
    - intros E. injection E as <-. apply from_dependency_wf; [now apply (wf_union O L)|apply (wf_empty O L)].
  Qed.

  Lemma find_merge_wf (cur : incompat) pasts (stl : list incompat) past mi :
    twf_all (terms cur) -> Forall (fun ci : incompat => twf_all (terms ci)) stl ->
    find_merge O cur pasts stl = Good (Some (past, mi)) -> twf_all (terms mi).
  Proof.
    intros Hc Hs. induction pasts as [|x pasts IH]; cbn [find_merge]; [discriminate|].
    unfold bind, req. destruct (nth_error stl x) as [pi|] eqn:En; [|discriminate].
    destruct (merge_dependents O cur pi) as [[m|]|] eqn:Em; [| |discriminate].
    - intros H. injection H as <- <-. eapply merge_dependents_wf; [exact Hc| |exact Em].
      rewrite Forall_forall in Hs. apply Hs. eapply nth_error_In; eauto.
    - exact IH.
  Qed.

  Lemma bound_mono (c : list (nat * nat)) n m : n <= m -> Forall (fun e => fst e < n) c -> Forall (fun e => fst e < m) c.
  Proof. intros H. apply Forall_impl. intros; lia. Qed.

  Lemma merge_incompatibility_aux st id st' : aux st -> merge_incompatibility O st id = Good st' -> aux st'.
  Proof.
    intros (Hp & Hs & Hc). unfold merge_incompatibility, bind, req.
    destruct (nth_error (store st) id) as [cur|] eqn:En; [|discriminate].
    assert (Wc : twf_all (terms cur)) by (rewrite Forall_forall in Hs; apply Hs; eapply nth_error_In; eauto).
    destruct (as_dependency cur) as [key|].
    - destruct (find_merge O cur _ (store st)) as [[[past mi]|]|] eqn:Ef; [| |discriminate].
      + destruct (has_any O (terms mi)); [discriminate|]. intros E. injection E as <-. unfold aux; cbn [ps store contradicted].
        split; [exact Hp|]. split.
        * apply Forall_app. split; [exact Hs|]. constructor; [|constructor]. eapply find_merge_wf; eauto.
        * rewrite app_length. eapply bound_mono; [|exact Hc]. lia.
      + destruct (has_any O (terms cur)); [discriminate|]. intros E. injection E as <-. unfold aux; cbn [ps store contradicted]. auto.
    - destruct (has_any O (terms cur)); [discriminate|]. intros E. injection E as <-. unfold aux; cbn [ps store contradicted]. auto.
  Qed.

  Lemma alloc_aux st (i : incompat) : aux st -> twf_all (terms i) -> aux (fst (alloc st i)).
  Proof.
    intros (Hp & Hs & Hc) Hi. unfold aux, alloc; cbn [fst ps store contradicted]. split; [exact Hp|]. split.
    - apply Forall_app. split; [exact Hs|]. constructor; [exact Hi|constructor].
    - rewrite app_length. eapply bound_mono; [|exact Hc]. lia.
  Qed.

  Lemma add_incompatibility_aux st i st' : aux st -> twf_all (terms i) -> add_incompatibility O st i = Good st' -> aux st'.
  Proof.
    intros Ha Hi. unfold add_incompatibility. cbn. intros E. eapply merge_incompatibility_aux; [|exact E].
    exact (alloc_aux st i Ha Hi).
  Qed.

  Lemma prior_cause_wf i j ti tj p pc :
    twf_all ti -> twf_all tj -> prior_cause O i j ti tj p = Good pc -> twf_all (terms pc).
  Proof.
    intros Wi Wj. unfold prior_cause, bind, req.
    destruct (get p ti) as [t1|] eqn:E1; [|discriminate]. destruct (get p tj) as [t2|] eqn:E2; [|discriminate].
    intros E. injection E as <-. cbn [terms].
    assert (Wr : twf_all (merge_terms O (remove p ti) (remove p tj))) by (apply merge_terms_wf; now apply remove_wf).
    destruct (t_eqb O _ _); [exact Wr|]. apply set_wf; [|exact Wr].
    apply twf_union; [exact (twf_all_get _ _ _ Wi E1)|exact (twf_all_get _ _ _ Wj E2)].
  Qed.

  Lemma cache_set_bound id lvl (c : list (nat * nat)) n :
    id < n -> Forall (fun e => fst e < n) c -> Forall (fun e => fst e < n) (cache_set id lvl c).
  Proof.
    intros Hi Hc. unfold cache_set. constructor; [exact Hi|]. rewrite Forall_forall in *. intros e He.
    apply filter_In in He. apply Hc. tauto.
  Qed.

  Lemma backtrack_aux st inc chg Lv st' : aux st -> backtrack O st inc chg Lv = Good st' -> aux st'.
  Proof.
    intros (Hp & Hs & Hc). unfold backtrack, bind. destruct (ps_backtrack (ps st) Lv) as [p'|] eqn:Ep; [|discriminate].
    pose proof (ps_backtrack_wf O L veqb (rootv st) _ _ _ Hp Ep) as Hp'.
    assert (H1 : aux {| root := root st; rootv := rootv st; index := index st;
                        contradicted := filter (fun e => Nat.leb (snd e) Lv) (contradicted st);
                        merged := merged st; ps := p'; store := store st |}).
    { split; [exact Hp'|]. split; [exact Hs|]. cbn. rewrite Forall_forall in *. intros e He. apply filter_In in He. apply Hc. tauto. }
    destruct chg; [apply merge_incompatibility_aux; exact H1|]. intros E. now injection E as <-.
  Qed.

  Lemma conflict_resolution_aux fuel : forall st cur chg,
    aux st ->
    match conflict_resolution O fuel st cur chg with
    | inl (CROk st' _ _) => aux st'
    | inl (CRTerminal st' _) => aux st'
    | inr _ => True
    end.
  Proof.
    induction fuel as [|fuel IH]; intros st cur chg Hst; cbn [conflict_resolution]; [exact I|].
    destruct (nth_error (store st) cur) as [ci|] eqn:Ec; [|exact I].
    destruct (is_terminal O ci (root st) (rootv st)); [exact Hst|].
    destruct (satisfier_search O (terms ci) (ps st) (store st)) as [[p [Lv|cause]]|]; [| |exact I].
    - destruct (backtrack O st cur chg Lv) as [st'|] eqn:Eb; [|exact I]. eapply backtrack_aux; eauto.
    - destruct (nth_error (store st) cause) as [cj|] eqn:Ej; [|exact I].
      destruct (prior_cause O cur cause (terms ci) (terms cj) p) as [pc|] eqn:Epc; [|exact I].
      apply IH. apply (alloc_aux st pc Hst). eapply prior_cause_wf; [| |exact Epc]; eapply aux_nth; eauto.
  Qed.

  Lemma upd_cache_aux st p' id lvl ci :
    aux st -> ps_wf p' -> nth_error (store st) id = Some ci -> aux (upd_cache (upd_ps st p') (cache_set id lvl (contradicted st))).
  Proof.
    intros (Hp & Hs & Hc) Hp' Hn. split; [exact Hp'|]. split; [exact Hs|]. cbn. apply cache_set_bound; [|exact Hc].
    apply nth_error_Some. congruence.
  Qed.

  Lemma scan_incompats_aux ids : forall st buffer st' b' c,
    aux st -> scan_incompats O ids st buffer = Good (st', b', c) -> aux st'.
  Proof.
    induction ids as [|id ids IH]; intros st buffer st' b' c Hst; cbn [scan_incompats].
    - intros E. now injection E as <- _ _.
    - destruct (cached id (contradicted st)); [now apply IH|].
      unfold bind, req. destruct (nth_error (store st) id) as [ci|] eqn:Ec; [|discriminate].
      destruct (relation O (terms ci) (term_for (ps st))) as [| |q|].
      + intros E. now injection E as <- _ _.
      + apply IH. destruct Hst as (Hp & Hs & Hc). split; [exact Hp|]. split; [exact Hs|]. cbn.
        apply cache_set_bound; [|exact Hc]. apply nth_error_Some. congruence.
      + destruct (add_derivation O (ps st) q id (terms ci)) as [p'|] eqn:Ed; [|discriminate].
        apply IH. eapply upd_cache_aux; [exact Hst| |exact Ec].
        eapply add_derivation_wf; [exact (proj1 Hst)| |exact Ed]. eapply aux_nth; eauto.
      + now apply IH.
  Qed.

  Lemma unit_propagation_aux fuel : forall st buffer,
    aux st ->
    match unit_propagation O fuel st buffer with
    | inl (UPOk st') => aux st'
    | inl (UPConflict st' _) => aux st'
    | inr _ => True
    end.
  Proof.
    induction fuel as [|fuel IH]; intros st buffer Hst; cbn [unit_propagation]; [exact I|].
    destruct (rev buffer) as [|cur rest]; [exact Hst|].
    destruct (get cur (index st)) as [ids|]; [|exact I].
    destruct (scan_incompats O (rev ids) st (rev rest)) as [[[st1 b2] [conflict|]]|] eqn:Es; [| |exact I].
    - pose proof (scan_incompats_aux _ _ _ _ _ _ Hst Es) as H1.
      pose proof (conflict_resolution_aux fuel st1 conflict false H1) as Hcr.
      destruct (conflict_resolution O fuel st1 conflict false) as [[st2 q rc|st2 id]|]; [|exact Hcr|exact I].
      destruct (nth_error (store st2) rc) as [rci|] eqn:Er; [|exact I].
      destruct (add_derivation O (ps st2) q rc (terms rci)) as [p'|] eqn:Ed; [|exact I].
      apply IH. eapply upd_cache_aux; [exact Hcr| |exact Er].
      eapply add_derivation_wf; [exact (proj1 Hcr)| |exact Ed]. eapply aux_nth; eauto.
    - apply IH. exact (scan_incompats_aux _ _ _ _ _ _ Hst Es).
  Qed.

  (* ---------------------------------------------------------------- almost-satisfied incompatibilities *)
  (* every term other than the one of [nx] is satisfied by the partial solution; the one of [nx] is not
     contradicted *)
  Definition almost (ts : list (pkg * tm)) (lookup : pkg -> option tm) (nx : pkg) : Prop :=
    NoDup (keys ts)
    /\ (forall p t, In (p, t) ts -> p <> nx -> exists o, lookup p = Some o /\ t_relation_with O t o = Satisfied)
    /\ (forall t o, In (nx, t) ts -> lookup nx = Some o -> t_relation_with O t o <> Contradicted).

  Lemma almost_tail p t ts lookup nx : almost ((p, t) :: ts) lookup nx -> almost ts lookup nx.
  Proof.
    intros (H1 & H2 & H3). inversion H1; subst. split; [assumption|]. split.
    - intros q u Hin. apply H2. now right.
    - intros u o Hin. apply H3. now right.
  Qed.

  Lemma relation_scan_almost lookup nx ts : forall incs,
    almost ts lookup nx ->
    exists l, relation_scan O ts lookup incs = Some (incs ++ l) /\ (l = [] \/ (l = [nx] /\ In nx (keys ts))).
  Proof.
    induction ts as [|[p t] ts IH]; intros incs Ha; cbn [relation_scan].
    - exists []. rewrite app_nil_r. auto.
    - pose proof (almost_tail _ _ _ _ _ Ha) as Hat. destruct Ha as (H1 & H2 & H3). inversion H1 as [|? ? Hni Hnd]; subst.
      destruct (N.eq_dec p nx) as [->|Hne].
      + destruct (lookup nx) as [o|] eqn:El; cbn [option_map].
        * specialize (H3 t o (or_introl eq_refl) eq_refl).
          destruct (t_relation_with O t o); [|contradiction|].
          -- destruct (IH incs Hat) as (l & E & [->|[-> Hin]]); [|contradiction].
             exists []. split; [exact E|now left].
          -- destruct (IH (incs ++ [nx]) Hat) as (l & E & [->|[-> Hin]]); [|contradiction].
             exists [nx]. rewrite app_nil_r in E. split; [exact E|]. right. split; [reflexivity|now left].
        * destruct (IH (incs ++ [nx]) Hat) as (l & E & [->|[-> Hin]]); [|contradiction].
          exists [nx]. rewrite app_nil_r in E. split; [exact E|]. right. split; [reflexivity|now left].
      + destruct (H2 p t (or_introl eq_refl) Hne) as (o & Ho & Hs). rewrite Ho. cbn [option_map]. rewrite Hs.
        destruct (IH incs Hat) as (l & E & Hl). exists l. split; [exact E|].
        destruct Hl as [Hl|[Hl Hin]]; [now left|right; split; [exact Hl|now right]].
  Qed.

  Lemma relation_almost ts lookup nx :
    almost ts lookup nx -> relation O ts lookup = RSatisfied \/ relation O ts lookup = RAlmost nx.
  Proof.
    intros Ha. unfold relation. destruct (relation_scan_almost lookup nx ts [] Ha) as (l & -> & [->|[-> _]]); cbn; auto.
  Qed.

  Lemma relation_scan_ext lookup ts : forall incs l,
    relation_scan O ts lookup incs = Some l ->
    exists ext, l = incs ++ ext
      /\ (ext = [] -> forall p t, In (p, t) ts -> exists o, lookup p = Some o /\ t_relation_with O t o = Satisfied).
  Proof.
    induction ts as [|[p t] ts IH]; intros incs l; cbn [relation_scan].
    - intros E. injection E as <-. exists []. rewrite app_nil_r. split; [reflexivity|]. intros _ q u [].
    - assert (Hother : relation_scan O ts lookup (incs ++ [p]) = Some l ->
                       exists ext, l = incs ++ ext /\ (ext = [] -> forall q u, In (q, u) ((p, t) :: ts) ->
                         exists o, lookup q = Some o /\ t_relation_with O u o = Satisfied)).
      { intros E. destruct (IH _ _ E) as (ext & -> & _). exists ([p] ++ ext). rewrite app_assoc. split; [reflexivity|discriminate]. }
      destruct (lookup p) as [o|] eqn:El; cbn [option_map]; [|exact Hother].
      destruct (t_relation_with O t o) eqn:Er; [|discriminate|exact Hother].
      intros E. destruct (IH _ _ E) as (ext & -> & Hall). exists ext. split; [reflexivity|].
      intros He q u [Hin|Hin]; [injection Hin as <- <-; eauto|auto].
  Qed.

  Lemma relation_satisfied ts lookup :
    relation O ts lookup = RSatisfied ->
    forall p t, In (p, t) ts -> exists o, lookup p = Some o /\ t_relation_with O t o = Satisfied.
  Proof.
    unfold relation. destruct (relation_scan O ts lookup []) as [l|] eqn:E; [|discriminate].
    destruct (relation_scan_ext _ _ _ _ E) as (ext & -> & H). cbn [app]. destruct ext as [|x [|y r]]; try discriminate.
    intros _. now apply H.
  Qed.

  Lemma satisfied_subset t o : t_relation_with O t o = Satisfied <-> t_subset_of O o t = true.
  Proof.
    unfold t_relation_with. destruct (t_subset_of O o t); [tauto|]. destruct (t_is_disjoint O t o); split; discriminate.
  Qed.

  (* satisfaction is monotone: a stronger term for the package still satisfies *)
  Lemma satisfied_mono t o o' :
    twf t -> twf o -> twf o' -> (forall c, tden O L o' c = true -> tden O L o c = true) ->
    t_relation_with O t o = Satisfied -> t_relation_with O t o' = Satisfied.
  Proof.
    intros Wt Wo Wo' Himp. rewrite !satisfied_subset, !(t_subset_of_spec O L) by assumption. auto.
  Qed.

  Lemma almost_mono ts (lookup lookup' : pkg -> option tm) nx q :
    twf_all ts -> q <> nx ->
    (forall p, p <> q -> lookup' p = lookup p) ->
    (forall o, lookup q = Some o -> exists o', lookup' q = Some o' /\ twf o /\ twf o'
                                              /\ forall c, tden O L o' c = true -> tden O L o c = true) ->
    almost ts lookup nx -> almost ts lookup' nx.
  Proof.
    intros Wts Hq Hsame Hstr (H1 & H2 & H3). split; [exact H1|]. split.
    - intros p t Hin Hne. destruct (H2 p t Hin Hne) as (o & Ho & Hs).
      destruct (N.eq_dec p q) as [->|Hpq].
      + destruct (Hstr o Ho) as (o' & Ho' & Wo & Wo' & Himp). exists o'. split; [exact Ho'|].
        eapply satisfied_mono; [| | |exact Himp|exact Hs]; try assumption.
        unfold SolverSem.twf_all in Wts. rewrite Forall_forall in Wts. exact (Wts _ Hin).
      + exists o. rewrite Hsame by assumption. auto.
    - intros t o Hin Ho. rewrite Hsame in Ho by congruence. eauto.
  Qed.

  (* ---------------------------------------------------------------- terms after a derivation *)
  Lemma add_derivation_term_for p q cause cts p' :
    add_derivation O p q cause cts = Good p' ->
    exists ct, get q cts = Some ct
      /\ (forall x, x <> q -> term_for p' x = term_for p x)
      /\ term_for p' q = Some (match term_for p q with Some t => t_intersection O t (t_negate ct) | None => t_negate ct end).
  Proof.
    unfold add_derivation, bind, req. destruct (get q cts) as [ct|]; [|discriminate]. intros E0. exists ct. split; [reflexivity|]. revert E0.
    unfold term_for. destruct (index_of q (assignments p) 0) as [idx|] eqn:Ei.
    - destruct (index_of_spec q _ idx Ei) as (a & _ & Hg & _). rewrite Hg.
      destruct (ai a) as [|t] eqn:Ea; [discriminate|]. intros E. injection E as <-. cbn [assignments]. split.
      + intros x Hx. now rewrite get_set_other by congruence.
      + rewrite get_set_same. cbn. now rewrite Ea.
    - apply index_of_None in Ei. intros E. injection E as <-. cbn [assignments]. split.
      + intros x Hx. rewrite get_app. destruct (get x (assignments p)); [reflexivity|]. cbn.
        destruct (N.eqb_spec x q); [congruence|reflexivity].
      + rewrite get_app, Ei. cbn. now rewrite N.eqb_refl.
  Qed.

  Lemma cached_cache_set_other id id' lvl c : id <> id' -> cached id (cache_set id' lvl c) = cached id c.
  Proof.
    intros Hne. unfold cached, cache_set. cbn [existsb fst]. destruct (Nat.eqb_spec id' id); [congruence|]. cbn [orb].
    induction c as [|e c IH]; cbn; [reflexivity|]. destruct (Nat.eqb_spec (fst e) id') as [E|E]; cbn.
    - rewrite IH. destruct (Nat.eqb_spec (fst e) id); [congruence|reflexivity].
    - now rewrite IH.
  Qed.

  (* ---------------------------------------------------------------- the scan reaches the trigger *)
  (* [id] is an incompatibility, not known to be contradicted, that is satisfied or almost satisfied (by [nx]) *)
  Definition trig (st : state) (nx : pkg) (id : nat) : Prop :=
    cached id (contradicted st) = false
    /\ exists ci, nth_error (store st) id = Some ci /\ almost (terms ci) (term_for (ps st)) nx.

  Lemma scan_trig ids : forall st buffer st' b' c nx id,
    aux st -> layout (ps st) -> covered (ps st) (Some nx) -> In id ids -> trig st nx id ->
    scan_incompats O ids st buffer = Good (st', b', c) -> covered (ps st') None \/ c <> None.
  Proof.
    induction ids as [|x ids IH]; intros st buffer st' b' c nx id Ha Hl Hc Hin Ht; [destruct Hin|].
    cbn [scan_incompats]. destruct Ht as (Hcache & ci & Hci & Halm).
    assert (Hrest : forall st0 buf, covered (ps st0) None -> layout (ps st0) ->
                    scan_incompats O ids st0 buf = Good (st', b', c) -> covered (ps st') None \/ c <> None).
    { intros st0 buf H0 Hl0 E. left. exact (proj2 (scan_incompats_inv O ids st0 buf st' b' c _ (conj Hl0 H0) E)). }
    destruct (Nat.eq_dec x id) as [->|Hne].
    - (* the trigger itself *)
      rewrite Hcache. unfold bind, req. rewrite Hci.
      destruct (relation_almost _ _ _ Halm) as [-> | ->].
      + intros E. injection E as _ _ <-. right. discriminate.
      + destruct (add_derivation O (ps st) nx id (terms ci)) as [p'|] eqn:Ed; [|discriminate].
        apply Hrest; cbn [ps upd_cache upd_ps].
        * eapply add_derivation_covered_exc; eauto.
        * eapply add_derivation_layout; eauto.
    - destruct Hin as [Hin|Hin]; [congruence|].
      destruct (cached x (contradicted st)); [eapply IH; eauto; split; eauto|].
      unfold bind, req. destruct (nth_error (store st) x) as [cx|] eqn:Ex; [|discriminate].
      destruct (relation O (terms cx) (term_for (ps st))) as [| |q|].
      + intros E. injection E as _ _ <-. right. discriminate.
      + eapply IH; [| | |exact Hin|]; cbn [ps upd_cache].
        * destruct Ha as (A1 & A2 & A3). split; [exact A1|]. split; [exact A2|]. cbn. apply cache_set_bound; [|exact A3].
          apply nth_error_Some. congruence.
        * exact Hl.
        * exact Hc.
        * split; [cbn [contradicted upd_cache upd_ps]; now rewrite cached_cache_set_other by congruence|]. exists ci. split; [exact Hci|exact Halm].
      + destruct (add_derivation O (ps st) q x (terms cx)) as [p'|] eqn:Ed; [|discriminate].
        destruct (N.eq_dec q nx) as [->|Hq].
        * apply Hrest; cbn [ps upd_cache upd_ps].
          -- eapply add_derivation_covered_exc; eauto.
          -- eapply add_derivation_layout; eauto.
        * pose proof (aux_nth _ _ _ Ha Ex) as Wx.
          eapply IH; [| | |exact Hin|]; cbn [ps upd_cache upd_ps].
          -- eapply upd_cache_aux; [exact Ha| |exact Ex]. eapply add_derivation_wf; [exact (proj1 Ha)|exact Wx|exact Ed].
          -- eapply add_derivation_layout; eauto.
          -- eapply add_derivation_covered; eauto.
          -- split; [cbn [contradicted upd_cache upd_ps]; now rewrite cached_cache_set_other by congruence|]. exists ci. split; [exact Hci|].
             destruct (add_derivation_term_for _ _ _ _ _ Ed) as (ct & Hct & Hsame & Hnew).
             pose proof (twf_negate O L _ (twf_all_get _ _ _ Wx Hct)) as Wn.
             eapply almost_mono; [exact (aux_nth _ _ _ Ha Hci)|exact Hq|exact Hsame| |exact Halm].
             intros o Ho. rewrite Ho in Hnew. eexists. split; [exact Hnew|].
             pose proof (term_for_wf O L _ _ _ (proj1 Ha) Ho) as Wo.
             split; [exact Wo|]. split; [now apply twf_intersection|].
             intros c0. rewrite (tden_intersection O L) by assumption. intros H. now apply andb_prop in H.
      + eapply IH; eauto. split; eauto.
  Qed.

  Lemma unit_propagation_trig fuel st nx st1 id :
    aux st -> layout (ps st) -> covered (ps st) (Some nx) ->
    In id (index_get nx (index st)) -> trig st nx id ->
    unit_propagation O fuel st [nx] = inl (UPOk st1) -> covered (ps st1) None.
  Proof.
    intros Ha Hl Hc Hin Ht. destruct fuel as [|fuel]; [discriminate|]. cbn [unit_propagation rev app].
    unfold index_get in Hin. destruct (get nx (index st)) as [ids|]; [|discriminate].
    destruct (scan_incompats O (rev ids) st []) as [[[st2 b2] [conflict|]]|] eqn:Es; [| |discriminate].
    - pose proof (scan_incompats_inv O _ _ _ _ _ _ _ (conj Hl Hc) Es) as H2.
      pose proof (conflict_resolution_inv O fuel st2 conflict false _ H2) as Hcr.
      destruct (conflict_resolution O fuel st2 conflict false) as [[st3 q rc|st3 tid]|]; [|discriminate|discriminate].
      destruct (nth_error (store st3) rc) as [rci|]; [|discriminate].
      destruct (add_derivation O (ps st3) q rc (terms rci)) as [p'|] eqn:Ed; [|discriminate].
      intros E.
      assert (H3 : qinv (upd_cache (upd_ps st3 p') (cache_set rc (level p') (contradicted st3))) (fun x => Some x = None)).
      { apply (qinv_weaken _ no_exc); [intros x []|]. destruct Hcr as [K1 K2]. split; cbn [ps upd_cache upd_ps].
        - eapply add_derivation_layout; eauto.
        - eapply add_derivation_coveredP_mono; eauto. }
      pose proof (unit_propagation_inv O fuel _ [q] _ H3) as Hup. rewrite E in Hup. exact (proj2 Hup).
    - destruct (scan_trig _ _ _ _ _ _ nx id Ha Hl Hc (proj1 (in_rev ids id) Hin) Ht Es) as [H2|H2]; [|congruence].
      pose proof (scan_incompats_inv O _ _ _ _ _ _ _ (conj Hl Hc) Es) as [Hl2 _].
      intros E. pose proof (unit_propagation_inv O fuel st2 b2 _ (conj Hl2 H2)) as Hup. rewrite E in Hup. exact (proj2 Hup).
  Qed.

  (* ---------------------------------------------------------------- the index of incompatibilities *)
  Lemma index_get_set p (l : list nat) ix x : index_get x (set p l ix) = if N.eqb x p then l else index_get x ix.
  Proof.
    unfold index_get. destruct (N.eqb_spec x p) as [->|Hne]; [now rewrite get_set_same|].
    now rewrite get_set_other by congruence.
  Qed.

  Lemma index_push_keep id' (ts : list (pkg * tm)) : forall ix p id,
    In id (index_get p ix) -> In id (index_get p (index_push id' ts ix)).
  Proof.
    unfold index_push. induction ts as [|[q t] ts IH]; intros ix p id H; cbn [fold_left]; [exact H|].
    apply IH. cbn [fst]. rewrite index_get_set. destruct (N.eqb_spec p q) as [->|]; [|exact H]. apply in_or_app. now left.
  Qed.

  Lemma index_push_in id (ts : list (pkg * tm)) : forall ix p, In p (keys ts) -> In id (index_get p (index_push id ts ix)).
  Proof.
    induction ts as [|[q t] ts IH]; intros ix p H; [destruct H|]. cbn in H.
    unfold index_push. cbn [fold_left fst]. fold (index_push id ts (set q (index_get q ix ++ [id]) ix)).
    destruct (N.eq_dec q p) as [->|Hne].
    - apply index_push_keep. rewrite index_get_set, N.eqb_refl. apply in_or_app. right. now left.
    - apply IH. destruct H; [congruence|assumption].
  Qed.

  Lemma index_drop_keep past (ts : list (pkg * tm)) : forall ix p id,
    id <> past -> In id (index_get p ix) -> In id (index_get p (index_drop past ts ix)).
  Proof.
    unfold index_drop. induction ts as [|[q t] ts IH]; intros ix p id Hne H; cbn [fold_left]; [exact H|].
    apply IH; [exact Hne|]. cbn [fst]. rewrite index_get_set. destruct (N.eqb_spec p q) as [->|]; [|exact H].
    apply filter_In. split; [exact H|]. destruct (Nat.eqb_spec id past); [congruence|reflexivity].
  Qed.

  Lemma not_cached (c : list (nat * nat)) n id : Forall (fun e => fst e < n) c -> n <= id -> cached id c = false.
  Proof.
    intros H Hle. unfold cached. induction H as [|e c He _ IH]; cbn; [reflexivity|].
    rewrite IH. destruct (Nat.eqb_spec (fst e) id); [lia|reflexivity].
  Qed.

  Lemma find_merge_some (cur : incompat) pasts stl past mi :
    find_merge O cur pasts stl = Good (Some (past, mi)) ->
    exists pi, nth_error stl past = Some pi /\ merge_dependents O cur pi = Good (Some mi).
  Proof.
    induction pasts as [|x pasts IH]; cbn [find_merge]; [discriminate|]. unfold bind, req.
    destruct (nth_error stl x) as [pi|] eqn:En; [|discriminate].
    destruct (merge_dependents O cur pi) as [[m|]|] eqn:Em; [| |discriminate].
    - intros H. injection H as <- <-. eauto.
    - exact IH.
  Qed.

  Lemma merge_incompatibility_char st x st' :
    merge_incompatibility O st x = Good st' ->
    ps st' = ps st /\ contradicted st' = contradicted st /\
    exists cur, nth_error (store st) x = Some cur /\
      ((store st' = store st /\ index st' = index_push x (terms cur) (index st))
       \/ exists past pi mi, nth_error (store st) past = Some pi /\ merge_dependents O cur pi = Good (Some mi)
            /\ store st' = store st ++ [mi]
            /\ index st' = index_push (length (store st)) (terms mi) (index_drop past (terms mi) (index st))).
  Proof.
    unfold merge_incompatibility, bind, req. destruct (nth_error (store st) x) as [cur|]; [|discriminate].
    destruct (as_dependency cur) as [key|].
    - destruct (find_merge O cur _ (store st)) as [[[past mi]|]|] eqn:Ef; [| |discriminate].
      + destruct (has_any O (terms mi)); [discriminate|]. intros E. injection E as <-. cbn.
        repeat (split; [reflexivity|]). exists cur. split; [reflexivity|]. right.
        destruct (find_merge_some _ _ _ _ _ Ef) as (pi & Hpi & Hm). exists past, pi, mi. auto.
      + destruct (has_any O (terms cur)); [discriminate|]. intros E. injection E as <-. cbn.
        repeat (split; [reflexivity|]). exists cur. split; [reflexivity|]. left. auto.
    - destruct (has_any O (terms cur)); [discriminate|]. intros E. injection E as <-. cbn.
      repeat (split; [reflexivity|]). exists cur. split; [reflexivity|]. left. auto.
  Qed.

  (* an incompatibility that is not a dependency is indexed as it is *)
  Lemma add_incompatibility_single st (inc : incompat) st' :
    as_dependency inc = None -> add_incompatibility O st inc = Good st' ->
    ps st' = ps st /\ contradicted st' = contradicted st /\ store st' = store st ++ [inc]
    /\ forall p, In p (keys (terms inc)) -> In (length (store st)) (index_get p (index st')).
  Proof.
    intros Hd. unfold add_incompatibility. cbn [alloc]. intros E.
    destruct (merge_incompatibility_char _ _ _ E) as (E1 & E2 & cur & Hcur & Hcase). cbn [ps contradicted store index] in *.
    rewrite nth_error_snoc in Hcur. injection Hcur as <-.
    split; [exact E1|]. split; [exact E2|].
    destruct Hcase as [[E3 E4]|(past & pi & mi & _ & Hm & _)].
    - split; [exact E3|]. intros p Hp. rewrite E4. now apply index_push_in.
    - exfalso. unfold merge_dependents in Hm. rewrite Hd in Hm. discriminate.
  Qed.

  (* ---------------------------------------------------------------- triggers for single-term incompatibilities *)
  Lemma contains_both_not_disjoint S cur v :
    wfs S -> wfs cur -> vs_contains O S v = true -> vs_contains O cur v = true -> vs_is_disjoint O S cur = false.
  Proof.
    intros WS Wc HS Hc. destruct (vs_is_disjoint O S cur) eqn:E; [|reflexivity].
    pose proof (proj1 (is_disjoint_spec O L S cur WS Wc) E (pt O L v)) as E'. clear E. rename E' into E.
    rewrite <- !(contains_mem O L) in E by assumption. rewrite HS, Hc in E. discriminate.
  Qed.

  Lemma pos_pos_not_contra S cur v :
    wfs S -> wfs cur -> vs_contains O S v = true -> vs_contains O cur v = true ->
    t_relation_with O (Pos S) (Pos cur) <> Contradicted.
  Proof.
    intros WS Wc HS Hc. unfold t_relation_with. destruct (t_subset_of O (Pos cur) (Pos S)); [discriminate|].
    cbn [t_is_disjoint]. now rewrite (contains_both_not_disjoint S cur v).
  Qed.

  Lemma subset_refl s : wfs s -> vs_subset_of O s s = true.
  Proof. intros W. apply (subset_of_spec O L); auto. Qed.

  Lemma almost_single p S (lookup : pkg -> option tm) :
    (forall o, lookup p = Some o -> t_relation_with O (Pos S) o <> Contradicted) -> almost [(p, Pos S)] lookup p.
  Proof.
    intros H. split; [constructor; [tauto|constructor]|]. split.
    - intros q t [E|[]] Hne. injection E as <- <-. congruence.
    - intros t o [E|[]] Ho. injection E as <-. auto.
  Qed.

  Lemma single_trig st (inc : incompat) st' p S :
    aux st -> as_dependency inc = None -> terms inc = [(p, Pos S)] ->
    (forall o, term_for (ps st) p = Some o -> t_relation_with O (Pos S) o <> Contradicted) ->
    add_incompatibility O st inc = Good st' ->
    exists id, In id (index_get p (index st')) /\ trig st' p id.
  Proof.
    intros Ha Hd Ht Hrel E. destruct (add_incompatibility_single _ _ _ Hd E) as (E1 & E2 & E3 & Hix).
    exists (length (store st)). split; [apply Hix; rewrite Ht; now left|]. split.
    - rewrite E2. eapply not_cached; [exact (proj2 (proj2 Ha))|lia].
    - exists inc. split; [rewrite E3; apply nth_error_snoc|]. rewrite Ht, E1. now apply almost_single.
  Qed.

  (* ---------------------------------------------------------------- triggers for dependency incompatibilities *)
  Lemma from_dep_key p S d sd : In p (keys (terms (from_dependency O p S (d, sd)))).
  Proof.
    unfold from_dependency. cbn [terms]. destruct (vs_eqb O sd (vs_empty O)); [now left|]. destruct (N.eqb p d); now left.
  Qed.

  Lemma dep_term_set sd :
    match (if vs_eqb O sd (vs_empty O) then None else Some (Neg sd)) with
    | None => Good (vs_empty O) | Some t => unwrap_negative t end = Good sd.
  Proof.
    destruct (vs_eqb O sd (vs_empty O)) eqn:E; [|reflexivity]. apply (vs_eqb_spec O L) in E. now rewrite E.
  Qed.

  Lemma as_dep_from_dep p S d sd : as_dependency (from_dependency O p S (d, sd)) = Some (p, d).
  Proof. reflexivity. Qed.

  (* merging a dependency incompatibility of [p] into any older one *)
  Lemma merge_dependents_self p S1 d sd (other mi : incompat) :
    twf_all (terms other) ->
    merge_dependents O (from_dependency O p S1 (d, sd)) other = Good (Some mi) ->
    exists S2, wfs S2 /\ mi = from_dependency O p (vs_union O S1 S2) (d, sd).
  Proof.
    intros Wo. unfold merge_dependents. rewrite as_dep_from_dep.
    destruct (as_dependency other) as [[q1 q2]|]; [|discriminate].
    destruct (negb _); [discriminate|]. destruct (N.eqb_spec p d) as [|Hne]; [discriminate|].
    destruct (from_dep_terms_get O p S1 d sd Hne) as [G1 G2]. rewrite G1, G2.
    destruct (negb _); [discriminate|]. cbn [bind req unwrap_positive].
    destruct (get p (terms other)) as [t2|] eqn:E2; [|discriminate]. cbn [bind].
    pose proof (twf_all_get _ _ _ Wo E2) as W2. destruct t2 as [s2|]; [|discriminate]. cbn [unwrap_positive bind].
    rewrite dep_term_set. cbn [bind]. intros E. injection E as <-. exists s2. split; [exact W2|reflexivity].
  Qed.

  (* ... into an older one of the same shape: same dependency *)
  Lemma merge_dependents_both p S1 d sd p' S d' sd' (mi : incompat) :
    merge_dependents O (from_dependency O p S1 (d, sd)) (from_dependency O p' S (d', sd')) = Good (Some mi) ->
    d' = d /\ sd' = sd /\ mi = from_dependency O p (vs_union O S1 S) (d, sd).
  Proof.
    unfold merge_dependents. rewrite !as_dep_from_dep.
    destruct (N.eqb_spec p p') as [<-|]; [|discriminate]. destruct (N.eqb_spec d d') as [<-|]; [|discriminate]. cbn [andb negb].
    destruct (N.eqb_spec p d) as [|Hne]; [discriminate|].
    destruct (from_dep_terms_get O p S1 d sd Hne) as [G1 G2]. destruct (from_dep_terms_get O p S d sd' Hne) as [G3 G4].
    rewrite G1, G2, G3, G4.
    assert (Heq : opt_term_eqb O (if vs_eqb O sd (vs_empty O) then None else Some (Neg sd))
                              (if vs_eqb O sd' (vs_empty O) then None else Some (Neg sd')) = true -> sd = sd').
    { destruct (vs_eqb O sd (vs_empty O)) eqn:E1, (vs_eqb O sd' (vs_empty O)) eqn:E2; cbn; try discriminate.
      - intros _. apply (vs_eqb_spec O L) in E1, E2. congruence.
      - intros H. now apply (vs_eqb_spec O L) in H. }
    destruct (opt_term_eqb O _ _); [|discriminate]. specialize (Heq eq_refl). subst sd'. cbn [negb bind req unwrap_positive].
    rewrite dep_term_set. cbn [bind]. intros E. injection E as <-. auto.
  Qed.

  (* [p]'s dependency (d, sd), declared by a set of versions containing [v], is indexed under [p] by a fresh id *)
  Definition dep_trig (bound : nat) (p : pkg) (v : Vr) (st : state) (d : pkg) (sd : VS) : Prop :=
    exists id S, bound <= id /\ In id (index_get p (index st))
      /\ nth_error (store st) id = Some (from_dependency O p S (d, sd)) /\ wfs S /\ vs_contains O S v = true.

  Lemma merge_step bound p v st x st' dx sdx :
    aux st -> nth_error (store st) x = Some (from_dependency O p (vs_singleton O v) (dx, sdx)) -> bound <= x ->
    merge_incompatibility O st x = Good st' ->
    dep_trig bound p v st' dx sdx /\ (forall d sd, dep_trig bound p v st d sd -> dep_trig bound p v st' d sd).
  Proof.
    intros Ha Hx Hb E. destruct (merge_incompatibility_char _ _ _ E) as (_ & _ & cur & Hcur & Hcase).
    rewrite Hx in Hcur. injection Hcur as <-.
    assert (Hxl : x < length (store st)) by (apply nth_error_Some; congruence).
    assert (Hvv : vs_contains O (vs_singleton O v) v = true) by now apply (contains_singleton O L).
    destruct Hcase as [[E3 E4]|(past & pi & mi & Hpi & Hm & E3 & E4)].
    - split.
      + exists x, (vs_singleton O v). split; [exact Hb|]. split; [rewrite E4; apply index_push_in, from_dep_key|].
        split; [now rewrite E3|]. split; [apply (wf_singleton O L)|exact Hvv].
      + intros d sd (id & S & H1 & H2 & H3 & H4 & H5). exists id, S. split; [exact H1|].
        split; [rewrite E4; now apply index_push_keep|]. split; [now rewrite E3|]. auto.
    - destruct (merge_dependents_self _ _ _ _ _ _ (aux_nth _ _ _ Ha Hpi) Hm) as (S2 & W2 & Emi).
      assert (Hnew : forall S0, wfs S0 -> mi = from_dependency O p (vs_union O (vs_singleton O v) S0) (dx, sdx) ->
                     dep_trig bound p v st' dx sdx).
      { intros S0 W0 E0. exists (length (store st)), (vs_union O (vs_singleton O v) S0). split; [lia|].
        split; [rewrite E4; apply index_push_in; rewrite E0; apply from_dep_key|].
        split; [rewrite E3, E0; apply nth_error_snoc|].
        split; [apply (wf_union O L); [apply (wf_singleton O L)|exact W0]|].
        rewrite (contains_union O L) by (try assumption; apply (wf_singleton O L)). now rewrite Hvv. }
      split; [exact (Hnew S2 W2 Emi)|].
      intros d sd (id & S & H1 & H2 & H3 & H4 & H5). destruct (Nat.eq_dec id past) as [->|Hne].
      + rewrite Hpi in H3. injection H3 as ->.
        destruct (merge_dependents_both _ _ _ _ _ _ _ _ _ Hm) as (-> & -> & Emi'). exact (Hnew S H4 Emi').
      + exists id, S. split; [exact H1|]. split; [rewrite E4; apply index_push_keep; now apply index_drop_keep|].
        split; [rewrite E3; now apply nth_error_app_old|]. auto.
  Qed.

  Lemma merge_range_trig bound p v deps : forall start st st',
    aux st -> bound <= start -> Forall (fun dep : pkg * VS => wfs (snd dep)) deps ->
    (forall k dep, nth_error deps k = Some dep ->
                   nth_error (store st) (start + k) = Some (from_dependency O p (vs_singleton O v) dep)) ->
    merge_range O st (seq start (length deps)) = Good st' ->
    aux st' /\ ps st' = ps st /\ contradicted st' = contradicted st /\ (exists extra, store st' = store st ++ extra)
    /\ (forall d sd, dep_trig bound p v st d sd -> dep_trig bound p v st' d sd)
    /\ (forall d sd, In (d, sd) deps -> dep_trig bound p v st' d sd).
  Proof.
    induction deps as [|[dx sdx] deps IH]; intros start st st' Ha Hb Hw Hent; cbn [length seq merge_range].
    - intros E. injection E as <-. split; [exact Ha|]. repeat (split; [reflexivity|]). split; [exists []; now rewrite app_nil_r|].
      split; [auto|intros d sd []].
    - unfold bind. destruct (merge_incompatibility O st start) as [st1|] eqn:E1; [|discriminate]. intros E.
      inversion Hw as [|? ? Hw1 Hw2]; subst.
      pose proof (Hent 0 _ eq_refl) as H0. rewrite Nat.add_0_r in H0.
      destruct (merge_step bound p v st start st1 dx sdx Ha H0 Hb E1) as [Hnew Hkeep].
      destruct (merge_incompatibility_char _ _ _ E1) as (P1 & C1 & _).
      destruct (merge_incompatibility_ext _ _ _ _ E1) as (ex1 & X1).
      destruct (IH (S start) st1 st' (merge_incompatibility_aux _ _ _ Ha E1) ltac:(lia) Hw2) as (A2 & P2 & C2 & (ex2 & X2) & K2 & N2); [|exact E|].
      { intros k dep Hk. rewrite X1. apply nth_error_app_old. replace (S start + k) with (start + S k) by lia. now apply Hent. }
      split; [exact A2|]. split; [congruence|]. split; [congruence|].
      split; [exists (ex1 ++ ex2); now rewrite X2, X1, app_assoc|].
      split; [auto|]. intros d sd [Hin|Hin]; [injection Hin as <- <-; auto|auto].
  Qed.

  Lemma add_from_deps_trig st p v deps st' range :
    aux st -> Forall (fun dep : pkg * VS => wfs (snd dep)) deps ->
    add_incompatibility_from_dependencies O st p v deps = Good (st', range) ->
    aux st' /\ ps st' = ps st /\ contradicted st' = contradicted st
    /\ (exists extra, store st' = store st ++ map (from_dependency O p (vs_singleton O v)) deps ++ extra)
    /\ range = (length (store st), length (store st) + length deps)
    /\ forall d sd, In (d, sd) deps -> dep_trig (length (store st)) p v st' d sd.
  Proof.
    intros Ha Hw. unfold add_incompatibility_from_dependencies, bind.
    set (news := map (fun d => from_dependency O p (vs_singleton O v) d) deps).
    set (st1 := {| root := root st; rootv := rootv st; index := index st; contradicted := contradicted st;
                   merged := merged st; ps := ps st; store := store st ++ news |}).
    assert (Hlen : length news = length deps) by apply map_length. rewrite Hlen.
    destruct (merge_range O st1 (seq (length (store st)) (length deps))) as [st2|] eqn:E; [|discriminate].
    intros H. injection H as <- <-.
    assert (Ha1 : aux st1).
    { destruct Ha as (A1 & A2 & A3). split; [exact A1|]. split; cbn [store st1 contradicted].
      - apply Forall_app. split; [exact A2|]. unfold news. apply Forall_forall. intros i Hi. apply in_map_iff in Hi.
        destruct Hi as ([d sd] & <- & Hin). rewrite Forall_forall in Hw. apply from_dependency_wf; [apply (wf_singleton O L)|exact (Hw _ Hin)].
      - rewrite app_length. eapply bound_mono; [|exact A3]. lia. }
    destruct (merge_range_trig (length (store st)) p v deps (length (store st)) st1 st2 Ha1 (le_n _) Hw) as (A2 & P2 & C2 & (ex & X2) & _ & N2); [|exact E|].
    { intros k dep Hk. cbn [store st1]. rewrite nth_error_app2 by lia. replace (length (store st) + k - length (store st)) with k by lia.
      unfold news. now rewrite nth_error_map, Hk. }
    split; [exact A2|]. split; [exact P2|]. split; [exact C2|].
    split; [exists ex; rewrite X2; cbn [store st1]; now rewrite app_assoc|]. split; [reflexivity|exact N2].
  Qed.

  Lemma forallb_false_ex {A} (f : A -> bool) (l : list A) : forallb f l = false -> exists x, In x l /\ f x = false.
  Proof.
    induction l as [|x l IH]; cbn; [discriminate|]. destruct (f x) eqn:E; cbn.
    - intros H. destruct (IH H) as (y & Hy & Hf). exists y. auto.
    - intros _. exists x. auto.
  Qed.

  Lemma add_version_cases (pso : psol) p v range (stl : list incompat) pn :
    add_version O pso p v range stl = Good pn ->
    add_decision O pso p v = Good pn
    \/ (pn = pso /\ exists i, In i (firstn (snd range - fst range) (skipn (fst range) stl))
          /\ relation O (terms i) (fun q => if N.eqb q p then Some (t_exact O v) else term_for pso q) = RSatisfied).
  Proof.
    unfold add_version. destruct (negb (backtracked pso)); [now left|].
    destruct (forallb _ _) eqn:Ef; [now left|]. intros E. injection E as <-. right. split; [reflexivity|].
    apply forallb_false_ex in Ef. destruct Ef as (i & Hi & Hf). exists i. split; [exact Hi|].
    destruct (relation O (terms i) _); try discriminate. reflexivity.
  Qed.

  Lemma dep_almost (pso : psol) p S d sd cur v :
    wfs S -> wfs sd -> wfs cur -> vs_contains O S v = true -> vs_contains O cur v = true ->
    term_for pso p = Some (Pos cur) ->
    relation O (terms (from_dependency O p (vs_singleton O v) (d, sd)))
             (fun q => if N.eqb q p then Some (t_exact O v) else term_for pso q) = RSatisfied ->
    almost (terms (from_dependency O p S (d, sd))) (term_for pso) p.
  Proof.
    intros WS Wd Wc HS Hc Ht Hrel. pose proof (relation_satisfied _ _ Hrel) as Hall. clear Hrel.
    unfold from_dependency in *. cbn [terms] in *. destruct (vs_eqb O sd (vs_empty O)).
    - apply almost_single. intros o Ho. rewrite Ht in Ho. injection Ho as <-. now apply (pos_pos_not_contra S cur v).
    - destruct (N.eqb_spec p d) as [<-|Hne].
      + destruct (Hall p _ (or_introl eq_refl)) as (o & Ho & Hs). rewrite N.eqb_refl in Ho. injection Ho as <-.
        apply satisfied_subset in Hs. unfold t_exact in Hs. cbn [t_subset_of] in Hs.
        assert (Wi : wfs (vs_intersection O (vs_singleton O v) (vs_complement O sd)))
          by (apply (wf_intersection O L); [apply (wf_singleton O L)|now apply (wf_complement O L)]).
        pose proof (proj1 (subset_of_spec O L _ _ (wf_singleton O L v) Wi) Hs (pt O L v)) as Hm.
        rewrite <- !(contains_mem O L) in Hm by (try assumption; apply (wf_singleton O L)).
        specialize (Hm (proj2 (contains_singleton O L v v) eq_refl)).
        rewrite (contains_intersection O L), (contains_complement O L) in Hm
          by (try assumption; try apply (wf_singleton O L); now apply (wf_complement O L)).
        apply andb_prop in Hm as [_ Hm].
        apply almost_single. intros o Ho. rewrite Ht in Ho. injection Ho as <-.
        apply (pos_pos_not_contra _ cur v); try assumption.
        * apply (wf_intersection O L); [exact WS|now apply (wf_complement O L)].
        * rewrite (contains_intersection O L), (contains_complement O L) by (try assumption; now apply (wf_complement O L)).
          now rewrite HS, Hm.
      + split; [constructor; [cbn; intuition congruence|constructor; [tauto|constructor]]|]. split.
        * intros q t [E|[E|[]]] Hq; injection E as <- <-; [congruence|].
          destruct (Hall d (Neg sd)) as (o & Ho & Hs); [right; now left|].
          destruct (N.eqb_spec d p); [congruence|]. eauto.
        * intros t o [E|[E|[]]] Ho; [|congruence]. injection E as <-.
          rewrite Ht in Ho. injection Ho as <-. now apply (pos_pos_not_contra S cur v).
  Qed.

  (* ---------------------------------------------------------------- the loop invariant and its continuations *)
  (* [next] is the only possibly stale package, and if it is stale then unit propagation will meet a trigger *)
  Definition Inv (st : state) (next : pkg) : Prop :=
    aux st /\ layout (ps st) /\ covered (ps st) (Some next)
    /\ (covered (ps st) None \/ exists id, In id (index_get next (index st)) /\ trig st next id).

  Lemma up_clears fuel st next st1 :
    Inv st next -> unit_propagation O fuel st [next] = inl (UPOk st1) ->
    aux st1 /\ layout (ps st1) /\ covered (ps st1) None.
  Proof.
    intros (Ha & Hl & Hc & Hj) E.
    pose proof (unit_propagation_aux fuel st [next] Ha) as H1. rewrite E in H1.
    pose proof (unit_propagation_inv O fuel st [next] _ (conj Hl Hc)) as H2. rewrite E in H2.
    split; [exact H1|]. split; [exact (proj1 H2)|]. destruct Hj as [Hn|(id & Hin & Ht)].
    - pose proof (unit_propagation_inv O fuel st [next] _ (conj Hl Hn)) as H3. rewrite E in H3. exact (proj2 H3).
    - exact (unit_propagation_trig fuel st next st1 id Ha Hl Hc Hin Ht E).
  Qed.

  Lemma popped_inv st1 q (tr tr2 : list event) n n2 p :
    aux st1 -> layout (ps st1) -> covered (ps st1) None ->
    do_prioritize O (pick_candidates (ps st1)) (queue (ps st1)) tr n = inl (q, tr2, n2) ->
    entry_ok [] (undecided_positive (ps st1), q, n2)
    /\ aux (upd_ps st1 (popped (ps st1) q p)) /\ layout (popped (ps st1) q p) /\ covered (popped (ps st1) q p) (Some p).
  Proof.
    intros Ha Hl Hc Ep. destruct (iteration_next_covered O veqb (ps st1) q tr tr2 n n2 p Hl Hc Ep) as (H1 & H2 & H3).
    split; [intros x s Hin _; exact (H1 x s Hin)|]. split; [|split; assumption].
    destruct Ha as (A1 & A2 & A3). split; [exact A1|]. split; assumption.
  Qed.

  Lemma cont_decide st2 p v p' :
    aux st2 -> layout (ps st2) -> covered (ps st2) (Some p) -> add_decision O (ps st2) p v = Good p' ->
    Inv (upd_ps st2 p') p.
  Proof.
    intros (A1 & A2 & A3) Hl Hc Ed. pose proof (add_decision_covered O veqb _ _ _ _ Hl Hc Ed) as Hn.
    split; [split; [eapply add_decision_wf; eauto|split; assumption]|].
    split; [eapply add_decision_layout; eauto|]. split; [now apply covered_weaken|now left].
  Qed.

  Lemma Inv_same_ps st st' p :
    aux st' -> ps st' = ps st -> layout (ps st) -> covered (ps st) (Some p) ->
    (exists id, In id (index_get p (index st')) /\ trig st' p id) -> Inv st' p.
  Proof. intros Ha E Hl Hc Ht. split; [exact Ha|]. rewrite E. split; [exact Hl|]. split; [exact Hc|now right]. Qed.

  Lemma cont_novers st2 p cur st3 :
    aux st2 -> layout (ps st2) -> covered (ps st2) (Some p) -> term_for (ps st2) p = Some (Pos cur) ->
    add_incompatibility O st2 {| terms := [(p, Pos cur)]; ikind := KNoVersions p cur |} = Good st3 -> Inv st3 p.
  Proof.
    intros Ha Hl Hc Ht E. pose proof (term_for_wf O L _ _ _ (proj1 Ha) Ht) as Wc. cbn in Wc.
    apply (Inv_same_ps st2); [|exact (add_incompatibility_ps _ _ _ _ E)|exact Hl|exact Hc|].
    - eapply add_incompatibility_aux; [exact Ha| |exact E]. constructor; [exact Wc|constructor].
    - eapply (single_trig st2 {| terms := [(p, Pos cur)]; ikind := KNoVersions p cur |} st3 p cur); [exact Ha|reflexivity|reflexivity| |exact E].
      intros o Ho. rewrite Ht in Ho. injection Ho as <-. unfold t_relation_with. cbn [t_subset_of].
      now rewrite (subset_refl cur Wc).
  Qed.

  Lemma cont_unavail st2 p cur v m st3 :
    aux st2 -> layout (ps st2) -> covered (ps st2) (Some p) -> term_for (ps st2) p = Some (Pos cur) ->
    t_contains O (Pos cur) v = true ->
    add_incompatibility O st2 (custom_version O p v m) = Good st3 -> Inv st3 p.
  Proof.
    intros Ha Hl Hc Ht Hv E. pose proof (term_for_wf O L _ _ _ (proj1 Ha) Ht) as Wc. cbn in Wc, Hv.
    apply (Inv_same_ps st2); [|exact (add_incompatibility_ps _ _ _ _ E)|exact Hl|exact Hc|].
    - eapply add_incompatibility_aux; [exact Ha| |exact E]. constructor; [apply (wf_singleton O L)|constructor].
    - eapply (single_trig st2 (custom_version O p v m) st3 p (vs_singleton O v)); [exact Ha|reflexivity|reflexivity| |exact E].
      intros o Ho. rewrite Ht in Ho. injection Ho as <-.
      apply (pos_pos_not_contra _ cur v); try assumption; [apply (wf_singleton O L)|now apply (contains_singleton O L)].
  Qed.

  Lemma cont_deps st2 p cur v deps st3 range pn :
    aux st2 -> layout (ps st2) -> covered (ps st2) (Some p) -> term_for (ps st2) p = Some (Pos cur) ->
    t_contains O (Pos cur) v = true -> Forall (fun dep : pkg * VS => wfs (snd dep)) deps ->
    add_incompatibility_from_dependencies O st2 p v deps = Good (st3, range) ->
    add_version O (ps st3) p v range (store st3) = Good pn -> Inv (upd_ps st3 pn) p.
  Proof.
    intros Ha Hl Hc Ht Hv Hw Ea Eav. pose proof (term_for_wf O L _ _ _ (proj1 Ha) Ht) as Wc. cbn in Wc, Hv.
    destruct (add_from_deps_trig _ _ _ _ _ _ Ha Hw Ea) as (A3 & P3 & C3 & (ex & X3) & -> & Htr).
    rewrite P3 in Eav. destruct (add_version_cases _ _ _ _ _ _ Eav) as [Ed|(-> & i & Hi & Hrel)].
    - assert (Ha3 : aux (upd_ps st3 (ps st2))) by (destruct A3 as (_ & B2 & B3); split; [exact (proj1 Ha)|split; assumption]).
      exact (cont_decide (upd_ps st3 (ps st2)) p v pn Ha3 Hl Hc Ed).
    - cbn [fst snd] in Hi. rewrite X3 in Hi. rewrite skipn_app, skipn_all, Nat.sub_diag in Hi. cbn [skipn app] in Hi.
      replace (length (store st2) + length deps - length (store st2)) with (length (map (from_dependency O p (vs_singleton O v)) deps)) in Hi
        by (rewrite map_length; lia).
      rewrite firstn_app, firstn_all, Nat.sub_diag in Hi. cbn [firstn] in Hi. rewrite app_nil_r in Hi.
      apply in_map_iff in Hi. destruct Hi as ([d sd] & <- & Hin).
      destruct (Htr d sd Hin) as (id & S & Hb & Hix & Hst & WS & HS).
      assert (Wd : wfs sd) by (rewrite Forall_forall in Hw; exact (Hw _ Hin)).
      split; [destruct A3 as (_ & B2 & B3); split; [exact (proj1 Ha)|split; assumption]|]. cbn [ps upd_ps].
      split; [exact Hl|]. split; [exact Hc|]. right. exists id. split; [exact Hix|]. split; cbn [contradicted upd_ps store ps].
      + rewrite C3. eapply not_cached; [exact (proj2 (proj2 Ha))|exact Hb].
      + eexists. split; [exact Hst|]. exact (dep_almost (ps st2) p S d sd cur v WS Wd Wc HS Hv Ht Hrel).
  Qed.

  (* ---------------------------------------------------------------- T1 *)
  Definition ev_wf (e : event) : Prop :=
    match e with EvDeps _ _ (DAvail ds) => Forall (fun dep : pkg * VS => wfs (snd dep)) ds | _ => True end.
  Definition trace_wf (tr : list event) : Prop := Forall ev_wf tr.

  Theorem resolve_loop_fresh fuel : forall st next added (tr : list event) n log,
    Inv st next -> trace_wf tr -> Forall (entry_ok []) log ->
    let '(_, _, log', _) := resolve_loop O veqb fuel st next added tr n log in Forall (entry_ok []) log'.
  Proof.
    induction fuel as [|fuel IH]; intros st next added tr n log Hst Hwf Hlog; cbn [resolve_loop]; [exact Hlog|].
    destruct tr as [|[ok| | |] tr1]; try exact Hlog.
    destruct ok; cbn [negb]; [|exact Hlog]. apply Forall_inv_tail in Hwf.
    pose proof (up_clears (S fuel) st next) as Hup.
    destruct (unit_propagation O (S fuel) st [next]) as [[st1|st1 id]|[|s0]]; try exact Hlog.
    2:{ destruct (build_derivation_tree (store st1) id); exact Hlog. }
    destruct (Hup st1 Hst eq_refl) as (Ha1 & Hl1 & Hc1). clear Hup.
    destruct (do_prioritize O (pick_candidates (ps st1)) (queue (ps st1)) tr1 (S n)) as [[[q tr2] n2]|o] eqn:Ep; [|exact Hlog].
    destruct (do_prioritize_count O _ _ _ _ _ _ _ Ep) as (pre & -> & _ & ->).
    apply Forall_app in Hwf. destruct Hwf as [_ Hwf].
    set (log1 := log ++ [(undecided_positive (ps st1), q, S n + length pre)]).
    assert (Hlog1 : Forall (entry_ok []) log1).
    { apply Forall_app. split; [exact Hlog|]. constructor; [|constructor].
      exact (proj1 (popped_inv st1 q _ _ _ _ next Ha1 Hl1 Hc1 Ep)). }
    destruct (queue_max q) as [mx|].
    2:{ unfold res_out. destruct (extract_solution (ps st1)); exact Hlog1. }
    destruct tr2 as [|[| |p s ans|] tr3]; try exact Hlog1.
    destruct (get p q) as [[prio qs]|]; [|exact Hlog1].
    destruct (negb (Z.eqb prio mx)); [exact Hlog1|].
    destruct (popped_inv st1 q _ _ _ _ p Ha1 Hl1 Hc1 Ep) as (_ & Ha2 & Hl2 & Hc2).
    set (st2 := upd_ps st1 _) in *.
    pose proof (Forall_inv Hwf) as Hev. apply Forall_inv_tail in Hwf.
    destruct (term_for (ps st2) p) as [ti|] eqn:Eti; [|exact Hlog1].
    destruct ti as [cur|cur]; [|exact Hlog1].
    destruct (vs_eqb O s cur); cbn [negb]; [|exact Hlog1].
    destruct ans as [v| |]; [| |exact Hlog1].
    - destruct (t_contains O (Pos cur) v) eqn:Ev; cbn [negb]; [|exact Hlog1].
      destruct (added_has veqb added p v).
      + unfold res_out. destruct (add_decision O (ps st2) p v) as [p'|] eqn:Ed; [|exact Hlog1].
        apply IH; [|exact Hwf|exact Hlog1]. exact (cont_decide st2 p v p' Ha2 Hl2 Hc2 Ed).
      + destruct tr3 as [|[| | |p' v' dans] tr4]; try exact Hlog1.
        destruct (N.eqb p p' && veqb v v'); cbn [negb]; [|exact Hlog1].
        pose proof (Forall_inv Hwf) as Hev2. apply Forall_inv_tail in Hwf.
        destruct dans as [deps|m|]; [| |exact Hlog1].
        * unfold res_out.
          destruct (add_incompatibility_from_dependencies O st2 p v deps) as [[st3 range]|] eqn:Ea; [|exact Hlog1].
          destruct (add_version O (ps st3) p v range (store st3)) as [pn|] eqn:Eav; [|exact Hlog1].
          apply IH; [|exact Hwf|exact Hlog1]. exact (cont_deps st2 p cur v deps st3 range pn Ha2 Hl2 Hc2 Eti Ev Hev2 Ea Eav).
        * unfold res_out.
          destruct (add_incompatibility O st2 (custom_version O p v m)) as [st3|] eqn:Ea; [|exact Hlog1].
          apply IH; [|exact Hwf|exact Hlog1]. exact (cont_unavail st2 p cur v m st3 Ha2 Hl2 Hc2 Eti Ev Ea).
    - cbn [no_versions]. unfold res_out.
      destruct (add_incompatibility O st2 _) as [st3|] eqn:Ea; [|exact Hlog1].
      apply IH; [|exact Hwf|exact Hlog1]. exact (cont_novers st2 p cur st3 Ha2 Hl2 Hc2 Eti Ea).
  Qed.

  Lemma state_init_Inv r v : Inv (state_init O r v) r.
  Proof.
    assert (Hc : forall exc, covered (@ps_empty VS Vr) exc) by (intros exc [|i] q a s H; discriminate).
    split; [|split; [exact ps_empty_layout|split; [apply Hc|left; apply Hc]]].
    split; [constructor|]. split; cbn; [|constructor].
    constructor; [|constructor]. cbn. constructor; [apply (wf_singleton O L)|constructor].
  Qed.

  (* T1: at every decision point, every undecided package with a positive term is queued with a priority that
     was reported for its current set *)
  Theorem resolve_fresh fuel r v (tr : list event) o st' log cnt k cands q n2 x s :
    trace_wf tr -> resolve O veqb fuel r v tr = (o, st', log, cnt) ->
    nth_error log k = Some (cands, q, n2) -> In (x, s) cands -> exists z, get x q = Some (z, s).
  Proof.
    intros Hwf Er Hk Hin. pose proof (resolve_loop_fresh fuel (state_init O r v) r [] tr 0 [] (state_init_Inv r v) Hwf (Forall_nil _)) as H.
    unfold resolve in Er. rewrite Er in H. pose proof (Forall_at _ _ _ _ H Hk) as He. cbn in He. apply (He x s Hin). tauto.
  Qed.

  (* ---------------------------------------------------------------- what the queue holds *)
  (* every queued package is undecided and its entry satisfies [P] (later: is the last prioritize event) *)
  Definition und (p : psol) (x : pkg) : Prop := forall a, get x (assignments p) = Some a -> decided a = false.
  Definition qgoodq (P : pkg -> Z * VS -> Prop) (p : psol) (q : list (pkg * (Z * VS))) : Prop :=
    forall x e, get x q = Some e -> P x e /\ und p x.
  Definition qgood (P : pkg -> Z * VS -> Prop) (p : psol) : Prop := qgoodq P p (queue p).

  Lemma add_derivation_und p q cause cts p' x :
    layout p -> add_derivation O p q cause cts = Good p' -> und p x -> und p' x.
  Proof.
    intros Hl E Hu a Hg. destruct (add_derivation_char O p q cause cts p' Hl E)
      as (_ & _ & idx & a' & _ & _ & _ & Hnd & Hnth & _ & Hdec & _).
    apply get_In in Hg. apply In_nth_error in Hg. destruct Hg as (i & Hi). rewrite Hnth in Hi.
    destruct (Nat.eqb i idx); [now injection Hi as _ <-|]. apply Hu. eapply nth_get; [exact (lay_keys _ Hl)|exact Hi].
  Qed.

  Lemma add_derivation_qgood P p q cause cts p' :
    layout p -> add_derivation O p q cause cts = Good p' -> qgood P p -> qgood P p'.
  Proof.
    intros Hl E Hq x e Hg. destruct (add_derivation_char O p q cause cts p' Hl E) as (_ & Eq & _).
    unfold qgood, qgoodq in Hq. rewrite Eq in Hg. destruct (Hq x e Hg) as [H1 H2]. split; [exact H1|].
    eapply add_derivation_und; eauto.
  Qed.

  Lemma add_decision_qgood P p q v p' :
    layout p -> get q (queue p) = None -> add_decision O p q v = Good p' -> qgood P p -> qgood P p'.
  Proof.
    intros Hl Hnone E Hq x e Hg. destruct (add_decision_char O p q v p' Hl E)
      as (_ & Eq & _ & _ & oi & a0 & a' & _ & _ & _ & _ & _ & _ & _ & _ & Hnd & Hnth).
    rewrite Eq in Hg. destruct (Hq x e Hg) as [H1 H2]. split; [exact H1|].
    assert (Hx : x <> q) by congruence.
    intros a Hga. apply get_In in Hga. apply In_nth_error in Hga. destruct Hga as (k & Hk). rewrite Hnth in Hk.
    destruct (Nat.eqb k (level p)); [injection Hk as E1 _; congruence|].
    destruct (Nat.eqb k oi); (apply H2; eapply nth_get; [exact (lay_keys _ Hl)|exact Hk]).
  Qed.

  Lemma ps_backtrack_qgood P (p : psol) Lv p' : ps_backtrack p Lv = Good p' -> qgood P p'.
  Proof.
    unfold ps_backtrack, bind. destruct (backtrack_asg Lv (assignments p)); [|discriminate].
    intros E. injection E as <-. intros x e H. discriminate.
  Qed.

  Lemma backtrack_qgood P st inc chg Lv st' : backtrack O st inc chg Lv = Good st' -> qgood P (ps st').
  Proof.
    unfold backtrack, bind. destruct (ps_backtrack (ps st) Lv) as [p'|] eqn:Ep; [|discriminate].
    pose proof (ps_backtrack_qgood P _ _ _ Ep) as H. destruct chg.
    - intros E. now rewrite (merge_incompatibility_ps _ _ _ _ E).
    - intros E. now injection E as <-.
  Qed.

  Lemma conflict_resolution_qgood P fuel : forall st cur chg,
    qgood P (ps st) ->
    match conflict_resolution O fuel st cur chg with
    | inl (CROk st' _ _) => qgood P (ps st')
    | inl (CRTerminal st' _) => qgood P (ps st')
    | inr _ => True
    end.
  Proof.
    induction fuel as [|fuel IH]; intros st cur chg Hst; cbn [conflict_resolution]; [exact I|].
    destruct (nth_error (store st) cur) as [ci|]; [|exact I].
    destruct (is_terminal O ci (root st) (rootv st)); [exact Hst|].
    destruct (satisfier_search O (terms ci) (ps st) (store st)) as [[p [Lv|cause]]|]; [| |exact I].
    - destruct (backtrack O st cur chg Lv) as [st'|] eqn:Eb; [|exact I]. eapply backtrack_qgood; eauto.
    - destruct (nth_error (store st) cause) as [cj|]; [|exact I].
      destruct (prior_cause O cur cause (terms ci) (terms cj) p) as [pc|]; [|exact I].
      cbn [alloc]. apply IH. exact Hst.
  Qed.

  Definition anyp : pkg -> Prop := fun _ => True.
  Lemma layout_qinv (st : state) : layout (ps st) -> qinv st anyp.
  Proof. intros H. split; [exact H|]. intros i q a s _ _. now left. Qed.

  Lemma scan_incompats_qgood P ids : forall st buffer st' b' c,
    layout (ps st) -> qgood P (ps st) -> scan_incompats O ids st buffer = Good (st', b', c) -> qgood P (ps st').
  Proof.
    induction ids as [|id ids IH]; intros st buffer st' b' c Hl Hst; cbn [scan_incompats].
    - intros E. now injection E as <- _ _.
    - destruct (cached id (contradicted st)); [now apply IH|].
      unfold bind, req. destruct (nth_error (store st) id) as [ci|]; [|discriminate].
      destruct (relation O (terms ci) (term_for (ps st))) as [| |q|].
      + intros E. now injection E as <- _ _.
      + now apply IH.
      + destruct (add_derivation O (ps st) q id (terms ci)) as [p'|] eqn:Ed; [|discriminate].
        apply IH; cbn [ps upd_cache upd_ps]; [eapply add_derivation_layout; eauto|eapply add_derivation_qgood; eauto].
      + now apply IH.
  Qed.

  Lemma unit_propagation_qgood P fuel : forall st buffer,
    layout (ps st) -> qgood P (ps st) ->
    match unit_propagation O fuel st buffer with
    | inl (UPOk st') => qgood P (ps st')
    | inl (UPConflict st' _) => qgood P (ps st')
    | inr _ => True
    end.
  Proof.
    induction fuel as [|fuel IH]; intros st buffer Hl Hst; cbn [unit_propagation]; [exact I|].
    destruct (rev buffer) as [|cur rest]; [exact Hst|].
    destruct (get cur (index st)) as [ids|]; [|exact I].
    destruct (scan_incompats O (rev ids) st (rev rest)) as [[[st1 b2] [conflict|]]|] eqn:Es; [| |exact I].
    - pose proof (scan_incompats_qgood P _ _ _ _ _ _ Hl Hst Es) as H1.
      pose proof (scan_incompats_inv O _ _ _ _ _ _ _ (layout_qinv _ Hl) Es) as Hq1.
      pose proof (conflict_resolution_qgood P fuel st1 conflict false H1) as Hcr.
      pose proof (conflict_resolution_inv O fuel st1 conflict false _ Hq1) as Hcl.
      destruct (conflict_resolution O fuel st1 conflict false) as [[st2 q rc|st2 id]|]; [|exact Hcr|exact I].
      destruct (nth_error (store st2) rc) as [rci|]; [|exact I].
      destruct (add_derivation O (ps st2) q rc (terms rci)) as [p'|] eqn:Ed; [|exact I].
      apply IH; cbn [ps upd_cache upd_ps]; [eapply add_derivation_layout; [exact (proj1 Hcl)|exact Ed]|].
      eapply add_derivation_qgood; [exact (proj1 Hcl)|exact Ed|exact Hcr].
    - apply IH; [exact (proj1 (scan_incompats_inv O _ _ _ _ _ _ _ (layout_qinv _ Hl) Es))|].
      exact (scan_incompats_qgood P _ _ _ _ _ _ Hl Hst Es).
  Qed.

  (* ---------------------------------------------------------------- the queue and the trace *)
  (* the last prioritize event for [x] in [l] (set, priority), starting from [acc] *)
  Fixpoint last_prio (x : pkg) (l : list event) (acc : option (VS * Z)) : option (VS * Z) :=
    match l with
    | [] => acc
    | EvPrioritize y s z :: r => last_prio x r (if N.eqb x y then Some (s, z) else acc)
    | _ :: r => last_prio x r acc
    end.

  Lemma last_prio_app x l1 : forall l2 acc, last_prio x (l1 ++ l2) acc = last_prio x l2 (last_prio x l1 acc).
  Proof. induction l1 as [|e l1 IH]; intros l2 acc; cbn [app last_prio]; [reflexivity|]. destruct e; apply IH. Qed.

  Lemma firstn_S_nth {A} (l : list A) : forall n x, nth_error l n = Some x -> firstn (S n) l = firstn n l ++ [x].
  Proof.
    induction l as [|y l IH]; intros [|n] x; cbn [nth_error]; try discriminate.
    - intros E. now injection E as <-.
    - intros E. cbn [firstn app]. f_equal. now apply IH.
  Qed.

  Section Trace.
    Variable tr0 : list event.

    Definition Pn (n : nat) : pkg -> Z * VS -> Prop :=
      fun x e => last_prio x (firstn n tr0) None = Some (snd e, fst e).

    Lemma Pn_step n e x ent :
      nth_error tr0 n = Some e -> (forall s z, e <> EvPrioritize x s z) -> Pn n x ent -> Pn (S n) x ent.
    Proof.
      intros Hn Hne H. unfold Pn in *. rewrite (firstn_S_nth _ _ _ Hn), last_prio_app, H.
      destruct e as [| y s z | |]; cbn [last_prio]; try reflexivity.
      destruct (N.eqb_spec x y) as [->|]; [|reflexivity]. exfalso. exact (Hne s z eq_refl).
    Qed.

    Lemma qgoodq_step n e (p : psol) q :
      nth_error tr0 n = Some e -> (forall x s z, e <> EvPrioritize x s z) -> qgoodq (Pn n) p q -> qgoodq (Pn (S n)) p q.
    Proof.
      intros Hn Hne H x ent Hg. destruct (H x ent Hg) as [H1 H2]. split; [|exact H2]. eapply Pn_step; eauto.
    Qed.

    Lemma do_prioritize_good (p : psol) cands : forall q (tr : list event) n q' tr' n',
      (forall x s, In (x, s) cands -> und p x) -> tr = skipn n tr0 -> qgoodq (Pn n) p q ->
      do_prioritize O cands q tr n = inl (q', tr', n') -> qgoodq (Pn n') p q' /\ tr' = skipn n' tr0.
    Proof.
      induction cands as [|[c sc] cands IH]; intros q tr n q' tr' n' Hu Htr Hq; cbn [do_prioritize].
      - intros E. injection E as <- <- <-. auto.
      - destruct tr as [|[| p' s' prio | |] tr1]; try discriminate.
        destruct (N.eqb_spec c p') as [<-|]; [|discriminate]. destruct (vs_eqb O sc s') eqn:Es; [|discriminate].
        apply (vs_eqb_spec O L) in Es. subst s'. cbn [andb].
        apply skipn_cons_inv in Htr. destruct Htr as [Hn Htr1].
        apply IH; [intros x s Hin; apply (Hu x s); now right|exact Htr1|].
        intros x ent Hg. destruct (N.eq_dec c x) as [<-|Hne].
        + rewrite get_set_same in Hg. injection Hg as <-. split; [|apply (Hu c sc); now left].
          unfold Pn. rewrite (firstn_S_nth _ _ _ Hn), last_prio_app. cbn [last_prio snd fst]. now rewrite N.eqb_refl.
        + rewrite get_set_other in Hg by exact Hne. destruct (Hq x ent Hg) as [H1 H2]. split; [|exact H2].
          eapply Pn_step; [exact Hn| |exact H1]. intros s z E. injection E as E1 _ _. congruence.
    Qed.

    Lemma qgoodq_remove P (p1 : psol) q p : qgoodq P p1 q -> qgoodq P (popped p1 q p) (remove p q).
    Proof.
      intros H x e Hg. destruct (N.eq_dec p x) as [<-|Hne]; [now rewrite get_remove_same in Hg|].
      rewrite get_remove_other in Hg by exact Hne. exact (H x e Hg).
    Qed.

    (* T2 for one log entry; T3 for one log entry; T3 for one trace position *)
    Definition P2 (pi : pick_info) : Prop :=
      let '(_, q, n2) := pi in forall x z s, get x q = Some (z, s) -> last_prio x (firstn n2 tr0) None = Some (s, z).
    Definition P3 (pi : pick_info) : Prop :=
      let '(_, q, n2) := pi in
      forall p s a, nth_error tr0 n2 = Some (EvChoose p s a) -> exists z, get p q = Some (z, s) /\ queue_max q = Some z.
    Definition P3c (cnt : nat) (pi : pick_info) : Prop := snd pi < cnt -> P3 pi.
    Definition choose_ok (i : nat) : Prop :=
      forall p s a, nth_error tr0 i = Some (EvChoose p s a) -> exists z, last_prio p (firstn i tr0) None = Some (s, z).
    Definition good_result (n : nat) (res : @result VS Vr) : Prop :=
      let '(_, _, log', cnt) := res in
      Forall P2 log' /\ Forall (P3c cnt) log' /\ forall i, n <= i < cnt -> choose_ok i.

    Lemma good_extend n n' res : (forall i, n <= i < n' -> choose_ok i) -> good_result n' res -> good_result n res.
    Proof.
      destruct res as [[[o st] lg] c]. intros H (H1 & H2 & H3). split; [exact H1|]. split; [exact H2|].
      intros i Hi. destruct (Nat.lt_ge_cases i n'); [apply H; lia|apply H3; lia].
    Qed.

    Theorem resolve_loop_trace fuel : forall st next added (tr : list event) n log,
      Inv st next -> trace_wf tr -> tr = skipn n tr0 -> qgood (Pn n) (ps st) ->
      Forall P2 log -> Forall P3 log ->
      good_result n (resolve_loop O veqb fuel st next added tr n log).
    Proof.
      induction fuel as [|fuel IH]; intros st next added tr n log Hst Hwf Htr Hq Hp2 Hp3; cbn [resolve_loop].
      { split; [exact Hp2|]. split; [eapply Forall_impl; [|exact Hp3]; intros pi H _; exact H|]. intros i Hi. lia. }
      assert (Hold : forall c, Forall (P3c c) log) by (intros c; eapply Forall_impl; [|exact Hp3]; intros pi H _; exact H).
      assert (Hex0 : forall o st0, good_result n (o, st0, log, n)).
      { intros o st0. split; [exact Hp2|]. split; [apply Hold|]. intros i Hi. lia. }
      destruct tr as [|[ok| | |] tr1]; try apply Hex0.
      apply skipn_cons_inv in Htr. destruct Htr as [Hn0 Htr1].
      assert (Hex1 : forall o st0, good_result n (o, st0, log, S n)).
      { intros o st0. split; [exact Hp2|]. split; [apply Hold|]. intros i Hi p s a E. assert (i = n) by lia. subst i. congruence. }
      destruct ok; cbn [negb]; [|apply Hex1]. apply Forall_inv_tail in Hwf.
      pose proof (up_clears (S fuel) st next) as Hup.
      pose proof (unit_propagation_qgood (Pn n) (S fuel) st [next] (proj1 (proj2 Hst)) Hq) as Hupq.
      destruct (unit_propagation O (S fuel) st [next]) as [[st1|st1 id]|[|s0]]; try apply Hex1.
      2:{ destruct (build_derivation_tree (store st1) id); apply Hex1. }
      destruct (Hup st1 Hst eq_refl) as (Ha1 & Hl1 & Hc1). clear Hup.
      assert (Hq1 : qgoodq (Pn (S n)) (ps st1) (queue (ps st1))).
      { eapply qgoodq_step; [exact Hn0| |exact Hupq]. intros; discriminate. }
      destruct (do_prioritize O (pick_candidates (ps st1)) (queue (ps st1)) tr1 (S n)) as [[[q tr2] n2]|o] eqn:Ep; [|apply Hex1].
      assert (Hcu : forall x s, In (x, s) (pick_candidates (ps st1)) -> und (ps st1) x).
      { intros x s Hin. destruct (pick_candidates_in veqb (ps st1) x s Hin) as (i & a & Hi & Hs). intros a' Hg.
        pose proof (nth_get _ _ _ _ (lay_keys _ Hl1) Hi) as Hg'. rewrite Hg' in Hg. injection Hg as <-.
        exact (pos_set_undecided a s Hs). }
      destruct (do_prioritize_good (ps st1) _ _ _ _ _ _ _ Hcu Htr1 Hq1 Ep) as [Hq' Htr2].
      destruct (do_prioritize_count O _ _ _ _ _ _ _ Ep) as (pre & Epre & Hall & En2).
      rewrite Epre in Hwf. apply Forall_app in Hwf. destruct Hwf as [_ Hwf].
      assert (Hpre : forall i, n <= i < n2 -> choose_ok i).
      { intros i Hi p s a E. destruct (Nat.eq_dec i n) as [->|Hne]; [congruence|]. exfalso.
        assert (E1 : nth_error tr1 (i - S n) = Some (EvChoose p s a)).
        { rewrite Htr1, nth_error_skipn'. now replace (S n + (i - S n)) with i by lia. }
        rewrite Epre, nth_error_app1 in E1 by lia. unfold all_prio in Hall. rewrite Forall_forall in Hall.
        apply nth_error_In in E1. exact (Hall _ E1). }
      set (log1 := log ++ [(undecided_positive (ps st1), q, n2)]).
      assert (Hp2_1 : Forall P2 log1).
      { apply Forall_app. split; [exact Hp2|]. constructor; [|constructor]. intros x z s Hg. exact (proj1 (Hq' x (z, s) Hg)). }
      assert (Hex_n2 : forall o st0, good_result n (o, st0, log1, n2)).
      { intros o st0. split; [exact Hp2_1|]. split; [|exact Hpre]. apply Forall_app. split; [apply Hold|].
        constructor; [|constructor]. intros Hlt. cbn in Hlt. lia. }
      destruct (queue_max q) as [mx|] eqn:Emax.
      2:{ unfold res_out. destruct (extract_solution (ps st1)); apply Hex_n2. }
      destruct tr2 as [|[| |p s ans|] tr3]; try apply Hex_n2.
      apply skipn_cons_inv in Htr2. destruct Htr2 as [Hn2 Htr3].
      destruct (get p q) as [[prio qs]|] eqn:Egp; [|apply Hex_n2].
      destruct (Z.eqb_spec prio mx) as [->|]; cbn [negb]; [|apply Hex_n2].
      destruct (popped_inv st1 q _ _ _ _ p Ha1 Hl1 Hc1 Ep) as (Hent & Ha2 & Hl2 & Hc2).
      set (st2 := upd_ps st1 _) in *.
      destruct (term_for (ps st2) p) as [ti|] eqn:Eti; [|apply Hex_n2].
      destruct ti as [cur|cur]; [|apply Hex_n2].
      destruct (vs_eqb O s cur) eqn:Es; cbn [negb]; [|apply Hex_n2].
      apply (vs_eqb_spec O L) in Es. subst cur.
      (* the queue entry of p was reported for its current set *)
      destruct (Hq' p (mx, qs) Egp) as [Hlast Hund].
      assert (Hqs : qs = s).
      { unfold term_for, st2 in Eti. cbn [ps upd_ps popped assignments] in Eti.
        destruct (get p (assignments (ps st1))) as [a|] eqn:Ega; [|discriminate]. cbn in Eti.
        pose proof (Hund a Ega) as Hd. unfold decided in Hd. destruct (ai a) as [|t] eqn:Eai; [discriminate|].
        cbn in Eti. injection Eti as ->.
        assert (Hin : In (p, s) (undecided_positive (ps st1))).
        { apply undecided_positive_in. apply get_In in Ega. apply In_nth_error in Ega. destruct Ega as (i & Hi).
          exists i, a. split; [exact Hi|]. unfold pos_set. now rewrite Eai. }
        destruct (Hent p s Hin (fun H => H)) as (z & Hz). congruence. }
      subst qs.
      assert (Hch : choose_ok n2).
      { intros p0 s0 a0 E. rewrite Hn2 in E. injection E as <- <- _. exists mx. exact Hlast. }
      assert (Hp3_1 : Forall P3 log1).
      { apply Forall_app. split; [exact Hp3|]. constructor; [|constructor]. intros p0 s0 a0 E. rewrite Hn2 in E.
        injection E as <- <- _. exists mx. auto. }
      assert (Hpre1 : forall i, n <= i < S n2 -> choose_ok i).
      { intros i Hi. destruct (Nat.eq_dec i n2) as [->|]; [exact Hch|apply Hpre; lia]. }
      assert (Hex_Sn2 : forall o st0, good_result n (o, st0, log1, S n2)).
      { intros o st0. split; [exact Hp2_1|]. split; [|exact Hpre1]. eapply Forall_impl; [|exact Hp3_1]. intros pi H _; exact H. }
      assert (Hq2 : qgood (Pn (S n2)) (ps st2)).
      { eapply qgoodq_step; [exact Hn2|intros; discriminate|]. exact (qgoodq_remove _ _ _ p Hq'). }
      assert (Hnone : get p (queue (ps st2)) = None) by (cbn; apply get_remove_same).
      pose proof (Forall_inv_tail Hwf) as Hwf3.
      destruct ans as [v| |]; [| |apply Hex_Sn2].
      - destruct (t_contains O (Pos s) v) eqn:Ev; cbn [negb]; [|apply Hex_Sn2].
        destruct (added_has veqb added p v).
        + unfold res_out. destruct (add_decision O (ps st2) p v) as [p'|] eqn:Ed; [|apply Hex_Sn2].
          apply (good_extend n (S n2)); [exact Hpre1|].
          apply IH; [exact (cont_decide st2 p v p' Ha2 Hl2 Hc2 Ed)|exact Hwf3|exact Htr3| |exact Hp2_1|exact Hp3_1].
          exact (add_decision_qgood _ _ _ _ _ Hl2 Hnone Ed Hq2).
        + destruct tr3 as [|[| | |p' v' dans] tr4]; try apply Hex_Sn2.
          destruct (N.eqb p p' && veqb v v'); cbn [negb]; [|apply Hex_Sn2].
          apply skipn_cons_inv in Htr3. destruct Htr3 as [Hn3 Htr4].
          pose proof (Forall_inv Hwf3) as Hev2. apply Forall_inv_tail in Hwf3.
          assert (Hpre2 : forall i, n <= i < S (S n2) -> choose_ok i).
          { intros i Hi. destruct (Nat.eq_dec i (S n2)) as [->|]; [|apply Hpre1; lia]. intros p0 s0 a0 E. congruence. }
          assert (Hex_SSn2 : forall o st0, good_result n (o, st0, log1, S (S n2))).
          { intros o st0. split; [exact Hp2_1|]. split; [|exact Hpre2]. eapply Forall_impl; [|exact Hp3_1]. intros pi H _; exact H. }
          assert (Hstep3 : forall pp : psol, qgood (Pn (S n2)) pp -> qgood (Pn (S (S n2))) pp).
          { intros pp H. eapply qgoodq_step; [exact Hn3|intros; discriminate|exact H]. }
          destruct dans as [deps|m|]; [| |apply Hex_SSn2].
          * unfold res_out.
            destruct (add_incompatibility_from_dependencies O st2 p v deps) as [[st3 range]|] eqn:Ea; [|apply Hex_SSn2].
            destruct (add_version O (ps st3) p v range (store st3)) as [pn|] eqn:Eav; [|apply Hex_SSn2].
            apply (good_extend n (S (S n2))); [exact Hpre2|].
            apply IH; [exact (cont_deps st2 p s v deps st3 range pn Ha2 Hl2 Hc2 Eti Ev Hev2 Ea Eav)|exact Hwf3|exact Htr4| |exact Hp2_1|exact Hp3_1].
            cbn [ps upd_ps]. apply Hstep3. pose proof (add_from_dependencies_ps _ _ _ _ _ _ _ Ea) as Eps. rewrite Eps in Eav.
            destruct (add_version_cases _ _ _ _ _ _ Eav) as [Ed|[-> _]]; [|exact Hq2].
            exact (add_decision_qgood _ _ _ _ _ Hl2 Hnone Ed Hq2).
          * unfold res_out.
            destruct (add_incompatibility O st2 (custom_version O p v m)) as [st3|] eqn:Ea; [|apply Hex_SSn2].
            apply (good_extend n (S (S n2))); [exact Hpre2|].
            apply IH; [exact (cont_unavail st2 p s v m st3 Ha2 Hl2 Hc2 Eti Ev Ea)|exact Hwf3|exact Htr4| |exact Hp2_1|exact Hp3_1].
            rewrite (add_incompatibility_ps _ _ _ _ Ea). apply Hstep3. exact Hq2.
      - cbn [no_versions]. unfold res_out.
        destruct (add_incompatibility O st2 _) as [st3|] eqn:Ea; [|apply Hex_Sn2].
        apply (good_extend n (S n2)); [exact Hpre1|].
        apply IH; [exact (cont_novers st2 p s st3 Ha2 Hl2 Hc2 Eti Ea)|exact Hwf3|exact Htr3| |exact Hp2_1|exact Hp3_1].
        rewrite (add_incompatibility_ps _ _ _ _ Ea). exact Hq2.
    Qed.
  End Trace.

  (* ---------------------------------------------------------------- reading [last_prio] positionally *)
  Lemma last_prio_pos x (l : list event) : forall acc s z,
    last_prio x l acc = Some (s, z) ->
    (acc = Some (s, z) /\ forall k s' z', nth_error l k <> Some (EvPrioritize x s' z'))
    \/ exists j, nth_error l j = Some (EvPrioritize x s z)
                 /\ forall k s' z', j < k -> nth_error l k <> Some (EvPrioritize x s' z').
  Proof.
    induction l as [|e l IH]; intros acc s z; cbn [last_prio].
    - intros ->. left. split; [reflexivity|]. intros [|k]; discriminate.
    - assert (Hskip : (forall s' z', e <> EvPrioritize x s' z') -> last_prio x l acc = Some (s, z) ->
                (acc = Some (s, z) /\ forall k s' z', nth_error (e :: l) k <> Some (EvPrioritize x s' z'))
                \/ exists j, nth_error (e :: l) j = Some (EvPrioritize x s z)
                     /\ forall k s' z', j < k -> nth_error (e :: l) k <> Some (EvPrioritize x s' z')).
      { intros Hne H. destruct (IH _ _ _ H) as [[Ha Hno]|(j & Hj & Hno)].
        - left. split; [exact Ha|]. intros [|k] s' z'; cbn; [intros E; injection E as E; exact (Hne _ _ E)|apply Hno].
        - right. exists (S j). split; [exact Hj|]. intros [|k] s' z' Hlt; [lia|]. cbn. apply Hno. lia. }
      destruct e as [| y s0 z0 | |]; try (apply Hskip; intros; discriminate).
      destruct (N.eqb_spec x y) as [<-|Hne]; [|apply Hskip; intros s' z' E; injection E as E _ _; congruence].
      intros H. right. destruct (IH _ _ _ H) as [[Ha Hno]|(j & Hj & Hno)].
      + injection Ha as -> ->. exists 0. split; [reflexivity|]. intros [|k] s' z' Hlt; [lia|]. cbn. apply Hno.
      + exists (S j). split; [exact Hj|]. intros [|k] s' z' Hlt; [lia|]. cbn. apply Hno. lia.
  Qed.

  Lemma nth_error_firstn_lt {A} n : forall (l : list A) k, k < n -> nth_error (firstn n l) k = nth_error l k.
  Proof.
    induction n as [|n IH]; intros l k Hk; [lia|]. destruct l as [|x l]; [now destruct k|]. destruct k as [|k]; [reflexivity|].
    cbn. apply IH. lia.
  Qed.

  Lemma nth_error_firstn_some {A} n (l : list A) k x : nth_error (firstn n l) k = Some x -> k < n /\ nth_error l k = Some x.
  Proof.
    intros H. assert (Hk : k < n).
    { assert (Hl : k < length (firstn n l)) by (apply nth_error_Some; congruence). pose proof (firstn_le_length n l). lia. }
    split; [exact Hk|]. now rewrite <- (nth_error_firstn_lt n l k Hk).
  Qed.

  (* "the last prioritize call for [x] among the first [i] events reported set [s] and priority [z]" *)
  Definition last_prio_at (tr : list event) (i : nat) (x : pkg) (s : VS) (z : Z) : Prop :=
    exists j, j < i /\ nth_error tr j = Some (EvPrioritize x s z)
              /\ forall k s' z', j < k < i -> nth_error tr k <> Some (EvPrioritize x s' z').

  Lemma last_prio_at_spec tr i x s z : last_prio x (firstn i tr) None = Some (s, z) -> last_prio_at tr i x s z.
  Proof.
    intros H. destruct (last_prio_pos _ _ _ _ _ H) as [[E _]|(j & Hj & Hno)]; [discriminate|].
    apply nth_error_firstn_some in Hj. destruct Hj as [Hlt Hj]. exists j. split; [exact Hlt|]. split; [exact Hj|].
    intros k s' z' Hk E. apply (Hno k s' z'); [lia|]. rewrite nth_error_firstn_lt by lia. exact E.
  Qed.

  (* ---------------------------------------------------------------- T2, T3 *)
  Theorem resolve_trace fuel r v (tr : list event) :
    trace_wf tr -> good_result tr 0 (resolve O veqb fuel r v tr).
  Proof.
    intros Hwf. unfold resolve.
    apply resolve_loop_trace; [exact (state_init_Inv r v)|exact Hwf|reflexivity| |constructor|constructor].
    intros x e H. discriminate.
  Qed.

  (* T2: the queue at a decision point holds, for each of its packages, the set and priority of the last
     prioritize call for that package *)
  Theorem resolve_queue_reflects fuel r v (tr : list event) o st' log cnt k cands q n2 x z s :
    trace_wf tr -> resolve O veqb fuel r v tr = (o, st', log, cnt) ->
    nth_error log k = Some (cands, q, n2) -> get x q = Some (z, s) -> last_prio_at tr n2 x s z.
  Proof.
    intros Hwf Er Hk Hg. pose proof (resolve_trace fuel r v tr Hwf) as H. rewrite Er in H. destruct H as (H2 & _ & _).
    pose proof (Forall_at _ _ _ _ H2 Hk) as He. cbn in He. apply last_prio_at_spec. exact (He x z s Hg).
  Qed.

  (* T1 + T2 (C14, second clause): the most recent priority of every undecided positive package was reported
     for its current set *)
  Corollary resolve_fresh_reported fuel r v (tr : list event) o st' log cnt k cands q n2 x s :
    trace_wf tr -> resolve O veqb fuel r v tr = (o, st', log, cnt) ->
    nth_error log k = Some (cands, q, n2) -> In (x, s) cands ->
    exists z, get x q = Some (z, s) /\ last_prio_at tr n2 x s z.
  Proof.
    intros Hwf Er Hk Hin. destruct (resolve_fresh fuel r v tr o st' log cnt k cands q n2 x s Hwf Er Hk Hin) as (z & Hz).
    exists z. split; [exact Hz|]. eapply resolve_queue_reflects; eauto.
  Qed.

  (* T3 (log form): the package of a consumed choose_version call has maximal priority in the queue and is asked
     with the set its priority was reported for *)
  Theorem resolve_choose_max fuel r v (tr : list event) o st' log cnt k cands q n2 p s a :
    trace_wf tr -> resolve O veqb fuel r v tr = (o, st', log, cnt) ->
    nth_error log k = Some (cands, q, n2) -> n2 < cnt -> nth_error tr n2 = Some (EvChoose p s a) ->
    exists z, get p q = Some (z, s) /\ queue_max q = Some z.
  Proof.
    intros Hwf Er Hk Hlt Hn. pose proof (resolve_trace fuel r v tr Hwf) as H. rewrite Er in H. destruct H as (_ & H3 & _).
    pose proof (Forall_at _ _ _ _ H3 Hk) as He. exact (He Hlt p s a Hn).
  Qed.

  (* T3 (trace form, C12 clause 3): every consumed choose_version(p, s) is preceded by a prioritize(p, s), with
     no prioritize for p in between *)
  Theorem resolve_choose_set fuel r v (tr : list event) o st' log cnt i p s a :
    trace_wf tr -> resolve O veqb fuel r v tr = (o, st', log, cnt) ->
    i < cnt -> nth_error tr i = Some (EvChoose p s a) -> exists z, last_prio_at tr i p s z.
  Proof.
    intros Hwf Er Hlt Hn. pose proof (resolve_trace fuel r v tr Hwf) as H. rewrite Er in H. destruct H as (_ & _ & H4).
    destruct (H4 i ltac:(lia) p s a Hn) as (z & Hz). exists z. now apply last_prio_at_spec.
  Qed.

  (* [queue_max] is the maximum of the queued priorities *)
  Lemma queue_max_ge (q : list (pkg * (Z * VS))) mx x z s :
    queue_max q = Some mx -> get x q = Some (z, s) -> (z <= mx)%Z.
  Proof.
    intros Hm Hg. apply get_In in Hg. unfold queue_max in Hm. destruct q as [|[y [z0 s0]] r]; [discriminate|].
    injection Hm as <-.
    assert (H : forall (l : list (pkg * (Z * VS))) a,
               (a <= fold_left (fun m pz => Z.max m (fst (snd pz))) l a)%Z
               /\ forall pz, In pz l -> (fst (snd pz) <= fold_left (fun m pz => Z.max m (fst (snd pz))) l a)%Z).
    { induction l as [|e l IH]; intros a; cbn [fold_left]; [split; [lia|intros ? []]|].
      destruct (IH (Z.max a (fst (snd e)))) as [I1 I2]. split; [lia|]. intros pz [<-|Hin]; [lia|auto]. }
    destruct (H r z0) as [H1 H2]. destruct Hg as [E|Hin]; [injection E as _ <- _; exact H1|exact (H2 _ Hin)].
  Qed.

  (* the hypothesis on the trace follows from a provider that answers from a registry with well-formed sets *)
  Lemma wellbehaved_trace_wf (reg : registry (VS := VS) (Vr := Vr)) (tr : list event) :
    reg_wf O L reg -> WellBehaved O reg tr -> trace_wf tr.
  Proof.
    intros Hreg Hwb. unfold trace_wf, WellBehaved in *. eapply Forall_impl; [|exact Hwb].
    intros [| | |p v [ds|m|]] He; cbn; try exact I. destruct He as (ds' & Hd & Hiff).
    apply Forall_forall. intros [q s] Hin. apply Hiff in Hin. exact (Hreg p v ds' q s Hd Hin).
  Qed.
End Queue2.
