(* C16: the ordering on ranges is a total order consistent with equality (for all segment lists). *)
From Coq Require Import Orders OrdersFacts List Bool.
From PG Require Import Model.Range Proofs.PosOrder Proofs.RangeTables.

Module RangeOrdP (V : UsualOrderedTypeFull).
  Module Export RT := RangeTablesP V.

  Lemma pos_compare_eq x y : pos_compare x y = Eq <-> x = y.
  Proof.
    destruct (pos_compare_spec x y) as [E|L|G]; split; try discriminate; auto; intros ->;
      exfalso; eapply plt_irrefl; eassumption.
  Qed.

  Lemma pos_compare_antisym x y : pos_compare y x = CompOpp (pos_compare x y).
  Proof.
    destruct (pos_compare_spec x y) as [E|L|G]; cbn.
    - subst. apply pos_compare_eq. reflexivity.
    - destruct (pos_compare_spec y x) as [E'|L'|G']; [subst; destruct (plt_irrefl _ L)| |reflexivity].
      exfalso. porder.
    - exact G.
  Qed.

  Lemma pos_compare_lt x y : pos_compare x y = Lt <-> x <p y.
  Proof. reflexivity. Qed.

  Lemma range_cmp_eq_iff a b : range_cmp a b = Eq <-> a = b.
  Proof.
    revert b; induction a as [|[ls le] a IH]; intros [|[rs re] b]; cbn [range_cmp];
      try (split; [discriminate|discriminate]); [tauto|].
    rewrite cmp_bounds_start_spec, cmp_bounds_end_spec.
    destruct (pos_compare (lo_of ls) (lo_of rs)) eqn:E1.
    - apply pos_compare_eq, lo_of_inj in E1. subst rs.
      destruct (pos_compare (hi_of le) (hi_of re)) eqn:E2.
      + apply pos_compare_eq, hi_of_inj in E2. subst re. rewrite IH. split; [intros ->; reflexivity|congruence].
      + split; [discriminate|]. intros H. injection H as <- <-.
        assert (pos_compare (hi_of le) (hi_of le) = Eq) by (apply pos_compare_eq; reflexivity). congruence.
      + split; [discriminate|]. intros H. injection H as <- <-.
        assert (pos_compare (hi_of le) (hi_of le) = Eq) by (apply pos_compare_eq; reflexivity). congruence.
    - split; [discriminate|]. intros H. injection H as <- <- <-.
      assert (pos_compare (lo_of ls) (lo_of ls) = Eq) by (apply pos_compare_eq; reflexivity). congruence.
    - split; [discriminate|]. intros H. injection H as <- <- <-.
      assert (pos_compare (lo_of ls) (lo_of ls) = Eq) by (apply pos_compare_eq; reflexivity). congruence.
  Qed.

  Lemma range_cmp_antisym a b : range_cmp b a = CompOpp (range_cmp a b).
  Proof.
    revert b; induction a as [|[ls le] a IH]; intros [|[rs re] b]; cbn [range_cmp]; try reflexivity.
    rewrite !cmp_bounds_start_spec, !cmp_bounds_end_spec.
    rewrite (pos_compare_antisym (lo_of ls) (lo_of rs)), (pos_compare_antisym (hi_of le) (hi_of re)).
    destruct (pos_compare (lo_of ls) (lo_of rs)); cbn; try reflexivity.
    destruct (pos_compare (hi_of le) (hi_of re)); cbn; try reflexivity. apply IH.
  Qed.

  Lemma range_cmp_trans a b c :
    range_cmp a b = Lt -> range_cmp b c = Lt -> range_cmp a c = Lt.
  Proof.
    revert b c; induction a as [|[as_ ae] a IH]; intros [|[bs be] b] [|[cs ce] c]; cbn [range_cmp];
      try discriminate; try reflexivity.
    rewrite !cmp_bounds_start_spec, !cmp_bounds_end_spec.
    destruct (pos_compare_spec (lo_of as_) (lo_of bs)) as [E1|L1|G1]; try discriminate.
    - rewrite E1. destruct (pos_compare_spec (lo_of bs) (lo_of cs)) as [E2|L2|G2]; try discriminate; [|reflexivity].
      destruct (pos_compare_spec (hi_of ae) (hi_of be)) as [E3|L3|G3]; try discriminate.
      + rewrite E3. destruct (pos_compare_spec (hi_of be) (hi_of ce)) as [E4|L4|G4]; try discriminate; [|reflexivity].
        apply IH.
      + destruct (pos_compare_spec (hi_of be) (hi_of ce)) as [E4|L4|G4]; try discriminate; intros _ _.
        * rewrite <- E4. apply pos_compare_lt in L3. now rewrite L3.
        * assert (H : hi_of ae <p hi_of ce) by porder. apply pos_compare_lt in H. now rewrite H.
    - destruct (pos_compare_spec (lo_of bs) (lo_of cs)) as [E2|L2|G2]; try discriminate; intros _ _.
      + rewrite <- E2. apply pos_compare_lt in L1. now rewrite L1.
      + assert (H : lo_of as_ <p lo_of cs) by porder. apply pos_compare_lt in H. now rewrite H.
  Qed.

  Lemma range_cmp_total a b : range_cmp a b = Lt \/ a = b \/ range_cmp b a = Lt.
  Proof.
    destruct (range_cmp a b) eqn:E.
    - right; left. now apply range_cmp_eq_iff.
    - now left.
    - right; right. rewrite range_cmp_antisym, E. reflexivity.
  Qed.

End RangeOrdP.
