(* Non-vacuity check for Proofs/SolverSound.v: a concrete run of the model (bitset version sets) that returns a
   solution and satisfies every hypothesis of [resolve_ok_sound]; the theorem then yields the Solution property. *)
From Coq Require Import List NArith ZArith Bool Lia.
From PG Require Import Model.VS Model.Term Model.Solver Model.Registry Proofs.VSLaws Proofs.BitsetLawful
  Proofs.SolverSem Proofs.SolverSound.
Import ListNotations.
Open Scope N_scope.

(* package 0 has version V1, which depends on package 1 in {V2, V3}; package 1 has versions V2, V3 without dependencies *)
Definition reg1 : registry (VS := N) (Vr := v8) :=
  {| reg_versions := fun p => if N.eqb p 0 then [V1] else if N.eqb p 1 then [V2; V3] else [];
     reg_deps := fun p v => if N.eqb p 0 then Some [(1, 12)] else Some [] |}.

Definition tr1 : list (@event N v8) :=
  [EvCancel true; EvPrioritize 0 2 1%Z; EvChoose 0 2 (CSome V1); EvDeps 0 V1 (DAvail [(1, 12)]);
   EvCancel true; EvPrioritize 1 12 1%Z; EvChoose 1 12 (CSome V2); EvDeps 1 V2 (DAvail []);
   EvCancel true].

Definition sol1 : list (pkg * v8) := [(0, V1); (1, V2)].
Definition log1 : list (@pick_info N) :=
  [([(0, 2)], [(0, (1%Z, 2))], 2%nat); ([(1, 12)], [(1, (1%Z, 12))], 6%nat); ([], [], 9%nat)].

Lemma res1_out : fst (fst (fst (resolve bitset_vs v8_eqb 50 0 V1 tr1))) = OSolution sol1.
Proof. vm_compute. reflexivity. Qed.

Lemma res1_log : snd (fst (resolve bitset_vs v8_eqb 50 0 V1 tr1)) = log1.
Proof. vm_compute. reflexivity. Qed.

Lemma reg1_wf : reg_wf bitset_vs bitset_lawful reg1.
Proof.
  intros p v ds q s. cbn. destruct (N.eqb p 0); intros E; injection E as <-; [|intros []].
  intros [E|[]]. injection E as <- <-. cbn. unfold bs_wf. lia.
Qed.

Lemma tr1_wb : WellBehaved bitset_vs reg1 tr1.
Proof.
  unfold tr1. repeat constructor; cbn; auto.
  - exists [(1, 12)]. split; [reflexivity|intros x; cbn; tauto].
  - exists []. split; [reflexivity|intros x; cbn; tauto].
Qed.

Lemma log1_covered k cands q n2 x s :
  nth_error log1 k = Some (cands, q, n2) -> In (x, s) cands -> exists z, get x q = Some (z, s).
Proof.
  destruct k as [|[|[|[|k]]]]; cbn; intros H; try discriminate; injection H as <- <- <-.
  - intros [H|[]]. injection H as <- <-. eexists. reflexivity.
  - intros [H|[]]. injection H as <- <-. eexists. reflexivity.
  - intros [].
Qed.

(* [res] stands for the result of the run: kept abstract so that no tactic tries to evaluate the run *)
Lemma nonvacuous_generic (res : @result N v8) :
  fst (fst (fst res)) = OSolution sol1 -> snd (fst res) = log1 ->
  resolve bitset_vs v8_eqb 50 0 V1 tr1 = res -> Solution bitset_vs reg1 0 V1 (fun p => get p sol1).
Proof.
  destruct res as [[[o st] log] cnt]. cbn [fst snd]. intros -> -> E.
  exact (resolve_ok_sound bitset_vs bitset_lawful v8_eqb reg1 0 V1 reg1_wf (fun a b => proj1 (v8_eqb_eq a b))
           50%nat tr1 sol1 st log1 cnt tr1_wb E log1_covered).
Qed.

Example resolve_ok_sound_nonvacuous : Solution bitset_vs reg1 0 V1 (fun p => get p sol1).
Proof. exact (nonvacuous_generic _ res1_out res1_log eq_refl). Qed.

Print Assumptions resolve_ok_sound_nonvacuous.
