(* Range over any ordered version type is a lawful VersionSet (wf = canonical form, universe = pos). *)
From Coq Require Import Orders OrdersFacts List Bool.
From PG Require Import Model.Text Model.VS Model.Range Proofs.VSLaws Proofs.PosOrder Proofs.RangeTables
  Proofs.RangeSem Proofs.RangeInter Proofs.RangeMore Proofs.RangeCompl Proofs.RangeCtors
  Proofs.RangeQueries Proofs.RangeSimplify.

Module RangeVSP (V : UsualOrderedTypeFull).
  Module Export RSi := RangeSimplifyP V.

  Definition pleb (x y : pos) : bool := match pos_compare x y with Gt => false | _ => true end.
  Lemma pleb_spec x y : pleb x y = true <-> x <=p y.
  Proof. unfold pleb, ple. destruct (pos_compare x y); split; try discriminate; auto; congruence. Qed.

  Definition memb (r : range) (x : pos) : bool :=
    existsb (fun s => pleb (lo s) x && pleb x (hi s)) r.

  Lemma memb_den r x : memb r x = true <-> den r x.
  Proof.
    unfold memb, den. rewrite existsb_exists. split; intros (s & Hin & H); exists s; split; auto.
    - apply andb_prop in H as [H1 H2]. split; now apply pleb_spec.
    - destruct H as [H1 H2]. apply andb_true_intro. split; now apply pleb_spec.
  Qed.

  Lemma memb_eq_iff r r' x : (den r x <-> den r' x) -> memb r x = memb r' x.
  Proof. intros H. apply eq_true_iff_eq. now rewrite !memb_den. Qed.

  Lemma memb_false r x : memb r x = false <-> ~ den r x.
  Proof. rewrite <- memb_den. destruct (memb r x); split; congruence. Qed.

  Definition range_lawful : VSLawful range_vs.
  Proof.
    refine {| U := pos; pt := fun v => P v At; mem := memb; wf := canonical |};
      cbn [vs_eqb vs_empty vs_singleton vs_complement vs_intersection vs_contains vs_full vs_union vs_is_disjoint vs_subset_of range_vs].
    - intros a b Ha Hb H. apply range_ext_eq; try assumption. intros x. rewrite <- !memb_den. now rewrite H.
    - exact range_eqb_spec.
    - exact I.
    - intros v. apply single_seg_canonical. cbn. apply ple_refl.
    - intros a Ha. exact (proj2 (complement_spec a NegInf Ha)).
    - exact intersection_canonical.
    - exact canonical_full.
    - exact union_canonical.
    - reflexivity.
    - intros v w. rewrite memb_den. unfold singleton. rewrite single_seg_den. cbn [lo_of hi_of].
      destruct side_facts as (F1 & _). rewrite !F1. split; [intros [? ?]; VF.order|intros ->; split; VF.order].
    - intros a u Ha. apply eq_true_iff_eq. rewrite memb_den, negb_true_iff, memb_false.
      exact (proj1 (complement_spec a u Ha)).
    - intros a b u Ha Hb. apply eq_true_iff_eq. rewrite andb_true_iff, !memb_den. now apply intersection_den.
    - intros u. apply memb_den. apply full_den.
    - intros a b u Ha Hb. apply eq_true_iff_eq. rewrite orb_true_iff, !memb_den. now apply union_den.
    - intros a v Ha. apply eq_true_iff_eq. rewrite memb_den. now apply contains_spec.
    - intros a b Ha Hb. rewrite is_disjoint_spec by assumption. split; intros H u.
      + apply andb_false_iff. destruct (memb a u) eqn:E1; [|now left]. right. apply memb_false.
        intros Hb'. apply (H u). split; [now apply memb_den|exact Hb'].
      + intros [H1 H2]. apply memb_den in H1, H2. specialize (H u). now rewrite H1, H2 in H.
    - intros a b Ha Hb. rewrite subset_of_spec by assumption. split; intros H u.
      + rewrite !memb_den. apply H.
      + rewrite <- !memb_den. apply H.
  Defined.

End RangeVSP.
