(* The capstone [resolve_g_total_correctness_full] (Proofs/SolverEndToEndFull.v) instantiated for the VersionSet
   of the crate, [Range] over [Z]:
     - lawfulness:          ZTerm.RR.RVi.range_lawful        (Proofs/RangeVS.v)
     - atomic singletons:   ZTerm.range_singleton_atomic      (Proofs/SolverTermExample.v)
     - ranked algebra:      ZTerm.RR.range_ranked bs, the well-formed ranges whose bounds lie in the finite list [bs]
                            (Proofs/SolverTermRange.v)
     - boolean equalities:  z_eqb_eq / rz_vs_eqb_eq (Proofs/SolverDet.v), z_eqb_refl / rz_vs_eqb_refl (Proofs/SolverGen.v)
   The [finite_registry] hypothesis is discharged from: the packages are listed in [pkgs], every bound of a
   dependency set, every registered version and the root version are in [bs] (as in [ZTerm.range_resolve_terminates]).
   Non-vacuity: the registry [reg3] of Proofs/SolverReachExample.v with the registry-serving provider [reg_provider]. *)
From Coq Require Import List NArith ZArith Bool Lia PeanoNat Permutation.
From PG Require Import Model.VS Model.Term Model.Heap Model.Range Model.Solver Model.Registry Model.Instances
  Proofs.VSLaws Proofs.RangeVS Proofs.SolverSem
  Proofs.AssocProofs Proofs.SolverStore Proofs.SolverShared Proofs.SolverProto2 Proofs.SolverNoPanic1 Proofs.SolverNoPanic
  Proofs.SolverTerm1 Proofs.SolverTerm4 Proofs.SolverTerm Proofs.SolverQueue2 Proofs.SolverSound
  Proofs.SolverTrace Proofs.SolverDet Proofs.HeapProofs Proofs.SolverDetQueue Proofs.SolverDetInst Proofs.SolverGen
  Proofs.SolverProtocol Proofs.SolverTree Proofs.SolverReach Proofs.SolverExamples Proofs.SolverReachExample Proofs.SolverTermRange
  Proofs.SolverTermExample Proofs.SolverEndToEnd Proofs.SolverEndToEndExample Proofs.SolverEndToEndFull.
Import ListNotations.
Local Open Scope nat_scope.

Notation rz_lawful := ZTerm.RR.RVi.range_lawful.
Notation rz_ranked := ZTerm.RR.range_ranked.

Theorem resolve_g_total_correctness_range :
  forall (bs : list Z) (pkgs : list pkg) (reg : registry (VS := RZ.range) (Vr := Z)) (r : pkg) (rv : Z),
    reg_wf RZ.range_vs rz_lawful reg ->
    In r pkgs ->
    (forall p v ds q s, reg_deps reg p v = Some ds -> In (q, s) ds -> In q pkgs) ->
    (forall p v ds q s, reg_deps reg p v = Some ds -> In (q, s) ds -> ZTerm.RR.range_in bs s) ->
    (forall p v, In v (reg_versions reg p) -> In v bs) -> In rv bs ->
    forall (pg : @tprovider RZ.range Z) fuel res (tr : list (@event RZ.range Z)),
      serves RZ.range_vs reg pg -> Fuel1 RZ.range_vs rz_lawful (rz_ranked bs) pkgs <= fuel ->
      resolve_g RZ.range_vs Z.eqb pg fuel r rv = (res, tr) ->
      (* C05: bounded number of calls *)
      length tr <= Events0 RZ.range_vs rz_lawful (rz_ranked bs) pkgs
      (* the trace is a recording of the provider *)
      /\ generated_by (to_provider pg) [] tr
      (* C12: the protocol; every clause of Props/Properties_C12.v *)
      /\ (   shape Z.eqb (P0 (Vr := Z)) [] tr = true
          /\ match tr with [] => True | e :: _ => exists ok, e = EvCancel ok end
          /\ (forall (pre : list (@event RZ.range Z)) p s a (rest : list (@event RZ.range Z)),
                tr = pre ++ EvChoose p s a :: rest ->
                match rest with
                | [] => True
                | EvCancel _ :: _ => True
                | EvDeps p' v' _ :: rest' =>
                    (exists v, a = CSome v /\ N.eqb p p' && Z.eqb v v' = true) /\
                    match rest' with [] => True | EvCancel _ :: _ => True | _ => False end
                | _ => False
                end)
          /\ (forall (pre : list (@event RZ.range Z)) p' v' a rest, tr = pre ++ EvDeps p' v' a :: rest ->
                exists pre0 p s v, pre = pre0 ++ [EvChoose p s (CSome v)] /\ N.eqb p p' && Z.eqb v v' = true)
          /\ NoDup (deps_of tr)
          /\ (forall i p s a, nth_error tr i = Some (EvChoose p s a) -> exists z, last_prio_at tr i p s z)
          /\ (forall i p s a, nth_error tr i = Some (EvChoose p s a) ->
                s <> vs_empty RZ.range_vs /\ vs_eqb RZ.range_vs s (vs_empty RZ.range_vs) = false)
          /\ (forall i p s a, nth_error tr i = Some (EvChoose p s a) ->
                (forall j e, j < i -> nth_error tr j = Some e -> is_choose e = false) ->
                p = r /\ s = vs_singleton RZ.range_vs rv /\ i = 2 /\
                exists z, firstn i tr = [EvCancel true; EvPrioritize r (vs_singleton RZ.range_vs rv) z]))
      /\ ((exists sol, fst (fst (fst res)) = OSolution sol
             (* C01 *)
             /\ Solution RZ.range_vs reg r rv (fun p => get p sol)
             /\ NoDup (map fst sol) /\ (forall p v, In (p, v) sol -> In v (reg_versions reg p))
             (* C04 *)
             /\ (forall p v, In (p, v) sol -> reach reg r sol p))
          \/ (exists t, fst (fst (fst res)) = ONoSolution t
             (* C02 *)
             /\ (forall a, ~ Solution RZ.range_vs reg r rv a)
             (* C03 *)
             /\ tree_ok RZ.range_vs reg r rv t /\ top_forbids_root RZ.range_vs r rv t)).
Proof.
  intros bs pkgs reg r rv Hwf Hroot Hpk Hbd Hbv Hbr pg fuel res tr Hserv Hfuel E.
  refine (resolve_g_total_correctness_full RZ.range_vs rz_lawful Z.eqb reg r rv (rz_ranked bs) pkgs
            ZTerm.range_singleton_atomic Hwf z_eqb_eq z_eqb_refl rz_vs_eqb_refl _ pg fuel res tr Hserv Hfuel E).
  split; [exact Hroot|]. split; [exact Hpk|]. split; [|split].
  - intros p v ds q s H Hin. apply ZTerm.RR.range_ranked_alg.
    split; [exact (Hwf p v ds q s H Hin)|exact (Hbd p v ds q s H Hin)].
  - intros p v Hin. apply ZTerm.RR.range_ranked_singleton. exact (Hbv p v Hin).
  - apply ZTerm.RR.range_ranked_singleton. exact Hbr.
Qed.

(* the theorem applies: against the registry-serving provider of reg3 (run 3 of SolverReachExample.v) the model
   returns a solution of reg3 or a refutation, after at most Events0 calls, for every fuel above Fuel1 *)
Example total_correctness_range_nonvacuous : forall (fuel : nat) res tr,
  Fuel1 RZ.range_vs rz_lawful (rz_ranked bs3) pkgs3 <= fuel ->
  resolve_g RZ.range_vs Z.eqb (reg_provider RZ.range_vs reg3) fuel 0%N 1%Z = (res, tr) ->
  length tr <= Events0 RZ.range_vs rz_lawful (rz_ranked bs3) pkgs3
  /\ ((exists sol, fst (fst (fst res)) = OSolution sol
         /\ Solution RZ.range_vs reg3 0%N 1%Z (fun p => get p sol)
         /\ NoDup (map fst sol) /\ (forall p v, In (p, v) sol -> In v (reg_versions reg3 p))
         /\ (forall p v, In (p, v) sol -> reach reg3 0%N sol p))
      \/ (exists t, fst (fst (fst res)) = ONoSolution t
         /\ (forall a, ~ Solution RZ.range_vs reg3 0%N 1%Z a)
         /\ tree_ok RZ.range_vs reg3 0%N 1%Z t /\ top_forbids_root RZ.range_vs 0%N 1%Z t)).
Proof.
  intros fuel res tr Hf E.
  destruct (resolve_g_total_correctness_range bs3 pkgs3 reg3 0%N 1%Z reg3_wf' (or_introl eq_refl) reg3_pk_deps
              reg3_b_deps reg3_b_ver (or_introl eq_refl) (reg_provider RZ.range_vs reg3) fuel res tr
              (reg_provider_serves RZ.range_vs reg3) Hf E) as (H1 & _ & _ & H4).
  split; [exact H1|exact H4].
Qed.

(* and what it returns on that registry is computed: a solution *)
Example total_correctness_range_run :
  fst (fst (fst (fst (resolve_g RZ.range_vs Z.eqb (reg_provider RZ.range_vs reg3) 200 0%N 1%Z))))
  = OSolution [(0%N, 1%Z); (1%N, 1%Z)].
Proof. vm_compute. reflexivity. Qed.

Print Assumptions resolve_g_total_correctness_range.
Print Assumptions total_correctness_range_nonvacuous.
