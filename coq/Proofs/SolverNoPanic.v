(* C05 (model side): the model of resolve never reaches a [Panic] outcome (outside [remaining]) nor
   [OFailure], for a lawful version set with atomic singletons, a registry with well-formed sets and a
   well-behaved trace.  Main loop and theorems; the invariant and the steps are in SolverNoPanic1/2. *)
From Coq Require Import List NArith ZArith Bool Lia PeanoNat.
From PG Require Import Model.VS Model.Term Model.Solver Model.Registry Proofs.VSLaws Proofs.TermProofs
  Proofs.AssocProofs Proofs.SolverSem Proofs.SolverStore Proofs.SolverTrace Proofs.SolverQueue Proofs.SolverQueue2
  Proofs.SolverSound1 Proofs.SolverSound2 Proofs.SolverSound Proofs.SolverReach1 Proofs.SolverReach2 Proofs.SolverShared
  Proofs.SolverNoPanic1 Proofs.SolverNoPanic2.
Import ListNotations.

Section NoPanic.
  Context {VS Vr : Type} (O : VSOps VS Vr) (L : VSLawful O) (veqb : Vr -> Vr -> bool).
  Context (reg : registry (VS := VS) (Vr := Vr)) (r : pkg) (rv : Vr).
  Hypothesis Hat : singleton_atomic O L.
  Hypothesis Hregwf : reg_wf O L reg.
  Hypothesis veqb_eq : forall a b, veqb a b = true -> a = b.

  Notation tm := (term VS).
  Notation pa := (@pa VS Vr).
  Notation psol := (@psol VS Vr).
  Notation state := (@state VS Vr).
  Notation incompat := (@incompat VS Vr).
  Notation event := (@event VS Vr).
  Notation outcome := (@outcome VS Vr).
  Notation full_ok := (full_ok O L reg r rv).
  Notation st_ok := (st_ok O L reg r rv).
  Notation ext_ok := (ext_ok O L reg r rv).
  Notation jinv := (jinv O L reg r rv).
  Notation rinv := (rinv O r rv).
  Notation ninv := (ninv O L reg r rv).
  Notation okup := (okup O L reg r rv).
  Notation ps_wf := (ps_wf O L).
  Notation tle := (tle O).
  Local Notation asg st := (assignments (ps st)).

  Ltac bad_ok := unfold Bad, remaining; cbn [In]; tauto.

  (* ---------------------------------------------------------------- the initial state *)
  Lemma ninv_init : ninv (state_init O r rv).
  Proof.
    constructor; cbn [state_init ps ps_empty assignments store index].
    - apply jinv_init.
    - constructor; [exact (noany_not_root O L r rv)|constructor].
    - intros p id Hact. unfold active, index_get in Hact. cbn [state_init index get] in Hact.
      destruct (N.eqb_spec p r) as [->|Hne]; [|destruct Hact]. destruct Hact as [<-|[]].
      exists (not_root O r rv). split; [reflexivity|]. intros x [<-|[]]. unfold indexed. cbn. now rewrite N.eqb_refl.
    - intros q a H. discriminate.
    - constructor; cbn [ps_empty assignments queue]; try (intros ? ? H; discriminate); try (intros ? ? ? H; discriminate);
        intros q a g v t H; discriminate.
    - intros q a dd H. discriminate.
    - intros _. split; [reflexivity|]. intros ci [<-|[]] x [<-|[]]. reflexivity.
  Qed.

  Definition npre (st : state) (next : pkg) : Prop :=
    (ninv st /\ rinv st /\ indexed (index st) next) \/ (st = state_init O r rv /\ next = r).

  Lemma up_entry_np fuel st next : npre st next -> okup (unit_propagation O fuel st [next]).
  Proof.
    intros [(Hn & Hr & Hix)|(-> & ->)].
    { apply (up_np O L veqb reg r rv Hat); [exact Hn|exact Hr|]. intros x [<-|[]]. exact Hix. }
    destruct fuel as [|fuel]; [exact I|].
    assert (Hix : get r (index (state_init O r rv)) = Some [0]) by (cbn; now rewrite N.eqb_refl).
    pose proof ninv_init as Hn0.
    remember (state_init O r rv) as st0 eqn:E0.
    cbn [unit_propagation rev app]. rewrite Hix. cbn [rev app]. rewrite E0, scan_init, <- E0.
    assert (Hn : nth_error (store st0) 0 = Some (not_root O r rv)) by (now rewrite E0).
    destruct (add_derivation_nopanic O (ps st0) r 0 (terms (not_root O r rv))) as (p' & Ed).
    { cbn. rewrite N.eqb_refl. discriminate. }
    { rewrite E0. cbn. discriminate. }
    rewrite Ed. cbn [bind].
    assert (Hri : indexed (index st0) r) by (unfold indexed; rewrite Hix; discriminate).
    apply (up_np O L veqb reg r rv Hat).
    - apply (ninv_deriv O L reg r rv st0 r 0 (not_root O r rv) p' _ Hn0 Hn); [|exact Hri|exact Ed].
      intros x t [E|[]] Hne. injection E as <- _. congruence.
    - destruct (add_derivation_get O _ _ _ _ _ Ed) as (ct & a' & Hct & _ & _ & Hget & Hcase).
      cbn [not_root terms get] in Hct. rewrite N.eqb_refl in Hct. injection Hct as <-.
      destruct Hcase as [(a & t & Hg & _)|(_ & -> & _)]; [rewrite E0 in Hg; discriminate|].
      exists (t_exact O rv). split; [|apply tle_refl].
      unfold lookup_at. cbn [upd_cache upd_ps ps]. rewrite Hget, N.eqb_refl. rewrite E0. reflexivity.
    - intros x [<-|[]]. exact Hri.
  Qed.

  (* ---------------------------------------------------------------- the pick *)
  Lemma pick_qpos (p : psol) (tr tr2 : list event) n n2 q :
    layout p -> qpos (assignments p) (queue p) ->
    do_prioritize O (pick_candidates p) (queue p) tr n = inl (q, tr2, n2) -> qpos (assignments p) q.
  Proof.
    intros Hl Hq Ep x e Hx. destruct (do_prioritize_get O _ _ _ _ _ _ _ Ep) as [I1 _].
    destruct (in_dec N.eq_dec x (map fst (pick_candidates p))) as [Hin|Hni].
    - apply in_map_iff in Hin. destruct Hin as ([x' s] & Ex & Hin). cbn in Ex. subst x'.
      destruct (pick_candidates_in veqb p x s Hin) as (i & a & Hn & Hs). exists a, s.
      split; [exact (nth_get _ _ _ _ (lay_keys _ Hl) Hn)|].
      unfold pos_set in Hs. destruct (ai a) as [|[s'|s']]; try discriminate. injection Hs as ->. reflexivity.
    - rewrite (I1 x Hni) in Hx. exact (Hq x e Hx).
  Qed.

  Lemma extract_fold_nopanic (l : list (pkg * pa)) :
    (forall q a, In (q, a) l -> decided a = true) ->
    exists sol, fold_right (fun '(q, a) acc =>
                  bind acc (fun l0 => match ai a with
                                      | ADecision _ v _ => Good ((q, v) :: l0)
                                      | ADerivations _ => Panic PExtractDerivation
                                      end)) (Good []) l = Good sol.
  Proof.
    induction l as [|[q a] l IH]; intros H; cbn [fold_right]; [eexists; reflexivity|].
    destruct IH as (sol & E); [intros q' a' Hin; apply (H q' a'); now right|]. rewrite E. cbn [bind].
    pose proof (H q a (or_introl eq_refl)) as Hd. unfold decided in Hd. destruct (ai a); [eexists; reflexivity|discriminate].
  Qed.

  Lemma extract_solution_nopanic (p : psol) : layout p -> exists sol, extract_solution p = Good sol.
  Proof.
    intros Hl. unfold extract_solution. apply extract_fold_nopanic. intros q a Hin.
    apply In_nth_error in Hin. destruct Hin as (i & Hi).
    assert (Hlt : i < level p).
    { assert (i < length (firstn (level p) (assignments p))) by (apply nth_error_Some; congruence).
      rewrite firstn_length in H. lia. }
    rewrite nth_error_firstn' in Hi by exact Hlt. exact (proj1 (lay_dec _ Hl i q a Hi Hlt)).
  Qed.

  (* ---------------------------------------------------------------- the main loop *)
  Definition okout (o : outcome) : Prop :=
    match o with
    | OPanic s => Bad s
    | OFailure FNoTerm => False
    | _ => True
    end.

  (* the root can only be decided at the root version *)
  Lemma root_version st s v :
    ninv st -> rinv st -> term_for (ps st) r = Some (Pos s) -> t_contains O (Pos s) v = true -> v = rv.
  Proof.
    intros Hn (t0 & H0 & Hle0) Ht Hc. pose proof (n_J _ _ _ _ _ _ Hn) as [_ Hl Hch _ _].
    destruct (lookup_at_mono O L 0 (level (ps st)) _ r t0 Hch ltac:(lia) H0) as (t' & Ht' & Hle').
    rewrite (lookup_at_level O _ _ Hl Hch), Ht in Ht'. injection Ht' as <-.
    pose proof (Hle0 (Some v) (Hle' (Some v) Hc)) as H. cbn in H. now apply (contains_singleton O L) in H.
  Qed.

  Lemma resolve_loop_np fuel : forall st next added (tr : list event) n log,
    npre st next -> WellBehaved O reg tr ->
    okout (fst (fst (fst (resolve_loop O veqb fuel st next added tr n log)))).
  Proof.
    induction fuel as [|fuel IH]; intros st next added tr n log Hpre Hwb; cbn [resolve_loop]; [exact I|].
    destruct tr as [|[ok| | |] tr1]; try exact I.
    destruct ok; cbn [negb]; [|exact I].
    apply Forall_inv_tail in Hwb.
    pose proof (up_entry_np (S fuel) st next Hpre) as Hup.
    destruct (unit_propagation O (S fuel) st [next]) as [[st1|st1 id]|[|s0]] eqn:Eup; cbn [okup SolverNoPanic2.okup] in Hup;
      [| |exact I|exact Hup].
    2:{ (* a terminal incompatibility: the derivation tree exists *)
        destruct Hup as [Hn1 (i & Hi & _)]. pose proof (n_J _ _ _ _ _ _ Hn1) as [[[Hsj _] _] _ _ _ _].
        destruct (store_just_tree_total O L reg r rv (store st1) id Hsj) as (t & Et).
        { apply nth_error_Some. congruence. }
        rewrite Et. exact I. }
    destruct Hup as [Hn1 Hr1].
    pose proof (n_J _ _ _ _ _ _ Hn1) as Hj1. pose proof Hj1 as [[Hok1 Hw1] Hl1 Hc1 HK1 _].
    pose proof (do_prioritize_wb O reg (pick_candidates (ps st1)) (queue (ps st1)) tr1 (S n) Hwb) as Hprio.
    destruct (do_prioritize O (pick_candidates (ps st1)) (queue (ps st1)) tr1 (S n)) as [[[q tr2] n2]|o] eqn:Ep;
      [|destruct Hprio as (k' & w & ->); exact I].
    pose proof (pick_qpos _ _ _ _ _ _ Hl1 (pi_qpos _ _ _ _ _ (n_P _ _ _ _ _ _ Hn1)) Ep) as Hq.
    destruct (queue_max q) as [mx|] eqn:Eqm.
    2:{ unfold res_out. destruct (extract_solution_nopanic (ps st1) Hl1) as (sol & Ex). rewrite Ex. exact I. }
    destruct tr2 as [|[| |p s ans|] tr3]; try exact I.
    destruct (get p q) as [[prio qs]|] eqn:Egp; [|exact I].
    destruct (negb (Z.eqb prio mx)); [exact I|].
    set (pq := {| next_gidx := next_gidx (ps st1); level := level (ps st1); assignments := asg st1;
                  queue := remove p q; changed := length (asg st1); backtracked := backtracked (ps st1) |}).
    set (st2 := upd_ps st1 pq).
    assert (Hn2 : ninv st2).
    { apply (ninv_queue O L reg r rv st1 pq Hn1); try reflexivity. cbn [pq queue]. intros x e Hx.
      destruct (N.eq_dec p x) as [<-|Hne]; [now rewrite get_remove_same in Hx|].
      rewrite get_remove_other in Hx by assumption. exact (Hq x e Hx). }
    assert (Hr2 : rinv st2) by (exact (rinv_asg O r rv st1 st2 eq_refl Hr1)).
    pose proof (n_J _ _ _ _ _ _ Hn2) as Hj2. pose proof Hj2 as [[Hok2 Hw2] Hl2 Hc2 HK2 _].
    assert (Hqn : get p (queue (ps st2)) = None) by (cbn; apply get_remove_same).
    destruct (Hq p _ Egp) as (ap & cur_set & Hgp & Eap).
    assert (Eti : term_for (ps st2) p = Some (Pos cur_set)).
    { unfold term_for. cbn [st2 upd_ps ps pq assignments]. rewrite Hgp. cbn. now rewrite Eap. }
    assert (Hpi : indexed (index st2) p) by exact (n_ixa _ _ _ _ _ _ Hn2 p ap Hgp).
    pose proof (Forall_inv Hprio) as Hev. apply Forall_inv_tail in Hprio.
    fold pq. fold st2. rewrite Eti.
    destruct (vs_eqb O s cur_set) eqn:Es; cbn [negb]; [|exact I].
    apply (vs_eqb_spec O L) in Es. subst s.
    assert (Wcur : wf O L cur_set) by exact (term_for_wf O L _ _ _ Hw2 Eti).
    (* a step that only adds an external incompatibility about [p] *)
    assert (Hadd : forall (inc : incompat) st3,
              ext_ok inc -> as_dependency inc = None -> (forall x, In x (keys (terms inc)) -> x = p) ->
              add_incompatibility O st2 inc = Good st3 -> npre st3 p).
    { intros inc st3 Hext Hdep Hkeys Ea. left.
      pose proof (add_incompatibility_ps O _ _ _ Ea) as Eps.
      destruct (add_incompatibility_single O _ _ _ Hdep Ea) as (_ & _ & Est & _).
      assert (Hok3 : full_ok st3).
      { split; [eapply add_incompatibility_ok; [exact Hok2|exact Hext|exact Ea]|]. rewrite Eps. exact Hw2. }
      destruct (add_incompatibility_extra O L reg r rv st2 inc st3 Hok2 Hext (n_any _ _ _ _ _ _ Hn2) (n_ix _ _ _ _ _ _ Hn2) Ea)
        as (Hna3 & Hix3 & Hmono).
      split; [|split; [exact (rinv_asg O r rv st2 st3 ltac:(now rewrite Eps) Hr2)|now apply Hmono]].
      apply (ninv_store O L reg r rv st2 st3 Hn2 Eps); [eauto|exact Hok3|exact Hna3|exact Hix3|exact Hmono|].
      intros E0. rewrite Eps in E0 |- *. destruct (n_Z _ _ _ _ _ _ Hn2 E0) as [Hb Hk]. split; [exact Hb|]. rewrite Est.
      intros ci Hci x Hx. apply in_app_or in Hci. destruct Hci as [Hci|[<-|[]]]; [exact (Hk ci Hci x Hx)|].
      rewrite (Hkeys x Hx).
      (* [p] is assigned before the first decision: it is the root *)
      pose proof (pi_first _ _ _ _ _ (n_P _ _ _ _ _ _ Hn2) p ap Hgp) as Hf. unfold pa_first in Hf.
      destruct (derivs ap) as [|d rest] eqn:Edr; [destruct Hf|].
      assert (Hevt : evt ap (d_gidx d) (d_level d)) by (left; exists d; rewrite Edr; split; [now left|auto]).
      pose proof (layout_evt_level _ _ _ _ _ Hl2 Hgp Hevt) as Hle.
      apply (pi_lev0 _ _ _ _ _ (n_P _ _ _ _ _ _ Hn2) p ap (d_gidx d) Hgp). replace 0 with (d_level d) by lia. exact Hevt. }
    (* deciding [p] *)
    assert (Hdecide : forall v, t_contains O (Pos cur_set) v = true ->
              (exists p', add_decision O (ps st2) p v = Good p')
              /\ forall p', add_decision O (ps st2) p v = Good p' -> ninv (upd_ps st2 p') /\ rinv (upd_ps st2 p')).
    { intros v Hc. split.
      - apply (add_decision_nopanic O (ps st2) p v ap (Pos cur_set) Hgp Eap Hc). reflexivity.
      - intros p' Ed. split; [|exact (rinv_decide O L reg r rv st2 p v p' Hj2 Ed Hr2)].
        apply (ninv_decide O L reg r rv st2 p v p' cur_set Hn2 Eti Hqn); [|exact Ed].
        intros _ ->. exact (root_version st2 cur_set v Hn2 Hr2 Eti Hc). }
    destruct ans as [v| |]; [| |exact I].
    - (* a version was chosen *)
      destruct (t_contains O (Pos cur_set) v) eqn:Hcv; cbn [negb]; [|exact I].
      destruct (Hdecide v Hcv) as [(pd & Edd) Hdd].
      destruct (added_has veqb added p v) eqn:Eah.
      + unfold res_out. rewrite Edd. apply IH; [|exact Hprio]. left. destruct (Hdd pd Edd) as [A B].
        split; [exact A|]. split; [exact B|exact Hpi].
      + destruct tr3 as [|[| | |p0 v0 dans] tr4]; try exact I.
        destruct (N.eqb_spec p p0) as [<-|]; cbn [andb negb]; [|exact I].
        destruct (veqb v v0) eqn:Ev; cbn [negb]; [|exact I].
        apply veqb_eq in Ev. subst v0.
        pose proof (Forall_inv Hprio) as Hev2. apply Forall_inv_tail in Hprio.
        destruct dans as [deps|m|]; [| |exact I].
        * (* dependencies available *)
          cbn in Hev2. destruct Hev2 as (ds' & Hd & Hiff).
          assert (Hdeps : forall qd sd, In (qd, sd) deps -> wf O L sd /\ declares O reg p (vs_singleton O v) qd sd).
          { intros qd sd Hin. apply Hiff in Hin. split; [exact (Hregwf _ _ _ _ _ Hd Hin)|].
            eapply declares_singleton; eauto. }
          destruct (add_from_dependencies_nopanic O L reg r rv st2 p v deps Hok2 Hdeps) as ([st3 range] & Ea).
          unfold res_out at 1. rewrite Ea. cbv beta iota.
          pose proof (add_from_dependencies_ps O _ _ _ _ _ _ Ea) as Eps.
          assert (Hok3 : full_ok st3).
          { split; [eapply add_from_dependencies_ok; [exact Hok2|exact Hdeps|exact Ea]|rewrite Eps; exact Hw2]. }
          destruct (add_from_dependencies_step O L reg r rv _ _ _ _ _ _ Hok2 Hdeps Ea) as ((_ & _ & (extra & Est & _) & _) & _ & _).
          destruct (add_from_dependencies_extra O L reg r rv st2 p v deps Hok2 Hdeps st3 range
                      (n_any _ _ _ _ _ _ Hn2) (n_ix _ _ _ _ _ _ Hn2) Ea) as (Hna3 & Hix3 & Hmono).
          (* whatever partial solution results, the state extends the one over [st2] *)
          assert (Hext : forall p', ninv (upd_ps st2 p') -> rinv (upd_ps st2 p') -> ps_wf p' ->
                           (level p' = 0 -> False) -> npre (upd_ps st3 p') p).
          { intros p' Hn' Hr' Hw' Hlv. left. split; [|split; [exact (rinv_asg O r rv (upd_ps st2 p') (upd_ps st3 p') eq_refl Hr')|
                                                             cbn [upd_ps index]; now apply Hmono]].
            apply (ninv_store O L reg r rv (upd_ps st2 p') (upd_ps st3 p') Hn'); [reflexivity|cbn [upd_ps store]; eauto| | | | |].
            - now apply full_ok_upd_ps.
            - exact Hna3.
            - exact Hix3.
            - exact Hmono.
            - intros E0. cbn [upd_ps ps] in E0. destruct (Hlv E0). }
          assert (HA : forall p', add_decision O (ps st3) p v = Good p' -> npre (upd_ps st3 p') p).
          { intros p' Ed. rewrite Eps in Ed. destruct (Hdd p' Ed) as [A B]. apply Hext; [exact A|exact B| |].
            - eapply add_decision_wf; [exact Hw2|exact Ed].
            - intros E0. rewrite (add_decision_level O _ _ _ _ Ed) in E0. discriminate. }
          assert (Hdd3 : exists p', add_decision O (ps st3) p v = Good p') by (rewrite Eps; eauto).
          destruct Hdd3 as (pd3 & Edd3).
          unfold add_version. destruct (negb (backtracked (ps st3))) eqn:Ebt.
          -- unfold res_out. rewrite Edd3. apply IH; [exact (HA pd3 Edd3)|exact Hprio].
          -- destruct (forallb _ _).
             ++ unfold res_out. rewrite Edd3. apply IH; [exact (HA pd3 Edd3)|exact Hprio].
             ++ unfold res_out. apply IH; [|exact Hprio]. rewrite Eps.
                assert (Eu : upd_ps st2 (ps st2) = st2) by reflexivity.
                apply Hext; [rewrite Eu; exact Hn2|rewrite Eu; exact Hr2|exact Hw2|].
                intros E0. destruct (n_Z _ _ _ _ _ _ Hn2 E0) as [Hb _]. rewrite Eps in Ebt. rewrite Hb in Ebt. discriminate.
        * (* dependencies unavailable *)
          cbn in Hev2.
          assert (Hext : ext_ok (custom_version O p v m)).
          { unfold SolverStore.ext_ok. cbn [ikind custom_version]. split; [reflexivity|]. exists v. split; [reflexivity|exact Hev2]. }
          destruct (add_incompatibility_nopanic O L reg r rv st2 _ Hok2 Hext) as (st3 & Ea).
          unfold res_out. rewrite Ea. apply IH; [|exact Hprio].
          apply (Hadd _ st3 Hext eq_refl); [|exact Ea]. intros x [<-|[]]. reflexivity.
    - (* no version: the NoVersions incompatibility *)
      cbn [no_versions]. cbn in Hev.
      assert (Hext : ext_ok {| terms := [(p, Pos cur_set)]; ikind := KNoVersions p cur_set |}).
      { unfold SolverStore.ext_ok. cbn [ikind]. split; [reflexivity|]. split; [exact Wcur|exact Hev]. }
      destruct (add_incompatibility_nopanic O L reg r rv st2 _ Hok2 Hext) as (st3 & Ea).
      unfold res_out. rewrite Ea. apply IH; [|exact Hprio].
      apply (Hadd _ st3 Hext eq_refl); [|exact Ea]. intros x [<-|[]]. reflexivity.
  Qed.

  (* ---------------------------------------------------------------- theorems *)
  Theorem resolve_okout fuel (tr : list event) :
    WellBehaved O reg tr -> okout (fst (fst (fst (resolve O veqb fuel r rv tr)))).
  Proof. intros Hwb. unfold resolve. apply resolve_loop_np; [right; auto|exact Hwb]. Qed.

  (* the combined statement: a panic outcome can only come from a site that is not excluded; [remaining] is the
     list of the sites not excluded, and it is empty *)
  Theorem resolve_no_panic_sites fuel (tr : list event) o st log cnt s :
    WellBehaved O reg tr -> resolve O veqb fuel r rv tr = (o, st, log, cnt) -> o = OPanic s -> In s remaining.
  Proof.
    intros Hwb E ->. pose proof (resolve_okout fuel tr Hwb) as H. rewrite E in H. exact H.
  Qed.

  Lemma remaining_nil : remaining = [].
  Proof. reflexivity. Qed.

  (* panic-freedom: no [panic!] / [unwrap] / [expect] / [unreachable!] / [debug_assert!] site is reached *)
  Theorem resolve_no_panic fuel (tr : list event) o st log cnt :
    WellBehaved O reg tr -> resolve O veqb fuel r rv tr = (o, st, log, cnt) -> forall s, o <> OPanic s.
  Proof. intros Hwb E s Ho. exact (resolve_no_panic_sites fuel tr o st log cnt s Hwb E Ho). Qed.

  (* PubGrubError::Failure("a package was chosen but we don't have a term") is not reached either *)
  Theorem resolve_no_term_failure fuel (tr : list event) o st log cnt :
    WellBehaved O reg tr -> resolve O veqb fuel r rv tr = (o, st, log, cnt) -> o <> OFailure FNoTerm.
  Proof.
    intros Hwb E ->. pose proof (resolve_okout fuel tr Hwb) as H. rewrite E in H. exact H.
  Qed.

  (* ---- the C05 notion of a well-behaved provider: the chosen version lies in the offered set ---- *)
  Definition choose_contained (tr : list event) : Prop :=
    forall p s v, In (EvChoose p s (CSome v)) tr -> vs_contains O s v = true.
  Definition no_error_answers (tr : list event) : Prop :=
    ~ In (EvCancel false) tr /\ (forall p s, ~ In (EvChoose p s CErr) tr) /\ (forall p v, ~ In (EvDeps p v DErr) tr).

  (* every outcome other than a result, fuel exhaustion or "the trace is not a run of the model" is an error
     answer of the provider, passed on *)
  Theorem resolve_outcomes fuel (tr : list event) o st log cnt :
    WellBehaved O reg tr -> choose_contained tr -> resolve O veqb fuel r rv tr = (o, st, log, cnt) ->
    match o with
    | OSolution _ | ONoSolution _ | OOutOfFuel | OMismatch _ _ | OPickNotMax _ _ => True
    | OErrCancel => In (EvCancel false) tr
    | OErrChoose => exists p s, In (EvChoose p s CErr) tr
    | OErrDeps p v => In (EvDeps p v DErr) tr
    | OFailure _ | OPanic _ => False
    end.
  Proof.
    intros Hwb Hcc E.
    pose proof (resolve_outcome_explained O veqb (fun a b => proj1 (vs_eqb_spec O L a b)) veqb_eq fuel r rv tr) as Hex.
    rewrite E in Hex. cbn [fst] in Hex.
    destruct o as [sol|t| | |p v|f|s| |k w|k p]; try exact I; try exact Hex.
    - destruct f.
      + exact (resolve_no_term_failure fuel tr _ st log cnt Hwb E eq_refl).
      + cbn in Hex. destruct Hex as (p & s & v & Hin & Hc). rewrite (Hcc p s v Hin) in Hc. discriminate.
    - exact (resolve_no_panic fuel tr _ st log cnt Hwb E s eq_refl).
  Qed.

  (* C05 without its termination clause: with a provider that never answers with an error, the model ends in Ok,
     NoSolution, out of fuel, or reports that the recorded trace is not a run of the model *)
  Corollary resolve_ok_or_nosolution fuel (tr : list event) o st log cnt :
    WellBehaved O reg tr -> choose_contained tr -> no_error_answers tr ->
    resolve O veqb fuel r rv tr = (o, st, log, cnt) ->
    (exists sol, o = OSolution sol) \/ (exists t, o = ONoSolution t) \/ o = OOutOfFuel
    \/ (exists k w, o = OMismatch k w) \/ (exists k p, o = OPickNotMax k p).
  Proof.
    intros Hwb Hcc (N1 & N2 & N3) E. pose proof (resolve_outcomes fuel tr o st log cnt Hwb Hcc E) as H.
    destruct o as [sol|t| | |p v|f|s| |k w|k p]; try (destruct H; fail); eauto 8.
    - destruct (N1 H).
    - destruct H as (p & s & H). destruct (N2 p s H).
    - destruct (N3 p v H).
  Qed.

  (* ---- one statement per site (all instances of [resolve_no_panic]) ---- *)
  Section Sites.
    Variables (fuel : nat) (tr : list event) (o : outcome) (st : state) (log : list (@pick_info VS)) (cnt : nat).
    Hypothesis Hwb : WellBehaved O reg tr.
    Hypothesis E : resolve O veqb fuel r rv tr = (o, st, log, cnt).
    Let np := resolve_no_panic fuel tr o st log cnt Hwb E.
    Lemma no_PIndexMissing : o <> OPanic PIndexMissing. Proof. apply np. Qed.
    Lemma no_PGetUnwrap : o <> OPanic PGetUnwrap. Proof. apply np. Qed.
    Lemma no_PSatisfierUnreachable : o <> OPanic PSatisfierUnreachable. Proof. apply np. Qed.
    Lemma no_PSatisfierCauseNone : o <> OPanic PSatisfierCauseNone. Proof. apply np. Qed.
    Lemma no_PMustBeDecision : o <> OPanic PMustBeDecision. Proof. apply np. Qed.
    Lemma no_PMustExist : o <> OPanic PMustExist. Proof. apply np. Qed.
    Lemma no_PDerivationAfterDecision : o <> OPanic PDerivationAfterDecision. Proof. apply np. Qed.
    Lemma no_PDecisionNoDerivations : o <> OPanic PDecisionNoDerivations. Proof. apply np. Qed.
    Lemma no_PDecisionAlready : o <> OPanic PDecisionAlready. Proof. apply np. Qed.
    Lemma no_PDecisionNotContained : o <> OPanic PDecisionNotContained. Proof. apply np. Qed.
    Lemma no_PDecisionChangedAssert : o <> OPanic PDecisionChangedAssert. Proof. apply np. Qed.
    Lemma no_PExtractDerivation : o <> OPanic PExtractDerivation. Proof. apply np. Qed.
    Lemma no_PNoVersionsNegative : o <> OPanic PNoVersionsNegative. Proof. apply np. Qed.
    Lemma no_PSplitOne : o <> OPanic PSplitOne. Proof. apply np. Qed.
    Lemma no_PUnwrapPositive : o <> OPanic PUnwrapPositive. Proof. apply np. Qed.
    Lemma no_PUnwrapNegative : o <> OPanic PUnwrapNegative. Proof. apply np. Qed.
    Lemma no_PTreeMissing : o <> OPanic PTreeMissing. Proof. apply np. Qed.
    Lemma no_PBacktrackEmpty : o <> OPanic PBacktrackEmpty. Proof. apply np. Qed.
    Lemma no_PAnyTerm : o <> OPanic PAnyTerm. Proof. apply np. Qed.
  End Sites.
End NoPanic.

Print Assumptions resolve_no_panic_sites.
Print Assumptions resolve_no_panic.
Print Assumptions resolve_no_term_failure.
Print Assumptions resolve_outcomes.
Print Assumptions resolve_ok_or_nosolution.
