(* C18: OfflineDependencyProvider is a last-write-wins store, versions ascending, newest first. *)
From Coq Require Import List NArith ZArith Bool Lia Sorted.
From PG Require Import Model.Offline.
Import ListNotations.

Section OfflineP.
  Context {VS : Type} (contains : VS -> Z -> bool).
  Notation provider := (@provider VS).
  Notation depmap := (@depmap VS).

  (* ---- the dependency map of one version ---- *)
  Lemma dm_get_insert q s (m : depmap) q' :
    dm_get q' (dm_insert q s m) = if N.eqb q' q then Some s else dm_get q' m.
  Proof.
    induction m as [|[a b] m IH]; cbn.
    - reflexivity.
    - destruct (N.eqb_spec q a) as [->|Hne]; cbn.
      + destruct (N.eqb_spec q' a); reflexivity.
      + destruct (N.eqb_spec q' a) as [->|Hne'].
        * destruct (N.eqb_spec a q); [congruence|reflexivity].
        * exact IH.
  Qed.

  Definition NoDupKeys {A B} (m : list (A * B)) := NoDup (map fst m).

  Lemma dm_insert_keys q s (m : depmap) x :
    In x (map fst (dm_insert q s m)) <-> x = q \/ In x (map fst m).
  Proof.
    induction m as [|[a b] m IH]; cbn; [intuition congruence|].
    destruct (N.eqb_spec q a) as [->|Hne]; cbn; [intuition congruence|]. rewrite IH. intuition congruence.
  Qed.

  Lemma dm_insert_nodup q s (m : depmap) : NoDupKeys m -> NoDupKeys (dm_insert q s m).
  Proof.
    unfold NoDupKeys. induction m as [|[a b] m IH]; cbn; intros H.
    - constructor; [tauto|constructor].
    - inversion H as [|? ? Hn Hd]; subst. destruct (N.eqb_spec q a) as [->|Hne]; cbn.
      + constructor; assumption.
      + constructor; [|auto]. rewrite dm_insert_keys. intuition congruence.
  Qed.

  (* last value bound to q in a list of entries *)
  Fixpoint last_for (q : pkg) (l : list (pkg * VS)) : option VS :=
    match l with
    | [] => None
    | (q', s) :: r => match last_for q r with Some s' => Some s' | None => if N.eqb q q' then Some s else None end
    end.

  Lemma collect_from_get (l : list (pkg * VS)) : forall (m : depmap) q,
    dm_get q (fold_left (fun m qs => dm_insert (fst qs) (snd qs) m) l m) =
    match last_for q l with Some s => Some s | None => dm_get q m end.
  Proof.
    induction l as [|[a b] l IH]; intros m q; cbn; [reflexivity|].
    rewrite IH, dm_get_insert. destruct (last_for q l); [reflexivity|]. destruct (N.eqb q a); reflexivity.
  Qed.

  Lemma collect_get (l : list (pkg * VS)) q : dm_get q (collect l) = last_for q l.
  Proof. unfold collect. rewrite collect_from_get. destruct (last_for q l); reflexivity. Qed.

  Lemma collect_nodup (l : list (pkg * VS)) : NoDupKeys (collect l).
  Proof.
    unfold collect. assert (G : forall m : depmap, NoDupKeys m ->
      NoDupKeys (fold_left (fun m qs => dm_insert (fst qs) (snd qs) m) l m)).
    { induction l as [|[a b] l IH]; intros m Hm; cbn; [exact Hm|]. apply IH. now apply dm_insert_nodup. }
    apply G. constructor.
  Qed.

  (* ---- the versions of one package ---- *)
  Definition asc (l : list (Z * depmap)) : Prop := StronglySorted Z.lt (map fst l).

  Lemma inner_set_keys v (d : depmap) l x :
    In x (map fst (inner_set v d l)) <-> x = v \/ In x (map fst l).
  Proof.
    induction l as [|[w d'] l IH]; cbn; [intuition congruence|].
    destruct (Z.compare_spec v w) as [->|Hlt|Hgt]; cbn; [intuition congruence|intuition congruence|]. rewrite IH. intuition congruence.
  Qed.

  Lemma inner_set_asc v (d : depmap) l : asc l -> asc (inner_set v d l).
  Proof.
    unfold asc. induction l as [|[w d'] l IH]; cbn; intros H.
    - constructor; [constructor|constructor].
    - apply StronglySorted_inv in H as [Hs Hall]. destruct (Z.compare_spec v w) as [->|Hlt|Hgt]; cbn.
      + constructor; assumption.
      + constructor; [constructor; assumption|]. constructor; [exact Hlt|].
        eapply Forall_impl; [|exact Hall]. cbn. intros; lia.
      + constructor; [auto|]. apply Forall_forall. intros x Hx. apply inner_set_keys in Hx.
        destruct Hx as [->|Hx]; [lia|]. rewrite Forall_forall in Hall. auto.
  Qed.

  Lemma inner_get_set v (d : depmap) l v' :
    asc l -> inner_get v' (inner_set v d l) = if Z.eqb v' v then Some d else inner_get v' l.
  Proof.
    unfold asc. induction l as [|[w d'] l IH]; cbn; intros H.
    - reflexivity.
    - apply StronglySorted_inv in H as [Hs Hall].
      destruct (Z.compare_spec v w) as [->|Hlt|Hgt]; cbn.
      + destruct (Z.eqb_spec v' w); reflexivity.
      + destruct (Z.eqb v' v); reflexivity.
      + destruct (Z.eqb_spec v' w) as [E|Hne].
        * destruct (Z.eqb_spec v' v); [lia|reflexivity].
        * now apply IH.
  Qed.

  Lemma inner_get_in v (l : list (Z * depmap)) : asc l -> (inner_get v l <> None <-> In v (map fst l)).
  Proof.
    induction l as [|[w d] l IH]; cbn; intros H; [tauto|].
    apply StronglySorted_inv in H as [Hs _]. destruct (Z.eqb_spec v w) as [->|Hne].
    - split; [auto|discriminate].
    - rewrite (IH Hs). split; [auto|intros [?|?]; [congruence|assumption]].
  Qed.

  (* ---- the package map ---- *)
  Lemma outer_get_set p (l : list (Z * depmap)) (prov : provider) p' :
    outer_get p' (outer_set p l prov) = if N.eqb p' p then Some l else outer_get p' prov.
  Proof.
    induction prov as [|[a b] prov IH]; cbn.
    - reflexivity.
    - destruct (N.eqb_spec p a) as [->|Hne]; cbn.
      + destruct (N.eqb_spec p' a); reflexivity.
      + destruct (N.eqb_spec p' a) as [->|Hne'].
        * destruct (N.eqb_spec a p); [congruence|reflexivity].
        * exact IH.
  Qed.

  Lemma outer_set_keys p (l : list (Z * depmap)) (prov : provider) x :
    In x (map fst (outer_set p l prov)) <-> x = p \/ In x (map fst prov).
  Proof.
    induction prov as [|[a b] prov IH]; cbn; [intuition congruence|].
    destruct (N.eqb_spec p a) as [->|Hne]; cbn; [intuition congruence|]. rewrite IH. intuition congruence.
  Qed.

  Lemma outer_get_in p (prov : provider) : outer_get p prov <> None <-> In p (map fst prov).
  Proof.
    induction prov as [|[a b] prov IH]; cbn; [tauto|].
    destruct (N.eqb_spec p a) as [->|Hne]; [split; [auto|discriminate]|].
    rewrite IH. split; [auto|intros [?|?]; [congruence|assumption]].
  Qed.

  (* invariant of every provider built by add_dependencies *)
  Definition wf_prov (prov : provider) : Prop := forall p l, outer_get p prov = Some l -> asc l.

  Lemma add_wf (prov : provider) p v deps : wf_prov prov -> wf_prov (add_dependencies prov p v deps).
  Proof.
    intros H p' l. unfold add_dependencies. rewrite outer_get_set.
    destruct (N.eqb_spec p' p) as [->|Hne]; [|apply H].
    intros E. injection E as <-. apply inner_set_asc.
    destruct (outer_get p prov) eqn:E; [now apply (H p)|constructor].
  Qed.

  (* one-step laws *)
  Lemma dependencies_add (prov : provider) p v deps p' v' :
    wf_prov prov ->
    dependencies (add_dependencies prov p v deps) p' v' =
    if N.eqb p' p && Z.eqb v' v then Some (collect deps) else dependencies prov p' v'.
  Proof.
    intros H. unfold dependencies, add_dependencies. rewrite outer_get_set.
    destruct (N.eqb_spec p' p) as [->|Hne]; cbn [andb]; [|reflexivity].
    destruct (outer_get p prov) as [l|] eqn:E.
    - rewrite inner_get_set by (now apply (H p)). reflexivity.
    - cbn. destruct (Z.eqb v' v); reflexivity.
  Qed.

  Lemma versions_add_in (prov : provider) p v deps p' x :
    (exists vs, versions (add_dependencies prov p v deps) p' = Some vs /\ In x vs) <->
    (p' = p /\ x = v) \/ (exists vs, versions prov p' = Some vs /\ In x vs).
  Proof.
    unfold versions, add_dependencies. rewrite outer_get_set.
    destruct (N.eqb_spec p' p) as [->|Hne].
    - cbn [option_map]. split.
      + intros (vs & E & Hin). injection E as <-. apply inner_set_keys in Hin. destruct Hin as [->|Hin]; [now left|].
        right. destruct (outer_get p prov); [cbn; eauto|destruct Hin].
      + intros [[_ ->]|(vs & E & Hin)]; eexists; (split; [reflexivity|]); apply inner_set_keys; [now left|].
        right. destruct (outer_get p prov); [injection E as <-; exact Hin|discriminate].
    - split; [intros H; now right|]. intros [[? _]|H]; [congruence|exact H].
  Qed.

  Lemma packages_add (prov : provider) p v deps x :
    In x (packages (add_dependencies prov p v deps)) <-> x = p \/ In x (packages prov).
  Proof. unfold packages, add_dependencies. apply outer_set_keys. Qed.

  (* ---- histories ---- *)
  Notation op := (@op VS).
  Notation run := (@run VS).

  Lemma run_snoc (ops : list op) o :
    run (ops ++ [o]) = add_dependencies (run ops) (fst (fst o)) (snd (fst o)) (snd o).
  Proof. unfold run. now rewrite fold_left_app. Qed.

  Lemma run_wf (ops : list op) : wf_prov (run ops).
  Proof.
    induction ops as [|o ops IH] using rev_ind.
    - intros p l. discriminate.
    - rewrite run_snoc. now apply add_wf.
  Qed.

  (* the dependency list of the last call for (p, v) *)
  Fixpoint last_add (ops : list op) (p : pkg) (v : Z) : option (list (pkg * VS)) :=
    match ops with
    | [] => None
    | (p', v', l) :: r =>
        match last_add r p v with
        | Some l' => Some l'
        | None => if N.eqb p p' && Z.eqb v v' then Some l else None
        end
    end.

  Lemma last_add_snoc (ops : list op) p' v' l p v :
    last_add (ops ++ [(p', v', l)]) p v = if N.eqb p p' && Z.eqb v v' then Some l else last_add ops p v.
  Proof.
    induction ops as [|[[a b] c] ops IH]; cbn [app last_add].
    - destruct (N.eqb p p' && Z.eqb v v'); reflexivity.
    - rewrite IH. destruct (N.eqb p p' && Z.eqb v v'); [reflexivity|]. reflexivity.
  Qed.

  Theorem last_write_wins (ops : list op) p v :
    get_dependencies (run ops) p v =
    match last_add ops p v with Some l => Available (collect l) | None => Unavailable end.
  Proof.
    unfold get_dependencies. induction ops as [|[[p' v'] l] ops IH] using rev_ind.
    - reflexivity.
    - rewrite run_snoc, last_add_snoc. cbn [fst snd]. rewrite dependencies_add by apply run_wf.
      destruct (N.eqb p p' && Z.eqb v v'); [reflexivity|exact IH].
  Qed.

  Theorem enumerates (ops : list op) :
    (forall p, In p (packages (run ops)) <-> exists v l, In (p, v, l) ops)
    /\ (forall p, versions (run ops) p = None <-> ~ exists v l, In (p, v, l) ops)
    /\ (forall p vs, versions (run ops) p = Some vs ->
          StronglySorted Z.lt vs /\ forall v, In v vs <-> exists l, In (p, v, l) ops).
  Proof.
    assert (Hpk : forall p, In p (packages (run ops)) <-> exists v l, In (p, v, l) ops).
    { induction ops as [|[[p' v'] l'] ops IH] using rev_ind; intros p.
      - cbn. split; [tauto|intros (? & ? & [])].
      - rewrite run_snoc, packages_add, IH. cbn [fst snd]. split.
        + intros [->|(v & l & H)]; [exists v', l'|exists v, l]; apply in_or_app; cbn; auto.
        + intros (v & l & H). apply in_app_or in H. destruct H as [H|[H|[]]]; [right; eauto|].
          injection H as -> -> ->. now left. }
    split; [exact Hpk|]. split.
    - intros p. rewrite <- Hpk. unfold versions, packages. rewrite <- outer_get_in.
      destruct (outer_get p (run ops)); cbn; split; try discriminate; try tauto.
      intros H. exfalso. apply H. discriminate.
    - intros p vs E. split.
      + unfold versions in E. destruct (outer_get p (run ops)) eqn:E'; [|discriminate].
        injection E as <-. exact (run_wf ops p l E').
      + intros v. transitivity (exists vs', versions (run ops) p = Some vs' /\ In v vs').
        { split; [intros H; eauto|intros (vs' & E2 & H)]. rewrite E in E2. injection E2 as <-. exact H. }
        clear E vs Hpk. induction ops as [|[[p' v'] l'] ops IH] using rev_ind.
        * cbn. split; [intros (? & E & _); discriminate|intros (? & [])].
        * rewrite run_snoc. cbn [fst snd]. rewrite versions_add_in, IH. split.
          -- intros [[-> ->]|(l & H)]; [exists l'|exists l]; apply in_or_app; cbn; auto.
          -- intros (l & H). apply in_app_or in H. destruct H as [H|[H|[]]]; [right; eauto|].
             injection H as -> -> ->. now left.
  Qed.

  Lemma hd_filter_rev_max (f : Z -> bool) vs :
    StronglySorted Z.lt vs ->
    match hd_error (filter f (rev vs)) with
    | Some v => In v vs /\ f v = true /\ forall w, In w vs -> f w = true -> (w <= v)%Z
    | None => forall w, In w vs -> f w = false
    end.
  Proof.
    induction vs as [|x vs IH]; intros Hs; cbn; [tauto|].
    apply StronglySorted_inv in Hs as [Hs Hall]. specialize (IH Hs).
    rewrite filter_app. cbn [filter]. destruct (filter f (rev vs)) as [|y ys] eqn:E; cbn [app hd_error] in *.
    - destruct (f x) eqn:Ex; cbn.
      + repeat split; auto. intros w [->|Hw] Hf; [lia|]. rewrite IH in Hf by assumption. discriminate.
      + intros w [->|Hw]; auto.
    - destruct IH as (Hin & Hf & Hmax). repeat split; auto. intros w [->|Hw] Hfw; [|auto].
      rewrite Forall_forall in Hall. specialize (Hall y Hin). lia.
  Qed.

  Theorem choose_max (ops : list op) p s :
    match choose_version contains (run ops) p s with
    | Some v => (exists l, In (p, v, l) ops) /\ contains s v = true
                /\ forall w l, In (p, w, l) ops -> contains s w = true -> (w <= v)%Z
    | None => forall w l, In (p, w, l) ops -> contains s w = false
    end.
  Proof.
    destruct (enumerates ops) as (_ & Hnone & Hsome).
    unfold choose_version. destruct (versions (run ops) p) as [vs|] eqn:E.
    - destruct (Hsome p vs E) as [Hs Hin]. pose proof (hd_filter_rev_max (contains s) vs Hs) as H.
      destruct (hd_error (filter (contains s) (rev vs))) as [v|].
      + destruct H as (H1 & H2 & H3). split; [now apply Hin|]. split; [exact H2|].
        intros w l Hw. apply H3. apply Hin. eauto.
      + intros w l Hw. apply H. apply Hin. eauto.
    - intros w l Hw. exfalso. apply (proj1 (Hnone p) E). eauto.
  Qed.

  Theorem prioritize_antitone (ops : list op) p s q t :
    (prioritize_count contains (run ops) p s < prioritize_count contains (run ops) q t)%nat ->
    priority_compare (prioritize_count contains (run ops) p s) (prioritize_count contains (run ops) q t) = Gt.
  Proof. unfold priority_compare. intros H. apply Nat.compare_gt_iff. exact H. Qed.

  Theorem prioritize_counts (ops : list op) p s :
    prioritize_count contains (run ops) p s =
    match versions (run ops) p with Some vs => length (filter (contains s) vs) | None => 0%nat end.
  Proof. reflexivity. Qed.

End OfflineP.
