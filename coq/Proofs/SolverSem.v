(* Semantics of incompatibilities: truth of terms on choices of versions, validity of the external
   constructors, of merged dependents and of the rule of resolution (prior_cause). *)
From Coq Require Import List NArith Bool.
From PG Require Import Model.VS Model.Term Model.Solver Model.Registry Proofs.VSLaws Proofs.TermProofs
  Proofs.AssocProofs.
Import ListNotations.

Section Sem.
  Context {VS Vr : Type} (O : VSOps VS Vr) (L : VSLawful O).
  Notation tm := (term VS).
  Notation incompat := (@incompat VS Vr).
  Notation twf := (twf O L).
  Notation sat := (sat_term O).

  Definition twf_all (ts : list (pkg * tm)) : Prop := Forall (fun pt => twf (snd pt)) ts.

  (* sat_term is the term semantics of C11 at the point of the version *)
  Lemma sat_tden t c : twf t -> sat t c = tden O L t (option_map (pt O L) c).
  Proof. intros H. destruct c as [v|]; cbn; [now apply t_contains_spec|]. destruct t; reflexivity. Qed.

  Lemma sat_intersection t u c : twf t -> twf u -> sat (t_intersection O t u) c = sat t c && sat u c.
  Proof.
    intros Ht Hu. rewrite !sat_tden by (try assumption; now apply twf_intersection). now apply tden_intersection.
  Qed.

  Lemma sat_union t u c : twf t -> twf u -> sat (t_union O t u) c = sat t c || sat u c.
  Proof.
    intros Ht Hu. rewrite !sat_tden by (try assumption; now apply twf_union). now apply tden_union.
  Qed.

  Lemma sat_negate t c : twf t -> sat (t_negate t) c = negb (sat t c).
  Proof. intros Ht. rewrite !sat_tden by (try assumption; now apply twf_negate). apply tden_negate. Qed.

  Lemma sat_any c : sat (t_any O) c = true.
  Proof. rewrite sat_tden by apply twf_any. apply tden_any. Qed.

  Lemma contains_singleton v w : vs_contains O (vs_singleton O v) w = true <-> w = v.
  Proof. rewrite (contains_mem O L) by apply (wf_singleton O L). apply (mem_singleton O L). Qed.

  Lemma contains_empty w : vs_contains O (vs_empty O) w = false.
  Proof. rewrite (contains_mem O L) by apply (wf_empty O L). apply (mem_empty O L). Qed.

  Lemma contains_union a b w : wf O L a -> wf O L b ->
    vs_contains O (vs_union O a b) w = vs_contains O a w || vs_contains O b w.
  Proof. intros Ha Hb. rewrite !(contains_mem O L) by (try assumption; now apply (wf_union O L)). now apply (mem_union O L). Qed.

  Lemma contains_intersection a b w : wf O L a -> wf O L b ->
    vs_contains O (vs_intersection O a b) w = vs_contains O a w && vs_contains O b w.
  Proof. intros Ha Hb. rewrite !(contains_mem O L) by (try assumption; now apply (wf_intersection O L)). now apply (mem_intersection O L). Qed.

  Lemma contains_complement a w : wf O L a ->
    vs_contains O (vs_complement O a) w = negb (vs_contains O a w).
  Proof. intros Ha. rewrite !(contains_mem O L) by (try assumption; now apply (wf_complement O L)). now apply (mem_complement O L). Qed.

  (* ---------------------------------------------------------------- validity *)
  Context (reg : registry (VS := VS) (Vr := Vr)) (r : pkg) (rv : Vr).
  Notation Valid := (Valid O reg r rv).
  Notation Solution := (Solution O reg r rv).
  Notation violates := (violates O).

  (* the dependency sets of the registry are well-formed version sets *)
  Definition reg_wf : Prop :=
    forall p v ds q s, reg_deps reg p v = Some ds -> In (q, s) ds -> wf O L s.

  Definition inc_ok (ts : list (pkg * tm)) : Prop :=
    NoDup (keys ts) /\ twf_all ts /\ Valid ts.

  Lemma violates_get a ts : NoDup (keys ts) ->
    (violates a ts <-> forall p t, get p ts = Some t -> sat t (a p) = true).
  Proof.
    intros Hnd. unfold violates. split; intros H p t Hp.
    - apply H. now apply get_In.
    - apply H. now apply In_get.
  Qed.

  Lemma not_root_ok : inc_ok (terms (not_root O r rv)).
  Proof.
    cbn. split; [constructor; [tauto|constructor]|]. split; [constructor; [apply (wf_singleton O L)|constructor]|].
    intros a [Hroot _] Hv. specialize (Hv r _ (or_introl eq_refl)). rewrite Hroot in Hv. cbn in Hv.
    assert (vs_contains O (vs_singleton O rv) rv = true) by now apply contains_singleton.
    rewrite H in Hv. discriminate.
  Qed.

  Lemma single_pos_ok p s :
    wf O L s ->
    (forall a v, Solution a -> a p = Some v -> vs_contains O s v = false) ->
    inc_ok [(p, Pos s)].
  Proof.
    intros Hwf H. split; [constructor; [tauto|constructor]|]. split; [constructor; [exact Hwf|constructor]|].
    intros a Hs Hv. specialize (Hv p _ (or_introl eq_refl)). destruct (a p) as [v|] eqn:E; cbn in Hv; [|discriminate].
    now rewrite (H a v Hs E) in Hv.
  Qed.

  (* no version of the registry in the set: the NoVersions incompatibility *)
  Lemma no_versions_ok p s :
    wf O L s -> (forall v, In v (reg_versions reg p) -> vs_contains O s v = false) -> inc_ok [(p, Pos s)].
  Proof.
    intros Hwf H. apply single_pos_ok; [exact Hwf|]. intros a v [_ Hs] E. apply H. exact (proj1 (Hs p v E)).
  Qed.

  (* dependencies unavailable: the Custom incompatibility *)
  Lemma custom_version_ok p v m : reg_deps reg p v = None -> inc_ok (terms (custom_version O p v m)).
  Proof.
    intros H. cbn. apply single_pos_ok; [apply (wf_singleton O L)|].
    intros a w [_ Hs] E. destruct (vs_contains O (vs_singleton O v) w) eqn:C; [|reflexivity].
    apply contains_singleton in C. subst w. destruct (Hs p v E) as (_ & ds & Hd & _). congruence.
  Qed.

  (* "every version of p in vset declares the dependency (q, s)" *)
  Definition declares (p : pkg) (vset : VS) (q : pkg) (s : VS) : Prop :=
    forall v, In v (reg_versions reg p) -> vs_contains O vset v = true ->
      exists ds, reg_deps reg p v = Some ds /\ In (q, s) ds.

  Lemma from_dependency_ok p vset q s :
    wf O L vset -> wf O L s -> declares p vset q s -> inc_ok (terms (from_dependency O p vset (q, s))).
  Proof.
    intros Hv Hs Hd. unfold from_dependency. cbn [terms].
    (* a solution selecting p at a version of vset selects q inside s *)
    assert (Key : forall a v, Solution a -> a p = Some v -> vs_contains O vset v = true ->
                  exists w, a q = Some w /\ vs_contains O s w = true).
    { intros a v Hsol E C. destruct Hsol as [_ Hsol]. destruct (Hsol p v E) as (Hin & ds & Hds & Hall).
      destruct (Hd v Hin C) as (ds' & Hds' & Hqs). rewrite Hds in Hds'. injection Hds' as <-. now apply Hall. }
    destruct (vs_eqb O s (vs_empty O)) eqn:Ee.
    - apply (vs_eqb_spec O L) in Ee. subst s. apply single_pos_ok; [exact Hv|].
      intros a v Hsol E. destruct (vs_contains O vset v) eqn:C; [|reflexivity].
      destruct (Key a v Hsol E C) as (w & _ & Hw). now rewrite contains_empty in Hw.
    - destruct (N.eqb_spec p q) as [<-|Hne].
      + apply single_pos_ok; [apply (wf_intersection O L); [exact Hv|now apply (wf_complement O L)]|].
        intros a v Hsol E. rewrite contains_intersection, contains_complement by (try assumption; now apply (wf_complement O L)).
        destruct (vs_contains O vset v) eqn:C; [|reflexivity]. cbn.
        destruct (Key a v Hsol E C) as (w & Ew & Hw). rewrite E in Ew. injection Ew as <-. now rewrite Hw.
      + split; [|split].
        * constructor; [cbn; intuition congruence|constructor; [tauto|constructor]].
        * repeat constructor; assumption.
        * intros a Hsol Hviol.
          pose proof (Hviol p _ (or_introl eq_refl)) as H1.
          pose proof (Hviol q _ (or_intror (or_introl eq_refl))) as H2.
          destruct (a p) as [v|] eqn:E; cbn in H1; [|discriminate].
          destruct (Key a v Hsol E H1) as (w & Ew & Hw). rewrite Ew in H2. cbn in H2. now rewrite Hw in H2.
  Qed.

  Lemma declares_singleton p v q s ds :
    reg_deps reg p v = Some ds -> In (q, s) ds -> declares p (vs_singleton O v) q s.
  Proof. intros Hd Hin w _ C. apply contains_singleton in C. subst w. eauto. Qed.

  Lemma declares_union p a b q s : wf O L a -> wf O L b ->
    declares p a q s -> declares p b q s -> declares p (vs_union O a b) q s.
  Proof.
    intros Ha Hb H1 H2 v Hin C. rewrite contains_union in C by assumption.
    apply orb_prop in C as [C|C]; auto.
  Qed.

  (* ---------------------------------------------------------------- rule of resolution *)
  Lemma get_merge_terms (other m : list (pkg * tm)) q :
    NoDup (keys other) ->
    get q (merge_terms O m other) =
    match get q m, get q other with
    | Some a, Some b => Some (t_intersection O a b)
    | Some a, None => Some a
    | None, Some b => Some b
    | None, None => None
    end.
  Proof.
    revert m; induction other as [|[k t2] other IH]; intros m Hnd; cbn [merge_terms get].
    - destruct (get q m); reflexivity.
    - inversion Hnd as [|? ? Hn Hd]; subst. rewrite (IH _ Hd).
      assert (Hk : get k other = None) by (apply get_None; exact Hn).
      destruct (N.eqb_spec q k) as [->|Hne].
      + rewrite Hk. destruct (get k m) as [t1|] eqn:Em.
        * now rewrite get_set_same.
        * rewrite get_app, Em. cbn. now rewrite N.eqb_refl.
      + destruct (get k m) as [t1|] eqn:Em.
        * rewrite get_set_other by congruence. reflexivity.
        * rewrite get_app. cbn. destruct (N.eqb_spec q k); [congruence|]. destruct (get q m); reflexivity.
  Qed.

  Lemma merge_terms_keys (other m : list (pkg * tm)) x :
    In x (keys (merge_terms O m other)) -> In x (keys m) \/ In x (keys other).
  Proof.
    revert m; induction other as [|[k t2] other IH]; intros m; cbn [merge_terms]; [tauto|].
    intros H. apply IH in H. destruct H as [H|H]; [|right; now right].
    destruct (get k m).
    - apply keys_set in H. destruct H as [->|H]; [right; now left|now left].
    - rewrite keys_app, in_app_iff in H. cbn in H. destruct H as [H|[<-|[]]]; [now left|right; now left].
  Qed.

  Lemma merge_terms_nodup (other m : list (pkg * tm)) :
    NoDup (keys m) -> NoDup (keys (merge_terms O m other)).
  Proof.
    revert m; induction other as [|[k t2] other IH]; intros m Hm; cbn [merge_terms]; [exact Hm|].
    apply IH. destruct (get k m) eqn:E; [now apply nodup_set|now apply nodup_snoc].
  Qed.

  Lemma remove_wf p (m : list (pkg * tm)) : twf_all m -> twf_all (remove p m).
  Proof.
    induction m as [|[k t] m IH]; cbn; intros H; [constructor|]. inversion H as [|? ? H1 H2]; subst.
    destruct (N.eqb p k); [now apply IH|constructor; [exact H1|now apply IH]].
  Qed.

  Lemma set_wf p t (m : list (pkg * tm)) : twf t -> twf_all m -> twf_all (set p t m).
  Proof.
    intros Ht. induction m as [|[k u] m IH]; cbn; intros H; [constructor; [exact Ht|constructor]|].
    inversion H as [|? ? H1 H2]; subst.
    destruct (N.eqb p k); [constructor; [exact Ht|exact H2]|constructor; [exact H1|now apply IH]].
  Qed.

  Lemma merge_terms_wf (other m : list (pkg * tm)) :
    twf_all m -> twf_all other -> twf_all (merge_terms O m other).
  Proof.
    revert m; induction other as [|[k t2] other IH]; intros m Hm Ho; cbn [merge_terms]; [exact Hm|].
    inversion Ho as [|? ? H2 Ho']; subst. apply IH; [|exact Ho'].
    destruct (get k m) as [t1|] eqn:E.
    - assert (H1 : twf t1). { apply get_In in E. unfold twf_all in Hm. rewrite Forall_forall in Hm. exact (Hm _ E). }
      apply set_wf; [now apply twf_intersection|exact Hm].
    - apply Forall_app. split; [exact Hm|constructor; [exact H2|constructor]].
  Qed.

  Lemma prior_cause_ok i j ti tj p pc :
    inc_ok ti -> inc_ok tj -> prior_cause O i j ti tj p = Good pc -> inc_ok (terms pc).
  Proof.
    intros (Ndi & Wfi & Vi) (Ndj & Wfj & Vj). unfold prior_cause, bind, req.
    destruct (get p ti) as [t1|] eqn:E1; [|discriminate].
    destruct (get p tj) as [t2|] eqn:E2; [|discriminate].
    intros H. injection H as <-. cbn [terms].
    assert (W1 : twf t1). { apply get_In in E1. unfold twf_all in Wfi. rewrite Forall_forall in Wfi. exact (Wfi _ E1). }
    assert (W2 : twf t2). { apply get_In in E2. unfold twf_all in Wfj. rewrite Forall_forall in Wfj. exact (Wfj _ E2). }
    set (rest := merge_terms O (remove p ti) (remove p tj)).
    assert (Nrest : NoDup (keys rest)) by (apply merge_terms_nodup; now apply nodup_remove).
    assert (Wrest : twf_all rest) by (apply merge_terms_wf; now apply remove_wf).
    assert (Grest : forall q, q <> p -> get q rest =
              match get q ti, get q tj with
              | Some a, Some b => Some (t_intersection O a b) | Some a, None => Some a
              | None, Some b => Some b | None, None => None end).
    { intros q Hq. unfold rest. rewrite get_merge_terms by now apply nodup_remove.
      rewrite !get_remove_other by congruence. reflexivity. }
    assert (Prest : get p rest = None).
    { unfold rest. rewrite get_merge_terms by now apply nodup_remove. now rewrite !get_remove_same. }
    set (u := t_union O t1 t2).
    assert (Wu : twf u) by now apply twf_union.
    set (R := if t_eqb O u (t_any O) then rest else set p u rest).
    assert (NR : NoDup (keys R)) by (unfold R; destruct (t_eqb O u (t_any O)); [exact Nrest|now apply nodup_set]).
    assert (WR : twf_all R) by (unfold R; destruct (t_eqb O u (t_any O)); [exact Wrest|now apply set_wf]).
    split; [exact NR|]. split; [exact WR|].
    (* soundness of resolution *)
    intros a Hsol Hviol.
    rewrite (violates_get a R NR) in Hviol.
    assert (Hu : sat u (a p) = true).
    { unfold R in Hviol. destruct (t_eqb O u (t_any O)) eqn:Eu.
      - apply (t_eqb_spec O L) in Eu. rewrite Eu. apply sat_any.
      - apply (Hviol p u). apply get_set_same. }
    assert (Hq : forall q, q <> p -> forall t, get q rest = Some t -> sat t (a q) = true).
    { intros q Hne t Hg. apply (Hviol q t). unfold R. destruct (t_eqb O u (t_any O)); [exact Hg|].
      now rewrite get_set_other by congruence. }
    unfold u in Hu. rewrite sat_union in Hu by assumption. apply orb_prop in Hu as [Hu|Hu].
    - apply (Vi a Hsol). apply (violates_get a ti Ndi). intros q t Hg.
      destruct (N.eq_dec q p) as [->|Hne]; [congruence|].
      specialize (Grest q Hne). rewrite Hg in Grest. destruct (get q tj) as [t'|] eqn:Ej.
      + pose proof (Hq q Hne _ Grest) as Hs.
        assert (twf t) by (apply get_In in Hg; unfold twf_all in Wfi; rewrite Forall_forall in Wfi; exact (Wfi _ Hg)).
        assert (twf t') by (apply get_In in Ej; unfold twf_all in Wfj; rewrite Forall_forall in Wfj; exact (Wfj _ Ej)).
        rewrite sat_intersection in Hs by assumption. now apply andb_prop in Hs.
      + exact (Hq q Hne _ Grest).
    - apply (Vj a Hsol). apply (violates_get a tj Ndj). intros q t Hg.
      destruct (N.eq_dec q p) as [->|Hne]; [congruence|].
      specialize (Grest q Hne). rewrite Hg in Grest. destruct (get q ti) as [t'|] eqn:Ei.
      + pose proof (Hq q Hne _ Grest) as Hs.
        assert (twf t) by (apply get_In in Hg; unfold twf_all in Wfj; rewrite Forall_forall in Wfj; exact (Wfj _ Hg)).
        assert (twf t') by (apply get_In in Ei; unfold twf_all in Wfi; rewrite Forall_forall in Wfi; exact (Wfi _ Ei)).
        rewrite sat_intersection in Hs by assumption. now apply andb_prop in Hs.
      + exact (Hq q Hne _ Grest).
  Qed.

  (* the rule of resolution is a semantic entailment for EVERY assignment, not only for solutions *)
  Lemma prior_cause_entails i j ti tj p pc :
    NoDup (keys ti) -> NoDup (keys tj) -> twf_all ti -> twf_all tj ->
    prior_cause O i j ti tj p = Good pc ->
    forall a : assignment, violates a (terms pc) -> violates a ti \/ violates a tj.
  Proof.
    intros Ndi Ndj Wfi Wfj. unfold prior_cause, bind, req.
    destruct (get p ti) as [t1|] eqn:E1; [|discriminate].
    destruct (get p tj) as [t2|] eqn:E2; [|discriminate].
    intros H. injection H as <-. cbn [terms].
    assert (W1 : twf t1). { apply get_In in E1. unfold twf_all in Wfi. rewrite Forall_forall in Wfi. exact (Wfi _ E1). }
    assert (W2 : twf t2). { apply get_In in E2. unfold twf_all in Wfj. rewrite Forall_forall in Wfj. exact (Wfj _ E2). }
    set (rest := merge_terms O (remove p ti) (remove p tj)).
    assert (Nrest : NoDup (keys rest)) by (apply merge_terms_nodup; now apply nodup_remove).
    assert (Grest : forall q, q <> p -> get q rest =
              match get q ti, get q tj with
              | Some a, Some b => Some (t_intersection O a b) | Some a, None => Some a
              | None, Some b => Some b | None, None => None end).
    { intros q Hq. unfold rest. rewrite get_merge_terms by now apply nodup_remove.
      rewrite !get_remove_other by congruence. reflexivity. }
    set (u := t_union O t1 t2).
    set (R := if t_eqb O u (t_any O) then rest else set p u rest).
    assert (NR : NoDup (keys R)) by (unfold R; destruct (t_eqb O u (t_any O)); [exact Nrest|now apply nodup_set]).
    intros a Hviol.
    rewrite (violates_get a R NR) in Hviol.
    assert (Hu : sat u (a p) = true).
    { unfold R in Hviol. destruct (t_eqb O u (t_any O)) eqn:Eu.
      - apply (t_eqb_spec O L) in Eu. rewrite Eu. apply sat_any.
      - apply (Hviol p u). apply get_set_same. }
    assert (Hq : forall q, q <> p -> forall t, get q rest = Some t -> sat t (a q) = true).
    { intros q Hne t Hg. apply (Hviol q t). unfold R. destruct (t_eqb O u (t_any O)); [exact Hg|].
      now rewrite get_set_other by congruence. }
    unfold u in Hu. rewrite sat_union in Hu by assumption. apply orb_prop in Hu as [Hu|Hu].
    - left. apply (violates_get a ti Ndi). intros q t Hg.
      destruct (N.eq_dec q p) as [->|Hne]; [congruence|].
      specialize (Grest q Hne). rewrite Hg in Grest. destruct (get q tj) as [t'|] eqn:Ej.
      + pose proof (Hq q Hne _ Grest) as Hs.
        assert (twf t) by (apply get_In in Hg; unfold twf_all in Wfi; rewrite Forall_forall in Wfi; exact (Wfi _ Hg)).
        assert (twf t') by (apply get_In in Ej; unfold twf_all in Wfj; rewrite Forall_forall in Wfj; exact (Wfj _ Ej)).
        rewrite sat_intersection in Hs by assumption. now apply andb_prop in Hs.
      + exact (Hq q Hne _ Grest).
    - right. apply (violates_get a tj Ndj). intros q t Hg.
      destruct (N.eq_dec q p) as [->|Hne]; [congruence|].
      specialize (Grest q Hne). rewrite Hg in Grest. destruct (get q ti) as [t'|] eqn:Ei.
      + pose proof (Hq q Hne _ Grest) as Hs.
        assert (twf t) by (apply get_In in Hg; unfold twf_all in Wfj; rewrite Forall_forall in Wfj; exact (Wfj _ Hg)).
        assert (twf t') by (apply get_In in Ei; unfold twf_all in Wfi; rewrite Forall_forall in Wfi; exact (Wfi _ Ei)).
        rewrite sat_intersection in Hs by assumption. now apply andb_prop in Hs.
      + exact (Hq q Hne _ Grest).
  Qed.

  (* a valid terminal incompatibility refutes every solution *)
  Lemma terminal_no_solution (i : incompat) :
    Valid (terms i) -> is_terminal O i r rv = true -> forall a, ~ Solution a.
  Proof.
    intros Hv Ht a Hsol. apply (Hv a Hsol). unfold is_terminal in Ht.
    destruct (terms i) as [|[p t] [|? ?]]; [intros ? ? []| |discriminate].
    apply andb_prop in Ht as [Hp Hc]. apply N.eqb_eq in Hp. subst p.
    intros q u [E|[]]. injection E as <- <-. destruct Hsol as [Hr _]. rewrite Hr. exact Hc.
  Qed.
End Sem.
