(* Total correctness of the generating solver model as a function of the provider.

   [resolve_g] (Proofs/SolverGen.v) asks a typed provider and returns the result together with the history of
   calls.  For a provider that answers according to a finite registry, never cancels and never fails
   ([serves]), with a lawful VersionSet with atomic singletons and at least [Fuel1] fuel:
   the run makes at most [Events0] provider calls and ends with a genuine solution of the registry, or with
   NoSolution and then the registry has no solution.

   Route: the generated trace is a recording of the provider that the checker [resolve_h] accepts
   (SolverGen); the heap/queue disagreement (code 6) is unreachable (invariant [HQ'] of SolverDetQueue carried over
   [resolve_loop_g], here); so the checker run is a [resolve] run (erasure, SolverDet); termination (SolverTerm),
   soundness of Ok (SolverSound) and of NoSolution (SolverStore) conclude. *)
From Coq Require Import List NArith ZArith Bool Lia PeanoNat Permutation.
From PG Require Import Model.VS Model.Term Model.Heap Model.Solver Model.Registry Proofs.VSLaws Proofs.SolverSem
  Proofs.AssocProofs Proofs.SolverStore Proofs.SolverShared Proofs.SolverProto2 Proofs.SolverNoPanic1 Proofs.SolverNoPanic
  Proofs.SolverTerm1 Proofs.SolverTerm4 Proofs.SolverTerm Proofs.SolverQueue2 Proofs.SolverSound
  Proofs.SolverTrace Proofs.SolverDet Proofs.HeapProofs Proofs.SolverDetQueue Proofs.SolverDetInst Proofs.SolverGen.
Import ListNotations.

(* ================================================================ the heap never runs empty before the queue *)
Section NoCode6.
  Context {VS Vr : Type} (O : VSOps VS Vr) (veqb : Vr -> Vr -> bool).
  Notation event := (@event VS Vr).
  Notation tprovider := (@tprovider VS Vr).

  (* the lemmas of Proofs/SolverDetQueue.v, their heap hypotheses discharged by Proofs/HeapProofs.v *)
  Lemma HQ'_push_i (q : list (pkg * (Z * VS))) hp p prio s :
    HQ' q hp -> HQ' (set p (prio, s) q) (heap_push N.eqb hp p prio).
  Proof.
    apply HQ'_push.
    - exact (heap_push_perm N.eqb N_eqb_spec').
    - exact (heap_push_wf N.eqb N_eqb_spec').
    - exact (heap_push_ord N.eqb).
  Qed.

  Lemma HQ'_pop_i (q : list (pkg * (Z * VS))) hp hpk z hp3 mx :
    HQ' q hp -> queue_max q = Some mx -> heap_pop hp = Some ((hpk, z), hp3) ->
    (exists s, get hpk q = Some (mx, s)) /\ HQ' (remove hpk q) hp3.
  Proof.
    apply HQ'_pop.
    - exact (@heap_pop_perm pkg).
    - exact (@heap_pop_wf pkg).
    - exact (@heap_pop_ord pkg).
    - exact (@heap_pop_max pkg).
  Qed.

  (* a non-empty queue has a non-empty heap *)
  Lemma HQ'_pop_some (q : list (pkg * (Z * VS))) hp mx :
    HQ' q hp -> queue_max q = Some mx -> heap_pop hp <> None.
  Proof.
    intros (Hnd & Hwf & Hord & Hin) Hmx Hpop.
    apply heap_pop_none in Hpop. subst hp.
    destruct (queue_max_in q mx Hmx) as (p0 & s0 & Hin0).
    apply In_get in Hin0; [|exact Hnd].
    assert (H0 : In (p0, mx) (@nil (pkg * Z))) by (apply Hin; eauto).
    exact H0.
  Qed.

  Lemma gen_prioritize_HQ (pg : tprovider) cands : forall q hist q' evs hp,
    gen_prioritize pg cands q hist = (q', evs) -> HQ' q hp -> HQ' q' (heap_pushes hp evs).
  Proof.
    induction cands as [|[p s] cands IH]; intros q hist q' evs hp; cbn [gen_prioritize].
    - intros H HQ0. injection H as <- <-. exact HQ0.
    - destruct (gen_prioritize pg cands _ _) as [q1 evs1] eqn:Eg. intros H HQ0. injection H as <- <-.
      cbn [heap_pushes]. exact (IH _ _ _ _ _ Eg (HQ'_push_i q hp p _ s HQ0)).
  Qed.

  Lemma resolve_loop_g_no6 (pg : tprovider) fuel : forall st next added hp hist log k,
    HQ' (queue (ps st)) hp ->
    fst (fst (fst (fst (resolve_loop_g O veqb pg fuel st next added hp hist log)))) <> OMismatch k 6.
  Proof.
    induction fuel as [|fuel IH]; intros st next added hp hist log k Hst; cbn [resolve_loop_g].
    { cbn [fst]. discriminate. }
    destruct (negb (p_cancel pg hist)); [cbn [fst]; discriminate|].
    pose proof (unit_propagation_q O (S fuel) st [next] (queue (ps st)) (or_introl eq_refl)) as Hup.
    destruct (unit_propagation O (S fuel) st [next]) as [[st1|st1 id]|[|s0]]; try (cbn [fst]; discriminate).
    2:{ destruct (build_derivation_tree (store st1) id); cbn [fst]; discriminate. }
    destruct (gen_prioritize pg _ _ _) as [q evs] eqn:Eg.
    pose proof (HQ'_after_propagation _ _ hp Hup Hst) as H1.
    pose proof (gen_prioritize_HQ _ _ _ _ _ _ _ Eg H1) as H2.
    destruct (queue_max q) as [mx|] eqn:Emx.
    2:{ unfold res_out. destruct (extract_solution (ps st1)); cbn [fst]; discriminate. }
    destruct (heap_pop _) as [[[hpk hz] hp3]|] eqn:Epop.
    2:{ exfalso. exact (HQ'_pop_some _ _ _ H2 Emx Epop). }
    destruct (HQ'_pop_i _ _ _ _ _ _ H2 Emx Epop) as [_ H3].
    destruct (get hpk q) as [[prio qs]|]; [|cbn [fst]; discriminate].
    destruct (negb (Z.eqb prio mx)); [cbn [fst]; discriminate|].
    match goal with |- context [term_for (ps ?s2) hpk] => set (st2 := s2) end.
    assert (Hq2 : queue (ps st2) = remove hpk q) by reflexivity.
    destruct (term_for _ hpk) as [[cur|cur]|]; try (cbn [fst]; discriminate).
    destruct (p_choose pg _ hpk cur) as [v| |]; [| |cbn [fst]; discriminate].
    - destruct (negb (t_contains O (Pos cur) v)); [cbn [fst]; discriminate|].
      destruct (added_has veqb added hpk v).
      + unfold res_out_g. destruct (add_decision O _ hpk v) as [p'|] eqn:Ed; [|cbn [fst]; discriminate].
        apply IH. cbn [ps upd_ps]. rewrite (add_decision_queue _ _ _ _ _ Ed), Hq2. exact H3.
      + destruct (p_deps pg _ hpk v) as [deps|m|]; [| |cbn [fst]; discriminate].
        * unfold res_out_g.
          destruct (add_incompatibility_from_dependencies O _ hpk v deps) as [[st3 range]|] eqn:Ea; [|cbn [fst]; discriminate].
          pose proof (add_from_dependencies_ps _ _ _ _ _ _ _ Ea) as Eps.
          destruct (add_version O (ps st3) hpk v range (store st3)) as [pn|] eqn:Eav; [|cbn [fst]; discriminate].
          apply IH. cbn [ps upd_ps]. rewrite (add_version_queue _ _ _ _ _ _ _ Eav), Eps, Hq2. exact H3.
        * unfold res_out_g.
          destruct (add_incompatibility O _ (custom_version O hpk v m)) as [st3|] eqn:Ea; [|cbn [fst]; discriminate].
          apply IH. rewrite (add_incompatibility_ps _ _ _ _ Ea), Hq2. exact H3.
    - destruct (no_versions hpk (Pos cur)) as [inc|]; [|cbn [fst]; discriminate].
      unfold res_out_g. destruct (add_incompatibility O _ inc) as [st3|] eqn:Ea; [|cbn [fst]; discriminate].
      apply IH. rewrite (add_incompatibility_ps _ _ _ _ Ea), Hq2. exact H3.
  Qed.

  (* the generating model never reports the heap/queue disagreement *)
  Theorem resolve_g_no_code6 : forall (pg : tprovider) fuel r v res tr k,
    resolve_g O veqb pg fuel r v = (res, tr) -> fst (fst (fst res)) <> OMismatch k 6.
  Proof.
    intros pg fuel r v res tr k H. unfold resolve_g in H.
    pose proof (resolve_loop_g_no6 pg fuel (state_init O r v) r [] [] [] [] k) as Hn.
    rewrite H in Hn. cbn [fst] in Hn. apply Hn. cbn. exact HQ'_nil.
  Qed.

  (* hence no mismatch at all *)
  Corollary resolve_g_no_mismatch : forall (pg : tprovider) fuel r v res tr k w,
    resolve_g O veqb pg fuel r v = (res, tr) -> fst (fst (fst res)) <> OMismatch k w.
  Proof.
    intros pg fuel r v res tr k w H Hm.
    pose proof (resolve_g_not_recording_mismatch O veqb pg fuel r v res tr k w H Hm) as ->.
    exact (resolve_g_no_code6 pg fuel r v res tr k H Hm).
  Qed.
End NoCode6.

(* ================================================================ end to end *)
Section EndToEnd.
  Context {VS Vr : Type} (O : VSOps VS Vr) (L : VSLawful O) (veqb : Vr -> Vr -> bool).
  Context (reg : registry (VS := VS) (Vr := Vr)) (r : pkg) (rv : Vr).
  Variable R : Ranked O L.
  Variable pkgs : list pkg.
  Notation event := (@event VS Vr).
  Notation tprovider := (@tprovider VS Vr).

  (* a finite registry: finitely many packages, all its sets inside the finite ranked algebra
     (as in Props/Properties_C05.v) *)
  Definition finite_registry : Prop :=
    In r pkgs
    /\ (forall p v ds q s, reg_deps reg p v = Some ds -> In (q, s) ds -> In q pkgs)
    /\ (forall p v ds q s, reg_deps reg p v = Some ds -> In (q, s) ds -> alg R s)
    /\ (forall p v, In v (reg_versions reg p) -> alg R (vs_singleton O v))
    /\ alg R (vs_singleton O rv).

  (* a typed provider that answers according to the registry, never cancels and never fails *)
  Definition serves (pg : tprovider) : Prop :=
    (forall h, p_cancel pg h = true)
    /\ (forall h p s, match p_choose pg h p s with
                      | CSome v => In v (reg_versions reg p) /\ vs_contains O s v = true
                      | CNone => forall v, In v (reg_versions reg p) -> vs_contains O s v = false
                      | CErr => False end)
    /\ (forall h p v, match p_deps pg h p v with
                      | DAvail ds => exists ds', reg_deps reg p v = Some ds' /\ (forall x, In x ds <-> In x ds')
                      | DUnavail _ => reg_deps reg p v = None
                      | DErr => False end).

  (* ---------------------------------------------------------------- step 1: the recordings of a serving provider *)
  Definition good_ev (e : event) : Prop :=
    ev_ok O reg e
    /\ (forall p s v, e = EvChoose p s (CSome v) -> vs_contains O s v = true)
    /\ e <> EvCancel false
    /\ (forall p s, e <> EvChoose p s CErr)
    /\ (forall p v, e <> EvDeps p v DErr).

  Lemma serves_good_ev pg hist (e : event) :
    serves pg -> answer_of e = to_provider pg hist (query_of e) -> good_ev e.
  Proof.
    intros (Hc & Hch & Hd) Ha. unfold good_ev.
    destruct e as [ok|p s z|p s a|p v a]; cbn [answer_of query_of to_provider] in Ha.
    - injection Ha as ->. rewrite Hc. cbn [ev_ok]. repeat split; try discriminate.
    - cbn [ev_ok]. repeat split; try discriminate.
    - injection Ha as ->. specialize (Hch hist p s).
      destruct (p_choose pg hist p s) as [v| |]; cbn [ev_ok].
      + destruct Hch as [Hin Hcon]. repeat split; try discriminate; try exact Hin.
        intros p' s' v' E. injection E as _ <- <-. exact Hcon.
      + repeat split; try discriminate. exact Hch.
      + destruct Hch.
    - injection Ha as ->. specialize (Hd hist p v).
      destruct (p_deps pg hist p v) as [ds|m|]; cbn [ev_ok].
      + repeat split; try discriminate. exact Hd.
      + repeat split; try discriminate. exact Hd.
      + destruct Hd.
  Qed.

  Lemma serves_generated_good pg : serves pg -> forall (tr hist : list event),
    generated_by (to_provider pg) hist tr -> Forall good_ev tr.
  Proof.
    intros Hs. induction tr as [|e tr IH]; intros hist; cbn [generated_by]; [constructor|].
    intros [Ha Hg]. constructor; [exact (serves_good_ev pg hist e Hs Ha)|exact (IH _ Hg)].
  Qed.

  Lemma good_trace (tr : list event) : Forall good_ev tr ->
    WellBehaved O reg tr /\ choose_contained O tr /\ no_error_answers tr.
  Proof.
    intros Hg. rewrite Forall_forall in Hg. split; [|split; [|split; [|split]]].
    - unfold WellBehaved. rewrite Forall_forall. intros e He. exact (proj1 (Hg e He)).
    - intros p s v Hin. exact (proj1 (proj2 (Hg _ Hin)) p s v eq_refl).
    - intros Hin. exact (proj1 (proj2 (proj2 (Hg _ Hin))) eq_refl).
    - intros p s Hin. exact (proj1 (proj2 (proj2 (proj2 (Hg _ Hin)))) p s eq_refl).
    - intros p v Hin. exact (proj2 (proj2 (proj2 (proj2 (Hg _ Hin)))) p v eq_refl).
  Qed.

  (* ---------------------------------------------------------------- the theorem *)
  Theorem resolve_g_total_correctness :
    singleton_atomic O L -> reg_wf O L reg ->
    (forall a b, veqb a b = true -> a = b) -> (forall v, veqb v v = true) -> (forall s, vs_eqb O s s = true) ->
    finite_registry ->
    forall pg fuel res tr,
      serves pg -> Fuel1 O L R pkgs <= fuel ->
      resolve_g O veqb pg fuel r rv = (res, tr) ->
      length tr <= Events0 O L R pkgs
      /\ ((exists sol, fst (fst (fst res)) = OSolution sol /\ Solution O reg r rv (fun p => get p sol))
          \/ (exists t, fst (fst (fst res)) = ONoSolution t /\ forall a, ~ Solution O reg r rv a)).
  Proof.
    intros Hat Hwf Hveq Hvrefl Hsrefl (F1 & F2 & F3 & F4 & F5) pg fuel res tr Hserv Hfuel Hg.
    destruct (resolve_g_is_accepted_run O veqb Hsrefl Hvrefl pg fuel r rv res tr Hg)
      as (_ & Hlen & la & Hgen & Hres & Hla).
    pose proof (resolve_g_no_mismatch O veqb pg fuel r rv res tr) as Hnm.
    assert (Hn6 : forall k, fst (fst (fst (resolve_h O veqb fuel r rv (tr ++ la)))) <> OMismatch k 6).
    { intros k. rewrite Hres. exact (Hnm k 6%N Hg). }
    pose proof (resolve_h_erasure O veqb fuel r rv (tr ++ la) Hn6) as Her. rewrite Hres in Her.
    pose proof (resolve_h_pick_is_max O veqb fuel r rv (tr ++ la)) as Hpm. rewrite Hres in Hpm.
    destruct (good_trace _ (serves_generated_good pg Hserv _ _ Hgen)) as (Hwb & Hcc & Hne).
    destruct res as [[[o st] log] cnt]. cbn [fst snd] in *. symmetry in Her.
    destruct (resolve_terminates O L veqb reg r rv Hat Hwf Hveq R pkgs F1 F2 F3 F4 F5
                fuel (tr ++ la) o st log cnt Hwb Hcc Hne Hfuel Her) as [Hout Hcnt].
    split; [rewrite <- Hlen; exact Hcnt|].
    destruct Hout as [(sol & ->)|[(t & ->)|[(k & w & ->)|(k & p & ->)]]].
    - left. exists sol. split; [reflexivity|].
      refine (proj1 (resolve_ok_sound_full O L veqb reg r rv Hwf Hveq fuel (tr ++ la) sol st log cnt Hwb Her _)).
      intros k cands q n2 x s Hk Hin.
      exact (resolve_fresh O L veqb fuel r rv (tr ++ la) _ st log cnt k cands q n2 x s
               (wellbehaved_trace_wf O L reg (tr ++ la) Hwf Hwb) Her Hk Hin).
    - right. exists t. split; [reflexivity|].
      exact (proj2 (resolve_store_valid O L veqb reg r rv Hwf Hveq fuel (tr ++ la) _ st log cnt Hwb Her) t eq_refl).
    - exfalso. exact (Hnm k w Hg eq_refl).
    - exfalso. exact (Hpm k p eq_refl).
  Qed.
End EndToEnd.

Print Assumptions resolve_g_no_code6.
Print Assumptions resolve_g_total_correctness.
