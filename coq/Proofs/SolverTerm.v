(* C05 (model side), termination: the model of resolve does not run out of fuel (T1) and consumes a bounded
   number of provider events (T2).
   Hypotheses: a lawful version set with atomic singletons, a ranked subalgebra [R] containing the dependency
   sets of the registry and the singletons of its versions and of the root version, a finite list [pkgs] of the
   packages of the registry, a well-behaved trace.  [Bound] is computed from [R] and [pkgs] alone (SolverTerm4).
   - [up_entry_T]: at every loop entry reachable in a run, unit propagation (and the conflict resolution inside
     it) does not run out of fuel when fuel >= Fuel0 = 2 * Bound + 4;
   - [resolve_no_fuel_exhaustion]: no [OOutOfFuel] when fuel >= Fuel0 + length tr (simple induction);
   - [resolve_loop_T2]: every iteration of the main loop increases the potential, except one that ends without
     a decision, and then the next one starts from a trigger and increases it; hence at most Iter0 = 2 * Bound + 1
     iterations, [resolve_events_bounded]: cnt <= Events0 = (|pkgs| + 3) * Iter0, and
     [resolve_no_fuel_exhaustion_uniform]: no [OOutOfFuel] when fuel >= Fuel1 = Fuel0 + Iter0, whatever the trace;
   - [resolve_terminates]: combination with SolverNoPanic.resolve_ok_or_nosolution. *)
From Coq Require Import List NArith ZArith Bool Lia PeanoNat.
From PG Require Import Model.VS Model.Term Model.Solver Model.Registry Proofs.VSLaws Proofs.TermProofs
  Proofs.AssocProofs Proofs.SolverSem Proofs.SolverStore Proofs.SolverTrace Proofs.SolverProtocol Proofs.SolverQueue
  Proofs.SolverQueue2 Proofs.SolverSound1 Proofs.SolverSound2 Proofs.SolverSound Proofs.SolverReach1 Proofs.SolverReach2
  Proofs.SolverShared Proofs.SolverNoPanic1 Proofs.SolverNoPanic2 Proofs.SolverNoPanic Proofs.SolverProto2
  Proofs.SolverTerm1 Proofs.SolverTerm2 Proofs.SolverTerm3 Proofs.SolverTerm4 Proofs.SolverTerm5 Proofs.SolverTerm6.
Import ListNotations.

Section Term.
  Context {VS Vr : Type} (O : VSOps VS Vr) (L : VSLawful O) (veqb : Vr -> Vr -> bool).
  Context (reg : registry (VS := VS) (Vr := Vr)) (r : pkg) (rv : Vr).
  Hypothesis Hat : singleton_atomic O L.
  Hypothesis Hregwf : reg_wf O L reg.
  Hypothesis veqb_eq : forall a b, veqb a b = true -> a = b.
  Variable R : Ranked O L.
  Variable pkgs : list pkg.
  (* the registry lives in the ranked subalgebra and mentions only the packages of [pkgs] *)
  Hypothesis Hpk_root : In r pkgs.
  Hypothesis Hpk_deps : forall p v ds q s, reg_deps reg p v = Some ds -> In (q, s) ds -> In q pkgs.
  Hypothesis Halg_deps : forall p v ds q s, reg_deps reg p v = Some ds -> In (q, s) ds -> alg R s.
  Hypothesis Halg_ver : forall p v, In v (reg_versions reg p) -> alg R (vs_singleton O v).
  Hypothesis Halg_root : alg R (vs_singleton O rv).

  Notation tm := (term VS).
  Notation pa := (@pa VS Vr).
  Notation psol := (@psol VS Vr).
  Notation state := (@state VS Vr).
  Notation incompat := (@incompat VS Vr).
  Notation event := (@event VS Vr).
  Notation outcome := (@outcome VS Vr).
  Notation full_ok := (full_ok O L reg r rv).
  Notation st_ok := (st_ok O L reg r rv).
  Notation ext_ok := (ext_ok O L reg r rv).
  Notation jinv := (jinv O L reg r rv).
  Notation rinv := (rinv O r rv).
  Notation ninv := (ninv O L reg r rv).
  Notation ps_wf := (ps_wf O L).
  Notation xinv := (xinv O L R pkgs).
  Notation algI := (algI (alg R) pkgs).
  Notation tsA := (tsA (alg R) pkgs).
  Notation psA := (psA (alg R) pkgs).
  Notation NE := (NE O L).
  Notation Phi := (Phi O L R pkgs).
  Notation Bound := (Bound O L R pkgs).
  Notation need := (need O L R pkgs).
  Local Notation asg st := (assignments (ps st)).

  Let Heqb : vs_eqb O (vs_empty O) (vs_empty O) = true := proj2 (vs_eqb_spec O L _ _) eq_refl.
  Let Ac := alg_compl R.
  Let Ai := alg_inter R.
  Let Au := alg_union R.
  Let Ae := alg_empty R.

  (* the fuel that suffices for one unit propagation from a one-element buffer *)
  Definition Fuel0 : nat := 2 * Bound + 4.

  (* the invariant of the reachable states, at the points where unit propagation starts *)
  Definition tgood (st : state) : Prop :=
    ninv st /\ rinv st /\ xinv st /\ next_gidx (ps st) <= Phi (ps st).

  Definition tpre (st : state) (next : pkg) : Prop :=
    (tgood st /\ indexed (index st) next) \/ (st = state_init O r rv /\ next = r).

  Lemma xinv_init : xinv (state_init O r rv).
  Proof.
    constructor.
    - apply algI_init; assumption.
    - intros q a H. discriminate.
    - intros q1 a1 q2 a2 g l1 l2 H. discriminate.
  Qed.

  (* M5, inner part: unit propagation at a reachable loop entry *)
  Lemma up_entry_T fuel st next :
    tpre st next ->
    match unit_propagation O fuel st [next] with
    | inl (UPOk st1) => tgood st1 /\ Phi (ps st) <= Phi (ps st1)
                        /\ next_gidx (ps st1) + Phi (ps st) <= next_gidx (ps st) + Phi (ps st1)
    | _ => True
    end
    /\ (Fuel0 <= fuel -> unit_propagation O fuel st [next] <> inr EFuel).
  Proof.
    intros Hpre. pose proof (up_entry_np O L veqb reg r rv Hat fuel st next) as Hnp.
    destruct Hpre as [((Hn & Hr & Hx & Hg) & Hix)|(-> & ->)].
    { specialize (Hnp (or_introl (conj Hn (conj Hr Hix)))).
      destruct (up_T O L veqb reg r rv Hat R pkgs fuel st [next] Hn Hr Hx ltac:(intros x [<-|[]]; exact Hix) Hg) as [K1 K2].
      split.
      - destruct (unit_propagation O fuel st [next]) as [[st1|st1 id]|e]; try exact I.
        cbn [okup SolverNoPanic2.okup] in Hnp. cbn [okupT] in K1. destruct Hnp as [A1 A2]. destruct K1 as (B1 & B2 & B3 & B4).
        split; [exact (conj A1 (conj A2 (conj B1 B3)))|split; [exact B2|exact B4]].
      - intros HF. apply K2. unfold SolverTerm5.need, Fuel0 in *. cbn [length]. lia. }
    specialize (Hnp (or_intror (conj eq_refl eq_refl))).
    destruct fuel as [|fuel]; [split; [exact I|unfold Fuel0; lia]|].
    assert (Hix : get r (index (state_init O r rv)) = Some [0]) by (cbn; now rewrite N.eqb_refl).
    pose proof (ninv_init O L reg r rv) as Hn0. pose proof xinv_init as Hx0.
    remember (state_init O r rv) as st0 eqn:E0.
    revert Hnp. cbn [unit_propagation rev app]. rewrite Hix. cbn [rev app]. rewrite E0, scan_init, <- E0.
    assert (Hn : nth_error (store st0) 0 = Some (not_root O r rv)) by (now rewrite E0).
    destruct (add_derivation O (ps st0) r 0 (terms (not_root O r rv))) as [p'|] eqn:Ed; cbn [bind];
      [|intros _; split; [exact I|discriminate]].
    assert (Hri : indexed (index st0) r) by (unfold indexed; rewrite Hix; discriminate).
    set (st1 := upd_cache (upd_ps st0 p') (cache_set 0 (level p') (contradicted st0))).
    assert (Hn1 : ninv st1).
    { apply (ninv_deriv O L reg r rv st0 r 0 (not_root O r rv) p' _ Hn0 Hn); [|exact Hri|exact Ed].
      intros x t [E|[]] Hne. injection E as <- _. congruence. }
    assert (Hr1 : rinv st1).
    { destruct (add_derivation_get O _ _ _ _ _ Ed) as (ct & a' & Hct & _ & _ & Hget & Hcase).
      cbn [not_root terms get] in Hct. rewrite N.eqb_refl in Hct. injection Hct as <-.
      destruct Hcase as [(a & t & Hg & _)|(_ & -> & _)]; [rewrite E0 in Hg; discriminate|].
      exists (t_exact O rv). split; [|apply tle_refl].
      unfold lookup_at. cbn [st1 upd_cache upd_ps ps]. rewrite Hget, N.eqb_refl. rewrite E0. reflexivity. }
    assert (Etf : term_for (ps st0) r = None) by (now rewrite E0).
    assert (Hx1 : xinv st1).
    { apply (xinv_deriv O L veqb reg r rv R pkgs st0 r 0 (not_root O r rv) p' _ Hn0 Hx0 Hn); [|exact Ed].
      intros ct _. now rewrite Etf. }
    assert (HPhi : Phi (ps st0) < Phi p').
    { pose proof (n_J _ _ _ _ _ _ Hn0) as [_ Hl0 Hc0 _ _].
      assert (Hsh : shrinks O L R (ps st0) r (terms (not_root O r rv))).
      { intros ct _. unfold new_term. rewrite Etf. apply orank_some_lt. }
      exact (Phi_deriv O L R pkgs (ps st0) r 0 _ p' Hl0 Hc0 ltac:(rewrite E0; cbn; lia) Hpk_root Ed Hsh). }
    pose proof (add_derivation_gidx O _ _ _ _ _ Ed) as Eg.
    assert (E00 : next_gidx (ps st0) = 0) by now rewrite E0.
    assert (Hg1 : next_gidx (ps st1) <= Phi (ps st1)) by (cbn [st1 upd_cache upd_ps ps]; lia).
    destruct (up_T O L veqb reg r rv Hat R pkgs fuel st1 [r] Hn1 Hr1 Hx1 ltac:(intros x [<-|[]]; exact Hri) Hg1) as [K1 K2].
    intros Hnp. split.
    - fold st1 in Hnp. destruct (unit_propagation O fuel st1 [r]) as [[st2|st2 id]|e]; try exact I.
      cbn [okup SolverNoPanic2.okup] in Hnp. cbn [okupT] in K1. destruct Hnp as [A1 A2]. destruct K1 as (B1 & B2 & B3 & B4).
      assert (E1p : Phi (ps st1) = Phi p') by reflexivity. assert (E1g : next_gidx (ps st1) = next_gidx p') by reflexivity.
      split; [exact (conj A1 (conj A2 (conj B1 B3)))|split; lia].
    - intros HF. apply K2. pose proof (Phi_lt_Bound O L R pkgs (ps st1)). unfold SolverTerm5.need, Fuel0 in *. cbn [length]. lia.
  Qed.

  Lemma do_prioritize_len cands : forall q (tr : list event) n q' tr' n',
    do_prioritize O cands q tr n = inl (q', tr', n') -> length tr' <= length tr.
  Proof.
    intros q tr n q' tr' n' H. destruct (do_prioritize_count O _ _ _ _ _ _ _ H) as (pre & -> & _). rewrite app_length. lia.
  Qed.

  (* ---------------------------------------------------------------- the main loop *)
  Definition nofuel (o : outcome) : Prop := o <> OOutOfFuel.

  Lemma resolve_loop_T fuel : forall st next added (tr : list event) n log,
    tpre st next -> WellBehaved O reg tr -> Fuel0 + length tr <= fuel ->
    nofuel (fst (fst (fst (resolve_loop O veqb fuel st next added tr n log)))).
  Proof.
    induction fuel as [|fuel IH]; intros st next added tr n log Hpre Hwb Hfuel; [unfold Fuel0 in Hfuel; lia|].
    cbn [resolve_loop]. unfold nofuel.
    destruct tr as [|[ok| | |] tr1]; try discriminate.
    destruct ok; cbn [negb]; [|discriminate]. cbn [length] in Hfuel.
    apply Forall_inv_tail in Hwb.
    destruct (up_entry_T (S fuel) st next Hpre) as [Hup Hupf].
    destruct (unit_propagation O (S fuel) st [next]) as [[st1|st1 id]|[|s0]] eqn:Eup; [| | |discriminate].
    2:{ destruct (build_derivation_tree (store st1) id); discriminate. }
    2:{ exfalso. apply Hupf; [lia|reflexivity]. }
    destruct Hup as [(Hn1 & Hr1 & Hx1 & Hg1) _].
    pose proof (n_J _ _ _ _ _ _ Hn1) as Hj1. pose proof Hj1 as [[Hok1 Hw1] Hl1 Hc1 HK1 _].
    pose proof (do_prioritize_wb O reg (pick_candidates (ps st1)) (queue (ps st1)) tr1 (S n) Hwb) as Hprio.
    destruct (do_prioritize O (pick_candidates (ps st1)) (queue (ps st1)) tr1 (S n)) as [[[q tr2] n2]|o] eqn:Ep;
      [|destruct Hprio as (k' & w & ->); discriminate].
    pose proof (do_prioritize_len _ _ _ _ _ _ _ Ep) as Hlen2.
    pose proof (pick_qpos O veqb _ _ _ _ _ _ Hl1 (pi_qpos _ _ _ _ _ (n_P _ _ _ _ _ _ Hn1)) Ep) as Hq.
    destruct (queue_max q) as [mx|] eqn:Eqm.
    2:{ unfold res_out. destruct (extract_solution (ps st1)); discriminate. }
    destruct tr2 as [|[| |p s ans|] tr3]; try discriminate.
    destruct (get p q) as [[prio qs]|] eqn:Egp; [|discriminate].
    destruct (negb (Z.eqb prio mx)); [discriminate|].
    set (pq := {| next_gidx := next_gidx (ps st1); level := level (ps st1); assignments := asg st1;
                  queue := remove p q; changed := length (asg st1); backtracked := backtracked (ps st1) |}).
    set (st2 := upd_ps st1 pq).
    assert (Hn2 : ninv st2).
    { apply (ninv_queue O L reg r rv st1 pq Hn1); try reflexivity. cbn [pq queue]. intros x e Hx.
      destruct (N.eq_dec p x) as [<-|Hne]; [now rewrite get_remove_same in Hx|].
      rewrite get_remove_other in Hx by assumption. exact (Hq x e Hx). }
    assert (Hr2 : rinv st2) by (exact (rinv_asg O r rv st1 st2 eq_refl Hr1)).
    assert (Hx2 : xinv st2).
    { destruct Hx1 as [X1 X2 X3]. constructor.
      - apply algI_upd_ps; [exact X1|]. exact (psA_same_asg _ _ (ps st1) pq eq_refl (proj2 X1)).
      - exact X2.
      - exact X3. }
    assert (Hg2 : next_gidx (ps st2) <= Phi (ps st2)) by exact Hg1.
    pose proof (n_J _ _ _ _ _ _ Hn2) as Hj2. pose proof Hj2 as [[Hok2 Hw2] Hl2 Hc2 HK2 _].
    assert (Hqn : get p (queue (ps st2)) = None) by (cbn; apply get_remove_same).
    destruct (Hq p _ Egp) as (ap & cur_set & Hgp & Eap).
    assert (Eti : term_for (ps st2) p = Some (Pos cur_set)).
    { unfold term_for. cbn [st2 upd_ps ps pq assignments]. rewrite Hgp. cbn. now rewrite Eap. }
    assert (Hpi : indexed (index st2) p) by exact (n_ixa _ _ _ _ _ _ Hn2 p ap Hgp).
    assert (Hpp : In p pkgs /\ alg R cur_set).
    { destruct (psA_term_for _ _ _ _ _ (proj2 (x_alg _ _ _ _ _ Hx2)) Eti) as [A1 A2]. split; [exact A2|exact A1]. }
    destruct Hpp as [Hpp Hcs].
    pose proof (Forall_inv Hprio) as Hev. apply Forall_inv_tail in Hprio. cbn [length] in Hlen2.
    fold pq. fold st2. rewrite Eti.
    destruct (vs_eqb O s cur_set) eqn:Es; cbn [negb]; [|discriminate].
    apply (vs_eqb_spec O L) in Es. subst s.
    assert (Wcur : wf O L cur_set) by exact (term_for_wf O L _ _ _ Hw2 Eti).
    (* a step that only adds an external incompatibility about [p] *)
    assert (Hadd : forall (inc : incompat) st3,
              ext_ok inc -> as_dependency inc = None -> (forall x, In x (keys (terms inc)) -> x = p) ->
              tsA (terms inc) ->
              add_incompatibility O st2 inc = Good st3 -> tpre st3 p).
    { intros inc st3 Hext Hdep Hkeys Hts Ea. left.
      pose proof (add_incompatibility_ps O _ _ _ Ea) as Eps.
      destruct (add_incompatibility_single O _ _ _ Hdep Ea) as (_ & _ & Est & _).
      assert (Hok3 : full_ok st3).
      { split; [eapply add_incompatibility_ok; [exact Hok2|exact Hext|exact Ea]|]. rewrite Eps. exact Hw2. }
      destruct (add_incompatibility_extra O L reg r rv st2 inc st3 Hok2 Hext (n_any _ _ _ _ _ _ Hn2) (n_ix _ _ _ _ _ _ Hn2) Ea)
        as (Hna3 & Hix3 & Hmono).
      split; [|now apply Hmono].
      split; [|split; [exact (rinv_asg O r rv st2 st3 ltac:(now rewrite Eps) Hr2)|split]].
      - apply (ninv_store O L reg r rv st2 st3 Hn2 Eps); [eauto|exact Hok3|exact Hna3|exact Hix3|exact Hmono|].
        intros E0. rewrite Eps in E0 |- *. destruct (n_Z _ _ _ _ _ _ Hn2 E0) as [Hb Hk]. split; [exact Hb|]. rewrite Est.
        intros ci Hci x Hx. apply in_app_or in Hci. destruct Hci as [Hci|[<-|[]]]; [exact (Hk ci Hci x Hx)|].
        rewrite (Hkeys x Hx).
        pose proof (pi_first _ _ _ _ _ (n_P _ _ _ _ _ _ Hn2) p ap Hgp) as Hf. unfold pa_first in Hf.
        destruct (derivs ap) as [|d rest] eqn:Edr; [destruct Hf|].
        assert (Hevt : evt ap (d_gidx d) (d_level d)) by (left; exists d; rewrite Edr; split; [now left|auto]).
        pose proof (layout_evt_level _ _ _ _ _ Hl2 Hgp Hevt) as Hle.
        apply (pi_lev0 _ _ _ _ _ (n_P _ _ _ _ _ _ Hn2) p ap (d_gidx d) Hgp). replace 0 with (d_level d) by lia. exact Hevt.
      - destruct Hx2 as [X1 X2 X3]. constructor; rewrite ?Eps; [|exact X2|exact X3].
        exact (algI_add_incompatibility O (alg R) Ae Ac Ai Au Heqb pkgs st2 inc st3 X1 Hts Ea).
      - rewrite Eps. exact Hg2. }
    (* deciding [p] *)
    assert (Hdecide : forall v, t_contains O (Pos cur_set) v = true -> alg R (vs_singleton O v) ->
              forall p', add_decision O (ps st2) p v = Good p' ->
                ninv (upd_ps st2 p') /\ rinv (upd_ps st2 p') /\ psA p' /\ NE p' /\ ginj p' /\ next_gidx p' <= Phi p').
    { intros v Hc Hv p' Ed.
      assert (A1 : ninv (upd_ps st2 p')).
      { apply (ninv_decide O L reg r rv st2 p v p' cur_set Hn2 Eti Hqn); [|exact Ed].
        intros _ ->. exact (root_version O L reg r rv st2 cur_set v Hn2 Hr2 Eti Hc). }
      destruct Hx2 as [X1 X2 X3].
      pose proof (algI_decide O (alg R) pkgs st2 p v p' Hl2 X1 Hv Ed) as A3.
      assert (A4 : NE p') by exact (decide_ne O L _ _ _ _ Hl2 X2 Ed).
      assert (A5 : ginj p') by exact (ginj_add_decision O _ _ _ _ Hl2 HK2 X3 Ed).
      split; [exact A1|]. split; [exact (rinv_decide O L reg r rv st2 p v p' Hj2 Ed Hr2)|].
      split; [exact (proj2 A3)|]. split; [exact A4|]. split; [exact A5|].
      assert (Hx' : xinv (upd_ps st2 p')) by (constructor; assumption).
      pose proof (level_le_P O L reg r rv R pkgs _ A1 Hx') as HP. cbn [upd_ps ps] in HP.
      rewrite (add_decision_level O _ _ _ _ Ed) in HP.
      pose proof (Phi_decision O L R pkgs (ps st2) p v p' Hl2 HP Ed) as HPhi.
      rewrite (add_decision_gidx O _ _ _ _ Ed). lia. }
    assert (Hfuel3 : Fuel0 + length tr3 <= fuel) by lia.
    destruct ans as [v| |]; [| |discriminate].
    - (* a version was chosen *)
      destruct (t_contains O (Pos cur_set) v) eqn:Hcv; cbn [negb]; [|discriminate].
      cbn in Hev. pose proof (Halg_ver p v Hev) as Hv.
      pose proof (Hdecide v Hcv Hv) as Hdd.
      destruct (added_has veqb added p v) eqn:Eah.
      + unfold res_out. destruct (add_decision O (ps st2) p v) as [pd|] eqn:Edd; [|discriminate].
        apply IH; [|exact Hprio|exact Hfuel3]. left. destruct (Hdd pd eq_refl) as (A1 & A2 & A3 & A4 & A5 & A6).
        split; [|exact Hpi]. split; [exact A1|]. split; [exact A2|]. split; [|exact A6].
        constructor; [apply algI_upd_ps; [exact (x_alg _ _ _ _ _ Hx2)|exact A3]|exact A4|exact A5].
      + destruct tr3 as [|[| | |p0 v0 dans] tr4]; try discriminate.
        destruct (N.eqb_spec p p0) as [<-|]; cbn [andb negb]; [|discriminate].
        destruct (veqb v v0) eqn:Ev; cbn [negb]; [|discriminate].
        apply veqb_eq in Ev. subst v0.
        pose proof (Forall_inv Hprio) as Hev2. apply Forall_inv_tail in Hprio.
        cbn [length] in Hfuel3. assert (Hfuel4 : Fuel0 + length tr4 <= fuel) by lia.
        destruct dans as [deps|m|]; [| |discriminate].
        * (* dependencies available *)
          cbn in Hev2. destruct Hev2 as (ds' & Hd & Hiff).
          assert (Hdeps : forall qd sd, In (qd, sd) deps -> wf O L sd /\ declares O reg p (vs_singleton O v) qd sd).
          { intros qd sd Hin. apply Hiff in Hin. split; [exact (Hregwf _ _ _ _ _ Hd Hin)|].
            eapply declares_singleton; eauto. }
          destruct (add_incompatibility_from_dependencies O st2 p v deps) as [[st3 range]|] eqn:Ea; [|discriminate].
          unfold res_out at 1. cbv beta iota.
          pose proof (add_from_dependencies_ps O _ _ _ _ _ _ Ea) as Eps.
          assert (Hok3 : full_ok st3).
          { split; [eapply add_from_dependencies_ok; [exact Hok2|exact Hdeps|exact Ea]|rewrite Eps; exact Hw2]. }
          destruct (add_from_dependencies_step O L reg r rv _ _ _ _ _ _ Hok2 Hdeps Ea) as ((_ & _ & (extra & Est & _) & _) & _ & _).
          destruct (add_from_dependencies_extra O L reg r rv st2 p v deps Hok2 Hdeps st3 range
                      (n_any _ _ _ _ _ _ Hn2) (n_ix _ _ _ _ _ _ Hn2) Ea) as (Hna3 & Hix3 & Hmono).
          assert (Halg3 : algI st3).
          { apply (algI_add_from_deps O (alg R) Ae Ac Ai Au Heqb pkgs st2 p v deps st3 range (x_alg _ _ _ _ _ Hx2) Hv Hpp); [|exact Ea].
            intros d sd Hin. apply Hiff in Hin. split; [exact (Halg_deps _ _ _ _ _ Hd Hin)|exact (Hpk_deps _ _ _ _ _ Hd Hin)]. }
          (* whatever partial solution results, the state extends the one over [st2] *)
          assert (Hext : forall p', ninv (upd_ps st2 p') -> rinv (upd_ps st2 p') -> ps_wf p' ->
                           (level p' = 0 -> False) -> psA p' -> NE p' -> ginj p' -> next_gidx p' <= Phi p' ->
                           tpre (upd_ps st3 p') p).
          { intros p' Hn' Hr' Hw' Hlv B1 B2 B3 B4. left. split; [|cbn [upd_ps index]; now apply Hmono].
            split; [|split; [exact (rinv_asg O r rv (upd_ps st2 p') (upd_ps st3 p') eq_refl Hr')|split; [|exact B4]]].
            - apply (ninv_store O L reg r rv (upd_ps st2 p') (upd_ps st3 p') Hn'); [reflexivity|cbn [upd_ps store]; eauto| | | | |].
              + now apply (full_ok_upd_ps O L).
              + exact Hna3.
              + exact Hix3.
              + exact Hmono.
              + intros E0. cbn [upd_ps ps] in E0. destruct (Hlv E0).
            - constructor; [apply algI_upd_ps; [exact Halg3|exact B1]|exact B2|exact B3]. }
          assert (HA : forall p', add_decision O (ps st3) p v = Good p' -> tpre (upd_ps st3 p') p).
          { intros p' Ed. rewrite Eps in Ed. destruct (Hdd p' Ed) as (A1 & A2 & A3 & A4 & A5 & A6).
            apply Hext; try assumption.
            - eapply add_decision_wf; [exact Hw2|exact Ed].
            - intros E0. rewrite (add_decision_level O _ _ _ _ Ed) in E0. discriminate. }
          unfold add_version. destruct (negb (backtracked (ps st3))) eqn:Ebt.
          -- unfold res_out. destruct (add_decision O (ps st3) p v) as [pd3|] eqn:Edd3; [|discriminate].
             apply IH; [exact (HA pd3 eq_refl)|exact Hprio|exact Hfuel4].
          -- destruct (forallb _ _).
             ++ unfold res_out. destruct (add_decision O (ps st3) p v) as [pd3|] eqn:Edd3; [|discriminate].
                apply IH; [exact (HA pd3 eq_refl)|exact Hprio|exact Hfuel4].
             ++ unfold res_out. apply IH; [|exact Hprio|exact Hfuel4]. rewrite Eps.
                assert (Eu : upd_ps st2 (ps st2) = st2) by reflexivity.
                destruct Hx2 as [X1 X2 X3].
                apply Hext; [rewrite Eu; exact Hn2|rewrite Eu; exact Hr2|exact Hw2| |exact (proj2 X1)|exact X2|exact X3|exact Hg2].
                intros E0. destruct (n_Z _ _ _ _ _ _ Hn2 E0) as [Hb _]. rewrite Eps in Ebt. rewrite Hb in Ebt. discriminate.
        * (* dependencies unavailable *)
          cbn in Hev2.
          assert (Hext : ext_ok (custom_version O p v m)).
          { unfold SolverStore.ext_ok. cbn [ikind custom_version]. split; [reflexivity|]. exists v. split; [reflexivity|exact Hev2]. }
          unfold res_out. destruct (add_incompatibility O st2 (custom_version O p v m)) as [st3|] eqn:Ea; [|discriminate].
          apply IH; [|exact Hprio|exact Hfuel4].
          apply (Hadd _ st3 Hext eq_refl); [| |exact Ea].
          -- intros x [<-|[]]. reflexivity.
          -- now apply tsA_custom.
    - (* no version: the NoVersions incompatibility *)
      cbn [no_versions]. cbn in Hev.
      assert (Hext : ext_ok {| terms := [(p, Pos cur_set)]; ikind := KNoVersions p cur_set |}).
      { unfold SolverStore.ext_ok. cbn [ikind]. split; [reflexivity|]. split; [exact Wcur|exact Hev]. }
      unfold res_out. destruct (add_incompatibility O st2 _) as [st3|] eqn:Ea; [|discriminate].
      apply IH; [|exact Hprio|exact Hfuel3].
      apply (Hadd _ st3 Hext eq_refl); [| |exact Ea].
      + intros x [<-|[]]. reflexivity.
      + now apply tsA_no_versions.
  Qed.

  (* ---------------------------------------------------------------- theorems *)
  (* T1: the model does not run out of fuel *)
  Theorem resolve_no_fuel_exhaustion fuel (tr : list event) o st log cnt :
    WellBehaved O reg tr -> Fuel0 + length tr <= fuel ->
    resolve O veqb fuel r rv tr = (o, st, log, cnt) -> o <> OOutOfFuel.
  Proof.
    intros Hwb Hf E. pose proof (resolve_loop_T fuel (state_init O r rv) r [] tr 0 [] (or_intror (conj eq_refl eq_refl)) Hwb Hf) as H.
    unfold resolve in E. rewrite E in H. exact H.
  Qed.

  (* ---------------------------------------------------------------- T2: the number of provider events *)
  Notation aux := (aux O L).

  (* the package the loop re-propagates has a trigger *)
  Definition Trig (st : state) (next : pkg) : Prop :=
    exists id, In id (index_get next (index st)) /\ trig O st next id.
  (* distance of the potential from its bound *)
  Definition Dg (st : state) : nat := Bound - Phi (ps st).
  (* [k] iterations of the main loop suffice from [st]: every iteration increases the potential, except one
     that ends without a decision -- and then the next one starts from a trigger *)
  Definition Bud (st : state) (next : pkg) (k : nat) : Prop :=
    2 * Dg st + 1 <= k \/ (Trig st next /\ 2 * Dg st <= k).
  (* provider events of one iteration: should_cancel, the prioritize calls, choose_version, get_dependencies *)
  Definition Ev1 : nat := Pn pkgs + 3.

  Lemma asg_len_le st : ninv st -> xinv st -> length (asg st) <= Pn pkgs.
  Proof.
    intros Hn [[_ Hp] _ _]. pose proof (n_J _ _ _ _ _ _ Hn) as [_ Hl _ _ _]. pose proof (lay_keys _ Hl) as H2.
    assert (incl (keys (asg st)) pkgs).
    { intros x Hx. destruct (get x (asg st)) as [a|] eqn:E; [exact (proj1 (Hp x a E))|]. apply get_None in E. contradiction. }
    pose proof (NoDup_incl_length H2 H) as H3. unfold keys in H3. rewrite map_length in H3. exact H3.
  Qed.

  Lemma resolve_loop_T2 fuel : forall st next added (tr : list event) n log k,
    tpre st next -> aux st -> WellBehaved O reg tr -> Bud st next k ->
    snd (resolve_loop O veqb fuel st next added tr n log) <= n + Ev1 * k
    /\ (Fuel0 + k <= fuel -> nofuel (fst (fst (fst (resolve_loop O veqb fuel st next added tr n log))))).
  Proof.
    induction fuel as [|fuel IH]; intros st next added tr n log k Hpre Hax Hwb Hbud.
    { cbn [resolve_loop snd]. split; [lia|unfold Fuel0; lia]. }
    assert (HEv : Ev1 = Pn pkgs + 3) by reflexivity.
    pose proof (Phi_lt_Bound O L R pkgs (ps st)) as HB0.
    assert (Hk : 1 <= k) by (destruct Hbud as [H|[_ H]]; unfold Dg in H; lia).
    destruct k as [|k]; [lia|]. clear Hk. rewrite Nat.mul_succ_r.
    cbn [resolve_loop]. unfold nofuel.
    destruct tr as [|[ok| | |] tr1]; try (split; [cbn [snd]; lia|intros _; cbn [fst]; discriminate]).
    destruct ok; cbn [negb]; [|split; [cbn [snd]; lia|intros _; cbn [fst]; discriminate]].
    apply Forall_inv_tail in Hwb.
    destruct (up_entry_T (S fuel) st next Hpre) as [Hup Hupf].
    pose proof (unit_propagation_aux O L veqb (S fuel) st [next] Hax) as Hax1.
    pose proof (up_trig_g O L (S fuel) st next) as Hutg.
    destruct (unit_propagation O (S fuel) st [next]) as [[st1|st1 id]|[|s0]] eqn:Eup;
      [| | |split; [cbn [snd]; lia|intros _; cbn [fst]; discriminate]].
    2:{ destruct (build_derivation_tree (store st1) id); split; try (cbn [snd]; lia); intros _; cbn [fst]; discriminate. }
    2:{ split; [cbn [snd]; lia|]. intros Hf. exfalso. apply Hupf; [lia|reflexivity]. }
    destruct Hup as ((Hn1 & Hr1 & Hx1 & Hg1) & HP1 & HP2).
    pose proof (Phi_lt_Bound O L R pkgs (ps st1)) as HB1.
    (* the budget after unit propagation *)
    assert (Hb1 : 2 * Dg st1 <= k).
    { destruct Hbud as [H|[(id & Hin & Ht) H]]; unfold Dg in *; [lia|].
      pose proof (Hutg st1 id Hax Hin Ht eq_refl). lia. }
    clear Hutg.
    pose proof (n_J _ _ _ _ _ _ Hn1) as Hj1. pose proof Hj1 as [[Hok1 Hw1] Hl1 Hc1 HK1 _].
    pose proof (do_prioritize_wb O reg (pick_candidates (ps st1)) (queue (ps st1)) tr1 (S n) Hwb) as Hprio.
    destruct (do_prioritize O (pick_candidates (ps st1)) (queue (ps st1)) tr1 (S n)) as [[[q tr2] n2]|o] eqn:Ep;
      [|destruct Hprio as (k' & w & ->); split; [cbn [snd]; lia|intros _; cbn [fst]; discriminate]].
    pose proof (do_prioritize_n O _ _ _ _ _ _ _ Ep) as En2.
    pose proof (pick_candidates_len (ps st1)) as Hpc. pose proof (asg_len_le st1 Hn1 Hx1) as Hal.
    pose proof (pick_qpos O veqb _ _ _ _ _ _ Hl1 (pi_qpos _ _ _ _ _ (n_P _ _ _ _ _ _ Hn1)) Ep) as Hq.
    destruct (queue_max q) as [mx|] eqn:Eqm.
    2:{ unfold res_out. destruct (extract_solution (ps st1)); split; try (cbn [snd]; lia); intros _; cbn [fst]; discriminate. }
    destruct tr2 as [|[| |p s ans|] tr3]; try (split; [cbn [snd]; lia|intros _; cbn [fst]; discriminate]).
    destruct (get p q) as [[prio qs]|] eqn:Egp; [|split; [cbn [snd]; lia|intros _; cbn [fst]; discriminate]].
    destruct (negb (Z.eqb prio mx)); [split; [cbn [snd]; lia|intros _; cbn [fst]; discriminate]|].
    set (pq := {| next_gidx := next_gidx (ps st1); level := level (ps st1); assignments := asg st1;
                  queue := remove p q; changed := length (asg st1); backtracked := backtracked (ps st1) |}).
    set (st2 := upd_ps st1 pq).
    assert (Hn2 : ninv st2).
    { apply (ninv_queue O L reg r rv st1 pq Hn1); try reflexivity. cbn [pq queue]. intros x e Hx.
      destruct (N.eq_dec p x) as [<-|Hne]; [now rewrite get_remove_same in Hx|].
      rewrite get_remove_other in Hx by assumption. exact (Hq x e Hx). }
    assert (Hr2 : rinv st2) by (exact (rinv_asg O r rv st1 st2 eq_refl Hr1)).
    assert (Hx2 : xinv st2).
    { destruct Hx1 as [X1 X2 X3]. constructor.
      - apply algI_upd_ps; [exact X1|]. exact (psA_same_asg _ _ (ps st1) pq eq_refl (proj2 X1)).
      - exact X2.
      - exact X3. }
    assert (Hg2 : next_gidx (ps st2) <= Phi (ps st2)) by exact Hg1.
    assert (Hax2 : aux st2) by (destruct Hax1 as (A1 & A2 & A3); split; [exact A1|split; [exact A2|exact A3]]).
    assert (ED2 : Dg st2 = Dg st1) by reflexivity.
    pose proof (n_J _ _ _ _ _ _ Hn2) as Hj2. pose proof Hj2 as [[Hok2 Hw2] Hl2 Hc2 HK2 _].
    assert (Hqn : get p (queue (ps st2)) = None) by (cbn; apply get_remove_same).
    destruct (Hq p _ Egp) as (ap & cur_set & Hgp & Eap).
    assert (Eti : term_for (ps st2) p = Some (Pos cur_set)).
    { unfold term_for. cbn [st2 upd_ps ps pq assignments]. rewrite Hgp. cbn. now rewrite Eap. }
    assert (Hpi : indexed (index st2) p) by exact (n_ixa _ _ _ _ _ _ Hn2 p ap Hgp).
    assert (Hpp : In p pkgs /\ alg R cur_set).
    { destruct (psA_term_for _ _ _ _ _ (proj2 (x_alg _ _ _ _ _ Hx2)) Eti) as [A1 A2]. split; [exact A2|exact A1]. }
    destruct Hpp as [Hpp Hcs].
    pose proof (Forall_inv Hprio) as Hev. apply Forall_inv_tail in Hprio.
    fold pq. fold st2. rewrite Eti.
    destruct (vs_eqb O s cur_set) eqn:Es; cbn [negb]; [|split; [cbn [snd]; lia|intros _; cbn [fst]; discriminate]].
    apply (vs_eqb_spec O L) in Es. subst s.
    assert (Wcur : wf O L cur_set) by exact (term_for_wf O L _ _ _ Hw2 Eti).
    (* a step that only adds an external incompatibility about [p]: the next propagation starts from a trigger *)
    assert (Hadd : forall (inc : incompat) st3 S,
              ext_ok inc -> as_dependency inc = None -> terms inc = [(p, Pos S)] -> wf O L S ->
              (t_relation_with O (Pos S) (Pos cur_set) <> Contradicted) ->
              tsA (terms inc) ->
              add_incompatibility O st2 inc = Good st3 -> tpre st3 p /\ aux st3 /\ Bud st3 p k).
    { intros inc st3 S Hext Hdep Hterms WS Hnc Hts Ea.
      assert (Hkeys : forall x, In x (keys (terms inc)) -> x = p) by (rewrite Hterms; intros x [<-|[]]; reflexivity).
      pose proof (add_incompatibility_ps O _ _ _ Ea) as Eps.
      destruct (add_incompatibility_single O _ _ _ Hdep Ea) as (_ & _ & Est & _).
      assert (Hok3 : full_ok st3).
      { split; [eapply add_incompatibility_ok; [exact Hok2|exact Hext|exact Ea]|]. rewrite Eps. exact Hw2. }
      destruct (add_incompatibility_extra O L reg r rv st2 inc st3 Hok2 Hext (n_any _ _ _ _ _ _ Hn2) (n_ix _ _ _ _ _ _ Hn2) Ea)
        as (Hna3 & Hix3 & Hmono).
      split; [|split].
      - left. split; [|now apply Hmono].
        split; [|split; [exact (rinv_asg O r rv st2 st3 ltac:(now rewrite Eps) Hr2)|split]].
        + apply (ninv_store O L reg r rv st2 st3 Hn2 Eps); [eauto|exact Hok3|exact Hna3|exact Hix3|exact Hmono|].
          intros E0. rewrite Eps in E0 |- *. destruct (n_Z _ _ _ _ _ _ Hn2 E0) as [Hb Hk]. split; [exact Hb|]. rewrite Est.
          intros ci Hci x Hx. apply in_app_or in Hci. destruct Hci as [Hci|[<-|[]]]; [exact (Hk ci Hci x Hx)|].
          rewrite (Hkeys x Hx).
          pose proof (pi_first _ _ _ _ _ (n_P _ _ _ _ _ _ Hn2) p ap Hgp) as Hf. unfold pa_first in Hf.
          destruct (derivs ap) as [|d rest] eqn:Edr; [destruct Hf|].
          assert (Hevt : evt ap (d_gidx d) (d_level d)) by (left; exists d; rewrite Edr; split; [now left|auto]).
          pose proof (layout_evt_level _ _ _ _ _ Hl2 Hgp Hevt) as Hle.
          apply (pi_lev0 _ _ _ _ _ (n_P _ _ _ _ _ _ Hn2) p ap (d_gidx d) Hgp). replace 0 with (d_level d) by lia. exact Hevt.
        + destruct Hx2 as [X1 X2 X3]. constructor; rewrite ?Eps; [|exact X2|exact X3].
          exact (algI_add_incompatibility O (alg R) Ae Ac Ai Au Heqb pkgs st2 inc st3 X1 Hts Ea).
        + rewrite Eps. exact Hg2.
      - eapply add_incompatibility_aux; [exact Hax2| |exact Ea]. rewrite Hterms. constructor; [exact WS|constructor].
      - right. split.
        + apply (single_trig O L st2 inc st3 p S Hax2 Hdep Hterms); [|exact Ea].
          intros o Ho. rewrite Eti in Ho. injection Ho as <-. exact Hnc.
        + unfold Dg. rewrite Eps. fold (Dg st2). lia. }
    (* deciding [p] *)
    assert (Hdecide : forall v, t_contains O (Pos cur_set) v = true -> alg R (vs_singleton O v) ->
              forall p', add_decision O (ps st2) p v = Good p' ->
                ninv (upd_ps st2 p') /\ rinv (upd_ps st2 p') /\ psA p' /\ NE p' /\ ginj p' /\ next_gidx p' <= Phi p'
                /\ Phi (ps st2) < Phi p' /\ ps_wf p').
    { intros v Hc Hv p' Ed.
      assert (A1 : ninv (upd_ps st2 p')).
      { apply (ninv_decide O L reg r rv st2 p v p' cur_set Hn2 Eti Hqn); [|exact Ed].
        intros _ ->. exact (root_version O L reg r rv st2 cur_set v Hn2 Hr2 Eti Hc). }
      destruct Hx2 as [X1 X2 X3].
      pose proof (algI_decide O (alg R) pkgs st2 p v p' Hl2 X1 Hv Ed) as A3.
      assert (A4 : NE p') by exact (decide_ne O L _ _ _ _ Hl2 X2 Ed).
      assert (A5 : ginj p') by exact (ginj_add_decision O _ _ _ _ Hl2 HK2 X3 Ed).
      split; [exact A1|]. split; [exact (rinv_decide O L reg r rv st2 p v p' Hj2 Ed Hr2)|].
      split; [exact (proj2 A3)|]. split; [exact A4|]. split; [exact A5|].
      assert (Hx' : xinv (upd_ps st2 p')) by (constructor; assumption).
      pose proof (level_le_P O L reg r rv R pkgs _ A1 Hx') as HP. cbn [upd_ps ps] in HP.
      rewrite (add_decision_level O _ _ _ _ Ed) in HP.
      pose proof (Phi_decision O L R pkgs (ps st2) p v p' Hl2 HP Ed) as HPhi.
      rewrite (add_decision_gidx O _ _ _ _ Ed). split; [lia|]. split; [exact HPhi|].
      eapply add_decision_wf; [exact Hw2|exact Ed]. }
    (* a decision leaves enough budget *)
    assert (Hbudd : forall (stx : state) p', ps stx = p' -> Phi (ps st2) < Phi p' -> Bud stx p k).
    { intros stx p' E HPhi. left. unfold Dg in *. rewrite E. pose proof (Phi_lt_Bound O L R pkgs p'). 
      change (Phi (ps st2)) with (Phi (ps st1)) in HPhi. lia. }
    (* combining the results of the recursive call *)
    assert (Hrec : forall st' n' tr' added',
              n' <= n + Ev1 -> tpre st' p -> aux st' -> WellBehaved O reg tr' -> Bud st' p k ->
              snd (resolve_loop O veqb fuel st' p added' tr' n' (log ++ [(undecided_positive (ps st1), q, n2)])) <= n + (Ev1 * k + Ev1)
              /\ (Fuel0 + S k <= S fuel ->
                  fst (fst (fst (resolve_loop O veqb fuel st' p added' tr' n' (log ++ [(undecided_positive (ps st1), q, n2)])))) <> OOutOfFuel)).
    { intros st' n' tr' added' Hn' Hp' Ha' Hw' Hb'. destruct (IH st' p added' tr' n' (log ++ [(undecided_positive (ps st1), q, n2)]) k Hp' Ha' Hw' Hb') as [I1 I2].
      split; [lia|]. intros Hf. apply I2. lia. }
    destruct ans as [v| |]; [| |split; [cbn [snd]; lia|intros _; cbn [fst]; discriminate]].
    - (* a version was chosen *)
      destruct (t_contains O (Pos cur_set) v) eqn:Hcv; cbn [negb]; [|split; [cbn [snd]; lia|intros _; cbn [fst]; discriminate]].
      cbn in Hev. pose proof (Halg_ver p v Hev) as Hv.
      pose proof (Hdecide v Hcv Hv) as Hdd.
      destruct (added_has veqb added p v) eqn:Eah.
      + unfold res_out. destruct (add_decision O (ps st2) p v) as [pd|] eqn:Edd;
          [|split; [cbn [snd]; lia|intros _; cbn [fst]; discriminate]].
        destruct (Hdd pd eq_refl) as (A1 & A2 & A3 & A4 & A5 & A6 & A7 & A8).
        apply Hrec; [lia| | |exact Hprio|exact (Hbudd (upd_ps st2 pd) pd eq_refl A7)].
        * left. split; [|exact Hpi]. split; [exact A1|]. split; [exact A2|]. split; [|exact A6].
          constructor; [apply algI_upd_ps; [exact (x_alg _ _ _ _ _ Hx2)|exact A3]|exact A4|exact A5].
        * destruct Hax2 as (B1 & B2 & B3). split; [exact A8|split; [exact B2|exact B3]].
      + destruct tr3 as [|[| | |p0 v0 dans] tr4]; try (split; [cbn [snd]; lia|intros _; cbn [fst]; discriminate]).
        destruct (N.eqb_spec p p0) as [<-|]; cbn [andb negb]; [|split; [cbn [snd]; lia|intros _; cbn [fst]; discriminate]].
        destruct (veqb v v0) eqn:Ev; cbn [negb]; [|split; [cbn [snd]; lia|intros _; cbn [fst]; discriminate]].
        apply veqb_eq in Ev. subst v0.
        pose proof (Forall_inv Hprio) as Hev2. apply Forall_inv_tail in Hprio.
        destruct dans as [deps|m|]; [| |split; [cbn [snd]; lia|intros _; cbn [fst]; discriminate]].
        * (* dependencies available *)
          cbn in Hev2. destruct Hev2 as (ds' & Hd & Hiff).
          assert (Hdeps : forall qd sd, In (qd, sd) deps -> wf O L sd /\ declares O reg p (vs_singleton O v) qd sd).
          { intros qd sd Hin. apply Hiff in Hin. split; [exact (Hregwf _ _ _ _ _ Hd Hin)|].
            eapply declares_singleton; eauto. }
          assert (Hwd : Forall (fun dep : pkg * VS => wf O L (snd dep)) deps).
          { apply Forall_forall. intros [qd sd] Hin. exact (proj1 (Hdeps qd sd Hin)). }
          destruct (add_incompatibility_from_dependencies O st2 p v deps) as [[st3 range]|] eqn:Ea;
            [|unfold res_out; split; [cbn [snd]; lia|intros _; cbn [fst]; discriminate]].
          unfold res_out at 1 3. cbv beta iota.
          pose proof (add_from_dependencies_ps O _ _ _ _ _ _ Ea) as Eps.
          assert (Hok3 : full_ok st3).
          { split; [eapply add_from_dependencies_ok; [exact Hok2|exact Hdeps|exact Ea]|rewrite Eps; exact Hw2]. }
          destruct (add_from_dependencies_extra O L reg r rv st2 p v deps Hok2 Hdeps st3 range
                      (n_any _ _ _ _ _ _ Hn2) (n_ix _ _ _ _ _ _ Hn2) Ea) as (Hna3 & Hix3 & Hmono).
          destruct (add_from_deps_trig O L _ _ _ _ _ _ Hax2 Hwd Ea) as (Hax3 & _ & C3 & (ex & X3) & Erange & Htr).
          assert (Halg3 : algI st3).
          { apply (algI_add_from_deps O (alg R) Ae Ac Ai Au Heqb pkgs st2 p v deps st3 range (x_alg _ _ _ _ _ Hx2) Hv Hpp); [|exact Ea].
            intros d sd Hin. apply Hiff in Hin. split; [exact (Halg_deps _ _ _ _ _ Hd Hin)|exact (Hpk_deps _ _ _ _ _ Hd Hin)]. }
          (* whatever partial solution results, the state extends the one over [st2] *)
          assert (Hext : forall p', ninv (upd_ps st2 p') -> rinv (upd_ps st2 p') -> ps_wf p' ->
                           (level p' = 0 -> False) -> psA p' -> NE p' -> ginj p' -> next_gidx p' <= Phi p' ->
                           tpre (upd_ps st3 p') p /\ aux (upd_ps st3 p')).
          { intros p' Hn' Hr' Hw' Hlv B1 B2 B3 B4. split.
            - left. split; [|cbn [upd_ps index]; now apply Hmono].
              split; [|split; [exact (rinv_asg O r rv (upd_ps st2 p') (upd_ps st3 p') eq_refl Hr')|split; [|exact B4]]].
              + apply (ninv_store O L reg r rv (upd_ps st2 p') (upd_ps st3 p') Hn'); [reflexivity|cbn [upd_ps store]; exists (map (from_dependency O p (vs_singleton O v)) deps ++ ex); exact X3| | | | |].
                * now apply (full_ok_upd_ps O L).
                * exact Hna3.
                * exact Hix3.
                * exact Hmono.
                * intros E0. cbn [upd_ps ps] in E0. destruct (Hlv E0).
              + constructor; [apply algI_upd_ps; [exact Halg3|exact B1]|exact B2|exact B3].
            - destruct Hax3 as (_ & C2 & C4). split; [exact Hw'|split; [exact C2|exact C4]]. }
          destruct (add_version O (ps st3) p v range (store st3)) as [pn|] eqn:Eav;
            [|unfold res_out; split; [cbn [snd]; lia|intros _; cbn [fst]; discriminate]].
          unfold res_out.
          rewrite Eps in Eav. destruct (add_version_cases O _ _ _ _ _ _ Eav) as [Ed|(-> & i & Hi & Hrel)].
          -- destruct (Hdd pn Ed) as (A1 & A2 & A3 & A4 & A5 & A6 & A7 & A8).
             destruct (Hext pn A1 A2 A8) as [T1 T2]; try assumption.
             { intros E0. rewrite (add_decision_level O _ _ _ _ Ed) in E0. discriminate. }
             apply Hrec; [lia|exact T1|exact T2|exact Hprio|exact (Hbudd (upd_ps st3 pn) pn eq_refl A7)].
          -- (* the decision is skipped: one of the new dependencies is already violated *)
             assert (Eu : upd_ps st2 (ps st2) = st2) by reflexivity.
             destruct Hx2 as [X1 X2 X3'].
             destruct (Hext (ps st2)) as [T1 T2]; [rewrite Eu; exact Hn2|rewrite Eu; exact Hr2|exact Hw2| |exact (proj2 X1)|exact X2|exact X3'|exact Hg2|].
             { intros E0. destruct (n_Z _ _ _ _ _ _ Hn2 E0) as [Hb _].
               unfold add_version in Eav. rewrite Hb in Eav. cbn [negb] in Eav.
               destruct (Hdd _ Eav) as (_ & _ & _ & _ & _ & _ & A7 & _). lia. }
             apply Hrec; [lia|exact T1|exact T2|exact Hprio|].
             right. split; [|unfold Dg in *; cbn [upd_ps ps]; lia].
             rewrite Erange in Hi. cbn [fst snd] in Hi. rewrite X3 in Hi. rewrite skipn_app, skipn_all, Nat.sub_diag in Hi. cbn [skipn app] in Hi.
             replace (length (store st2) + length deps - length (store st2)) with (length (map (from_dependency O p (vs_singleton O v)) deps)) in Hi
               by (rewrite map_length; lia).
             rewrite firstn_app, firstn_all, Nat.sub_diag in Hi. cbn [firstn] in Hi. rewrite app_nil_r in Hi.
             apply in_map_iff in Hi. destruct Hi as ([d sd] & <- & Hin).
             destruct (Htr d sd Hin) as (id & S & Hb & Hix & Hst & WS & HS).
             assert (Wd : wf O L sd) by (exact (proj1 (Hdeps d sd Hin))).
             exists id. split; [exact Hix|]. split; cbn [contradicted upd_ps store ps].
             ++ rewrite C3. eapply not_cached; [exact (proj2 (proj2 Hax2))|exact Hb].
             ++ eexists. split; [exact Hst|]. cbn in Hcv. exact (dep_almost O L veqb (ps st2) p S d sd cur_set v WS Wd Wcur HS Hcv Eti Hrel).
        * (* dependencies unavailable *)
          cbn in Hev2.
          assert (Hext : ext_ok (custom_version O p v m)).
          { unfold SolverStore.ext_ok. cbn [ikind custom_version]. split; [reflexivity|]. exists v. split; [reflexivity|exact Hev2]. }
          unfold res_out. destruct (add_incompatibility O st2 (custom_version O p v m)) as [st3|] eqn:Ea;
            [|split; [cbn [snd]; lia|intros _; cbn [fst]; discriminate]].
          destruct (Hadd _ st3 (vs_singleton O v) Hext eq_refl eq_refl (wf_singleton O L v)) as (T1 & T2 & T3); [| |exact Ea|].
          -- cbn in Hcv. apply (pos_pos_not_contra O L _ cur_set v); try assumption; [apply (wf_singleton O L)|now apply (contains_singleton O L)].
          -- now apply tsA_custom.
          -- apply Hrec; [lia|exact T1|exact T2|exact Hprio|exact T3].
    - (* no version: the NoVersions incompatibility *)
      cbn [no_versions]. cbn in Hev.
      assert (Hext : ext_ok {| terms := [(p, Pos cur_set)]; ikind := KNoVersions p cur_set |}).
      { unfold SolverStore.ext_ok. cbn [ikind]. split; [reflexivity|]. split; [exact Wcur|exact Hev]. }
      unfold res_out. destruct (add_incompatibility O st2 _) as [st3|] eqn:Ea;
        [|split; [cbn [snd]; lia|intros _; cbn [fst]; discriminate]].
      destruct (Hadd _ st3 cur_set Hext eq_refl eq_refl Wcur) as (T1 & T2 & T3); [| |exact Ea|].
      + unfold t_relation_with. cbn [t_subset_of]. rewrite (subset_refl O L cur_set Wcur). discriminate.
      + now apply tsA_no_versions.
      + apply Hrec; [lia|exact T1|exact T2|exact Hprio|exact T3].
  Qed.

  (* the number of iterations of the main loop, and of provider events, of any run *)
  Definition Iter0 : nat := 2 * Bound + 1.
  Definition Events0 : nat := Ev1 * Iter0.
  (* the fuel that suffices for every well-behaved trace *)
  Definition Fuel1 : nat := Fuel0 + Iter0.

  Lemma aux_init : aux (state_init O r rv).
  Proof. exact (proj1 (state_init_Inv O L r rv)). Qed.

  Lemma bud_init : Bud (state_init O r rv) r Iter0.
  Proof. left. unfold Dg, Iter0. lia. Qed.

  (* T2: the number of provider events consumed by any run is bounded by a function of the registry *)
  Theorem resolve_events_bounded fuel (tr : list event) o st log cnt :
    WellBehaved O reg tr -> resolve O veqb fuel r rv tr = (o, st, log, cnt) -> cnt <= Events0.
  Proof.
    intros Hwb E.
    destruct (resolve_loop_T2 fuel (state_init O r rv) r [] tr 0 [] Iter0 (or_intror (conj eq_refl eq_refl)) aux_init Hwb bud_init) as [H _].
    unfold resolve in E. rewrite E in H. exact H.
  Qed.

  (* T1, independent of the length of the trace *)
  Theorem resolve_no_fuel_exhaustion_uniform fuel (tr : list event) o st log cnt :
    WellBehaved O reg tr -> Fuel1 <= fuel ->
    resolve O veqb fuel r rv tr = (o, st, log, cnt) -> o <> OOutOfFuel.
  Proof.
    intros Hwb Hf E.
    destruct (resolve_loop_T2 fuel (state_init O r rv) r [] tr 0 [] Iter0 (or_intror (conj eq_refl eq_refl)) aux_init Hwb bud_init) as [_ H].
    unfold resolve in E. rewrite E in H. apply H. unfold Fuel1 in Hf. exact Hf.
  Qed.

  (* T1 in the form of the specification *)
  Corollary resolve_no_fuel_exhaustion_max fuel (tr : list event) o st log cnt :
    WellBehaved O reg tr -> Nat.max Fuel1 (S (length tr)) <= fuel ->
    resolve O veqb fuel r rv tr = (o, st, log, cnt) -> o <> OOutOfFuel.
  Proof. intros Hwb Hf. apply resolve_no_fuel_exhaustion_uniform; [exact Hwb|lia]. Qed.

  (* M7: C05 for the model: with a well-behaved provider that never answers with an error, enough fuel, atomic
     singletons and a ranked subalgebra, the model ends in a solution or NoSolution -- or reports that the
     recorded trace is not a complete run of the model *)
  Theorem resolve_terminates fuel (tr : list event) o st log cnt :
    WellBehaved O reg tr -> choose_contained O tr -> no_error_answers tr -> Fuel1 <= fuel ->
    resolve O veqb fuel r rv tr = (o, st, log, cnt) ->
    ((exists sol, o = OSolution sol) \/ (exists t, o = ONoSolution t)
     \/ (exists k w, o = OMismatch k w) \/ (exists k p, o = OPickNotMax k p))
    /\ cnt <= Events0.
  Proof.
    intros Hwb Hcc Hne Hf E. split; [|exact (resolve_events_bounded fuel tr o st log cnt Hwb E)].
    destruct (resolve_ok_or_nosolution O L veqb reg r rv Hat Hregwf veqb_eq fuel tr o st log cnt Hwb Hcc Hne E)
      as [H|[H|[H|[H|H]]]]; auto.
    exfalso. exact (resolve_no_fuel_exhaustion_uniform fuel tr o st log cnt Hwb Hf E H).
  Qed.
End Term.

Print Assumptions resolve_no_fuel_exhaustion.
Print Assumptions resolve_events_bounded.
Print Assumptions resolve_no_fuel_exhaustion_uniform.
Print Assumptions resolve_terminates.
