(* The solver model as a total function of the provider (the generating model), and existence and
   uniqueness of the accepted run.

   [resolve_h] (Model/Solver.v) is a trace-CHECKING model: it consumes a recorded provider trace and
   answers OMismatch when a recorded call is not the call it would make.  [resolve_g] below is the
   trace-GENERATING variant: it asks a provider (one answer function per callback, each may depend
   on the whole history of calls and answers) and returns the result together with the history of calls.
   1. the generated history is a recording of the provider, and the checker accepts it with the same result;
   2. the generating model never reports a recording mismatch (only the heap/queue disagreement code 6,
      unreachable by Proofs/SolverDetQueue.v);
   3. with the determinism theorem: every recording of this provider that the checker accepts is the
      generated run. *)
From Coq Require Import List NArith ZArith Bool Lia.
From PG Require Import Model.VS Model.Term Model.Heap Model.Solver Proofs.SolverTrace Proofs.SolverDet.
Import ListNotations.

Section Gen.
  Context {VS Vr : Type} (O : VSOps VS Vr) (veqb : Vr -> Vr -> bool).
  Notation event := (@event VS Vr).
  Notation outcome := (@outcome VS Vr).
  Notation result := (@result VS Vr).
  Notation state := (@state VS Vr).
  Notation pick_info := (@pick_info VS).
  Notation choose_ans := (@choose_ans Vr).
  Notation deps_ans := (@deps_ans VS).
  Notation provider := (@provider VS Vr).

  (* ================================================================ definitions *)
  (* a typed provider: one answer function per callback; each may depend on the whole history *)
  Record tprovider := {
    p_cancel : list event -> bool;                       (* should_cancel: true = continue *)
    p_prio   : list event -> pkg -> VS -> Z;             (* prioritize *)
    p_choose : list event -> pkg -> VS -> choose_ans;    (* choose_version *)
    p_deps   : list event -> pkg -> Vr -> deps_ans }.    (* get_dependencies *)

  Definition to_provider (pg : tprovider) : provider := fun hist q =>
    match q with
    | QCancel => ACancel (p_cancel pg hist)
    | QPrioritize p s => APrio (p_prio pg hist p s)
    | QChoose p s => AChoose (p_choose pg hist p s)
    | QDeps p v => ADeps (p_deps pg hist p v)
    end.

  (* the prioritize calls of one pick: one per candidate, in order, each answered on the history
     extended by the previous ones; returns the new queue and the events *)
  Fixpoint gen_prioritize (pg : tprovider) (cands : list (pkg * VS)) (q : list (pkg * (Z * VS)))
           (hist : list event) : list (pkg * (Z * VS)) * list event :=
    match cands with
    | [] => (q, [])
    | (p, s) :: r =>
        let e := EvPrioritize p s (p_prio pg hist p s) in
        let '(q', evs) := gen_prioritize pg r (set p (p_prio pg hist p s, s) q) (hist ++ [e]) in
        (q', e :: evs)
    end.

  Definition res_out_g {A} (log : list pick_info) (cnt : nat) (r : res A) (k : A -> result * list event)
             (st : state) (hist : list event) : result * list event :=
    match r with Good a => k a | Panic s => ((OPanic s, st, log, cnt), hist) end.

  (* same control flow as [resolve_loop_h]; every event is built from the call the model makes and the
     provider's answer on the current history; the event counter is the length of the history.
     As in the implementation, no choose_version call is made when the run stops between the pop of the
     priority queue and the call (heap/queue disagreement, missing or negative term). *)
  Fixpoint resolve_loop_g (pg : tprovider) (fuel : nat) (st : state) (next : pkg) (added : list (pkg * Vr))
           (hp : heap (I := pkg)) (hist : list event) (log : list pick_info) : result * list event :=
    match fuel with
    | 0 => ((OOutOfFuel, st, log, length hist), hist)
    | S fuel' =>
        let ok := p_cancel pg hist in
        let hist1 := hist ++ [EvCancel ok] in
        if negb ok then ((OErrCancel, st, log, length hist1), hist1) else
        match unit_propagation O fuel st [next] with
        | inr EFuel => ((OOutOfFuel, st, log, length hist1), hist1)
        | inr (EPanic s) => ((OPanic s, st, log, length hist1), hist1)
        | inl (UPConflict st1 id) =>
            match build_derivation_tree (store st1) id with
            | Some t => ((ONoSolution t, st1, log, length hist1), hist1)
            | None => ((OPanic PTreeMissing, st1, log, length hist1), hist1)
            end
        | inl (UPOk st1) =>
            let '(q, evs) := gen_prioritize pg (pick_candidates (ps st1)) (queue (ps st1)) hist1 in
            let hist2 := hist1 ++ evs in
            let hp1 := heap_after_propagation (queue (ps st1)) hp in
            let hp2 := heap_pushes hp1 evs in
            let p1 := ps st1 in
            let log1 := log ++ [(undecided_positive p1, q, length hist2)] in
            let with_queue q' :=
              {| next_gidx := next_gidx p1; level := level p1; assignments := assignments p1;
                 queue := q'; changed := length (assignments p1); backtracked := backtracked p1 |} in
            match queue_max q with
            | None =>
                (res_out log1 (length hist2) (extract_solution p1)
                         (fun sol => (OSolution sol, upd_ps st1 (with_queue q), log1, length hist2)) st1, hist2)
            | Some mx =>
                match heap_pop hp2 with
                | None => ((OMismatch (length hist2) 6, st1, log1, length hist2), hist2)
                | Some ((p, _), hp3) =>
                    match get p q with
                    | None => ((OPickNotMax (length hist2) p, st1, log1, length hist2), hist2)
                    | Some (prio, _) =>
                        if negb (Z.eqb prio mx) then ((OPickNotMax (length hist2) p, st1, log1, length hist2), hist2) else
                        let st2 := upd_ps st1 (with_queue (remove p q)) in
                        match term_for (ps st2) p with
                        | None => ((OFailure FNoTerm, st2, log1, length hist2), hist2)
                        | Some ti =>
                            match ti with
                            | Neg _ => ((OPanic PUnwrapPositive, st2, log1, length hist2), hist2)
                            | Pos cur_set =>
                                let ans := p_choose pg hist2 p cur_set in
                                let hist3 := hist2 ++ [EvChoose p cur_set ans] in
                                match ans with
                                | CErr => ((OErrChoose, st2, log1, length hist3), hist3)
                                | CNone =>
                                    match no_versions p ti with
                                    | None => ((OPanic PNoVersionsNegative, st2, log1, length hist3), hist3)
                                    | Some inc =>
                                        res_out_g log1 (length hist3) (add_incompatibility O st2 inc)
                                                  (fun st3 => resolve_loop_g pg fuel' st3 p added hp3 hist3 log1) st2 hist3
                                    end
                                | CSome v =>
                                    if negb (t_contains O ti v) then ((OFailure FIncompatibleVersion, st2, log1, length hist3), hist3) else
                                    if added_has veqb added p v then
                                      res_out_g log1 (length hist3) (add_decision O (ps st2) p v)
                                                (fun p' => resolve_loop_g pg fuel' (upd_ps st2 p') p added hp3 hist3 log1) st2 hist3
                                    else
                                      let added' := (p, v) :: added in
                                      let dans := p_deps pg hist3 p v in
                                      let hist4 := hist3 ++ [EvDeps p v dans] in
                                      match dans with
                                      | DErr => ((OErrDeps p v, st2, log1, length hist4), hist4)
                                      | DUnavail m =>
                                          res_out_g log1 (length hist4) (add_incompatibility O st2 (custom_version O p v m))
                                                    (fun st3 => resolve_loop_g pg fuel' st3 p added' hp3 hist4 log1) st2 hist4
                                      | DAvail deps =>
                                          res_out_g log1 (length hist4) (add_incompatibility_from_dependencies O st2 p v deps)
                                            (fun '(st3, range) =>
                                               res_out_g log1 (length hist4) (add_version O (ps st3) p v range (store st3))
                                                         (fun p' => resolve_loop_g pg fuel' (upd_ps st3 p') p added' hp3 hist4 log1) st3 hist4)
                                            st2 hist4
                                      end
                                end
                            end
                        end
                    end
                end
            end
        end
    end.

  Definition resolve_g (pg : tprovider) (fuel : nat) (r : pkg) (v : Vr) : result * list event :=
    resolve_loop_g pg fuel (state_init O r v) r [] [] [] [].

  (* the outcomes with which a run can stop after the pop of the priority queue and before the
     choose_version call; the checker reads the recorded choose_version call before it reports them *)
  Definition stops_before_choose (o : outcome) : bool :=
    match o with
    | OMismatch _ w => N.eqb w 6
    | OPickNotMax _ _ => true
    | OFailure FNoTerm => true
    | OPanic PUnwrapPositive => true
    | _ => false
    end.

  (* ================================================================ lists, generated_by *)
  Lemma len_snoc {A} (l : list A) (a : A) : length (l ++ [a]) = S (length l).
  Proof. rewrite app_length. cbn [length]. lia. Qed.

  Lemma firstn_len_diff {A} (h : list A) (evs tr : list A) :
    firstn (length (h ++ evs) - length h) (evs ++ tr) = evs.
  Proof.
    rewrite app_length. replace (length h + length evs - length h) with (length evs) by lia.
    induction evs as [|a evs IH]; cbn [length app firstn]; [reflexivity|now rewrite IH].
  Qed.

  Lemma generated_by_app (prov : provider) : forall a hist b,
    generated_by prov hist (a ++ b) <-> generated_by prov hist a /\ generated_by prov (hist ++ a) b.
  Proof.
    induction a as [|e a IH]; intros hist b; cbn [app generated_by].
    - rewrite app_nil_r. tauto.
    - rewrite IH. rewrite <- app_assoc. cbn [app]. tauto.
  Qed.

  Hypothesis vs_eqb_refl : forall s, vs_eqb O s s = true.
  Hypothesis veqb_refl : forall v, veqb v v = true.

  (* ================================================================ the prioritize block *)
  Lemma gen_prioritize_generated pg cands : forall q hist q' evs,
    gen_prioritize pg cands q hist = (q', evs) -> generated_by (to_provider pg) hist evs.
  Proof.
    induction cands as [|[p s] cands IH]; intros q hist q' evs; cbn [gen_prioritize].
    - intros H. injection H as _ <-. exact I.
    - destruct (gen_prioritize pg cands _ _) as [q1 evs1] eqn:Eg. intros H. injection H as _ <-.
      cbn [generated_by query_of answer_of to_provider]. split; [reflexivity|]. exact (IH _ _ _ _ Eg).
  Qed.

  Lemma do_prioritize_gen pg cands : forall q hist q' evs tr,
    gen_prioritize pg cands q hist = (q', evs) ->
    do_prioritize O cands q (evs ++ tr) (length hist) = inl (q', tr, length (hist ++ evs)).
  Proof.
    induction cands as [|[p s] cands IH]; intros q hist q' evs tr; cbn [gen_prioritize do_prioritize].
    - intros H. injection H as <- <-. rewrite app_nil_r. reflexivity.
    - destruct (gen_prioritize pg cands _ _) as [q1 evs1] eqn:Eg. intros H. injection H as <- <-.
      cbn [app]. rewrite N.eqb_refl, vs_eqb_refl. cbn [andb].
      rewrite <- (len_snoc hist (EvPrioritize p s (p_prio pg hist p s))).
      rewrite (IH _ _ _ _ tr Eg). rewrite <- app_assoc. reflexivity.
  Qed.

  (* ================================================================ the loop *)
  (* [g] (result and final history of the generating model started on [hist]) is accepted by the checker
     [hres] (a function of the remaining trace): the history is extended by [ext], generated by the
     provider; the checker run on [ext], followed by the lookahead [la], gives the same result; [la] is
     empty or, when the run stopped before the choose_version call, that call *)
  Definition accepts (pg : tprovider) (hist : list event) (hres : list event -> result) (g : result * list event) : Prop :=
    exists ext la,
      snd g = hist ++ ext /\
      generated_by (to_provider pg) hist (ext ++ la) /\
      snd (fst g) = length (snd g) /\
      hres (ext ++ la) = fst g /\
      (la = [] \/ (stops_before_choose (fst (fst (fst (fst g)))) = true /\ exists p s a, la = [EvChoose p s a])).

  Lemma accepts_done pg hist (o : outcome) st log :
    accepts pg hist (fun _ => (o, st, log, length hist)) ((o, st, log, length hist), hist).
  Proof.
    exists [], []. cbn [fst snd app generated_by]. rewrite app_nil_r. auto 10.
  Qed.

  Lemma accepts_la pg hist hres p s (o : outcome) st log :
    hres [EvChoose p s (p_choose pg hist p s)] = (o, st, log, length hist) ->
    stops_before_choose o = true ->
    accepts pg hist hres ((o, st, log, length hist), hist).
  Proof.
    intros H Hs. exists [], [EvChoose p s (p_choose pg hist p s)].
    cbn [fst snd app generated_by query_of answer_of to_provider]. rewrite app_nil_r.
    repeat split; try reflexivity; try assumption. right. split; [exact Hs|]. eauto.
  Qed.

  Lemma accepts_cons pg hist hres g e :
    answer_of e = to_provider pg hist (query_of e) ->
    accepts pg (hist ++ [e]) (fun tr => hres (e :: tr)) g -> accepts pg hist hres g.
  Proof.
    intros Ha (ext & la & Hs & Hg & Hn & Hr & Hl). exists (e :: ext), la.
    rewrite <- app_assoc in Hs. cbn [app] in Hs |- *. cbn [generated_by]. auto 10.
  Qed.

  Lemma accepts_app pg hist hres g evs :
    generated_by (to_provider pg) hist evs ->
    accepts pg (hist ++ evs) (fun tr => hres (evs ++ tr)) g -> accepts pg hist hres g.
  Proof.
    intros Ha (ext & la & Hs & Hg & Hn & Hr & Hl). exists (evs ++ ext), la.
    rewrite <- app_assoc in Hs. rewrite <- app_assoc. rewrite generated_by_app. auto 10.
  Qed.

  Lemma accepts_ext pg hist hres hres' g :
    (forall tr, hres tr = hres' tr) -> accepts pg hist hres' g -> accepts pg hist hres g.
  Proof.
    intros He (ext & la & Hs & Hg & Hn & Hr & Hl). exists ext, la. rewrite He. auto 10.
  Qed.

  Lemma resolve_loop_g_accepted pg fuel : forall st next added hp hist log,
    accepts pg hist (fun tr => resolve_loop_h O veqb fuel st next added hp tr (length hist) log)
            (resolve_loop_g pg fuel st next added hp hist log).
  Proof.
    induction fuel as [|fuel IH]; intros st next added hp hist log; cbn [resolve_loop_h resolve_loop_g];
      [apply accepts_done|].
    apply (accepts_cons pg hist _ _ (EvCancel (p_cancel pg hist)) eq_refl). cbn beta iota.
    rewrite <- (len_snoc hist (EvCancel (p_cancel pg hist))).
    generalize (hist ++ [EvCancel (p_cancel pg hist)]). intros hist1.
    destruct (p_cancel pg hist); cbn [negb]; [|apply accepts_done].
    destruct (unit_propagation O (S fuel) st [next]) as [[st1|st1 id]|[|s]]; try apply accepts_done.
    2:{ destruct (build_derivation_tree (store st1) id); apply accepts_done. }
    destruct (gen_prioritize pg (pick_candidates (ps st1)) (queue (ps st1)) hist1) as [q evs] eqn:Eg.
    apply (accepts_app pg hist1 _ _ evs (gen_prioritize_generated _ _ _ _ _ _ Eg)). cbn beta.
    eapply accepts_ext.
    { intros tr. rewrite (do_prioritize_gen _ _ _ _ _ _ tr Eg). cbn beta iota zeta.
      rewrite firstn_len_diff. reflexivity. }
    cbn beta.
    generalize (hist1 ++ evs). intros hist2.
    destruct (queue_max q) as [mx|].
    2:{ unfold res_out. destruct (extract_solution (ps st1)); apply accepts_done. }
    destruct (heap_pop _) as [[[hpk hz] hp3]|].
    2:{ apply (accepts_la pg hist2 _ next (vs_full O)); reflexivity. }
    destruct (get hpk q) as [[prio qs]|] eqn:Eget.
    2:{ apply (accepts_la pg hist2 _ hpk (vs_full O)); [|reflexivity].
        cbn beta iota. rewrite N.eqb_refl. cbn [negb]. rewrite Eget. reflexivity. }
    destruct (negb (Z.eqb prio mx)) eqn:Eprio.
    { apply (accepts_la pg hist2 _ hpk (vs_full O)); [|reflexivity].
      cbn beta iota. rewrite N.eqb_refl. cbn [negb]. rewrite Eget, Eprio. reflexivity. }
    destruct (term_for _ hpk) as [[cur|cur]|] eqn:Eterm.
    2:{ apply (accepts_la pg hist2 _ hpk (vs_full O)); [|reflexivity].
        cbn beta iota. rewrite N.eqb_refl. cbn [negb]. rewrite Eget, Eprio, Eterm. reflexivity. }
    2:{ apply (accepts_la pg hist2 _ hpk (vs_full O)); [|reflexivity].
        cbn beta iota. rewrite N.eqb_refl. cbn [negb]. rewrite Eget, Eprio, Eterm. reflexivity. }
    apply (accepts_cons pg hist2 _ _ (EvChoose hpk cur (p_choose pg hist2 hpk cur)) eq_refl). cbn beta iota.
    rewrite N.eqb_refl. cbn [negb]. rewrite Eget, Eprio, Eterm, vs_eqb_refl. cbn [negb].
    rewrite <- (len_snoc hist2 (EvChoose hpk cur (p_choose pg hist2 hpk cur))).
    generalize (hist2 ++ [EvChoose hpk cur (p_choose pg hist2 hpk cur)]). intros hist3.
    clear Eget Eprio Eterm.
    destruct (p_choose pg hist2 hpk cur) as [v| |]; [| |apply accepts_done].
    - destruct (negb (t_contains O (Pos cur) v)); [apply accepts_done|].
      destruct (added_has veqb added hpk v).
      + unfold res_out, res_out_g. destruct (add_decision O _ hpk v); [apply IH|apply accepts_done].
      + apply (accepts_cons pg hist3 _ _ (EvDeps hpk v (p_deps pg hist3 hpk v)) eq_refl). cbn beta iota.
        rewrite N.eqb_refl, veqb_refl. cbn [andb negb].
        rewrite <- (len_snoc hist3 (EvDeps hpk v (p_deps pg hist3 hpk v))).
        generalize (hist3 ++ [EvDeps hpk v (p_deps pg hist3 hpk v)]). intros hist4.
        destruct (p_deps pg hist3 hpk v) as [deps|m|]; [| |apply accepts_done].
        * unfold res_out, res_out_g.
          destruct (add_incompatibility_from_dependencies O _ hpk v deps) as [[st3 range]|]; [|apply accepts_done].
          destruct (add_version O (ps st3) hpk v range (store st3)); [apply IH|apply accepts_done].
        * unfold res_out, res_out_g.
          destruct (add_incompatibility O _ (custom_version O hpk v m)); [apply IH|apply accepts_done].
    - destruct (no_versions hpk (Pos cur)) as [inc|]; [|apply accepts_done].
      unfold res_out, res_out_g. destruct (add_incompatibility O _ inc); [apply IH|apply accepts_done].
  Qed.

  (* ================================================================ theorem 1: the generated run is accepted *)
  (* The generated trace is a recording of the provider; the event counter of the result is its length; the
     checker accepts it with the same result.  The checker reads the recorded choose_version call before it
     reports one of the outcomes of [stops_before_choose] (the implementation, and the generating model, stop
     before that call): for these outcomes the checker needs the lookahead [la] of that one call. *)
  Theorem resolve_g_is_accepted_run : forall pg fuel r v res tr,
    resolve_g pg fuel r v = (res, tr) ->
    generated_by (to_provider pg) [] tr /\ snd res = length tr /\
    exists la, generated_by (to_provider pg) [] (tr ++ la) /\
               resolve_h O veqb fuel r v (tr ++ la) = res /\
               (la = [] \/ (stops_before_choose (fst (fst (fst res))) = true /\ exists p s a, la = [EvChoose p s a])).
  Proof.
    intros pg fuel r v res tr H.
    destruct (resolve_loop_g_accepted pg fuel (state_init O r v) r [] [] [] []) as (ext & la & Hs & Hg & Hn & Hr & Hl).
    unfold resolve_g in H. rewrite H in Hs, Hn, Hr, Hl. cbn [fst snd app length] in Hs, Hn, Hr, Hl. subst ext.
    split; [exact (proj1 (proj1 (generated_by_app _ _ _ _) Hg))|]. split; [exact Hn|].
    exists la. split; [exact Hg|]. split; [exact Hr|exact Hl].
  Qed.

  (* the statement without lookahead, for every outcome outside [stops_before_choose] *)
  Corollary resolve_g_is_accepted_run_exact : forall pg fuel r v res tr,
    resolve_g pg fuel r v = (res, tr) -> stops_before_choose (fst (fst (fst res))) = false ->
    generated_by (to_provider pg) [] tr /\ resolve_h O veqb fuel r v tr = res /\ snd res = length tr.
  Proof.
    intros pg fuel r v res tr H Hs.
    destruct (resolve_g_is_accepted_run _ _ _ _ _ _ H) as (Hg & Hn & la & Hgl & Hr & [->|[Hc _]]).
    - rewrite app_nil_r in Hr. auto.
    - congruence.
  Qed.

  (* ================================================================ theorem 2: no recording mismatch *)
  Lemma resolve_loop_g_mismatch pg fuel : forall st next added hp hist log k w,
    fst (fst (fst (fst (resolve_loop_g pg fuel st next added hp hist log)))) = OMismatch k w -> w = 6%N.
  Proof.
    induction fuel as [|fuel IH]; intros st next added hp hist log k w; cbn [resolve_loop_g].
    { cbn [fst]. discriminate. }
    destruct (negb (p_cancel pg hist)); [cbn [fst]; discriminate|].
    destruct (unit_propagation O (S fuel) st [next]) as [[st1|st1 id]|[|s]]; try (cbn [fst]; discriminate).
    2:{ destruct (build_derivation_tree (store st1) id); cbn [fst]; discriminate. }
    destruct (gen_prioritize pg _ _ _) as [q evs].
    destruct (queue_max q) as [mx|].
    2:{ unfold res_out. destruct (extract_solution (ps st1)); cbn [fst]; discriminate. }
    destruct (heap_pop _) as [[[hpk hz] hp3]|].
    2:{ cbn [fst]. intros H. injection H as _ <-. reflexivity. }
    destruct (get hpk q) as [[prio qs]|]; [|cbn [fst]; discriminate].
    destruct (negb (Z.eqb prio mx)); [cbn [fst]; discriminate|].
    destruct (term_for _ hpk) as [[cur|cur]|]; try (cbn [fst]; discriminate).
    destruct (p_choose pg _ hpk cur) as [v| |]; [| |cbn [fst]; discriminate].
    - destruct (negb (t_contains O (Pos cur) v)); [cbn [fst]; discriminate|].
      destruct (added_has veqb added hpk v).
      + unfold res_out_g. destruct (add_decision O _ hpk v); [apply IH|cbn [fst]; discriminate].
      + destruct (p_deps pg _ hpk v) as [deps|m|]; [| |cbn [fst]; discriminate].
        * unfold res_out_g.
          destruct (add_incompatibility_from_dependencies O _ hpk v deps) as [[st3 range]|]; [|cbn [fst]; discriminate].
          destruct (add_version O (ps st3) hpk v range (store st3)); [apply IH|cbn [fst]; discriminate].
        * unfold res_out_g.
          destruct (add_incompatibility O _ (custom_version O hpk v m)); [apply IH|cbn [fst]; discriminate].
    - destruct (no_versions hpk (Pos cur)) as [inc|]; [|cbn [fst]; discriminate].
      unfold res_out_g. destruct (add_incompatibility O _ inc); [apply IH|cbn [fst]; discriminate].
  Qed.

  (* the only mismatch the generating model can report is the heap/queue disagreement (code 6: the queue is
     not empty but the heap is), unreachable by Proofs/SolverDetQueue.v *)
  Theorem resolve_g_not_recording_mismatch : forall pg fuel r v res tr k w,
    resolve_g pg fuel r v = (res, tr) -> fst (fst (fst res)) = OMismatch k w -> w = 6%N.
  Proof.
    intros pg fuel r v res tr k w H Hm. unfold resolve_g in H.
    apply (resolve_loop_g_mismatch pg fuel (state_init O r v) r [] [] [] [] k w). rewrite H. exact Hm.
  Qed.

  (* ================================================================ theorem 3: uniqueness *)
  Hypothesis vs_eqb_eq : forall a b, vs_eqb O a b = true -> a = b.
  Hypothesis veqb_eq : forall a b, veqb a b = true -> a = b.

  Lemma firstn_len_app' {A} (pre x : list A) : firstn (length pre) (pre ++ x) = pre.
  Proof. induction pre as [|a pre IH]; cbn [length app firstn]; [reflexivity|now rewrite IH]. Qed.

  (* every recording of this provider that the checker accepts IS the generated run *)
  Theorem accepted_run_is_generated : forall pg fuel r v res tr tr' o st log n,
    resolve_g pg fuel r v = (res, tr) -> is_mismatch (fst (fst (fst res))) = false ->
    generated_by (to_provider pg) [] tr' -> resolve_h O veqb fuel r v tr' = (o, st, log, n) -> is_mismatch o = false ->
    (o, st, log, n) = res /\ firstn n tr' = tr.
  Proof.
    intros pg fuel r v res tr tr' o st log n H Hm G' H' Hm'.
    destruct (resolve_g_is_accepted_run _ _ _ _ _ _ H) as (Hg & Hn & la & Hgl & Hr & _).
    destruct res as [[[o0 st0] log0] n0]. cbn [fst snd] in Hm, Hn.
    destruct (resolve_h_deterministic O veqb vs_eqb_eq veqb_eq (to_provider pg) fuel r v tr' (tr ++ la)
                o st log n o0 st0 log0 n0 G' Hgl H' Hr Hm' Hm) as (E & Hf).
    split; [exact E|]. rewrite Hf, Hn. apply firstn_len_app'.
  Qed.

  (* existence and uniqueness in one statement: for every provider and every fuel there is exactly one result
     and one consumed call trace among the non-mismatch checker runs on recordings of the provider (when the
     generating model does not report the heap/queue disagreement) *)
  Corollary accepted_run_unique : forall pg fuel r v tr1 tr2 o1 st1 log1 n1 o2 st2 log2 n2,
    is_mismatch (fst (fst (fst (fst (resolve_g pg fuel r v))))) = false ->
    generated_by (to_provider pg) [] tr1 -> resolve_h O veqb fuel r v tr1 = (o1, st1, log1, n1) -> is_mismatch o1 = false ->
    generated_by (to_provider pg) [] tr2 -> resolve_h O veqb fuel r v tr2 = (o2, st2, log2, n2) -> is_mismatch o2 = false ->
    (o1, st1, log1, n1) = fst (resolve_g pg fuel r v) /\ (o2, st2, log2, n2) = fst (resolve_g pg fuel r v) /\
    firstn n1 tr1 = snd (resolve_g pg fuel r v) /\ firstn n2 tr2 = snd (resolve_g pg fuel r v).
  Proof.
    intros pg fuel r v tr1 tr2 o1 st1 log1 n1 o2 st2 log2 n2 Hm G1 H1 M1 G2 H2 M2.
    destruct (resolve_g pg fuel r v) as [res tr] eqn:E. cbn [fst snd] in Hm |- *.
    destruct (accepted_run_is_generated _ _ _ _ _ _ _ _ _ _ _ E Hm G1 H1 M1) as (A1 & B1).
    destruct (accepted_run_is_generated _ _ _ _ _ _ _ _ _ _ _ E Hm G2 H2 M2) as (A2 & B2).
    auto.
  Qed.

End Gen.

(* ================================================================ the Range instance over Z *)
Lemma rz_vs_eqb_refl : forall a : RZ.range, vs_eqb RZ.range_vs a a = true.
Proof. intros a. apply (proj2 (RTZ.range_eqb_spec a a)). reflexivity. Qed.

Lemma z_eqb_refl : forall a : Z, Z.eqb a a = true.
Proof. exact Z.eqb_refl. Qed.

Theorem resolve_g_is_accepted_run_range : forall (pg : @tprovider RZ.range Z) fuel r v res tr,
  resolve_g RZ.range_vs Z.eqb pg fuel r v = (res, tr) ->
  generated_by (to_provider pg) [] tr /\ snd res = length tr /\
  exists la, generated_by (to_provider pg) [] (tr ++ la) /\
             resolve_h RZ.range_vs Z.eqb fuel r v (tr ++ la) = res /\
             (la = [] \/ (stops_before_choose (fst (fst (fst res))) = true /\ exists p s a, la = [EvChoose p s a])).
Proof. exact (resolve_g_is_accepted_run RZ.range_vs Z.eqb rz_vs_eqb_refl z_eqb_refl). Qed.

Theorem accepted_run_is_generated_range : forall (pg : @tprovider RZ.range Z) fuel r v res tr tr' o st log n,
  resolve_g RZ.range_vs Z.eqb pg fuel r v = (res, tr) -> is_mismatch (fst (fst (fst res))) = false ->
  generated_by (to_provider pg) [] tr' -> resolve_h RZ.range_vs Z.eqb fuel r v tr' = (o, st, log, n) -> is_mismatch o = false ->
  (o, st, log, n) = res /\ firstn n tr' = tr.
Proof. exact (accepted_run_is_generated RZ.range_vs Z.eqb rz_vs_eqb_refl z_eqb_refl rz_vs_eqb_eq z_eqb_eq). Qed.

Print Assumptions resolve_g_is_accepted_run.
Print Assumptions resolve_g_not_recording_mismatch.
Print Assumptions accepted_run_is_generated.
Print Assumptions accepted_run_unique.
Print Assumptions resolve_g_is_accepted_run_range.
Print Assumptions accepted_run_is_generated_range.
