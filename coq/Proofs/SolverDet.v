(* The solver model with the exact priority queue ([resolve_loop_h], Model/Solver.v):
   1. erasure: unless the heap check fails (OMismatch _ 6), it computes exactly what [resolve_loop] computes;
   2. determinism: against a deterministic provider (a state machine whose answer depends on the history of
      calls and on the query), two recorded runs that are runs of the model coincide: same result, same
      consumed call trace. *)
From Coq Require Import List NArith ZArith Bool Lia.
From PG Require Import Model.VS Model.Term Model.Heap Model.Solver Proofs.SolverTrace.
From PG Require Model.Range Model.Instances Proofs.RangeTables.
Import ListNotations.

Section Det.
  Context {VS Vr : Type} (O : VSOps VS Vr) (veqb : Vr -> Vr -> bool).
  Notation event := (@event VS Vr).
  Notation outcome := (@outcome VS Vr).
  Notation result := (@result VS Vr).
  Notation choose_ans := (@choose_ans Vr).
  Notation deps_ans := (@deps_ans VS).

  (* ================================================================ Part 1: erasure *)
  Definition nm6 (r : result) : Prop := forall k, fst (fst (fst r)) <> OMismatch k 6.

  Theorem resolve_loop_h_erasure : forall fuel st next added hp (tr : list event) n log,
    (forall k, fst (fst (fst (resolve_loop_h O veqb fuel st next added hp tr n log))) <> OMismatch k 6) ->
    resolve_loop_h O veqb fuel st next added hp tr n log = resolve_loop O veqb fuel st next added tr n log.
  Proof.
    induction fuel as [|fuel IH]; intros st next added hp tr n log; cbn [resolve_loop_h resolve_loop]; [reflexivity|].
    destruct tr as [|[ok| | |] tr1]; try reflexivity.
    destruct ok; cbn [negb]; [|reflexivity].
    destruct (unit_propagation O (S fuel) st [next]) as [[st1|st1 id]|[|s]]; try reflexivity.
    destruct (do_prioritize O (pick_candidates (ps st1)) (queue (ps st1)) tr1 (S n)) as [[[q tr2] n2]|o]; [|reflexivity].
    destruct (queue_max q) as [mx|]; [|reflexivity].
    destruct tr2 as [|[| |p s ans|] tr3]; try reflexivity.
    destruct (heap_pop _) as [[[hpk hz] hp3]|].
    2:{ cbn [fst]. intros H. exfalso. exact (H _ eq_refl). }
    destruct (negb (N.eqb p hpk)).
    { cbn [fst]. intros H. exfalso. exact (H _ eq_refl). }
    destruct (get p q) as [[prio qs]|]; [|reflexivity].
    destruct (negb (Z.eqb prio mx)); [reflexivity|].
    destruct (term_for _ p) as [[cur|cur]|]; try reflexivity.
    destruct (negb (vs_eqb O s cur)); [reflexivity|].
    destruct ans as [v| |]; [| |reflexivity].
    - destruct (negb (t_contains O (Pos cur) v)); [reflexivity|].
      destruct (added_has veqb added p v).
      + unfold res_out. destruct (add_decision O _ p v); [apply IH|reflexivity].
      + destruct tr3 as [|[| | |p' v' dans] tr4]; try reflexivity.
        destruct (negb (N.eqb p p' && veqb v v')); [reflexivity|].
        destruct dans as [deps|m|]; [| |reflexivity].
        * unfold res_out. destruct (add_incompatibility_from_dependencies O _ p v deps) as [[st3 range]|]; [|reflexivity].
          destruct (add_version O (ps st3) p v range (store st3)); [apply IH|reflexivity].
        * unfold res_out. destruct (add_incompatibility O _ (custom_version O p v m)); [apply IH|reflexivity].
    - destruct (no_versions p (Pos cur)); [|reflexivity].
      unfold res_out. destruct (add_incompatibility O _ i); [apply IH|reflexivity].
  Qed.

  Theorem resolve_h_erasure : forall fuel r v (tr : list event),
    (forall k, fst (fst (fst (resolve_h O veqb fuel r v tr))) <> OMismatch k 6) ->
    resolve_h O veqb fuel r v tr = resolve O veqb fuel r v tr.
  Proof. intros fuel r v tr. apply resolve_loop_h_erasure. Qed.

  (* ================================================================ Part 2: determinism *)
  Inductive query := QCancel | QPrioritize (p : pkg) (s : VS) | QChoose (p : pkg) (s : VS) | QDeps (p : pkg) (v : Vr).
  Inductive answer := ACancel (ok : bool) | APrio (z : Z) | AChoose (a : choose_ans) | ADeps (a : deps_ans).

  (* the call without its answer *)
  Definition query_of (e : event) : query :=
    match e with
    | EvCancel _ => QCancel
    | EvPrioritize p s _ => QPrioritize p s
    | EvChoose p s _ => QChoose p s
    | EvDeps p v _ => QDeps p v
    end.
  (* the answer *)
  Definition answer_of (e : event) : answer :=
    match e with
    | EvCancel ok => ACancel ok
    | EvPrioritize _ _ z => APrio z
    | EvChoose _ _ a => AChoose a
    | EvDeps _ _ a => ADeps a
    end.

  Definition provider := list event -> query -> answer.

  (* [tr] is a possible recording of calls to [prov] after history [hist]: every answer is the one prov gives *)
  Fixpoint generated_by (prov : provider) (hist tr : list event) : Prop :=
    match tr with
    | [] => True
    | e :: r => answer_of e = prov hist (query_of e) /\ generated_by prov (hist ++ [e]) r
    end.

  Lemma event_eq_of (e1 e2 : event) : query_of e1 = query_of e2 -> answer_of e1 = answer_of e2 -> e1 = e2.
  Proof.
    destruct e1, e2; cbn [query_of answer_of]; intros Hq Ha; try discriminate; injection Ha; try injection Hq;
      intros; subst; reflexivity.
  Qed.

  (* same history, same query => same event *)
  Lemma generated_head prov hist (e1 e2 : event) tr1 tr2 :
    generated_by prov hist (e1 :: tr1) -> generated_by prov hist (e2 :: tr2) ->
    query_of e1 = query_of e2 ->
    e1 = e2 /\ generated_by prov (hist ++ [e1]) tr1 /\ generated_by prov (hist ++ [e1]) tr2.
  Proof.
    cbn [generated_by]. intros [A1 G1] [A2 G2] Hq.
    assert (E : e1 = e2). { apply event_eq_of; [exact Hq|]. rewrite A1, A2, Hq. reflexivity. }
    subst e2. auto.
  Qed.

  Hypothesis vs_eqb_eq : forall a b, vs_eqb O a b = true -> a = b.
  Hypothesis veqb_eq : forall a b, veqb a b = true -> a = b.

  Lemma firstn_len_app {A} (pre x : list A) : firstn (length pre) (pre ++ x) = pre.
  Proof. induction pre as [|a pre IH]; cbn [length app firstn]; [reflexivity|now rewrite IH]. Qed.

  Lemma do_prioritize_inr cands q (tr : list event) n o :
    do_prioritize O cands q tr n = inr o -> is_mismatch o = true.
  Proof.
    intros H. pose proof (do_prioritize_app O cands q tr n []) as Hp. rewrite H in Hp. exact Hp.
  Qed.

  Lemma do_prioritize_det prov cands : forall q hist (tr1 tr2 : list event) n q1 tr1' n1 q2 tr2' n2,
    generated_by prov hist tr1 -> generated_by prov hist tr2 ->
    do_prioritize O cands q tr1 n = inl (q1, tr1', n1) ->
    do_prioritize O cands q tr2 n = inl (q2, tr2', n2) ->
    exists pre, tr1 = pre ++ tr1' /\ tr2 = pre ++ tr2' /\ q1 = q2 /\ n1 = n + length pre /\ n2 = n + length pre /\
                generated_by prov (hist ++ pre) tr1' /\ generated_by prov (hist ++ pre) tr2'.
  Proof.
    induction cands as [|[p s] cands IH]; intros q hist tr1 tr2 n q1 tr1' n1 q2 tr2' n2 G1 G2; cbn [do_prioritize].
    - intros H1 H2. injection H1 as <- <- <-. injection H2 as <- <- <-. exists [].
      cbn [app length]. rewrite app_nil_r, Nat.add_0_r. auto 10.
    - destruct tr1 as [|[| p1 s1 z1 | |] tr1r]; try discriminate.
      destruct tr2 as [|[| p2 s2 z2 | |] tr2r]; try discriminate.
      destruct (N.eqb_spec p p1) as [<-|]; cbn [andb]; [|discriminate].
      destruct (vs_eqb O s s1) eqn:Es1; [|discriminate]. apply vs_eqb_eq in Es1. subst s1.
      destruct (N.eqb_spec p p2) as [<-|]; cbn [andb]; [|discriminate].
      destruct (vs_eqb O s s2) eqn:Es2; [|discriminate]. apply vs_eqb_eq in Es2. subst s2.
      destruct (generated_head _ _ _ _ _ _ G1 G2 eq_refl) as (E & G1' & G2').
      injection E as <-.
      intros H1 H2. destruct (IH _ _ _ _ _ _ _ _ _ _ _ G1' G2' H1 H2) as (pre & -> & -> & -> & -> & -> & G1'' & G2'').
      exists (EvPrioritize p s z1 :: pre). cbn [app length]. rewrite <- !app_assoc in G1'', G2''. cbn [app] in G1'', G2''.
      repeat split; try reflexivity; try lia; assumption.
  Qed.

  (* two results agree: if neither is a mismatch they are equal, and the events consumed since [n] are the same *)
  Definition agree (n : nat) (tr1 tr2 : list event) (r1 r2 : result) : Prop :=
    is_mismatch (fst (fst (fst r1))) = false -> is_mismatch (fst (fst (fst r2))) = false ->
    r1 = r2 /\ exists k, snd r1 = n + k /\ firstn k tr1 = firstn k tr2.

  Lemma agree_same n tr1 tr2 (o : outcome) st log : agree n tr1 tr2 (o, st, log, n) (o, st, log, n).
  Proof. intros _ _. split; [reflexivity|]. exists 0. cbn [snd firstn]. split; [lia|reflexivity]. Qed.

  Lemma agree_mm_l n tr1 tr2 (o : outcome) st log m r2 : is_mismatch o = true -> agree n tr1 tr2 (o, st, log, m) r2.
  Proof. intros H H1 _. cbn [fst] in H1. congruence. Qed.

  Lemma agree_mm_r n tr1 tr2 (o : outcome) st log m r1 : is_mismatch o = true -> agree n tr1 tr2 r1 (o, st, log, m).
  Proof. intros H _ H2. cbn [fst] in H2. congruence. Qed.

  Lemma agree_cons n e tr1 tr2 r1 r2 : agree (S n) tr1 tr2 r1 r2 -> agree n (e :: tr1) (e :: tr2) r1 r2.
  Proof.
    intros H H1 H2. destruct (H H1 H2) as (E & k & Hk & Hf). split; [exact E|].
    exists (S k). cbn [firstn]. split; [lia|now rewrite Hf].
  Qed.

  Lemma agree_app n pre tr1 tr2 r1 r2 : agree (n + length pre) tr1 tr2 r1 r2 -> agree n (pre ++ tr1) (pre ++ tr2) r1 r2.
  Proof.
    revert n. induction pre as [|e pre IH]; intros n; cbn [length app].
    - now rewrite Nat.add_0_r.
    - intros H. apply agree_cons. apply IH. now replace (S n + length pre) with (n + S (length pre)) by lia.
  Qed.

  Lemma agree_res_out {A} n tr1 tr2 log (r : res A) k1 k2 st :
    (forall a, agree n tr1 tr2 (k1 a) (k2 a)) ->
    agree n tr1 tr2 (res_out log n r k1 st) (res_out log n r k2 st).
  Proof. intros H. unfold res_out. destruct r; [apply H|apply agree_same]. Qed.

  Lemma resolve_loop_h_agree prov fuel : forall st next added hp hist (tr1 tr2 : list event) n log,
    generated_by prov hist tr1 -> generated_by prov hist tr2 ->
    agree n tr1 tr2 (resolve_loop_h O veqb fuel st next added hp tr1 n log)
                    (resolve_loop_h O veqb fuel st next added hp tr2 n log).
  Proof.
    induction fuel as [|fuel IH]; intros st next added hp hist tr1 tr2 n log G1 G2; cbn [resolve_loop_h];
      [apply agree_same|].
    destruct tr1 as [|[ok1| | |] tr1a]; try (apply agree_mm_l; reflexivity).
    destruct tr2 as [|[ok2| | |] tr2a]; try (apply agree_mm_r; reflexivity).
    destruct (generated_head _ _ _ _ _ _ G1 G2 eq_refl) as (E & G1a & G2a). injection E as <-.
    clear G1 G2. apply agree_cons.
    destruct ok1; cbn [negb]; [|apply agree_same].
    destruct (unit_propagation O (S fuel) st [next]) as [[st1|st1 id]|[|s]]; try apply agree_same.
    2:{ destruct (build_derivation_tree (store st1) id); apply agree_same. }
    destruct (do_prioritize O (pick_candidates (ps st1)) (queue (ps st1)) tr1a (S n)) as [[[q1 tr1b] n1]|o1] eqn:Ep1.
    2:{ apply agree_mm_l. exact (do_prioritize_inr _ _ _ _ _ Ep1). }
    destruct (do_prioritize O (pick_candidates (ps st1)) (queue (ps st1)) tr2a (S n)) as [[[q2 tr2b] n2]|o2] eqn:Ep2.
    2:{ apply agree_mm_r. exact (do_prioritize_inr _ _ _ _ _ Ep2). }
    destruct (do_prioritize_det _ _ _ _ _ _ _ _ _ _ _ _ _ G1a G2a Ep1 Ep2)
      as (pre & -> & -> & -> & -> & -> & G1b & G2b).
    clear Ep1 Ep2 G1a G2a.
    replace (S n + length pre - S n) with (length pre) by lia. rewrite !firstn_len_app.
    apply agree_app.
    remember (S n + length pre) as m eqn:Em. clear Em.
    destruct (queue_max q2) as [mx|]; [|apply agree_res_out; intros sol; apply agree_same].
    destruct tr1b as [|[| |p1 s1 a1|] tr1c]; try (apply agree_mm_l; reflexivity).
    destruct tr2b as [|[| |p2 s2 a2|] tr2c]; try (apply agree_mm_r; reflexivity).
    destruct (heap_pop _) as [[[hpk hz] hp3]|]; [|apply agree_mm_l; reflexivity].
    destruct (N.eqb_spec p1 hpk) as [->|]; cbn [negb]; [|apply agree_mm_l; reflexivity].
    destruct (N.eqb_spec p2 hpk) as [->|]; cbn [negb]; [|apply agree_mm_r; reflexivity].
    destruct (get hpk q2) as [[prio qs]|]; [|apply agree_same].
    destruct (negb (Z.eqb prio mx)); [apply agree_same|].
    destruct (term_for _ hpk) as [[cur|cur]|]; try apply agree_same.
    destruct (vs_eqb O s1 cur) eqn:Es1; cbn [negb]; [|apply agree_mm_l; reflexivity].
    destruct (vs_eqb O s2 cur) eqn:Es2; cbn [negb]; [|apply agree_mm_r; reflexivity].
    apply vs_eqb_eq in Es1, Es2. subst s1 s2.
    destruct (generated_head _ _ _ _ _ _ G1b G2b eq_refl) as (E & G1c & G2c). injection E as <-.
    clear G1b G2b. apply agree_cons.
    destruct a1 as [v| |]; [| |apply agree_same].
    - destruct (negb (t_contains O (Pos cur) v)); [apply agree_same|].
      destruct (added_has veqb added hpk v).
      + apply agree_res_out. intros p'. exact (IH _ _ _ _ _ _ _ _ _ G1c G2c).
      + destruct tr1c as [|[| | |p1' v1' d1] tr1d]; try (apply agree_mm_l; reflexivity).
        destruct tr2c as [|[| | |p2' v2' d2] tr2d]; try (apply agree_mm_r; reflexivity).
        destruct (N.eqb_spec hpk p1') as [<-|]; cbn [andb negb]; [|apply agree_mm_l; reflexivity].
        destruct (veqb v v1') eqn:Ev1; cbn [negb]; [|apply agree_mm_l; reflexivity].
        destruct (N.eqb_spec hpk p2') as [<-|]; cbn [andb negb]; [|apply agree_mm_r; reflexivity].
        destruct (veqb v v2') eqn:Ev2; cbn [negb]; [|apply agree_mm_r; reflexivity].
        apply veqb_eq in Ev1, Ev2. subst v1' v2'.
        destruct (generated_head _ _ _ _ _ _ G1c G2c eq_refl) as (E & G1d & G2d). injection E as <-.
        clear G1c G2c. apply agree_cons.
        destruct d1 as [deps|um|]; [| |apply agree_same].
        * apply agree_res_out. intros [st3 range]. apply agree_res_out. intros p'.
          exact (IH _ _ _ _ _ _ _ _ _ G1d G2d).
        * apply agree_res_out. intros st3. exact (IH _ _ _ _ _ _ _ _ _ G1d G2d).
    - destruct (no_versions hpk (Pos cur)); [|apply agree_same].
      apply agree_res_out. intros st3. exact (IH _ _ _ _ _ _ _ _ _ G1c G2c).
  Qed.

  (* two recordings of runs against the same provider coincide: same result, same call trace *)
  Theorem resolve_h_deterministic : forall (prov : provider) fuel r v (tr1 tr2 : list event) o1 st1 log1 n1 o2 st2 log2 n2,
    generated_by prov [] tr1 -> generated_by prov [] tr2 ->
    resolve_h O veqb fuel r v tr1 = (o1, st1, log1, n1) ->
    resolve_h O veqb fuel r v tr2 = (o2, st2, log2, n2) ->
    is_mismatch o1 = false -> is_mismatch o2 = false ->
    (o1, st1, log1, n1) = (o2, st2, log2, n2) /\ firstn n1 tr1 = firstn n2 tr2.
  Proof.
    intros prov fuel r v tr1 tr2 o1 st1 log1 n1 o2 st2 log2 n2 G1 G2 H1 H2 M1 M2.
    pose proof (resolve_loop_h_agree prov fuel (state_init O r v) r [] [] [] tr1 tr2 0 [] G1 G2) as A.
    unfold resolve_h in H1, H2. rewrite H1, H2 in A.
    destruct (A M1 M2) as (E & k & Hk & Hf). split; [exact E|].
    injection E as _ _ _ <-. cbn [snd] in Hk. cbn [Nat.add] in Hk. subst k. exact Hf.
  Qed.

End Det.

(* ================================================================ the Range instance over Z *)
Module RTZ := RangeTables.RangeTablesP Instances.ZV.
Module RZ := Instances.RZ.

Lemma rz_vs_eqb_eq : forall a b : RZ.range, vs_eqb RZ.range_vs a b = true -> a = b.
Proof. intros a b H. apply RTZ.range_eqb_spec. exact H. Qed.

Lemma z_eqb_eq : forall a b : Z, Z.eqb a b = true -> a = b.
Proof. intros a b. apply Z.eqb_eq. Qed.

Theorem resolve_h_deterministic_range :
  forall (prov : @provider RZ.range Z) fuel r v tr1 tr2 o1 st1 log1 n1 o2 st2 log2 n2,
    generated_by prov [] tr1 -> generated_by prov [] tr2 ->
    resolve_h RZ.range_vs Z.eqb fuel r v tr1 = (o1, st1, log1, n1) ->
    resolve_h RZ.range_vs Z.eqb fuel r v tr2 = (o2, st2, log2, n2) ->
    is_mismatch o1 = false -> is_mismatch o2 = false ->
    (o1, st1, log1, n1) = (o2, st2, log2, n2) /\ firstn n1 tr1 = firstn n2 tr2.
Proof. exact (resolve_h_deterministic RZ.range_vs Z.eqb rz_vs_eqb_eq z_eqb_eq). Qed.

Print Assumptions resolve_h_erasure.
Print Assumptions resolve_h_deterministic.
Print Assumptions resolve_h_deterministic_range.
