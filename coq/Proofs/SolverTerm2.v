(* Closure of the solver under a subalgebra of version sets and a finite universe of packages: if every
   version set occurring in the store and in the partial solution belongs to a predicate [A] closed under
   empty / complement / intersection / union, and every package occurring belongs to the list [pkgs], then
   the same holds after every step of the solver model.  Exact analogue of the invariant [aux] of
   SolverQueue2 and of the [*_wf] lemmas of SolverStore / SolverSem, with [wf O L] replaced by [A], plus
   the package-membership clause. *)
From Coq Require Import List NArith ZArith Bool Lia PeanoNat.
From PG Require Import Model.VS Model.Term Model.Solver Proofs.VSLaws Proofs.TermProofs Proofs.AssocProofs
  Proofs.SolverSem Proofs.SolverStore Proofs.SolverQueue Proofs.SolverSound1 Proofs.SolverReach1.
Import ListNotations.

Section AlgInv.
  Context {VS Vr : Type} (O : VSOps VS Vr).
  Variable A : VS -> Prop.
  Hypothesis A_empty : A (vs_empty O).
  Hypothesis A_compl : forall s, A s -> A (vs_complement O s).
  Hypothesis A_inter : forall a b, A a -> A b -> A (vs_intersection O a b).
  Hypothesis A_union : forall a b, A a -> A b -> A (vs_union O a b).
  (* a consequence of VSLawful; needed by merge_dependents only: the merged dependency whose dependency
     term is absent is rebuilt by from_dependency with the empty set, and must not mention the package *)
  Hypothesis eqb_refl_empty : vs_eqb O (vs_empty O) (vs_empty O) = true.
  Variable pkgs : list pkg.

  Notation tm := (term VS).
  Definition tA (t : tm) : Prop := match t with Pos s | Neg s => A s end.
  Definition tsA (ts : list (pkg * tm)) : Prop := forall x t, In (x, t) ts -> tA t /\ In x pkgs.
  Definition paA (a : @pa VS Vr) : Prop := tA (ai_term (ai a)) /\ Forall (fun dd : @dated VS => tA (d_accum dd)) (derivs a).
  Definition psA (p : @psol VS Vr) : Prop := forall q a, get q (assignments p) = Some a -> In q pkgs /\ paA a.
  Definition algI (st : @state VS Vr) : Prop := Forall (fun ci : @incompat VS Vr => tsA (terms ci)) (store st) /\ psA (ps st).

  (* ---------------------------------------------------------------- terms *)
  Lemma tA_negate t : tA t -> tA (t_negate t).
  Proof. destruct t; cbn; auto. Qed.

  Lemma tA_intersection t u : tA t -> tA u -> tA (t_intersection O t u).
  Proof. destruct t, u; cbn; auto. Qed.

  Lemma tA_union t u : tA t -> tA u -> tA (t_union O t u).
  Proof. destruct t, u; cbn; auto. Qed.

  Lemma algI_nth st id ci : algI st -> nth_error (store st) id = Some ci -> tsA (terms ci).
  Proof. intros [H _] Hn. rewrite Forall_forall in H. apply H. eapply nth_error_In; eauto. Qed.

  Lemma tsA_get ts q t : tsA ts -> get q ts = Some t -> tA t /\ In q pkgs.
  Proof. intros H Hg. apply get_In in Hg. exact (H _ _ Hg). Qed.

  Lemma psA_term_for p q t : psA p -> term_for p q = Some t -> tA t /\ In q pkgs.
  Proof.
    intros Hp. unfold term_for. destruct (get q (assignments p)) as [a|] eqn:E; cbn [option_map]; [|discriminate].
    intros H. injection H as <-. destruct (Hp _ _ E) as [Hq [Ht _]]. auto.
  Qed.

  (* ---------------------------------------------------------------- term lists *)
  Lemma tsA_nil : tsA [].
  Proof. intros x t []. Qed.

  Lemma tsA_cons p t ts : tA t -> In p pkgs -> tsA ts -> tsA ((p, t) :: ts).
  Proof. intros Ht Hp Hts x u [H|H]; [injection H as <- <-; auto|exact (Hts _ _ H)]. Qed.

  Lemma tsA_one p t : tA t -> In p pkgs -> tsA [(p, t)].
  Proof. intros Ht Hp. apply tsA_cons; [exact Ht|exact Hp|exact tsA_nil]. Qed.

  Lemma tsA_app ts ts' : tsA ts -> tsA ts' -> tsA (ts ++ ts').
  Proof. intros H H' x t Hin. apply in_app_or in Hin. destruct Hin; [exact (H _ _ H0)|exact (H' _ _ H0)]. Qed.

  Lemma remove_In (p : pkg) (m : list (pkg * tm)) e : In e (remove p m) -> In e m.
  Proof.
    induction m as [|[k t] m IH]; cbn; [tauto|].
    destruct (N.eqb p k); [intros H; right; exact (IH H)|]. intros [H|H]; [now left|right; exact (IH H)].
  Qed.

  Lemma set_In (p : pkg) (u : tm) (m : list (pkg * tm)) e : In e (set p u m) -> e = (p, u) \/ In e m.
  Proof.
    induction m as [|[k t] m IH]; cbn.
    - intros [H|[]]. now left.
    - destruct (N.eqb p k).
      + intros [H|H]; [now left|right; now right].
      + intros [H|H]; [right; now left|]. destruct (IH H); [now left|right; now right].
  Qed.

  Lemma tsA_remove p (m : list (pkg * tm)) : tsA m -> tsA (remove p m).
  Proof. intros H x t Hin. apply H. eapply remove_In; eauto. Qed.

  Lemma tsA_set p t (m : list (pkg * tm)) : tA t -> In p pkgs -> tsA m -> tsA (set p t m).
  Proof. intros Ht Hp H x u Hin. apply set_In in Hin. destruct Hin as [E|Hin]; [injection E as -> ->; auto|exact (H _ _ Hin)]. Qed.

  Lemma tsA_merge_terms (other : list (pkg * tm)) : forall m, tsA m -> tsA other -> tsA (merge_terms O m other).
  Proof.
    induction other as [|[k t2] other IH]; intros m Hm Ho; cbn [merge_terms]; [exact Hm|].
    destruct (Ho k t2 (or_introl eq_refl)) as [H2 Hk].
    apply IH; [|intros x t Hin; apply Ho; now right].
    destruct (get k m) as [t1|] eqn:E.
    - apply tsA_set; [|exact Hk|exact Hm]. apply tA_intersection; [exact (proj1 (tsA_get _ _ _ Hm E))|exact H2].
    - apply tsA_app; [exact Hm|]. now apply tsA_one.
  Qed.

  (* ---------------------------------------------------------------- the initial state *)
  Lemma algI_init r rv : A (vs_singleton O rv) -> In r pkgs -> algI (state_init O r rv).
  Proof.
    intros Hv Hr. split; cbn [store ps state_init].
    - constructor; [|constructor]. cbn [terms not_root]. now apply tsA_one.
    - intros q a. cbn. discriminate.
  Qed.

  (* ---------------------------------------------------------------- partial-solution steps *)
  Lemma psA_add_derivation p q cause cts p' : psA p -> tsA cts -> add_derivation O p q cause cts = Good p' -> psA p'.
  Proof.
    intros Hp Hc E. destruct (add_derivation_get O _ _ _ _ _ E) as (ct & a' & Hct & _ & _ & Hget & Hcase).
    destruct (tsA_get _ _ _ Hc Hct) as [Act Hq].
    intros x b. rewrite Hget. destruct (N.eqb_spec x q) as [->|Hne]; [|apply Hp].
    intros H. injection H as <-. split; [exact Hq|].
    destruct Hcase as [(a & t & Hg & Ea & -> & _)|(_ & -> & _)].
    - destruct (Hp _ _ Hg) as [_ [Ht Hd]]. rewrite Ea in Ht. cbn [ai_term] in Ht.
      assert (Hn : tA (t_intersection O t (t_negate ct))) by (apply tA_intersection; [exact Ht|now apply tA_negate]).
      unfold paA, deriv_upd. cbn [ai ai_term derivs]. split; [exact Hn|].
      apply Forall_app. split; [exact Hd|]. constructor; [exact Hn|constructor].
    - unfold paA, deriv_new. cbn [ai ai_term derivs]. split; [now apply tA_negate|].
      constructor; [cbn [d_accum]; now apply tA_negate|constructor].
  Qed.

  Lemma psA_add_decision p q v p' :
    layout p -> psA p -> A (vs_singleton O v) -> add_decision O p q v = Good p' -> psA p'.
  Proof.
    intros Hl Hp Hv E. destruct (add_decision_get O _ _ _ _ Hl E) as (a & t & Hg & _ & _ & _ & _ & Hget).
    intros x b. rewrite Hget. destruct (N.eqb_spec x q) as [->|Hne]; [|apply Hp].
    intros H. injection H as <-. destruct (Hp _ _ Hg) as [Hq [_ Hd]]. split; [exact Hq|].
    unfold paA, decide_upd. cbn [ai ai_term derivs]. split; [exact Hv|exact Hd].
  Qed.

  Lemma paA_backtrack Lv (a a' : @pa VS Vr) : paA a -> backtrack_pa Lv a = Good (Some a') -> paA a'.
  Proof.
    intros [Ht Hd] Hb. apply backtrack_pa_cases in Hb.
    destruct Hb as (_ & [[-> _]|(_ & pre & dl & rest & Er & _ & _ & Er' & Ea')]); [split; assumption|].
    apply Forall_rev in Hd. rewrite Er in Hd. apply Forall_app in Hd. destruct Hd as [_ Hd].
    unfold paA. rewrite Ea'. cbn [ai_term]. split; [now inversion Hd|].
    rewrite <- (rev_involutive (derivs a')), Er'. apply Forall_rev. exact Hd.
  Qed.

  Lemma psA_backtrack p Lv p' : layout p -> psA p -> ps_backtrack p Lv = Good p' -> psA p'.
  Proof.
    intros Hl Hp E x a' Hg. destruct (ps_backtrack_get_some _ _ _ Hl E x a' Hg) as (a & Hga & Hb).
    destruct (Hp _ _ Hga) as [Hq Ha]. split; [exact Hq|]. eapply paA_backtrack; eauto.
  Qed.

  Lemma psA_same_asg p p' : assignments p' = assignments p -> psA p -> psA p'.
  Proof. unfold psA. intros E H. rewrite E. exact H. Qed.

  (* ---------------------------------------------------------------- state steps *)
  Lemma algI_cache st c : algI st -> algI (upd_cache st c).
  Proof. intros [H1 H2]. split; assumption. Qed.

  Lemma algI_upd_ps st p' : algI st -> psA p' -> algI (upd_ps st p').
  Proof. intros [H1 _] H2. split; assumption. Qed.

  Lemma algI_deriv st q id ci p' c :
    algI st -> nth_error (store st) id = Some ci -> add_derivation O (ps st) q id (terms ci) = Good p' ->
    algI (upd_cache (upd_ps st p') c).
  Proof.
    intros H Hn E. apply algI_cache. apply algI_upd_ps; [exact H|].
    eapply psA_add_derivation; [exact (proj2 H)| |exact E]. eapply algI_nth; eauto.
  Qed.

  Lemma algI_decide st q v p' :
    layout (ps st) -> algI st -> A (vs_singleton O v) -> add_decision O (ps st) q v = Good p' -> algI (upd_ps st p').
  Proof. intros Hl H Hv E. apply algI_upd_ps; [exact H|]. eapply psA_add_decision; [exact Hl|exact (proj2 H)|exact Hv|exact E]. Qed.

  Lemma tsA_prior_cause i j ti tj p pc : tsA ti -> tsA tj -> prior_cause O i j ti tj p = Good pc -> tsA (terms pc).
  Proof.
    intros Wi Wj. unfold prior_cause, bind, req.
    destruct (get p ti) as [t1|] eqn:E1; [|discriminate]. destruct (get p tj) as [t2|] eqn:E2; [|discriminate].
    intros E. injection E as <-. cbn [terms].
    assert (Wr : tsA (merge_terms O (remove p ti) (remove p tj))) by (apply tsA_merge_terms; now apply tsA_remove).
    destruct (tsA_get _ _ _ Wi E1) as [H1 Hp]. destruct (tsA_get _ _ _ Wj E2) as [H2 _].
    destruct (t_eqb O _ _); [exact Wr|]. apply tsA_set; [now apply tA_union|exact Hp|exact Wr].
  Qed.

  Lemma algI_alloc st i : algI st -> tsA (terms i) -> algI (fst (alloc st i)).
  Proof.
    intros [Hs Hp] Hi. unfold algI, alloc; cbn [fst ps store]. split; [|exact Hp].
    apply Forall_app. split; [exact Hs|]. constructor; [exact Hi|constructor].
  Qed.

  (* [d] needs to be a known package only when the incompatibility actually mentions it *)
  Lemma tsA_from_dependency' p s d sd :
    A s -> A sd -> In p pkgs -> (vs_eqb O sd (vs_empty O) = false -> In d pkgs) ->
    tsA (terms (from_dependency O p s (d, sd))).
  Proof.
    intros Hs Hd Hp Hin. unfold from_dependency. cbn [terms]. destruct (vs_eqb O sd (vs_empty O)).
    - now apply tsA_one.
    - destruct (N.eqb p d).
      + apply tsA_one; [|exact Hp]. cbn. apply A_inter; [exact Hs|now apply A_compl].
      + apply tsA_cons; [exact Hs|exact Hp|]. apply tsA_one; [exact Hd|now apply Hin].
  Qed.

  Lemma tsA_from_dependency p s d sd : A s -> A sd -> In p pkgs -> In d pkgs -> tsA (terms (from_dependency O p s (d, sd))).
  Proof. intros Hs Hd Hp Hin. apply tsA_from_dependency'; auto. Qed.

  Lemma tsA_merge_dependents (self other mi : @incompat VS Vr) :
    tsA (terms self) -> tsA (terms other) -> merge_dependents O self other = Good (Some mi) -> tsA (terms mi).
  Proof.
    intros Hs Ho. unfold merge_dependents.
    destruct (as_dependency self) as [[p1 p2]|]; [|discriminate].
    destruct (as_dependency other) as [[q1 q2]|]; [|discriminate].
    destruct (negb _); [discriminate|]. destruct (N.eqb p1 p2); [discriminate|].
    destruct (negb _); [discriminate|]. unfold bind, req.
    destruct (get p1 (terms self)) as [t1|] eqn:E1; [|discriminate].
    destruct (get p1 (terms other)) as [t2|] eqn:E2; [|discriminate].
    destruct (tsA_get _ _ _ Hs E1) as [W1 Hp1]. destruct (tsA_get _ _ _ Ho E2) as [W2 _].
    destruct t1 as [s1|]; [|discriminate]. destruct t2 as [s2|]; [|discriminate]. cbn [unwrap_positive].
    destruct (get p2 (terms self)) as [dt|] eqn:E3.
    - destruct (tsA_get _ _ _ Hs E3) as [W3 Hp2]. destruct dt as [|ds]; [discriminate|]. cbn [unwrap_negative].
      intros E. injection E as <-. apply tsA_from_dependency; [now apply A_union|exact W3|exact Hp1|exact Hp2].
    - intros E. injection E as <-. apply tsA_from_dependency'; [now apply A_union|exact A_empty|exact Hp1|].
      rewrite eqb_refl_empty. discriminate.
  Qed.

  Lemma tsA_find_merge (cur : @incompat VS Vr) pasts (stl : list (@incompat VS Vr)) past mi :
    tsA (terms cur) -> Forall (fun ci : @incompat VS Vr => tsA (terms ci)) stl ->
    find_merge O cur pasts stl = Good (Some (past, mi)) -> tsA (terms mi).
  Proof.
    intros Hc Hs. induction pasts as [|x pasts IH]; cbn [find_merge]; [discriminate|].
    unfold bind, req. destruct (nth_error stl x) as [pi|] eqn:En; [|discriminate].
    destruct (merge_dependents O cur pi) as [[m|]|] eqn:Em; [| |discriminate].
    - intros H. injection H as <- <-. eapply tsA_merge_dependents; [exact Hc| |exact Em].
      rewrite Forall_forall in Hs. apply Hs. eapply nth_error_In; eauto.
    - exact IH.
  Qed.

  Lemma algI_merge_incompatibility st id st' : algI st -> merge_incompatibility O st id = Good st' -> algI st'.
  Proof.
    intros [Hs Hp]. unfold merge_incompatibility, bind, req.
    destruct (nth_error (store st) id) as [cur|] eqn:En; [|discriminate].
    assert (Wc : tsA (terms cur)) by (rewrite Forall_forall in Hs; apply Hs; eapply nth_error_In; eauto).
    destruct (as_dependency cur) as [key|].
    - destruct (find_merge O cur _ (store st)) as [[[past mi]|]|] eqn:Ef; [| |discriminate].
      + destruct (has_any O (terms mi)); [discriminate|]. intros E. injection E as <-. unfold algI; cbn [ps store].
        split; [|exact Hp]. apply Forall_app. split; [exact Hs|]. constructor; [|constructor]. eapply tsA_find_merge; eauto.
      + destruct (has_any O (terms cur)); [discriminate|]. intros E. injection E as <-. unfold algI; cbn [ps store]. auto.
    - destruct (has_any O (terms cur)); [discriminate|]. intros E. injection E as <-. unfold algI; cbn [ps store]. auto.
  Qed.

  Lemma algI_add_incompatibility st i st' : algI st -> tsA (terms i) -> add_incompatibility O st i = Good st' -> algI st'.
  Proof.
    intros Ha Hi. unfold add_incompatibility. cbn. intros E. eapply algI_merge_incompatibility; [|exact E].
    exact (algI_alloc st i Ha Hi).
  Qed.

  Lemma algI_backtrack st inc chg Lv st' : layout (ps st) -> algI st -> backtrack O st inc chg Lv = Good st' -> algI st'.
  Proof.
    intros Hl [Hs Hp]. unfold backtrack, bind. destruct (ps_backtrack (ps st) Lv) as [p'|] eqn:Ep; [|discriminate].
    pose proof (psA_backtrack _ _ _ Hl Hp Ep) as Hp'.
    assert (H1 : algI {| root := root st; rootv := rootv st; index := index st;
                         contradicted := filter (fun e => Nat.leb (snd e) Lv) (contradicted st);
                         merged := merged st; ps := p'; store := store st |}) by (split; assumption).
    destruct chg; [apply algI_merge_incompatibility; exact H1|]. intros E. now injection E as <-.
  Qed.

  Lemma algI_merge_range ids : forall st st', algI st -> merge_range O st ids = Good st' -> algI st'.
  Proof.
    induction ids as [|id ids IH]; intros st st' Hst; cbn [merge_range].
    - intros E. now injection E as <-.
    - unfold bind. destruct (merge_incompatibility O st id) as [st1|] eqn:E; [|discriminate].
      apply IH. eapply algI_merge_incompatibility; eauto.
  Qed.

  Lemma algI_add_from_deps st p v deps st' range :
    algI st -> A (vs_singleton O v) -> In p pkgs -> (forall d sd, In (d, sd) deps -> A sd /\ In d pkgs) ->
    add_incompatibility_from_dependencies O st p v deps = Good (st', range) -> algI st'.
  Proof.
    intros [Hs Hp] Hv Hin Hdeps. unfold add_incompatibility_from_dependencies, bind.
    set (news := map (fun d => from_dependency O p (vs_singleton O v) d) deps).
    set (st1 := {| root := root st; rootv := rootv st; index := index st; contradicted := contradicted st;
                   merged := merged st; ps := ps st; store := store st ++ news |}).
    assert (Hst1 : algI st1).
    { split; [|exact Hp]. cbn [store st1]. apply Forall_app. split; [exact Hs|].
      unfold news. apply Forall_forall. intros i Hi. apply in_map_iff in Hi. destruct Hi as ([d sd] & <- & Hd).
      destruct (Hdeps d sd Hd) as [Hsd Hdp]. now apply tsA_from_dependency. }
    destruct (merge_range O st1 (seq (length (store st)) (length news))) as [st2|] eqn:E; [|discriminate].
    intros H. injection H as <- _. exact (algI_merge_range _ _ _ Hst1 E).
  Qed.

  Lemma psA_add_version pso p v range stl p' :
    layout pso -> psA pso -> A (vs_singleton O v) -> add_version O pso p v range stl = Good p' -> psA p'.
  Proof.
    intros Hl Hp Hv. unfold add_version. destruct (negb (backtracked pso)); [now apply psA_add_decision|].
    destruct (forallb _ _); [now apply psA_add_decision|]. intros E. now injection E as <-.
  Qed.

  (* ---------------------------------------------------------------- the external incompatibilities created by resolve_loop *)
  Lemma tsA_no_versions p s : A s -> In p pkgs -> tsA [(p, Pos s)].
  Proof. intros Hs Hp. now apply tsA_one. Qed.

  Lemma tsA_custom p v m : A (vs_singleton O v) -> In p pkgs -> tsA (terms (custom_version O p v m)).
  Proof. intros Hv Hp. cbn [terms custom_version]. now apply tsA_one. Qed.
End AlgInv.
