(* The finite-universe bitset VersionSet satisfies the laws of the required methods
   (checked by complete enumeration of the 256 masks x 8 versions, lifted with forallb_forall). *)
From Coq Require Import List Bool NArith Lia.
From PG Require Import Model.VS Proofs.VSLaws.
Import ListNotations.
Open Scope N_scope.

Definition all_masks : list N := map N.of_nat (seq 0 256).

Lemma in_all_masks a : a < 256 -> In a all_masks.
Proof.
  intros H. unfold all_masks. apply in_map_iff. exists (N.to_nat a). split; [apply N2Nat.id|].
  apply in_seq. lia.
Qed.
Lemma in_all_v8 u : In u all_v8.
Proof. destruct u; cbn; tauto. Qed.

Definition bs_mem (a : N) (u : v8) : bool := N.testbit a (v8_idx u).
Definition bs_wf (a : N) : Prop := a < 256.
Definition v8_eqb (a b : v8) : bool := v8_idx a =? v8_idx b.
Lemma v8_eqb_eq a b : v8_eqb a b = true <-> a = b.
Proof. destruct a, b; cbn; split; congruence. Qed.

Definition chk_ext : bool :=
  forallb (fun a => forallb (fun b =>
    implb (forallb (fun u => Bool.eqb (bs_mem a u) (bs_mem b u)) all_v8) (a =? b)) all_masks) all_masks.
Definition chk_compl : bool :=
  forallb (fun a => (N.lxor a 255 <? 256) &&
    forallb (fun u => Bool.eqb (bs_mem (N.lxor a 255) u) (negb (bs_mem a u))) all_v8) all_masks.
Definition chk_inter : bool :=
  forallb (fun a => forallb (fun b => (N.land a b <? 256) &&
    forallb (fun u => Bool.eqb (bs_mem (N.land a b) u) (bs_mem a u && bs_mem b u)) all_v8) all_masks) all_masks.
Definition chk_single : bool :=
  forallb (fun v => (N.shiftl 1 (v8_idx v) <? 256) &&
    forallb (fun w => Bool.eqb (bs_mem (N.shiftl 1 (v8_idx v)) w) (v8_eqb w v)) all_v8) all_v8.

Lemma chk_ext_ok : chk_ext = true. Proof. vm_compute. reflexivity. Qed.
Lemma chk_compl_ok : chk_compl = true. Proof. vm_compute. reflexivity. Qed.
Lemma chk_inter_ok : chk_inter = true. Proof. vm_compute. reflexivity. Qed.
Lemma chk_single_ok : chk_single = true. Proof. vm_compute. reflexivity. Qed.

Lemma bs_ext a b : bs_wf a -> bs_wf b -> (forall u, bs_mem a u = bs_mem b u) -> a = b.
Proof.
  intros Ha Hb H. pose proof chk_ext_ok as C. unfold chk_ext in C.
  rewrite forallb_forall in C. specialize (C a (in_all_masks a Ha)).
  rewrite forallb_forall in C. specialize (C b (in_all_masks b Hb)).
  apply N.eqb_eq. destruct (a =? b); [reflexivity|]. rewrite implb_false_r in C.
  apply negb_true_iff in C. rewrite <- C. apply forallb_forall. intros u _.
  rewrite H. apply Bool.eqb_reflx.
Qed.

Lemma bs_compl a u : bs_wf a -> bs_wf (N.lxor a 255) /\ bs_mem (N.lxor a 255) u = negb (bs_mem a u).
Proof.
  intros Ha. pose proof chk_compl_ok as C. unfold chk_compl in C.
  rewrite forallb_forall in C. specialize (C a (in_all_masks a Ha)). apply andb_prop in C as [C1 C2].
  split; [now apply N.ltb_lt|].
  rewrite forallb_forall in C2. specialize (C2 u (in_all_v8 u)). now apply Bool.eqb_prop.
Qed.

Lemma bs_inter a b u : bs_wf a -> bs_wf b ->
  bs_wf (N.land a b) /\ bs_mem (N.land a b) u = bs_mem a u && bs_mem b u.
Proof.
  intros Ha Hb. pose proof chk_inter_ok as C. unfold chk_inter in C.
  rewrite forallb_forall in C. specialize (C a (in_all_masks a Ha)).
  rewrite forallb_forall in C. specialize (C b (in_all_masks b Hb)). apply andb_prop in C as [C1 C2].
  split; [now apply N.ltb_lt|].
  rewrite forallb_forall in C2. specialize (C2 u (in_all_v8 u)). now apply Bool.eqb_prop.
Qed.

Lemma bs_single v w :
  bs_wf (N.shiftl 1 (v8_idx v)) /\ (bs_mem (N.shiftl 1 (v8_idx v)) w = true <-> w = v).
Proof.
  pose proof chk_single_ok as C. unfold chk_single in C. rewrite forallb_forall in C.
  specialize (C v (in_all_v8 v)). apply andb_prop in C as [C1 C2]. split; [now apply N.ltb_lt|].
  rewrite forallb_forall in C2. specialize (C2 w (in_all_v8 w)). apply Bool.eqb_prop in C2.
  rewrite C2. apply v8_eqb_eq.
Qed.

Definition bitset_req_lawful : ReqLawful bitset_req.
Proof.
  refine {| rl_U := v8; rl_pt := fun v => v; rl_mem := bs_mem; rl_wf := bs_wf |};
    cbn [rq_eqb rq_empty rq_singleton rq_complement rq_intersection rq_contains bitset_req bs_mask].
  - exact bs_ext.
  - intros a b. apply N.eqb_eq.
  - unfold bs_wf. lia.
  - intros v. exact (proj1 (bs_single v v)).
  - intros a Ha. exact (proj1 (bs_compl a V0 Ha)).
  - intros a b Ha Hb. exact (proj1 (bs_inter a b V0 Ha Hb)).
  - intros u. unfold bs_mem. apply N.bits_0.
  - intros v w. exact (proj2 (bs_single v w)).
  - intros a u Ha. exact (proj2 (bs_compl a u Ha)).
  - intros a b u Ha Hb. exact (proj2 (bs_inter a b u Ha Hb)).
  - reflexivity.
Defined.

Definition bitset_lawful : VSLawful bitset_vs := defaults_lawful bitset_req bitset_req_lawful.
