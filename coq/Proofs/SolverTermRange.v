(* C05 (model side), termination: non-vacuity of [Ranked] -- the instance for Range<V> (any ordered version
   type), relative to a finite list [bs] of bound values.
     alg r   := r canonical, and every bound value occurring in a segment of r is in bs;
     rank r  := the number of cells of the partition induced by bs that r contains.  The cells are the points
                [b] (b in bs), the open gaps between consecutive bounds and the two unbounded ends; each cell is
                represented by its least position: NegInf, P b At, P b After (b in bs).  (Duplicates in bs only
                repeat samples, which is harmless; bs need not be sorted.)
   Key facts: (1) the operations of Model/Range.v create no new bound value; (2) an element of the algebra is
   constant on each cell: x and the greatest sample below x have the same membership. *)
From Coq Require Import Orders OrdersFacts List Bool Lia PeanoNat ZArith.
From PG Require Import Model.Text Model.VS Model.Range Model.Instances Proofs.VSLaws Proofs.PosOrder Proofs.RangeTables
  Proofs.RangeSem Proofs.RangeInter Proofs.RangeMore Proofs.RangeCompl Proofs.RangeCtors Proofs.RangeVS
  Proofs.SolverTerm1.
Import ListNotations.
Local Open Scope nat_scope.

(* ---- counting the elements of a list that satisfy a boolean predicate ---- *)
Lemma filter_len_le {A} (f : A -> bool) l : length (filter f l) <= length l.
Proof. induction l as [|x l IH]; cbn; [lia|]. destruct (f x); cbn; lia. Qed.

Lemma filter_len_mono {A} (f g : A -> bool) l :
  (forall x, In x l -> f x = true -> g x = true) -> length (filter f l) <= length (filter g l).
Proof.
  induction l as [|x l IH]; intros H; cbn; [lia|].
  assert (IH' : length (filter f l) <= length (filter g l)) by (apply IH; intros y Hy; apply H; now right).
  destruct (f x) eqn:Ef.
  - rewrite (H x (or_introl eq_refl) Ef). cbn. lia.
  - destruct (g x); cbn; lia.
Qed.

Lemma filter_len_eq {A} (f g : A -> bool) l :
  (forall x, In x l -> f x = true -> g x = true) -> length (filter f l) = length (filter g l) ->
  forall x, In x l -> f x = g x.
Proof.
  induction l as [|y l IH]; intros H E x Hx; [destruct Hx|].
  assert (Hl : forall z, In z l -> f z = true -> g z = true) by (intros z Hz; apply H; now right).
  pose proof (filter_len_mono f g l Hl) as Hm.
  cbn in E. destruct (f y) eqn:Ef.
  - pose proof (H y (or_introl eq_refl) Ef) as Eg. rewrite Eg in E. cbn in E.
    destruct Hx as [<-|Hx]; [congruence|]. apply IH; auto.
  - destruct (g y) eqn:Eg; cbn in E.
    + exfalso. lia.
    + destruct Hx as [<-|Hx]; [congruence|]. apply IH; auto.
Qed.

Module RangeRankedP (V : UsualOrderedTypeFull).
  Module Export RVi := RangeVSP V.

  Section Bounds.
    Variable bs : list V.t.        (* the finite list of bound values *)

    (* ---- the subalgebra ---- *)
    Definition bnd_in (b : bnd) : Prop := match b with Incl v | Excl v => In v bs | Unb => True end.
    Definition seg_in (s : seg) : Prop := bnd_in (fst s) /\ bnd_in (snd s).
    Definition range_in (r : range) : Prop := Forall seg_in r.
    Definition range_alg (r : range) : Prop := canonical r /\ range_in r.

    (* ---- (1) the operations create no new bound value (no canonicity needed) ---- *)
    Lemma flip_in b : bnd_in b -> bnd_in (flip b).
    Proof. destruct b; exact (fun H => H). Qed.

    Lemma negate_in segs : forall st, bnd_in st -> range_in segs -> range_in (negate_segments st segs).
    Proof.
      induction segs as [|[v1 v2] rest IH]; intros st Hst Hr; cbn [negate_segments].
      - destruct st; [| |constructor]; (constructor; [split; [exact Hst|exact I]|constructor]).
      - inversion Hr as [|? ? [H1 H2] Hrest]; subst. cbn [fst snd] in H1, H2. constructor.
        + split; [exact Hst|now apply flip_in].
        + apply IH; [now apply flip_in|exact Hrest].
    Qed.

    Lemma complement_in r : range_in r -> range_in (complement r).
    Proof.
      intros Hr. destruct r as [|[s e] rest].
      - cbn. constructor; [split; exact I|constructor].
      - inversion Hr as [|? ? [H1 H2] Hrest]; subst. cbn [fst snd] in H1, H2.
        destruct s as [v|v|], e as [w|w|]; cbn [complement];
          try (apply negate_in; [exact I|exact Hr]);
          try (apply negate_in; [exact H2|exact Hrest]);
          try (constructor; [split; [exact I|exact H1]|constructor]).
        constructor.
    Qed.

    Lemma inter_start_in l r : bnd_in l -> bnd_in r -> bnd_in (inter_start l r).
    Proof.
      destruct l as [a|a|], r as [b|b|]; cbn; intros Hl Hr; auto;
        unfold vmax; destruct (vleb _ _); cbn; auto.
    Qed.

    Lemma inter_emit_in o e ls rs : bnd_in e -> bnd_in ls -> bnd_in rs -> range_in (inter_emit o e ls rs).
    Proof.
      intros He Hl Hr. unfold inter_emit. destruct (valid_segment o e); constructor; [|constructor].
      split; [now apply inter_start_in|exact He].
    Qed.

    Lemma intersection_in l r : range_in l -> range_in r -> range_in (intersection l r).
    Proof.
      revert r; induction l as [|[ls le] l' IHl]; intros r Hl Hr; [constructor|].
      induction r as [|[rs re] r' IHr]; [rewrite inter_nil_r; constructor|].
      inversion Hl as [|? ? [L1 L2] Hl']; subst. inversion Hr as [|? ? [R1 R2] Hr']; subst.
      cbn [fst snd] in *. rewrite inter_cons_cons. destruct (left_end_is_smaller le re).
      - apply Forall_app; split; [now apply inter_emit_in|]. apply IHl; assumption.
      - apply Forall_app; split; [now apply inter_emit_in|]. apply IHr; assumption.
    Qed.

    Lemma merge_in a b : range_in a -> range_in b -> range_in (merge a b).
    Proof.
      revert b; induction a as [|s a IHa]; intros b Ha Hb; [exact Hb|].
      induction b as [|t b IHb]; [rewrite merge_nil_r; exact Ha|].
      inversion Ha; subst. inversion Hb; subst.
      rewrite merge_cons_cons. destruct (left_start_is_smaller (fst s) (fst t)).
      - constructor; [assumption|]. apply IHa; assumption.
      - constructor; [assumption|]. apply IHb; assumption.
    Qed.

    Lemma acc_end_in a s : bnd_in a -> bnd_in s -> bnd_in (acc_end a s).
    Proof.
      destruct a as [l|l|], s as [r|r|]; cbn; intros Ha Hs; auto;
        repeat match goal with |- context [if ?c then _ else _] => destruct c end; cbn; auto.
    Qed.

    Lemma coalesce_in rest : forall acc, seg_in acc -> range_in rest -> range_in (coalesce acc rest).
    Proof.
      induction rest as [|s rest IH]; intros acc Ha Hr; cbn [coalesce].
      - constructor; [exact Ha|constructor].
      - inversion Hr as [|? ? Hs Hrest]; subst.
        destruct (end_before_start_with_gap (snd acc) (fst s)).
        + constructor; [exact Ha|]. apply IH; assumption.
        + apply IH; [|exact Hrest]. destruct Ha as [A1 A2], Hs as [S1 S2]. split; cbn [fst snd]; [exact A1|].
          now apply acc_end_in.
    Qed.

    Lemma union_in a b : range_in a -> range_in b -> range_in (union a b).
    Proof.
      intros Ha Hb. unfold union. pose proof (merge_in a b Ha Hb) as Hm.
      destruct (merge a b) as [|s rest]; [constructor|]. inversion Hm; subst. now apply coalesce_in.
    Qed.

    Lemma range_alg_empty : range_alg empty.
    Proof. split; [exact I|constructor]. Qed.
    Lemma range_alg_full : range_alg full.
    Proof. split; [exact canonical_full|]. constructor; [split; exact I|constructor]. Qed.
    Lemma range_alg_complement r : range_alg r -> range_alg (complement r).
    Proof. intros [Hc Hi]. split; [exact (proj2 (complement_spec r NegInf Hc))|now apply complement_in]. Qed.
    Lemma range_alg_intersection a b : range_alg a -> range_alg b -> range_alg (intersection a b).
    Proof. intros [Ca Ia] [Cb Ib]. split; [now apply intersection_canonical|now apply intersection_in]. Qed.
    Lemma range_alg_union a b : range_alg a -> range_alg b -> range_alg (union a b).
    Proof. intros [Ca Ia] [Cb Ib]. split; [now apply union_canonical|now apply union_in]. Qed.

    Lemma range_alg_singleton v : In v bs -> range_alg (singleton v).
    Proof.
      intros Hv. split.
      - apply single_seg_canonical. cbn. apply ple_refl.
      - constructor; [split; exact Hv|constructor].
    Qed.

    (* the other constructors of range.rs, for completeness *)
    Lemma range_alg_higher_than v : In v bs -> range_alg (higher_than v).
    Proof. intros Hv. split; [apply single_seg_canonical, le_posinf|]. constructor; [split; [exact Hv|exact I]|constructor]. Qed.
    Lemma range_alg_strictly_higher_than v : In v bs -> range_alg (strictly_higher_than v).
    Proof. intros Hv. split; [apply single_seg_canonical, le_posinf|]. constructor; [split; [exact Hv|exact I]|constructor]. Qed.
    Lemma range_alg_lower_than v : In v bs -> range_alg (lower_than v).
    Proof. intros Hv. split; [apply single_seg_canonical, neginf_le|]. constructor; [split; [exact I|exact Hv]|constructor]. Qed.
    Lemma range_alg_strictly_lower_than v : In v bs -> range_alg (strictly_lower_than v).
    Proof. intros Hv. split; [apply single_seg_canonical, neginf_le|]. constructor; [split; [exact I|exact Hv]|constructor]. Qed.

    (* ---- (2) the cells: one sample position per cell ---- *)
    Definition samples : list pos := NegInf :: flat_map (fun b => [P b At; P b After]) bs.
    Definition range_rank (r : range) : nat := length (filter (memb r) samples).

    Lemma lo_in_samples b : bnd_in b -> In (lo_of b) samples.
    Proof.
      unfold samples. destruct b as [v|v|]; cbn [bnd_in lo_of]; intros H; [| |now left];
        right; apply in_flat_map; exists v; (split; [exact H|]); cbn; auto.
    Qed.

    (* the greatest element of a list of positions below x *)
    Lemma greatest_below (l : list pos) x :
      (exists s, In s l /\ s <=p x) ->
      exists m, In m l /\ m <=p x /\ forall s, In s l -> s <=p x -> s <=p m.
    Proof.
      induction l as [|y l IH]; intros (s & Hs & Hsx); [destruct Hs|].
      destruct (ple_dec y x) as [Hyx|Hxy].
      - (* y is a candidate *)
        assert (D : (exists s, In s l /\ s <=p x) \/ ~ (exists s, In s l /\ s <=p x)).
        { clear. induction l as [|z l IH]; [right; intros (s & [] & _)|].
          destruct (ple_dec z x) as [Hz|Hz]; [left; exists z; split; [now left|exact Hz]|].
          destruct IH as [(s & H1 & H2)|N]; [left; exists s; split; [now right|exact H2]|].
          right. intros (s & [<-|H1] & H2); [porder|]. apply N. eauto. }
        destruct D as [E|N].
        + destruct (IH E) as (m & Hm & Hmx & Hmax). destruct (ple_dec y m) as [Hym|Hmy].
          * exists m. split; [now right|]. split; [exact Hmx|]. intros t [<-|Ht] Htx; [exact Hym|auto].
          * exists y. split; [now left|]. split; [exact Hyx|]. intros t [<-|Ht] Htx; [porder|].
            specialize (Hmax t Ht Htx). porder.
        + exists y. split; [now left|]. split; [exact Hyx|]. intros t [<-|Ht] Htx; [porder|].
          exfalso. apply N. eauto.
      - (* y is above x *)
        destruct Hs as [<-|Hs]; [exfalso; porder|].
        destruct (IH (ex_intro _ s (conj Hs Hsx))) as (m & Hm & Hmx & Hmax).
        exists m. split; [now right|]. split; [exact Hmx|]. intros t [<-|Ht] Htx; [exfalso; porder|auto].
    Qed.

    (* the representative of the cell of x *)
    Definition cell_rep (x m : pos) : Prop :=
      In m samples /\ m <=p x /\ forall s, In s samples -> s <=p x -> s <=p m.

    Lemma cell_rep_exists x : exists m, cell_rep x m.
    Proof. apply greatest_below. exists NegInf. split; [now left|apply neginf_le]. Qed.

    (* a segment with bounds in bs does not separate x from its representative *)
    Lemma in_seg_cell x m s : seg_in s -> cell_rep x m -> (in_seg x s <-> in_seg m s).
    Proof.
      intros [Hl Hh] (Hm & Hmx & Hmax). unfold in_seg, lo, hi. split; intros [H1 H2].
      - split; [|porder]. apply Hmax; [now apply lo_in_samples|exact H1].
      - split; [porder|]. destruct (ple_dec x (hi_of (snd s))) as [?|Hlt]; [assumption|]. exfalso.
        destruct (bound_unb_dec (snd s)) as [E|NE].
        + rewrite E in Hlt. cbn in Hlt. pose proof (le_posinf x). porder.
        + pose proof (hi_lt_lo_flip (snd s) NE) as Hf.
          apply (flip_hi_lo (snd s) NE) in Hlt.
          assert (lo_of (flip (snd s)) <=p m) by (apply Hmax; [apply lo_in_samples, flip_in, Hh|exact Hlt]).
          porder.
    Qed.

    (* an element of the algebra is constant on each cell *)
    Lemma den_cell r x m : range_in r -> cell_rep x m -> (den r x <-> den r m).
    Proof.
      intros Hr Hc. unfold range_in in Hr. rewrite Forall_forall in Hr.
      split; intros (s & Hs & H); exists s; (split; [exact Hs|]); now apply (in_seg_cell x m s (Hr s Hs) Hc).
    Qed.

    Lemma memb_cell r x m : range_in r -> cell_rep x m -> memb r x = memb r m.
    Proof. intros Hr Hc. apply eq_true_iff_eq. rewrite !memb_den. now apply den_cell. Qed.

    (* two elements of the algebra that agree on the samples are equal *)
    Lemma range_alg_samples_ext a b :
      range_alg a -> range_alg b -> (forall s, In s samples -> memb a s = memb b s) -> a = b.
    Proof.
      intros [Ca Ia] [Cb Ib] H. apply range_ext_eq; try assumption. intros x.
      destruct (cell_rep_exists x) as (m & Hc). rewrite <- !memb_den.
      rewrite (memb_cell a x m Ia Hc), (memb_cell b x m Ib Hc), (H m (proj1 Hc)). reflexivity.
    Qed.

    (* ---- the rank laws ---- *)
    Lemma range_rank_le r : range_rank r <= length samples.
    Proof. apply filter_len_le. Qed.

    Lemma range_rank_mono a b :
      (forall u, memb a u = true -> memb b u = true) -> range_rank a <= range_rank b.
    Proof. intros H. apply filter_len_mono. intros x _. apply H. Qed.

    Lemma range_rank_strict a b :
      range_alg a -> range_alg b -> (forall u, memb a u = true -> memb b u = true) -> a <> b ->
      range_rank a < range_rank b.
    Proof.
      intros Ha Hb H Hne. pose proof (range_rank_mono a b H) as Hle.
      destruct (Nat.eq_dec (range_rank a) (range_rank b)) as [E|NE]; [|lia]. exfalso. apply Hne.
      apply range_alg_samples_ext; try assumption.
      apply filter_len_eq; [|exact E]. intros x _. apply H.
    Qed.

    Definition range_ranked : Ranked range_vs range_lawful.
    Proof.
      refine {| alg := range_alg; rank := range_rank; rank_bound := length samples |}.
      - intros s [Hc _]. exact Hc.
      - exact range_alg_empty.
      - exact range_alg_full.
      - exact range_alg_complement.
      - exact range_alg_intersection.
      - exact range_alg_union.
      - intros s _. apply range_rank_le.
      - exact range_rank_strict.
    Defined.

    Lemma range_ranked_alg r : alg range_ranked r <-> range_alg r.
    Proof. reflexivity. Qed.
    Lemma range_ranked_singleton v : In v bs -> alg range_ranked (vs_singleton range_vs v).
    Proof. exact (range_alg_singleton v). Qed.
    Lemma range_rank_bound : rank_bound range_ranked = S (2 * length bs).
    Proof.
      change (length samples = S (2 * length bs)). unfold samples. cbn [length]. f_equal.
      induction bs as [|b l IH]; cbn; [reflexivity|]. rewrite IH. lia.
    Qed.
  End Bounds.

  (* the algebra grows with the list of bounds *)
  Lemma range_alg_incl bs bs' r : incl bs bs' -> range_alg bs r -> range_alg bs' r.
  Proof.
    intros Hi [Hc Hr]. split; [exact Hc|]. eapply Forall_impl; [|exact Hr].
    intros [s e] [H1 H2]. split; [destruct s|destruct e]; cbn in *; auto.
  Qed.

  (* every canonical range belongs to the algebra of its own bound values *)
  Definition bnd_vals (b : bnd) : list V.t := match b with Incl v | Excl v => [v] | Unb => [] end.
  Definition range_bounds (r : range) : list V.t := flat_map (fun s : seg => bnd_vals (fst s) ++ bnd_vals (snd s)) r.
  (* [range_in] in words: every bound value occurring in a segment of r is in bs *)
  Lemma range_in_iff bs r : range_in bs r <-> incl (range_bounds r) bs.
  Proof.
    unfold range_in, range_bounds. rewrite Forall_forall. split.
    - intros H v Hv. apply in_flat_map in Hv as ([s e] & Hs & Hv). destruct (H _ Hs) as [H1 H2].
      cbn [fst snd] in *. apply in_app_or in Hv as [Hv|Hv];
        [destruct s|destruct e]; cbn in *; intuition (subst; auto).
    - intros H [s e] Hs. split; cbn [fst snd].
      + destruct s as [v|v|]; cbn [bnd_in]; try exact I; apply H, in_flat_map;
          [exists (Incl v, e)|exists (Excl v, e)]; (split; [exact Hs|cbn; now left]).
      + destruct e as [v|v|]; cbn [bnd_in]; try exact I; apply H, in_flat_map;
          [exists (s, Incl v)|exists (s, Excl v)];
          (split; [exact Hs|cbn [fst snd]; apply in_or_app; right; cbn; now left]).
  Qed.

  Lemma range_alg_own r : canonical r -> range_alg (range_bounds r) r.
  Proof. intros Hc. split; [exact Hc|]. apply range_in_iff. apply incl_refl. Qed.

  (* hence any finite family of canonical ranges lies in one ranked subalgebra *)
  Lemma range_alg_family (rs : list range) :
    Forall canonical rs -> Forall (range_alg (flat_map range_bounds rs)) rs.
  Proof.
    intros H. apply Forall_forall. intros r Hr. rewrite Forall_forall in H.
    apply (range_alg_incl (range_bounds r)); [|apply range_alg_own, H, Hr].
    intros v Hv. apply in_flat_map. exists r. auto.
  Qed.
End RangeRankedP.

(* instance check: Range<Z> *)
Module ZRanked := RangeRankedP ZV.

Print Assumptions ZRanked.range_ranked.
Print Assumptions ZRanked.range_alg_singleton.
Print Assumptions ZRanked.range_alg_family.

(* the rank computes: with bounds 1,2,3 the range [1,3) contains the cells [1], (1,2), [2], (2,3);
   its complement the three cells (-inf,1), [3], (3,+inf); the bound is 2*3+1 *)
Module ZRankedEx.
  Import ZRanked.
  Local Open Scope Z_scope.
  Example z_rank_between : range_rank [1; 2; 3] (between 1 3) = 4%nat.
  Proof. vm_compute. reflexivity. Qed.
  Example z_rank_between_compl : range_rank [1; 2; 3] (complement (between 1 3)) = 3%nat.
  Proof. vm_compute. reflexivity. Qed.
  Example z_rank_full : range_rank [1; 2; 3] full = 7%nat.
  Proof. vm_compute. reflexivity. Qed.
  Example z_rank_empty : range_rank [1; 2; 3] empty = 0%nat.
  Proof. vm_compute. reflexivity. Qed.
End ZRankedEx.
