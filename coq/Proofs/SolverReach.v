(* C04 (model side): every package of a returned solution is reachable from the root through the dependencies
   of the selected versions.

   Proof: the invariant [jinv] (Proofs/SolverReach1.v, SolverReach2.v) is carried through the main loop next to
   the soundness invariant [sinv] of C01.  At the [OSolution] exit, suppose a selected package [q] is not
   reachable, and take the one whose first positive derivation has the smallest global index.  Restricting the
   solution to the reachable packages gives again a solution (C01), which makes every term of the cause of
   that derivation true: the term of [q] is negative, and by (J) every other term was satisfied just before
   the derivation, by a term that was positive only for packages that are reachable (minimality).  This
   contradicts the validity of the cause (C06). *)
From Coq Require Import List NArith ZArith Bool Lia PeanoNat.
From PG Require Import Model.VS Model.Term Model.Solver Model.Registry Proofs.VSLaws Proofs.TermProofs
  Proofs.AssocProofs Proofs.SolverSem Proofs.SolverStore Proofs.SolverQueue Proofs.SolverQueue2 Proofs.SolverSound1
  Proofs.SolverSound2 Proofs.SolverSound Proofs.SolverReach1 Proofs.SolverReach2.
Import ListNotations.

Section Reach.
  Context {VS Vr : Type} (O : VSOps VS Vr) (L : VSLawful O) (veqb : Vr -> Vr -> bool).
  Context (reg : registry (VS := VS) (Vr := Vr)) (r : pkg) (rv : Vr).
  Hypothesis Hregwf : reg_wf O L reg.
  Hypothesis veqb_eq : forall a b, veqb a b = true -> a = b.

  Notation tm := (term VS).
  Notation pa := (@pa VS Vr).
  Notation dated := (@dated VS).
  Notation psol := (@psol VS Vr).
  Notation state := (@state VS Vr).
  Notation incompat := (@incompat VS Vr).
  Notation event := (@event VS Vr).
  Notation full_ok := (full_ok O L reg r rv).
  Notation ext_ok := (ext_ok O L reg r rv).
  Notation sinv := (sinv O L reg r rv).
  Notation jinv := (jinv O L reg r rv).
  Notation Pre := (Pre O L reg r rv).
  Notation GoodSol := (GoodSol O reg r rv).
  Notation sat := (sat_term O).
  Notation tle := (tle O).
  Local Notation asg st := (assignments (ps st)).

  (* reachability from the root through the dependencies of the SELECTED versions *)
  Inductive reach (sol : list (pkg * Vr)) : pkg -> Prop :=
  | reach_root : reach sol r
  | reach_dep p v ds q s :
      reach sol p -> get p sol = Some v -> reg_deps reg p v = Some ds -> In (q, s) ds -> reach sol q.

  (* ---------------------------------------------------------------- reachability is decidable for a finite solution *)
  Definition edgeb (p : pkg) (v : Vr) (q : pkg) : bool :=
    match reg_deps reg p v with
    | Some ds => existsb (fun d => N.eqb (fst d) q) ds
    | None => false
    end.

  (* reachable in at most n steps *)
  Fixpoint reachn (sol : list (pkg * Vr)) (n : nat) (q : pkg) : bool :=
    match n with
    | 0 => N.eqb q r
    | S n' => reachn sol n' q || existsb (fun e => reachn sol n' (fst e) && edgeb (fst e) (snd e) q) sol
    end.

  Definition reachb (sol : list (pkg * Vr)) (q : pkg) : bool := reachn sol (length sol) q.

  Lemma edgeb_spec p v q : edgeb p v q = true <-> exists ds s, reg_deps reg p v = Some ds /\ In (q, s) ds.
  Proof.
    unfold edgeb. destruct (reg_deps reg p v) as [ds|]; [|split; [discriminate|intros (? & ? & H & _); discriminate]].
    rewrite existsb_exists. split.
    - intros ([q' s] & Hin & Hq). cbn in Hq. apply N.eqb_eq in Hq. subst q'. eauto.
    - intros (ds' & s & E & Hin). injection E as <-. exists (q, s). split; [exact Hin|apply N.eqb_refl].
  Qed.

  Section Finite.
    Variable sol : list (pkg * Vr).
    Hypothesis Hnd : NoDup (map fst sol).

    Lemma reachn_sound n : forall q, reachn sol n q = true -> reach sol q.
    Proof.
      induction n as [|n IH]; intros q; cbn [reachn].
      - intros H. apply N.eqb_eq in H. subst q. constructor.
      - intros H. apply orb_prop in H. destruct H as [H|H]; [auto|].
        apply existsb_exists in H. destruct H as ([p v] & Hin & H). cbn [fst snd] in H.
        apply andb_prop in H. destruct H as [H1 H2]. apply edgeb_spec in H2. destruct H2 as (ds & s & Hd & Hq).
        eapply reach_dep; [exact (IH p H1)|exact (In_get _ _ _ Hnd Hin)|exact Hd|exact Hq].
    Qed.

    Lemma reachn_mono n q : reachn sol n q = true -> reachn sol (S n) q = true.
    Proof. intros H. cbn [reachn]. now rewrite H. Qed.

    Lemma reachn_root n : reachn sol n r = true.
    Proof. induction n as [|n IH]; [apply N.eqb_refl|now apply reachn_mono]. Qed.

    Definition stable (n : nat) : bool :=
      forallb (fun x => Bool.eqb (reachn sol (S n) x) (reachn sol n x)) (map fst sol).

    Lemma stable_spec n : stable n = true <-> forall x, In x (map fst sol) -> reachn sol (S n) x = reachn sol n x.
    Proof.
      unfold stable. rewrite forallb_forall. split; intros H x Hx; [apply eqb_prop|apply eqb_true_iff]; auto.
    Qed.

    Lemma existsb_ext' {A} (f g : A -> bool) (l : list A) : (forall x, In x l -> f x = g x) -> existsb f l = existsb g l.
    Proof.
      induction l as [|x l IH]; cbn; [reflexivity|]. intros H. rewrite (H x (or_introl eq_refl)), IH; [reflexivity|].
      intros y Hy. apply H. now right.
    Qed.

    Lemma stable_next n : stable n = true -> forall q, reachn sol (S (S n)) q = reachn sol (S n) q.
    Proof.
      intros Hs q. rewrite stable_spec in Hs.
      change (reachn sol (S (S n)) q) with
        (reachn sol (S n) q || existsb (fun e => reachn sol (S n) (fst e) && edgeb (fst e) (snd e) q) sol).
      rewrite (existsb_ext' (fun e => reachn sol (S n) (fst e) && edgeb (fst e) (snd e) q)
                            (fun e => reachn sol n (fst e) && edgeb (fst e) (snd e) q)).
      - cbn [reachn]. destruct (reachn sol n q), (existsb _ sol); reflexivity.
      - intros e He. rewrite (Hs (fst e)); [reflexivity|]. now apply in_map.
    Qed.

    Lemma stable_from k : stable k = true -> forall j, stable (k + j) = true.
    Proof.
      intros Hk j. induction j as [|j IH]; [now rewrite Nat.add_0_r|].
      replace (k + S j) with (S (k + j)) by lia. apply stable_spec. intros x _. now apply stable_next.
    Qed.

    Definition count (n : nat) : nat := length (filter (reachn sol n) (map fst sol)).

    Lemma filter_count_lt {A} (f g : A -> bool) (l : list A) q :
      (forall x, f x = true -> g x = true) -> In q l -> f q = false -> g q = true ->
      length (filter f l) < length (filter g l).
    Proof.
      intros Hfg. assert (Hle : forall l0, length (filter f l0) <= length (filter g l0)).
      { induction l0 as [|x l0 IH]; cbn; [lia|]. destruct (f x) eqn:Ef; [rewrite (Hfg x Ef); cbn; lia|].
        destruct (g x); cbn; lia. }
      induction l as [|x l IH]; intros Hin Hf Hg; [destruct Hin|]. cbn [filter]. destruct Hin as [->|Hin].
      - rewrite Hf, Hg. cbn. specialize (Hle l). lia.
      - specialize (IH Hin Hf Hg). destruct (f x) eqn:Ef; [rewrite (Hfg x Ef); cbn; lia|]. destruct (g x); cbn; lia.
    Qed.

    Lemma filter_len_le {A} (f : A -> bool) (l : list A) : length (filter f l) <= length l.
    Proof. induction l as [|x l IH]; cbn; [lia|]. destruct (f x); cbn; lia. Qed.

    Lemma forallb_false_ex' {A} (f : A -> bool) (l : list A) : forallb f l = false -> exists x, In x l /\ f x = false.
    Proof.
      induction l as [|x l IH]; cbn; [discriminate|]. destruct (f x) eqn:E; [|exists x; auto].
      intros H. destruct (IH H) as (y & Hy & Hf). exists y. auto.
    Qed.

    Lemma stable_or_grow m : (exists k, k < m /\ stable k = true) \/ m <= count m.
    Proof.
      induction m as [|m IH]; [right; lia|]. destruct IH as [(k & Hk & Hs)|Hc]; [left; exists k; split; [lia|exact Hs]|].
      destruct (stable m) eqn:Es; [left; exists m; split; [lia|exact Es]|]. right.
      unfold stable in Es. apply forallb_false_ex' in Es. destruct Es as (x & Hx & Hne).
      assert (Hlt : count m < count (S m)).
      { unfold count. apply (filter_count_lt _ _ _ x); [intros y; apply reachn_mono|exact Hx| |].
        - destruct (reachn sol m x) eqn:E; [|reflexivity]. rewrite (reachn_mono _ _ E) in Hne. discriminate.
        - destruct (reachn sol (S m) x) eqn:E; [reflexivity|]. destruct (reachn sol m x) eqn:E'; [|discriminate].
          rewrite (reachn_mono _ _ E') in E. discriminate. }
      lia.
    Qed.

    Lemma stable_final : stable (length sol) = true.
    Proof.
      destruct (stable_or_grow (S (length sol))) as [(k & Hk & Hs)|Hc].
      - replace (length sol) with (k + (length sol - k)) by lia. now apply stable_from.
      - exfalso. unfold count in Hc. pose proof (filter_len_le (reachn sol (S (length sol))) (map fst sol)) as H.
        rewrite map_length in H. lia.
    Qed.

    (* the set is closed under the dependencies of the selected versions (targets inside the solution) *)
    Lemma reachb_closed p v q :
      reachb sol p = true -> In (p, v) sol -> edgeb p v q = true -> In q (map fst sol) -> reachb sol q = true.
    Proof.
      intros Hp Hin He Hq. unfold reachb in *. rewrite <- (proj1 (stable_spec _) stable_final q Hq).
      cbn [reachn]. apply orb_true_iff. right. apply existsb_exists. exists (p, v). split; [exact Hin|]. cbn [fst snd].
      now rewrite Hp, He.
    Qed.

    (* the solution restricted to the reachable packages is a solution *)
    Lemma restrict_solution :
      Solution O reg r rv (fun p => get p sol) ->
      Solution O reg r rv (fun p => if reachb sol p then get p sol else None).
    Proof.
      intros [Hr Hs]. split.
      - unfold reachb. now rewrite reachn_root.
      - intros p v. destruct (reachb sol p) eqn:Ep; [|discriminate]. intros Hg.
        destruct (Hs p v Hg) as (Hv & ds & Hd & Hall). split; [exact Hv|]. exists ds. split; [exact Hd|].
        intros q s Hin. destruct (Hall q s Hin) as (w & Hw & Hc). exists w. split; [|exact Hc].
        rewrite (reachb_closed p v q Ep (get_In _ _ _ Hg)); [exact Hw| |].
        + apply edgeb_spec. eauto.
        + apply get_In in Hw. change q with (fst (q, w)). now apply in_map.
    Qed.
  End Finite.

  (* ---------------------------------------------------------------- lists *)
  Lemma find_split {A} (f : A -> bool) (l : list A) x :
    find f l = Some x -> exists pre post, l = pre ++ x :: post /\ f x = true /\ Forall (fun y => f y = false) pre.
  Proof.
    induction l as [|y l IH]; cbn [find]; [discriminate|]. destruct (f y) eqn:Ef.
    - intros E. injection E as <-. exists [], l. auto.
    - intros E. destruct (IH E) as (pre & post & -> & Hx & Hpre). exists (y :: pre), post. auto.
  Qed.

  Lemma find_exists {A} (f : A -> bool) (l : list A) y : In y l -> f y = true -> exists x, find f l = Some x.
  Proof.
    induction l as [|z l IH]; [intros []|]. cbn [find]. destruct (f z) eqn:Ef; [eauto|].
    intros [->|Hin] Hy; [congruence|auto].
  Qed.

  Lemma gdesc_app (l1 l2 : list dated) x y : gdesc (l1 ++ l2) -> In x l1 -> In y l2 -> d_gidx y < d_gidx x.
  Proof.
    induction l1 as [|d l1 IH]; [intros _ []|]. cbn [app gdesc]. intros [Hf Hg] [->|Hx] Hy.
    - rewrite Forall_forall in Hf. apply Hf. apply in_or_app. now right.
    - now apply IH.
  Qed.

  Definition posd (dd : dated) : bool := t_is_positive (d_accum dd).

  (* ---------------------------------------------------------------- the final state *)
  Section Final.
    Variables (st : state) (added : list (pkg * Vr)) (sol : list (pkg * Vr)).
    Hypothesis Hs : sinv st added [].
    Hypothesis Hj : jinv st.
    Hypothesis Hup : undecided_positive (ps st) = [].
    Hypothesis Ex : extract_solution (ps st) = Good sol.

    Let Hgood : GoodSol sol := final_solution O L reg r rv st added Hs Hup sol Ex.

    Lemma sol_decided p v : get p sol = Some v -> exists a g t, get p (asg st) = Some a /\ ai a = ADecision g v t.
    Proof.
      pose proof Ex as Ex'. unfold extract_solution in Ex'. apply extract_fold in Ex'.
      intros Hg. destruct (proj1 (sol_rel_get _ _ p Ex') v Hg) as (a & g & t & Hg' & Ea).
      exists a, g, t. split; [eapply get_firstn; eauto|exact Ea].
    Qed.

    Lemma decided_sol p a g v t : get p (asg st) = Some a -> ai a = ADecision g v t -> get p sol = Some v.
    Proof.
      pose proof Ex as Ex'. unfold extract_solution in Ex'. apply extract_fold in Ex'.
      pose proof (sv_lay _ _ _ _ _ _ _ _ (proj1 Hs)) as H2.
      intros Hg Ea. apply (proj1 (proj2 (sol_rel_get _ _ p Ex')) a g v t); [|exact Ea].
      pose proof Hg as Hin. apply get_In in Hin. apply In_nth_error in Hin. destruct Hin as (i & Hi).
      assert (Hlt : i < level (ps st)).
      { destruct (Nat.lt_ge_cases i (level (ps st))) as [|Hge]; [assumption|].
        pose proof (lay_der _ H2 i p a Hi Hge) as Hd. unfold decided in Hd. rewrite Ea in Hd. discriminate. }
      apply In_get; [apply nodup_firstn; exact (lay_keys _ H2)|].
      apply (nth_error_In _ i). now rewrite nth_error_firstn'.
    Qed.

    (* at the end a package whose term is positive is decided *)
    Lemma positive_decided x ax : get x (asg st) = Some ax -> sat (ai_term (ai ax)) None = false -> decided ax = true.
    Proof.
      intros Hg Hn. unfold decided. destruct (ai ax) as [g w t|t] eqn:Ea; [reflexivity|]. exfalso.
      cbn [ai_term] in Hn. destruct t as [s|s]; [|discriminate].
      assert (Hin : In (x, s) (undecided_positive (ps st))).
      { apply undecided_positive_in. apply get_In in Hg. apply In_nth_error in Hg. destruct Hg as (i & Hi).
        exists i, ax. split; [exact Hi|]. unfold pos_set. now rewrite Ea. }
      rewrite Hup in Hin. destruct Hin.
    Qed.

    Lemma decided_first_pos x ax : get x (asg st) = Some ax -> decided ax = true -> exists dx, find posd (derivs ax) = Some dx.
    Proof.
      intros Hg Hd. destruct (proj1 (j_pa _ _ _ _ _ _ Hj x ax Hg)) as [_ G2].
      unfold decided in Hd. destruct (ai ax) as [g w t|t] eqn:Ea; [|discriminate].
      destruct (G2 g w t eq_refl) as (_ & dl & rest & Er & Hp).
      apply (find_exists posd _ dl); [|exact Hp]. apply in_rev. rewrite Er. now left.
    Qed.

    (* strong induction on the global index of the first positive derivation *)
    Lemma first_pos_reach n : forall q a dd0,
      get q (asg st) = Some a -> decided a = true -> find posd (derivs a) = Some dd0 -> d_gidx dd0 < n ->
      reachb sol q = true.
    Proof.
      destruct Hgood as (Hsol & Hnd & _).
      pose proof Hj as [H1 H2 H3 H4 H5].
      induction n as [|n IH]; intros q a dd0 Hga Hda Hf Hlt; [lia|].
      destruct (Nat.eq_dec (d_gidx dd0) n) as [Hn|Hn]; [|apply (IH q a dd0 Hga Hda Hf); lia].
      destruct (reachb sol q) eqn:Erq; [reflexivity|]. exfalso.
      (* the cause of the first positive derivation *)
      destruct (find_split _ _ _ Hf) as (pre & post & Eds & Hpos & Hpre).
      destruct (H5 q a Hga) as [_ P2].
      assert (Er : rev (derivs a) = rev post ++ dd0 :: rev pre).
      { rewrite Eds, rev_app_distr. cbn [rev]. now rewrite <- app_assoc. }
      destruct (jr_in O _ _ _ _ P2 _ _ _ Er) as (I & ct & HnI & Hct & Hacc & Hoth).
      destruct (store_just_nth O L reg r rv _ (proj1 (proj1 H1)) _ _ HnI) as (NdI & WI & VI).
      (* its term for q is negative *)
      assert (Hctn : t_is_positive ct = false).
      { unfold posd in Hpos. rewrite Hacc in Hpos. destruct (rev pre) as [|dp rp] eqn:Erp; cbn [hd_acc] in Hpos.
        - destruct ct; [discriminate|reflexivity].
        - assert (Hdp : posd dp = false).
          { rewrite Forall_forall in Hpre. apply Hpre. apply in_rev. rewrite Erp. now left. }
          unfold posd in Hdp. destruct (d_accum dp); [discriminate|]. destruct ct; [discriminate|reflexivity]. }
      apply (VI _ (restrict_solution sol Hsol)).
      intros x t Hin. destruct (N.eq_dec x q) as [->|Hne].
      { rewrite Erq. apply (In_get _ _ _ NdI) in Hin. rewrite Hct in Hin. injection Hin as <-. cbn. now rewrite Hctn. }
      destruct (Hoth x t Hin Hne) as (tx & Hb & Hle). rewrite Hn in Hb.
      destruct (lookup_before_final O L _ _ _ _ H3 Hb) as (tf & Htf & Hlef).
      unfold term_for in Htf. destruct (get x (asg st)) as [ax|] eqn:Egx; [|discriminate]. cbn in Htf. injection Htf as <-.
      pose proof (ps_chain_get O _ _ _ H3 Egx) as [_ Hch].
      destruct (reachb sol x) eqn:Erx.
      - (* a reachable package: its final choice satisfies the term it had then *)
        destruct (ai ax) as [g w t0|t0] eqn:Ea; cbn [ai_term] in Hlef.
        + rewrite (decided_sol x ax g w t0 Egx Ea). apply Hle, Hlef.
          destruct (rev (derivs ax)); [destruct Hch|]. destruct Hch as [-> _]. cbn. now apply (contains_singleton O L).
        + assert (Hns : get x sol = None).
          { destruct (get x sol) as [w|] eqn:Eg; [|reflexivity]. destruct (sol_decided x w Eg) as (a2 & g & t2 & Hg2 & Ea2).
            rewrite Egx in Hg2. injection Hg2 as <-. congruence. }
          rewrite Hns. apply Hle, Hlef.
          destruct (sat t0 None) eqn:E0; [reflexivity|]. exfalso.
          assert (Hd : decided ax = true) by (apply (positive_decided x ax Egx); rewrite Ea; exact E0).
          unfold decided in Hd. rewrite Ea in Hd. discriminate.
      - (* an unreachable package: it had no positive term yet *)
        destruct (sat tx None) eqn:Etx; [apply Hle; exact Etx|]. exfalso.
        assert (Hfn : sat (ai_term (ai ax)) None = false).
        { destruct (sat (ai_term (ai ax)) None) eqn:E0; [|reflexivity]. apply Hlef in E0. congruence. }
        pose proof (positive_decided x ax Egx Hfn) as Hdx.
        destruct (decided_first_pos x ax Egx Hdx) as (dx & Hfx).
        assert (Hgx : d_gidx dx < n).
        { destruct (find_split _ _ _ Hfx) as (prx & pox & Edx & Hpx & Hprx).
          destruct (proj1 (H5 x ax Egx)) as [G1 G2].
          unfold lookup_before in Hb. rewrite Egx in Hb. apply term_before_in in Hb.
          destruct Hb as [(dd' & Hin' & Hlt' & ->)|(gd & v' & Ea' & Hlt')].
          - assert (Hp' : posd dd' = true) by (unfold posd; cbn in Etx; now destruct (t_is_positive (d_accum dd'))).
            rewrite Edx in Hin'. apply in_app_or in Hin'. destruct Hin' as [Hin'|[<-|Hin']]; [|exact Hlt'|].
            + rewrite Forall_forall in Hprx. rewrite (Hprx _ Hin') in Hp'. discriminate.
            + assert (Erx' : rev (derivs ax) = rev pox ++ dx :: rev prx).
              { rewrite Edx, rev_app_distr. cbn [rev]. now rewrite <- app_assoc. }
              rewrite Erx' in G1. pose proof (gdesc_app _ _ dd' dx G1 ltac:(now apply -> in_rev) ltac:(now left)). lia.
          - destruct (G2 gd v' tx Ea') as (Hall & _).
            assert (d_gidx dx < gd); [|lia]. apply Hall. rewrite Edx. apply in_or_app. right. now left. }
        rewrite (IH x ax dx Egx Hdx Hfx Hgx) in Erx. discriminate.
    Qed.

    Lemma final_reach p v : In (p, v) sol -> reach sol p.
    Proof.
      destruct Hgood as (Hsol & Hnd & _). intros Hin. apply (In_get _ _ _ Hnd) in Hin.
      destruct (sol_decided p v Hin) as (a & g & t & Hga & Ea).
      assert (Hd : decided a = true) by (unfold decided; now rewrite Ea).
      destruct (decided_first_pos p a Hga Hd) as (dd0 & Hf).
      apply (reachn_sound sol Hnd (length sol)).
      exact (first_pos_reach (S (d_gidx dd0)) p a dd0 Hga Hd Hf ltac:(lia)).
    Qed.
  End Final.

  (* ---------------------------------------------------------------- the main loop *)
  Definition RPost (sol : list (pkg * Vr)) (st' : state) (log' : list (@pick_info VS)) : Prop :=
    (exists added, sinv st' added []) /\ jinv st' /\ extract_solution (ps st') = Good sol
    /\ exists log0 n2, log' = log0 ++ [(undecided_positive (ps st'), [], n2)].

  Lemma resolve_loop_reach fuel : forall st next added tr n log sol st' log' cnt,
    Pre st added next -> jinv st -> WellBehaved O reg tr ->
    resolve_loop O veqb fuel st next added tr n log = (OSolution sol, st', log', cnt) -> RPost sol st' log'.
  Proof.
    induction fuel as [|fuel IH]; intros st next added tr n log sol st' log' cnt Hpre Hj Hwb; cbn [resolve_loop]; [discriminate|].
    destruct tr as [|[ok| | |] tr1]; try discriminate.
    destruct ok; cbn [negb]; [|discriminate].
    apply Forall_inv_tail in Hwb.
    destruct (unit_propagation O (S fuel) st [next]) as [[st1|st1 id]|[|s0]] eqn:Eup; try discriminate.
    2:{ destruct (build_derivation_tree (store st1) id); discriminate. }
    pose proof (up_entry O L veqb reg r rv _ _ _ _ _ Hpre Eup) as H1.
    pose proof (up_J O L veqb reg r rv _ _ _ _ Hj Eup) as Hj1.
    pose proof (do_prioritize_wb O reg (pick_candidates (ps st1)) (queue (ps st1)) tr1 (S n) Hwb) as Hprio.
    destruct (do_prioritize O (pick_candidates (ps st1)) (queue (ps st1)) tr1 (S n)) as [[[q tr2] n2]|o] eqn:Ep;
      [|destruct Hprio as (k' & w & ->); discriminate].
    pose proof (pick_qcond O L veqb reg r rv _ _ _ _ _ _ _ H1 Ep) as Hq.
    destruct (queue_max q) as [mx|] eqn:Eqm.
    2:{ unfold res_out. destruct (extract_solution (ps st1)) as [sol0|] eqn:Ex; [|discriminate].
        intros E. injection E as <- <- <- _.
        assert (q = []) by (destruct q as [|[? [? ?]] ?]; [reflexivity|discriminate]). subst q.
        split; [|split; [|split]].
        - exists added. apply queue_step; [exact H1|reflexivity|reflexivity|]. intros x z a Hz. discriminate.
        - apply queue_J; [exact Hj1|reflexivity|reflexivity|reflexivity].
        - exact Ex.
        - exists log, n2. reflexivity. }
    destruct tr2 as [|[| |p s ans|] tr3]; try discriminate.
    destruct (get p q) as [[prio qs]|] eqn:Egp; [|discriminate].
    destruct (negb (Z.eqb prio mx)); [discriminate|].
    set (st2 := upd_ps st1 _).
    assert (H2 : sinv st2 added []).
    { apply queue_step; [exact H1|reflexivity|reflexivity|]. cbn [queue]. intros x z a Hz Hg.
      destruct (N.eq_dec p x) as [<-|Hne]; [now rewrite get_remove_same in Hz|].
      rewrite get_remove_other in Hz by assumption. eapply Hq; eauto. }
    assert (Hj2 : jinv st2) by (apply queue_J; [exact Hj1|reflexivity|reflexivity|reflexivity]).
    assert (Hund : forall a, get p (asg st2) = Some a -> decided a = false).
    { intros a Hg. eapply Hq; eauto. }
    assert (Hqn : get p (queue (ps st2)) = None) by (cbn; apply get_remove_same).
    pose proof (Forall_inv Hprio) as Hev. apply Forall_inv_tail in Hprio.
    destruct (term_for (ps st2) p) as [ti|] eqn:Eti; [|discriminate].
    destruct ti as [cur_set|cur_set]; [|discriminate].
    destruct (vs_eqb O s cur_set) eqn:Es; cbn [negb]; [|discriminate].
    apply (vs_eqb_spec O L) in Es. subst s.
    pose proof (sv_ok _ _ _ _ _ _ _ _ (proj1 H2)) as Hok2.
    assert (Wcur : wf O L cur_set) by exact (term_for_wf O L _ _ _ (proj2 Hok2) Eti).
    destruct ans as [v| |]; [| |discriminate].
    - (* a version was chosen *)
      destruct (negb (t_contains O (Pos cur_set) v)); [discriminate|].
      destruct (added_has veqb added p v) eqn:Eah.
      + unfold res_out. destruct (add_decision O (ps st2) p v) as [p'|] eqn:Ed; [|discriminate].
        intros E. eapply IH; [left| |exact Hprio|exact E].
        * eapply decide_step; eauto. now apply (added_has_in veqb veqb_eq).
        * eapply decide_J; eauto.
      + destruct tr3 as [|[| | |p0 v0 dans] tr4]; try discriminate.
        destruct (N.eqb_spec p p0) as [<-|]; cbn [andb negb]; [|discriminate].
        destruct (veqb v v0) eqn:Ev; cbn [negb]; [|discriminate].
        apply veqb_eq in Ev. subst v0.
        pose proof (Forall_inv Hprio) as Hev2. apply Forall_inv_tail in Hprio.
        destruct dans as [deps|m|]; [| |discriminate].
        * (* dependencies available *)
          unfold res_out.
          destruct (add_incompatibility_from_dependencies O st2 p v deps) as [[st3 range]|] eqn:Ea; [|discriminate].
          cbn in Hev2. destruct Hev2 as (ds' & Hd & Hiff).
          assert (Hdeps : forall qd sd, In (qd, sd) deps -> wf O L sd /\ declares O reg p (vs_singleton O v) qd sd).
          { intros qd sd Hin. apply Hiff in Hin. split; [exact (Hregwf _ _ _ _ _ Hd Hin)|].
            eapply declares_singleton; eauto. }
          pose proof (add_from_dependencies_ps O _ _ _ _ _ _ Ea) as Eps.
          assert (Hok3 : full_ok st3).
          { split; [eapply add_from_dependencies_ok; [exact (proj1 Hok2)|exact Hdeps|exact Ea]|rewrite Eps; exact (proj2 Hok2)]. }
          destruct (add_from_dependencies_step O L reg r rv _ _ _ _ _ _ (proj1 Hok2) Hdeps Ea) as (S3 & W3 & D3).
          assert (H3 : sinv st3 ((p, v) :: added) []).
          { apply sinv_add.
            - eapply is_step_sinv; [exact H2|exact S3|exact W3|exact Hok3|]. intros pp a <-. apply Hund.
            - split; [exact Hev|]. rewrite Hd. intros qd sd Hin. apply D3. now apply Hiff. }
          assert (Hj3 : jinv st3).
          { destruct S3 as (_ & _ & (extra & Est & _) & _). eapply store_J; [exact Hj2|exact Eps|eauto|exact Hok3]. }
          destruct (add_version O (ps st3) p v range (store st3)) as [p'|] eqn:Eav; [|discriminate].
          intros E.
          assert (Hdc : add_decision O (ps st3) p v = Good p' ->
                        sinv (upd_ps st3 p') ((p, v) :: added) [p] /\ jinv (upd_ps st3 p')).
          { intros Ed. split.
            - eapply decide_step; [exact H3|exact Ed|now left|]. rewrite Eps. exact Hqn.
            - eapply decide_J; [exact Hj3| |exact Ed]. rewrite Eps. exact Eti. }
          assert (Hboth : sinv (upd_ps st3 p') ((p, v) :: added) [p] /\ jinv (upd_ps st3 p')).
          { unfold add_version in Eav. destruct (negb (backtracked (ps st3))); [auto|].
            destruct (forallb _ _); [auto|]. injection Eav as <-. split.
            - eapply sinv_pend; [|apply queue_step; [exact H3|reflexivity|reflexivity|exact (sv_queue _ _ _ _ _ _ _ _ (proj1 H3))]].
              intros x [].
            - apply queue_J; [exact Hj3|reflexivity|reflexivity|reflexivity]. }
          eapply IH; [left; exact (proj1 Hboth)|exact (proj2 Hboth)|exact Hprio|exact E].
        * (* dependencies unavailable *)
          unfold res_out.
          destruct (add_incompatibility O st2 (custom_version O p v m)) as [st3|] eqn:Ea; [|discriminate].
          cbn in Hev2.
          assert (Hext : ext_ok (custom_version O p v m)).
          { unfold SolverStore.ext_ok. cbn [ikind custom_version]. split; [reflexivity|]. exists v. split; [reflexivity|exact Hev2]. }
          pose proof (add_incompatibility_ps O _ _ _ Ea) as Eps.
          assert (Hok3 : full_ok st3).
          { split; [eapply add_incompatibility_ok; [exact (proj1 Hok2)|exact Hext|exact Ea]|]. rewrite Eps. exact (proj2 Hok2). }
          destruct (add_incompatibility_step O L reg r rv _ _ _ (proj1 Hok2) Hext Ea) as (S3 & W3 & C3).
          intros E. eapply IH; [left| |exact Hprio|exact E].
          -- apply (sinv_pend _ _ _ _ _ _ _ [] [p]); [intros x []|]. apply sinv_add.
             ++ eapply is_step_sinv; [exact H2|exact S3|exact W3|exact Hok3|]. intros pp a Hp. cbn in Hp. injection Hp as <-. apply Hund.
             ++ split; [exact Hev|]. rewrite Hev2. eapply C3; [reflexivity|]. cbn. now left.
          -- destruct S3 as (_ & _ & (extra & Est & _) & _). eapply store_J; [exact Hj2|exact Eps|eauto|exact Hok3].
    - (* no version: the NoVersions incompatibility *)
      cbn [no_versions]. unfold res_out.
      destruct (add_incompatibility O st2 _) as [st3|] eqn:Ea; [|discriminate].
      cbn in Hev.
      assert (Hext : ext_ok {| terms := [(p, Pos cur_set)]; ikind := KNoVersions p cur_set |}).
      { unfold SolverStore.ext_ok. cbn [ikind]. split; [reflexivity|]. split; [exact Wcur|exact Hev]. }
      pose proof (add_incompatibility_ps O _ _ _ Ea) as Eps.
      assert (Hok3 : full_ok st3).
      { split; [eapply add_incompatibility_ok; [exact (proj1 Hok2)|exact Hext|exact Ea]|]. rewrite Eps. exact (proj2 Hok2). }
      destruct (add_incompatibility_step O L reg r rv _ _ _ (proj1 Hok2) Hext Ea) as (S3 & W3 & _).
      intros E. eapply IH; [left| |exact Hprio|exact E].
      + apply (sinv_pend _ _ _ _ _ _ _ [] [p]); [intros x []|].
        eapply is_step_sinv; [exact H2|exact S3|exact W3|exact Hok3|]. intros pp a Hp. cbn in Hp. injection Hp as <-. apply Hund.
      + destruct S3 as (_ & _ & (extra & Est & _) & _). eapply store_J; [exact Hj2|exact Eps|eauto|exact Hok3].
  Qed.

  (* ---------------------------------------------------------------- C04 for the model *)
  Theorem resolve_ok_reachable fuel (tr : list event) sol st log cnt :
    WellBehaved O reg tr ->
    resolve O veqb fuel r rv tr = (OSolution sol, st, log, cnt) ->
    forall p v, In (p, v) sol -> reach sol p.
  Proof.
    intros Hwb E. pose proof E as E0. unfold resolve in E0.
    destruct (resolve_loop_reach fuel (state_init O r rv) r [] tr 0 [] sol st log cnt) as ((added & Hs) & Hj & Ex & log0 & n2 & El);
      [right; auto|apply jinv_init|exact Hwb|exact E0|].
    assert (Hup : undecided_positive (ps st) = []).
    { destruct (undecided_positive (ps st)) as [|[x s] cands] eqn:Eu; [reflexivity|]. exfalso.
      destruct (resolve_fresh O L veqb fuel r rv tr _ st log cnt (length log0) ((x, s) :: cands) [] n2 x s
                  (wellbehaved_trace_wf O L reg tr Hregwf Hwb) E) as (z & Hz); [|now left|discriminate].
      rewrite El. apply nth_error_snoc. }
    intros p v. exact (final_reach st added sol Hs Hj Hup Ex p v).
  Qed.

  (* the negative form of the property: a selected package is never one that no selected version depends on *)
  Corollary resolve_ok_no_orphan fuel (tr : list event) sol st log cnt :
    WellBehaved O reg tr ->
    resolve O veqb fuel r rv tr = (OSolution sol, st, log, cnt) ->
    forall q w, In (q, w) sol -> q <> r ->
      exists p v ds s, In (p, v) sol /\ reg_deps reg p v = Some ds /\ In (q, s) ds.
  Proof.
    intros Hwb E q w Hin Hne. pose proof (resolve_ok_reachable fuel tr sol st log cnt Hwb E q w Hin) as Hr.
    destruct Hr as [|p v ds q s Hp Hg Hd Hq]; [congruence|].
    exists p, v, ds, s. split; [now apply get_In|auto].
  Qed.
End Reach.

Print Assumptions resolve_ok_reachable.
Print Assumptions resolve_ok_no_orphan.
