(* complement; extensional equality of canonical ranges; the equalities the solver relies on. *)
From Coq Require Import Orders OrdersFacts List Bool.
From PG Require Import Model.Range Proofs.PosOrder Proofs.RangeTables Proofs.RangeSem
  Proofs.RangeInter Proofs.RangeMore.

Module RangeComplP (V : UsualOrderedTypeFull).
  Module Export RM := RangeMoreP V.

  (* precondition tying the pending start bound to the remaining segments *)
  Definition neg_pre (st : bnd) (segs : range) : Prop :=
    match segs with
    | [] => st <> Unb
    | s :: _ => lo_of st <p lo s
    end.

  Lemma lo_not_unb st (s : seg) : lo_of st <p lo s -> fst s <> Unb.
  Proof. unfold lo. intros H E. rewrite E in H. cbn in H. destruct (lo_of st); discriminate. Qed.

  Lemma hi_flip_lt b : b <> Unb -> hi_of (flip b) <p lo_of b.
  Proof.
    intros Hb. destruct (plt_dec (hi_of (flip b)) (lo_of b)) as [?|H]; [assumption|].
    apply (flip_lo_hi b Hb) in H. exfalso. porder.
  Qed.

  Lemma hi_lt_lo_flip b : b <> Unb -> hi_of b <p lo_of (flip b).
  Proof. intros Hb. apply (flip_hi_lo b Hb). porder. Qed.

  Lemma canonical_unb_end s1 rest : canonical ((s1, Unb) :: rest) -> rest = [].
  Proof.
    intros (_ & Ha & _). destruct rest as [|t rest]; [reflexivity|]. exfalso.
    cbn in Ha. destruct Ha as (y & Hy & _). unfold hi in Hy; cbn in Hy. destruct y; discriminate.
  Qed.

  Lemma neg_pre_step v1 v2 rest :
    canonical ((v1, v2) :: rest) -> v2 <> Unb -> neg_pre (flip v2) rest.
  Proof.
    intros (Hv & Ha & Hc) Hv2. destruct rest as [|t rest]; cbn.
    - destruct v2; cbn; congruence.
    - cbn in Ha. destruct Ha as (y & Hy1 & Hy2). unfold hi in Hy1; cbn [snd] in Hy1.
      apply (flip_hi_lo v2 Hv2) in Hy1. porder.
  Qed.

  Lemma negate_head st segs :
    neg_pre st segs -> exists e tl, negate_segments st segs = (st, e) :: tl.
  Proof.
    destruct segs as [|[v1 v2] rest]; cbn; intros H.
    - destruct st; [eauto|eauto|congruence].
    - eauto.
  Qed.

  Lemma negate_den segs : forall st x,
    canonical segs -> neg_pre st segs ->
    (den (negate_segments st segs) x <-> lo_of st <=p x /\ ~ den segs x).
  Proof.
    induction segs as [|[v1 v2] rest IH]; intros st x Hc Hp.
    - cbn in Hp |- *. destruct st as [v|v|]; [| |congruence];
        rewrite den_cons; unfold in_seg, lo, hi; cbn [fst snd hi_of];
        (split; [intros [[H _]|H]; [split; [exact H|apply den_nil]|destruct (den_nil _ H)]
                |intros [H _]; left; split; [exact H|apply le_posinf]]).
    - cbn [negate_segments]. pose proof Hc as (Hv & Ha & Hcr).
      unfold valid, lo, hi in Hv; cbn [fst snd] in Hv.
      cbn in Hp. unfold lo in Hp; cbn [fst] in Hp.
      assert (Hv1 : v1 <> Unb) by (intros ->; cbn in Hp; destruct (lo_of st); discriminate).
      rewrite (den_cons (st, flip v1)), (den_cons (v1, v2) rest). unfold in_seg, lo, hi; cbn [fst snd].
      rewrite <- (flip_lo_hi v1 Hv1).
      destruct (bound_unb_dec v2) as [->|Hv2].
      + rewrite (canonical_unb_end _ _ Hc). cbn [flip negate_segments].
        split.
        * intros [[H1 H2]|H]; [|destruct (den_nil _ H)]. split; [exact H1|].
          intros [[H3 _]|H3]; [porder|exact (den_nil _ H3)].
        * intros [H1 H2]. left. split; [exact H1|].
          destruct (plt_dec x (lo_of v1)) as [?|Hge]; [assumption|]. exfalso. apply H2. left.
          split; [exact Hge|apply le_posinf].
      + rewrite (IH (flip v2) x Hcr (neg_pre_step _ _ _ Hc Hv2)).
        rewrite <- (flip_hi_lo v2 Hv2). split.
        * intros [[H1 H2]|[H1 H2]].
          -- split; [exact H1|]. intros [[H3 _]|H3]; [porder|].
             pose proof (canonical_above_den _ _ _ Hcr Ha H3) as Hx. unfold hi in Hx; cbn [snd] in Hx. porder.
          -- split; [porder|]. intros [[_ H3]|H3]; [porder|tauto].
        * intros [H1 H2]. destruct (plt_dec x (lo_of v1)) as [?|Hge]; [left; split; assumption|].
          right. split; [|tauto]. destruct (plt_dec (hi_of v2) x) as [?|Hle]; [assumption|].
          exfalso. apply H2. left. split; assumption.
  Qed.

  Lemma negate_canonical segs : forall st,
    canonical segs -> neg_pre st segs -> canonical (negate_segments st segs).
  Proof.
    induction segs as [|[v1 v2] rest IH]; intros st Hc Hp.
    - cbn in Hp |- *. destruct st; [| |congruence]; cbn; repeat split; unfold valid, lo, hi; cbn; apply le_posinf.
    - cbn [negate_segments]. pose proof Hc as (Hv & Ha & Hcr).
      unfold valid, lo, hi in Hv; cbn [fst snd] in Hv.
      cbn in Hp. unfold lo in Hp; cbn [fst] in Hp.
      assert (Hv1 : v1 <> Unb) by (intros ->; cbn in Hp; destruct (lo_of st); discriminate).
      cbn [canonical]. split; [|split].
      + unfold valid, lo, hi; cbn [fst snd]. apply (flip_lo_hi v1 Hv1). exact Hp.
      + destruct (bound_unb_dec v2) as [->|Hv2].
        * rewrite (canonical_unb_end _ _ Hc). exact I.
        * destruct (negate_head (flip v2) rest (neg_pre_step _ _ _ Hc Hv2)) as (e & tl & ->).
          cbn [above]. unfold hi, lo; cbn [fst snd]. exists (lo_of v1). split.
          -- exact (hi_flip_lt v1 Hv1).
          -- pose proof (hi_lt_lo_flip v2 Hv2). porder.
      + destruct (bound_unb_dec v2) as [->|Hv2].
        * rewrite (canonical_unb_end _ _ Hc). exact I.
        * apply IH; [exact Hcr|exact (neg_pre_step _ _ _ Hc Hv2)].
  Qed.

  Lemma full_den x : den full x.
  Proof. exists (Unb, Unb). split; [now left|]. split; [apply neginf_le|apply le_posinf]. Qed.

  Lemma canonical_full : canonical full.
  Proof. cbn. repeat split. unfold valid, lo, hi; cbn. discriminate. Qed.

  Lemma neg_pre_unb_start (s : seg) rest : fst s <> Unb -> neg_pre Unb (s :: rest).
  Proof. cbn. unfold lo. destruct (fst s); cbn; intros H; try reflexivity. congruence. Qed.

  Lemma neg_pre_after_unb_seg v2 rest :
    canonical ((Unb, v2) :: rest) -> v2 <> Unb -> neg_pre (flip v2) rest.
  Proof. apply neg_pre_step. Qed.

  Lemma complement_spec r x :
    canonical r -> (den (complement r) x <-> ~ den r x) /\ canonical (complement r).
  Proof.
    intros Hc. destruct r as [|[s e] rest].
    - cbn [complement]. split; [|exact canonical_full]. split; [intros _; apply den_nil|intros _; apply full_den].
    - assert (Hfirst : forall y, den ((s, e) :: rest) y <-> (lo_of s <=p y /\ y <=p hi_of e) \/ den rest y).
      { intros y. rewrite den_cons. reflexivity. }
      pose proof Hc as (Hv & Ha & Hcr).
      destruct e as [e|e|].
      + (* end Incl *)
        destruct s as [s|s|].
        * cbn [complement]. split; [|apply negate_canonical; [exact Hc|now apply neg_pre_unb_start]].
          rewrite negate_den by (try exact Hc; now apply neg_pre_unb_start). cbn [lo_of].
          split; [tauto|]. intros H. split; [apply neginf_le|exact H].
        * cbn [complement]. split; [|apply negate_canonical; [exact Hc|now apply neg_pre_unb_start]].
          rewrite negate_den by (try exact Hc; now apply neg_pre_unb_start). cbn [lo_of].
          split; [tauto|]. intros H. split; [apply neginf_le|exact H].
        * cbn [complement].
          assert (Hp : neg_pre (Excl e) rest) by (apply (neg_pre_step Unb (Incl e) rest Hc); discriminate).
          split; [|now apply negate_canonical].
          rewrite negate_den by assumption. rewrite Hfirst.
          pose proof (flip_hi_lo (Incl e) ltac:(discriminate) x) as Hf. cbn [flip] in Hf. rewrite <- Hf.
          split.
          -- intros [H1 H2] [[_ H3]|H3]; [porder|tauto].
          -- intros H. split; [|tauto]. destruct (plt_dec (hi_of (Incl e)) x) as [?|Hle]; [assumption|].
             exfalso. apply H. left. split; [apply neginf_le|exact Hle].
      + (* end Excl *)
        destruct s as [s|s|].
        * cbn [complement]. split; [|apply negate_canonical; [exact Hc|now apply neg_pre_unb_start]].
          rewrite negate_den by (try exact Hc; now apply neg_pre_unb_start). cbn [lo_of].
          split; [tauto|]. intros H. split; [apply neginf_le|exact H].
        * cbn [complement]. split; [|apply negate_canonical; [exact Hc|now apply neg_pre_unb_start]].
          rewrite negate_den by (try exact Hc; now apply neg_pre_unb_start). cbn [lo_of].
          split; [tauto|]. intros H. split; [apply neginf_le|exact H].
        * cbn [complement].
          assert (Hp : neg_pre (Incl e) rest) by (apply (neg_pre_step Unb (Excl e) rest Hc); discriminate).
          split; [|now apply negate_canonical].
          rewrite negate_den by assumption. rewrite Hfirst.
          pose proof (flip_hi_lo (Excl e) ltac:(discriminate) x) as Hf. cbn [flip] in Hf. rewrite <- Hf.
          split.
          -- intros [H1 H2] [[_ H3]|H3]; [porder|tauto].
          -- intros H. split; [|tauto]. destruct (plt_dec (hi_of (Excl e)) x) as [?|Hle]; [assumption|].
             exfalso. apply H. left. split; [apply neginf_le|exact Hle].
      + (* end Unb: rest = [] *)
        pose proof (canonical_unb_end _ _ Hc) as ->.
        destruct s as [s|s|]; cbn [complement].
        * split; [|cbn; repeat split; unfold valid, lo, hi; cbn; discriminate].
          unfold strictly_lower_than. rewrite Hfirst, den_cons. unfold in_seg, lo, hi; cbn [fst snd].
          pose proof (flip_lo_hi (Incl s) ltac:(discriminate) x) as Hf. cbn [flip] in Hf. rewrite <- Hf.
          split.
          -- intros [[_ H]|H]; [|destruct (den_nil _ H)]. intros [[H1 _]|H1]; [porder|exact (den_nil _ H1)].
          -- intros H. left. split; [apply neginf_le|].
             destruct (plt_dec x (lo_of (Incl s))) as [?|Hge]; [assumption|]. exfalso. apply H. left.
             split; [exact Hge|apply le_posinf].
        * split; [|cbn; repeat split; unfold valid, lo, hi; cbn; discriminate].
          unfold lower_than. rewrite Hfirst, den_cons. unfold in_seg, lo, hi; cbn [fst snd].
          pose proof (flip_lo_hi (Excl s) ltac:(discriminate) x) as Hf. cbn [flip] in Hf. rewrite <- Hf.
          split.
          -- intros [[_ H]|H]; [|destruct (den_nil _ H)]. intros [[H1 _]|H1]; [porder|exact (den_nil _ H1)].
          -- intros H. left. split; [apply neginf_le|].
             destruct (plt_dec x (lo_of (Excl s))) as [?|Hge]; [assumption|]. exfalso. apply H. left.
             split; [exact Hge|apply le_posinf].
        * split; [|exact I]. split; [intros H; destruct (den_nil _ H)|].
          intros H. exfalso. apply H. apply full_den.
  Qed.

  (* ---------------- extensional equality ---------------- *)

  Lemma range_ext_eq a : forall b,
    canonical a -> canonical b -> (forall x, den a x <-> den b x) -> a = b.
  Proof.
    induction a as [|[s0 s1] ra IH]; intros b Ha Hb Hd.
    - destruct b as [|t rb]; [reflexivity|]. exfalso. destruct Hb as (Hv & _).
      apply (den_nil (lo t)). apply Hd. apply den_cons. left. split; [porder|exact Hv].
    - destruct b as [|[t0 t1] rb].
      { exfalso. destruct Ha as (Hv & _). apply (den_nil (lo (s0, s1))). apply Hd. apply den_cons. left.
        split; [porder|exact Hv]. }
      pose proof Ha as (Hva & Haa & Hca). pose proof Hb as (Hvb & Hab & Hcb).
      set (s := (s0, s1)) in *. set (t := (t0, t1)) in *.
      assert (Hlo : lo s = lo t).
      { assert (lo t <=p lo s).
        { apply (canonical_den_ge_head t rb); [exact Hb|]. apply Hd. apply den_cons. left. split; [porder|exact Hva]. }
        assert (lo s <=p lo t).
        { apply (canonical_den_ge_head s ra); [exact Ha|]. apply Hd. apply den_cons. left. split; [porder|exact Hvb]. }
        porder. }
      (* a point just above the smaller end distinguishes the two ranges *)
      assert (Hhi_aux : forall (u w : seg) ru rw, canonical (u :: ru) -> canonical (w :: rw) -> lo u = lo w ->
                  (forall x, den (u :: ru) x -> den (w :: rw) x) -> (forall x, den (w :: rw) x -> den (u :: ru) x) ->
                  ~ hi u <p hi w).
      { intros u w ru rw Hu Hw Hl H1 H2 Hlt. pose proof Hu as (Hvu & Hau & Hcu). pose proof Hw as (Hvw & _ & _).
        unfold valid in *.
        destruct ru as [|u' ru'].
        - assert (Hx : den [u] (hi w)) by (apply H2; apply den_cons; left; split; porder).
          apply den_cons in Hx. destruct Hx as [[_ Hx]|Hx]; [porder|exact (den_nil _ Hx)].
        - cbn [above] in Hau. destruct Hau as (y & Hy1 & Hy2).
          set (x := pmin y (hi w)).
          assert (Hx1 : hi u <p x) by (unfold x; destruct (pmin_spec y (hi w)) as [[? ->]|[? ->]]; porder).
          assert (Hx2 : x <=p hi w) by (unfold x; destruct (pmin_spec y (hi w)) as [[? ->]|[? ->]]; porder).
          assert (Hx3 : x <=p y) by (unfold x; destruct (pmin_spec y (hi w)) as [[? ->]|[? ->]]; porder).
          assert (Hx : den (u :: u' :: ru') x) by (apply H2; apply den_cons; left; split; porder).
          apply den_cons in Hx. destruct Hx as [[_ Hx]|Hx]; [porder|].
          pose proof (canonical_den_ge_head _ _ _ Hcu Hx). porder. }
      assert (Hhi : hi s = hi t).
      { pose proof (Hhi_aux s t ra rb Ha Hb Hlo (fun x => proj1 (Hd x)) (fun x => proj2 (Hd x))).
        pose proof (Hhi_aux t s rb ra Hb Ha (eq_sym Hlo) (fun x => proj2 (Hd x)) (fun x => proj1 (Hd x))).
        porder. }
      assert (Hst : s = t).
      { unfold s, t, lo, hi in *. cbn [fst snd] in *. apply lo_of_inj in Hlo. apply hi_of_inj in Hhi. congruence. }
      rewrite Hst. f_equal. apply IH; [exact Hca|exact Hcb|].
      intros x. split; intros Hx.
      + assert (H : den (t :: rb) x) by (apply Hd; apply den_cons; now right).
        apply den_cons in H. destruct H as [[_ H]|H]; [|exact H].
        pose proof (canonical_above_den _ _ _ Hca Haa Hx). rewrite <- Hst in H. porder.
      + assert (H : den (s :: ra) x) by (apply Hd; apply den_cons; now right).
        apply den_cons in H. destruct H as [[_ H]|H]; [|exact H].
        pose proof (canonical_above_den _ _ _ Hcb Hab Hx). rewrite Hst in H. porder.
  Qed.

  (* ---------------- the two equalities the solver's term reasoning relies on ---------------- *)

  Lemma subset_iff_inter_eq a b :
    canonical a -> canonical b -> (subset_of a b = true <-> intersection a b = a).
  Proof.
    intros Ha Hb. rewrite subset_of_spec by assumption. split.
    - intros H. apply range_ext_eq; [now apply intersection_canonical|exact Ha|].
      intros x. rewrite intersection_den by assumption. split; [tauto|auto].
    - intros E x Hx. rewrite <- E in Hx. apply intersection_den in Hx; tauto.
  Qed.

  Lemma disjoint_iff_inter_empty a b :
    canonical a -> canonical b -> (is_disjoint a b = true <-> intersection a b = []).
  Proof.
    intros Ha Hb. rewrite is_disjoint_spec by assumption. split.
    - intros H. apply range_ext_eq; [now apply intersection_canonical|exact I|].
      intros x. rewrite intersection_den by assumption. split; [intros Hx; destruct (H x Hx)|intros Hx; destruct (den_nil _ Hx)].
    - intros E x Hx. apply (den_nil x). rewrite <- E. now apply intersection_den.
  Qed.

End RangeComplP.
