(* C09, bridge to the solver: the derivation trees built by the solver model from a justified store - in
   particular every NoSolution tree of [resolve] - satisfy the hypotheses of the collapse_no_versions theorems
   of Proofs/ReportProofs.v: [tree_wf], [nv_true] on the assignments selecting existing versions,
   [locally_entailed] on every admissible set, and [related].  Corollary: when the tree holds no
   (NoVersions, NotRoot) pair, collapse_no_versions succeeds on it and the collapsed tree is still a valid
   explanation on existing versions whose top node forbids the root. *)
From Coq Require Import List NArith ZArith Bool Lia PeanoNat.
From PG Require Import Model.VS Model.Term Model.Solver Model.Registry Model.Report Proofs.VSLaws Proofs.TermProofs
  Proofs.AssocProofs Proofs.SolverSem Proofs.SolverStore Proofs.SolverTree Proofs.SolverShared Proofs.ReportProofs.
Import ListNotations.

(* "only versions that actually exist": the assignments selecting registry versions only *)
Section Existing.
  Context {VS Vr : Type}.
  Variable reg : @registry VS Vr.
  Definition existing : @assignment Vr -> Prop :=
    fun a => forall p v, a p = Some v -> In v (reg_versions reg p).
End Existing.

Section SolverCollapse.
  Context {VS Vr : Type} (O : VSOps VS Vr) (L : VSLawful O) (veqb : Vr -> Vr -> bool).
  Context (reg : registry (VS := VS) (Vr := Vr)) (r : pkg) (rv : Vr).
  Hypothesis Hregwf : reg_wf O L reg.
  Hypothesis veqb_eq : forall a b, veqb a b = true -> a = b.

  Notation tm := (term VS).
  Notation incompat := (@incompat VS Vr).
  Notation tree := (@tree VS Vr).
  Notation external := (@external VS Vr).
  Notation violates := (violates O).
  Notation store_just := (store_just O L reg r rv).

  (* ---------------------------------------------------------------- bridging: the two readings of a node's terms *)
  Lemma ext_terms_leaf_terms (e : external) : ext_terms O e = leaf_terms O e.
  Proof. reflexivity. Qed.

  Lemma node_terms_tree_terms (t : tree) : node_terms O t = tree_terms O t.
  Proof. reflexivity. Qed.

  (* ---------------------------------------------------------------- what the store justification says of a tree *)
  (* the facts about a leaf that the collapse theorems need, beyond [leaf_true] *)
  Definition leaf_just (e : external) : Prop :=
    match e with
    | XNotRoot p v => p = r /\ v = rv
    | XNoVersions p s => wf O L s /\ forall v, In v (reg_versions reg p) -> vs_contains O s v = false
    | XFromDep p s q t => wf O L s /\ wf O L t
    | XCustom _ _ _ => True
    end.

  (* every derived node is the prior cause of its two causes (the rule of resolution on some pivot) *)
  Inductive tree_just : tree -> Prop :=
  | TJ_ext e : leaf_just e -> tree_just (TExternal e)
  | TJ_der ts sh c1 c2 a b p i :
      tree_just c1 -> tree_just c2 ->
      prior_cause O a b (tree_terms O c1) (tree_terms O c2) p = Good i -> terms i = ts ->
      tree_just (TDerived ts sh c1 c2).

  Lemma tree_of_just s shared : store_just s -> forall fuel id t i,
    tree_of fuel s shared id = Some t -> nth_error s id = Some i ->
    tree_terms O t = terms i /\ tree_just t.
  Proof.
    intros Hs. induction fuel as [|fuel IH]; intros id t i Ht Hn; cbn [tree_of] in Ht; [discriminate|].
    rewrite Hn in Ht. pose proof (store_just_justified O L reg r rv s Hs id i Hn) as Hj.
    destruct (ikind i) as [p v|p sv|p sv q tv|a b|p sv m] eqn:Ek.
    - injection Ht as <-. destruct Hj as [He|a b ia ib p' _ _ Hp]; [|apply prior_cause_kind in Hp; congruence].
      unfold ext_ok in He. rewrite Ek in He. destruct He as (-> & -> & Ht). split; [now rewrite Ht|].
      constructor. cbn. auto.
    - injection Ht as <-. destruct Hj as [He|a b ia ib p' _ _ Hp]; [|apply prior_cause_kind in Hp; congruence].
      unfold ext_ok in He. rewrite Ek in He. destruct He as (Ht & Hw & Hno). split; [now rewrite Ht|].
      constructor. cbn. auto.
    - injection Ht as <-. destruct Hj as [He|a b ia ib p' _ _ Hp]; [|apply prior_cause_kind in Hp; congruence].
      unfold ext_ok in He. rewrite Ek in He. destruct He as (Ht & Hw1 & Hw2 & Hd). split; [now rewrite Ht|].
      constructor. cbn. auto.
    - destruct (tree_of fuel s shared a) as [t1|] eqn:E1; [|discriminate].
      destruct (tree_of fuel s shared b) as [t2|] eqn:E2; [|discriminate].
      injection Ht as <-. split; [reflexivity|].
      destruct Hj as [He|a' b' ia ib p' Ha Hb Hp]; [unfold ext_ok in He; rewrite Ek in He; destruct He|].
      pose proof (prior_cause_kind O _ _ _ _ _ _ Hp) as Hk. rewrite Ek in Hk. injection Hk as <- <-.
      destruct (IH a t1 ia E1 Ha) as [T1 J1]. destruct (IH b t2 ib E2 Hb) as [T2 J2].
      apply (TJ_der _ _ _ _ a b p' i); [exact J1|exact J2| |reflexivity]. rewrite T1, T2. exact Hp.
    - injection Ht as <-. destruct Hj as [He|a b ia ib p' _ _ Hp]; [|apply prior_cause_kind in Hp; congruence].
      unfold ext_ok in He. rewrite Ek in He. destruct He as (Ht & Hc). split; [now rewrite Ht|].
      constructor. exact I.
  Qed.

  Lemma tree_of_nth fuel (s : list incompat) shared id t :
    tree_of fuel s shared id = Some t -> exists i, nth_error s id = Some i.
  Proof.
    destruct fuel as [|fuel]; cbn [tree_of]; [discriminate|].
    destruct (nth_error s id) as [i|]; [eauto|discriminate].
  Qed.

  (* ---------------------------------------------------------------- T1 (a): well-formed leaf sets *)
  Lemma tree_just_wf t : tree_just t -> tree_wf O L t.
  Proof.
    induction 1 as [e He|ts sh c1 c2 a b p i _ IH1 _ IH2 _ _]; [|cbn; auto].
    destruct e; cbn in *; tauto.
  Qed.

  (* ---------------------------------------------------------------- T1 (b): NoVersions leaves true on existing versions *)
  Lemma tree_just_nv_true t : tree_just t -> nv_true O (existing reg) t.
  Proof.
    induction 1 as [e He|ts sh c1 c2 a b p i _ IH1 _ IH2 _ _]; [|cbn; auto].
    destruct e as [p v|p s|p s q t0|p s m]; cbn in *; try exact I.
    destruct He as [_ Hno]. intros a Ha v E. exact (Hno v (Ha p v E)).
  Qed.

  (* ---------------------------------------------------------------- T1 (c): entailed on every admissible set *)
  Lemma tree_ok_locally_entailed adm t : tree_ok O reg r rv t -> locally_entailed O adm t.
  Proof.
    induction 1 as [e He|ts sh c1 c2 _ IH1 _ IH2 En]; [exact I|].
    cbn. split; [|auto]. intros a _ V. destruct (En a V) as [X|X].
    - exists (node_terms O c1). split; [now left|exact X].
    - exists (node_terms O c2). split; [right; now left|exact X].
  Qed.

  (* ---------------------------------------------------------------- T1 (d): related *)
  (* the packages of a prior cause: the pivot occurs in both causes, every package of the result in one of them *)
  Lemma prior_cause_keys a b (ti tj : list (pkg * tm)) p i :
    prior_cause O a b ti tj p = Good i ->
    In p (keys ti) /\ In p (keys tj)
    /\ forall x, In x (keys (terms i)) -> x = p \/ (In x (keys ti) /\ x <> p) \/ (In x (keys tj) /\ x <> p).
  Proof.
    unfold prior_cause, bind, req.
    destruct (get p ti) as [t1|] eqn:E1; [|discriminate].
    destruct (get p tj) as [t2|] eqn:E2; [|discriminate].
    intros H. injection H as <-. cbn [terms].
    split; [|split].
    - apply get_In in E1. change p with (fst (p, t1)). now apply in_map.
    - apply get_In in E2. change p with (fst (p, t2)). now apply in_map.
    - assert (Hrest : forall x, In x (keys (merge_terms O (remove p ti) (remove p tj))) ->
                (In x (keys ti) /\ x <> p) \/ (In x (keys tj) /\ x <> p)).
      { intros x Hx. apply (merge_terms_keys O) in Hx. destruct Hx as [Hx|Hx]; apply keys_remove in Hx; auto. }
      intros x Hx. destruct (t_eqb O (t_union O t1 t2) (t_any O)).
      + right. now apply Hrest.
      + apply keys_set in Hx. destruct Hx as [->|Hx]; [now left|right; now apply Hrest].
  Qed.

  Lemma keys_single_get (p q : pkg) (u : tm) : In p (keys [(q, u)]) -> p = q.
  Proof. cbn. intros [H|[]]. now symmetry. Qed.

  Lemma from_dependency_keys p1 r1 p2 r2 x :
    In x (keys (terms (from_dependency O p1 r1 (p2, r2)))) -> x = p1 \/ x = p2.
  Proof.
    unfold from_dependency. cbn [terms].
    destruct (vs_eqb O r2 (vs_empty O)); [|destruct (N.eqb p1 p2)]; cbn; intuition.
  Qed.

  Lemma merge_to_fromdep (t : tree) p s p1 r1 p2 r2 :
    merge_no_versions O t p s = MMerged (TExternal (XFromDep p1 r1 p2 r2)) ->
    exists s1 s2, t = TExternal (XFromDep p1 s1 p2 s2).
  Proof.
    destruct t as [[]|]; cbn; try discriminate.
    destruct (N.eqb p0 p); intros H; inversion H; subst; eauto.
  Qed.

  Lemma merge_or_keep_to_fromdep (other : tree) p s ts sh d1 d2 p1 r1 p2 r2 :
    merge_or_keep O other p s (TDerived ts sh d1 d2) = CTree (TExternal (XFromDep p1 r1 p2 r2)) ->
    exists s1 s2, other = TExternal (XFromDep p1 s1 p2 s2).
  Proof.
    unfold merge_or_keep. destruct (merge_no_versions O other p s) as [m| |] eqn:M; try discriminate.
    intros H. inversion H; subst. eapply merge_to_fromdep; exact M.
  Qed.

  (* key lemma: a justified tree that collapses to a dependency leaf p1 -> p2 is about p1 and p2 only *)
  Lemma collapse_dep_keys c : tree_just c ->
    forall p1 r1 p2 r2, collapse_no_versions O c = CTree (TExternal (XFromDep p1 r1 p2 r2)) ->
    forall x, In x (keys (tree_terms O c)) -> x = p1 \/ x = p2.
  Proof.
    induction 1 as [e He|ts sh c1 c2 a b p i J1 IH1 J2 IH2 Hp Ht]; intros p1 r1 p2 r2 H x Hx.
    - cbn in H. inversion H; subst. cbn in Hx. now apply from_dependency_keys in Hx.
    - cbn [tree_terms] in Hx. subst ts.
      destruct (prior_cause_keys _ _ _ _ _ _ Hp) as (K1 & K2 & K).
      destruct (causes_cases c1 c2) as [(q & Sv & ->)|[(N1 & q & Sv & ->)|(N1 & N2)]].
      + rewrite collapse_nv_left in H.
        destruct (collapse_no_versions O c2) as [c2'|] eqn:E2; [|discriminate].
        destruct (merge_or_keep_to_fromdep _ _ _ _ _ _ _ _ _ _ _ H) as (s1 & s2 & ->).
        specialize (IH2 _ _ _ _ eq_refl).
        cbn [tree_terms leaf_terms] in K1, K. apply keys_single_get in K1. subst q.
        destruct (K x Hx) as [->|[[X NX]|[X _]]]; [now apply IH2| |now apply IH2].
        apply keys_single_get in X. contradiction.
      + rewrite collapse_nv_right in H by exact N1.
        destruct (collapse_no_versions O c1) as [c1'|] eqn:E1; [|discriminate].
        destruct (merge_or_keep_to_fromdep _ _ _ _ _ _ _ _ _ _ _ H) as (s1 & s2 & ->).
        specialize (IH1 _ _ _ _ eq_refl).
        cbn [tree_terms leaf_terms] in K2, K. apply keys_single_get in K2. subst q.
        destruct (K x Hx) as [->|[[X _]|[X NX]]]; [now apply IH1|now apply IH1|].
        apply keys_single_get in X. contradiction.
      + rewrite collapse_other in H by assumption.
        destruct (collapse_no_versions O c1); [|discriminate].
        destruct (collapse_no_versions O c2); [|discriminate]. discriminate.
  Qed.

  Lemma tree_just_related t : tree_just t -> related O t.
  Proof.
    induction 1 as [e He|ts sh c1 c2 a b p i J1 IH1 J2 IH2 Hp Ht]; [exact I|].
    destruct (prior_cause_keys _ _ _ _ _ _ Hp) as (K1 & K2 & _).
    cbn [related]. split; [|split; [|split; assumption]].
    - intros q Sv ->. cbn [tree_terms leaf_terms] in K1. apply keys_single_get in K1. subst q.
      unfold dep_ok. destruct (collapse_no_versions O c2) as [[[q v|q s|p1 r1 p2 r2|q s m]|]|] eqn:E; try exact I.
      exact (collapse_dep_keys c2 J2 _ _ _ _ E p K2).
    - intros q Sv ->. cbn [tree_terms leaf_terms] in K2. apply keys_single_get in K2. subst q.
      unfold dep_ok. destruct (collapse_no_versions O c1) as [[[q v|q s|p1 r1 p2 r2|q s m]|]|] eqn:E; try exact I.
      exact (collapse_dep_keys c1 J1 _ _ _ _ E p K1).
  Qed.

  (* ---------------------------------------------------------------- T1: trees built from a justified store *)
  Theorem tree_of_collapse_hyps s sh f id t :
    store_just s -> tree_of f s sh id = Some t ->
    tree_wf O L t /\ nv_true O (existing reg) t /\ related O t /\ (forall adm, locally_entailed O adm t).
  Proof.
    intros Hs Ht. destruct (tree_of_nth _ _ _ _ _ Ht) as (i & Hi).
    destruct (tree_of_just s sh Hs f id t i Ht Hi) as [_ J].
    destruct (tree_of_ok O L reg r rv s sh Hs f id t i Ht Hi) as [_ Ok].
    split; [exact (tree_just_wf t J)|]. split; [exact (tree_just_nv_true t J)|].
    split; [exact (tree_just_related t J)|]. intros adm. exact (tree_ok_locally_entailed adm t Ok).
  Qed.

  Theorem build_derivation_tree_collapse_hyps s id t :
    store_just s -> build_derivation_tree s id = Some t ->
    tree_wf O L t /\ nv_true O (existing reg) t /\ related O t /\ (forall adm, locally_entailed O adm t).
  Proof.
    intros Hs Hb. unfold build_derivation_tree in Hb.
    destruct (tree_dfs _ s [id] [] []) as [[all shared]|]; [|discriminate].
    exact (tree_of_collapse_hyps s shared _ id t Hs Hb).
  Qed.

  (* ---------------------------------------------------------------- T2: the NoSolution tree of resolve *)
  Theorem nosolution_tree_collapse_hyps fuel tr t st log k :
    WellBehaved O reg tr -> resolve O veqb fuel r rv tr = (ONoSolution t, st, log, k) ->
    tree_wf O L t /\ nv_true O (existing reg) t /\ related O t /\ (forall adm, locally_entailed O adm t).
  Proof.
    intros Hwb E.
    destruct (resolve_nosolution_tree O L veqb reg r rv Hregwf veqb_eq fuel tr t st log k Hwb E)
      as (Hs & id & Hb & _).
    exact (build_derivation_tree_collapse_hyps (store st) id t Hs Hb).
  Qed.

  (* ---------------------------------------------------------------- T3: collapse of the NoSolution tree *)
  Lemma top_forbids_root_violates t :
    top_forbids_root O r rv t -> forall a : assignment, a r = Some rv -> violates a (node_terms O t).
  Proof.
    intros [E|(tm0 & E & C)] a Ha; rewrite node_terms_tree_terms, E.
    - intros q u [].
    - intros q u [X|[]]. injection X as <- <-. rewrite Ha. exact C.
  Qed.

  Theorem nosolution_tree_collapses fuel tr t st log k :
    WellBehaved O reg tr -> resolve O veqb fuel r rv tr = (ONoSolution t, st, log, k) ->
    nv_notroot_pair t = false ->
    exists t',
      collapse_no_versions O t = CTree t'
      /\ locally_entailed O (existing reg) t'
      /\ nv_true O (existing reg) t' /\ tree_wf O L t' /\ nv_survivors_ok t' /\ nv_notroot_pair t' = false
      /\ (forall e', In e' (leaves t') ->
            exists e, In e (leaves t)
              /\ forall a, existing reg a -> (violates a (ext_terms O e) <-> violates a (ext_terms O e')))
      /\ (forall a, existing reg a -> a r = Some rv -> violates a (node_terms O t')).
  Proof.
    intros Hwb E Hp.
    destruct (nosolution_tree_collapse_hyps fuel tr t st log k Hwb E) as (Wf & Nv & Rel & Le).
    destruct (nosolution_tree_is_proof O L veqb reg r rv Hregwf veqb_eq fuel tr t st log k Hwb E) as [_ Top].
    destruct (collapse_no_panic_proof O t Hp) as (t' & C). exists t'.
    destruct (collapse_sem_proof O L (existing reg) t t' Nv Wf Rel (Le _) C) as (A1 & A2 & A3 & A4).
    split; [exact C|]. split; [exact A1|]. split; [exact A2|]. split; [exact A3|].
    split; [exact (collapse_nv_survivors_proof O t t' C)|]. split; [exact (collapse_result_no_pair O t t' C)|].
    split.
    - exact (collapse_leaves_proof O L (existing reg) t t' Nv Wf Rel (Le _) C).
    - intros a Ha Ra. apply (A4 a Ha). exact (top_forbids_root_violates t Top a Ra).
  Qed.

  (* ---------------------------------------------------------------- towards T4: a store-level sufficient condition *)
  (* [nv_notroot_pair t = false] follows from a property of the store alone: no derived entry has a NotRoot
     entry among its two causes.  (That the stores of [resolve] have this property is a run-level invariant of
     conflict resolution, NOT proved here.) *)
  Definition no_notroot_cause (s : list incompat) : Prop :=
    forall id i a b, nth_error s id = Some i -> ikind i = KDerived a b ->
      forall x ix p v, x = a \/ x = b -> nth_error s x = Some ix -> ikind ix <> KNotRoot p v.

  Lemma tree_of_notroot f (s : list incompat) sh x t :
    tree_of f s sh x = Some t -> is_notroot t = true ->
    exists ix p v, nth_error s x = Some ix /\ ikind ix = KNotRoot p v.
  Proof.
    destruct f as [|f]; cbn [tree_of]; [discriminate|].
    destruct (nth_error s x) as [ix|]; [|discriminate].
    destruct (ikind ix) as [p v|p sv|p sv q tv|a b|p sv m] eqn:Ek.
    - intros _ _. eauto.
    - intros H; injection H as <-; discriminate.
    - intros H; injection H as <-; discriminate.
    - destruct (tree_of f s sh a); [|discriminate]. destruct (tree_of f s sh b); [|discriminate].
      intros H; injection H as <-; discriminate.
    - intros H; injection H as <-; discriminate.
  Qed.

  Theorem tree_of_no_pair (s : list incompat) sh : no_notroot_cause s ->
    forall f id t, tree_of f s sh id = Some t -> nv_notroot_pair t = false.
  Proof.
    intros Hs. induction f as [|f IH]; intros id t Ht; [discriminate|]. cbn [tree_of] in Ht.
    destruct (nth_error s id) as [i|] eqn:Hn; [|discriminate].
    destruct (ikind i) as [p v|p sv|p sv q tv|a b|p sv m] eqn:Ek; try (injection Ht as <-; reflexivity).
    destruct (tree_of f s sh a) as [t1|] eqn:E1; [|discriminate].
    destruct (tree_of f s sh b) as [t2|] eqn:E2; [|discriminate].
    injection Ht as <-. cbn [nv_notroot_pair]. rewrite (IH _ _ E1), (IH _ _ E2).
    assert (N1 : is_notroot t1 = false).
    { destruct (is_notroot t1) eqn:Q; [|reflexivity]. exfalso.
      destruct (tree_of_notroot _ _ _ _ _ E1 Q) as (ix & p & v & Hx & Hk).
      exact (Hs id i a b Hn Ek a ix p v (or_introl eq_refl) Hx Hk). }
    assert (N2 : is_notroot t2 = false).
    { destruct (is_notroot t2) eqn:Q; [|reflexivity]. exfalso.
      destruct (tree_of_notroot _ _ _ _ _ E2 Q) as (ix & p & v & Hx & Hk).
      exact (Hs id i a b Hn Ek b ix p v (or_intror eq_refl) Hx Hk). }
    rewrite N1, N2, andb_false_r. reflexivity.
  Qed.

  Theorem nosolution_tree_no_pair fuel tr t st log k :
    WellBehaved O reg tr -> resolve O veqb fuel r rv tr = (ONoSolution t, st, log, k) ->
    no_notroot_cause (store st) -> nv_notroot_pair t = false.
  Proof.
    intros Hwb E Hs.
    destruct (resolve_nosolution_tree O L veqb reg r rv Hregwf veqb_eq fuel tr t st log k Hwb E)
      as (_ & id & Hb & _).
    unfold build_derivation_tree in Hb.
    destruct (tree_dfs _ (store st) [id] [] []) as [[all shared]|]; [|discriminate].
    exact (tree_of_no_pair (store st) shared Hs _ id t Hb).
  Qed.

End SolverCollapse.

Print Assumptions tree_of_collapse_hyps.
Print Assumptions build_derivation_tree_collapse_hyps.
Print Assumptions nosolution_tree_collapse_hyps.
Print Assumptions nosolution_tree_collapses.
Print Assumptions tree_of_no_pair.
Print Assumptions nosolution_tree_no_pair.
