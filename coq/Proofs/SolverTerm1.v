(* C05 (model side), termination, part 1: vocabulary.
   - [Ranked]: a finite "ranked" subalgebra of the version sets (closed under the operations, with a rank
     that is strictly monotone for strict semantic inclusion and bounded);
   - the rank of a term [trank] and its strict monotonicity w.r.t. inclusion over the universe ([tleU]);
   - a derivation from an inconclusive term strictly shrinks the term of its package ([deriv_strict]);
   - the arithmetic of the lexicographic potential: [enc] (digits in base B), [PhiE]. *)
From Coq Require Import List NArith Bool Lia PeanoNat.
From PG Require Import Model.VS Model.Term Model.Solver Proofs.VSLaws Proofs.TermProofs Proofs.SolverNoPanic1.
Import ListNotations.

Record Ranked {VS Vr : Type} (O : VSOps VS Vr) (L : VSLawful O) := {
  alg : VS -> Prop;
  alg_wf : forall s, alg s -> wf O L s;
  alg_empty : alg (vs_empty O);
  alg_full : alg (vs_full O);
  alg_compl : forall s, alg s -> alg (vs_complement O s);
  alg_inter : forall a b, alg a -> alg b -> alg (vs_intersection O a b);
  alg_union : forall a b, alg a -> alg b -> alg (vs_union O a b);
  rank : VS -> nat;
  rank_bound : nat;
  rank_le : forall s, alg s -> rank s <= rank_bound;
  rank_strict : forall a b, alg a -> alg b ->
      (forall u, mem O L a u = true -> mem O L b u = true) -> a <> b -> rank a < rank b;
}.
Arguments alg {VS Vr O L}. Arguments alg_wf {VS Vr O L}. Arguments alg_empty {VS Vr O L}.
Arguments alg_full {VS Vr O L}. Arguments alg_compl {VS Vr O L}. Arguments alg_inter {VS Vr O L}.
Arguments alg_union {VS Vr O L}. Arguments rank {VS Vr O L}. Arguments rank_bound {VS Vr O L}.
Arguments rank_le {VS Vr O L}. Arguments rank_strict {VS Vr O L}.

Section TermRank.
  Context {VS Vr : Type} (O : VSOps VS Vr) (L : VSLawful O) (R : Ranked O L).
  Notation tm := (term VS).
  Notation twf := (twf O L).
  Notation tleU := (tleU O L).

  (* a term over the subalgebra *)
  Definition talg (t : tm) : Prop := match t with Pos s | Neg s => alg R s end.

  (* the weight of an unassigned package; every term has a smaller rank *)
  Definition Wt : nat := 2 * S (rank_bound R).

  Definition trank (t : tm) : nat :=
    match t with
    | Pos s => rank R s
    | Neg s => S (rank_bound R) + rank R (vs_complement O s)
    end.

  (* rank of the term of a package in a partial solution ([None] = not assigned); clamped so that it is bounded
     by [Wt] without any hypothesis *)
  Definition orank (o : option tm) : nat :=
    match o with Some t => Nat.min (trank t) (Wt - 1) | None => Wt end.

  Lemma talg_twf t : talg t -> twf t.
  Proof. destruct t; cbn; apply (alg_wf R). Qed.

  Lemma talg_negate t : talg t -> talg (t_negate t).
  Proof. destruct t; auto. Qed.

  Lemma talg_intersection t u : talg t -> talg u -> talg (t_intersection O t u).
  Proof.
    destruct t, u; cbn; intros Ht Hu.
    - now apply (alg_inter R).
    - apply (alg_inter R); [now apply (alg_compl R)|assumption].
    - apply (alg_inter R); [now apply (alg_compl R)|assumption].
    - now apply (alg_union R).
  Qed.

  Lemma talg_union t u : talg t -> talg u -> talg (t_union O t u).
  Proof.
    destruct t, u; cbn; intros Ht Hu.
    - now apply (alg_union R).
    - apply (alg_inter R); [now apply (alg_compl R)|assumption].
    - apply (alg_inter R); [now apply (alg_compl R)|assumption].
    - now apply (alg_inter R).
  Qed.

  Lemma talg_any : talg (t_any O).
  Proof. exact (alg_empty R). Qed.

  Lemma trank_lt t : talg t -> trank t < Wt.
  Proof.
    unfold Wt. destruct t as [s|s]; cbn [talg trank]; intros H.
    - pose proof (rank_le R s H). lia.
    - pose proof (rank_le R _ (alg_compl R s H)). lia.
  Qed.

  Lemma orank_le o : orank o <= Wt.
  Proof. destruct o; cbn [orank]; lia. Qed.

  Lemma orank_some t : talg t -> orank (Some t) = trank t.
  Proof. intros H. cbn [orank]. pose proof (trank_lt t H). lia. Qed.

  Lemma orank_some_lt t : orank (Some t) < Wt.
  Proof. cbn [orank]. unfold Wt. lia. Qed.

  (* strict inclusion over the universe strictly decreases the rank *)
  Lemma trank_strict t u : talg t -> talg u -> tleU t u -> t <> u -> trank t < trank u.
  Proof.
    destruct t as [a|a], u as [b|b]; cbn [talg trank]; intros Ha Hb Hle Hne.
    - apply (rank_strict R a b Ha Hb).
      + intros x Hx. exact (Hle (Some x) Hx).
      + congruence.
    - pose proof (rank_le R a Ha). lia.
    - specialize (Hle None eq_refl). discriminate.
    - pose proof (alg_wf R a Ha) as Wa. pose proof (alg_wf R b Hb) as Wb.
      assert (rank R (vs_complement O a) < rank R (vs_complement O b)); [|lia].
      apply (rank_strict R); [now apply (alg_compl R)|now apply (alg_compl R)| |].
      + intros x. rewrite !(mem_complement O L) by assumption. exact (Hle (Some x)).
      + intros E. apply Hne. f_equal. apply (vs_ext O L a b Wa Wb). intros x.
        assert (Em : mem O L (vs_complement O a) x = mem O L (vs_complement O b) x) by now rewrite E.
        rewrite !(mem_complement O L) in Em by assumption.
        destruct (mem O L a x), (mem O L b x); cbn in Em; congruence.
  Qed.

  Lemma orank_strict t u : talg t -> talg u -> tleU t u -> t <> u -> orank (Some t) < orank (Some u).
  Proof. intros Ht Hu Hle Hne. rewrite !orank_some by assumption. now apply trank_strict. Qed.

  Lemma orank_mono t u : talg t -> talg u -> tleU t u -> orank (Some t) <= orank (Some u).
  Proof.
    intros Ht Hu Hle. destruct (t_eqb O t u) eqn:E.
    - apply (t_eqb_spec O L) in E. subst. lia.
    - assert (t <> u) by (intros ->; rewrite (proj2 (t_eqb_spec O L u u) eq_refl) in E; discriminate).
      pose proof (orank_strict t u Ht Hu Hle H). lia.
  Qed.

  (* ---- M1: the term a derivation writes is strictly below the previous term of its package ---- *)
  (* the incompatibility's term [ct] is not contradicted by the current term [t]: then [t /\ not ct] differs from [t] *)
  Lemma inter_neg_neq t ct :
    twf t -> twf ct -> t_is_disjoint O ct t = false -> t_intersection O t (t_negate ct) <> t.
  Proof.
    intros Wt' Wc Hd E. assert (Hdis : t_is_disjoint O ct t = true); [|congruence].
    apply (t_is_disjoint_spec O L ct t Wc Wt'). intros c.
    assert (Ec : tden O L (t_intersection O t (t_negate ct)) c = tden O L t c) by now rewrite E.
    rewrite (tden_intersection O L) in Ec by (try assumption; now apply twf_negate).
    rewrite (tden_negate O L) in Ec. destruct (tden O L t c), (tden O L ct c); cbn in *; congruence.
  Qed.

  Lemma inconclusive_not_disjoint t ct : t_relation_with O ct t = Inconclusive -> t_is_disjoint O ct t = false.
  Proof.
    unfold t_relation_with. destruct (t_subset_of O t ct); [discriminate|].
    destruct (t_is_disjoint O ct t); [discriminate|reflexivity].
  Qed.

  Lemma deriv_strict t ct :
    talg t -> talg ct -> t_is_disjoint O ct t = false ->
    let t' := t_intersection O t (t_negate ct) in
    talg t' /\ tleU t' t /\ t' <> t /\ trank t' < trank t.
  Proof.
    intros Ht Hc Hd t'.
    assert (Ht' : talg t') by (apply talg_intersection; [exact Ht|now apply talg_negate]).
    assert (Hle : tleU t' t).
    { apply (tleU_inter_l O L); [now apply talg_twf|apply twf_negate; now apply talg_twf]. }
    assert (Hne : t' <> t) by (apply inter_neg_neq; [now apply talg_twf|now apply talg_twf|exact Hd]).
    repeat split; try assumption. now apply trank_strict.
  Qed.

  (* the scan derivation: [relation = RAlmost q] makes the term of [q] inconclusive (or [q] unassigned) *)
  Lemma deriv_strict_inconclusive t ct :
    talg t -> talg ct -> t_relation_with O ct t = Inconclusive ->
    let t' := t_intersection O t (t_negate ct) in
    talg t' /\ tleU t' t /\ t' <> t /\ trank t' < trank t.
  Proof. intros Ht Hc Hr. apply deriv_strict; try assumption. now apply inconclusive_not_disjoint. Qed.

  Lemma deriv_new_rank ct : talg ct -> orank (Some (t_negate ct)) < orank None.
  Proof. intros _. apply orank_some_lt. Qed.
End TermRank.

(* ---------------------------------------------------------------- digits in base B *)
Section Enc.
  Variable B : nat.
  Hypothesis HB : 1 <= B.

  Lemma pow_pos k : 1 <= B ^ k.
  Proof. induction k; cbn [Nat.pow]; [lia|nia]. Qed.

  (* most significant digit first, [k] positions *)
  Fixpoint enc (k : nat) (ds : list nat) : nat :=
    match k, ds with
    | S k', d :: r => d * B ^ k' + enc k' r
    | _, _ => 0
    end.

  Lemma enc_bound k : forall ds, Forall (fun d => d < B) ds -> enc k ds < B ^ k.
  Proof.
    induction k as [|k IH]; intros ds H; cbn [enc Nat.pow]; [destruct ds; lia|].
    destruct ds as [|d r]; [pose proof (pow_pos k); nia|].
    inversion H as [|? ? Hd Hr]; subst. specialize (IH r Hr). nia.
  Qed.

  Lemma enc_snoc k : forall ds d, length ds < k -> 1 <= d -> enc k ds < enc k (ds ++ [d]).
  Proof.
    induction k as [|k IH]; intros ds d Hl Hd; [lia|].
    destruct ds as [|x r]; cbn [enc app length] in *.
    - pose proof (pow_pos k). nia.
    - specialize (IH r d ltac:(lia) Hd). lia.
  Qed.

  Lemma enc_lex k : forall pre d rest d' rest',
    length pre < k -> d < d' -> Forall (fun x => x < B) rest ->
    enc k (pre ++ d :: rest) < enc k (pre ++ d' :: rest').
  Proof.
    induction k as [|k IH]; intros pre d rest d' rest' Hl Hd Hr; [lia|].
    destruct pre as [|x pre]; cbn [enc app length] in *.
    - pose proof (enc_bound k rest Hr). nia.
    - specialize (IH pre d rest d' rest' ltac:(lia) Hd Hr). lia.
  Qed.

  (* ---- the potential of a sequence of digits [f 0 .. f n], at most [S P] of them ---- *)
  Variable P : nat.

  Definition digits (f : nat -> nat) (n : nat) : list nat := map f (seq 0 (S n)).
  Definition PhiE (f : nat -> nat) (n : nat) : nat := enc (S P) (digits f n).

  Lemma PhiE_bound f n : (forall l, f l < B) -> PhiE f n < B ^ S P.
  Proof. intros H. apply enc_bound. apply Forall_forall. intros d Hd. apply in_map_iff in Hd. destruct Hd as (l & <- & _). apply H. Qed.

  Lemma map_seq_ext (f g : nat -> nat) a n : (forall l, a <= l < a + n -> f l = g l) -> map f (seq a n) = map g (seq a n).
  Proof. intros H. apply map_ext_in. intros l Hl. apply in_seq in Hl. now apply H. Qed.

  (* the digit at position [n'] grows, the earlier digits are unchanged (the later ones are dropped) *)
  Lemma PhiE_lt_a f f' n n' :
    n' <= n -> n <= P -> (forall l, l < n' -> f' l = f l) -> f n' < f' n' -> (forall l, f l < B) ->
    PhiE f n < PhiE f' n'.
  Proof.
    intros Hn HP Heq Hlt Hb. unfold PhiE, digits.
    assert (E1 : seq 0 (S n) = seq 0 n' ++ n' :: seq (S n') (n - n')).
    { replace (S n) with (n' + S (n - n')) by lia. rewrite seq_app. reflexivity. }
    assert (E2 : seq 0 (S n') = seq 0 n' ++ [n']) by (rewrite seq_S; reflexivity).
    rewrite E1, E2, !map_app. cbn [map].
    rewrite (map_seq_ext f' f 0 n') by (intros l Hl; apply Heq; lia).
    apply enc_lex; [rewrite map_length, seq_length; lia|exact Hlt|].
    apply Forall_forall. intros d Hd. apply in_map_iff in Hd. destruct Hd as (l & <- & _). apply Hb.
  Qed.

  (* a digit is appended *)
  Lemma PhiE_lt_b f f' n :
    S n <= P -> (forall l, l <= n -> f' l = f l) -> 1 <= f' (S n) -> PhiE f n < PhiE f' (S n).
  Proof.
    intros HP Heq H1. unfold PhiE, digits. rewrite (seq_S (S n)), map_app. cbn [map Nat.add].
    change (0 + S n) with (S n).
    rewrite (map_seq_ext f' f 0 (S n)) by (intros l Hl; apply Heq; lia).
    apply enc_snoc; [rewrite map_length, seq_length; lia|exact H1].
  Qed.
End Enc.
