(* Lawful version sets (DESIGN.md 4.2) and correctness of the provided methods (C17). *)
From Coq Require Import List Bool.
From PG Require Import Model.VS.

(* Laws are stated relative to a semantic membership [mem] over a universe [U] of points that
   contains the versions ([pt]), and a well-formedness predicate [wf] closed under the operations
   (for Range: canonical form). *)
Record ReqLawful {VS Vr : Type} (R : VSReq VS Vr) := {
  rl_U : Type;
  rl_pt : Vr -> rl_U;
  rl_mem : VS -> rl_U -> bool;
  rl_wf : VS -> Prop;
  rl_ext : forall a b, rl_wf a -> rl_wf b -> (forall u, rl_mem a u = rl_mem b u) -> a = b;
  rl_eqb : forall a b, rq_eqb R a b = true <-> a = b;
  rl_wf_empty : rl_wf (rq_empty R);
  rl_wf_singleton : forall v, rl_wf (rq_singleton R v);
  rl_wf_complement : forall a, rl_wf a -> rl_wf (rq_complement R a);
  rl_wf_intersection : forall a b, rl_wf a -> rl_wf b -> rl_wf (rq_intersection R a b);
  rl_mem_empty : forall u, rl_mem (rq_empty R) u = false;
  rl_mem_singleton : forall v w, rl_mem (rq_singleton R v) (rl_pt w) = true <-> w = v;
  rl_mem_complement : forall a u, rl_wf a -> rl_mem (rq_complement R a) u = negb (rl_mem a u);
  rl_mem_intersection : forall a b u, rl_wf a -> rl_wf b ->
      rl_mem (rq_intersection R a b) u = rl_mem a u && rl_mem b u;
  rl_contains : forall a v, rl_wf a -> rq_contains R a v = rl_mem a (rl_pt v);
}.

Record VSLawful {VS Vr : Type} (O : VSOps VS Vr) := {
  U : Type;
  pt : Vr -> U;
  mem : VS -> U -> bool;
  wf : VS -> Prop;
  vs_ext : forall a b, wf a -> wf b -> (forall u, mem a u = mem b u) -> a = b;
  vs_eqb_spec : forall a b, vs_eqb O a b = true <-> a = b;
  wf_empty : wf (vs_empty O);
  wf_singleton : forall v, wf (vs_singleton O v);
  wf_complement : forall a, wf a -> wf (vs_complement O a);
  wf_intersection : forall a b, wf a -> wf b -> wf (vs_intersection O a b);
  wf_full : wf (vs_full O);
  wf_union : forall a b, wf a -> wf b -> wf (vs_union O a b);
  mem_empty : forall u, mem (vs_empty O) u = false;
  mem_singleton : forall v w, mem (vs_singleton O v) (pt w) = true <-> w = v;
  mem_complement : forall a u, wf a -> mem (vs_complement O a) u = negb (mem a u);
  mem_intersection : forall a b u, wf a -> wf b -> mem (vs_intersection O a b) u = mem a u && mem b u;
  mem_full : forall u, mem (vs_full O) u = true;
  mem_union : forall a b u, wf a -> wf b -> mem (vs_union O a b) u = mem a u || mem b u;
  contains_mem : forall a v, wf a -> vs_contains O a v = mem a (pt v);
  is_disjoint_spec : forall a b, wf a -> wf b ->
      (vs_is_disjoint O a b = true <-> forall u, mem a u && mem b u = false);
  subset_of_spec : forall a b, wf a -> wf b ->
      (vs_subset_of O a b = true <-> forall u, mem a u = true -> mem b u = true);
}.

Section DefaultsCorrect.
  Context {VS Vr : Type} (R : VSReq VS Vr) (L : ReqLawful R).

  Lemma full_default_spec : rl_wf R L (full_default R) /\ forall u, rl_mem R L (full_default R) u = true.
  Proof.
    unfold full_default. split; [apply rl_wf_complement, rl_wf_empty|].
    intros u. rewrite rl_mem_complement by apply rl_wf_empty. now rewrite rl_mem_empty.
  Qed.

  Lemma union_default_spec a b :
    rl_wf R L a -> rl_wf R L b ->
    rl_wf R L (union_default R a b)
    /\ forall u, rl_mem R L (union_default R a b) u = rl_mem R L a u || rl_mem R L b u.
  Proof.
    intros Ha Hb. unfold union_default.
    pose proof (rl_wf_complement R L a Ha) as Hca. pose proof (rl_wf_complement R L b Hb) as Hcb.
    pose proof (rl_wf_intersection R L _ _ Hca Hcb) as Hi.
    split; [now apply rl_wf_complement|]. intros u.
    rewrite rl_mem_complement, rl_mem_intersection, !rl_mem_complement by assumption.
    destruct (rl_mem R L a u), (rl_mem R L b u); reflexivity.
  Qed.

  Lemma is_disjoint_default_spec a b :
    rl_wf R L a -> rl_wf R L b ->
    (is_disjoint_default R a b = true <-> forall u, rl_mem R L a u && rl_mem R L b u = false).
  Proof.
    intros Ha Hb. unfold is_disjoint_default. rewrite (rl_eqb R L). split.
    - intros E u. rewrite <- (rl_mem_intersection R L a b u Ha Hb). rewrite E. apply rl_mem_empty.
    - intros H. apply (rl_ext R L); [now apply rl_wf_intersection|apply rl_wf_empty|].
      intros u. rewrite rl_mem_intersection, rl_mem_empty by assumption. apply H.
  Qed.

  Lemma subset_of_default_spec a b :
    rl_wf R L a -> rl_wf R L b ->
    (subset_of_default R a b = true <-> forall u, rl_mem R L a u = true -> rl_mem R L b u = true).
  Proof.
    intros Ha Hb. unfold subset_of_default. rewrite (rl_eqb R L). split.
    - intros E u Hu. rewrite E in Hu. rewrite rl_mem_intersection in Hu by assumption.
      now apply andb_prop in Hu.
    - intros H. apply (rl_ext R L); [exact Ha|now apply rl_wf_intersection|].
      intros u. rewrite rl_mem_intersection by assumption.
      destruct (rl_mem R L a u) eqn:E; [|reflexivity]. now rewrite (H u E).
  Qed.

  (* an implementation that defines only the required methods lawfully, and inherits the four
     provided ones, is a lawful version set *)
  Definition defaults_lawful : VSLawful (with_defaults R).
  Proof.
    refine {| U := rl_U R L; pt := rl_pt R L; mem := rl_mem R L; wf := rl_wf R L |}; cbn.
    - exact (rl_ext R L).
    - exact (rl_eqb R L).
    - exact (rl_wf_empty R L).
    - exact (rl_wf_singleton R L).
    - exact (rl_wf_complement R L).
    - exact (rl_wf_intersection R L).
    - exact (proj1 full_default_spec).
    - intros a b Ha Hb. exact (proj1 (union_default_spec a b Ha Hb)).
    - exact (rl_mem_empty R L).
    - exact (rl_mem_singleton R L).
    - exact (rl_mem_complement R L).
    - exact (rl_mem_intersection R L).
    - exact (proj2 full_default_spec).
    - intros a b u Ha Hb. exact (proj2 (union_default_spec a b Ha Hb) u).
    - exact (rl_contains R L).
    - apply is_disjoint_default_spec.
    - apply subset_of_default_spec.
  Defined.
End DefaultsCorrect.
