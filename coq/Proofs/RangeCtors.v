(* Constructors of Range, and the closure of the public API under the set operations. *)
From Coq Require Import Orders OrdersFacts List Bool.
From PG Require Import Model.Range Proofs.PosOrder Proofs.RangeTables Proofs.RangeSem
  Proofs.RangeInter Proofs.RangeMore Proofs.RangeCompl.

Module RangeCtorsP (V : UsualOrderedTypeFull).
  Module Export RC := RangeComplP V.

  Lemma single_seg_canonical s e : lo_of s <=p hi_of e -> canonical [(s, e)].
  Proof. intros H. cbn. repeat split. exact H. Qed.

  Lemma single_seg_den s e x : den [(s, e)] x <-> lo_of s <=p x /\ x <=p hi_of e.
  Proof. rewrite den_cons. unfold in_seg, lo, hi; cbn [fst snd]. split; [intros [H|H]; [exact H|destruct (den_nil _ H)]|auto]. Qed.

  (* ranges reachable through the public API: constructors ([between] with lower < upper) closed
     under complement, union, intersection *)
  Inductive Built : range -> Prop :=
  | B_empty : Built empty
  | B_full : Built full
  | B_singleton v : Built (singleton v)
  | B_higher_than v : Built (higher_than v)
  | B_strictly_higher_than v : Built (strictly_higher_than v)
  | B_lower_than v : Built (lower_than v)
  | B_strictly_lower_than v : Built (strictly_lower_than v)
  | B_between v1 v2 : V.lt v1 v2 -> Built (between v1 v2)
  | B_from_range_bounds s e : Built (from_range_bounds s e)
  | B_complement r : Built r -> Built (complement r)
  | B_union a b : Built a -> Built b -> Built (union a b)
  | B_intersection a b : Built a -> Built b -> Built (intersection a b).

  Lemma ple_refl x : x <=p x. Proof. porder. Qed.

  Lemma built_canonical r : Built r -> canonical r.
  Proof.
    induction 1.
    - exact I.
    - exact canonical_full.
    - apply single_seg_canonical. cbn. apply ple_refl.
    - apply single_seg_canonical. cbn. apply le_posinf.
    - apply single_seg_canonical. cbn. apply le_posinf.
    - apply single_seg_canonical. cbn. apply neginf_le.
    - apply single_seg_canonical. cbn. apply neginf_le.
    - apply single_seg_canonical. cbn. apply ple_P. now left.
    - unfold from_range_bounds. destruct (valid_segment s e) eqn:E; [|exact I].
      apply single_seg_canonical. now apply valid_segment_spec.
    - exact (proj2 (complement_spec r NegInf IHBuilt)).
    - now apply union_canonical.
    - now apply intersection_canonical.
  Qed.

  (* the constructors denote what their names say (membership of versions) *)
  Lemma contains_single_seg s e v :
    lo_of s <=p hi_of e -> (contains [(s, e)] v = true <-> lo_of s <=p P v At /\ P v At <=p hi_of e).
  Proof. intros H. rewrite contains_spec by (now apply single_seg_canonical). apply single_seg_den. Qed.

  Lemma side_facts :
    (forall v w, P v At <=p P w At <-> V.le v w) /\
    (forall v w, P v After <=p P w At <-> V.lt v w) /\
    (forall v w, P w At <=p P v Before <-> V.lt w v).
  Proof.
    repeat split; intros H; try (apply ple_P in H; cbn in H; destruct H as [H|[-> H]]; try VF.order; try congruence);
      apply ple_P; cbn.
    - destruct (V.eq_dec v w); [right; subst; split; [reflexivity|discriminate]|left; VF.order].
    - now left.
    - now left.
  Qed.

  Lemma ctor_contains v w :
    contains empty w = false
    /\ contains full w = true
    /\ (contains (singleton v) w = true <-> w = v)
    /\ (contains (higher_than v) w = true <-> V.le v w)
    /\ (contains (strictly_higher_than v) w = true <-> V.lt v w)
    /\ (contains (lower_than v) w = true <-> V.le w v)
    /\ (contains (strictly_lower_than v) w = true <-> V.lt w v).
  Proof.
    destruct side_facts as (F1 & F2 & F3).
    split; [reflexivity|]. split; [reflexivity|].
    split; [|split; [|split; [|split]]].
    - unfold singleton. rewrite contains_single_seg by apply ple_refl. cbn [lo_of hi_of]. rewrite !F1.
      split; [intros [? ?]; VF.order|intros ->; split; VF.order].
    - unfold higher_than. rewrite contains_single_seg by apply le_posinf. cbn [lo_of hi_of]. rewrite F1.
      split; [tauto|]. intros H; split; [exact H|apply le_posinf].
    - unfold strictly_higher_than. rewrite contains_single_seg by apply le_posinf. cbn [lo_of hi_of]. rewrite F2.
      split; [tauto|]. intros H; split; [exact H|apply le_posinf].
    - unfold lower_than. rewrite contains_single_seg by apply neginf_le. cbn [lo_of hi_of]. rewrite F1.
      split; [tauto|]. intros H; split; [apply neginf_le|exact H].
    - unfold strictly_lower_than. rewrite contains_single_seg by apply neginf_le. cbn [lo_of hi_of]. rewrite F3.
      split; [tauto|]. intros H; split; [apply neginf_le|exact H].
  Qed.

  Lemma between_contains v1 v2 w :
    V.lt v1 v2 -> (contains (between v1 v2) w = true <-> V.le v1 w /\ V.lt w v2).
  Proof.
    destruct side_facts as (F1 & F2 & F3). intros H. unfold between.
    rewrite contains_single_seg by (cbn; apply ple_P; now left). cbn [lo_of hi_of]. now rewrite F1, F3.
  Qed.

  (* membership (of versions) obeys the set laws *)
  Lemma ops_contains a b v :
    canonical a -> canonical b ->
    contains (intersection a b) v = contains a v && contains b v
    /\ contains (union a b) v = contains a v || contains b v
    /\ contains (complement a) v = negb (contains a v).
  Proof.
    intros Ha Hb.
    pose proof (contains_spec a v Ha) as Ca. pose proof (contains_spec b v Hb) as Cb.
    pose proof (contains_spec _ v (intersection_canonical a b Ha Hb)) as Ci.
    pose proof (contains_spec _ v (union_canonical a b Ha Hb)) as Cu.
    destruct (complement_spec a (P v At) Ha) as [Dc Cc].
    pose proof (contains_spec _ v Cc) as Cn.
    rewrite intersection_den in Ci by assumption. rewrite union_den in Cu by assumption. rewrite Dc in Cn.
    destruct (contains a v), (contains b v), (contains (intersection a b) v), (contains (union a b) v),
      (contains (complement a) v); cbn; repeat split; try reflexivity; exfalso;
      intuition (try discriminate; auto).
  Qed.

End RangeCtorsP.
