(* Non-vacuity of the determinism theorems (C07): a recorded Range<Z> run with a TIE among the queued
   priorities.  Packages 1 and 2 are both reported with priority 0; the binary heap of the priority-queue
   crate pops 2 (pushed first) first.  The trace that picks 2 is a run of [resolve_h]; the trace that picks 1 is accepted by
   [resolve] (1 has maximal priority too: the old model took the pick from the recording) but rejected by
   [resolve_h] with [OMismatch _ 6]: with the exact heap the pick is computed, not recorded. *)
From Coq Require Import List NArith ZArith Bool.
From PG Require Import Model.VS Model.Range Model.Instances Model.Term Model.Heap Model.Solver Proofs.SolverTrace Proofs.SolverDet.
Import ListNotations.
Local Open Scope Z_scope.

Notation ev := (@event RZ.range Z).
Definition zvs' : VSOps RZ.range Z := RZ.range_vs.

Definition tie_prefix : list ev :=
  [ EvCancel true; EvPrioritize 0%N (RZ.singleton 1) 0; EvChoose 0%N (RZ.singleton 1) (CSome 1);
    EvDeps 0%N 1 (DAvail [(1%N, RZ.full); (2%N, RZ.full)]);
    EvCancel true; EvPrioritize 2%N RZ.full 0; EvPrioritize 1%N RZ.full 0 ].
Definition tie_tr_heap : list ev :=
  tie_prefix ++
  [ EvChoose 2%N RZ.full (CSome 1); EvDeps 2%N 1 (DAvail []); EvCancel true;
    EvChoose 1%N RZ.full (CSome 1); EvDeps 1%N 1 (DAvail []); EvCancel true ].
Definition tie_tr_other : list ev :=
  tie_prefix ++
  [ EvChoose 1%N RZ.full (CSome 1); EvDeps 1%N 1 (DAvail []); EvCancel true;
    EvChoose 2%N RZ.full (CSome 1); EvDeps 2%N 1 (DAvail []); EvCancel true ].

Definition out_of {A B C D} (r : A * B * C * D) : A := fst (fst (fst r)).
Definition cnt_of {A B C D} (r : A * B * C * D) : D := snd r.

Example tie_heap_run_is_a_run :
  out_of (resolve_h zvs' Z.eqb 100 0%N 1 tie_tr_heap) = OSolution [(0%N, 1); (2%N, 1); (1%N, 1)]
  /\ cnt_of (resolve_h zvs' Z.eqb 100 0%N 1 tie_tr_heap) = 13%nat.
Proof. vm_compute. split; reflexivity. Qed.

Example tie_other_pick_accepted_without_heap :
  out_of (resolve zvs' Z.eqb 100 0%N 1 tie_tr_other) = OSolution [(0%N, 1); (1%N, 1); (2%N, 1)].
Proof. vm_compute. reflexivity. Qed.

Example tie_other_pick_rejected_by_heap :
  out_of (resolve_h zvs' Z.eqb 100 0%N 1 tie_tr_other) = OMismatch 7 6.
Proof. vm_compute. reflexivity. Qed.

(* the provider that answers as recorded in [tie_tr_heap] (a function of the query alone) generates it *)
Definition tie_prov : @provider RZ.range Z := fun _ q =>
  match q with
  | QCancel => ACancel true
  | QPrioritize _ _ => APrio 0
  | QChoose _ _ => AChoose (CSome 1)
  | QDeps 0%N _ => ADeps (DAvail [(1%N, RZ.full); (2%N, RZ.full)])
  | QDeps _ _ => ADeps (DAvail [])
  end.
Example tie_generated : generated_by tie_prov [] tie_tr_heap /\ generated_by tie_prov [] tie_tr_other.
Proof. vm_compute. tauto. Qed.
