(* C01 (model side): a solution returned by the model of resolve is a solution of the registry.
   Invariant [sinv]: the dependency incompatibilities of every decided package are contradicted at the
   package's decision level; the cache of contradicted incompatibilities is sound; every added (package,
   version) is represented by active incompatibilities; the root keeps its level-0 derivation. *)
From Coq Require Import List NArith ZArith Bool Lia PeanoNat.
From PG Require Import Model.VS Model.Term Model.Solver Model.Registry Proofs.VSLaws Proofs.TermProofs
  Proofs.AssocProofs Proofs.SolverSem Proofs.SolverStore Proofs.SolverQueue Proofs.SolverSound1 Proofs.SolverSound2.
Import ListNotations.

Section Sound.
  Context {VS Vr : Type} (O : VSOps VS Vr) (L : VSLawful O) (veqb : Vr -> Vr -> bool).
  Context (reg : registry (VS := VS) (Vr := Vr)) (r : pkg) (rv : Vr).
  Hypothesis Hregwf : reg_wf O L reg.
  (* only this direction of the specification of [veqb] is used *)
  Hypothesis veqb_eq : forall a b, veqb a b = true -> a = b.

  Notation tm := (term VS).
  Notation pa := (@pa VS Vr).
  Notation psol := (@psol VS Vr).
  Notation state := (@state VS Vr).
  Notation incompat := (@incompat VS Vr).
  Notation event := (@event VS Vr).
  Notation full_ok := (full_ok O L reg r rv).
  Notation st_ok := (st_ok O L reg r rv).
  Notation ext_ok := (ext_ok O L reg r rv).
  Notation ps_wf := (ps_wf O L).
  Notation twf := (twf O L).
  Notation tle := (tle O).
  Notation tdisj := (tdisj O).
  Notation ps_chain := (ps_chain O).
  Notation refines := (refines O).
  Notation relevant := (relevant O).
  Notation dep_wit := (dep_wit O).
  Notation cust_wit := (cust_wit O).
  Notation wit_pres := (wit_pres O).
  Local Notation asg st := (assignments (ps st)).

  (* ---------------------------------------------------------------- contradicted at a level *)
  Definition contradicted_at (Lv : nat) (m : list (pkg * pa)) (ts : list (pkg * tm)) : Prop :=
    exists q t tq, In (q, t) ts /\ lookup_at Lv m q = Some tq /\ tdisj t tq.

  Lemma contradicted_refines B m m' Lv ts :
    refines B m m' -> Lv <= B -> contradicted_at Lv m ts -> contradicted_at Lv m' ts.
  Proof.
    intros Hr HL (q & t & tq & Hin & Hl & Hd). destruct (Hr Lv q tq HL Hl) as (tq' & Hl' & Hle).
    exists q, t, tq'. split; [exact Hin|]. split; [exact Hl'|]. eapply tdisj_le; eauto.
  Qed.

  Lemma contradicted_mono m Lv Lv' ts :
    ps_chain m -> Lv <= Lv' -> contradicted_at Lv m ts -> contradicted_at Lv' m ts.
  Proof.
    intros Hc HL (q & t & tq & Hin & Hl & Hd). destruct (lookup_at_mono O L Lv Lv' m q tq Hc HL Hl) as (tq' & Hl' & Hle).
    exists q, t, tq'. split; [exact Hin|]. split; [exact Hl'|]. eapply tdisj_le; eauto.
  Qed.

  (* ---------------------------------------------------------------- the invariant *)
  Definition qcond (qu : list (pkg * (Z * VS))) (m : list (pkg * pa)) : Prop :=
    forall x z a, get x qu = Some z -> get x m = Some a -> decided a = false.

  Definition added_ok (st : state) (p : pkg) (v : Vr) : Prop :=
    In v (reg_versions reg p)
    /\ match reg_deps reg p v with
       | None => cust_wit st p v
       | Some ds => forall q s, In (q, s) ds -> dep_wit st p v q s
       end.

  Record sinv_core (st : state) (added : list (pkg * Vr)) (pend : list pkg) : Prop := {
    sv_ok : full_ok st;
    sv_lay : layout (ps st);
    sv_chain : ps_chain (asg st);
    sv_queue : qcond (queue (ps st)) (asg st);
    sv_dec : forall p a g v t, get p (asg st) = Some a -> ai a = ADecision g v t -> In (p, v) added;
    sv_added : forall p v, In (p, v) added -> added_ok st p v;
    sv_F : forall p a g v t, get p (asg st) = Some a -> ai a = ADecision g v t ->
             (highest a < level (ps st) \/ ~ In p pend) ->
             forall id I, active st p id -> nth_error (store st) id = Some I -> relevant p v I ->
               contradicted_at (highest a) (asg st) (terms I);
    sv_G : forall id lvl, In (id, lvl) (contradicted st) ->
             lvl <= level (ps st) /\ exists I, nth_error (store st) id = Some I /\ contradicted_at lvl (asg st) (terms I);
  }.

  Definition rinv (st : state) : Prop :=
    exists t0, lookup_at 0 (asg st) r = Some t0 /\ tle t0 (t_exact O rv).

  Definition sinv (st : state) (added : list (pkg * Vr)) (pend : list pkg) : Prop :=
    sinv_core st added pend /\ rinv st.

  Lemma sinv_core_pend st added pend pend' :
    (forall x, In x pend -> In x pend') -> sinv_core st added pend -> sinv_core st added pend'.
  Proof.
    intros Hi [H1 H2 H3 H4 H5 H6 H7 H8]. constructor; try assumption.
    intros p a g v t Hg Ha Hc. apply (H7 p a g v t Hg Ha). destruct Hc as [Hc|Hc]; [now left|right]. auto.
  Qed.

  Lemma sinv_pend st added pend pend' :
    (forall x, In x pend -> In x pend') -> sinv st added pend -> sinv st added pend'.
  Proof. intros Hi [H1 H2]. split; [eapply sinv_core_pend; eauto|exact H2]. Qed.

  Lemma decided_ai (a : pa) : decided a = true <-> exists g v t, ai a = ADecision g v t.
  Proof.
    unfold decided. destruct (ai a) as [g v t|t]; split; try discriminate; eauto. intros (? & ? & ? & H). discriminate.
  Qed.

  Lemma full_ok_fields (st st' : state) :
    store st' = store st -> merged st' = merged st -> root st' = root st -> rootv st' = rootv st ->
    ps_wf (ps st') -> full_ok st -> full_ok st'.
  Proof.
    intros Es Em Er Ev Hp [(Hs & Hm & Hr & Hv) _]. split; [|exact Hp].
    split; [now rewrite Es|]. split; [|split; congruence].
    intros k l id Hg Hin. rewrite Em in Hg. rewrite Es. exact (Hm k l id Hg Hin).
  Qed.

  Lemma wit_pres_eq (st st' : state) : index st' = index st -> store st' = store st -> wit_pres st st'.
  Proof.
    intros Ei Es. split.
    - intros p v q s (id & I & A & Ha & Hn & Hk). exists id, I, A. unfold active in *. rewrite Ei, Es. auto.
    - intros p v (id & I & m & Ha & Hn & Hk). exists id, I, m. unfold active in *. rewrite Ei, Es. auto.
  Qed.

  Lemma added_ok_pres st st' p v : wit_pres st st' -> added_ok st p v -> added_ok st' p v.
  Proof.
    intros [W1 W2] [H1 H2]. split; [exact H1|]. destruct (reg_deps reg p v) as [ds|]; [|auto].
    intros q s Hin. auto.
  Qed.

  (* ---------------------------------------------------------------- steps on the partial solution *)
  (* a generic step: the partial solution is refined up to level [B]; store and index stay *)
  Lemma ps_step_core st st' added pend pend' B :
    sinv_core st added pend ->
    store st' = store st -> index st' = index st -> merged st' = merged st -> root st' = root st -> rootv st' = rootv st ->
    ps_wf (ps st') -> layout (ps st') -> ps_chain (asg st') -> qcond (queue (ps st')) (asg st') ->
    refines B (asg st) (asg st') -> B <= level (ps st') ->
    (* decided packages are old ones (or exempt and added) *)
    (forall p a g v t, get p (asg st') = Some a -> ai a = ADecision g v t ->
       In (p, v) added /\
       ((highest a < level (ps st') \/ ~ In p pend') ->
          get p (asg st) = Some a /\ highest a <= B /\ (highest a < level (ps st) \/ ~ In p pend))) ->
    (forall id lvl, In (id, lvl) (contradicted st') -> In (id, lvl) (contradicted st) /\ lvl <= B) ->
    sinv_core st' added pend'.
  Proof.
    intros [H1 H2 H3 H4 H5 H6 H7 H8] Es Ei Em Er Ev Hw Hl Hc Hq Hr HB Hdec Hcache.
    constructor; try assumption.
    - eapply full_ok_fields; eauto.
    - intros p a g v t Hg Ha. exact (proj1 (Hdec p a g v t Hg Ha)).
    - intros p v Hin. eapply added_ok_pres; [apply wit_pres_eq; eassumption|]. auto.
    - intros p a g v t Hg Ha Hcond id I Hact Hn Hrel.
      destruct (proj2 (Hdec p a g v t Hg Ha) Hcond) as (Hg0 & HhB & Hc0).
      unfold active in Hact. rewrite Ei in Hact. rewrite Es in Hn.
      eapply contradicted_refines; [exact Hr|exact HhB|]. eapply H7; eauto.
    - intros id lvl Hin. destruct (Hcache id lvl Hin) as [Hin0 HlB]. destruct (H8 id lvl Hin0) as (_ & I & Hn & Hca).
      split; [lia|]. exists I. rewrite Es. split; [exact Hn|]. eapply contradicted_refines; eauto.
  Qed.

  Lemma rinv_refines st st' B : refines B (asg st) (asg st') -> rinv st -> rinv st'.
  Proof.
    intros Hr (t0 & Hl & Hle). destruct (Hr 0 r t0 ltac:(lia) Hl) as (t' & Hl' & Hle').
    exists t'. split; [exact Hl'|]. eapply tle_trans; eauto.
  Qed.

  (* updating the cache with entries that are contradicted at their level *)
  Lemma cache_step_core st added pend c :
    sinv_core st added pend ->
    (forall id lvl, In (id, lvl) c -> In (id, lvl) (contradicted st)
        \/ (lvl <= level (ps st) /\ exists I, nth_error (store st) id = Some I /\ contradicted_at lvl (asg st) (terms I))) ->
    sinv_core (upd_cache st c) added pend.
  Proof.
    intros [H1 H2 H3 H4 H5 H6 H7 H8] Hc. constructor; cbn [upd_cache ps store index]; try assumption.
    intros id lvl Hin. cbn [contradicted] in Hin. destruct (Hc id lvl Hin) as [H|H]; auto.
  Qed.

  Lemma cache_set_in id lvl (c : list (nat * nat)) x : In x (cache_set id lvl c) -> x = (id, lvl) \/ In x c.
  Proof. unfold cache_set. intros [<-|H]; [now left|]. apply filter_In in H. tauto. Qed.

  (* a derivation, followed by caching its cause as contradicted *)
  Lemma deriv_step st added pend pend' q id ci p' :
    sinv_core st added pend -> (forall x, In x pend -> In x pend') ->
    nth_error (store st) id = Some ci -> add_derivation O (ps st) q id (terms ci) = Good p' ->
    let st' := upd_cache (upd_ps st p') (cache_set id (level p') (contradicted st)) in
    sinv_core st' added pend' /\ (forall B, refines B (asg st) (asg st'))
    /\ level (ps st') = level (ps st) /\ store st' = store st /\ index st' = index st
    /\ contradicted_at (level (ps st')) (asg st') (terms ci)
    /\ (forall x a, get x (asg st') = Some a -> decided a = true -> get x (asg st) = Some a).
  Proof.
    intros Hs Hpend Hn Ed st'. pose proof Hs as [H1 H2 H3 H4 H5 H6 H7 H8].
    assert (Wc : twf_all O L (terms ci)) by exact (store_just_wf O L reg r rv st id ci (proj1 H1) Hn).
    assert (Hr : forall B, refines B (asg st) (assignments p')) by (intros B; eapply add_derivation_refines; eauto; exact (proj2 H1)).
    destruct (add_derivation_get O _ _ _ _ _ Ed) as (ct & a' & _ & Elv & Equ & _).
    pose proof (add_derivation_layout O _ _ _ _ _ H2 Ed) as Hl'.
    pose proof (add_derivation_chain O L _ _ _ _ _ H3 (proj2 H1) Wc Ed) as Hc'.
    pose proof (add_derivation_wf O L _ _ _ _ _ (proj2 H1) Wc Ed) as Hw'.
    assert (Hca : contradicted_at (level p') (assignments p') (terms ci)).
    { destruct (add_derivation_new_term O L _ _ _ _ _ (proj2 H1) Wc Ed) as (ct0 & t' & Hin & Ht & Hd).
      exists q, ct0, t'. split; [exact Hin|]. split; [|exact Hd]. rewrite (lookup_at_level O) by assumption. exact Ht. }
    assert (Hmid : sinv_core (upd_ps st p') added pend').
    { eapply (ps_step_core st (upd_ps st p') added pend pend' (level p')); try reflexivity; try assumption.
      - cbn [upd_ps ps]. rewrite Equ. intros x z a Hz Hg. destruct (decided a) eqn:Hd; [|reflexivity].
        pose proof (add_derivation_decided O _ _ _ _ _ _ _ Ed Hg Hd) as Hg0. rewrite <- Hd. eapply H4; eauto.
      - apply Hr.
      - cbn [upd_ps ps]. intros p a g v t Hg Ha.
        assert (Hd : decided a = true) by (apply decided_ai; eauto).
        pose proof (add_derivation_decided O _ _ _ _ _ _ _ Ed Hg Hd) as Hg0.
        split; [eapply H5; eauto|]. intros Hcond. split; [exact Hg0|].
        pose proof (proj1 (proj2 (layout_get_ok _ _ _ H2 Hg0))) as Hh. split; [lia|].
        rewrite Elv in Hcond. destruct Hcond as [Hc|Hc]; [now left|right; auto].
      - cbn [upd_ps contradicted]. intros id0 lvl Hin. split; [exact Hin|]. rewrite Elv. exact (proj1 (H8 id0 lvl Hin)). }
    split; [|split; [exact Hr|split; [exact Elv|split; [reflexivity|split; [reflexivity|split; [exact Hca|]]]]]].
    - apply cache_step_core; [exact Hmid|]. cbn [upd_ps contradicted ps store]. intros id0 lvl Hin.
      apply cache_set_in in Hin. destruct Hin as [E|Hin]; [|now left]. injection E as -> ->. right.
      split; [lia|]. exists ci. auto.
    - cbn [st' upd_cache upd_ps ps]. intros x a Hg Hd. eapply add_derivation_decided; eauto.
  Qed.

  (* a decision for a package whose incompatibilities are still to be scanned *)
  Lemma decide_step st added p v p' :
    sinv st added [] -> add_decision O (ps st) p v = Good p' -> In (p, v) added -> get p (queue (ps st)) = None ->
    sinv (upd_ps st p') added [p].
  Proof.
    intros [Hs Hri] Ed Hadd Hqn. pose proof Hs as [H1 H2 H3 H4 H5 H6 H7 H8].
    destruct (add_decision_get O _ _ _ _ H2 Ed) as (a0 & t0 & Hg0 & Ea0 & Hcon & Elv & Equ & Hget).
    pose proof (add_decision_refines O _ _ _ _ H2 Ed) as Hr.
    split; [|eapply rinv_refines; [exact Hr|exact Hri]].
    eapply (ps_step_core st (upd_ps st p') added [] [p] (level (ps st))); try reflexivity; try assumption.
    - cbn [upd_ps ps]. eapply add_decision_wf; [exact (proj2 H1)|exact Ed].
    - cbn [upd_ps ps]. eapply add_decision_layout; eauto.
    - cbn [upd_ps ps]. eapply add_decision_chain; eauto.
    - cbn [upd_ps ps]. rewrite Equ. intros x z a Hz Hg. rewrite Hget in Hg. destruct (N.eqb_spec x p) as [->|Hne]; [congruence|].
      eapply H4; eauto.
    - cbn [upd_ps ps]. lia.
    - cbn [upd_ps ps]. intros x a g w t Hg Ha. rewrite Hget in Hg. destruct (N.eqb_spec x p) as [->|Hne].
      + injection Hg as <-. cbn [decide_upd ai highest] in *. injection Ha as _ <- _. split; [exact Hadd|].
        rewrite Elv. intros [Hc|Hc]; [lia|]. exfalso. apply Hc. now left.
      + split; [eapply H5; eauto|]. intros _. split; [exact Hg|].
        split; [exact (proj1 (proj2 (layout_get_ok _ _ _ H2 Hg)))|]. right. intros [].
    - cbn [upd_ps contradicted]. intros id lvl Hin. split; [exact Hin|]. exact (proj1 (H8 id lvl Hin)).
  Qed.

  (* only the queue (and the bookkeeping fields) of the partial solution change *)
  Lemma queue_step st added pend p' :
    sinv st added pend -> level p' = level (ps st) -> assignments p' = asg st -> qcond (queue p') (asg st) ->
    sinv (upd_ps st p') added pend.
  Proof.
    intros [Hs Hri] El Ea Hq. pose proof Hs as [H1 H2 H3 H4 H5 H6 H7 H8]. split.
    - eapply (ps_step_core st (upd_ps st p') added pend pend (level (ps st))); try reflexivity; cbn [upd_ps ps contradicted];
        rewrite ?Ea, ?El; try assumption.
      + unfold SolverStore.ps_wf. rewrite Ea. exact (proj2 H1).
      + eapply layout_ext; eauto.
      + apply refines_refl.
      + lia.
      + intros p a g v t Hg Ha. split; [eapply H5; eauto|]. intros Hc. split; [exact Hg|].
        split; [exact (proj1 (proj2 (layout_get_ok _ _ _ H2 Hg)))|exact Hc].
      + intros id lvl Hin. split; [exact Hin|]. exact (proj1 (H8 id lvl Hin)).
    - unfold rinv in *. cbn [upd_ps ps]. now rewrite Ea.
  Qed.

  (* backtracking strictly below the current level: nothing is owed afterwards *)
  Lemma ps_backtrack_step st added pend pend' Lv p' :
    sinv st added pend -> Lv < level (ps st) -> ps_backtrack (ps st) Lv = Good p' ->
    let st' := {| root := root st; rootv := rootv st; index := index st;
                  contradicted := filter (fun e => Nat.leb (snd e) Lv) (contradicted st);
                  merged := merged st; ps := p'; store := store st |} in
    sinv st' added pend'.
  Proof.
    intros [Hs Hri] HL Ep st'. pose proof Hs as [H1 H2 H3 H4 H5 H6 H7 H8].
    destruct (ps_backtrack_asg _ _ _ Ep) as (Elv & Equ & _).
    pose proof (ps_backtrack_refines O _ _ _ H2 Ep) as Hr.
    split; [|eapply rinv_refines; [exact Hr|exact Hri]].
    eapply (ps_step_core st st' added pend pend' Lv); try reflexivity; cbn [st' ps contradicted]; try assumption.
    - eapply (ps_backtrack_wf O L veqb rv); [exact (proj2 H1)|exact Ep].
    - assert (HL' : Lv <= level (ps st)) by lia. exact (proj1 (ps_backtrack_layout _ _ _ H2 HL' Ep)).
    - eapply ps_backtrack_chain; eauto.
    - rewrite Equ. intros x z a Hz. discriminate.
    - lia.
    - intros p a g v t Hg Ha. assert (Hd : decided a = true) by (apply decided_ai; eauto).
      destruct (ps_backtrack_decided _ _ _ H2 Ep p a Hg Hd) as [Hg0 Hh].
      split; [eapply H5; eauto|]. intros _. split; [exact Hg0|]. split; [exact Hh|]. left. lia.
    - intros id lvl Hin. apply filter_In in Hin. destruct Hin as [Hin Hle]. cbn in Hle. apply Nat.leb_le in Hle. auto.
  Qed.

  (* ---------------------------------------------------------------- steps on the store and the index *)
  Lemma is_step_sinv Pk st st' added pend :
    sinv st added pend -> is_step Pk st st' -> wit_pres st st' -> full_ok st' ->
    (forall pp a, Pk pp -> get pp (asg st) = Some a -> decided a = false) ->
    sinv st' added pend.
  Proof.
    intros [Hs Hri] (Eps & Ect & (extra & Est & Hex) & Hact) Hw Hok HPk. pose proof Hs as [H1 H2 H3 H4 H5 H6 H7 H8].
    split; [|unfold rinv in *; now rewrite Eps].
    assert (Hnew : forall p a g v t I, get p (asg st) = Some a -> ai a = ADecision g v t -> relevant p v I -> new_ok Pk I -> False).
    { intros p a g v t I Hg Ha Hrel Hn. apply (relevant_dependant O) in Hrel. apply Hn in Hrel.
      pose proof (HPk p a Hrel Hg) as Hd. unfold decided in Hd. rewrite Ha in Hd. discriminate. }
    constructor; rewrite ?Eps, ?Ect; try assumption.
    - intros p v Hin. eapply added_ok_pres; eauto.
    - intros p a g v t Hg Ha Hc id I Ha' Hn Hrel. destruct (Hact p id Ha') as [Ha0|(I' & HI' & Hnew')].
      + rewrite Est in Hn. destruct (Nat.lt_ge_cases id (length (store st))) as [Hlt|Hge].
        * rewrite nth_error_app1 in Hn by assumption. eapply H7; eauto.
        * rewrite nth_error_app2 in Hn by assumption. apply nth_error_In in Hn. rewrite Forall_forall in Hex.
          exfalso. eapply Hnew; eauto.
      + assert (I' = I) by congruence. subst I'. exfalso. eapply Hnew; eauto.
    - intros id lvl Hin. destruct (H8 id lvl Hin) as (Hle & I & Hn & Hc). split; [exact Hle|]. exists I.
      split; [|exact Hc]. rewrite Est. now apply nth_error_app_old.
  Qed.

  Lemma sinv_add st added pend p v : sinv st added pend -> added_ok st p v -> sinv st ((p, v) :: added) pend.
  Proof.
    intros [[H1 H2 H3 H4 H5 H6 H7 H8] Hri] Ha. split; [|exact Hri]. constructor; try assumption.
    - intros p0 a g v0 t Hg Hai. right. eapply H5; eauto.
    - intros p0 v0 [E|Hin]; [injection E as <- <-; exact Ha|auto].
  Qed.
  (* ---------------------------------------------------------------- backtrack, conflict resolution *)
  Lemma backtrack_step st added pend pend' inc chg Lv st' :
    sinv st added pend -> Lv < level (ps st) ->
    (chg = true -> exists i a b, nth_error (store st) inc = Some i /\ ikind i = KDerived a b) ->
    backtrack O st inc chg Lv = Good st' -> sinv st' added pend'.
  Proof.
    intros Hs HL Hchg E.
    pose proof (backtrack_ok O L veqb reg r rv st inc chg Lv st' (sv_ok _ _ _ (proj1 Hs)) Hchg E) as Hok'.
    revert E. unfold backtrack, bind. destruct (ps_backtrack (ps st) Lv) as [p'|] eqn:Ep; [|discriminate].
    pose proof (ps_backtrack_step st added pend pend' Lv p' Hs HL Ep) as H1. cbn zeta in H1.
    set (st1 := {| root := root st; rootv := rootv st; index := index st;
                   contradicted := filter (fun e => Nat.leb (snd e) Lv) (contradicted st);
                   merged := merged st; ps := p'; store := store st |}) in *.
    destruct chg.
    - intros E. destruct (Hchg eq_refl) as (i & a & b & Hi & Hk).
      assert (Hnd : as_dependency i = None) by (unfold as_dependency; now rewrite Hk).
      destruct (merge_incompatibility_step O L reg r rv st1 inc st' i (proj1 (sv_ok _ _ _ (proj1 H1))) Hi
                  (fun H => False_ind _ (H Hnd)) E) as (S & W & _ & _).
      eapply is_step_sinv; [exact H1|exact S|exact W|exact Hok'|].
      intros pp a0 Hp. unfold dependant_of in Hp. rewrite Hk in Hp. discriminate.
    - intros E. injection E as <-. exact H1.
  Qed.

  Lemma prior_cause_kind i j ti tj p (pc : incompat) : prior_cause O i j ti tj p = Good pc -> ikind pc = KDerived i j.
  Proof.
    unfold prior_cause, bind, req. destruct (get p ti); [|discriminate]. destruct (get p tj); [|discriminate].
    intros E. now injection E as <-.
  Qed.

  Lemma cr_sound added pend' fuel : forall st cur chg pend st' q rc,
    sinv st added pend ->
    (chg = true -> exists i a b, nth_error (store st) cur = Some i /\ ikind i = KDerived a b) ->
    conflict_resolution O fuel st cur chg = inl (CROk st' q rc) -> sinv st' added pend'.
  Proof.
    induction fuel as [|fuel IH]; intros st cur chg pend st' q rc Hs Hchg; cbn [conflict_resolution]; [discriminate|].
    destruct (nth_error (store st) cur) as [ci|] eqn:Ec; [|discriminate].
    destruct (is_terminal O ci (root st) (rootv st)); [discriminate|].
    destruct (satisfier_search O (terms ci) (ps st) (store st)) as [[p [Lv|cause]]|] eqn:Es; [| |discriminate].
    - destruct (backtrack O st cur chg Lv) as [st2|] eqn:Eb; [|discriminate].
      intros E. injection E as <- _ _.
      destruct (satisfier_search_level _ _ _ _ _ _ (sv_lay _ _ _ (proj1 Hs)) Es) as [_ Hlt].
      eapply backtrack_step; [exact Hs|exact Hlt| |exact Eb]. rewrite Ec. exact Hchg.
    - destruct (nth_error (store st) cause) as [cj|] eqn:Ej; [|discriminate].
      destruct (prior_cause O cur cause (terms ci) (terms cj) p) as [pc|] eqn:Epc; [|discriminate].
      cbn [alloc]. pose proof (prior_cause_kind _ _ _ _ _ _ Epc) as Hk.
      apply (IH _ _ _ pend).
      + destruct (alloc_step O (fun _ => False) st pc) as [S W].
        { intros pp Hp. unfold dependant_of in Hp. rewrite Hk in Hp. discriminate. }
        eapply is_step_sinv; [exact Hs|exact S|exact W| |intros pp a []].
        pose proof (sv_ok _ _ _ (proj1 Hs)) as [Hok Hw]. split; [|exact Hw].
        apply (alloc_ok O L reg r rv st pc Hok). exact (J_der _ _ _ _ _ _ _ cur cause ci cj p Ec Ej Epc).
      + intros _. exists pc, cur, cause. cbn [store]. split; [apply nth_error_snoc|exact Hk].
  Qed.

  (* ---------------------------------------------------------------- relation *)
  Lemma relation_scan_none (ts : list (pkg * tm)) lk : forall incs,
    relation_scan O ts lk incs = None ->
    exists q t tq, In (q, t) ts /\ lk q = Some tq /\ t_relation_with O t tq = Contradicted.
  Proof.
    induction ts as [|[p t] ts IH]; intros incs; cbn [relation_scan]; [discriminate|].
    destruct (lk p) as [tp|] eqn:El; cbn [option_map].
    - destruct (t_relation_with O t tp) eqn:Er.
      + intros H. destruct (IH _ H) as (q & t' & tq & Hin & Hq & Hr). exists q, t', tq. split; [now right|auto].
      + intros _. exists p, t, tp. split; [now left|auto].
      + intros H. destruct (IH _ H) as (q & t' & tq & Hin & Hq & Hr). exists q, t', tq. split; [now right|auto].
    - intros H. destruct (IH _ H) as (q & t' & tq & Hin & Hq & Hr). exists q, t', tq. split; [now right|auto].
  Qed.

  Lemma relation_scan_len (ts : list (pkg * tm)) lk : forall incs l,
    relation_scan O ts lk incs = Some l -> length l <= length incs + length ts.
  Proof.
    induction ts as [|[p t] ts IH]; intros incs l; cbn [relation_scan].
    - intros H. injection H as <-. cbn. lia.
    - destruct (option_map (t_relation_with O t) (lk p)) as [[| |]|]; try discriminate; intros H; apply IH in H;
        rewrite ?app_length in H; cbn [length] in *; lia.
  Qed.

  Lemma relation_short (ts : list (pkg * tm)) lk : length ts <= 1 -> relation O ts lk <> RInconclusive.
  Proof.
    intros Hl. unfold relation. destruct (relation_scan O ts lk []) as [l|] eqn:E; [|discriminate].
    apply relation_scan_len in E. cbn [length] in E. destruct l as [|x [|y l]]; try discriminate. cbn in E. lia.
  Qed.

  Lemma relation_first_sat p t1 (rest : list (pkg * tm)) lk tp :
    lk p = Some tp -> t_relation_with O t1 tp = Satisfied -> relation O ((p, t1) :: rest) lk = relation O rest lk.
  Proof. intros Hl Hr. unfold relation. cbn [relation_scan]. rewrite Hl. cbn [option_map]. now rewrite Hr. Qed.

  Lemma relevant_not_inconclusive p v (I : incompat) lk :
    ext_ok I -> relevant p v I -> lk p = Some (t_exact O v) -> relation O (terms I) lk <> RInconclusive.
  Proof.
    unfold SolverStore.ext_ok, SolverSound2.relevant. destruct (ikind I) as [| |p' A q s| |p' s m]; try tauto.
    - intros (-> & _) (-> & Hsub) Hl. unfold from_dependency. cbn [terms].
      destruct (vs_eqb O s (vs_empty O)); [apply relation_short; cbn; lia|].
      destruct (N.eqb p q); [apply relation_short; cbn; lia|].
      rewrite (relation_first_sat p (Pos A) _ lk (t_exact O v) Hl).
      + apply relation_short. cbn. lia.
      + unfold t_relation_with, t_exact. cbn [t_subset_of]. now rewrite Hsub.
    - intros (-> & _) _ _. apply relation_short. cbn. lia.
  Qed.

  Lemma store_ext_ok (s : list incompat) : store_just O L reg r rv s ->
    forall id i, nth_error s id = Some i -> (forall a b, ikind i <> KDerived a b) -> ext_ok i.
  Proof.
    induction 1 as [|s i Hs IH Hj]; intros id j Hn Hk; [destruct id; discriminate|].
    destruct (Nat.lt_ge_cases id (length s)) as [Hlt|Hge].
    - rewrite nth_error_app1 in Hn by assumption. eauto.
    - rewrite nth_error_app2 in Hn by assumption. destruct (id - length s) as [|k]; [|destruct k; discriminate].
      injection Hn as <-. destruct Hj as [He|a b ia ib p Ha Hb Hp]; [exact He|].
      apply prior_cause_kind in Hp. exfalso. eapply Hk; eauto.
  Qed.

  Lemma relevant_ext_ok st id I p v : full_ok st -> nth_error (store st) id = Some I -> relevant p v I -> ext_ok I.
  Proof.
    intros [(Hs & _) _] Hn Hrel. eapply store_ext_ok; eauto. intros a b Hk.
    unfold SolverSound2.relevant in Hrel. now rewrite Hk in Hrel.
  Qed.

  (* ---------------------------------------------------------------- scanning the incompatibilities of a package *)
  Definition curF (st : state) (cur : pkg) (id : nat) : Prop :=
    forall a g v t I, get cur (asg st) = Some a -> ai a = ADecision g v t -> highest a = level (ps st) ->
      nth_error (store st) id = Some I -> relevant cur v I -> contradicted_at (highest a) (asg st) (terms I).

  Lemma deriv_step_sinv st added pend pend' q id ci p' :
    sinv st added pend -> (forall x, In x pend -> In x pend') ->
    nth_error (store st) id = Some ci -> add_derivation O (ps st) q id (terms ci) = Good p' ->
    let st' := upd_cache (upd_ps st p') (cache_set id (level p') (contradicted st)) in
    sinv st' added pend' /\ index st' = index st
    /\ curF st' q id /\ (forall cur id0, curF st cur id0 -> curF st' cur id0)
    /\ forall cur, curF st' cur id.
  Proof.
    intros [Hs Hri] Hp Hn Ed st'.
    destruct (deriv_step st added pend pend' q id ci p' Hs Hp Hn Ed) as (H1 & Hr & Elv & Est & Eix & Hca & Hdec).
    fold st' in H1, Hr, Elv, Est, Eix, Hca, Hdec.
    assert (Hall : forall cur, curF st' cur id).
    { intros cur a g v t I Hg Ha Hh Hn' _. rewrite Est, Hn in Hn'. injection Hn' as <-. now rewrite Hh. }
    split; [split; [exact H1|eapply (rinv_refines st st' 0); [apply Hr|exact Hri]]|].
    split; [exact Eix|]. split; [apply Hall|]. split; [|exact Hall].
    intros cur id0 Hc a g v t I Hg Ha Hh Hn' Hrel.
    assert (Hd : decided a = true) by (apply decided_ai; eauto).
    pose proof (Hdec cur a Hg Hd) as Hg0. rewrite Est in Hn'. rewrite Elv in Hh.
    eapply contradicted_refines; [apply (Hr (highest a))|lia|]. eapply Hc; eauto.
  Qed.

  Lemma scan_sound added cur ids : forall st buffer done st' b' c,
    sinv st added (cur :: buffer) ->
    (forall id, In id done -> curF st cur id) ->
    scan_incompats O ids st buffer = Good (st', b', c) ->
    sinv st' added (cur :: b') /\ index st' = index st
    /\ (c = None -> forall id, In id (done ++ ids) -> curF st' cur id).
  Proof.
    induction ids as [|id ids IH]; intros st buffer done st' b' c Hs Hdone; cbn [scan_incompats].
    { intros E. injection E as <- <- <-. split; [exact Hs|]. split; [reflexivity|]. intros _ id. rewrite app_nil_r. apply Hdone. }
    assert (Hnext : forall st1 buffer1,
               sinv st1 added (cur :: buffer1) -> index st1 = index st ->
               (forall id0, In id0 done -> curF st1 cur id0) -> curF st1 cur id ->
               scan_incompats O ids st1 buffer1 = Good (st', b', c) ->
               sinv st' added (cur :: b') /\ index st' = index st
               /\ (c = None -> forall id0, In id0 (done ++ id :: ids) -> curF st' cur id0)).
    { intros st1 buffer1 Hs1 Ei1 Hd1 Hc1 E.
      destruct (IH st1 buffer1 (done ++ [id]) st' b' c Hs1) as (K1 & K2 & K3); [|exact E|].
      - intros id0 Hin. apply in_app_or in Hin. destruct Hin as [Hin|[<-|[]]]; auto.
      - split; [exact K1|]. split; [congruence|]. intros Hc id0 Hin. apply K3; [exact Hc|].
        rewrite <- app_assoc. exact Hin. }
    pose proof Hs as [Hcore Hri]. pose proof Hcore as [H1 H2 H3 H4 H5 H6 H7 H8].
    destruct (cached id (contradicted st)) eqn:Ecd.
    - (* cached as contradicted *)
      apply (Hnext st buffer Hs eq_refl Hdone).
      unfold cached in Ecd. apply existsb_exists in Ecd. destruct Ecd as ([id' lvl] & Hin & Heq).
      cbn in Heq. apply Nat.eqb_eq in Heq. subst id'.
      destruct (H8 id lvl Hin) as (Hle & I0 & Hn0 & Hc0).
      intros a g v t I Hg Ha Hh Hn _. assert (I = I0) by congruence. subst I0. rewrite Hh.
      eapply contradicted_mono; eauto.
    - unfold bind, req. destruct (nth_error (store st) id) as [ci|] eqn:Ec; [|discriminate].
      assert (Wc : twf_all O L (terms ci)) by exact (store_just_wf O L reg r rv st id ci (proj1 H1) Ec).
      destruct (relation O (terms ci) (term_for (ps st))) as [| |q|] eqn:Erel.
      + (* conflict *)
        intros E. injection E as <- <- <-. split; [exact Hs|]. split; [reflexivity|]. discriminate.
      + (* contradicted *)
        assert (Hca : contradicted_at (level (ps st)) (asg st) (terms ci)).
        { unfold relation in Erel. destruct (relation_scan O (terms ci) (term_for (ps st)) []) as [l|] eqn:Esc;
            [destruct l as [|x [|y l]]; discriminate|].
          destruct (relation_scan_none _ _ _ Esc) as (q & t & tq & Hin & Hq & Hr).
          exists q, t, tq. split; [exact Hin|]. split; [rewrite (lookup_at_level O) by assumption; exact Hq|].
          apply (rel_contradicted_tdisj O L); [|exact (term_for_wf O L _ _ _ (proj2 H1) Hq)|exact Hr].
          unfold twf_all in Wc. rewrite Forall_forall in Wc. exact (Wc _ Hin). }
        apply Hnext.
        * split; [|exact Hri]. apply cache_step_core; [exact Hcore|]. intros id0 lvl Hin.
          apply cache_set_in in Hin. destruct Hin as [E|Hin]; [|now left]. injection E as -> ->. right.
          split; [lia|]. exists ci. auto.
        * reflexivity.
        * exact Hdone.
        * intros a g v t I Hg Ha Hh Hn _. cbn [upd_cache store ps] in *. assert (I = ci) by congruence. subst I.
          rewrite Hh. exact Hca.
      + (* almost satisfied: a derivation *)
        destruct (add_derivation O (ps st) q id (terms ci)) as [p'|] eqn:Ed; [|discriminate].
        set (buffer' := if existsb (N.eqb q) buffer then buffer else buffer ++ [q]).
        destruct (deriv_step_sinv st added (cur :: buffer) (cur :: buffer') q id ci p' Hs) as (K1 & K2 & _ & K4 & K5);
          [|exact Ec|exact Ed|].
        { intros x [<-|Hx]; [now left|right]. unfold buffer'. destruct (existsb (N.eqb q) buffer); [exact Hx|].
          apply in_or_app. now left. }
        apply Hnext; [exact K1|exact K2| |apply K5]. intros id0 Hin. apply K4. auto.
      + (* inconclusive: impossible for a relevant incompatibility of a decided package *)
        apply (Hnext st buffer Hs eq_refl Hdone).
        intros a g v t I Hg Ha Hh Hn Hrel. exfalso. assert (I = ci) by congruence. subst I.
        eapply (relevant_not_inconclusive cur v ci (term_for (ps st))); [|exact Hrel| |exact Erel].
        * eapply relevant_ext_ok; eauto.
        * unfold term_for. rewrite Hg. cbn [option_map]. rewrite Ha. cbn [ai_term].
          pose proof (ps_chain_get O _ _ _ H3 Hg) as [_ Hch]. destruct (rev (derivs a)); [destruct Hch|].
          rewrite Ha in Hch. destruct Hch as [-> _]. reflexivity.
  Qed.

  Lemma sinv_drop_cur st added cur b :
    sinv st added (cur :: b) -> (forall id, active st cur id -> curF st cur id) -> sinv st added b.
  Proof.
    intros [[H1 H2 H3 H4 H5 H6 H7 H8] Hri] Hc. split; [|exact Hri]. constructor; try assumption.
    intros p a g v t Hg Ha Hcond id I Hact Hn Hrel.
    destruct (N.eq_dec p cur) as [->|Hne].
    - destruct (Nat.lt_ge_cases (highest a) (level (ps st))) as [Hlt|Hge].
      + eapply H7; eauto.
      + pose proof (proj1 (proj2 (layout_get_ok _ _ _ H2 Hg))) as Hh. eapply Hc; eauto. lia.
    - eapply H7; eauto. destruct Hcond as [Hcond|Hcond]; [now left|right]. intros [E|Hin]; [congruence|auto].
  Qed.

  (* ---------------------------------------------------------------- unit propagation *)
  Lemma up_sound added fuel : forall st buffer st',
    sinv st added buffer -> unit_propagation O fuel st buffer = inl (UPOk st') -> sinv st' added [].
  Proof.
    induction fuel as [|fuel IH]; intros st buffer st' Hs; cbn [unit_propagation]; [discriminate|].
    destruct (rev buffer) as [|cur rest] eqn:Er.
    { intros E. injection E as <-. eapply sinv_pend; [|exact Hs]. intros x Hx.
      assert (Hb : buffer = []) by (rewrite <- (rev_involutive buffer), Er; reflexivity). now rewrite Hb in Hx. }
    assert (Hb : buffer = rev rest ++ [cur]) by (rewrite <- (rev_involutive buffer), Er; reflexivity).
    destruct (get cur (index st)) as [ids|] eqn:Ei; [|discriminate].
    assert (Hs0 : sinv st added (cur :: rev rest)).
    { eapply sinv_pend; [|exact Hs]. intros x Hx. rewrite Hb in Hx. apply in_app_or in Hx.
      destruct Hx as [Hx|[<-|[]]]; [now right|now left]. }
    destruct (scan_incompats O (rev ids) st (rev rest)) as [[[st1 b2] [conflict|]]|] eqn:Es; [| |discriminate].
    - destruct (scan_sound added cur (rev ids) st (rev rest) [] st1 b2 (Some conflict) Hs0) as (K1 & _ & _);
        [intros ? []|exact Es|].
      destruct (conflict_resolution O fuel st1 conflict false) as [[st2 q rc|st2 id]|] eqn:Ecr; [|discriminate|discriminate].
      pose proof (cr_sound added [q] fuel st1 conflict false _ st2 q rc K1 ltac:(discriminate) Ecr) as K2.
      destruct (nth_error (store st2) rc) as [rci|] eqn:Erc; [|discriminate].
      destruct (add_derivation O (ps st2) q rc (terms rci)) as [p'|] eqn:Ed; [|discriminate].
      destruct (deriv_step_sinv st2 added [q] [q] q rc rci p' K2 (fun x H => H) Erc Ed) as (K3 & _).
      apply IH. exact K3.
    - destruct (scan_sound added cur (rev ids) st (rev rest) [] st1 b2 None Hs0) as (K1 & K2 & K3);
        [intros ? []|exact Es|].
      apply IH. apply (sinv_drop_cur st1 added cur b2 K1). intros id Hact. apply (K3 eq_refl). cbn [app].
      unfold active, index_get in Hact. rewrite K2, Ei in Hact. now apply in_rev in Hact.
  Qed.
  (* ---------------------------------------------------------------- the final state *)
  Definition GoodSol (sol : list (pkg * Vr)) : Prop :=
    Solution O reg r rv (fun p => get p sol) /\ NoDup (map fst sol)
    /\ forall p v, In (p, v) sol -> In v (reg_versions reg p).

  Definition sol_rel (e : pkg * pa) (s : pkg * Vr) : Prop :=
    fst e = fst s /\ exists g t, ai (snd e) = ADecision g (snd s) t.

  Lemma extract_fold (l : list (pkg * pa)) : forall sol,
    fold_right (fun '(q, a) acc =>
                  bind acc (fun l0 => match ai a with
                                      | ADecision _ v _ => Good ((q, v) :: l0)
                                      | ADerivations _ => Panic PExtractDerivation
                                      end)) (Good []) l = Good sol ->
    Forall2 sol_rel l sol.
  Proof.
    induction l as [|[q a] l IH]; intros sol; cbn [fold_right].
    - intros E. injection E as <-. constructor.
    - destruct (fold_right _ (Good []) l) as [l0|]; [|discriminate]. cbn [bind].
      destruct (ai a) as [g v t|] eqn:Ea; [|discriminate]. intros E. injection E as <-.
      constructor; [|now apply IH]. split; [reflexivity|]. cbn. eauto.
  Qed.

  Lemma sol_rel_get (l : list (pkg * pa)) sol p :
    Forall2 sol_rel l sol ->
    (forall v, get p sol = Some v -> exists a g t, get p l = Some a /\ ai a = ADecision g v t)
    /\ (forall a g v t, get p l = Some a -> ai a = ADecision g v t -> get p sol = Some v)
    /\ map fst sol = keys l.
  Proof.
    induction 1 as [|[q a] [q' w] l sol [E1 (g0 & t0 & E2)] _ IH]; cbn [get map keys fst].
    - split; [discriminate|]. split; [discriminate|reflexivity].
    - cbn in E1, E2. subst q'. destruct IH as (I1 & I2 & I3). destruct (N.eqb p q).
      + split; [intros v E; injection E as <-; eauto|]. split; [|unfold keys in *; now rewrite I3].
        intros a0 g v t E Ha. injection E as <-. congruence.
      + split; [exact I1|]. split; [exact I2|unfold keys in *; now rewrite I3].
  Qed.

  Lemma get_firstn {A} n : forall (m : list (pkg * A)) p a, get p (firstn n m) = Some a -> get p m = Some a.
  Proof.
    induction n as [|n IH]; intros [|[q b] m] p a; cbn; try discriminate.
    destruct (N.eqb p q); [auto|apply IH].
  Qed.

  Lemma nth_error_firstn' {A} n : forall (l : list A) i, i < n -> nth_error (firstn n l) i = nth_error l i.
  Proof.
    induction n as [|n IH]; intros [|x l] [|i] H; cbn; try reflexivity; try lia. apply IH. lia.
  Qed.

  Lemma nodup_firstn {A} n : forall (m : list (pkg * A)), NoDup (keys m) -> NoDup (keys (firstn n m)).
  Proof.
    induction n as [|n IH]; intros [|[q b] m] H; cbn; try constructor.
    - inversion H as [|? ? Hn Hd]; subst. intros Hin. apply Hn.
      unfold keys in *. apply in_map_iff in Hin. destruct Hin as ([x y] & <- & Hin).
      apply in_map_iff. exists (x, y). split; [reflexivity|]. eapply (In_nth_error) in Hin. destruct Hin as (i & Hi).
      assert (Hlt : i < n).
      { assert (i < length (firstn n m)) by (apply nth_error_Some; congruence). pose proof (firstn_le_length n m). rewrite firstn_length in *. lia. }
      rewrite nth_error_firstn' in Hi by assumption. eapply nth_error_In; eauto.
    - inversion H; subst. now apply IH.
  Qed.

  Lemma subset_contains v A : wf O L A -> vs_subset_of O (vs_singleton O v) A = true -> vs_contains O A v = true.
  Proof.
    intros WA H. rewrite (subset_of_spec O L) in H by (try assumption; apply (wf_singleton O L)).
    rewrite (contains_mem O L) by assumption. apply H. now apply (mem_singleton O L).
  Qed.

  Section Final.
    Variables (st : state) (added : list (pkg * Vr)).
    Hypothesis Hs : sinv st added [].
    Hypothesis Hup : undecided_positive (ps st) = [].

    (* a positive term at some level: the package ends up decided inside it *)
    Lemma final_term Lv q tq :
      lookup_at Lv (asg st) q = Some tq -> sat_term O tq None = false ->
      exists a g w t, get q (asg st) = Some a /\ ai a = ADecision g w t /\ sat_term O tq (Some w) = true.
    Proof.
      destruct Hs as [[H1 H2 H3 H4 H5 H6 H7 H8] Hri]. intros Hl Hn.
      destruct (lookup_at_mono O L Lv (Nat.max Lv (level (ps st))) _ q tq H3 ltac:(lia) Hl) as (t1 & Hl1 & Hle).
      unfold lookup_at in Hl1. destruct (get q (asg st)) as [a|] eqn:Eg; [|discriminate].
      pose proof (ps_chain_get O _ _ _ H3 Eg) as Hch.
      rewrite (term_at_cur O) in Hl1; [|exact Hch|pose proof (proj1 (proj2 (layout_get_ok _ _ _ H2 Eg))); lia].
      injection Hl1 as <-.
      assert (Hn1 : sat_term O (ai_term (ai a)) None = false).
      { destruct (sat_term O (ai_term (ai a)) None) eqn:E; [|reflexivity]. apply Hle in E. congruence. }
      destruct (ai a) as [g w t|t] eqn:Ea.
      - exists a, g, w, t. split; [reflexivity|]. split; [exact Ea|]. apply Hle. cbn [ai_term].
        destruct Hch as [_ Hch]. destruct (rev (derivs a)); [destruct Hch|]. rewrite Ea in Hch. destruct Hch as [-> _].
        cbn. now apply (contains_singleton O L).
      - exfalso. cbn [ai_term] in Hn1. destruct t as [s|s]; [|discriminate].
        assert (Hin : In (q, s) (undecided_positive (ps st))).
        { apply undecided_positive_in. apply get_In in Eg. apply In_nth_error in Eg. destruct Eg as (i & Hi).
          exists i, a. split; [exact Hi|]. unfold pos_set. now rewrite Ea. }
        rewrite Hup in Hin. destruct Hin.
    Qed.

    Lemma decided_term_at a g v t : pa_chain O a -> ai a = ADecision g v t -> term_at (highest a) a = Some (t_exact O v).
    Proof.
      intros [_ Hch] Ea. unfold term_at. rewrite Ea, Nat.leb_refl. destruct (rev (derivs a)); [destruct Hch|].
      rewrite Ea in Hch. destruct Hch as [-> _]. reflexivity.
    Qed.

    Lemma final_solution sol : extract_solution (ps st) = Good sol -> GoodSol sol.
    Proof.
      intros Ex. pose proof Hs as [[H1 H2 H3 H4 H5 H6 H7 H8] Hri].
      unfold extract_solution in Ex. apply extract_fold in Ex.
      assert (Ha : forall p v, get p sol = Some v -> exists a g t, get p (asg st) = Some a /\ ai a = ADecision g v t).
      { intros p v Hg. destruct (proj1 (sol_rel_get _ _ p Ex) v Hg) as (a & g & t & Hg' & Ea).
        exists a, g, t. split; [eapply get_firstn; eauto|exact Ea]. }
      assert (Hb : forall p a g v t, get p (asg st) = Some a -> ai a = ADecision g v t -> get p sol = Some v).
      { intros p a g v t Hg Ea. apply (proj1 (proj2 (sol_rel_get _ _ p Ex)) a g v t); [|exact Ea].
        pose proof Hg as Hin. apply get_In in Hin. apply In_nth_error in Hin. destruct Hin as (i & Hi).
        assert (Hlt : i < level (ps st)).
        { destruct (Nat.lt_ge_cases i (level (ps st))) as [|Hge]; [assumption|].
          pose proof (lay_der _ H2 i p a Hi Hge) as Hd. unfold decided in Hd. rewrite Ea in Hd. discriminate. }
        apply In_get; [apply nodup_firstn; exact (lay_keys _ H2)|].
        apply (nth_error_In _ i). now rewrite nth_error_firstn'. }
      assert (Hnd : NoDup (map fst sol)).
      { rewrite (proj2 (proj2 (sol_rel_get _ _ r Ex))). apply nodup_firstn. exact (lay_keys _ H2). }
      assert (Hsel : forall p v, get p sol = Some v ->
                 In v (reg_versions reg p) /\
                 exists ds, reg_deps reg p v = Some ds /\
                   forall q s, In (q, s) ds -> exists w, get q sol = Some w /\ vs_contains O s w = true).
      { intros p v Hg. destruct (Ha p v Hg) as (a & g & t & Hga & Ea).
        pose proof (H5 p a g v t Hga Ea) as Hadd. destruct (H6 p v Hadd) as [Hv Hdeps]. split; [exact Hv|].
        pose proof (ps_chain_get O _ _ _ H3 Hga) as Hch.
        assert (Hlp : lookup_at (highest a) (asg st) p = Some (t_exact O v)).
        { unfold lookup_at. rewrite Hga. eapply decided_term_at; eauto. }
        assert (HF : forall id I, active st p id -> nth_error (store st) id = Some I -> relevant p v I ->
                       contradicted_at (highest a) (asg st) (terms I)).
        { intros id I. apply (H7 p a g v t Hga Ea). right. intros []. }
        assert (Hself : forall A, vs_contains O A v = true ->
                  forall tq, lookup_at (highest a) (asg st) p = Some tq -> tdisj (Pos A) tq -> False).
        { intros A HA tq Hl Hd. rewrite Hlp in Hl. injection Hl as <-. specialize (Hd (Some v)). cbn in Hd.
          rewrite HA in Hd. assert (E : vs_contains O (vs_singleton O v) v = true) by now apply (contains_singleton O L).
          rewrite E in Hd. discriminate. }
        destruct (reg_deps reg p v) as [ds|] eqn:Ed.
        - exists ds. split; [reflexivity|]. intros q s Hin.
          destruct (Hdeps q s Hin) as (id & I & A & Hact & Hn & Hk & Hsub).
          assert (Hrel : relevant p v I) by (unfold SolverSound2.relevant; rewrite Hk; auto).
          pose proof (HF id I Hact Hn Hrel) as (x & tx & tq & Hinx & Hlx & Hdx).
          pose proof (relevant_ext_ok st id I p v H1 Hn Hrel) as Hext. unfold SolverStore.ext_ok in Hext. rewrite Hk in Hext.
          destruct Hext as (Ht & WA & Ws & _). pose proof (subset_contains v A WA Hsub) as HAv.
          rewrite Ht in Hinx. unfold from_dependency in Hinx. cbn [terms] in Hinx.
          destruct (vs_eqb O s (vs_empty O)).
          { destruct Hinx as [E|[]]. injection E as <- <-. exfalso. eapply Hself; eauto. }
          destruct (N.eqb_spec p q) as [<-|Hne].
          + destruct Hinx as [E|[]]. injection E as <- <-. exists v. split; [exact Hg|].
            rewrite Hlp in Hlx. injection Hlx as <-. specialize (Hdx (Some v)). cbn in Hdx.
            assert (E : vs_contains O (vs_singleton O v) v = true) by now apply (contains_singleton O L).
            rewrite E, andb_true_r in Hdx.
            rewrite (contains_intersection O L), (contains_complement O L), HAv in Hdx
              by (try assumption; now apply (wf_complement O L)).
            cbn in Hdx. now apply negb_false_iff in Hdx.
          + destruct Hinx as [E|[E|[]]]; injection E as <- <-; [exfalso; eapply Hself; eauto|].
            assert (Hnn : sat_term O tq None = false).
            { specialize (Hdx None). cbn in Hdx. exact Hdx. }
            destruct (final_term _ _ _ Hlx Hnn) as (aq & gq & w & tw & Hgq & Eaq & Hsw).
            exists w. split; [eapply Hb; eauto|]. specialize (Hdx (Some w)). rewrite Hsw, andb_true_r in Hdx.
            cbn in Hdx. now apply negb_false_iff in Hdx.
        - exfalso. destruct Hdeps as (id & I & m & Hact & Hn & Hk).
          assert (Hrel : relevant p v I) by (unfold SolverSound2.relevant; rewrite Hk; auto).
          pose proof (HF id I Hact Hn Hrel) as (x & tx & tq & Hinx & Hlx & Hdx).
          pose proof (relevant_ext_ok st id I p v H1 Hn Hrel) as Hext. unfold SolverStore.ext_ok in Hext. rewrite Hk in Hext.
          destruct Hext as (Ht & _). rewrite Ht in Hinx. destruct Hinx as [E|[]]. injection E as <- <-.
          eapply Hself; [|exact Hlx|exact Hdx]. now apply (contains_singleton O L). }
      split; [|split; [exact Hnd|]].
      - split; [|exact Hsel].
        destruct Hri as (t0 & Hl0 & Hle0).
        assert (Hn0 : sat_term O t0 None = false).
        { destruct (sat_term O t0 None) eqn:E; [|reflexivity]. apply Hle0 in E. discriminate. }
        destruct (final_term _ _ _ Hl0 Hn0) as (a & g & w & t & Hg & Ea & Hsw).
        apply Hle0 in Hsw. cbn in Hsw. apply (contains_singleton O L) in Hsw. subst w. eapply Hb; eauto.
      - intros p v Hin. apply (In_get _ _ _ Hnd) in Hin. exact (proj1 (Hsel p v Hin)).
    Qed.
  End Final.
  (* ---------------------------------------------------------------- the first iteration *)
  Lemma sinv_core_init : sinv_core (state_init O r rv) [] [r].
  Proof.
    constructor; cbn [state_init ps ps_empty assignments queue contradicted].
    - apply state_init_ok.
    - apply ps_empty_layout.
    - constructor.
    - intros x z a H. discriminate.
    - intros p a g v t H. discriminate.
    - intros p v [].
    - intros p a g v t H. discriminate.
    - intros id lvl [].
  Qed.

  Definition Pre (st : state) (added : list (pkg * Vr)) (next : pkg) : Prop :=
    sinv st added [next] \/ (st = state_init O r rv /\ added = [] /\ next = r).

  Lemma scan_init :
    scan_incompats O [0] (state_init O r rv) [] =
    bind (add_derivation O (ps (state_init O r rv)) r 0 (terms (not_root O r rv)))
         (fun p' => Good (upd_cache (upd_ps (state_init O r rv) p') (cache_set 0 (level p') (contradicted (state_init O r rv))), [r], None)).
  Proof. reflexivity. Qed.

  Lemma up_entry fuel st added next st1 :
    Pre st added next -> unit_propagation O fuel st [next] = inl (UPOk st1) -> sinv st1 added [].
  Proof.
    intros [Hs|(-> & -> & ->)]; [now apply up_sound|].
    destruct fuel as [|fuel]; [discriminate|].
    assert (Hix : get r (index (state_init O r rv)) = Some [0]) by (cbn; now rewrite N.eqb_refl).
    remember (state_init O r rv) as st0 eqn:E0.
    cbn [unit_propagation rev app]. rewrite Hix. cbn [rev app]. rewrite E0, scan_init, <- E0.
    destruct (add_derivation O (ps st0) r 0 (terms (not_root O r rv))) as [p'|] eqn:Ed; [|discriminate].
    cbn [bind].
    assert (Hn : nth_error (store st0) 0 = Some (not_root O r rv)) by (now rewrite E0).
    assert (Hc0 : sinv_core st0 [] [r]) by (rewrite E0; exact sinv_core_init).
    destruct (deriv_step st0 [] [r] [r] r 0 _ p' Hc0 (fun x H => H) Hn Ed) as (K1 & K2 & _).
    intros E. eapply up_sound; [|exact E]. split; [exact K1|].
    destruct (add_derivation_get O _ _ _ _ _ Ed) as (ct & a' & Hct & _ & _ & Hget & Hcase).
    cbn [not_root terms get] in Hct. rewrite N.eqb_refl in Hct. injection Hct as <-.
    destruct Hcase as [(a & t & Hg & _)|(_ & -> & _)]; [rewrite E0 in Hg; discriminate|].
    exists (t_exact O rv). split; [|apply tle_refl].
    unfold lookup_at. cbn [upd_cache upd_ps ps]. rewrite Hget, N.eqb_refl. rewrite E0. reflexivity.
  Qed.

  (* ---------------------------------------------------------------- the pick *)
  Lemma do_prioritize_wb cands : forall q (tr0 : list event) k,
    WellBehaved O reg tr0 ->
    match do_prioritize O cands q tr0 k with
    | inl (_, tr', _) => WellBehaved O reg tr'
    | inr o => exists k' w, o = OMismatch k' w
    end.
  Proof.
    induction cands as [|[pc sc] cands IHc]; intros q tr0 k Hw; cbn [do_prioritize]; [exact Hw|].
    destruct tr0 as [|[| p' s' prio | |] tr0']; try (eexists _, _; reflexivity).
    destruct (N.eqb pc p' && vs_eqb O sc s'); [|eexists _, _; reflexivity]. apply IHc. now apply Forall_inv_tail in Hw.
  Qed.

  Lemma pick_qcond st added (tr tr2 : list event) n n2 q :
    sinv st added [] -> do_prioritize O (pick_candidates (ps st)) (queue (ps st)) tr n = inl (q, tr2, n2) ->
    qcond q (asg st).
  Proof.
    intros [[H1 H2 H3 H4 H5 H6 H7 H8] _] Ep x z a Hz Hg. destruct (do_prioritize_get O _ _ _ _ _ _ _ Ep) as [I1 _].
    destruct (in_dec N.eq_dec x (map fst (pick_candidates (ps st)))) as [Hin|Hni].
    - apply in_map_iff in Hin. destruct Hin as ([x' s] & Ex & Hin). cbn in Ex. subst x'.
      destruct (pick_candidates_in veqb (ps st) x s Hin) as (i & a' & Hn & Hs').
      pose proof (nth_get _ _ _ _ (lay_keys _ H2) Hn) as Hg'. assert (a' = a) by congruence. subst a'.
      eapply pos_set_undecided; eauto.
    - rewrite (I1 x Hni) in Hz. eapply H4; eauto.
  Qed.

  Lemma added_has_in added p v : added_has veqb added p v = true -> In (p, v) added.
  Proof.
    unfold added_has. intros H. apply existsb_exists in H. destruct H as ([p' v'] & Hin & H). cbn in H.
    apply andb_prop in H as [A B]. apply N.eqb_eq in A. apply veqb_eq in B. now subst.
  Qed.

  (* ---------------------------------------------------------------- the main loop *)
  Definition SolPost (sol : list (pkg * Vr)) (log' : list (@pick_info VS)) : Prop :=
    exists log0 cands n2, log' = log0 ++ [(cands, [], n2)] /\ (cands = [] -> GoodSol sol).

  Lemma resolve_loop_sound fuel : forall st next added tr n log sol st' log' cnt,
    Pre st added next -> WellBehaved O reg tr ->
    resolve_loop O veqb fuel st next added tr n log = (OSolution sol, st', log', cnt) -> SolPost sol log'.
  Proof.
    induction fuel as [|fuel IH]; intros st next added tr n log sol st' log' cnt Hpre Hwb; cbn [resolve_loop]; [discriminate|].
    destruct tr as [|[ok| | |] tr1]; try discriminate.
    destruct ok; cbn [negb]; [|discriminate].
    apply Forall_inv_tail in Hwb.
    destruct (unit_propagation O (S fuel) st [next]) as [[st1|st1 id]|[|s0]] eqn:Eup; try discriminate.
    2:{ destruct (build_derivation_tree (store st1) id); discriminate. }
    pose proof (up_entry _ _ _ _ _ Hpre Eup) as H1.
    pose proof (do_prioritize_wb (pick_candidates (ps st1)) (queue (ps st1)) tr1 (S n) Hwb) as Hprio.
    destruct (do_prioritize O (pick_candidates (ps st1)) (queue (ps st1)) tr1 (S n)) as [[[q tr2] n2]|o] eqn:Ep;
      [|destruct Hprio as (k' & w & ->); discriminate].
    pose proof (pick_qcond _ _ _ _ _ _ _ H1 Ep) as Hq.
    destruct (queue_max q) as [mx|] eqn:Eqm.
    2:{ unfold res_out. destruct (extract_solution (ps st1)) as [sol0|] eqn:Ex; [|discriminate].
        intros E. injection E as <- _ <- _.
        assert (q = []) by (destruct q as [|[? [? ?]] ?]; [reflexivity|discriminate]). subst q.
        exists log, (undecided_positive (ps st1)), n2. split; [reflexivity|]. intros Hc.
        eapply final_solution; eauto. }
    destruct tr2 as [|[| |p s ans|] tr3]; try discriminate.
    destruct (get p q) as [[prio qs]|] eqn:Egp; [|discriminate].
    destruct (negb (Z.eqb prio mx)); [discriminate|].
    set (st2 := upd_ps st1 _).
    assert (H2 : sinv st2 added []).
    { apply queue_step; [exact H1|reflexivity|reflexivity|]. cbn [queue]. intros x z a Hz Hg.
      destruct (N.eq_dec p x) as [<-|Hne]; [now rewrite get_remove_same in Hz|].
      rewrite get_remove_other in Hz by assumption. eapply Hq; eauto. }
    assert (Hund : forall a, get p (asg st2) = Some a -> decided a = false).
    { intros a Hg. eapply Hq; eauto. }
    assert (Hqn : get p (queue (ps st2)) = None) by (cbn; apply get_remove_same).
    pose proof (Forall_inv Hprio) as Hev. apply Forall_inv_tail in Hprio.
    destruct (term_for (ps st2) p) as [ti|] eqn:Eti; [|discriminate].
    destruct ti as [cur_set|cur_set]; [|discriminate].
    destruct (vs_eqb O s cur_set) eqn:Es; cbn [negb]; [|discriminate].
    apply (vs_eqb_spec O L) in Es. subst s.
    pose proof (sv_ok _ _ _ (proj1 H2)) as Hok2.
    assert (Wcur : wf O L cur_set) by exact (term_for_wf O L _ _ _ (proj2 Hok2) Eti).
    destruct ans as [v| |]; [| |discriminate].
    - (* a version was chosen *)
      destruct (negb (t_contains O (Pos cur_set) v)); [discriminate|].
      destruct (added_has veqb added p v) eqn:Eah.
      + unfold res_out. destruct (add_decision O (ps st2) p v) as [p'|] eqn:Ed; [|discriminate].
        intros E. eapply IH; [left|exact Hprio|exact E].
        eapply decide_step; eauto. now apply added_has_in.
      + destruct tr3 as [|[| | |p0 v0 dans] tr4]; try discriminate.
        destruct (N.eqb_spec p p0) as [<-|]; cbn [andb negb]; [|discriminate].
        destruct (veqb v v0) eqn:Ev; cbn [negb]; [|discriminate].
        apply veqb_eq in Ev. subst v0.
        pose proof (Forall_inv Hprio) as Hev2. apply Forall_inv_tail in Hprio.
        destruct dans as [deps|m|]; [| |discriminate].
        * (* dependencies available *)
          unfold res_out.
          destruct (add_incompatibility_from_dependencies O st2 p v deps) as [[st3 range]|] eqn:Ea; [|discriminate].
          cbn in Hev2. destruct Hev2 as (ds' & Hd & Hiff).
          assert (Hdeps : forall qd sd, In (qd, sd) deps -> wf O L sd /\ declares O reg p (vs_singleton O v) qd sd).
          { intros qd sd Hin. apply Hiff in Hin. split; [exact (Hregwf _ _ _ _ _ Hd Hin)|].
            eapply declares_singleton; eauto. }
          pose proof (add_from_dependencies_ps O _ _ _ _ _ _ Ea) as Eps.
          assert (Hok3 : full_ok st3).
          { split; [eapply add_from_dependencies_ok; [exact (proj1 Hok2)|exact Hdeps|exact Ea]|rewrite Eps; exact (proj2 Hok2)]. }
          destruct (add_from_dependencies_step O L reg r rv _ _ _ _ _ _ (proj1 Hok2) Hdeps Ea) as (S3 & W3 & D3).
          assert (H3 : sinv st3 ((p, v) :: added) []).
          { apply sinv_add.
            - eapply is_step_sinv; [exact H2|exact S3|exact W3|exact Hok3|]. intros pp a <-. apply Hund.
            - split; [exact Hev|]. rewrite Hd. intros qd sd Hin. apply D3. now apply Hiff. }
          destruct (add_version O (ps st3) p v range (store st3)) as [p'|] eqn:Eav; [|discriminate].
          intros E. eapply IH; [left|exact Hprio|exact E].
          assert (Hdc : add_decision O (ps st3) p v = Good p' -> sinv (upd_ps st3 p') ((p, v) :: added) [p]).
          { intros Ed. eapply decide_step; [exact H3|exact Ed|now left|]. rewrite Eps. exact Hqn. }
          unfold add_version in Eav. destruct (negb (backtracked (ps st3))); [auto|].
          destruct (forallb _ _); [auto|]. injection Eav as <-.
          eapply sinv_pend; [|apply queue_step; [exact H3|reflexivity|reflexivity|exact (sv_queue _ _ _ (proj1 H3))]].
          intros x [].
        * (* dependencies unavailable *)
          unfold res_out.
          destruct (add_incompatibility O st2 (custom_version O p v m)) as [st3|] eqn:Ea; [|discriminate].
          cbn in Hev2.
          assert (Hext : ext_ok (custom_version O p v m)).
          { unfold SolverStore.ext_ok. cbn [ikind custom_version]. split; [reflexivity|]. exists v. split; [reflexivity|exact Hev2]. }
          assert (Hok3 : full_ok st3).
          { split; [eapply add_incompatibility_ok; [exact (proj1 Hok2)|exact Hext|exact Ea]|].
            rewrite (add_incompatibility_ps O _ _ _ Ea). exact (proj2 Hok2). }
          destruct (add_incompatibility_step O L reg r rv _ _ _ (proj1 Hok2) Hext Ea) as (S3 & W3 & C3).
          intros E. eapply IH; [left|exact Hprio|exact E].
          apply (sinv_pend _ _ [] [p]); [intros x []|]. apply sinv_add.
          -- eapply is_step_sinv; [exact H2|exact S3|exact W3|exact Hok3|]. intros pp a Hp. cbn in Hp. injection Hp as <-. apply Hund.
          -- split; [exact Hev|]. rewrite Hev2. eapply C3; [reflexivity|]. cbn. now left.
    - (* no version: the NoVersions incompatibility *)
      cbn [no_versions]. unfold res_out.
      destruct (add_incompatibility O st2 _) as [st3|] eqn:Ea; [|discriminate].
      cbn in Hev.
      assert (Hext : ext_ok {| terms := [(p, Pos cur_set)]; ikind := KNoVersions p cur_set |}).
      { unfold SolverStore.ext_ok. cbn [ikind]. split; [reflexivity|]. split; [exact Wcur|exact Hev]. }
      assert (Hok3 : full_ok st3).
      { split; [eapply add_incompatibility_ok; [exact (proj1 Hok2)|exact Hext|exact Ea]|].
        rewrite (add_incompatibility_ps O _ _ _ Ea). exact (proj2 Hok2). }
      destruct (add_incompatibility_step O L reg r rv _ _ _ (proj1 Hok2) Hext Ea) as (S3 & W3 & _).
      intros E. eapply IH; [left|exact Hprio|exact E].
      apply (sinv_pend _ _ [] [p]); [intros x []|].
      eapply is_step_sinv; [exact H2|exact S3|exact W3|exact Hok3|]. intros pp a Hp. cbn in Hp. injection Hp as <-. apply Hund.
  Qed.

  (* ---------------------------------------------------------------- C01 for the model *)
  Theorem resolve_ok_sound_last fuel (tr : list event) sol st log cnt :
    WellBehaved O reg tr ->
    resolve O veqb fuel r rv tr = (OSolution sol, st, log, cnt) ->
    (* at the decision point that returned the solution no undecided package has a positive term *)
    (forall log0 cands q n2, log = log0 ++ [(cands, q, n2)] -> cands = []) ->
    Solution O reg r rv (fun p => get p sol)
    /\ NoDup (map fst sol) /\ (forall p v, In (p, v) sol -> In v (reg_versions reg p)).
  Proof.
    intros Hwb E Hlast. unfold resolve in E.
    destruct (resolve_loop_sound fuel (state_init O r rv) r [] tr 0 [] sol st log cnt) as (log0 & cands & n2 & El & Hg);
      [right; auto|exact Hwb|exact E|].
    apply Hg. eapply Hlast; eauto.
  Qed.

  Theorem resolve_ok_sound_full fuel (tr : list event) sol st log cnt :
    WellBehaved O reg tr ->
    resolve O veqb fuel r rv tr = (OSolution sol, st, log, cnt) ->
    (forall k cands q n2 x s, nth_error log k = Some (cands, q, n2) -> In (x, s) cands -> exists z, get x q = Some (z, s)) ->
    Solution O reg r rv (fun p => get p sol)
    /\ NoDup (map fst sol) /\ (forall p v, In (p, v) sol -> In v (reg_versions reg p)).
  Proof.
    intros Hwb E Hcov. unfold resolve in E.
    destruct (resolve_loop_sound fuel (state_init O r rv) r [] tr 0 [] sol st log cnt) as (log0 & cands & n2 & El & Hg);
      [right; auto|exact Hwb|exact E|].
    apply Hg. destruct cands as [|[x s] cands]; [reflexivity|]. exfalso.
    destruct (Hcov (length log0) ((x, s) :: cands) [] n2 x s) as (z & Hz); [|now left|discriminate].
    rewrite El. apply nth_error_snoc.
  Qed.

  Theorem resolve_ok_sound fuel (tr : list event) sol st log cnt :
    WellBehaved O reg tr ->
    resolve O veqb fuel r rv tr = (OSolution sol, st, log, cnt) ->
    (forall k cands q n2 x s, nth_error log k = Some (cands, q, n2) -> In (x, s) cands -> exists z, get x q = Some (z, s)) ->
    Solution O reg r rv (fun p => get p sol).
  Proof. intros Hwb E Hcov. exact (proj1 (resolve_ok_sound_full fuel tr sol st log cnt Hwb E Hcov)). Qed.
End Sound.

(* the statement with the two-sided specification of [veqb] *)
Theorem resolve_ok_sound_spec {VS Vr : Type} (O : VSOps VS Vr) (L : VSLawful O) (veqb : Vr -> Vr -> bool)
    (reg : registry (VS := VS) (Vr := Vr)) (r : pkg) (rv : Vr)
    (Hregwf : reg_wf O L reg) (veqb_spec : forall a b, veqb a b = true <-> a = b)
    fuel tr sol st log cnt :
  WellBehaved O reg tr ->
  resolve O veqb fuel r rv tr = (OSolution sol, st, log, cnt) ->
  (forall k cands q n2 x s, nth_error log k = Some (cands, q, n2) -> In (x, s) cands -> exists z, get x q = Some (z, s)) ->
  Solution O reg r rv (fun p => get p sol).
Proof. apply (resolve_ok_sound O L veqb reg r rv Hregwf (fun a b => proj1 (veqb_spec a b))). Qed.

Print Assumptions resolve_ok_sound.
Print Assumptions resolve_ok_sound_spec.
Print Assumptions resolve_ok_sound_full.
Print Assumptions resolve_ok_sound_last.
