(* Correctness of the binary-heap model Model/Heap.v (priority-queue 2.1.1): permutation, key
   uniqueness and max-heap order are preserved by push (update-or-insert) and pop; pop returns a
   maximum.  No axioms. *)
From Coq Require Import List NArith ZArith Bool Arith Lia Permutation Wf_nat.
From PG Require Import Model.Heap.
Import ListNotations.

Local Notation par j := (Nat.div2 (j - 1)).

(* ---------- arithmetic on positions ---------- *)

Lemma par_spec j : 0 < j -> j = 2 * par j + 1 \/ j = 2 * par j + 2.
Proof.
  intros Hj. pose proof (Nat.div2_odd (j - 1)) as H.
  destruct (Nat.odd (j - 1)); cbn [Nat.b2n] in H; lia.
Qed.

Lemma par_l i : par (2 * i + 1) = i.
Proof. pose proof (par_spec (2 * i + 1)); lia. Qed.

Lemma par_r i : par (2 * i + 2) = i.
Proof. pose proof (par_spec (2 * i + 2)); lia. Qed.

(* ---------- set_nth ---------- *)

Lemma length_set_nth {A} n (a : A) l : length (set_nth n a l) = length l.
Proof. revert n; induction l as [|x l IH]; intros [|n]; cbn; auto. Qed.

Lemma nth_error_set_nth_eq {A} n (a : A) l : n < length l -> nth_error (set_nth n a l) n = Some a.
Proof.
  revert n; induction l as [|x l IH]; intros [|n] H; cbn in *; try lia; auto. apply IH; lia.
Qed.

Lemma nth_error_set_nth_neq {A} n m (a : A) l : n <> m -> nth_error (set_nth n a l) m = nth_error l m.
Proof.
  revert n m; induction l as [|x l IH]; intros [|n] [|m] H; cbn; auto; try lia.
Qed.

Lemma set_nth_perm {A} n (a x : A) l :
  nth_error l n = Some x -> Permutation (x :: set_nth n a l) (a :: l).
Proof.
  revert n; induction l as [|y l IH]; intros [|n] H; cbn in *; try discriminate.
  - injection H as ->. apply perm_swap.
  - transitivity (y :: x :: set_nth n a l); [apply perm_swap|].
    transitivity (y :: a :: l); [apply perm_skip; apply IH; exact H|apply perm_swap].
Qed.

Lemma nth_removelast {A} (l : list A) k c :
  nth_error (removelast l) k = Some c -> nth_error l k = Some c.
Proof.
  intros H. destruct l as [|a l']; [destruct k; discriminate|].
  pose proof (@app_removelast_last A (a :: l') a ltac:(discriminate)) as E.
  rewrite E. rewrite nth_error_app1; [exact H|]. apply nth_error_Some. congruence.
Qed.

Lemma NoDup_map_filter {A B} (g : A -> B) (f : A -> bool) l :
  NoDup (map g l) -> NoDup (map g (filter f l)).
Proof.
  induction l as [|a l IH]; cbn; intros H; [constructor|].
  inversion H as [|? ? Hn Hd]; subst.
  destruct (f a); cbn; [constructor|]; auto.
  intros Hin. apply Hn. apply in_map_iff in Hin. destruct Hin as (y & Hy & Hin).
  apply filter_In in Hin. apply in_map_iff. exists y. tauto.
Qed.

Section HeapProofs.
  Context {I : Type} (ieqb : I -> I -> bool) (ieqb_spec : forall a b, ieqb a b = true <-> a = b).

  Definition heap_keys (h : heap (I:=I)) : list I := map fst h.
  Definition heap_wf (h : heap (I:=I)) : Prop := NoDup (heap_keys h).
  (* max-heap order: every non-root position is <= its parent (parent of i>0 is Nat.div2 (i-1)) *)
  Definition heap_ord (h : heap (I:=I)) : Prop :=
    forall i c p, 0 < i -> nth_error h i = Some c -> nth_error h (Nat.div2 (i - 1)) = Some p -> (snd c <= snd p)%Z.

  (* ---------- unfolding lemmas ---------- *)

  Lemma bubble_up_S f (h : heap (I:=I)) pos it :
    bubble_up (S f) h pos it =
    if pos =? 0 then (set_nth pos it h, pos)
    else match nth_error h (par pos) with
         | Some ep => if Z.ltb (snd ep) (snd it) then bubble_up f (set_nth pos ep h) (par pos) it
                      else (set_nth pos it h, pos)
         | None => (set_nth pos it h, pos)
         end.
  Proof. destruct pos; reflexivity. Qed.

  Definition hsel (h : heap (I:=I)) (i : nat) (ei el : I * Z) : nat :=
    let largest := if Z.gtb (snd el) (snd ei) then 2 * i + 1 else i in
    let largestp := if Z.gtb (snd el) (snd ei) then snd el else snd ei in
    match nth_error h (2 * i + 2) with
    | Some er => if Z.gtb (snd er) largestp then 2 * i + 2 else largest
    | None => largest
    end.

  Lemma heapify_S f (h : heap (I:=I)) i :
    heapify (S f) h i =
    match nth_error h i, nth_error h (2 * i + 1) with
    | Some ei, Some el =>
        if Nat.eqb (hsel h i ei el) i then h
        else heapify f (swap_pos h i (hsel h i ei el)) (hsel h i ei el)
    | _, _ => h
    end.
  Proof. reflexivity. Qed.

  Lemma hsel_spec h i ei el :
    nth_error h (2 * i + 1) = Some el ->
    (hsel h i ei el = i /\ (snd el <= snd ei)%Z /\
     (forall er, nth_error h (2 * i + 2) = Some er -> (snd er <= snd ei)%Z)) \/
    ((hsel h i ei el = 2 * i + 1 \/ hsel h i ei el = 2 * i + 2) /\
     exists x, nth_error h (hsel h i ei el) = Some x /\ (snd ei < snd x)%Z /\ (snd el <= snd x)%Z /\
       (forall er, nth_error h (2 * i + 2) = Some er -> (snd er <= snd x)%Z)).
  Proof.
    intros Hel. unfold hsel.
    destruct (nth_error h (2 * i + 2)) as [er|] eqn:Her.
    - destruct (Z.gtb_spec (snd el) (snd ei)) as [G1|G1];
        match goal with |- context [Z.gtb ?a ?b] => destruct (Z.gtb_spec a b) as [G2|G2] end.
      + right. split; [right; reflexivity|]. exists er. repeat split; auto; try lia.
        intros er' [= <-]; lia.
      + right. split; [left; reflexivity|]. exists el. repeat split; auto; try lia.
        intros er' [= <-]; lia.
      + right. split; [right; reflexivity|]. exists er. repeat split; auto; try lia.
        intros er' [= <-]; lia.
      + left. repeat split; auto. intros er' [= <-]; lia.
    - destruct (Z.gtb_spec (snd el) (snd ei)) as [G1|G1].
      + right. split; [left; reflexivity|]. exists el. repeat split; auto; try lia.
        intros er' [=].
      + left. repeat split; auto. intros er' [=].
  Qed.

  (* ---------- swap_pos ---------- *)

  Lemma length_swap (h : heap (I:=I)) i j : length (swap_pos h i j) = length h.
  Proof.
    unfold swap_pos. destruct (nth_error h i); [|reflexivity]. destruct (nth_error h j); [|reflexivity].
    now rewrite !length_set_nth.
  Qed.

  Lemma swap_nth (h : heap (I:=I)) i l a b k :
    nth_error h i = Some a -> nth_error h l = Some b -> i <> l ->
    nth_error (swap_pos h i l) k = if k =? l then Some a else if k =? i then Some b else nth_error h k.
  Proof.
    intros Ha Hb Hne. unfold swap_pos. rewrite Ha, Hb.
    assert (i < length h) by (apply nth_error_Some; congruence).
    assert (l < length h) by (apply nth_error_Some; congruence).
    destruct (Nat.eqb_spec k l) as [->|Hkl].
    - apply nth_error_set_nth_eq. rewrite length_set_nth. auto.
    - rewrite nth_error_set_nth_neq by auto. destruct (Nat.eqb_spec k i) as [->|Hki].
      + apply nth_error_set_nth_eq; auto.
      + apply nth_error_set_nth_neq; auto.
  Qed.

  Lemma swap_pos_perm (h : heap (I:=I)) i j : Permutation (swap_pos h i j) h.
  Proof.
    unfold swap_pos. destruct (nth_error h i) as [a|] eqn:Ha; [|reflexivity].
    destruct (nth_error h j) as [b|] eqn:Hb; [|reflexivity].
    assert (Hi : i < length h) by (apply nth_error_Some; congruence).
    assert (Hj : nth_error (set_nth i b h) j = Some b).
    { destruct (Nat.eq_dec i j) as [<-|Hne].
      - apply nth_error_set_nth_eq; auto.
      - rewrite nth_error_set_nth_neq by auto. exact Hb. }
    pose proof (set_nth_perm i b a h Ha) as P1.
    pose proof (set_nth_perm j a b (set_nth i b h) Hj) as P2.
    apply Permutation_cons_inv with b. etransitivity; [exact P2|exact P1].
  Qed.

  (* ---------- permutation facts ---------- *)

  Lemma heapify_perm f : forall (h : heap (I:=I)) i, Permutation (heapify f h i) h.
  Proof.
    induction f as [|f IH]; intros h i; [reflexivity|].
    rewrite heapify_S. destruct (nth_error h i); [|reflexivity].
    destruct (nth_error h (2 * i + 1)); [|reflexivity].
    destruct (_ =? _); [reflexivity|].
    etransitivity; [apply IH|apply swap_pos_perm].
  Qed.

  Lemma bubble_up_perm f : forall (h : heap (I:=I)) pos it x h2 pos1,
    nth_error h pos = Some x -> bubble_up f h pos it = (h2, pos1) ->
    Permutation (x :: h2) (it :: h).
  Proof.
    induction f as [|f IH]; intros h pos it x h2 pos1 Hx Hbu.
    - cbn in Hbu. injection Hbu as <- <-. apply set_nth_perm; auto.
    - rewrite bubble_up_S in Hbu. destruct (pos =? 0) eqn:E0.
      + injection Hbu as <- <-. apply set_nth_perm; auto.
      + destruct (nth_error h (par pos)) as [ep|] eqn:Hpp;
          [|injection Hbu as <- <-; apply set_nth_perm; auto].
        destruct (Z.ltb (snd ep) (snd it));
          [|injection Hbu as <- <-; apply set_nth_perm; auto].
        apply Nat.eqb_neq in E0. pose proof (par_spec pos ltac:(lia)) as Pp.
        assert (Hpp' : nth_error (set_nth pos ep h) (par pos) = Some ep)
          by (rewrite nth_error_set_nth_neq by lia; exact Hpp).
        pose proof (IH _ _ _ _ _ _ Hpp' Hbu) as P1.
        pose proof (set_nth_perm pos ep x h Hx) as P2.
        apply Permutation_cons_inv with ep.
        transitivity (x :: ep :: h2); [apply perm_swap|].
        transitivity (x :: it :: set_nth pos ep h); [apply perm_skip; exact P1|].
        transitivity (it :: x :: set_nth pos ep h); [apply perm_swap|].
        transitivity (it :: ep :: h); [apply perm_skip; exact P2|]. apply perm_swap.
  Qed.

  (* ---------- find_pos ---------- *)

  Lemma ieqb_refl p : ieqb p p = true.
  Proof. apply ieqb_spec; reflexivity. Qed.

  Lemma filter_notin p (h : heap (I:=I)) :
    ~ In p (heap_keys h) -> filter (fun e => negb (ieqb p (fst e))) h = h.
  Proof.
    unfold heap_keys. induction h as [|[q w] h IH]; cbn; intros Hn; auto.
    destruct (ieqb p q) eqn:E.
    - apply ieqb_spec in E; subst. exfalso; apply Hn; left; auto.
    - cbn. f_equal. apply IH. intros X; apply Hn; right; auto.
  Qed.

  Lemma find_pos_None p (h : heap (I:=I)) : find_pos ieqb p h = None -> ~ In p (heap_keys h).
  Proof.
    unfold heap_keys. induction h as [|[q w] h IH]; cbn; intros Hf; [tauto|].
    destruct (ieqb p q) eqn:E; [discriminate|].
    destruct (find_pos ieqb p h); [discriminate|].
    intros [X|X]; [|exact (IH eq_refl X)].
    subst q. rewrite ieqb_refl in E. discriminate.
  Qed.

  Lemma find_pos_Some p (h : heap (I:=I)) : forall pos, heap_wf h -> find_pos ieqb p h = Some pos ->
    exists z0, nth_error h pos = Some (p, z0) /\
               Permutation h ((p, z0) :: filter (fun e => negb (ieqb p (fst e))) h).
  Proof.
    unfold heap_wf, heap_keys.
    induction h as [|[q w] h IH]; intros pos Hwf Hf; cbn in Hf; [discriminate|].
    inversion Hwf as [|? ? Hn Hd]; subst.
    destruct (ieqb p q) eqn:E.
    - injection Hf as <-. apply ieqb_spec in E; subst q. exists w. split; [reflexivity|].
      cbn. rewrite ieqb_refl. cbn. rewrite filter_notin by exact Hn. reflexivity.
    - destruct (find_pos ieqb p h) as [n|] eqn:Hfp; cbn in Hf; [|discriminate]. injection Hf as <-.
      destruct (IH n Hd eq_refl) as (z0 & Hn0 & HP). exists z0. split; [exact Hn0|].
      cbn. rewrite E. cbn. etransitivity; [apply perm_skip; exact HP|apply perm_swap].
  Qed.

  (* ---------- push: permutation and key uniqueness ---------- *)

  Theorem heap_push_perm : forall h p z, heap_wf h ->
    Permutation (heap_push ieqb h p z) ((p, z) :: filter (fun e => negb (ieqb p (fst e))) h).
  Proof.
    intros h p z Hwf. unfold heap_push. destruct (find_pos ieqb p h) as [pos|] eqn:Hf.
    - destruct (find_pos_Some p h pos Hwf Hf) as (z0 & Hn & HP).
      destruct (bubble_up (S pos) h pos (p, z)) as [h1 pos1] eqn:Hbu.
      etransitivity; [apply heapify_perm|].
      pose proof (bubble_up_perm _ _ _ _ _ _ _ Hn Hbu) as P1.
      apply Permutation_cons_inv with (p, z0).
      etransitivity; [exact P1|]. etransitivity; [apply perm_skip; exact HP|]. apply perm_swap.
    - rewrite filter_notin by (apply find_pos_None; auto).
      destruct (bubble_up (S (length h)) (h ++ [(p, z)]) (length h) (p, z)) as [h1 pos1] eqn:Hbu.
      cbn [fst].
      assert (Hn : nth_error (h ++ [(p, z)]) (length h) = Some (p, z))
        by (rewrite nth_error_app2 by lia; rewrite Nat.sub_diag; reflexivity).
      pose proof (bubble_up_perm _ _ _ _ _ _ _ Hn Hbu) as P1.
      apply Permutation_cons_inv in P1. etransitivity; [exact P1|]. symmetry.
      apply Permutation_cons_append.
  Qed.

  Theorem heap_push_wf : forall h p z, heap_wf h -> heap_wf (heap_push ieqb h p z).
  Proof.
    intros h p z Hwf. pose proof (heap_push_perm h p z Hwf) as P.
    unfold heap_wf, heap_keys in *. apply (Permutation_map fst) in P.
    eapply Permutation_NoDup; [symmetry; exact P|].
    cbn. constructor.
    - intros Hin. apply in_map_iff in Hin. destruct Hin as ([q w] & Hq & Hin). cbn in Hq; subst q.
      apply filter_In in Hin. destruct Hin as [_ Hb]. cbn in Hb. rewrite ieqb_refl in Hb. discriminate.
    - apply NoDup_map_filter. exact Hwf.
  Qed.

  (* ---------- order invariants ---------- *)

  Definition le_at (h : heap (I:=I)) (c p : nat) : Prop :=
    forall ec ep, nth_error h c = Some ec -> nth_error h p = Some ep -> (snd ec <= snd ep)%Z.

  (* ordered everywhere except between [pos] and its children; children of pos <= parent of pos *)
  Definition HP (h : heap (I:=I)) (pos : nat) : Prop :=
    (forall j, 0 < j -> par j <> pos -> le_at h j (par j)) /\
    (forall j, 0 < j -> par j = pos -> 0 < pos -> le_at h j (par pos)).

  (* the same with a hole at [pos] (the pair (pos, parent pos) is not constrained either) *)
  Definition BU (h : heap (I:=I)) (pos : nat) : Prop :=
    (forall j, 0 < j -> j <> pos -> par j <> pos -> le_at h j (par j)) /\
    (forall j, 0 < j -> par j = pos -> 0 < pos -> le_at h j (par pos)).

  Definition CL (h : heap (I:=I)) (pos : nat) (it : I * Z) : Prop :=
    forall j ec, 0 < j -> par j = pos -> nth_error h j = Some ec -> (snd ec <= snd it)%Z.

  Lemma hp_done h i : HP h i -> (forall j, 0 < j -> par j = i -> le_at h j i) -> heap_ord h.
  Proof.
    intros [Ha _] Hc j c p Hj H1 H2. destruct (Nat.eq_dec (par j) i) as [E|E].
    - rewrite E in H2. exact (Hc j Hj E c p H1 H2).
    - exact (Ha j Hj E c p H1 H2).
  Qed.

  Lemma ord_BU h pos : heap_ord h -> pos < length h -> BU h pos.
  Proof.
    intros Ho Hlen. split.
    - intros j Hj _ _ ec ep Hc Hp. exact (Ho j ec ep Hj Hc Hp).
    - intros j Hj Hpj Hpos ec ep Hc Hp.
      destruct (nth_error h pos) as [em|] eqn:Hm; [|apply nth_error_None in Hm; lia].
      assert (Hm' : nth_error h (par j) = Some em) by (rewrite Hpj; exact Hm).
      pose proof (Ho j ec em Hj Hc Hm'). pose proof (Ho pos em ep Hpos Hm Hp). lia.
  Qed.

  Lemma bu_end h pos it :
    pos < length h -> BU h pos ->
    (pos = 0 \/ forall ep, nth_error h (par pos) = Some ep -> (snd it <= snd ep)%Z) ->
    HP (set_nth pos it h) pos /\ (CL h pos it -> heap_ord (set_nth pos it h)).
  Proof.
    intros Hlen [Ba Bb] Hend.
    assert (HPa : forall j, 0 < j -> par j <> pos -> le_at (set_nth pos it h) j (par j)).
    { intros j Hj Hpj ec ep Hc Hp. pose proof (par_spec j Hj) as Pj.
      rewrite nth_error_set_nth_neq in Hp by lia.
      destruct (Nat.eq_dec j pos) as [->|Hne].
      - rewrite nth_error_set_nth_eq in Hc by lia. injection Hc as <-.
        destruct Hend as [->|He]; [lia|]. eauto.
      - rewrite nth_error_set_nth_neq in Hc by lia. exact (Ba j Hj Hne Hpj ec ep Hc Hp). }
    split; [split; [exact HPa|]|].
    - intros j Hj Hpj Hpos ec ep Hc Hp. pose proof (par_spec j Hj). pose proof (par_spec pos Hpos).
      rewrite nth_error_set_nth_neq in Hc by lia. rewrite nth_error_set_nth_neq in Hp by lia.
      exact (Bb j Hj Hpj Hpos ec ep Hc Hp).
    - intros Hcl i c p Hi Hc Hp. destruct (Nat.eq_dec (par i) pos) as [E|E].
      + pose proof (par_spec i Hi). rewrite E in Hp.
        rewrite nth_error_set_nth_eq in Hp by lia. injection Hp as <-.
        rewrite nth_error_set_nth_neq in Hc by lia. eapply Hcl; eauto.
      + exact (HPa i Hi E c p Hc Hp).
  Qed.

  Lemma bu_step h pos ep :
    0 < pos -> pos < length h -> nth_error h (par pos) = Some ep -> BU h pos ->
    BU (set_nth pos ep h) (par pos).
  Proof.
    intros Hpos Hlen Hpp [Ba Bb]. pose proof (par_spec pos Hpos) as Ppos.
    split.
    - intros j Hj Hne Hpj ec e2 Hc Hp. pose proof (par_spec j Hj) as Pj.
      destruct (Nat.eq_dec j pos) as [->|Hjp]; [now elim Hpj|].
      rewrite nth_error_set_nth_neq in Hc by lia.
      destruct (Nat.eq_dec (par j) pos) as [E|E].
      + rewrite E in Hp. rewrite nth_error_set_nth_eq in Hp by lia. injection Hp as <-.
        exact (Bb j Hj E Hpos ec ep Hc Hpp).
      + rewrite nth_error_set_nth_neq in Hp by lia. exact (Ba j Hj Hjp E ec e2 Hc Hp).
    - intros j Hj Hpj Hpp0 ec e2 Hc Hp. pose proof (par_spec j Hj) as Pj.
      pose proof (par_spec (par pos) Hpp0) as Ppp.
      rewrite nth_error_set_nth_neq in Hp by lia.
      assert (Hmid : (snd ep <= snd e2)%Z).
      { refine (Ba (par pos) Hpp0 _ _ ep e2 Hpp Hp); lia. }
      destruct (Nat.eq_dec j pos) as [->|Hjp].
      + rewrite nth_error_set_nth_eq in Hc by lia. injection Hc as <-. exact Hmid.
      + rewrite nth_error_set_nth_neq in Hc by lia.
        assert ((snd ec <= snd ep)%Z).
        { refine (Ba j Hj Hjp _ ec ep Hc _); [lia|rewrite Hpj; exact Hpp]. }
        lia.
  Qed.

  Lemma cl_step h pos ep it :
    0 < pos -> pos < length h -> nth_error h (par pos) = Some ep -> (snd ep < snd it)%Z ->
    BU h pos -> CL (set_nth pos ep h) (par pos) it.
  Proof.
    intros Hpos Hlen Hpp Hlt [Ba _] j ec Hj Hpj Hc.
    pose proof (par_spec pos Hpos). pose proof (par_spec j Hj).
    destruct (Nat.eq_dec j pos) as [->|Hjp].
    - rewrite nth_error_set_nth_eq in Hc by lia. injection Hc as <-. lia.
    - rewrite nth_error_set_nth_neq in Hc by lia.
      assert ((snd ec <= snd ep)%Z).
      { refine (Ba j Hj Hjp _ ec ep Hc _); [lia|rewrite Hpj; exact Hpp]. }
      lia.
  Qed.

  Lemma bubble_up_ord f : forall h pos it h2 pos1,
    pos < f -> pos < length h -> BU h pos -> bubble_up f h pos it = (h2, pos1) ->
    HP h2 pos1 /\ (CL h pos it -> heap_ord h2).
  Proof.
    induction f as [|f IH]; intros h pos it h2 pos1 Hf Hlen HB Hbu; [lia|].
    rewrite bubble_up_S in Hbu. destruct (Nat.eqb_spec pos 0) as [E0|E0].
    - injection Hbu as <- <-. apply bu_end; auto.
    - destruct (nth_error h (par pos)) as [ep|] eqn:Hpp.
      + destruct (Z.ltb_spec (snd ep) (snd it)) as [Hlt|Hge].
        * assert (Hpos : 0 < pos) by lia. pose proof (par_spec pos Hpos) as Pp.
          pose proof (bu_step h pos ep Hpos Hlen Hpp HB) as HB'.
          pose proof (cl_step h pos ep it Hpos Hlen Hpp Hlt HB) as HC'.
          assert (L1 : par pos < f) by lia.
          assert (L2 : par pos < length (set_nth pos ep h)) by (rewrite length_set_nth; lia).
          destruct (IH _ _ _ _ _ L1 L2 HB' Hbu) as [H1 H2].
          split; [exact H1|intros _; exact (H2 HC')].
        * injection Hbu as <- <-. apply bu_end; auto. right. intros ep' Hep'.
          rewrite Hpp in Hep'. injection Hep' as <-. exact Hge.
      + injection Hbu as <- <-. apply bu_end; auto. right. intros ep' Hep'.
        rewrite Hpp in Hep'. discriminate.
  Qed.

  Lemma hp_swap h i l ei x :
    nth_error h i = Some ei -> nth_error h l = Some x -> (l = 2 * i + 1 \/ l = 2 * i + 2) ->
    (snd ei < snd x)%Z ->
    (forall j ec, 0 < j -> par j = i -> nth_error h j = Some ec -> (snd ec <= snd x)%Z) ->
    HP h i -> HP (swap_pos h i l) l.
  Proof.
    intros Hei Hx Hl Hlt Hch [Ha Hb].
    assert (Hne : i <> l) by lia.
    assert (Hpl : par l = i) by (destruct Hl as [->| ->]; [apply par_l|apply par_r]).
    assert (Hl0 : 0 < l) by lia.
    split.
    - intros j Hj Hpj ec ep Hc Hp. pose proof (par_spec j Hj) as Pj.
      rewrite (swap_nth h i l ei x j Hei Hx Hne) in Hc.
      rewrite (swap_nth h i l ei x (par j) Hei Hx Hne) in Hp.
      destruct (Nat.eqb_spec j l) as [Ejl|Ejl].
      + subst j. injection Hc as <-. rewrite Hpl in Hp.
        destruct (Nat.eqb_spec i l); [lia|]. rewrite Nat.eqb_refl in Hp. injection Hp as <-. lia.
      + destruct (Nat.eqb_spec (par j) l) as [E1|E1]; [contradiction|].
        destruct (Nat.eqb_spec (par j) i) as [E2|E2].
        * injection Hp as <-. destruct (Nat.eqb_spec j i); [lia|]. eapply Hch; eauto.
        * destruct (Nat.eqb_spec j i) as [E3|E3].
          -- subst j. injection Hc as <-. exact (Hb l Hl0 Hpl Hj x ep Hx Hp).
          -- exact (Ha j Hj E2 ec ep Hc Hp).
    - intros j Hj Hpj _ ec ep Hc Hp. pose proof (par_spec j Hj) as Pj. rewrite Hpl in Hp.
      rewrite (swap_nth h i l ei x j Hei Hx Hne) in Hc.
      rewrite (swap_nth h i l ei x i Hei Hx Hne) in Hp.
      destruct (Nat.eqb_spec i l); [lia|]. rewrite Nat.eqb_refl in Hp. injection Hp as <-.
      destruct (Nat.eqb_spec j l); [lia|]. destruct (Nat.eqb_spec j i); [lia|].
      refine (Ha j Hj _ ec x Hc _); [lia|rewrite Hpj; exact Hx].
  Qed.

  Lemma heapify_ord f : forall h i, length h <= f + i -> HP h i -> heap_ord (heapify f h i).
  Proof.
    induction f as [|f IH]; intros h i Hf HPh.
    - cbn. apply (hp_done h i HPh). intros j Hj Hpj ec ep Hc Hp. pose proof (par_spec j Hj).
      assert (nth_error h j = None) by (apply nth_error_None; lia). congruence.
    - rewrite heapify_S.
      destruct (nth_error h i) as [ei|] eqn:Hei.
      2:{ apply (hp_done h i HPh). intros j Hj Hpj ec ep Hc Hp. congruence. }
      destruct (nth_error h (2 * i + 1)) as [el|] eqn:Hel.
      2:{ apply (hp_done h i HPh). intros j Hj Hpj ec ep Hc Hp. pose proof (par_spec j Hj).
          apply nth_error_None in Hel.
          assert (nth_error h j = None) by (apply nth_error_None; lia). congruence. }
      pose proof (hsel_spec h i ei el Hel) as Hs.
      set (l := hsel h i ei el) in *.
      destruct Hs as [(Hl & H1 & H2) | (Hl & x & Hx & H1 & H2 & H3)].
      + rewrite Hl, Nat.eqb_refl. apply (hp_done h i HPh).
        intros j Hj Hpj ec ep Hc Hp. pose proof (par_spec j Hj).
        assert (ep = ei) by congruence. subst ep.
        destruct (Nat.eq_dec j (2 * i + 1)) as [->|Hj1].
        * assert (ec = el) by congruence. subst ec. exact H1.
        * assert (j = 2 * i + 2) by lia. subst j. eauto.
      + destruct (Nat.eqb_spec l i) as [E|E]; [lia|].
        apply IH; [rewrite length_swap; lia|].
        apply hp_swap with ei x; auto.
        intros j ec Hj Hpj Hc. pose proof (par_spec j Hj).
        destruct (Nat.eq_dec j (2 * i + 1)) as [->|Hj1].
        * assert (ec = el) by congruence. subst ec. exact H2.
        * assert (j = 2 * i + 2) by lia. subst j. eauto.
  Qed.

  (* ---------- push preserves order ---------- *)

  Lemma find_pos_lt p (h : heap (I:=I)) : forall pos, find_pos ieqb p h = Some pos -> pos < length h.
  Proof.
    induction h as [|[q w] h IH]; intros pos Hf; cbn in Hf; [discriminate|].
    destruct (ieqb p q).
    - injection Hf as <-. cbn; lia.
    - destruct (find_pos ieqb p h) as [n|]; cbn in Hf; [|discriminate]. injection Hf as <-.
      specialize (IH n eq_refl). cbn; lia.
  Qed.

  Theorem heap_push_ord : forall h p z, heap_wf h -> heap_ord h -> heap_ord (heap_push ieqb h p z).
  Proof.
    intros h p z _ Ho. unfold heap_push. destruct (find_pos ieqb p h) as [pos|] eqn:Hf.
    - pose proof (find_pos_lt p h pos Hf) as Hlen.
      destruct (bubble_up (S pos) h pos (p, z)) as [h1 pos1] eqn:Hbu.
      destruct (bubble_up_ord _ _ _ _ _ _ (Nat.lt_succ_diag_r pos) Hlen (ord_BU h pos Ho Hlen) Hbu) as [H1 _].
      apply heapify_ord; [lia|exact H1].
    - destruct (bubble_up (S (length h)) (h ++ [(p, z)]) (length h) (p, z)) as [h1 pos1] eqn:Hbu.
      cbn [fst].
      assert (Hlen : length h < length (h ++ [(p, z)])) by (rewrite app_length; cbn; lia).
      assert (HB : BU (h ++ [(p, z)]) (length h)).
      { split.
        - intros j Hj Hne Hpj ec ep Hc Hp. pose proof (par_spec j Hj).
          assert (j < length (h ++ [(p, z)])) by (apply nth_error_Some; congruence).
          rewrite app_length in *. cbn [length] in *.
          rewrite nth_error_app1 in Hc by lia. rewrite nth_error_app1 in Hp by lia.
          exact (Ho j ec ep Hj Hc Hp).
        - intros j Hj Hpj _ ec ep Hc Hp. pose proof (par_spec j Hj).
          assert (j < length (h ++ [(p, z)])) by (apply nth_error_Some; congruence).
          rewrite app_length in *. cbn [length] in *. lia. }
      assert (HC : CL (h ++ [(p, z)]) (length h) (p, z)).
      { intros j ec Hj Hpj Hc. pose proof (par_spec j Hj).
        assert (j < length (h ++ [(p, z)])) by (apply nth_error_Some; congruence).
        rewrite app_length in *. cbn [length] in *. lia. }
      destruct (bubble_up_ord _ _ _ _ _ _ (Nat.lt_succ_diag_r (length h)) Hlen HB Hbu) as [_ H2].
      exact (H2 HC).
  Qed.

  (* ---------- pop ---------- *)

  Lemma heap_pop_cases (h : heap (I:=I)) e h' : heap_pop h = Some (e, h') ->
    (h = [e] /\ h' = []) \/
    (exists r, r <> [] /\ h = e :: r /\
       h' = heapify (S (length (last r e :: removelast r))) (last r e :: removelast r) 0).
  Proof.
    destruct h as [|e0 [|e2 r]]; intros Hp; [discriminate| |].
    - left. cbn in Hp. injection Hp as <- <-. auto.
    - right. exists (e2 :: r). split; [discriminate|].
      change (Some (e0, heapify (S (length (last (e2 :: r) e0 :: removelast (e2 :: r))))
                     (last (e2 :: r) e0 :: removelast (e2 :: r)) 0) = Some (e, h')) in Hp.
      remember (e2 :: r) as r0. injection Hp as <- <-. auto.
  Qed.

  Theorem heap_pop_none : forall h : heap (I:=I), heap_pop h = None <-> h = [].
  Proof.
    intros h. split.
    - destruct h as [|e [|e2 r]]; [reflexivity|discriminate|discriminate].
    - intros ->. reflexivity.
  Qed.

  Theorem heap_pop_perm : forall (h : heap (I:=I)) e h', heap_pop h = Some (e, h') -> Permutation h (e :: h').
  Proof.
    intros h e h' Hp. destruct (heap_pop_cases h e h' Hp) as [[-> ->]|(r & Hr & -> & ->)]; [reflexivity|].
    apply perm_skip. symmetry. etransitivity; [apply heapify_perm|].
    pose proof (@app_removelast_last _ r e Hr) as E.
    transitivity (removelast r ++ [last r e]); [apply Permutation_cons_append|].
    rewrite <- E. reflexivity.
  Qed.

  Theorem heap_pop_wf : forall h e h', heap_wf h -> heap_pop h = Some (e, h') -> heap_wf h'.
  Proof.
    intros h e h' Hwf Hp. apply heap_pop_perm in Hp. unfold heap_wf, heap_keys in *.
    apply (Permutation_map fst) in Hp. apply (Permutation_NoDup Hp) in Hwf.
    cbn in Hwf. inversion Hwf; auto.
  Qed.

  Lemma pop_nth (e : I * Z) r k c :
    0 < k -> nth_error (last r e :: removelast r) k = Some c -> nth_error (e :: r) k = Some c.
  Proof.
    intros Hk H. destruct k as [|k]; [lia|]. cbn [nth_error] in *. apply nth_removelast; auto.
  Qed.

  Theorem heap_pop_ord : forall h e h', heap_ord h -> heap_pop h = Some (e, h') -> heap_ord h'.
  Proof.
    intros h e h' Ho Hp. destruct (heap_pop_cases h e h' Hp) as [[-> ->]|(r & Hr & -> & ->)].
    - intros i c p _ Hc. destruct i; discriminate.
    - apply heapify_ord; [lia|]. split.
      + intros j Hj Hpj ec ep Hc Hp'. pose proof (par_spec j Hj).
        apply pop_nth in Hc; [|lia]. apply pop_nth in Hp'; [|lia].
        exact (Ho j ec ep Hj Hc Hp').
      + intros j Hj Hpj Hpos. lia.
  Qed.

  Lemma ord_root h e : heap_ord h -> nth_error h 0 = Some e ->
    forall n x, nth_error h n = Some x -> (snd x <= snd e)%Z.
  Proof.
    intros Ho He n. induction n as [n IH] using lt_wf_ind. intros x Hx.
    destruct (Nat.eq_dec n 0) as [->|Hn].
    - assert (x = e) by congruence. subst. lia.
    - assert (Hn0 : 0 < n) by lia. pose proof (par_spec n Hn0).
      destruct (nth_error h (par n)) as [ep|] eqn:Hp.
      + pose proof (Ho n x ep Hn0 Hx Hp). pose proof (IH (par n) ltac:(lia) ep Hp). lia.
      + apply nth_error_None in Hp.
        assert (n < length h) by (apply nth_error_Some; congruence). lia.
  Qed.

  Theorem heap_pop_max : forall h e h', heap_ord h -> heap_pop h = Some (e, h') ->
    forall x, In x h -> (snd x <= snd e)%Z.
  Proof.
    intros h e h' Ho Hp x Hin.
    assert (He : nth_error h 0 = Some e).
    { destruct (heap_pop_cases h e h' Hp) as [[-> ->]|(r & Hr & -> & ->)]; reflexivity. }
    apply In_nth_error in Hin. destruct Hin as [n Hn].
    exact (ord_root h e Ho He n x Hn).
  Qed.

  (* ---------- reachable heaps ---------- *)

  Definition heap_of_ops (ops : list (hop (I:=I))) : heap (I:=I) :=
    fold_left (fun h o => fst (heap_step ieqb h o)) ops [].

  Lemma heap_step_inv h o : heap_wf h /\ heap_ord h ->
    heap_wf (fst (heap_step ieqb h o)) /\ heap_ord (fst (heap_step ieqb h o)).
  Proof.
    intros [Hw Ho]. destruct o as [p z| |]; cbn [heap_step fst].
    - split; [apply heap_push_wf|apply heap_push_ord]; auto.
    - destruct (heap_pop h) as [[e h']|] eqn:Hp; cbn [fst].
      + split; [eapply heap_pop_wf|eapply heap_pop_ord]; eauto.
      + split; auto.
    - split; [constructor|]. intros i c p _ Hc. destruct i; discriminate.
  Qed.

  Theorem heap_reachable_inv : forall ops, heap_wf (heap_of_ops ops) /\ heap_ord (heap_of_ops ops).
  Proof.
    intros ops. unfold heap_of_ops.
    assert (H0 : heap_wf (@nil (I * Z)) /\ heap_ord (@nil (I * Z))).
    { split; [constructor|]. intros i c p _ Hc. destruct i; discriminate. }
    revert H0. generalize (@nil (I * Z)). induction ops as [|o ops IH]; intros h Hh; cbn [fold_left].
    - exact Hh.
    - apply IH. apply heap_step_inv. exact Hh.
  Qed.

End HeapProofs.

Print Assumptions heap_push_perm.
Print Assumptions heap_push_wf.
Print Assumptions heap_push_ord.
Print Assumptions heap_pop_none.
Print Assumptions heap_pop_perm.
Print Assumptions heap_pop_wf.
Print Assumptions heap_pop_ord.
Print Assumptions heap_pop_max.
Print Assumptions heap_reachable_inv.
