(* C05 (model side), termination: non-vacuity of [Ranked] -- the instance for the finite-universe bitset
   version set.  alg := bs_wf (all 256 masks), rank := number of set bits among the 8, rank_bound := 8.
   The rank laws are checked by complete enumeration (256 x 256 masks x 8 points) with vm_compute. *)
From Coq Require Import List NArith Bool Lia PeanoNat.
From PG Require Import Model.VS Proofs.VSLaws Proofs.BitsetLawful Proofs.SolverTerm1.
Import ListNotations.
Local Open Scope nat_scope.

Definition bs_rank (a : N) : nat := length (filter (bs_mem a) all_v8).

Lemma filter_len_le {A} (f : A -> bool) l : length (filter f l) <= length l.
Proof. induction l as [|x l IH]; cbn; [lia|]. destruct (f x); cbn; lia. Qed.

Lemma bs_rank_le a : bs_rank a <= 8.
Proof. unfold bs_rank. etransitivity; [apply filter_len_le|]. reflexivity. Qed.

Definition chk_rank : bool :=
  forallb (fun a => forallb (fun b =>
    implb (forallb (fun u => implb (bs_mem a u) (bs_mem b u)) all_v8 && negb (N.eqb a b))
          (Nat.ltb (bs_rank a) (bs_rank b))) all_masks) all_masks.
Lemma chk_rank_ok : chk_rank = true. Proof. vm_compute. reflexivity. Qed.

Lemma bs_rank_strict a b :
  bs_wf a -> bs_wf b -> (forall u, bs_mem a u = true -> bs_mem b u = true) -> a <> b ->
  bs_rank a < bs_rank b.
Proof.
  intros Ha Hb H Hne. pose proof chk_rank_ok as C. unfold chk_rank in C.
  rewrite forallb_forall in C. specialize (C a (in_all_masks a Ha)).
  rewrite forallb_forall in C. specialize (C b (in_all_masks b Hb)).
  apply Nat.ltb_lt. destruct (Nat.ltb (bs_rank a) (bs_rank b)); [reflexivity|].
  rewrite implb_false_r in C. apply negb_true_iff in C. rewrite <- C. apply andb_true_intro. split.
  - apply forallb_forall. intros u _. destruct (bs_mem a u) eqn:E; [|reflexivity]. cbn. now apply H.
  - apply negb_true_iff. apply N.eqb_neq. exact Hne.
Qed.

Definition bitset_ranked : Ranked bitset_vs bitset_lawful.
Proof.
  refine {| alg := bs_wf; rank := bs_rank; rank_bound := 8 |}.
  - intros s H. exact H.
  - exact (wf_empty _ bitset_lawful).
  - exact (wf_full _ bitset_lawful).
  - exact (wf_complement _ bitset_lawful).
  - exact (wf_intersection _ bitset_lawful).
  - exact (wf_union _ bitset_lawful).
  - intros s _. apply bs_rank_le.
  - exact bs_rank_strict.
Defined.

Lemma bitset_alg_all_singletons v : alg bitset_ranked (vs_singleton bitset_vs v).
Proof. exact (wf_singleton _ bitset_lawful v). Qed.

(* sanity: the bound is attained, the bottom has rank 0 *)
Lemma bitset_rank_full : rank bitset_ranked (vs_full bitset_vs) = rank_bound bitset_ranked.
Proof. reflexivity. Qed.
Lemma bitset_rank_empty : rank bitset_ranked (vs_empty bitset_vs) = 0.
Proof. reflexivity. Qed.

Print Assumptions bitset_ranked.
Print Assumptions bitset_alg_all_singletons.
