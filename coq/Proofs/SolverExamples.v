(* Non-vacuity of the solver theorems: two concrete runs over Range<Z> that meet every hypothesis
   (lawful VersionSet, well-formed registry, well-behaved trace) and end in NoSolution resp. in a solution
   found after a conflict.  Both traces were recorded from the Rust implementation by the harness. *)
From Coq Require Import List NArith ZArith Bool.
From PG Require Import Model.Text Model.VS Model.Term Model.Range Model.Solver Model.Registry Model.Instances
  Proofs.VSLaws Proofs.SolverSem Proofs.RangeVS.
Import ListNotations.

Module EZ := RangeVSP ZV.

Definition zvs : VSOps RZ.range Z := RZ.range_vs.
Definition zlaw : VSLawful zvs := EZ.range_lawful.
Notation ev := (@event RZ.range Z).

Local Open Scope Z_scope.

(* ---- run 1: root 0@2 depends on package 2 (any version); package 2 has no version ---- *)
Definition reg1 : @registry RZ.range Z := {|
  reg_versions := fun p => match p with 0%N => [1; 2] | _ => [] end;
  reg_deps := fun p v => match p, v with 0%N, 2 => Some [(2%N, RZ.full)] | _, _ => None end |}.
Definition tr1 : list ev :=
  [ EvCancel true; EvPrioritize 0%N (RZ.singleton 2) 0; EvChoose 0%N (RZ.singleton 2) (CSome 2);
    EvDeps 0%N 2 (DAvail [(2%N, RZ.full)]);
    EvCancel true; EvPrioritize 2%N RZ.full 0; EvChoose 2%N RZ.full CNone; EvCancel true ].

Lemma reg1_wf : reg_wf zvs zlaw reg1.
Proof.
  intros p v ds q s H Hin.
  assert (Hs : s = RZ.full).
  { cbn in H. repeat match type of H with
                    | match ?x with _ => _ end = Some _ => destruct x; try discriminate
                    end.
    injection H as <-. cbn in Hin. intuition congruence. }
  subst s. exact (wf_full zvs zlaw).
Qed.

Lemma tr1_wb : WellBehaved zvs reg1 tr1.
Proof.
  unfold WellBehaved, tr1. repeat (apply Forall_cons); try apply Forall_nil; cbn [ev_ok]; try exact I.
  - cbn. tauto.
  - exists [(2%N, RZ.full)]. split; [reflexivity|tauto].
  - intros v [].
Qed.

Example run1_is_nosolution :
  exists t st log, resolve zvs Z.eqb 100 0%N 2 tr1 = (ONoSolution t, st, log, 8%nat).
Proof. vm_compute. eauto. Qed.

(* ---- run 2: root 0@1 needs package 1; 1@2 depends on its own package in the empty set (conflict,
   backtrack), 1@1 is fine ---- *)
Definition not2 : RZ.range := [(Unb, Excl 2); (Excl 2, Unb)].
Definition reg2 : @registry RZ.range Z := {|
  reg_versions := fun p => match p with 0%N => [1; 2] | 1%N => [1; 2] | _ => [] end;
  reg_deps := fun p v => match p, v with
                         | 0%N, 1 => Some [(1%N, RZ.full)] | 0%N, 2 => Some []
                         | 1%N, 1 => Some [] | 1%N, 2 => Some [(1%N, RZ.empty)]
                         | _, _ => None end |}.
Definition tr2 : list ev :=
  [ EvCancel true; EvPrioritize 0%N (RZ.singleton 1) 0; EvChoose 0%N (RZ.singleton 1) (CSome 1);
    EvDeps 0%N 1 (DAvail [(1%N, RZ.full)]);
    EvCancel true; EvPrioritize 1%N RZ.full 0; EvChoose 1%N RZ.full (CSome 2);
    EvDeps 1%N 2 (DAvail [(1%N, RZ.empty)]);
    EvCancel true; EvPrioritize 1%N not2 0; EvChoose 1%N not2 (CSome 1);
    EvDeps 1%N 1 (DAvail []); EvCancel true ].

Lemma reg2_wf : reg_wf zvs zlaw reg2.
Proof.
  intros p v ds q s H Hin.
  assert (Hs : s = RZ.full \/ s = RZ.empty).
  { cbn in H. repeat match type of H with
                    | match ?x with _ => _ end = Some _ => destruct x; try discriminate
                    end;
      injection H as <-; cbn in Hin; intuition congruence. }
  destruct Hs as [-> | ->]; [exact (wf_full zvs zlaw)|exact (wf_empty zvs zlaw)].
Qed.

Lemma tr2_wb : WellBehaved zvs reg2 tr2.
Proof.
  unfold WellBehaved, tr2. repeat (apply Forall_cons); try apply Forall_nil; cbn [ev_ok]; try exact I;
    try (cbn; tauto).
  - exists [(1%N, RZ.full)]. split; [reflexivity|tauto].
  - exists [(1%N, RZ.empty)]. split; [reflexivity|tauto].
  - exists []. split; [reflexivity|tauto].
Qed.

Example run2_is_solution :
  exists st log, resolve zvs Z.eqb 100 0%N 1 tr2 = (OSolution [(0%N, 1); (1%N, 1)], st, log, 13%nat)
                 /\ length log = 4%nat.
Proof. vm_compute. eauto. Qed.

Lemma zeqb_eq : forall a b, Z.eqb a b = true -> a = b.
Proof. intros a b. apply Z.eqb_eq. Qed.
