(* C13 (model side), clauses (c) and (d): the two-run fault-injection theorem.
   If the fault-free run on [pre ++ e :: rest] made the call that [e] answers, then the run on
   [pre ++ e' :: rest'], where [e'] is an error answer (or an out-of-set version) to that very call,
   consumes exactly [pre] and [e'] and stops with the matching outcome.  The events ARE the calls (the
   model accepts an event only if it is the call it would make), so the faulty run's call trace is the
   fault-free run's call trace [pre] followed by the faulty call. *)
From Coq Require Import List NArith ZArith Bool Lia.
From PG Require Import Model.VS Model.Term Model.Solver Proofs.SolverTrace Proofs.SolverProtocol Proofs.SolverFaults.
Import ListNotations.

Section Injection.
  Context {VS Vr : Type} (O : VSOps VS Vr) (veqb : Vr -> Vr -> bool).
  Notation event := (@event VS Vr).
  Notation outcome := (@outcome VS Vr).
  Hypothesis veqb_eq : forall a b, veqb a b = true -> a = b.
  Hypothesis vs_eqb_eq : forall a b, vs_eqb O a b = true -> a = b.

  (* e' is a faulty answer to the very call that e answers *)
  Definition fault_of (e e' : event) : Prop :=
    match e, e' with
    | EvCancel _, EvCancel false => True
    | EvChoose p s _, EvChoose p' s' CErr => p = p' /\ s = s'
    | EvChoose p s _, EvChoose p' s' (CSome v) => p = p' /\ s = s' /\ vs_contains O s v = false     (* out of the offered set *)
    | EvDeps p v _, EvDeps p' v' DErr => p = p' /\ v = v'
    | _, _ => False
    end.
  Definition fault_outcome (e' : event) : outcome :=
    match e' with
    | EvCancel _ => OErrCancel
    | EvChoose _ _ CErr => OErrChoose
    | EvChoose _ _ _ => OFailure FIncompatibleVersion
    | EvDeps p v _ => OErrDeps p v
    | EvPrioritize _ _ _ => OErrCancel (* unused *)
    end.

  Definition not_prio (e : event) : Prop := match e with EvPrioritize _ _ _ => False | _ => True end.

  (* a prioritize call cannot fail: fault_of has no prioritize case *)
  Lemma fault_of_not_prio e e' : fault_of e e' -> not_prio e.
  Proof. destruct e; cbn; auto. Qed.

  (* one batch of prioritize calls on the two traces: if the batch goes through on the first trace, all
     its events lie inside [pre], and it goes through identically on the second *)
  Lemma do_prioritize_inject cands : forall q (pre : list event) e rest e' rest' n,
    not_prio e ->
    match do_prioritize O cands q (pre ++ e :: rest) n with
    | inl (q', tr', n') =>
        exists pre1, tr' = pre1 ++ e :: rest /\ n' + length pre1 = n + length pre /\
                     do_prioritize O cands q (pre ++ e' :: rest') n = inl (q', pre1 ++ e' :: rest', n')
    | inr _ => True
    end.
  Proof.
    induction cands as [|[p s] cands IH]; intros q pre e rest e' rest' n He; cbn [do_prioritize].
    - exists pre. auto.
    - destruct pre as [|e0 pre]; cbn [app].
      + destruct e; try exact I. destruct He.
      + destruct e0 as [| p' s' prio | |]; try exact I.
        destruct (N.eqb p p' && vs_eqb O s s'); [|exact I].
        specialize (IH (set p (prio, s) q) pre e rest e' rest' (S n) He).
        destruct (do_prioritize O cands (set p (prio, s) q) (pre ++ e :: rest) (S n)) as [[[q' tr'] n']|]; [|exact I].
        destruct IH as (pre1 & -> & Hn & E). exists pre1. repeat split; auto. cbn [length]. lia.
  Qed.

  (* the first run stopped too early for the hypothesis *)
  Ltac bad := cbn [negb snd length]; intros; exfalso; lia.

  (* both runs continue with the same recursive call on the shrunk prefix *)
  Ltac by_IH IH Hf pre e rest e' rest' :=
    let H := fresh "H" in let E := fresh "E" in let st' := fresh "st'" in let log' := fresh "log'" in
    intros H;
    match type of H with
    | _ < snd (resolve_loop _ _ _ ?st ?nx ?ad _ ?m ?lg) =>
        destruct (IH st nx ad pre e rest e' rest' m lg Hf) as (st' & log' & E);
        [ eapply Nat.le_lt_trans; [|exact H]; lia
        | exists st', log'; rewrite E; f_equal; lia ]
    end.

  Lemma resolve_loop_inject fuel : forall st next added (pre : list event) e rest e' rest' n log,
    fault_of e e' ->
    n + length pre < snd (resolve_loop O veqb fuel st next added (pre ++ e :: rest) n log) ->
    exists st' log',
      resolve_loop O veqb fuel st next added (pre ++ e' :: rest') n log
      = (fault_outcome e', st', log', S (n + length pre)).
  Proof.
    induction fuel as [|fuel IH]; intros st next added pre e rest e' rest' n log Hf; cbn [resolve_loop].
    { bad. }
    destruct pre as [|e0 pre]; cbn [app length].
    - (* the faulty call is the should_cancel call *)
      destruct e as [ok| | |]; try bad.
      destruct e' as [[|]| | |]; cbn in Hf; try contradiction.
      intros _. cbn [negb fault_outcome]. exists st, log. f_equal. lia.
    - (* the should_cancel call lies inside pre *)
      destruct e0 as [[|]| | |]; try bad. cbn [negb].
      destruct (unit_propagation O (S fuel) st [next]) as [[st1|st1 id]|[|s]]; try bad.
      2:{ destruct (build_derivation_tree (store st1) id); bad. }
      pose proof (do_prioritize_inject (pick_candidates (ps st1)) (queue (ps st1)) pre e rest e' rest' (S n)
                    (fault_of_not_prio _ _ Hf)) as Hp.
      destruct (do_prioritize O (pick_candidates (ps st1)) (queue (ps st1)) (pre ++ e :: rest) (S n))
        as [[[q tr2] n2]|o]; [|bad].
      destruct Hp as (pre1 & -> & Hn & ->).
      destruct (queue_max q) as [mx|].
      2:{ unfold res_out. destruct (extract_solution (ps st1)); bad. }
      destruct pre1 as [|e1 pre1]; cbn [app length] in *.
      + (* the faulty call is the choose_version call *)
        destruct e as [| |p s ans|]; try bad.
        destruct e' as [| |p' s' [w| |]|]; cbn in Hf; try contradiction.
        * (* a version outside the offered set *)
          destruct Hf as (<- & <- & Hc).
          destruct (get p q) as [[prio qs]|]; [|bad].
          destruct (negb (Z.eqb prio mx)); [bad|].
          destruct (term_for _ p) as [[cur|cur]|]; try bad.
          destruct (vs_eqb O s cur) eqn:Es; cbn [negb]; [|bad]. apply vs_eqb_eq in Es. subst cur.
          intros _. cbn [t_contains]. rewrite Hc. cbn [negb fault_outcome].
          replace (S (n + S (length pre))) with (S n2) by lia. do 2 eexists; reflexivity.
        * (* an error answer *)
          destruct Hf as (<- & <-).
          destruct (get p q) as [[prio qs]|]; [|bad].
          destruct (negb (Z.eqb prio mx)); [bad|].
          destruct (term_for _ p) as [[cur|cur]|]; try bad.
          destruct (negb (vs_eqb O s cur)); [bad|].
          intros _. cbn [fault_outcome].
          replace (S (n + S (length pre))) with (S n2) by lia. do 2 eexists; reflexivity.
      + (* the choose_version call lies inside pre *)
        destruct e1 as [| |p s ans|]; try bad.
        destruct (get p q) as [[prio qs]|]; [|bad].
        destruct (negb (Z.eqb prio mx)); [bad|].
        destruct (term_for _ p) as [[cur|cur]|]; try bad.
        destruct (negb (vs_eqb O s cur)); [bad|].
        destruct ans as [v| |]; [| |bad].
        * destruct (negb (t_contains O (Pos cur) v)); [bad|].
          destruct (added_has veqb added p v).
          -- unfold res_out. destruct (add_decision O _ p v); [|bad].
             by_IH IH Hf pre1 e rest e' rest'.
          -- destruct pre1 as [|e2 pre1]; cbn [app length] in *.
             ++ (* the faulty call is the get_dependencies call *)
                destruct e as [| | |p' v' dans]; try bad.
                destruct e' as [| | |p'' v'' [d|m|]]; cbn in Hf; try contradiction.
                destruct Hf as (<- & <-).
                destruct (N.eqb p p' && veqb v v') eqn:Epv; cbn [negb]; [|bad].
                apply andb_prop in Epv as [Hp Hv]. apply N.eqb_eq in Hp. apply veqb_eq in Hv. subst p' v'.
                intros _. cbn [fault_outcome].
                replace (S (n + S (length pre))) with (S (S n2)) by lia. do 2 eexists; reflexivity.
             ++ (* the get_dependencies call lies inside pre *)
                destruct e2 as [| | |p' v' dans]; try bad.
                destruct (negb (N.eqb p p' && veqb v v')); [bad|].
                destruct dans as [deps|m|]; [| |bad].
                ** unfold res_out.
                   destruct (add_incompatibility_from_dependencies O _ p v deps) as [[st3 range]|]; [|bad].
                   destruct (add_version O (ps st3) p v range (store st3)); [|bad].
                   by_IH IH Hf pre1 e rest e' rest'.
                ** unfold res_out. destruct (add_incompatibility O _ (custom_version O p v m)); [|bad].
                   by_IH IH Hf pre1 e rest e' rest'.
        * destruct (no_versions p (Pos cur)); [|bad].
          unfold res_out. destruct (add_incompatibility O _ i); [|bad].
          by_IH IH Hf pre1 e rest e' rest'.
  Qed.

  (* ---- the two-run theorem ---- *)
  Theorem fault_injection fuel r v (pre : list event) e rest e' rest' :
    fault_of e e' ->
    length pre < snd (resolve O veqb fuel r v (pre ++ e :: rest)) ->     (* the fault-free run made the call that e answers *)
    exists st' log',
      resolve O veqb fuel r v (pre ++ e' :: rest') = (fault_outcome e', st', log', S (length pre)).
  Proof.
    intros Hf H. exact (resolve_loop_inject fuel (state_init O r v) r [] pre e rest e' rest' 0 [] Hf H).
  Qed.

  Lemma firstn_snoc (pre : list event) e' rest' : firstn (S (length pre)) (pre ++ e' :: rest') = pre ++ [e'].
  Proof.
    rewrite firstn_app, firstn_all2 by lia. replace (S (length pre) - length pre) with 1 by lia. reflexivity.
  Qed.

  (* the calls the faulty run consumed are exactly [pre] (calls and answers of the fault-free run up to
     that point) followed by the faulty call; and [pre] is indeed the beginning of what the fault-free
     run consumed *)
  Theorem fault_injection_same_calls fuel r v (pre : list event) e rest e' rest' :
    fault_of e e' ->
    length pre < snd (resolve O veqb fuel r v (pre ++ e :: rest)) ->
    firstn (snd (resolve O veqb fuel r v (pre ++ e' :: rest'))) (pre ++ e' :: rest') = pre ++ [e']
    /\ firstn (S (length pre)) (pre ++ e' :: rest') = pre ++ [e']
    /\ firstn (length pre) (firstn (snd (resolve O veqb fuel r v (pre ++ e :: rest))) (pre ++ e :: rest)) = pre.
  Proof.
    intros Hf H. destruct (fault_injection fuel r v pre e rest e' rest' Hf H) as (st' & log' & E).
    rewrite E. cbn [snd]. repeat split; try apply firstn_snoc.
    rewrite firstn_firstn, Nat.min_l by lia. rewrite firstn_app, firstn_all, Nat.sub_diag. cbn [firstn].
    apply app_nil_r.
  Qed.

  (* ---- single-run corollaries ---- *)

  (* an event that is a faulty answer to its own call *)
  Definition is_fault (e : event) : Prop := fault_of e e.

  Lemma is_fault_iff e :
    is_fault e <->
    e = EvCancel false \/ (exists p s, e = EvChoose p s CErr) \/ (exists p v, e = EvDeps p v DErr)
    \/ (exists p s v, e = EvChoose p s (CSome v) /\ vs_contains O s v = false).
  Proof.
    unfold is_fault. destruct e as [[|]| |p s [v| |]|p v [d|m|]]; cbn; split; intros H;
      try contradiction; try tauto; eauto 8;
      try (destruct H as [H|[(? & ? & H)|[(? & ? & H)|(? & ? & ? & H & ?)]]]; discriminate).
    - destruct H as (_ & _ & H). do 3 right. eauto.
    - destruct H as [H|[(? & ? & H)|[(? & ? & H)|(? & ? & ? & H & Hc)]]]; try discriminate.
      injection H as <- <- <-. auto.
  Qed.

  (* a faulty answer among the consumed calls is the last call, and determines the outcome *)
  Theorem consumed_fault_is_last fuel r v (tr : list event) o st log cnt i e :
    resolve O veqb fuel r v tr = (o, st, log, cnt) ->
    i < cnt -> nth_error tr i = Some e -> is_fault e ->
    o = fault_outcome e /\ cnt = S i.
  Proof.
    intros E Hi Hn Hf. destruct (nth_error_split _ _ Hn) as (pre & rest & -> & <-).
    destruct (fault_injection fuel r v pre e rest e rest Hf) as (st' & log' & E').
    { rewrite E. exact Hi. }
    rewrite E in E'. injection E' as -> _ _ ->. auto.
  Qed.

  (* clause (d), forward direction: a consumed choose_version answer outside the offered set makes the
     run a Failure, and it is the last call *)
  Theorem out_of_set_is_failure fuel r v (tr : list event) o st log cnt i p s w :
    resolve O veqb fuel r v tr = (o, st, log, cnt) ->
    i < cnt -> nth_error tr i = Some (EvChoose p s (CSome w)) -> vs_contains O s w = false ->
    o = OFailure FIncompatibleVersion /\ cnt = S i.
  Proof.
    intros E Hi Hn Hc.
    apply (consumed_fault_is_last fuel r v tr o st log cnt i _ E Hi Hn). cbn. auto.
  Qed.
End Injection.

Print Assumptions fault_injection.
Print Assumptions fault_injection_same_calls.
Print Assumptions consumed_fault_is_last.
Print Assumptions out_of_set_is_failure.
