(* is_disjoint, subset_of, contains / contains_many on canonical ranges. *)
From Coq Require Import Orders OrdersFacts List Bool.
From PG Require Import Model.Range Proofs.PosOrder Proofs.RangeTables Proofs.RangeSem Proofs.RangeInter.

Module RangeMoreP (V : UsualOrderedTypeFull).
  Module Export RI := RangeInterP V.

  Lemma canonical_den_ge_head s r x : canonical (s :: r) -> den (s :: r) x -> lo s <=p x.
  Proof.
    intros (Hv & Ha & Hc) H. apply den_cons in H. destruct H as [[H _]|H]; [exact H|].
    pose proof (canonical_above_den _ _ _ Hc Ha H). unfold valid in Hv. porder.
  Qed.

  Lemma canonical_tail s r : canonical (s :: r) -> canonical r.
  Proof. cbn; tauto. Qed.

  (* ---------------- is_disjoint ---------------- *)

  Lemma is_disjoint_cons_cons ls le l' rs re r' :
    is_disjoint ((ls, le) :: l') ((rs, re) :: r') =
    if negb (valid_segment rs le) then is_disjoint l' ((rs, re) :: r')
    else if negb (valid_segment ls re) then is_disjoint ((ls, le) :: l') r'
    else false.
  Proof. reflexivity. Qed.

  Lemma is_disjoint_nil_r l : is_disjoint l [] = true.
  Proof. destruct l as [|[? ?] ?]; reflexivity. Qed.

  Lemma is_disjoint_spec l r :
    canonical l -> canonical r ->
    (is_disjoint l r = true <-> forall x, ~ (den l x /\ den r x)).
  Proof.
    revert r; induction l as [|[ls le] l' IHl]; intros r Hl Hr.
    - cbn. split; [intros _ x [H _]; exact (den_nil _ H)|reflexivity].
    - induction r as [|[rs re] r' IHr].
      + rewrite is_disjoint_nil_r. split; [intros _ x [_ H]; exact (den_nil _ H)|reflexivity].
      + rewrite is_disjoint_cons_cons.
        pose proof Hl as (Hvl & Hal & Hcl). pose proof Hr as (Hvr & Har & Hcr).
        unfold valid, lo, hi in Hvl, Hvr; cbn [fst snd] in Hvl, Hvr.
        destruct (valid_segment rs le) eqn:E1; cbn [negb].
        * destruct (valid_segment ls re) eqn:E2; cbn [negb].
          -- apply valid_segment_spec in E1, E2. split; [discriminate|]. intros H. exfalso.
             apply (H (pmax (lo_of ls) (lo_of rs))). split; apply den_cons; left;
               unfold in_seg, lo, hi; cbn [fst snd];
               destruct (pmax_spec (lo_of ls) (lo_of rs)) as [[? ->]|[? ->]]; split; porder.
          -- assert (E2' : hi_of re <p lo_of ls).
             { destruct (plt_dec (hi_of re) (lo_of ls)) as [?|Hge]; [assumption|].
               apply valid_segment_spec in Hge. congruence. }
             rewrite (IHr Hcr). split; intros H x [H1 H2].
             ++ apply den_cons in H2. destruct H2 as [[H2 H3]|H2]; [|apply (H x); tauto].
                pose proof (canonical_den_ge_head _ _ _ Hl H1) as Hx.
                unfold lo, hi in *; cbn [fst snd] in *. porder.
             ++ apply (H x). split; [exact H1|]. apply den_cons. now right.
        * assert (E1' : hi_of le <p lo_of rs).
          { destruct (plt_dec (hi_of le) (lo_of rs)) as [?|Hge]; [assumption|].
            apply valid_segment_spec in Hge. congruence. }
          rewrite (IHl _ Hcl Hr). split; intros H x [H1 H2].
          -- apply den_cons in H1. destruct H1 as [[H1 H3]|H1]; [|apply (H x); tauto].
             pose proof (canonical_den_ge_head _ _ _ Hr H2) as Hx.
             unfold lo, hi in *; cbn [fst snd] in *. porder.
          -- apply (H x). split; [|exact H2]. apply den_cons. now right.
  Qed.

  (* ---------------- subset_of ---------------- *)

  Lemma advance_spec st c cs :
    match advance st c cs with
    | None => Forall (fun t => hi t <p lo_of st) (c :: cs)
    | Some (c', cs') =>
        exists skipped, c :: cs = skipped ++ c' :: cs'
                        /\ Forall (fun t => hi t <p lo_of st) skipped /\ lo_of st <=p hi c'
    end.
  Proof.
    revert c; induction cs as [|d cs IH]; intros c; cbn [advance].
    - destruct (valid_segment st (snd c)) eqn:E.
      + apply valid_segment_spec in E. exists []. cbn. auto.
      + constructor; [|constructor]. destruct (plt_dec (hi c) (lo_of st)) as [?|Hge]; [assumption|].
        apply valid_segment_spec in Hge. unfold hi in *. congruence.
    - destruct (valid_segment st (snd c)) eqn:E.
      + apply valid_segment_spec in E. exists []. cbn. auto.
      + assert (Hc : hi c <p lo_of st).
        { destruct (plt_dec (hi c) (lo_of st)) as [?|Hge]; [assumption|].
          apply valid_segment_spec in Hge. unfold hi in *. congruence. }
        specialize (IH d). destruct (advance st d cs) as [[c' cs']|].
        * destruct IH as (sk & Heq & Hsk & Hle). exists (c :: sk). cbn. rewrite Heq. repeat split; auto.
        * constructor; assumption.
  Qed.

  Lemma canonical_app_inv a b : canonical (a ++ b) -> canonical b.
  Proof. induction a as [|s a IH]; cbn [app]; [auto|]. intros H. apply IH. exact (canonical_tail _ _ H). Qed.

  Lemma subset_loop_spec sub c cs :
    canonical sub -> canonical (c :: cs) ->
    (subset_loop sub c cs = true <-> forall x, den sub x -> den (c :: cs) x).
  Proof.
    revert c cs; induction sub as [|s sub IH]; intros c cs Hs Hc; cbn [subset_loop].
    - split; [intros _ x H; destruct (den_nil _ H)|reflexivity].
    - pose proof Hs as (Hvs & Has & Hcs).
      pose proof (advance_spec (fst s) c cs) as Hadv.
      destruct (advance (fst s) c cs) as [[c' cs']|].
      + destruct Hadv as (sk & Heq & Hsk & Hle). fold (lo s) in Hsk, Hle.
        assert (Hc' : canonical (c' :: cs')) by (rewrite Heq in Hc; exact (canonical_app_inv _ _ Hc)).
        assert (Hsuffix : forall x, den (c' :: cs') x -> den (c :: cs) x).
        { intros x H. rewrite Heq. apply den_app. now right. }
        assert (Hskip : forall x, lo s <=p x -> den (c :: cs) x -> den (c' :: cs') x).
        { intros x Hx H. rewrite Heq in H. apply den_app in H. destruct H as [[t [Hin [_ Ht]]]|H]; [|exact H].
          rewrite Forall_forall in Hsk. specialize (Hsk _ Hin). porder. }
        destruct (left_start_is_smaller (fst c') (fst s)) eqn:E1; cbn [negb].
        * apply lsis_spec in E1. fold (lo c') (lo s) in E1.
          destruct (left_end_is_smaller (snd s) (snd c')) eqn:E2; cbn [negb].
          -- apply leis_spec in E2. fold (hi s) (hi c') in E2.
             rewrite (IH c' cs' Hcs Hc'). split.
             ++ intros H x Hx. apply den_cons in Hx. destruct Hx as [[H1 H2]|Hx].
                ** apply Hsuffix. apply den_cons. left. split; porder.
                ** apply Hsuffix. auto.
             ++ intros H x Hx. apply Hskip; [|apply H; apply den_cons; now right].
                pose proof (canonical_above_den _ _ _ Hcs Has Hx). unfold valid in Hvs. porder.
          -- split; [discriminate|]. intros H. exfalso.
             assert (E2' : hi c' <p hi s).
             { destruct (plt_dec (hi c') (hi s)) as [?|Hge]; [assumption|].
               apply leis_spec in Hge. unfold hi in *. congruence. }
             (* the point hi s is in s hence in c' :: cs'; it is above hi c', so in cs' *)
             assert (Hin : den (c' :: cs') (hi s)).
             { apply Hskip; [exact Hvs|]. apply H. apply den_cons. left. split; [exact Hvs|porder]. }
             apply den_cons in Hin. destruct Hin as [[_ Hin]|Hin]; [porder|].
             destruct Hc' as (Hvc' & Hac' & Hcc').
             destruct cs' as [|d cs'']; [exact (den_nil _ Hin)|]. cbn [above] in Hac'.
             destruct Hac' as (y & Hy1 & Hy2).
             pose proof (canonical_den_ge_head _ _ _ Hcc' Hin) as Hd.
             assert (Hy : den (c' :: d :: cs'') y).
             { apply Hskip; [porder|]. apply H. apply den_cons. left. split; porder. }
             apply den_cons in Hy. destruct Hy as [[_ Hy]|Hy]; [porder|].
             pose proof (canonical_den_ge_head _ _ _ Hcc' Hy). porder.
        * split; [discriminate|]. intros H. exfalso.
          assert (E1' : lo s <p lo c').
          { destruct (plt_dec (lo s) (lo c')) as [?|Hge]; [assumption|].
            apply lsis_spec in Hge. unfold lo in *. congruence. }
          assert (Hin : den (c' :: cs') (lo s)).
          { apply Hskip; [porder|]. apply H. apply den_cons. left. split; [porder|exact Hvs]. }
          pose proof (canonical_den_ge_head _ _ _ Hc' Hin). porder.
      + split; [discriminate|]. intros H. exfalso.
        assert (Hin : den (c :: cs) (lo s)).
        { apply H. apply den_cons. left. split; [porder|exact Hvs]. }
        destruct Hin as (t & Hin & Ht1 & Ht2). rewrite Forall_forall in Hadv.
        specialize (Hadv _ Hin). fold (lo s) in Hadv. porder.
  Qed.

  Lemma subset_of_spec a b :
    canonical a -> canonical b ->
    (subset_of a b = true <-> forall x, den a x -> den b x).
  Proof.
    intros Ha Hb. unfold subset_of. destruct b as [|c cs].
    - destruct a as [|s a]; cbn [is_empty].
      + split; [intros _ x H; exact H|reflexivity].
      + split; [discriminate|]. intros H. exfalso. destruct Ha as (Hv & _).
        apply (den_nil (lo s)). apply H. apply den_cons. left. split; [porder|exact Hv].
    - now apply subset_loop_spec.
  Qed.

  (* ---------------- contains / contains_many ---------------- *)

  Lemma cursor_spec v r :
    canonical r ->
    let '(b, r') := cursor v r in
    exists dropped, r = dropped ++ r' /\ Forall (fun t => hi t <p P v At) dropped
                    /\ (b = true <-> den r (P v At))
                    /\ (b = true <-> den r' (P v At)).
  Proof.
    induction r as [|s r IH]; intros Hc; cbn [cursor].
    - exists []. split; [reflexivity|]. split; [constructor|].
      split; (split; [discriminate|intros H; destruct (den_nil _ H)]).
    - pose proof (within_bounds_spec v s) as Hw. destruct Hc as (Hv & Ha & Hc).
      destruct (within_bounds v s).
      + exists []. cbn [app]. split; [reflexivity|]. split; [constructor|]. fold (lo s) (hi s) in Hw.
        split; (split; [|reflexivity]); intros _; apply den_cons; left; exact Hw.
      + exists []. cbn [app]. split; [reflexivity|]. split; [constructor|]. fold (lo s) in Hw.
        assert (Hn : ~ den (s :: r) (P v At)).
        { intros H. apply den_cons in H. destruct H as [[H _]|H]; [porder|].
          pose proof (canonical_above_den _ _ _ Hc Ha H). unfold valid in Hv. porder. }
        split; (split; [discriminate|]); intros H; destruct (Hn H).
      + specialize (IH Hc). destruct (cursor v r) as [b r']. destruct IH as (dr & -> & Hdr & Hb1 & Hb2).
        fold (lo s) (hi s) in Hw. destruct Hw as [Hw1 Hw2]. exists (s :: dr). cbn [app]. split; [reflexivity|].
        split; [constructor; [assumption|assumption]|]. split; [|exact Hb2].
        rewrite Hb1, den_cons. split; [tauto|]. intros [[_ H]|H]; [porder|exact H].
  Qed.

  Lemma contains_spec r v : canonical r -> (contains r v = true <-> den r (P v At)).
  Proof.
    intros Hc. unfold contains. pose proof (cursor_spec v r Hc) as H.
    destruct (cursor v r) as [b r']. destruct H as (_ & _ & _ & H & _). exact H.
  Qed.

  Lemma den_drop dropped r v w :
    canonical (dropped ++ r) -> Forall (fun t => hi t <p P v At) dropped -> V.le v w ->
    (den (dropped ++ r) (P w At) <-> den r (P w At)).
  Proof.
    intros Hc Hd Hvw. rewrite den_app. split; [|tauto]. intros [[t [Hin [_ Ht]]]|H]; [|exact H].
    rewrite Forall_forall in Hd. specialize (Hd _ Hin).
    assert (P v At <=p P w At) by (apply ple_P; destruct (V.eq_dec v w); [right; subst; split; [reflexivity|discriminate]|left; VF.order]).
    porder.
  Qed.

  (* contains_many over an ascending sequence equals mapping contains *)
  Lemma contains_many_spec r vs :
    canonical r -> Sorted.StronglySorted V.le vs ->
    contains_many r vs = map (contains r) vs.
  Proof.
    intros Hc Hs.
    enough (G : forall dropped r', r = dropped ++ r' ->
                (forall w, In w vs -> (den r (P w At) <-> den r' (P w At))) ->
                contains_many r' vs = map (contains r) vs) by (apply (G [] r); [reflexivity|tauto]).
    induction vs as [|v vs IH]; intros dropped r' Heq Hden; [reflexivity|].
    cbn [contains_many map].
    assert (Hc' : canonical r') by (rewrite Heq in Hc; exact (canonical_app_inv _ _ Hc)).
    pose proof (cursor_spec v r' Hc') as Hcur. destruct (cursor v r') as [b r''].
    destruct Hcur as (dr & Hr' & Hdr & Hb1 & Hb2).
    apply Sorted.StronglySorted_inv in Hs as [Hs' Hall].
    f_equal.
    - apply eq_true_iff_eq. rewrite Hb1, contains_spec by assumption. symmetry. apply Hden. now left.
    - apply (IH Hs' (dropped ++ dr) r'').
      + rewrite Heq, Hr'. now rewrite app_assoc.
      + intros w Hw. rewrite (Hden w) by now right. rewrite Hr'. apply (den_drop dr r'' v w).
        * now rewrite <- Hr'.
        * exact Hdr.
        * rewrite Forall_forall in Hall. auto.
  Qed.

End RangeMoreP.
