(* C05 (model side): the extra law [singleton_atomic] is NECESSARY.  A version set that satisfies every law of
   [VSLawful] but whose singletons contain a second point of the universe (a point that is the version of nothing),
   a registry with well-formed sets and a well-behaved trace (every chosen version lies in the offered set) on
   which the model reaches [Panic PDerivationAfterDecision]: package 1 is decided at version [true], i.e. at the
   term [exact true] = {V0, V1}; the dependency of 2@true on package 1 in the set {V0} then gives an
   incompatibility whose term for package 1 is neither satisfied nor contradicted by {V0, V1} although the
   selected version lies in {V0}.  (Not a defect of the algorithm: Range and the bitset have atomic singletons,
   Proofs/SolverNoPanicInst.v; it shows that the laws of DESIGN.md 4.2 alone do not imply C05.) *)
From Coq Require Import List Bool NArith ZArith Lia.
From PG Require Import Model.VS Model.Term Model.Solver Model.Registry Proofs.VSLaws Proofs.BitsetLawful Proofs.SolverSem
  Proofs.SolverNoPanic1 Proofs.SolverNoPanic.
Import ListNotations.
Open Scope N_scope.

(* two versions [true], [false] over the universe v8: [true] is the point V0, but its singleton is {V0, V1} *)
Definition na_pt (v : bool) : v8 := if v then V0 else V2.
Definition na_sing (v : bool) : N := if v then 3 else 12.
Definition na_vs : VSOps N bool := {|
  vs_eqb := vs_eqb bitset_vs; vs_empty := vs_empty bitset_vs; vs_singleton := na_sing;
  vs_complement := vs_complement bitset_vs; vs_intersection := vs_intersection bitset_vs;
  vs_contains := fun a v => bs_mem a (na_pt v);
  vs_full := vs_full bitset_vs; vs_union := vs_union bitset_vs;
  vs_is_disjoint := vs_is_disjoint bitset_vs; vs_subset_of := vs_subset_of bitset_vs |}.

Definition na_lawful : VSLawful na_vs.
Proof.
  refine {| U := v8; pt := na_pt; mem := bs_mem; wf := bs_wf |}.
  - exact (vs_ext bitset_vs bitset_lawful).
  - exact (vs_eqb_spec bitset_vs bitset_lawful).
  - exact (wf_empty bitset_vs bitset_lawful).
  - intros [|]; unfold bs_wf; cbn; lia.
  - exact (wf_complement bitset_vs bitset_lawful).
  - exact (wf_intersection bitset_vs bitset_lawful).
  - exact (wf_full bitset_vs bitset_lawful).
  - exact (wf_union bitset_vs bitset_lawful).
  - exact (mem_empty bitset_vs bitset_lawful).
  - intros [|] [|]; vm_compute; split; congruence.
  - exact (mem_complement bitset_vs bitset_lawful).
  - exact (mem_intersection bitset_vs bitset_lawful).
  - exact (mem_full bitset_vs bitset_lawful).
  - exact (mem_union bitset_vs bitset_lawful).
  - intros a v _. reflexivity.
  - exact (is_disjoint_spec bitset_vs bitset_lawful).
  - exact (subset_of_spec bitset_vs bitset_lawful).
Defined.

Lemma na_not_atomic : ~ singleton_atomic na_vs na_lawful.
Proof. intros H. specialize (H true V1 eq_refl). discriminate. Qed.

(* 0@true -> 1 (any), 2 (any);  1@true without dependencies;  2@true -> 1 in {V0} *)
Definition na_reg : registry (VS := N) (Vr := bool) :=
  {| reg_versions := fun p => [true];
     reg_deps := fun p v => if N.eqb p 0 then Some [(1, 255); (2, 255)] else if N.eqb p 2 then Some [(1, 1)] else Some [] |}.

Definition na_tr : list (@event N bool) :=
  [EvCancel true; EvPrioritize 0 3 0%Z; EvChoose 0 3 (CSome true); EvDeps 0 true (DAvail [(1, 255); (2, 255)]);
   EvCancel true; EvPrioritize 2 255 0%Z; EvPrioritize 1 255 1%Z; EvChoose 1 255 (CSome true); EvDeps 1 true (DAvail []);
   EvCancel true; EvChoose 2 255 (CSome true); EvDeps 2 true (DAvail [(1, 1)]);
   EvCancel true].

Lemma na_reg_wf : reg_wf na_vs na_lawful na_reg.
Proof.
  intros p v ds q s. cbn. destruct (N.eqb p 0); [|destruct (N.eqb p 2)]; intros E; injection E as <-; cbn [In];
    intros H; repeat (destruct H as [H|H]; [injection H as <- <-; unfold bs_wf; lia|]); destruct H.
Qed.

Lemma na_tr_wb : WellBehaved na_vs na_reg na_tr.
Proof.
  unfold na_tr. repeat constructor; cbn; auto.
  - exists [(1, 255); (2, 255)]. split; [reflexivity|intros x; cbn; tauto].
  - exists []. split; [reflexivity|intros x; cbn; tauto].
  - exists [(1, 1)]. split; [reflexivity|intros x; cbn; tauto].
Qed.

Lemma na_tr_choose_contained : choose_contained na_vs na_tr.
Proof.
  intros p s v Hin. unfold na_tr in Hin. cbn [In] in Hin.
  repeat (destruct Hin as [Hin|Hin]; [try discriminate; injection Hin as <- <- <-; vm_compute; reflexivity|]). destruct Hin.
Qed.

(* every hypothesis of [resolve_no_panic] except [singleton_atomic] holds, and the model panics *)
Example nonatomic_panic :
  exists st log, resolve na_vs Bool.eqb 50 0 true na_tr = (OPanic PDerivationAfterDecision, st, log, 13%nat).
Proof. vm_compute. eauto. Qed.

Print Assumptions na_lawful.
Print Assumptions nonatomic_panic.
