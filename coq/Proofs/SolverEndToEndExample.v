(* Non-vacuity of the capstone theorem [resolve_g_total_correctness]: EVERY registry has a provider that serves it
   (first listed version inside the offered set, equal priorities, dependencies as registered), and for the bitset
   VersionSet and the registry of SolverSoundExample.v every hypothesis of the theorem holds. *)
From Coq Require Import List Bool NArith ZArith Lia.
From PG Require Import Model.VS Model.Term Model.Solver Model.Registry Model.Instances
  Proofs.VSLaws Proofs.BitsetLawful Proofs.SolverSem Proofs.SolverSoundExample Proofs.SolverNoPanic1 Proofs.SolverNoPanicInst
  Proofs.SolverTerm1 Proofs.SolverTerm4 Proofs.SolverTerm Proofs.SolverTermInst Proofs.SolverTermExample
  Proofs.SolverGen Proofs.SolverEndToEnd.
Import ListNotations.
Local Open Scope nat_scope.

Section RegProvider.
  Context {VS Vr : Type} (O : VSOps VS Vr) (reg : registry (VS := VS) (Vr := Vr)).

  Definition reg_provider : tprovider (VS := VS) (Vr := Vr) :=
    {| p_cancel := fun _ => true;
       p_prio := fun _ _ _ => 0%Z;
       p_choose := fun _ p s => match find (fun v => vs_contains O s v) (reg_versions reg p) with
                                | Some v => CSome v | None => CNone end;
       p_deps := fun _ p v => match reg_deps reg p v with Some ds => DAvail ds | None => DUnavail 0%N end |}.

  Lemma reg_provider_serves : serves O reg reg_provider.
  Proof.
    split; [|split].
    - intros h. reflexivity.
    - intros h p s. cbn [p_choose reg_provider].
      destruct (find (fun v => vs_contains O s v) (reg_versions reg p)) as [v|] eqn:Ef.
      + apply find_some in Ef. exact Ef.
      + intros v Hin. exact (find_none _ _ Ef v Hin).
    - intros h p v. cbn [p_deps reg_provider].
      destruct (reg_deps reg p v) as [ds|] eqn:Ed.
      + exists ds. split; [reflexivity|]. intros x. tauto.
      + reflexivity.
  Qed.
End RegProvider.

Lemma v8_eqb_refl : forall v, v8_eqb v v = true.
Proof. intros v. apply v8_eqb_eq. reflexivity. Qed.

Lemma bitset_vs_eqb_refl : forall s : N, vs_eqb bitset_vs s s = true.
Proof. intros s. cbn. apply N.eqb_refl. Qed.

(* the theorem applies: against the registry-serving provider of reg1 the model returns a solution of reg1 or a
   refutation, after at most Events0 calls, for every fuel above Fuel1 *)
Example total_correctness_nonvacuous : forall (fuel : nat) res tr,
  Fuel1 bitset_vs bitset_lawful bitset_ranked pkgs1 <= fuel ->
  resolve_g bitset_vs v8_eqb (reg_provider bitset_vs SolverSoundExample.reg1) fuel 0%N V1 = (res, tr) ->
  length tr <= Events0 bitset_vs bitset_lawful bitset_ranked pkgs1
  /\ ((exists sol, fst (fst (fst res)) = OSolution sol /\ Solution bitset_vs SolverSoundExample.reg1 0%N V1 (fun p => get p sol))
      \/ (exists t, fst (fst (fst res)) = ONoSolution t /\ forall a, ~ Solution bitset_vs SolverSoundExample.reg1 0%N V1 a)).
Proof.
  intros fuel res tr Hf E.
  refine (resolve_g_total_correctness bitset_vs bitset_lawful v8_eqb SolverSoundExample.reg1 0%N V1 bitset_ranked pkgs1
            bitset_singleton_atomic SolverSoundExample.reg1_wf (fun a b => proj1 (v8_eqb_eq a b)) v8_eqb_refl bitset_vs_eqb_refl
            _ _ fuel res tr (reg_provider_serves bitset_vs SolverSoundExample.reg1) Hf E).
  split; [left; reflexivity|]. split; [exact reg1_pk_deps|]. split; [exact reg1_alg_deps|].
  split; [intros p v _; exact (bitset_alg_all_singletons v)|exact (bitset_alg_all_singletons V1)].
Qed.

(* and what it returns on that registry is computed: a solution *)
Example total_correctness_run :
  fst (fst (fst (fst (resolve_g bitset_vs v8_eqb (reg_provider bitset_vs SolverSoundExample.reg1) 200 0%N V1))))
  = OSolution [(0%N, V1); (1%N, V2)].
Proof. vm_compute. reflexivity. Qed.
