(* Proofs about Model/Report.v: collapse_no_versions (C09, structural clauses) and the reporter state
   invariants (C08, numbering / reference clauses). *)
From Coq Require Import List NArith Bool Arith Lia.
From PG Require Import Model.VS Model.Term Model.Solver Model.Registry Model.Report Proofs.VSLaws Proofs.SolverSem.
Import ListNotations.

Section Collapse.
  Context {VS Vr : Type} (O : VSOps VS Vr).
  Notation dtree := (@tree VS Vr).
  Notation ext := (@external VS Vr).

  Definition is_nv (t : dtree) : bool :=
    match t with TExternal (XNoVersions _ _) => true | _ => false end.
  Definition is_custom (t : dtree) : bool :=
    match t with TExternal (XCustom _ _ _) => true | _ => false end.
  Definition is_notroot (t : dtree) : bool :=
    match t with TExternal (XNotRoot _ _) => true | _ => false end.
  Definition is_derived (t : dtree) : bool :=
    match t with TDerived _ _ _ _ => true | _ => false end.
  Definition is_fromdep (t : dtree) : bool :=
    match t with TExternal (XFromDep _ _ _ _) => true | _ => false end.

  (* some leaf of the tree is a NoVersions leaf *)
  Fixpoint has_nv (t : dtree) : bool :=
    match t with
    | TExternal _ => is_nv t
    | TDerived _ _ c1 c2 => has_nv c1 || has_nv c2
    end.

  (* every NoVersions leaf that is a direct cause of a derived node sits next to a NoVersions or Custom leaf *)
  Fixpoint nv_survivors_ok (t : dtree) : Prop :=
    match t with
    | TExternal _ => True
    | TDerived _ _ c1 c2 =>
        (is_nv c1 = true -> is_nv c2 = true \/ is_custom c2 = true)
        /\ (is_nv c2 = true -> is_nv c1 = true \/ is_custom c1 = true)
        /\ nv_survivors_ok c1 /\ nv_survivors_ok c2
    end.

  (* some derived node has the two causes NoVersions and NotRoot (in either order) *)
  Fixpoint nv_notroot_pair (t : dtree) : bool :=
    match t with
    | TExternal _ => false
    | TDerived _ _ c1 c2 =>
        (is_nv c1 && is_notroot c2) || (is_notroot c1 && is_nv c2)
        || nv_notroot_pair c1 || nv_notroot_pair c2
    end.

  (* ------------------------------------------------------------ one unfolding step, by the shape of the causes *)
  Lemma collapse_external e : collapse_no_versions O (TExternal e) = CTree (TExternal e).
  Proof. reflexivity. Qed.

  Lemma collapse_nv_left ts sh p r c2 :
    collapse_no_versions O (TDerived ts sh (TExternal (XNoVersions p r)) c2) =
    match collapse_no_versions O c2 with
    | CPanic => CPanic
    | CTree c2' => merge_or_keep O c2' p r (TDerived ts sh (TExternal (XNoVersions p r)) c2')
    end.
  Proof. reflexivity. Qed.

  Lemma collapse_nv_right ts sh c1 p r :
    is_nv c1 = false ->
    collapse_no_versions O (TDerived ts sh c1 (TExternal (XNoVersions p r))) =
    match collapse_no_versions O c1 with
    | CPanic => CPanic
    | CTree c1' => merge_or_keep O c1' p r (TDerived ts sh c1' (TExternal (XNoVersions p r)))
    end.
  Proof. intros H. destruct c1 as [[]|]; try discriminate; reflexivity. Qed.

  Lemma collapse_other ts sh c1 c2 :
    is_nv c1 = false -> is_nv c2 = false ->
    collapse_no_versions O (TDerived ts sh c1 c2) =
    match collapse_no_versions O c1 with
    | CPanic => CPanic
    | CTree c1' =>
        match collapse_no_versions O c2 with
        | CPanic => CPanic
        | CTree c2' => CTree (TDerived ts sh c1' c2')
        end
    end.
  Proof.
    intros H1 H2. destruct c1 as [[]|]; try discriminate; destruct c2 as [[]|]; try discriminate; reflexivity.
  Qed.

  (* the three arms as a case analysis *)
  Lemma causes_cases (c1 c2 : dtree) :
    (exists p r, c1 = TExternal (XNoVersions p r))
    \/ (is_nv c1 = false /\ exists p r, c2 = TExternal (XNoVersions p r))
    \/ (is_nv c1 = false /\ is_nv c2 = false).
  Proof.
    destruct c1 as [[]|]; eauto; destruct c2 as [[]|]; eauto 6.
  Qed.

  (* ------------------------------------------------------------ shape of the result *)
  Lemma merge_shape t p r :
    match merge_no_versions O t p r with
    | MMerged t' => (is_derived t = true /\ t' = t) \/ (is_fromdep t = true /\ is_fromdep t' = true)
    | MNotMergeable => is_nv t = true \/ is_custom t = true
    | MPanic => is_notroot t = true
    end.
  Proof.
    destruct t as [[]|]; cbn; auto. destruct (N.eqb p0 p); cbn; auto.
  Qed.

  (* collapsing a derived node gives a derived node or a dependency leaf; a leaf is returned as it is *)
  Lemma collapse_shape t t' :
    collapse_no_versions O t = CTree t' ->
    (is_derived t = false -> t' = t)
    /\ (is_derived t = true -> is_derived t' = true \/ is_fromdep t' = true).
  Proof.
    destruct t as [e|ts sh c1 c2].
    - cbn. intros H; inversion H; subst. split; [reflexivity|discriminate].
    - intros H. split; [discriminate|]. intros _.
      destruct (causes_cases c1 c2) as [(p & r & ->)|[(N1 & p & r & ->)|(N1 & N2)]].
      + rewrite collapse_nv_left in H. destruct (collapse_no_versions O c2) as [c2'|]; [|discriminate].
        unfold merge_or_keep in H. pose proof (merge_shape c2' p r) as M.
        destruct (merge_no_versions O c2' p r); inversion H; subst; cbn; auto.
        destruct M as [[M ->]|[_ M]]; auto.
      + rewrite collapse_nv_right in H by exact N1.
        destruct (collapse_no_versions O c1) as [c1'|]; [|discriminate].
        unfold merge_or_keep in H. pose proof (merge_shape c1' p r) as M.
        destruct (merge_no_versions O c1' p r); inversion H; subst; cbn; auto.
        destruct M as [[M ->]|[_ M]]; auto.
      + rewrite collapse_other in H by assumption.
        destruct (collapse_no_versions O c1); [|discriminate].
        destruct (collapse_no_versions O c2); [|discriminate]. inversion H; subst; cbn; auto.
  Qed.

  Lemma derived_or_not (t : dtree) : is_derived t = true \/ is_derived t = false.
  Proof. destruct (is_derived t); auto. Qed.

  Lemma collapse_keeps_kind (f : dtree -> bool) t t' :
    (forall x, f x = true -> is_derived x = false) ->
    (forall x, f x = true -> is_fromdep x = false) ->
    collapse_no_versions O t = CTree t' -> f t' = f t.
  Proof.
    intros Hd Hf H. destruct (collapse_shape t t' H) as [A B].
    destruct (derived_or_not t) as [D|D].
    - destruct (f t') eqn:E1, (f t) eqn:E2; try reflexivity.
      + destruct (B D) as [X|X]; [rewrite (Hd _ E1) in X|rewrite (Hf _ E1) in X]; discriminate.
      + apply Hd in E2. congruence.
    - now rewrite (A D).
  Qed.

  Lemma collapse_is_nv t t' : collapse_no_versions O t = CTree t' -> is_nv t' = is_nv t.
  Proof. apply collapse_keeps_kind; intros [[]|]; cbn; congruence. Qed.
  Lemma collapse_is_notroot t t' : collapse_no_versions O t = CTree t' -> is_notroot t' = is_notroot t.
  Proof. apply collapse_keeps_kind; intros [[]|]; cbn; congruence. Qed.

  (* ------------------------------------------------------------ (a) no NoVersions leaf: unchanged *)
  Theorem collapse_id_without_nv_proof :
    forall t, has_nv t = false -> collapse_no_versions O t = CTree t.
  Proof.
    induction t as [e|ts sh c1 IH1 c2 IH2]; intros H; [reflexivity|].
    cbn in H. apply orb_false_elim in H. destruct H as [H1 H2].
    assert (N1 : is_nv c1 = false) by (destruct c1 as [[]|]; cbn in *; congruence).
    assert (N2 : is_nv c2 = false) by (destruct c2 as [[]|]; cbn in *; congruence).
    rewrite collapse_other by assumption. now rewrite IH1, IH2.
  Qed.

  (* ------------------------------------------------------------ (b) where NoVersions leaves survive *)
  Lemma survivors_of_merge_or_keep other p r self_now t' :
    nv_survivors_ok other ->
    (is_nv other = true \/ is_custom other = true -> nv_survivors_ok self_now) ->
    merge_or_keep O other p r self_now = CTree t' -> nv_survivors_ok t'.
  Proof.
    intros Ho Hs. unfold merge_or_keep. pose proof (merge_shape other p r) as M.
    destruct (merge_no_versions O other p r); intros H; inversion H; subst.
    - destruct M as [[_ ->]|[_ M]]; [exact Ho|]. destruct t' as [e|]; [exact I|discriminate].
    - auto.
  Qed.

  Theorem collapse_nv_survivors_proof :
    forall t t', collapse_no_versions O t = CTree t' -> nv_survivors_ok t'.
  Proof.
    induction t as [e|ts sh c1 IH1 c2 IH2]; intros t' H.
    - inversion H; subst. exact I.
    - destruct (causes_cases c1 c2) as [(p & r & ->)|[(N1 & p & r & ->)|(N1 & N2)]].
      + rewrite collapse_nv_left in H. destruct (collapse_no_versions O c2) as [c2'|] eqn:E2; [|discriminate].
        eapply survivors_of_merge_or_keep; [exact (IH2 _ eq_refl)| |exact H].
        intros K. cbn. repeat split; auto; try exact (IH2 _ eq_refl).
      + rewrite collapse_nv_right in H by exact N1.
        destruct (collapse_no_versions O c1) as [c1'|] eqn:E1; [|discriminate].
        eapply survivors_of_merge_or_keep; [exact (IH1 _ eq_refl)| |exact H].
        intros K. cbn. repeat split; auto; try exact (IH1 _ eq_refl).
      + rewrite collapse_other in H by assumption.
        destruct (collapse_no_versions O c1) as [c1'|] eqn:E1; [|discriminate].
        destruct (collapse_no_versions O c2) as [c2'|] eqn:E2; [|discriminate].
        inversion H; subst. cbn.
        rewrite (collapse_is_nv _ _ E1), (collapse_is_nv _ _ E2), N1, N2.
        repeat split; try discriminate; [exact (IH1 _ eq_refl)|exact (IH2 _ eq_refl)].
  Qed.

  (* ------------------------------------------------------------ (c) the panic arm *)
  Lemma merge_or_keep_panic other p r self_now :
    merge_or_keep O other p r self_now = CPanic <-> is_notroot other = true.
  Proof.
    unfold merge_or_keep. destruct other as [[]|]; cbn; try (split; congruence).
    destruct (N.eqb p0 p); split; congruence.
  Qed.

  (* collapse_no_versions panics exactly on the trees in which some derived node has the causes
     (NoVersions, NotRoot) or (NotRoot, NoVersions) *)
  Theorem collapse_panics_iff_proof :
    forall t, collapse_no_versions O t = CPanic <-> nv_notroot_pair t = true.
  Proof.
    induction t as [e|ts sh c1 IH1 c2 IH2]; [cbn; split; discriminate|].
    destruct (causes_cases c1 c2) as [(p & r & ->)|[(N1 & p & r & ->)|(N1 & N2)]].
    - rewrite collapse_nv_left. cbn [nv_notroot_pair is_nv is_notroot andb orb].
      destruct (collapse_no_versions O c2) as [c2'|] eqn:E2.
      + rewrite merge_or_keep_panic, (collapse_is_notroot _ _ E2).
        destruct (nv_notroot_pair c2) eqn:P2; [destruct IH2 as [_ IH2]; discriminate (IH2 eq_refl)|].
        rewrite !orb_false_r. reflexivity.
      + destruct IH2 as [IH2 _]. rewrite (IH2 eq_refl), orb_true_r. split; reflexivity.
    - rewrite collapse_nv_right by exact N1. cbn [nv_notroot_pair is_nv is_notroot]. rewrite N1. cbn [andb orb].
      destruct (collapse_no_versions O c1) as [c1'|] eqn:E1.
      + rewrite merge_or_keep_panic, (collapse_is_notroot _ _ E1).
        destruct (nv_notroot_pair c1) eqn:P1; [destruct IH1 as [_ IH1]; discriminate (IH1 eq_refl)|].
        rewrite andb_true_r, !orb_false_r. reflexivity.
      + destruct IH1 as [IH1 _]. rewrite (IH1 eq_refl), orb_true_r. split; reflexivity.
    - rewrite collapse_other by assumption. cbn [nv_notroot_pair]. rewrite N1, N2, andb_false_r. cbn [andb orb].
      destruct (collapse_no_versions O c1) as [c1'|] eqn:E1.
      + destruct (nv_notroot_pair c1) eqn:P1; [destruct IH1 as [_ IH1]; discriminate (IH1 eq_refl)|].
        destruct (collapse_no_versions O c2) as [c2'|] eqn:E2.
        * destruct (nv_notroot_pair c2) eqn:P2; [destruct IH2 as [_ IH2]; discriminate (IH2 eq_refl)|].
          split; discriminate.
        * destruct IH2 as [IH2 _]. rewrite (IH2 eq_refl). split; reflexivity.
      + destruct IH1 as [IH1 _]. rewrite (IH1 eq_refl). split; reflexivity.
  Qed.

  Theorem collapse_no_panic_proof :
    forall t, nv_notroot_pair t = false -> exists t', collapse_no_versions O t = CTree t'.
  Proof.
    intros t H. destruct (collapse_no_versions O t) as [t'|] eqn:E; [eauto|].
    apply collapse_panics_iff_proof in E. congruence.
  Qed.

  (* collapse is idempotent-friendly: the result has no more NoVersions leaves than the input, and a
     second call cannot panic *)
  Lemma collapse_result_no_pair :
    forall t t', collapse_no_versions O t = CTree t' -> nv_notroot_pair t' = false.
  Proof.
    induction t as [e|ts sh c1 IH1 c2 IH2]; intros t' H.
    - inversion H; subst. reflexivity.
    - destruct (causes_cases c1 c2) as [(p & r & ->)|[(N1 & p & r & ->)|(N1 & N2)]].
      + rewrite collapse_nv_left in H. destruct (collapse_no_versions O c2) as [c2'|] eqn:E2; [|discriminate].
        unfold merge_or_keep in H. pose proof (merge_shape c2' p r) as M.
        destruct (merge_no_versions O c2' p r); inversion H; subst.
        * destruct M as [[_ ->]|[_ M]]; [exact (IH2 _ eq_refl)|]. destruct t' as [e|]; [reflexivity|discriminate].
        * cbn. rewrite (IH2 _ eq_refl). destruct M as [M|M]; destruct c2' as [[]|]; try discriminate; reflexivity.
      + rewrite collapse_nv_right in H by exact N1.
        destruct (collapse_no_versions O c1) as [c1'|] eqn:E1; [|discriminate].
        unfold merge_or_keep in H. pose proof (merge_shape c1' p r) as M.
        destruct (merge_no_versions O c1' p r); inversion H; subst.
        * destruct M as [[_ ->]|[_ M]]; [exact (IH1 _ eq_refl)|]. destruct t' as [e|]; [reflexivity|discriminate].
        * cbn. rewrite (IH1 _ eq_refl). destruct M as [M|M]; destruct c1' as [[]|]; try discriminate; reflexivity.
      + rewrite collapse_other in H by assumption.
        destruct (collapse_no_versions O c1) as [c1'|] eqn:E1; [|discriminate].
        destruct (collapse_no_versions O c2) as [c2'|] eqn:E2; [|discriminate].
        inversion H; subst. cbn.
        rewrite (collapse_is_nv _ _ E1), (collapse_is_nv _ _ E2), N1, N2, (IH1 _ eq_refl), (IH2 _ eq_refl).
        now rewrite andb_false_r.
  Qed.

End Collapse.

(* ====================================================================================================
   The reporter: state invariants of DefaultStringReporter (C08, numbering / references / coverage).
   ==================================================================================================== *)
Section Reporter.
  Context {VS Vr : Type}.
  Notation tm := (term VS).
  Notation terms := (list (pkg * tm)).
  Notation dtree := (@tree VS Vr).
  Notation ext := (@external VS Vr).
  Notation step := (@step VS Vr).
  Notation step_kind := (@step_kind VS Vr).
  Notation rstate := (@rstate VS Vr).

  (* the (n) references a line cites, with the terms it says they stand for *)
  Definition cited (k : step_kind) : list (nat * terms) :=
    match k with
    | KBothRef r1 t1 r2 t2 => [(r1, t1); (r2, t2)]
    | KRefAndExternal r t _ => [(r, t)]
    | KAndRef r t => [(r, t)]
    | _ => []
    end.
  (* the external facts a line names *)
  Definition step_exts (k : step_kind) : list ext :=
    match k with
    | KBothExternal a b => [a; b]
    | KRefAndExternal _ _ e => [e]
    | KAndExternal e => [e]
    | KAndPriorAndExternal a b => [a; b]
    | KOnlyExternal e => [e]
    | _ => []
    end.
  Definition cited_exts (ls : list step) : list ext := flat_map (fun s => step_exts (s_kind s)) ls.
  Definition nums_of (ls : list step) : list nat := concat (map (@s_nums VS Vr) ls).

  Fixpoint leaves (t : dtree) : list ext :=
    match t with
    | TExternal e => [e]
    | TDerived _ _ c1 c2 => leaves c1 ++ leaves c2
    end.

  (* Entailment is abstract: [A] is any set of assignments (all assignments, or only those that select existing
     versions), [sat a ts] = "a makes every term of the incompatibility ts true", [esat a e] the same for the
     terms an external fact stands for.  Nothing below depends on what they are. *)
  Variable A : Type.
  Variable sat : A -> terms -> Prop.
  Variable esat : A -> ext -> Prop.

  Definition csat (a : A) (t : dtree) : Prop :=
    match t with TExternal e => esat a e | TDerived ts _ _ _ => sat a ts end.
  (* a derived node follows from its two causes *)
  Definition node_entailed (ts : terms) (c1 c2 : dtree) : Prop :=
    forall a, sat a ts -> csat a c1 \/ csat a c2.

  (* the premise of C08, for a fixed reading [F] of the shared ids:
     - SharedConsistent: nodes carrying the same shared id have the same terms and the same leaves
       ([F id] = what the id stands for); true of trees built by build_derivation_tree (id = store index);
     - LocallyEntailed: every derived node follows from its causes. *)
  Fixpoint consistent (F : nat -> terms * list ext) (t : dtree) : Prop :=
    match t with
    | TExternal _ => True
    | TDerived ts sh c1 c2 =>
        ((forall id, sh = Some id -> F id = (ts, leaves c1 ++ leaves c2)) /\ node_entailed ts c1 c2)
        /\ consistent F c1 /\ consistent F c2
    end.

  Definition uses_prev (k : step_kind) : bool :=
    match k with KAndExternal _ | KAndRef _ _ | KAndPriorAndExternal _ _ => true | _ => false end.

  (* the conclusion of a line is entailed by what the line cites: the external facts it names, the terms it
     attaches to its (n) references, and - for an "And because" line - the conclusion of the preceding line *)
  Definition step_sound (s : step) (prev : option step) : Prop :=
    (* an "And because" line has a preceding line, and that line concludes something *)
    (uses_prev (s_kind s) = true -> exists p, prev = Some p /\ s_kind p <> KBlank)
    /\ (s_kind s = KBlank \/ (exists e, s_kind s = KOnlyExternal e)
        \/ forall a, sat a (s_concl s) ->
             (exists e, In e (step_exts (s_kind s)) /\ esat a e)
             \/ (exists r t, In (r, t) (cited (s_kind s)) /\ sat a t)
             \/ (uses_prev (s_kind s) = true /\ exists p, prev = Some p /\ s_kind p <> KBlank /\ sat a (s_concl p))).

  Fixpoint steps_sound (ls : list step) : Prop :=
    match ls with
    | [] => True
    | s :: older => step_sound s (hd_error older) /\ steps_sound older
    end.

  (* lines newest first: every reference of a line is carried by an older line that concludes the cited terms *)
  Fixpoint refs_ok (ls : list step) : Prop :=
    match ls with
    | [] => True
    | s :: older =>
        (forall r t, In (r, t) (cited (s_kind s)) ->
           exists s', In s' older /\ In r (s_nums s') /\ s_concl s' = t)
        /\ refs_ok older
    end.

  Variable F : nat -> terms * list ext.

  Record Inv (st : rstate) : Prop := {
    inv_nums : nums_of (rev (lines st)) = seq 1 (ref_count st);
    inv_one : Forall (fun s : step => length (s_nums s) <= 1) (lines st);
    inv_refs : refs_ok (lines st);
    inv_sound : steps_sound (lines st);
    inv_map : forall id n, lookup id (shared_with_ref st) = Some n ->
        (exists s', In s' (lines st) /\ In n (s_nums s') /\ s_concl s' = fst (F id))
        /\ incl (snd (F id)) (cited_exts (lines st));
  }.

  Definition mono (st st' : rstate) : Prop :=
    forall id n, lookup id (shared_with_ref st) = Some n -> lookup id (shared_with_ref st') = Some n.
  (* st' has all lines of st, untouched, below at least one new line *)
  Definition grows (st st' : rstate) : Prop :=
    exists pre, pre <> [] /\ lines st' = pre ++ lines st.

  Lemma mono_refl st : mono st st. Proof. intros id n H; exact H. Qed.
  Lemma mono_trans a b c : mono a b -> mono b c -> mono a c.
  Proof. intros H1 H2 id n H. auto. Qed.
  Lemma grows_trans a b c : grows a b -> grows b c -> grows a c.
  Proof.
    intros (p1 & N1 & E1) (p2 & N2 & E2). exists (p2 ++ p1). split.
    - destruct p2; [congruence|discriminate].
    - now rewrite E2, E1, app_assoc.
  Qed.
  Lemma grows_push st k c : grows st (push st k c).
  Proof. eexists [_]. split; [discriminate|reflexivity]. Qed.
  Lemma grows_push_after a st k c : grows a st -> grows a (push st k c).
  Proof. intros H. eapply grows_trans; [exact H|apply grows_push]. Qed.
  Lemma grows_add_line_ref a st : grows a st -> grows a (add_line_ref st).
  Proof.
    intros (pre & N & E). unfold add_line_ref; cbn. rewrite E.
    destruct pre as [|l pre]; [congruence|]. cbn. eexists (_ :: pre). split; [discriminate|reflexivity].
  Qed.
  Lemma grows_insert a st id n : grows a st -> grows a (insert_shared st id n).
  Proof. intros H; exact H. Qed.

  Lemma cited_exts_app a b : cited_exts (a ++ b) = cited_exts a ++ cited_exts b.
  Proof. unfold cited_exts. apply flat_map_app. Qed.
  Lemma grows_exts st st' : grows st st' -> incl (cited_exts (lines st)) (cited_exts (lines st')).
  Proof. intros (pre & _ & E). rewrite E, cited_exts_app. apply incl_appr, incl_refl. Qed.
  Lemma grows_in st st' s : grows st st' -> In s (lines st) -> In s (lines st').
  Proof. intros (pre & _ & E) H. rewrite E. apply in_or_app; auto. Qed.

  Lemma nums_of_app a b : nums_of (a ++ b) = nums_of a ++ nums_of b.
  Proof. unfold nums_of. now rewrite map_app, concat_app. Qed.

  Lemma nums_of_single (s : step) : nums_of [s] = s_nums s.
  Proof. unfold nums_of. cbn. apply app_nil_r. Qed.

  (* ------------------------------------------------------------ the three state updates *)
  Lemma Inv_new : Inv rstate_new.
  Proof. constructor; cbn; auto. intros id n H; discriminate. Qed.

  Lemma Inv_push st k c :
    Inv st ->
    (forall r t, In (r, t) (cited k) -> exists s', In s' (lines st) /\ In r (s_nums s') /\ s_concl s' = t) ->
    step_sound {| s_kind := k; s_concl := c; s_nums := [] |} (hd_error (lines st)) ->
    Inv (push st k c).
  Proof.
    intros [I1 I2 I3 I5 I4] Hc Hs. constructor; unfold push; cbn [lines ref_count shared_with_ref].
    - cbn [rev]. rewrite nums_of_app, I1, nums_of_single. cbn. now rewrite app_nil_r.
    - constructor; [cbn; lia|exact I2].
    - cbn [refs_ok s_kind]. split; [exact Hc|exact I3].
    - cbn [steps_sound]. split; [exact Hs|exact I5].
    - intros id n H. destruct (I4 id n H) as [(s' & A0 & B) C]. split.
      + exists s'. split; [now right|exact B].
      + intros x Hx. unfold cited_exts. cbn. apply in_or_app. right. exact (C x Hx).
  Qed.

  Lemma Inv_push_blank st : Inv st -> Inv (push st KBlank []).
  Proof. intros I. apply Inv_push; [exact I|intros r t []|split; [discriminate|left; reflexivity]]. Qed.

  Lemma Inv_add_line_ref st l rest :
    Inv st -> lines st = l :: rest -> s_nums l = [] -> Inv (add_line_ref st).
  Proof.
    intros [I1 I2 I3 I5 I4] E N. rewrite E in I1, I2, I3, I4, I5.
    constructor; unfold add_line_ref; rewrite E; cbn [lines ref_count shared_with_ref].
    - cbn [rev] in *. rewrite nums_of_app, nums_of_single in *. cbn [add_num s_nums]. rewrite N in *.
      rewrite app_nil_r in I1. rewrite I1. cbn [app]. now rewrite seq_S.
    - inversion I2; subst. constructor; [cbn; rewrite N; cbn; lia|assumption].
    - exact I3.
    - exact I5.
    - intros id n H. destruct (I4 id n H) as [(s' & A0 & B & C) D]. split.
      + destruct A0 as [<-|A0].
        * exists (add_num l (S (ref_count st))). split; [now left|]. split; [cbn; apply in_or_app; now left|exact C].
        * exists s'. split; [now right|auto].
      + exact D.
  Qed.

  Lemma Inv_insert st l rest id n :
    Inv st -> lines st = l :: rest -> In n (s_nums l) -> s_concl l = fst (F id) ->
    incl (snd (F id)) (cited_exts (lines st)) ->
    Inv (insert_shared st id n).
  Proof.
    intros [I1 I2 I3 I5 I4] E Hn Hc Hl. constructor; cbn; auto.
    intros id' n' H. destruct (Nat.eqb id' id) eqn:Q.
    - apply Nat.eqb_eq in Q. subst id'. inversion H; subst n'. split; [|exact Hl].
      exists l. rewrite E. split; [now left|auto].
    - exact (I4 id' n' H).
  Qed.

  (* ------------------------------------------------------------ specification of one call *)
  (* what build_recursive_helper establishes for the node (ts, sh, …) whose leaves are lv *)
  Definition HSpec (ts : terms) (sh : option nat) (lv : list ext) (st st' : rstate) : Prop :=
    Inv st' /\ mono st st' /\ grows st st'
    /\ (exists l rest, lines st' = l :: rest /\ s_concl l = ts /\ s_kind l <> KBlank
          /\ (s_nums l = [] \/ exists id n, sh = Some id /\ lookup id (shared_with_ref st') = Some n))
    /\ incl lv (cited_exts (lines st')).
  (* … and build_recursive: additionally a shared node has a line reference afterwards *)
  Definition Spec (ts : terms) (sh : option nat) (lv : list ext) (st st' : rstate) : Prop :=
    HSpec ts sh lv st st' /\ (forall id, sh = Some id -> lookup id (shared_with_ref st') <> None).

  Definition RecSpec (rec : terms -> option nat -> dtree -> dtree -> rstate -> option rstate) : Prop :=
    forall ts sh c1 c2 st st',
      consistent F (TDerived ts sh c1 c2) -> Inv st -> rec ts sh c1 c2 st = Some st' ->
      Spec ts sh (leaves c1 ++ leaves c2) st st'.

  Lemma bind_some (x : option rstate) f st' :
    bind x f = Some st' -> exists s, x = Some s /\ f s = Some st'.
  Proof. destruct x; cbn; [eauto|discriminate]. Qed.

  (* a line pushed after a recursive call *)
  Lemma HSpec_push_after ts sh lv st st1 k :
    Inv st1 -> mono st st1 -> grows st st1 ->
    k <> KBlank ->
    (forall r t, In (r, t) (cited k) -> exists s', In s' (lines st1) /\ In r (s_nums s') /\ s_concl s' = t) ->
    step_sound {| s_kind := k; s_concl := ts; s_nums := [] |} (hd_error (lines st1)) ->
    incl lv (step_exts k ++ cited_exts (lines st1)) ->
    HSpec ts sh lv st (push st1 k ts).
  Proof.
    intros I M G K C S L. split; [|split; [|split; [|split]]].
    - apply Inv_push; assumption.
    - exact M.
    - apply grows_push_after, G.
    - eexists _, _. split; [reflexivity|]. cbn. auto.
    - exact L.
  Qed.

  (* the same when nothing was called before *)
  Lemma HSpec_push ts sh lv st k :
    Inv st -> k <> KBlank ->
    (forall r t, In (r, t) (cited k) -> exists s', In s' (lines st) /\ In r (s_nums s') /\ s_concl s' = t) ->
    step_sound {| s_kind := k; s_concl := ts; s_nums := [] |} (hd_error (lines st)) ->
    incl lv (step_exts k ++ cited_exts (lines st)) ->
    HSpec ts sh lv st (push st k ts).
  Proof.
    intros I K C S L. split; [|split; [|split; [|split]]].
    - apply Inv_push; assumption.
    - intros id n H; exact H.
    - apply grows_push.
    - eexists _, _. split; [reflexivity|]. cbn. auto.
    - exact L.
  Qed.

  Lemma line_ref_of_some (st : rstate) sh r :
    line_ref_of st sh = Some r -> exists id, sh = Some id /\ lookup id (shared_with_ref st) = Some r.
  Proof. destruct sh; cbn; [eauto|discriminate]. Qed.

  (* a reference obtained from the map may be cited, and stands for the node's leaves *)
  Lemma map_cite (st : rstate) ts sh c1 c2 r :
    Inv st -> consistent F (TDerived ts sh c1 c2) -> line_ref_of st sh = Some r ->
    (exists s', In s' (lines st) /\ In r (s_nums s') /\ s_concl s' = ts)
    /\ incl (leaves c1 ++ leaves c2) (cited_exts (lines st)).
  Proof.
    intros I [[C _] _] H. destruct (line_ref_of_some _ _ _ H) as (id & -> & L).
    destruct (inv_map _ I id r L) as [A0 B]. rewrite (C id eq_refl) in A0, B. exact (conj A0 B).
  Qed.

  Lemma line_ref_mono (st st' : rstate) sh r : mono st st' -> line_ref_of st sh = Some r -> line_ref_of st' sh = Some r.
  Proof. intros M H. destruct sh; cbn in *; [auto|discriminate]. Qed.

  (* shapes of the soundness obligation *)
  Lemma sound_general k c prev :
    (uses_prev k = true -> exists p, prev = Some p /\ s_kind p <> KBlank) ->
    (forall a, sat a c ->
       (exists e, In e (step_exts k) /\ esat a e)
       \/ (exists r t, In (r, t) (cited k) /\ sat a t)
       \/ (uses_prev k = true /\ exists p, prev = Some p /\ s_kind p <> KBlank /\ sat a (s_concl p))) ->
    step_sound {| s_kind := k; s_concl := c; s_nums := [] |} prev.
  Proof. intros H0 H. split; [exact H0|]. right; right. exact H. Qed.

  Ltac prev_tac :=
    cbn [uses_prev];
    first [ intros X; discriminate X
          | intros _;
            match goal with
            | E : lines _ = ?l :: _, K : s_kind ?l <> KBlank |- _ =>
                exists l; rewrite E; split; [reflexivity|exact K]
            end ].

  Section OneLevelProofs.
    Variable rec : terms -> option nat -> dtree -> dtree -> rstate -> option rstate.
    Hypothesis Hrec : RecSpec rec.

    (* [cur] follows from the derived cause (terms dts) and the external e *)
    Lemma recurse_one_each_spec dts dsh dc1 dc2 e cur sh st st' :
      consistent F (TDerived dts dsh dc1 dc2) -> Inv st ->
      (forall a, sat a cur -> sat a dts \/ esat a e) ->
      report_recurse_one_each rec dts dsh dc1 dc2 e cur st = Some st' ->
      HSpec cur sh (e :: leaves dc1 ++ leaves dc2) st st'.
    Proof.
      intros C I Hcur H. unfold report_recurse_one_each in H.
      destruct dc1 as [pe|pts psh pc1 pc2], dc2 as [pe2|pts2 psh2 pc12 pc22];
        apply bind_some in H; destruct H as (st1 & R & H); inversion H; subst st'; clear H.
      - (* both causes of the derived cause are external *)
        destruct (Hrec _ _ _ _ _ _ C I R) as [(I1 & M & G & (l1 & rest1 & E1 & Cl1 & K1 & _) & L) _].
        apply HSpec_push_after; [exact I1|exact M|exact G|discriminate|cbn; intros ? ? []| |].
        + apply sound_general; [prev_tac|]. intros a Ha. destruct (Hcur a Ha) as [X|X].
          * right; right. split; [reflexivity|]. exists l1. rewrite E1. cbn. rewrite Cl1. auto.
          * left. exists e. split; [now left|exact X].
        + cbn. intros x [<-|Hx]; [now left|]. right. apply L, Hx.
      - (* (External prior, Derived prior_derived) *)
        destruct C as ((_ & Ed) & _ & C2).
        destruct (Hrec _ _ _ _ _ _ C2 I R) as [(I1 & M & G & (l1 & rest1 & E1 & Cl1 & K1 & _) & L) _].
        apply HSpec_push_after; [exact I1|exact M|exact G|discriminate|cbn; intros ? ? []| |].
        + apply sound_general; [prev_tac|]. intros a Ha. destruct (Hcur a Ha) as [X|X].
          * destruct (Ed a X) as [Y|Y]; cbn in Y.
            -- left. exists pe. split; [now left|exact Y].
            -- right; right. split; [reflexivity|]. exists l1. rewrite E1. cbn. rewrite Cl1. auto.
          * left. exists e. split; [right; now left|exact X].
        + cbn. intros x [<-|[<-|Hx]]; [right; now left|now left|]. right; right. apply L, Hx.
      - (* (Derived prior_derived, External prior) *)
        destruct C as ((_ & Ed) & C1 & _).
        destruct (Hrec _ _ _ _ _ _ C1 I R) as [(I1 & M & G & (l1 & rest1 & E1 & Cl1 & K1 & _) & L) _].
        apply HSpec_push_after; [exact I1|exact M|exact G|discriminate|cbn; intros ? ? []| |].
        + apply sound_general; [prev_tac|]. intros a Ha. destruct (Hcur a Ha) as [X|X].
          * destruct (Ed a X) as [Y|Y]; cbn in Y.
            -- right; right. split; [reflexivity|]. exists l1. rewrite E1. cbn. rewrite Cl1. auto.
            -- left. exists pe2. split; [now left|exact Y].
          * left. exists e. split; [right; now left|exact X].
        + cbn. intros x [<-|Hx]; [right; now left|]. apply in_app_or in Hx. destruct Hx as [Hx|[<-|[]]].
          * right; right. apply L, Hx.
          * now left.
      - (* both derived *)
        destruct (Hrec _ _ _ _ _ _ C I R) as [(I1 & M & G & (l1 & rest1 & E1 & Cl1 & K1 & _) & L) _].
        apply HSpec_push_after; [exact I1|exact M|exact G|discriminate|cbn; intros ? ? []| |].
        + apply sound_general; [prev_tac|]. intros a Ha. destruct (Hcur a Ha) as [X|X].
          * right; right. split; [reflexivity|]. exists l1. rewrite E1. cbn. rewrite Cl1. auto.
          * left. exists e. split; [now left|exact X].
        + cbn. intros x [<-|Hx]; [now left|]. right. apply L, Hx.
    Qed.

    Lemma one_each_spec dts dsh dc1 dc2 e cur sh st st' :
      consistent F (TDerived dts dsh dc1 dc2) -> Inv st ->
      (forall a, sat a cur -> sat a dts \/ esat a e) ->
      report_one_each rec dts dsh dc1 dc2 e cur st = Some st' ->
      HSpec cur sh (e :: leaves dc1 ++ leaves dc2) st st'.
    Proof.
      intros C I Hcur H. unfold report_one_each in H.
      destruct (line_ref_of st dsh) as [r|] eqn:LR.
      - inversion H; subst st'; clear H.
        destruct (map_cite _ _ _ _ _ _ I C LR) as [A0 B].
        apply HSpec_push; [exact I|discriminate| | |].
        + cbn. intros r' t' [X|[]]. inversion X; subst. exact A0.
        + apply sound_general; [prev_tac|]. intros a Ha. destruct (Hcur a Ha) as [X|X].
          * right; left. exists r, dts. split; [now left|exact X].
          * left. exists e. split; [now left|exact X].
        + cbn. intros x [<-|Hx]; [now left|]. right. apply B, Hx.
      - eapply recurse_one_each_spec; eassumption.
    Qed.

    Lemma helper_spec ts sh c1 c2 st st' :
      consistent F (TDerived ts sh c1 c2) -> Inv st ->
      build_recursive_helper rec ts sh c1 c2 st = Some st' ->
      HSpec ts sh (leaves c1 ++ leaves c2) st st'.
    Proof.
      intros C I H. pose proof C as ((_ & En) & C1 & C2). unfold build_recursive_helper in H.
      destruct c1 as [e1|ts1 sh1 a1 b1], c2 as [e2|ts2 sh2 a2 b2].
      - (* both external *)
        inversion H; subst st'; clear H.
        apply HSpec_push; [exact I|discriminate|cbn; intros ? ? []| |].
        + apply sound_general; [prev_tac|]. intros a Ha. left. destruct (En a Ha) as [X|X]; cbn in X.
          * exists e1. split; [now left|exact X].
          * exists e2. split; [right; now left|exact X].
        + cbn. intros x [<-|[<-|[]]]; [now left|right; now left].
      - (* (External, Derived) *)
        assert (Hc : forall a, sat a ts -> sat a ts2 \/ esat a e1)
          by (intros a Ha; destruct (En a Ha) as [X|X]; cbn in X; auto).
        pose proof (one_each_spec _ _ _ _ _ _ sh _ _ C2 I Hc H) as (I' & M & G & P & L).
        split; [exact I'|split; [exact M|split; [exact G|split; [exact P|exact L]]]].
      - (* (Derived, External) *)
        assert (Hc : forall a, sat a ts -> sat a ts1 \/ esat a e2)
          by (intros a Ha; destruct (En a Ha) as [X|X]; cbn in X; auto).
        pose proof (one_each_spec _ _ _ _ _ _ sh _ _ C1 I Hc H) as (I' & M & G & P & L).
        split; [exact I'|split; [exact M|split; [exact G|split; [exact P|]]]]. cbn [leaves]. intros x Hx. apply L.
        apply in_app_or in Hx. destruct Hx as [Hx|[<-|[]]]; [now right|now left].
      - (* (Derived, Derived) *)
        cbn [leaves].
        assert (Hc : forall a, sat a ts -> sat a ts1 \/ sat a ts2) by (intros a Ha; exact (En a Ha)).
        destruct (line_ref_of st sh1) as [r1|] eqn:L1; destruct (line_ref_of st sh2) as [r2|] eqn:L2.
        + (* both already referenced *)
          inversion H; subst st'; clear H.
          destruct (map_cite _ _ _ _ _ _ I C1 L1) as [A1 B1]. destruct (map_cite _ _ _ _ _ _ I C2 L2) as [A2 B2].
          apply HSpec_push; [exact I|discriminate| | |].
          * cbn. intros r' t' [X|[X|[]]]; inversion X; subst; assumption.
          * apply sound_general; [prev_tac|]. intros a Ha. right; left. destruct (Hc a Ha) as [X|X].
            -- exists r1, ts1. split; [now left|exact X].
            -- exists r2, ts2. split; [right; now left|exact X].
          * cbn. apply incl_app; assumption.
        + (* first referenced: explain the second, then cite the first *)
          apply bind_some in H. destruct H as (st1 & R & H). inversion H; subst st'; clear H.
          destruct (Hrec _ _ _ _ _ _ C2 I R) as [(I1 & M & G & (l1 & rest1 & E1 & Cl1 & K1 & _) & L) _].
          destruct (map_cite _ _ _ _ _ _ I1 C1 (line_ref_mono _ _ _ _ M L1)) as [A1 B1].
          apply HSpec_push_after; [exact I1|exact M|exact G|discriminate| | |].
          * cbn. intros r' t' [X|[]]. inversion X; subst. exact A1.
          * apply sound_general; [prev_tac|]. intros a Ha. destruct (Hc a Ha) as [X|X].
            -- right; left. exists r1, ts1. split; [now left|exact X].
            -- right; right. split; [reflexivity|]. exists l1. rewrite E1. cbn. rewrite Cl1. auto.
          * cbn. apply incl_app; assumption.
        + (* second referenced *)
          apply bind_some in H. destruct H as (st1 & R & H). inversion H; subst st'; clear H.
          destruct (Hrec _ _ _ _ _ _ C1 I R) as [(I1 & M & G & (l1 & rest1 & E1 & Cl1 & K1 & _) & L) _].
          destruct (map_cite _ _ _ _ _ _ I1 C2 (line_ref_mono _ _ _ _ M L2)) as [A2 B2].
          apply HSpec_push_after; [exact I1|exact M|exact G|discriminate| | |].
          * cbn. intros r' t' [X|[]]. inversion X; subst. exact A2.
          * apply sound_general; [prev_tac|]. intros a Ha. destruct (Hc a Ha) as [X|X].
            -- right; right. split; [reflexivity|]. exists l1. rewrite E1. cbn. rewrite Cl1. auto.
            -- right; left. exists r2, ts2. split; [now left|exact X].
          * cbn. apply incl_app; assumption.
        + (* none referenced *)
          apply bind_some in H. destruct H as (st1 & R & H).
          destruct (Hrec _ _ _ _ _ _ C1 I R) as [(I1 & M1 & G1 & (l1 & rest1 & E1 & Cl1 & K1 & N1) & Lv1) Sh1].
          destruct sh1 as [id1|].
          * (* shared first cause: blank line, then the current node again *)
            pose proof (Inv_push_blank _ I1) as Ib.
            destruct (Hrec _ _ _ _ _ _ C Ib H) as [(I2 & M2 & G2 & P2 & L2') _].
            split; [exact I2|split; [|split; [|split; [exact P2|exact L2']]]].
            -- eapply mono_trans; [exact M1|]. intros id n Q. apply M2. exact Q.
            -- eapply grows_trans; [apply grows_push_after, G1|exact G2].
          * (* unshared first cause: number its line, blank line, explain the second, cite the number *)
            destruct N1 as [N1|(id & n & X & _)]; [|discriminate].
            pose proof (Inv_add_line_ref _ _ _ I1 E1 N1) as Ia.
            set (sta := add_line_ref st1) in *.
            pose proof (Inv_push_blank _ Ia) as Ib.
            apply bind_some in H. destruct H as (st4 & R4 & H). inversion H; subst st'; clear H.
            destruct (Hrec _ _ _ _ _ _ C2 Ib R4) as [(I4 & M4 & G4 & (l4 & rest4 & E4 & Cl4 & K4 & _) & L4) _].
            assert (Ga : grows st sta) by (apply grows_add_line_ref, G1).
            assert (Gb : grows sta st4) by (eapply grows_trans; [apply grows_push|exact G4]).
            apply HSpec_push_after; [exact I4| | |discriminate| | |].
            -- eapply mono_trans; [exact M1|]. intros id n Q. apply M4. exact Q.
            -- eapply grows_trans; eassumption.
            -- cbn. intros r' t' [X|[]]. inversion X; subst r' t'. clear X.
               exists (add_num l1 (S (ref_count st1))). split; [|split].
               ++ apply (grows_in _ _ _ Gb). unfold sta, add_line_ref. cbn. rewrite E1. now left.
               ++ cbn. apply in_or_app. right. now left.
               ++ exact Cl1.
            -- apply sound_general; [prev_tac|]. intros a Ha. destruct (Hc a Ha) as [X|X].
               ++ right; left. exists (ref_count sta), ts1. split; [now left|exact X].
               ++ right; right. split; [reflexivity|]. exists l4. rewrite E4. cbn. rewrite Cl4. auto.
            -- cbn. apply incl_app; [|exact L4].
               intros x Hx. apply (grows_exts _ _ Gb). unfold sta, add_line_ref. cbn. rewrite E1.
               rewrite E1 in Lv1. unfold cited_exts in *. cbn in *. apply Lv1, Hx.
    Qed.
  End OneLevelProofs.

  Lemma build_recursive_spec : forall fuel, RecSpec (build_recursive fuel).
  Proof.
    induction fuel as [|fuel IH]; intros ts sh c1 c2 st st' C I H; [discriminate|].
    cbn [build_recursive] in H. apply bind_some in H. destruct H as (st1 & Hh & H).
    pose proof (helper_spec _ IH _ _ _ _ _ _ C I Hh) as (I1 & M & G & (l & rest & E & Cl & K & N) & Lv).
    destruct sh as [id|].
    - destruct (lookup id (shared_with_ref st1)) as [n|] eqn:Q.
      + inversion H; subst st'; clear H. split.
        * split; [exact I1|split; [exact M|split; [exact G|split; [|exact Lv]]]]. exists l, rest. auto.
        * intros id' X. inversion X; subst. congruence.
      + inversion H; subst st'; clear H.
        destruct N as [N|(id' & n & X & Y)]; [|inversion X; subst; congruence].
        pose proof (Inv_add_line_ref _ _ _ I1 E N) as Ia.
        destruct C as ((Cid & _) & _ & _). specialize (Cid id eq_refl).
        assert (Ii : Inv (insert_shared (add_line_ref st1) id (ref_count (add_line_ref st1)))).
        { eapply Inv_insert with (l := add_num l (S (ref_count st1))); auto.
          - unfold add_line_ref. cbn. rewrite E. reflexivity.
          - cbn. apply in_or_app. right. now left.
          - cbn. rewrite Cid. exact Cl.
          - rewrite Cid. cbn [snd]. unfold add_line_ref. cbn. rewrite E.
            rewrite E in Lv. unfold cited_exts in *. cbn in *. exact Lv. }
        split.
        * split; [exact Ii|split; [|split; [|split]]].
          -- intros id' n' X. cbn. destruct (Nat.eqb id' id) eqn:Q'.
             ++ apply Nat.eqb_eq in Q'. subst id'. apply M in X. congruence.
             ++ apply M, X.
          -- apply grows_insert, grows_add_line_ref, G.
          -- unfold add_line_ref. cbn. rewrite E. eexists _, _. split; [reflexivity|]. cbn.
             split; [exact Cl|]. split; [exact K|]. right. exists id, (S (ref_count st1)). split; [reflexivity|].
             now rewrite Nat.eqb_refl.
          -- unfold add_line_ref. cbn. rewrite E. rewrite E in Lv. unfold cited_exts in *. cbn in *. exact Lv.
        * intros id' X. inversion X; subst. cbn. now rewrite Nat.eqb_refl.
    - inversion H; subst st'; clear H. split.
      + split; [exact I1|split; [exact M|split; [exact G|split; [|exact Lv]]]]. exists l, rest. auto.
      + intros id X. discriminate.
  Qed.

  (* ------------------------------------------------------------ reading the invariants off the final list *)
  Lemma refs_ok_split ls :
    refs_ok ls -> forall newer s older, ls = newer ++ s :: older ->
    forall r t, In (r, t) (cited (s_kind s)) -> exists s', In s' older /\ In r (s_nums s') /\ s_concl s' = t.
  Proof.
    induction ls as [|x ls IH]; intros H newer s older E.
    - destruct newer; discriminate.
    - destruct newer as [|y newer]; cbn in E; inversion E; subst.
      + exact (proj1 H).
      + eapply IH; [exact (proj2 H)|reflexivity].
  Qed.

  Lemma steps_sound_split ls :
    steps_sound ls -> forall newer s older, ls = newer ++ s :: older -> step_sound s (hd_error older).
  Proof.
    induction ls as [|x ls IH]; intros H newer s older E.
    - destruct newer; discriminate.
    - destruct newer as [|y newer]; cbn in E; inversion E; subst.
      + exact (proj1 H).
      + eapply IH; [exact (proj2 H)|reflexivity].
  Qed.

  Lemma rev_split (ls : list step) l1 s l2 : rev ls = l1 ++ s :: l2 -> ls = rev l2 ++ s :: rev l1.
  Proof.
    intros E. apply (f_equal (@rev step)) in E. rewrite rev_involutive in E. rewrite E.
    rewrite rev_app_distr. cbn. now rewrite <- app_assoc.
  Qed.

  Lemma in_nums_of (ls : list step) s r : In s ls -> In r (s_nums s) -> In r (nums_of ls).
  Proof.
    intros H1 H2. unfold nums_of. apply in_concat. exists (s_nums s). split; [|exact H2].
    apply in_map. exact H1.
  Qed.

  Lemma single_num (s : step) r : length (s_nums s) <= 1 -> In r (s_nums s) -> s_nums s = [r].
  Proof.
    destruct (s_nums s) as [|x [|y l]]; cbn; intros L H.
    - destruct H.
    - destruct H as [->|[]]. reflexivity.
    - lia.
  Qed.

  (* the six clauses of C08 about a list of steps (oldest first) produced for the tree t *)
  Record report_ok (t : dtree) (l : list step) : Prop := {
    (* numbers are assigned consecutively from 1, in order of appearance *)
    ok_consecutive : nums_of l = seq 1 (length (nums_of l));
    (* a line carries at most one number *)
    ok_one_number : Forall (fun s : step => length (s_nums s) <= 1) l;
    (* every reference points to exactly one line carrying that number; the line is earlier and concludes the cited terms *)
    ok_refs : forall l1 s l2 r tr, l = l1 ++ s :: l2 -> In (r, tr) (cited (s_kind s)) ->
        exists la s' lb, l1 = la ++ s' :: lb /\ s_nums s' = [r] /\ s_concl s' = tr
                         /\ forall s'', In s'' (la ++ lb ++ s :: l2) -> ~ In r (s_nums s'');
    (* each step's conclusion is entailed by the premises it cites (the preceding line = last line of l1) *)
    ok_sound : forall l1 s l2, l = l1 ++ s :: l2 -> step_sound s (hd_error (rev l1));
    (* every external fact of the tree is cited *)
    ok_covers : incl (leaves t) (cited_exts l);
    (* the last step concludes the top node *)
    ok_last : exists l0 s, l = l0 ++ [s] /\ s_kind s <> KBlank
        /\ match t with TDerived ts _ _ _ => s_concl s = ts | TExternal e => s_kind s = KOnlyExternal e end;
  }.

  Lemma cited_exts_rev (ls : list step) x : In x (cited_exts ls) -> In x (cited_exts (rev ls)).
  Proof.
    unfold cited_exts. rewrite !in_flat_map. intros (s & H1 & H2). exists s. split; [|exact H2].
    now apply in_rev in H1.
  Qed.

  Theorem report_ok_proof t l : consistent F t -> report_steps t = RSteps l -> report_ok t l.
  Proof.
    intros C H. unfold report_steps, report_with_fuel in H. destruct t as [e|ts sh c1 c2].
    - inversion H; subst l; clear H. constructor.
      + reflexivity.
      + constructor; [cbn; lia|constructor].
      + intros l1 s l2 r tr E Hc. destruct l1 as [|y l1]; cbn in E; inversion E; subst.
        * destruct Hc.
        * destruct l1; discriminate.
      + intros l1 s l2 E. destruct l1 as [|y l1]; cbn in E; inversion E; subst.
        * split; [discriminate|]. right; left. eexists; reflexivity.
        * destruct l1; discriminate.
      + cbn. intros x Hx. exact Hx.
      + exists [], {| s_kind := KOnlyExternal e; s_concl := []; s_nums := [] |}. cbn.
        split; [reflexivity|]. split; [discriminate|reflexivity].
    - destruct (build_recursive _ ts sh c1 c2 rstate_new) as [st|] eqn:B; [|discriminate].
      inversion H; subst l; clear H.
      destruct (build_recursive_spec _ _ _ _ _ _ _ C Inv_new B)
        as [(I & _ & _ & (l0 & rest & E & Cl & K & _) & Lv) _].
      assert (ND : NoDup (nums_of (rev (lines st)))) by (rewrite (inv_nums _ I); apply seq_NoDup).
      pose proof (inv_one _ I) as One. rewrite Forall_forall in One.
      constructor.
      + rewrite (inv_nums _ I), seq_length. reflexivity.
      + apply Forall_rev. exact (inv_one _ I).
      + intros l1 s l2 r tr E0 Hc. pose proof (rev_split _ _ _ _ E0) as E1.
        destruct (refs_ok_split _ (inv_refs _ I) _ _ _ E1 r tr Hc) as (s' & In1 & In2 & Cs).
        apply in_rev in In1. destruct (in_split _ _ In1) as (la & lb & ->).
        exists la, s', lb. split; [reflexivity|]. split; [|split; [exact Cs|]].
        * apply single_num; [|exact In2]. apply One. rewrite E1. apply in_or_app. right. right.
          apply -> in_rev. apply in_or_app. right. now left.
        * intros s'' Hs Hr. rewrite E0 in ND.
          replace ((la ++ s' :: lb) ++ s :: l2) with (la ++ s' :: (lb ++ s :: l2)) in ND
            by (now rewrite <- app_assoc).
          rewrite nums_of_app in ND. change (s' :: lb ++ s :: l2) with ([s'] ++ (lb ++ s :: l2)) in ND.
          rewrite nums_of_app, nums_of_single in ND.
          rewrite (single_num s' r) in ND; [|apply One; rewrite E1; apply in_or_app; right; right;
            apply -> in_rev; apply in_or_app; right; now left|exact In2].
          cbn [app] in ND. apply NoDup_remove_2 in ND. apply ND.
          apply in_app_or in Hs. apply in_or_app. destruct Hs as [Hs|Hs].
          -- left. eapply in_nums_of; eassumption.
          -- right. eapply in_nums_of; eassumption.
      + intros l1 s l2 E0. pose proof (rev_split _ _ _ _ E0) as E1.
        exact (steps_sound_split _ (inv_sound _ I) _ _ _ E1).
      + cbn [leaves]. intros x Hx. apply cited_exts_rev, Lv, Hx.
      + exists (rev rest), l0. rewrite E. cbn. auto.
  Qed.

End Reporter.

(* ====================================================================================================
   The fuel of report_steps is sufficient: the reporter model is total.
   ==================================================================================================== *)
Section Totality.
  Context {VS Vr : Type}.
  Notation tm := (term VS).
  Notation terms := (list (pkg * tm)).
  Notation dtree := (@tree VS Vr).
  Notation rstate := (@rstate VS Vr).

  Fixpoint height (t : dtree) : nat :=
    match t with
    | TExternal _ => 0
    | TDerived _ _ c1 c2 => S (Nat.max (height c1) (height c2))
    end.

  Definition shared_of (t : dtree) : option nat :=
    match t with TDerived _ sh _ _ => sh | TExternal _ => None end.

  (* a shared node has a line reference once build_recursive returns *)
  Lemma build_recursive_marks fuel ts id c1 c2 (st st' : rstate) :
    build_recursive fuel ts (Some id) c1 c2 st = Some st' -> lookup id (shared_with_ref st') <> None.
  Proof.
    destruct fuel as [|fuel]; [discriminate|]. cbn [build_recursive]. intros H.
    destruct (build_recursive_helper (build_recursive fuel) ts (Some id) c1 c2 st) as [st1|]; [|discriminate].
    cbn in H. destruct (lookup id (shared_with_ref st1)) eqn:Q; inversion H; subst.
    - congruence.
    - cbn. now rewrite Nat.eqb_refl.
  Qed.

  Definition total_upto (f : nat) (rec : terms -> option nat -> dtree -> dtree -> rstate -> option rstate) : Prop :=
    forall ts sh c1 c2 st,
      (2 * height (TDerived ts sh c1 c2) <= f
       \/ (2 * height (TDerived ts sh c1 c2) <= S f /\ is_derived c1 = true /\ is_derived c2 = true
           /\ line_ref_of st (shared_of c1) <> None)) ->
      exists st', rec ts sh c1 c2 st = Some st'.

  Lemma build_recursive_total : forall fuel, total_upto fuel (build_recursive fuel).
  Proof.
    induction fuel as [|f IH]; intros ts sh c1 c2 st Hf.
    - exfalso. cbn [height] in Hf. lia.
    - cbn [build_recursive].
      assert (Hh : exists st1, build_recursive_helper (build_recursive f) ts sh c1 c2 st = Some st1).
      { unfold build_recursive_helper.
        destruct c1 as [e1|ts1 sh1 a1 b1], c2 as [e2|ts2 sh2 a2 b2]; cbn [height is_derived shared_of] in Hf.
        - eauto.
        - (* (External, Derived) *)
          destruct Hf as [Hf|(_ & X & _)]; [|discriminate].
          unfold report_one_each. destruct (line_ref_of st sh2); [eauto|].
          unfold report_recurse_one_each.
          destruct a2 as [pe|pts psh pa pb], b2 as [pe2|pts2 psh2 pa2 pb2]; cbn [height] in Hf.
          + destruct (IH ts2 sh2 (TExternal pe) (TExternal pe2) st) as (s1 & ->); [left; cbn [height]; lia|cbn; eauto].
          + destruct (IH pts2 psh2 pa2 pb2 st) as (s1 & ->); [left; cbn [height]; lia|cbn; eauto].
          + destruct (IH pts psh pa pb st) as (s1 & ->); [left; cbn [height]; lia|cbn; eauto].
          + destruct (IH ts2 sh2 (TDerived pts psh pa pb) (TDerived pts2 psh2 pa2 pb2) st) as (s1 & ->);
              [left; cbn [height]; lia|cbn; eauto].
        - (* (Derived, External) *)
          destruct Hf as [Hf|(_ & _ & X & _)]; [|discriminate].
          unfold report_one_each. destruct (line_ref_of st sh1); [eauto|].
          unfold report_recurse_one_each.
          destruct a1 as [pe|pts psh pa pb], b1 as [pe2|pts2 psh2 pa2 pb2]; cbn [height] in Hf.
          + destruct (IH ts1 sh1 (TExternal pe) (TExternal pe2) st) as (s1 & ->); [left; cbn [height]; lia|cbn; eauto].
          + destruct (IH pts2 psh2 pa2 pb2 st) as (s1 & ->); [left; cbn [height]; lia|cbn; eauto].
          + destruct (IH pts psh pa pb st) as (s1 & ->); [left; cbn [height]; lia|cbn; eauto].
          + destruct (IH ts1 sh1 (TDerived pts psh pa pb) (TDerived pts2 psh2 pa2 pb2) st) as (s1 & ->);
              [left; cbn [height]; lia|cbn; eauto].
        - (* (Derived, Derived) *)
          destruct (line_ref_of st sh1) as [r1|] eqn:L1.
          + destruct (line_ref_of st sh2) as [r2|]; [eauto|].
            destruct (IH ts2 sh2 a2 b2 st) as (s1 & ->); [left; cbn [height] in *; lia|cbn; eauto].
          + destruct Hf as [Hf|(_ & _ & _ & X)]; [|congruence].
            destruct (line_ref_of st sh2) as [r2|].
            * destruct (IH ts1 sh1 a1 b1 st) as (s1 & ->); [left; cbn [height] in *; lia|cbn; eauto].
            * destruct (IH ts1 sh1 a1 b1 st) as (s1 & E1); [left; cbn [height] in *; lia|]. rewrite E1. cbn [bind].
              destruct sh1 as [id1|].
              -- apply IH. right. split; [cbn [height] in *; lia|]. split; [reflexivity|]. split; [reflexivity|].
                 cbn. exact (build_recursive_marks _ _ _ _ _ _ _ E1).
              -- destruct (IH ts2 sh2 a2 b2 (push (add_line_ref s1) KBlank [])) as (s2 & ->);
                   [left; cbn [height] in *; lia|cbn; eauto]. }
      destruct Hh as (st1 & ->). cbn [bind].
      destruct sh as [id|]; [|eauto]. destruct (lookup id (shared_with_ref st1)); eauto.
  Qed.

  Lemma height_le_size (t : dtree) : height t <= tree_size t.
  Proof. induction t; cbn; lia. Qed.

  Theorem report_total_proof : forall t : dtree, exists l, report_steps t = RSteps l.
  Proof.
    intros t. unfold report_steps, report_with_fuel. destruct t as [e|ts sh c1 c2]; [eauto|].
    destruct (build_recursive_total (2 * tree_size (TDerived ts sh c1 c2) + 2) ts sh c1 c2 rstate_new) as (st & ->).
    - left. pose proof (height_le_size (TDerived ts sh c1 c2)). lia.
    - eauto.
  Qed.
End Totality.

(* ====================================================================================================
   The abstract entailment instantiated: truth of incompatibilities over assignments of versions,
   on any admissible set of assignments (all of them; or those selecting existing versions only).
   ==================================================================================================== *)
Section Concrete.
  Context {VS Vr : Type} (O : VSOps VS Vr).
  Notation tm := (term VS).
  Notation terms := (list (pkg * tm)).
  Notation dtree := (@tree VS Vr).
  Notation ext := (@external VS Vr).
  Notation step := (@step VS Vr).

  (* the incompatibility an external fact stands for (the constructors of Model/Solver.v) *)
  Definition ext_terms (e : ext) : terms :=
    match e with
    | XNotRoot p v => Solver.terms (not_root O p v)
    | XNoVersions p s => [(p, Pos s)]
    | XFromDep p s q t => Solver.terms (from_dependency O p s (q, t))
    | XCustom p s _ => [(p, Pos s)]
    end.

  Definition node_terms (t : dtree) : terms :=
    match t with TExternal e => ext_terms e | TDerived ts _ _ _ => ts end.

  Variable adm : @assignment Vr -> Prop.

  (* on admissible assignments: whenever all terms of [concl] are true, all terms of some premise are true
     (equivalently: the incompatibility concl holds wherever all premises hold) *)
  Definition entailed_on (concl : terms) (premises : list terms) : Prop :=
    forall a, adm a -> violates O a concl -> exists pr, In pr premises /\ violates O a pr.

  Fixpoint locally_entailed (t : dtree) : Prop :=
    match t with
    | TExternal _ => True
    | TDerived ts _ c1 c2 =>
        entailed_on ts [node_terms c1; node_terms c2] /\ locally_entailed c1 /\ locally_entailed c2
    end.

  Fixpoint shared_consistent (F : nat -> terms * list ext) (t : dtree) : Prop :=
    match t with
    | TExternal _ => True
    | TDerived ts sh c1 c2 =>
        (forall id, sh = Some id -> F id = (ts, leaves c1 ++ leaves c2))
        /\ shared_consistent F c1 /\ shared_consistent F c2
    end.

  (* everything a line cites *)
  Definition premises_of (s : step) (prev : option step) : list terms :=
    map ext_terms (step_exts (s_kind s)) ++ map snd (cited (s_kind s))
    ++ (if uses_prev (s_kind s) then match prev with Some p => [s_concl p] | None => [] end else []).

  Definition is_explain (s : step) : bool :=
    match s_kind s with KBlank | KOnlyExternal _ => false | _ => true end.

  Let A := sig adm.
  Let sat (a : A) (ts : terms) : Prop := violates O (proj1_sig a) ts.
  Let esat (a : A) (e : ext) : Prop := violates O (proj1_sig a) (ext_terms e).

  Lemma consistent_concrete F t :
    shared_consistent F t -> locally_entailed t -> consistent A sat esat F t.
  Proof.
    induction t as [e|ts sh c1 IH1 c2 IH2]; [constructor|].
    intros (S0 & S1 & S2) (E0 & E1 & E2). cbn. split; [split; [exact S0|]|split; auto].
    intros [a Ha] Hs. unfold sat in Hs. cbn in Hs.
    destruct (E0 a Ha Hs) as (pr & [<-|[<-|[]]] & V).
    - left. destruct c1; exact V.
    - right. destruct c2; exact V.
  Qed.

  Lemma consistent_trivial F t :
    shared_consistent F t -> consistent unit (fun _ _ => False) (fun _ _ => False) F t.
  Proof.
    induction t as [e|ts sh c1 IH1 c2 IH2]; [constructor|].
    intros (S0 & S1 & S2). cbn. split; [split; [exact S0|intros a []]|split; auto].
  Qed.

  Theorem report_sound_concrete F t l :
    shared_consistent F t -> locally_entailed t -> report_steps t = RSteps l ->
    forall l1 s l2, l = l1 ++ s :: l2 -> is_explain s = true ->
      (uses_prev (s_kind s) = true -> exists p, hd_error (rev l1) = Some p /\ s_kind p <> KBlank)
      /\ entailed_on (s_concl s) (premises_of s (hd_error (rev l1))).
  Proof.
    intros S E H l1 s l2 El Hx.
    pose proof (report_ok_proof A sat esat F t l (consistent_concrete F t S E) H) as OK.
    destruct (ok_sound _ _ _ _ _ OK l1 s l2 El) as [P0 P1]. split; [exact P0|].
    destruct P1 as [B|[(e & B)|P1]]; [unfold is_explain in Hx; rewrite B in Hx; discriminate ..|].
    intros a Ha V. destruct (P1 (exist _ a Ha) V) as [(e & I1 & V1)|[(r & tr & I1 & V1)|(U & p & Ep & _ & V1)]].
    - exists (ext_terms e). split; [|exact V1]. unfold premises_of. apply in_or_app. left. now apply in_map.
    - exists tr. split; [|exact V1]. unfold premises_of. apply in_or_app. right. apply in_or_app. left.
      change tr with (snd (r, tr)). now apply in_map.
    - exists (s_concl p). split; [|exact V1]. unfold premises_of. apply in_or_app. right. apply in_or_app. right.
      rewrite U, Ep. now left.
  Qed.
End Concrete.

(* ====================================================================================================
   C09, semantic clause: collapse_no_versions keeps the tree a valid explanation on the admissible
   assignments, when no admissible assignment selects a version inside a NoVersions set
   ("only versions that actually exist are considered").
   ==================================================================================================== *)
Section CollapseSem.
  Context {VS Vr : Type} (O : VSOps VS Vr) (L : VSLawful O).
  Notation tm := (term VS).
  Notation terms := (list (pkg * tm)).
  Notation dtree := (@tree VS Vr).
  Notation ext := (@external VS Vr).
  Notation fired := (violates O).
  Notation wfs := (wf O L).

  Variable adm : @assignment Vr -> Prop.

  (* no admissible assignment selects a version of p inside Sv *)
  Definition absent (p : pkg) (Sv : VS) : Prop :=
    forall a, adm a -> forall v, a p = Some v -> vs_contains O Sv v = false.

  (* every NoVersions leaf is true on the admissible assignments *)
  Fixpoint nv_true (t : dtree) : Prop :=
    match t with
    | TExternal (XNoVersions p Sv) => absent p Sv
    | TExternal _ => True
    | TDerived _ _ c1 c2 => nv_true c1 /\ nv_true c2
    end.

  (* the version sets of NoVersions and dependency leaves are well-formed (canonical) *)
  Fixpoint tree_wf (t : dtree) : Prop :=
    match t with
    | TExternal (XNoVersions _ Sv) => wfs Sv
    | TExternal (XFromDep _ r1 _ r2) => wfs r1 /\ wfs r2
    | TExternal _ => True
    | TDerived _ _ c1 c2 => tree_wf c1 /\ tree_wf c2
    end.

  (* a NoVersions(p) cause whose sibling collapses to a dependency leaf is about the dependent or the dependency *)
  Definition dep_ok (p : pkg) (r : @collapse_res VS Vr) : Prop :=
    match r with
    | CTree (TExternal (XFromDep p1 _ p2 _)) => p = p1 \/ p = p2
    | _ => True
    end.
  Fixpoint related (t : dtree) : Prop :=
    match t with
    | TExternal _ => True
    | TDerived _ _ c1 c2 =>
        (forall p Sv, c1 = TExternal (XNoVersions p Sv) -> dep_ok p (collapse_no_versions O c2))
        /\ (forall p Sv, c2 = TExternal (XNoVersions p Sv) -> dep_ok p (collapse_no_versions O c1))
        /\ related c1 /\ related c2
    end.

  Lemma sat_pos s c : sat_term O (Pos s) c = true <-> exists v, c = Some v /\ vs_contains O s v = true.
  Proof.
    destruct c as [v|]; cbn; split.
    - intros H. eauto.
    - intros (w & E & H). inversion E; subst. exact H.
    - discriminate.
    - intros (w & E & _). discriminate.
  Qed.

  Lemma fired_nv a p Sv : absent p Sv -> adm a -> ~ fired a [(p, Pos Sv)].
  Proof.
    intros Ab Ha V. specialize (V p (Pos Sv) (or_introl eq_refl)).
    apply sat_pos in V. destruct V as (v & E & C). rewrite (Ab a Ha v E) in C. discriminate.
  Qed.

  Lemma fired_one a p t : fired a [(p, t)] <-> sat_term O t (a p) = true.
  Proof.
    split.
    - intros V. apply (V p t). now left.
    - intros H q u [X|[]]. inversion X; subst. exact H.
  Qed.
  Lemma fired_two a p t q u :
    fired a [(p, t); (q, u)] <-> sat_term O t (a p) = true /\ sat_term O u (a q) = true.
  Proof.
    split.
    - intros V. split; [apply (V p t); now left|apply (V q u); right; now left].
    - intros [H1 H2] x y [X|[X|[]]]; inversion X; subst; assumption.
  Qed.

  (* widening a dependency leaf by an absent set keeps it fired wherever it was *)
  Lemma widen_fired p Sv p1 r1 p2 r2 a :
    absent p Sv -> wfs Sv -> wfs r1 -> wfs r2 -> (p = p1 \/ p = p2) -> adm a ->
    fired a (ext_terms O (XFromDep p1 r1 p2 r2)) ->
    match merge_no_versions O (TExternal (XFromDep p1 r1 p2 r2)) p Sv with
    | MMerged m => fired a (node_terms O m)
    | _ => False
    end.
  Proof.
    intros Ab WS W1 W2 Rel Ha V. cbn [merge_no_versions].
    destruct (N.eqb p1 p) eqn:Q; cbn [node_terms ext_terms from_dependency Solver.terms] in *.
    - (* the dependent side: a positive set only grows *)
      destruct (vs_eqb O r2 (vs_empty O)); [|destruct (N.eqb p1 p2)].
      + apply fired_one in V. apply fired_one. apply sat_pos in V. destruct V as (v & E & C).
        apply sat_pos. exists v. split; [exact E|]. rewrite (contains_union O L) by assumption. now rewrite C.
      + apply fired_one in V. apply fired_one. apply sat_pos in V. destruct V as (v & E & C).
        apply sat_pos. exists v. split; [exact E|].
        rewrite (contains_intersection O L) in * by (try apply (wf_complement O L); try apply (wf_union O L); assumption).
        apply andb_prop in C. destruct C as [C1 C2]. rewrite C2, (contains_union O L), C1 by assumption. reflexivity.
      + apply fired_two in V. destruct V as [V1 V2]. apply fired_two. split; [|exact V2].
        apply sat_pos in V1. destruct V1 as (v & E & C). apply sat_pos. exists v. split; [exact E|].
        rewrite (contains_union O L) by assumption. now rewrite C.
    - (* the dependency side: p = p2 <> p1 *)
      apply N.eqb_neq in Q. destruct Rel as [-> | ->]; [congruence|].
      assert (Q2 : N.eqb p1 p2 = false) by (apply N.eqb_neq; exact Q). rewrite Q2 in *.
      assert (NewNeg : forall c, (c = None \/ exists w, c = Some w /\ vs_contains O r2 w = false) ->
                c = a p2 -> sat_term O (Neg (vs_union O r2 Sv)) c = true).
      { intros c [->|(w & -> & C)] Ec; [reflexivity|]. cbn.
        rewrite (contains_union O L), C, (Ab a Ha w (eq_sym Ec)) by assumption. reflexivity. }
      destruct (vs_eqb O r2 (vs_empty O)) eqn:E2.
      + apply (vs_eqb_spec O L) in E2. subst r2.
        destruct (vs_eqb O (vs_union O (vs_empty O) Sv) (vs_empty O)); [exact V|].
        apply fired_one in V. apply fired_two. split; [exact V|].
        apply NewNeg; [|reflexivity]. destruct (a p2) as [w|]; [right|now left].
        exists w. split; [reflexivity|apply (contains_empty O L)].
      + apply fired_two in V. destruct V as [V1 V2].
        destruct (vs_eqb O (vs_union O r2 Sv) (vs_empty O)); [apply fired_one; exact V1|].
        apply fired_two. split; [exact V1|].
        apply NewNeg; [|reflexivity]. destruct (a p2) as [w|]; [right|now left].
        exists w. split; [reflexivity|]. cbn in V2. now apply negb_true_iff in V2.
  Qed.

  (* ... and conversely: the widened leaf is fired only where the original one was *)
  Lemma widen_fired_conv p Sv p1 r1 p2 r2 a :
    absent p Sv -> wfs Sv -> wfs r1 -> wfs r2 -> (p = p1 \/ p = p2) -> adm a ->
    match merge_no_versions O (TExternal (XFromDep p1 r1 p2 r2)) p Sv with
    | MMerged m => fired a (node_terms O m) -> fired a (ext_terms O (XFromDep p1 r1 p2 r2))
    | _ => False
    end.
  Proof.
    intros Ab WS W1 W2 Rel Ha. cbn [merge_no_versions].
    destruct (N.eqb p1 p) eqn:Q; cbn [node_terms ext_terms from_dependency Solver.terms] in *.
    - apply N.eqb_eq in Q. subst p.
      assert (Shrink : forall v, a p1 = Some v -> vs_contains O (vs_union O r1 Sv) v = true -> vs_contains O r1 v = true).
      { intros v E C. rewrite (contains_union O L), (Ab a Ha v E), orb_false_r in C by assumption. exact C. }
      destruct (vs_eqb O r2 (vs_empty O)); [|destruct (N.eqb p1 p2)]; intros V.
      + apply fired_one in V. apply fired_one. apply sat_pos in V. destruct V as (v & E & C).
        apply sat_pos. exists v. split; [exact E|exact (Shrink v E C)].
      + apply fired_one in V. apply fired_one. apply sat_pos in V. destruct V as (v & E & C).
        apply sat_pos. exists v. split; [exact E|].
        rewrite (contains_intersection O L) in * by (try apply (wf_complement O L); try apply (wf_union O L); assumption).
        apply andb_prop in C. destruct C as [C1 C2]. rewrite C2, (Shrink v E C1). reflexivity.
      + apply fired_two in V. destruct V as [V1 V2]. apply fired_two. split; [|exact V2].
        apply sat_pos in V1. destruct V1 as (v & E & C). apply sat_pos. exists v. split; [exact E|exact (Shrink v E C)].
    - apply N.eqb_neq in Q. destruct Rel as [-> | ->]; [congruence|].
      assert (Q2 : N.eqb p1 p2 = false) by (apply N.eqb_neq; exact Q). rewrite Q2 in *.
      assert (OldNeg : forall w, vs_contains O (vs_union O r2 Sv) w = false -> vs_contains O r2 w = false).
      { intros w C. rewrite (contains_union O L) in C by assumption. now apply orb_false_elim in C. }
      destruct (vs_eqb O r2 (vs_empty O)) eqn:E2.
      + destruct (vs_eqb O (vs_union O r2 Sv) (vs_empty O)); intros V; [exact V|].
        apply fired_two in V. apply fired_one. exact (proj1 V).
      + destruct (vs_eqb O (vs_union O r2 Sv) (vs_empty O)) eqn:E3; intros V.
        * apply (vs_eqb_spec O L) in E3. apply fired_one in V. apply fired_two. split; [exact V|].
          destruct (a p2) as [w|]; [|reflexivity]. cbn. apply negb_true_iff, OldNeg. rewrite E3.
          apply (contains_empty O L).
        * apply fired_two in V. destruct V as [V1 V2]. apply fired_two. split; [exact V1|].
          destruct (a p2) as [w|]; [|reflexivity]. cbn in *. apply negb_true_iff in V2.
          apply negb_true_iff, OldNeg, V2.
  Qed.

  Lemma merge_wf t p Sv m :
    tree_wf t -> wfs Sv -> merge_no_versions O t p Sv = MMerged m -> tree_wf m.
  Proof.
    destruct t as [[]|]; cbn; intros W WS H; try discriminate.
    - destruct (N.eqb p0 p); inversion H; subst; cbn; destruct W; split; auto; now apply (wf_union O L).
    - inversion H; subst. exact W.
  Qed.

  Lemma merge_nv_true t p Sv m :
    nv_true t -> merge_no_versions O t p Sv = MMerged m -> nv_true m.
  Proof.
    destruct t as [[]|]; cbn; intros W H; try discriminate.
    - destruct (N.eqb p0 p); inversion H; subst; exact I.
    - inversion H; subst. exact W.
  Qed.

  (* what one NoVersions arm of collapse establishes *)
  Lemma arm_sem ts sh p Sv other other' self_now t' :
    absent p Sv -> wfs Sv ->
    (* the node follows from NoVersions(p,Sv) and [other] *)
    (forall a, adm a -> fired a ts -> fired a (node_terms O other)) ->
    (* induction hypothesis for [other] *)
    locally_entailed O adm other' -> nv_true other' -> tree_wf other' ->
    (forall a, adm a -> fired a (node_terms O other) -> fired a (node_terms O other')) ->
    dep_ok p (CTree other') ->
    (* self with the collapsed cause written back *)
    (self_now = TDerived ts sh (TExternal (XNoVersions p Sv)) other'
     \/ self_now = TDerived ts sh other' (TExternal (XNoVersions p Sv))) ->
    merge_or_keep O other' p Sv self_now = CTree t' ->
    locally_entailed O adm t' /\ nv_true t' /\ tree_wf t'
    /\ forall a, adm a -> fired a ts -> fired a (node_terms O t').
  Proof.
    intros Ab WS En LE NT WF Imp Rel Self H. unfold merge_or_keep in H.
    destruct (merge_no_versions O other' p Sv) as [m| |] eqn:M; inversion H; subst t'; clear H.
    - (* merged *)
      split; [|split; [exact (merge_nv_true _ _ _ _ NT M)|split; [exact (merge_wf _ _ _ _ WF WS M)|]]].
      + destruct other' as [[]|]; cbn in M; try discriminate.
        * destruct (N.eqb p0 p); inversion M; subst; exact I.
        * inversion M; subst. exact LE.
      + intros a Ha V. pose proof (Imp a Ha (En a Ha V)) as V'.
        destruct other' as [[q v|q s|p1 r1 p2 r2|q s mm]|ots osh oc1 oc2]; cbn in M; try discriminate.
        * cbn in WF, Rel. destruct WF as [W1 W2].
          pose proof (widen_fired p Sv p1 r1 p2 r2 a Ab WS W1 W2 Rel Ha V') as X.
          cbn [merge_no_versions] in X. destruct (N.eqb p1 p); inversion M; subst; exact X.
        * inversion M; subst. exact V'.
    - (* not mergeable: the node is kept *)
      assert (E2 : forall a, adm a -> fired a ts -> fired a (node_terms O other'))
        by (intros a Ha V; exact (Imp a Ha (En a Ha V))).
      destruct Self as [->| ->]; cbn.
      + split; [split; [|split; [exact I|exact LE]]|split; [split; [exact Ab|exact NT]|split; [split; [exact WS|exact WF]|auto]]].
        intros a Ha V. exists (node_terms O other'). split; [right; now left|exact (E2 a Ha V)].
      + split; [split; [|split; [exact LE|exact I]]|split; [split; [exact NT|exact Ab]|split; [split; [exact WF|exact WS]|auto]]].
        intros a Ha V. exists (node_terms O other'). split; [now left|exact (E2 a Ha V)].
  Qed.

  Theorem collapse_sem_proof :
    forall t t', nv_true t -> tree_wf t -> related t -> locally_entailed O adm t ->
      collapse_no_versions O t = CTree t' ->
      locally_entailed O adm t' /\ nv_true t' /\ tree_wf t'
      /\ forall a, adm a -> fired a (node_terms O t) -> fired a (node_terms O t').
  Proof.
    induction t as [e|ts sh c1 IH1 c2 IH2]; intros t' NT WF Rel LE H.
    - inversion H; subst. auto.
    - destruct NT as [NT1 NT2]. destruct WF as [WF1 WF2]. destruct Rel as (R1 & R2 & Rel1 & Rel2).
      destruct LE as (En & LE1 & LE2). cbn [node_terms].
      destruct (causes_cases c1 c2) as [(p & Sv & ->)|[(N1 & p & Sv & ->)|(N1 & N2)]].
      + rewrite collapse_nv_left in H. specialize (R1 p Sv eq_refl).
        destruct (collapse_no_versions O c2) as [c2'|] eqn:E2; [|discriminate].
        destruct (IH2 c2' NT2 WF2 Rel2 LE2 eq_refl) as (A1 & A2 & A3 & A4).
        eapply arm_sem with (other := c2); try eassumption; [|left; reflexivity].
        intros a Ha V. destruct (En a Ha V) as (pr & [<-|[<-|[]]] & V'); [|exact V'].
          exfalso. exact (fired_nv a p Sv NT1 Ha V').
      + rewrite collapse_nv_right in H by exact N1. specialize (R2 p Sv eq_refl).
        destruct (collapse_no_versions O c1) as [c1'|] eqn:E1; [|discriminate].
        destruct (IH1 c1' NT1 WF1 Rel1 LE1 eq_refl) as (A1 & A2 & A3 & A4).
        eapply arm_sem with (other := c1); try eassumption; [|right; reflexivity].
        intros a Ha V. destruct (En a Ha V) as (pr & [<-|[<-|[]]] & V'); [exact V'|].
          exfalso. exact (fired_nv a p Sv NT2 Ha V').
      + rewrite collapse_other in H by assumption.
        destruct (collapse_no_versions O c1) as [c1'|] eqn:E1; [|discriminate].
        destruct (collapse_no_versions O c2) as [c2'|] eqn:E2; [|discriminate].
        inversion H; subst t'; clear H.
        destruct (IH1 c1' NT1 WF1 Rel1 LE1 eq_refl) as (A1 & A2 & A3 & A4).
        destruct (IH2 c2' NT2 WF2 Rel2 LE2 eq_refl) as (B1 & B2 & B3 & B4).
        cbn. split; [split; [|split; assumption]|split; [split; assumption|split; [split; assumption|auto]]].
        intros a Ha V. destruct (En a Ha V) as (pr & [<-|[<-|[]]] & V').
        * exists (node_terms O c1'). split; [now left|exact (A4 a Ha V')].
        * exists (node_terms O c2'). split; [right; now left|exact (B4 a Ha V')].
  Qed.

  (* every leaf of the collapsed tree is a leaf of the original tree, or a dependency leaf that is fired by
     exactly the same admissible assignments as a dependency leaf of the original tree: what was true of the
     provider stays true when only existing versions are considered *)
  Definition leaf_equiv (e e' : ext) : Prop :=
    forall a, adm a -> (fired a (ext_terms O e) <-> fired a (ext_terms O e')).

  Lemma leaf_equiv_refl e : leaf_equiv e e.
  Proof. intros a _. reflexivity. Qed.

  Definition leaves_preserved (t t' : dtree) : Prop :=
    forall e', In e' (leaves t') -> exists e, In e (leaves t) /\ leaf_equiv e e'.

  Lemma arm_leaves p Sv (other' self_now t' : dtree) (lv : list ext) :
    absent p Sv -> wfs Sv -> tree_wf other' -> dep_ok p (CTree other') ->
    (forall e', In e' (leaves other') -> exists e, In e lv /\ leaf_equiv e e') ->
    (forall e', In e' (leaves self_now) -> exists e, In e lv /\ leaf_equiv e e') ->
    merge_or_keep O other' p Sv self_now = CTree t' ->
    forall e', In e' (leaves t') -> exists e, In e lv /\ leaf_equiv e e'.
  Proof.
    intros Ab WS WF Rel Ho Hs H. unfold merge_or_keep in H.
    destruct (merge_no_versions O other' p Sv) as [m| |] eqn:M; inversion H; subst t'; clear H; [|exact Hs].
    destruct other' as [[q v|q s|p1 r1 p2 r2|q s mm]|ots osh oc1 oc2]; cbn in M; try discriminate.
    - cbn in WF, Rel. destruct WF as [W1 W2].
      destruct (Ho (XFromDep p1 r1 p2 r2) (or_introl eq_refl)) as (e & Ie & Eq).
      intros e' He'. exists e. split; [exact Ie|]. intros a Ha. rewrite (Eq a Ha).
      pose proof (widen_fired p Sv p1 r1 p2 r2 a Ab WS W1 W2 Rel Ha) as X1.
      pose proof (widen_fired_conv p Sv p1 r1 p2 r2 a Ab WS W1 W2 Rel Ha) as X2.
      cbn [merge_no_versions] in X1, X2.
      destruct (N.eqb p1 p); inversion M; subst m; cbn in He'; destruct He' as [<-|[]]; split; assumption.
    - inversion M; subst m. exact Ho.
  Qed.

  Theorem collapse_leaves_proof :
    forall t t', nv_true t -> tree_wf t -> related t -> locally_entailed O adm t ->
      collapse_no_versions O t = CTree t' -> leaves_preserved t t'.
  Proof.
    induction t as [e|ts sh c1 IH1 c2 IH2]; intros t' NT WF Rel LE H.
    - inversion H; subst. intros e' He'. exists e'. split; [exact He'|apply leaf_equiv_refl].
    - destruct NT as [NT1 NT2]. destruct WF as [WF1 WF2]. destruct Rel as (R1 & R2 & Rel1 & Rel2).
      destruct LE as (En & LE1 & LE2).
      destruct (causes_cases c1 c2) as [(p & Sv & ->)|[(N1 & p & Sv & ->)|(N1 & N2)]].
      + rewrite collapse_nv_left in H. specialize (R1 p Sv eq_refl).
        destruct (collapse_no_versions O c2) as [c2'|] eqn:E2; [|discriminate].
        destruct (collapse_sem_proof c2 c2' NT2 WF2 Rel2 LE2 E2) as (_ & _ & A3 & _).
        pose proof (IH2 c2' NT2 WF2 Rel2 LE2 eq_refl) as P2.
        refine (arm_leaves p Sv c2' (TDerived ts sh (TExternal (XNoVersions p Sv)) c2') t'
                 (leaves (TDerived ts sh (TExternal (XNoVersions p Sv)) c2)) NT1 WF1 A3 R1 _ _ H).
        * intros e' He'. destruct (P2 e' He') as (e & Ie & Eq). exists e. split; [cbn; now right|exact Eq].
        * cbn. intros e' [<-|He']; [eexists; split; [now left|apply leaf_equiv_refl]|].
          destruct (P2 e' He') as (e & Ie & Eq). exists e. split; [now right|exact Eq].
      + rewrite collapse_nv_right in H by exact N1. specialize (R2 p Sv eq_refl).
        destruct (collapse_no_versions O c1) as [c1'|] eqn:E1; [|discriminate].
        destruct (collapse_sem_proof c1 c1' NT1 WF1 Rel1 LE1 E1) as (_ & _ & A3 & _).
        pose proof (IH1 c1' NT1 WF1 Rel1 LE1 eq_refl) as P1.
        refine (arm_leaves p Sv c1' (TDerived ts sh c1' (TExternal (XNoVersions p Sv))) t'
                 (leaves (TDerived ts sh c1 (TExternal (XNoVersions p Sv)))) NT2 WF2 A3 R2 _ _ H).
        * intros e' He'. destruct (P1 e' He') as (e & Ie & Eq). exists e. split; [cbn; apply in_or_app; now left|exact Eq].
        * cbn. intros e' He'. apply in_app_or in He'. destruct He' as [He'|[<-|[]]].
          -- destruct (P1 e' He') as (e & Ie & Eq). exists e. split; [apply in_or_app; now left|exact Eq].
          -- eexists. split; [apply in_or_app; right; now left|apply leaf_equiv_refl].
      + rewrite collapse_other in H by assumption.
        destruct (collapse_no_versions O c1) as [c1'|] eqn:E1; [|discriminate].
        destruct (collapse_no_versions O c2) as [c2'|] eqn:E2; [|discriminate].
        inversion H; subst t'; clear H. cbn. intros e' He'. apply in_app_or in He'. destruct He' as [He'|He'].
        * destruct (IH1 c1' NT1 WF1 Rel1 LE1 eq_refl e' He') as (e & Ie & Eq). exists e. split; [apply in_or_app; now left|exact Eq].
        * destruct (IH2 c2' NT2 WF2 Rel2 LE2 eq_refl e' He') as (e & Ie & Eq). exists e. split; [apply in_or_app; now right|exact Eq].
  Qed.
End CollapseSem.
