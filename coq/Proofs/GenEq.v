(* The Gallina text regenerated from the current Rust source by tools/translate.py (coq/Gen/*.v) is
   equal to the hand-written model.  An edit of a table entry of range.rs / term.rs / version_set.rs
   makes one of these proofs fail. *)
From Coq Require Import Orders List Bool.
From PG Require Import Model.Text Model.VS Model.Term Model.Range.
From PG Require Import Gen.RangeTables.

Module GenRangeEq (V : UsualOrderedTypeFull).
  Module G := GenRange V.
  Module Import M := RangeM V.

  (* the two functor instances of RangeM V are convertible (no inductive types inside RangeM) *)
  Lemma gen_valid_segment_eq s e : G.gen_valid_segment s e = valid_segment s e.
  Proof. destruct s, e; reflexivity. Qed.
  Lemma gen_end_before_start_with_gap_eq e s : G.gen_end_before_start_with_gap e s = end_before_start_with_gap e s.
  Proof. destruct e, s; reflexivity. Qed.
  Lemma gen_left_start_is_smaller_eq l r : G.gen_left_start_is_smaller l r = left_start_is_smaller l r.
  Proof. destruct l, r; reflexivity. Qed.
  Lemma gen_left_end_is_smaller_eq l r : G.gen_left_end_is_smaller l r = left_end_is_smaller l r.
  Proof. destruct l, r; reflexivity. Qed.
  Lemma gen_cmp_bounds_start_eq l r : G.gen_cmp_bounds_start l r = cmp_bounds_start l r.
  Proof. destruct l, r; reflexivity. Qed.
  Lemma gen_cmp_bounds_end_eq l r : G.gen_cmp_bounds_end l r = cmp_bounds_end l r.
  Proof. destruct l, r; reflexivity. Qed.
  Lemma gen_within_bounds_eq v sg : G.gen_within_bounds v sg = within_bounds v sg.
  Proof. destruct sg as [[?|?|] [?|?|]]; reflexivity. Qed.
  Lemma gen_acc_end_eq a s : G.gen_acc_end a s = acc_end a s.
  Proof. destruct a, s; reflexivity. Qed.
  Lemma gen_inter_start_eq l r : G.gen_inter_start l r = inter_start l r.
  Proof. destruct l, r; reflexivity. Qed.

  Theorem range_tables_match_source :
    (forall s e, G.gen_valid_segment s e = valid_segment s e)
    /\ (forall e s, G.gen_end_before_start_with_gap e s = end_before_start_with_gap e s)
    /\ (forall l r, G.gen_left_start_is_smaller l r = left_start_is_smaller l r)
    /\ (forall l r, G.gen_left_end_is_smaller l r = left_end_is_smaller l r)
    /\ (forall a s, G.gen_acc_end a s = acc_end a s)
    /\ (forall l r, G.gen_inter_start l r = inter_start l r).
  Proof.
    repeat split; auto using gen_valid_segment_eq, gen_end_before_start_with_gap_eq, gen_left_start_is_smaller_eq,
      gen_left_end_is_smaller_eq, gen_acc_end_eq, gen_inter_start_eq.
  Qed.

  Theorem range_cmp_tables_match_source :
    (forall l r, G.gen_cmp_bounds_start l r = cmp_bounds_start l r)
    /\ (forall l r, G.gen_cmp_bounds_end l r = cmp_bounds_end l r).
  Proof. split; auto using gen_cmp_bounds_start_eq, gen_cmp_bounds_end_eq. Qed.

  Theorem range_within_bounds_matches_source : forall v sg, G.gen_within_bounds v sg = within_bounds v sg.
  Proof. exact gen_within_bounds_eq. Qed.
End GenRangeEq.
