(* C13 (model side): an error answer of a provider callback is the LAST call of the run, and the run's
   outcome is the matching error carrying the queried package and version. *)
From Coq Require Import List NArith ZArith Bool Lia.
From PG Require Import Model.VS Model.Term Model.Solver Proofs.SolverTrace Proofs.SolverProtocol.
Import ListNotations.

Section Faults.
  Context {VS Vr : Type} (O : VSOps VS Vr) (veqb : Vr -> Vr -> bool).
  Notation event := (@event VS Vr).
  Notation outcome := (@outcome VS Vr).

  Definition is_err (e : event) : bool :=
    match e with
    | EvCancel false | EvChoose _ _ CErr | EvDeps _ _ DErr => true
    | _ => false
    end.
  Definition err_outcome (e : event) : option outcome :=
    match e with
    | EvCancel false => Some OErrCancel
    | EvChoose _ _ CErr => Some OErrChoose
    | EvDeps p v DErr => Some (OErrDeps p v)
    | _ => None
    end.

  Lemma is_nil_nil {A} (l : list A) : is_nil l = true -> l = [].
  Proof. destruct l; [reflexivity|discriminate]. Qed.

  (* in a trace accepted by the protocol scanner nothing follows an error answer *)
  Lemma shape_error_last : forall (pre : list event) ph added e rest,
    shape veqb ph added (pre ++ e :: rest) = true -> is_err e = true -> rest = [].
  Proof.
    induction pre as [|e0 pre IH]; intros ph added e rest H He.
    - cbn [app shape] in H.
      destruct ph as [| |q w]; destruct e as [[|]| |p s [v| |]|p v [d|m|]]; try discriminate; cbn in He; try discriminate.
      + now apply is_nil_nil.
      + now apply is_nil_nil.
      + apply andb_prop in H as [_ H]. now apply is_nil_nil.
    - cbn [app shape] in H.
      assert (Hnn : is_nil (pre ++ e :: rest) = false) by (destruct pre; reflexivity).
      destruct ph as [| |q w]; destruct e0 as [[|]| |p s [v| |]|p v ans]; try discriminate;
        try (eapply IH; [exact H|exact He]); try congruence.
      + destruct (added_has veqb added p v); (eapply IH; [exact H|exact He]).
      + apply andb_prop in H as [_ H]. destruct ans; try (eapply IH; [exact H|exact He]). congruence.
  Qed.

  Hypothesis veqb_eq : forall a b, veqb a b = true -> a = b.

  Definition errs_ok (o : outcome) (consumed : list event) : Prop :=
    forall e, In e consumed -> is_err e = true -> err_outcome e = Some o.

  Lemma errs_ok_prio o pre : all_prio pre -> errs_ok o pre.
  Proof.
    intros H e Hin He. unfold all_prio in H. rewrite Forall_forall in H. specialize (H e Hin).
    destruct e; try contradiction. discriminate.
  Qed.

  Lemma errs_ok_app o a b : errs_ok o a -> errs_ok o b -> errs_ok o (a ++ b).
  Proof. intros Ha Hb e Hin. apply in_app_or in Hin as [H|H]; auto. Qed.

  Lemma errs_ok_one o (e : event) : (is_err e = true -> err_outcome e = Some o) -> errs_ok o [e].
  Proof. intros H e' [<-|[]]. exact H. Qed.

  Lemma resolve_loop_err fuel : forall st next added (tr : list event) n log,
    let R := resolve_loop O veqb fuel st next added tr n log in
    n <= snd R /\ errs_ok (fst (fst (fst R))) (firstn (snd R - n) tr).
  Proof.
    induction fuel as [|fuel IH]; intros st next added tr n log; cbn [resolve_loop]; cbn zeta.
    { cbn [fst snd]. split; [lia|]. rewrite firstn_le_nil by lia. intros e []. }
    assert (Hnil : forall o (l : list event), n <= n /\ errs_ok o (firstn (n - n) l)).
    { intros o l. split; [lia|]. rewrite firstn_le_nil by lia. intros e []. }
    destruct tr as [|[ok| | |] tr1]; cbn [fst snd]; try apply Hnil.
    destruct ok; cbn [negb fst snd].
    2:{ split; [lia|]. replace (S n - n) with 1 by lia. cbn [firstn]. apply errs_ok_one. reflexivity. }
    assert (Hone : forall o (X : list event), n <= S n /\ errs_ok o (firstn (S n - n) (EvCancel true :: X))).
    { intros o X. split; [lia|]. replace (S n - n) with 1 by lia. cbn [firstn]. apply errs_ok_one. discriminate. }
    destruct (unit_propagation O (S fuel) st [next]) as [[st1|st1 id]|[|s]]; cbn [fst snd]; try apply Hone.
    2:{ destruct (build_derivation_tree (store st1) id); cbn [fst snd]; apply Hone. }
    destruct (do_prioritize O (pick_candidates (ps st1)) (queue (ps st1)) tr1 (S n)) as [[[q tr2] n2]|o] eqn:Ep;
      cbn [fst snd]; [|apply Hone].
    destruct (do_prioritize_count O _ _ _ _ _ _ _ Ep) as (pre & -> & Hpre & ->).
    assert (Hhead : forall o, errs_ok o (EvCancel true :: pre)).
    { intros o. change (EvCancel true :: pre) with ([EvCancel true] ++ pre).
      apply errs_ok_app; [apply errs_ok_one; discriminate|now apply errs_ok_prio]. }
    assert (Hat : forall o, n <= S n + length pre /\
                  errs_ok o (firstn (S n + length pre - n) (EvCancel true :: pre ++ tr2))).
    { intros o. split; [lia|]. rewrite firstn_head by lia. replace (S n + length pre - S (n + length pre)) with 0 by lia.
      cbn [firstn]. rewrite app_nil_r. apply Hhead. }
    assert (Hch : forall o p s a tr3, tr2 = EvChoose p s a :: tr3 -> (a = CErr -> o = OErrChoose) ->
                  n <= S (S n + length pre) /\
                  errs_ok o (firstn (S (S n + length pre) - n) (EvCancel true :: pre ++ tr2))).
    { intros o p s a tr3 -> Ha. split; [lia|]. rewrite firstn_head by lia.
      replace (S (S n + length pre) - S (n + length pre)) with 1 by lia. cbn [firstn].
      change (EvCancel true :: pre ++ [EvChoose p s a]) with ((EvCancel true :: pre) ++ [EvChoose p s a]).
      apply errs_ok_app; [apply Hhead|]. apply errs_ok_one. destruct a; try discriminate. intros _. now rewrite Ha. }
    destruct (queue_max q) as [mx|].
    2:{ unfold res_out. destruct (extract_solution (ps st1)); cbn [fst snd]; apply Hat. }
    destruct tr2 as [|[| |p s ans|] tr3]; cbn [fst snd]; try apply Hat.
    destruct (get p q) as [[prio qs]|]; cbn [fst snd]; [|apply Hat].
    destruct (negb (Z.eqb prio mx)); cbn [fst snd]; [apply Hat|].
    destruct (term_for _ p) as [[cur|cur]|]; cbn [fst snd]; try apply Hat.
    destruct (negb (vs_eqb O s cur)); cbn [fst snd]; [apply Hat|].
    assert (Hrec : forall (hd : list event) added' tr4 st' nxt lg,
               EvChoose p s ans :: tr3 = hd ++ tr4 -> (forall o, errs_ok o hd) ->
               let R := resolve_loop O veqb fuel st' nxt added' tr4 (S n + length pre + length hd) lg in
               n <= snd R /\
               errs_ok (fst (fst (fst R))) (firstn (snd R - n) (EvCancel true :: pre ++ EvChoose p s ans :: tr3))).
    { intros hd added' tr4 st' nxt lg Hsplit Hhd.
      destruct (IH st' nxt added' tr4 (S n + length pre + length hd) lg) as [Hle Hs].
      cbn zeta. split; [lia|]. rewrite Hsplit.
      rewrite firstn_head by lia. rewrite firstn_app. rewrite firstn_all2 by lia.
      change (EvCancel true :: pre ++ hd ++ ?X) with ((EvCancel true :: pre) ++ hd ++ X).
      apply errs_ok_app; [apply Hhead|]. apply errs_ok_app; [apply Hhd|].
      match goal with |- errs_ok _ (firstn ?a tr4) =>
        replace a with (snd (resolve_loop O veqb fuel st' nxt added' tr4 (S n + length pre + length hd) lg) - (S n + length pre + length hd)) by lia end.
      exact Hs. }
    destruct ans as [v| |]; cbn [fst snd].
    - destruct (negb (t_contains O (Pos cur) v)); cbn [fst snd]; [(eapply Hch; [reflexivity|discriminate])|].
      destruct (added_has veqb added p v) eqn:Eadd.
      + unfold res_out. destruct (add_decision O _ p v); cbn [fst snd]; [|(eapply Hch; [reflexivity|discriminate])].
        replace (S (S n + length pre)) with (S n + length pre + length [EvChoose p s (CSome v)]) by (cbn; lia).
        apply (Hrec [EvChoose p s (CSome v)] added tr3); [reflexivity|].
        intros o. apply errs_ok_one. discriminate.
      + destruct tr3 as [|[| | |p' v' dans] tr4]; cbn [fst snd]; try (eapply Hch; [reflexivity|discriminate]).
        destruct (N.eqb p p' && veqb v v') eqn:Epv; cbn [negb fst snd]; [|(eapply Hch; [reflexivity|discriminate])].
        assert (Hdeps_end : forall o, (dans = DErr -> o = OErrDeps p v) ->
                  n <= S (S (S n + length pre)) /\
                  errs_ok o (firstn (S (S (S n + length pre)) - n)
                     (EvCancel true :: pre ++ EvChoose p s (CSome v) :: EvDeps p' v' dans :: tr4))).
        { intros o Ho. split; [lia|]. rewrite firstn_head by lia.
          replace (S (S (S n + length pre)) - S (n + length pre)) with 2 by lia. cbn [firstn].
          change (EvCancel true :: pre ++ [EvChoose p s (CSome v); EvDeps p' v' dans])
            with ((EvCancel true :: pre) ++ [EvChoose p s (CSome v)] ++ [EvDeps p' v' dans]).
          apply errs_ok_app; [apply Hhead|]. apply errs_ok_app; [apply errs_ok_one; discriminate|].
          apply errs_ok_one. destruct dans; try discriminate. intros _. rewrite (Ho eq_refl).
          apply andb_prop in Epv as [Hp Hv]. apply N.eqb_eq in Hp. apply veqb_eq in Hv. now subst. }
        destruct dans as [deps|m|]; cbn [fst snd].
        * unfold res_out. destruct (add_incompatibility_from_dependencies O _ p v deps) as [[st3 range]|]; cbn [fst snd];
            [|apply Hdeps_end; discriminate].
          destruct (add_version O (ps st3) p v range (store st3)); cbn [fst snd]; [|apply Hdeps_end; discriminate].
          replace (S (S (S n + length pre))) with (S n + length pre + length [EvChoose p s (CSome v); EvDeps p' v' (DAvail deps)]) by (cbn; lia).
          apply (Hrec [EvChoose p s (CSome v); EvDeps p' v' (DAvail deps)] ((p, v) :: added) tr4); [reflexivity|].
          intros o e [<-|[<-|[]]]; discriminate.
        * unfold res_out. destruct (add_incompatibility O _ (custom_version O p v m)); cbn [fst snd];
            [|apply Hdeps_end; discriminate].
          replace (S (S (S n + length pre))) with (S n + length pre + length [EvChoose p s (CSome v); EvDeps p' v' (DUnavail m)]) by (cbn; lia).
          apply (Hrec [EvChoose p s (CSome v); EvDeps p' v' (DUnavail m)] ((p, v) :: added) tr4); [reflexivity|].
          intros o e [<-|[<-|[]]]; discriminate.
        * apply Hdeps_end. reflexivity.
    - destruct (no_versions p (Pos cur)); cbn [fst snd]; [|(eapply Hch; [reflexivity|discriminate])].
      unfold res_out. destruct (add_incompatibility O _ i); cbn [fst snd]; [|(eapply Hch; [reflexivity|discriminate])].
      replace (S (S n + length pre)) with (S n + length pre + length [(EvChoose p s CNone : event)]) by (cbn; lia).
      apply (Hrec [(EvChoose p s CNone : event)] added tr3); [reflexivity|]. intros o. apply errs_ok_one. discriminate.
    - eapply Hch; [reflexivity|reflexivity].
  Qed.

  (* every error answer among the calls the run made determines the outcome ... *)
  Theorem resolve_error_answer_outcome fuel r v (tr : list event) o st log k :
    resolve O veqb fuel r v tr = (o, st, log, k) ->
    forall e, In e (firstn k tr) -> is_err e = true -> err_outcome e = Some o.
  Proof.
    intros E. pose proof (resolve_loop_err fuel (state_init O r v) r [] tr 0 []) as H. cbn zeta in H.
    unfold resolve in E. rewrite E in H. cbn [fst snd] in H. destruct H as [_ H]. now rewrite Nat.sub_0_r in H.
  Qed.

  (* ... and it is the last call made: nothing follows it among the consumed calls *)
  Theorem resolve_error_answer_last fuel r v (tr : list event) o st log k :
    resolve O veqb fuel r v tr = (o, st, log, k) ->
    forall pre e rest, firstn k tr = pre ++ e :: rest -> is_err e = true -> rest = [].
  Proof.
    intros E pre e rest Hsplit He.
    pose proof (resolve_protocol O veqb fuel r v tr) as Hs. cbn zeta in Hs. rewrite E in Hs. cbn [snd] in Hs.
    rewrite Hsplit in Hs. exact (shape_error_last _ _ _ _ _ Hs He).
  Qed.
End Faults.
