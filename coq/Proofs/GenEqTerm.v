(* Translator tie for src/term.rs (kept apart from the range tables: an edit of range.rs must not break the tie of
   C11, an edit of term.rs not the tie of C10/C15/C16). *)
From Coq Require Import List Bool.
From PG Require Import Model.VS Model.Term.
From PG Require Import Gen.TermTables.

Section GenTermEq.
  Context {VS Vr : Type} (O : VSOps VS Vr).

  Theorem term_tables_match_source :
    (forall t, gen_t_negate t = t_negate (VS := VS) t)
    /\ (forall t v, gen_t_contains O t v = t_contains O t v)
    /\ (forall t u, gen_t_intersection O t u = t_intersection O t u)
    /\ (forall t u, gen_t_union O t u = t_union O t u)
    /\ (forall t u, gen_t_is_disjoint O t u = t_is_disjoint O t u)
    /\ (forall t u, gen_t_subset_of O t u = t_subset_of O t u)
    /\ (forall t u, gen_t_relation_with O t u = t_relation_with O t u).
  Proof.
    repeat split; intros; unfold gen_t_relation_with, t_relation_with;
      try (destruct t; try destruct u; reflexivity).
  Qed.
End GenTermEq.
